# Per-property configuration of bin/check.
PROPS = {
    "C12": {
        "drivers": ["TestDrive_C12"],
        "projection": "classification verdicts (fallback applied / retry re-invoked / breaker failure count / retry aborted / hedge cancelled) and errors.Is / ErrorTypesMatch results",
        "trusted": ["Go standard library errors.Is / reflect (mirrored for the generated error shapes and validated by direct calls in this run)"],
        "assumptions": ["result type R instantiated to int (reflect.DeepEqual = integer equality)",
                        "registration lists are non-nil; targets of HandleErrors are non-nil"],
        "keyfn": lambda c: None,
        "design_ref": "DESIGN.md 4.12",
        "level_text": "Proof: is_failure/is_abortable/hedge-cancel of the Gallina mirror of policy.go + util.go equal the documented truth table for every list of registrations (any subset, order, repetition) and every outcome; errors.Is / ErrorTypesMatch mirrors are proved equal to an inductive unwrap-tree relation. Tie: every run enumerates the full grid (16 subsets x 3 orders x 48 outcomes) through a Fallback, a RetryPolicy, a breaker, retry-abort and hedge-cancel on the real code plus random registrations / error trees, and coqc compares each observation with the model and with the documented rule.",
        "level_note": "Trusted: Coq kernel + vm_compute; hand-written model (tie = correspondence of this run); Go harness and error-shape mapping; errors.Is/reflect semantics mirrored for the generated shapes only; R=int. No axioms (Print Assumptions: closed).",
    },
    "C05": {
        "drivers": ["TestDrive_C05"],
        "projection": "every value returned by the ten RateLimiter methods and by the limiter used as a policy, and the virtual instant at which each call returns (policy: the instant the function starts)",
        "trusted": [],
        "assumptions": ["configurations with interval > 0 / maxExecutions > 0 and period > 0 (others divide by zero in the code)",
                        "requests for at least one permit; instants measured on the limiter's own stopwatch, non-decreasing"],
        "design_ref": "DESIGN.md 4.5",
        "level_text": "Proof: the Gallina mirror of smoothStats/burstyStats.acquirePermits and of the API wrappers refines an abstract grant ledger (earliest slot with room, k permits = k singles, refusal changes nothing) for every configuration and every call history; capacity per slot/period, earliest grant, refusal invisibility and not-early blocking are theorems about all histories. Tie: every run drives fresh limiters through generated histories (exact boundary instants, idle gaps, all ten methods + policy route) under a virtual clock and coqc compares every returned value and return instant with the model and with the ledger.",
        "level_note": "Trusted: Coq kernel + vm_compute; hand-written model (tie = this run's correspondence); Go harness; testing/synctest virtual clock; mutex atomicity of acquirePermits (C14). No axioms.",
    },
}
