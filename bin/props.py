# Per-property configuration of bin/check.
PROPS = {
    "C12": {
        "drivers": ["TestDrive_C12"],
        "projection": "classification verdicts (fallback applied / retry re-invoked / breaker failure count / retry aborted / hedge cancelled) and errors.Is / ErrorTypesMatch results",
        "trusted": ["Go standard library errors.Is / reflect (mirrored for the generated error shapes and validated by direct calls in this run)"],
        "assumptions": ["result type R instantiated to int (reflect.DeepEqual = integer equality)",
                        "registration lists are non-nil; targets of HandleErrors are non-nil"],
        "keyfn": lambda c: None,
        "design_ref": "DESIGN.md 4.12",
        "level_text": "Proof: is_failure/is_abortable/hedge-cancel of the Gallina mirror of policy.go + util.go equal the documented truth table for every list of registrations (any subset, order, repetition) and every outcome; errors.Is / ErrorTypesMatch mirrors are proved equal to an inductive unwrap-tree relation. Tie: every run enumerates the full grid (16 subsets x 3 orders x 48 outcomes) through a Fallback, a RetryPolicy, a breaker, retry-abort and hedge-cancel on the real code plus random registrations / error trees, and coqc compares each observation with the model and with the documented rule.",
        "level_note": "Trusted: Coq kernel + vm_compute; hand-written model (tie = correspondence of this run); Go harness and error-shape mapping; errors.Is/reflect semantics mirrored for the generated shapes only; R=int. No axioms (Print Assumptions: closed).",
    },
}
