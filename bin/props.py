# Per-property configuration of bin/check.
PROPS = {
    "C12": {
        "drivers": ["TestDrive_C12"],
        "projection": "classification verdicts (fallback applied / retry re-invoked / breaker failure count / retry aborted / hedge cancelled) and errors.Is / ErrorTypesMatch results",
        "trusted": ["Go standard library errors.Is / reflect (mirrored for the generated error shapes and validated by direct calls in this run)"],
        "assumptions": ["result type R instantiated to int (reflect.DeepEqual = integer equality)",
                        "registration lists are non-nil; targets of HandleErrors are non-nil"],
        "keyfn": lambda c: None,
    },
}
