(* Spec/LimiterSpec.v — the rate limiter as a grant ledger (property C05).
   The ledger holds one entry per granted permit: the index of the slot
   (smooth: interval slot, bursty: period) in which the permit becomes usable.
   A permit is granted in the earliest slot, not before the request's own slot,
   that still has room; it is usable at the start of that slot or at the request
   instant, whichever is later.  A request for k permits is k single requests at
   the same instant, waiting for the last; a request whose wait would exceed the
   max wait time changes nothing. *)
From FS Require Export Model.RateLimiter.

Definition ledger := list Z.

Definition count (l : ledger) (s : Z) : Z := Z.of_nat (count_occ Z.eq_dec l s).

Definition ledger_max (l : ledger) (q : Z) : Z := fold_right Z.max q l.

Fixpoint find_free (cap : Z) (l : ledger) (q : Z) (fuel : nat) : Z :=
  match fuel with
  | O => q
  | S f => if count l q <? cap then q else find_free cap l (q + 1) f
  end.

(* the earliest slot >= q with room *)
Definition earliest_free (cap : Z) (l : ledger) (q : Z) : Z :=
  find_free cap l q (Z.to_nat (ledger_max l q + 1 - q)).

(* slot width and slot capacity of a configuration *)
Definition slot_width (c : lcfg) : Z := match c with Smooth i => i | Bursty _ p => p end.
Definition slot_cap (c : lcfg) : Z := match c with Smooth _ => 1 | Bursty pp _ => pp end.

(* one permit requested at [now]: (wait, slot) *)
Definition spec_single (c : lcfg) (l : ledger) (now : Z) : Z * Z :=
  let s := earliest_free (slot_cap c) l (now / slot_width c) in
  (Z.max (slot_width c * s) now - now, s).

(* k single requests at the same instant; the wait is the last one's *)
Fixpoint spec_singles (c : lcfg) (l : ledger) (now : Z) (k : nat) (w : Z) : Z * ledger :=
  match k with
  | O => (w, l)
  | S k' => let '(w', s) := spec_single c l now in spec_singles c (s :: l) now k' w'
  end.

Definition spec_acquire (c : lcfg) (l : ledger) (now k maxw : Z) : Z * ledger :=
  let '(w, l') := spec_singles c l now (Z.to_nat k) 0 in
  if exceeds_max_wait w maxw then (-1, l) else (w, l').

Definition spec_run (c : lcfg) : ledger -> list (Z * lop) -> list lobs := api_run (spec_acquire c).

Fixpoint spec_final (c : lcfg) (l : ledger) (h : list (Z * lop)) : ledger :=
  match h with
  | [] => l
  | (now, op) :: h' => spec_final c (snd (api_step (spec_acquire c) l now op)) h'
  end.

(* state reached after a history (generic in the permit source) *)
Fixpoint api_final {S : Type} (acq : S -> Z -> Z -> Z -> Z * S) (s : S) (h : list (Z * lop)) : S :=
  match h with
  | [] => s
  | (now, op) :: h' => api_final acq (snd (api_step acq s now op)) h'
  end.
