(* Spec/BreakerSpec.v — the documented windows of the circuit breaker (C03).
   The same three-state machine as Model/Breaker.v, but the statistics of a
   state are simply the log of the results recorded in that state, and the
   metrics are computed from the documented window:
   - count-based: the last [capacity] recorded results;
   - time-based: the results recorded in one of the last ten time slices
     (slice = thresholding period / 10) counted from the slice of the most
     recent record.  Hence a result older than the period never counts and one
     from the most recent nine tenths of the period always does. *)
From FS Require Export Model.Breaker.

Inductive wkind := WCount (capacity : Z) | WTimed (slice_nanos : Z).

Record astats := { a_kind : wkind; a_log : list (Z * bool) (* (instant, success), newest first *) }.

Definition a_window (a : astats) : list (Z * bool) :=
  match a_kind a with
  | WCount cap => firstn (Z.to_nat cap) (a_log a)
  | WTimed nanos =>
      match a_log a with
      | [] => []
      | (tnew, _) :: _ =>
          filter (fun e => tnew / nanos - bucket_count <? fst e / nanos) (a_log a)
      end
  end.

Definition count_if (f : bool -> bool) (l : list (Z * bool)) : Z :=
  Z.of_nat (length (filter (fun e => f (snd e)) l)).

Definition abs_impl : stats_impl astats :=
  {| si_exec := fun a => Z.of_nat (length (a_window a));
     si_fail := fun a => count_if negb (a_window a);
     si_succ := fun a => count_if (fun b => b) (a_window a);
     si_record := fun a now v => {| a_kind := a_kind a; a_log := (now, v) :: a_log a |};
     si_new_closed := fun c =>
       {| a_kind := if negb (b_fperiod c =? 0) then WTimed (b_fperiod c / bucket_count) else WCount (closed_capacity c);
          a_log := [] |};
     si_new_half := fun c => {| a_kind := WCount (halfopen_capacity c); a_log := [] |} |}.

Definition spec_init (c : bcfg) : bstate (S := astats) := new_closed abs_impl c.
Definition spec_brun (c : bcfg) (h : list (Z * bop)) : list bobs := brun abs_impl c (spec_init c) h.
