(* Spec/Verdict.v — the story a retry policy's events must tell, as an automaton over the (kind, stack position) pairs of a
   log: OnAbort / OnRetriesExceeded directly after an OnFailure of the same position (one of them at most) and nothing but a
   new OnFailure / OnSuccess after them; OnRetryScheduled directly after an OnFailure; OnRetry after its OnRetryScheduled. *)
From FS Require Export Model.Exec.

Inductive vstate := VNormal | VFailed | VDone | VPending.

Definition vstepk (pos : nat) (k : evk * nat) (s : option vstate) : option vstate :=
  match s with
  | None => None
  | Some v =>
      if Nat.eqb (snd k) pos then
        match fst k with
        | KPolFailure => Some VFailed
        | KPolSuccess => Some VNormal
        | KAbort | KRetriesExceeded => match v with VFailed => Some VDone | _ => None end
        | KRetryScheduled => match v with VFailed => Some VPending | _ => None end
        | KRetry => match v with VPending => Some VNormal | _ => None end
        | _ => Some v
        end
      else Some v
  end.

(* over the (kind, position) list of a trace, newest first *)
Fixpoint vstk (pos : nat) (l : list (evk * nat)) : option vstate :=
  match l with
  | [] => Some VNormal
  | k :: l' => vstepk pos k (vstk pos l')
  end.


(* the same over a log in the order it was written *)
Definition vrun (pos : nat) (l : list (evk * nat)) : option vstate := fold_left (fun s k => vstepk pos k s) l (Some VNormal).

Lemma vrun_vstk pos l : vrun pos l = vstk pos (rev l).
Proof.
  unfold vrun. rewrite <- fold_left_rev_right. induction (rev l) as [|k r IH]; [reflexivity|].
  cbn [fold_right vstk]. rewrite IH. reflexivity.
Qed.

(* ---- exhaustion is final: once a retry policy has logged OnRetriesExceeded it logs nothing more in that execution ---- *)
(* the kinds a retry policy logs *)
Definition verdict_kind (k : evk) : bool :=
  match k with KPolFailure | KPolSuccess | KAbort | KRetriesExceeded | KRetryScheduled | KRetry => true | _ => false end.

(* the automaton of one position over (kind, position) pairs: Some false = not exhausted, Some true = exhausted, None = a
   retry-policy event was logged after OnRetriesExceeded *)
Definition xstep (pos : nat) (k : evk * nat) (s : option bool) : option bool :=
  match s with
  | None => None
  | Some ex =>
      if Nat.eqb (snd k) pos && verdict_kind (fst k) then
        if ex then None
        else match fst k with KRetriesExceeded => Some true | _ => Some false end
      else Some ex
  end.

Fixpoint xstk (pos : nat) (l : list (evk * nat)) : option bool :=
  match l with
  | [] => Some false
  | k :: l' => xstep pos k (xstk pos l')
  end.


Definition xrun (pos : nat) (l : list (evk * nat)) : option bool := fold_left (fun s k => xstep pos k s) l (Some false).

Lemma xrun_xstk pos l : xrun pos l = xstk pos (rev l).
Proof.
  unfold xrun. rewrite <- fold_left_rev_right. induction (rev l) as [|k r IH]; [reflexivity|].
  cbn [fold_right xstk]. rewrite IH. reflexivity.
Qed.
