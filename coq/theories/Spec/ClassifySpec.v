(* Spec/ClassifySpec.v — the documented handle-condition rules (C12), stated
   against the list of builder calls, without the incremental flag the code keeps. *)
From FS Require Export Model.Classify.

(* Which error values a traversal of Unwrap() error / Unwrap() []error visits. *)
Inductive reaches : err -> err -> Prop :=
  | reach_refl : forall e, reaches e e
  | reach_wrap : forall x n, reaches x n -> reaches (EWrap x) n
  | reach_join : forall xs x n, In x xs -> reaches x n -> reaches (EJoin xs) n
  | reach_exc : forall r x n, reaches x n -> reaches (EExceeded r (Some x)) n
  | reach_exc_none : forall r, reaches (EExceeded r None) EAnon.

(* errors.Is, documented: some visited value equals the target or accepts it
   through its own Is method. *)
Definition is_documented (e t : err) : Prop :=
  exists n, reaches e n /\ (err_ideq n t = true \/ has_is_method n t = true).

(* HandleErrorTypes, documented: "the type of the error or of anything it wraps or joins". *)
Definition type_documented (e : err) (tt : option dyn_type) : Prop :=
  exists n, reaches e n /\ assignable n tt = true.

Definition conds_of_hcall (c : hcall) : list cond :=
  match c with
  | HandleErrors ts => map CErrIs ts
  | HandleErrorTypes ts => map CErrType ts
  | HandleResult r => [CResult r]
  | HandleIf p => [CIf p]
  end.

Definition error_handling_call (c : hcall) : bool :=
  match c with HandleResult _ => false | _ => true end.

Definition all_conds (calls : list hcall) : list cond := flat_map conds_of_hcall calls.

(* The documented rule of FailurePolicyBuilder (policy.go doc comment, property C12). *)
Definition documented_is_failure (calls : list hcall) (o : outcome) : bool :=
  match all_conds calls with
  | [] => has_err o
  | cs => existsb (cond_matches o) cs
          || (has_err o && negb (existsb error_handling_call calls))
  end.

Definition conds_of_acall (c : acall) : list cond :=
  match c with
  | AbortOnErrors ts => map CErrIs ts
  | AbortOnErrorTypes ts => map CErrType ts
  | AbortOnResult r => [CResult r]
  | AbortIf p => [CIf p]
  end.

(* any match aborts; none configured means never abort *)
Definition documented_is_abortable (calls : list acall) (o : outcome) : bool :=
  existsb (cond_matches o) (flat_map conds_of_acall calls).

(* hedge: any match cancels; none configured means cancel on any result *)
Definition documented_hedge_cancels (calls : list acall) (o : outcome) : bool :=
  match flat_map conds_of_acall calls with
  | [] => true
  | cs => existsb (cond_matches o) cs
  end.
