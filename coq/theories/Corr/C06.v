(* Corr/C06.v — correspondence for the bulkhead: scripted schedules over executions (gated functions)
   and standalone callers sharing one bulkhead under a virtual clock. *)
From FS Require Export Model.Bulkhead.

Definition kcode (s : kstate) : Z :=
  match s with KIdle => 0 | KWaiting _ => 1 | KHolding => 2 | KReleased => 3 | KRefused => 4 | KCancelled => 5 end.

Record snap := { sn_threads : list Z; sn_aux : Z (* TryAcquirePermit: 1/0 *) }.

(* [c_n = 0] with an empty schedule: a balance probe - executions whose context was cancelled before they reached the
   bulkhead (Go's select may then either take a free permit or report the context error): whatever each of them did,
   all permits must be free at the end *)
Record case := mk_case {
  c_id : Z; c_cap : Z; c_maxwait : Z; c_n : nat; c_start : Z; c_trace : list kstep; c_obs : list snap; c_free : Z }.

Fixpoint zl_eqb (a b : list Z) : bool :=
  match a, b with [], [] => true | x :: a', y :: b' => (x =? y) && zl_eqb a' b' | _, _ => false end.

Fixpoint model_snaps (k : bconf) (tr : list kstep) : list snap * bconf :=
  match tr with
  | [] => ([], k)
  | x :: tr' =>
      let k' := kstep_do k x in
      let aux := match x with KTryAcquire => if k_ext k <? k_ext k' then 1 else 0 | _ => 0 end in
      let '(l, kf) := model_snaps k' tr' in
      ({| sn_threads := map kcode (k_threads k'); sn_aux := aux |} :: l, kf)
  end.

Fixpoint snaps_eqb (a b : list snap) : bool :=
  match a, b with
  | [], [] => true
  | x :: a', y :: b' => zl_eqb (sn_threads x) (sn_threads y) && (sn_aux x =? sn_aux y) && snaps_eqb a' b'
  | _, _ => false
  end.

Definition agrees (c : case) : bool :=
  let '(l, kf) := model_snaps (kinit (c_cap c) (c_maxwait c) (c_start c) (c_n c)) (c_trace c) in
  snaps_eqb l (c_obs c) && (c_free c =? k_cap kf - k_held kf).

(* the property on the implementation's own observations: standalone holders are tracked from the observed
   TryAcquirePermit results and the ReleasePermit steps of the schedule *)
Fixpoint obs_ok (cap ext : Z) (tr : list kstep) (obs : list snap) : bool * Z * Z :=
  match tr, obs with
  | x :: tr', s :: obs' =>
      let ext' := match x with KTryAcquire => ext + sn_aux s | KRelease => Z.max 0 (ext - 1) | _ => ext end in
      let h := Z.of_nat (length (filter (fun z => z =? 2) (sn_threads s))) in
      let '(ok, e, hl) := obs_ok cap ext' tr' obs' in
      ((h + ext' <=? cap) && ok, e, hl)
  | _, _ => (true, ext, 0)
  end.

Definition last_holding (obs : list snap) : Z :=
  match rev obs with s :: _ => Z.of_nat (length (filter (fun z => z =? 2) (sn_threads s))) | [] => 0 end.

Definition checker_ok (c : case) : bool :=
  let '(ok, ext, _) := obs_ok (c_cap c) 0 (c_trace c) (c_obs c) in
  ok && (c_free c =? c_cap c - last_holding (c_obs c) - ext).

Definition mismatches (cs : list case) : list Z := map c_id (filter (fun c => negb (agrees c)) cs).
Definition checker_failures (cs : list case) : list Z := map c_id (filter (fun c => negb (checker_ok c)) cs).
