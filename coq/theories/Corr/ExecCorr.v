(* Corr/ExecCorr.v — shared correspondence machinery for executions through
   policy stacks: a case is a set of policy instances, a history of requests run
   one after the other on those instances, and what each execution showed
   (returned outcome, end instant, the ordered log of every listener and of the
   function's entry/exit, the public state of the instances afterwards). *)
From FS Require Export Model.Exec.

Record request := {
  q_stack : list policy; q_script : list fn_step; q_gap : Z;
  q_ext : option (Z * err);          (* offset from the start, ctx.Err() *)
  q_key : ctxkey; q_withexec : bool; q_run : bool (* Run*: the result is discarded *);
  q_lsn : bool * bool * bool (* which of Executor.OnSuccess / OnFailure / OnDone are registered *);
  q_blsn : Z (* which state-change listeners the history's breakers have: bits OnClose, OnOpen, OnHalfOpen, OnStateChanged *) }.

(* an unregistered completion listener sees nothing (executor.go:274-281) *)
Definition lsn_keeps (l : bool * bool * bool) (e : event) : bool :=
  match e_kind e with
  | KExecSuccess => fst (fst l)
  | KExecFailure => snd (fst l)
  | KExecDone => snd l
  | _ => true
  end.

(* a breaker without a listener for an event does not log it: the tag is the low two bits of the event code *)
Definition blsn_keeps (mask : Z) (e : event) : bool :=
  match e_kind e with
  | KBreaker => Z.testbit mask (e_aux e mod 4)
  | _ => true
  end.

Record insts := {
  i_breakers : list (list bcall); i_limiters : list lcfg;
  i_bulkheads : list (Z * Z); i_caches : list (list (Z * Z)) }.

Record xobs := {
  x_out : outcome; x_start : Z; x_end : Z; x_events : list event;
  x_state : list (list Z) * list (list (Z * Z)) }.

(* model observation plus the schedule-dependence / fuel flag *)
Definition flagged (w : world) : bool := w_oof w.

Record hcase := mk_hcase { h_id : Z; h_start : Z; h_insts : insts; h_reqs : list request; h_obs : list xobs }.

Definition fuel_of (q : request) : nat := 64.

(* sorted cache content (keys ascending), for comparison with the harness' sorted dump *)
Fixpoint insert_kv (p : Z * Z) (l : list (Z * Z)) : list (Z * Z) :=
  match l with
  | [] => [p]
  | q :: l' => if fst p <=? fst q then p :: l else q :: insert_kv p l'
  end.
Definition sort_kv (l : list (Z * Z)) : list (Z * Z) := fold_right insert_kv [] l.

Definition breaker_pub (p : bcfg * bstate (S := stats)) : list Z :=
  state_code (snd p) :: metrics conc_impl (state_stats (snd p)).

Definition pub_state (w : world) : list (list Z) * list (list (Z * Z)) :=
  (map breaker_pub (w_breakers w), map sort_kv (w_caches w))  (* key 0 is the empty key: an entry a backend holds under it is never read or written *).

Definition init_world_insts (start : Z) (i : insts) :=
  (map (fun calls => let c := build_bcfg calls in (c, cb_init c)) (i_breakers i),
   map (fun c => (c, start, lim_init c)) (i_limiters i),
   i_bulkheads i, i_caches i).

(* one request on the instances left by the previous one *)
Definition run_request (now : Z) (b : list (bcfg * bstate (S := stats))) (l : list (lcfg * Z * lstate))
    (k : list (Z * Z)) (c : list (list (Z * Z))) (q : request) : xobs * world :=
  let t0 := now + q_gap q in
  let w0 := fresh_world t0 (match q_ext q with Some (t, e) => Some (t0 + t, e) | None => None end) (q_key q) b l k c (q_script q) in
  let '(r, w1) := execute (fuel_of q) (q_stack q) w0 in
  let o := if q_run q then (0, pr_err r) else pr_out r in
  (* hedge attempts still running go on to their end before the next request starts; their events are part of the log *)
  let w2 := drain w1 in
  let w3 := if hedge_innermost (q_stack q) then w2 else set_oof w2 in
  ({| x_out := o; x_start := t0; x_end := w_now w1; x_events := filter (blsn_keeps (q_blsn q)) (filter (lsn_keeps (q_lsn q)) (rev (w_trace w3))); x_state := pub_state w3 |}, w3).

Fixpoint any_flagged (now : Z) (b : list (bcfg * bstate (S := stats))) (l : list (lcfg * Z * lstate))
    (k : list (Z * Z)) (c : list (list (Z * Z))) (qs : list request) : bool :=
  match qs with
  | [] => false
  | q :: qs' =>
      let '(_, w) := run_request now b l k c q in
      flagged w || any_flagged (w_now w) (w_breakers w) (w_limiters w) (w_bulkheads w) (w_caches w) qs'
  end.

Fixpoint run_reqs (now : Z) (b : list (bcfg * bstate (S := stats))) (l : list (lcfg * Z * lstate))
    (k : list (Z * Z)) (c : list (list (Z * Z))) (qs : list request) : list xobs :=
  match qs with
  | [] => []
  | q :: qs' =>
      let '(o, w) := run_request now b l k c q in
      o :: run_reqs (w_now w) (w_breakers w) (w_limiters w) (w_bulkheads w) (w_caches w) qs'
  end.

Definition run_history (h : hcase) : list xobs :=
  let '(b, l, k, c) := init_world_insts (h_start h) (h_insts h) in
  run_reqs (h_start h) b l k c (h_reqs h).

(* ---- comparison ---- *)
Definition evk_code (k : evk) : Z :=
  match k with
  | KFnStart => 0 | KFnEnd => 1 | KRetryScheduled => 2 | KRetry => 3 | KRetriesExceeded => 4 | KAbort => 5
  | KPolSuccess => 6 | KPolFailure => 7 | KTimeoutExceeded => 8 | KFallbackExecuted => 9
  | KCacheHit => 10 | KCacheMiss => 11 | KCached => 12 | KRateExceeded => 13 | KFull => 14 | KBreaker => 15
  | KExecSuccess => 16 | KExecFailure => 17 | KExecDone => 18 | KHedge => 19
  end.

Definition is_fn_event (e : event) : bool := match e_kind e with KFnStart | KFnEnd => true | _ => false end.

(* full comparison of one event; for entry points that hand no Execution to the function the
   harness cannot read the counters inside it, so they are not compared there;
   breaker state-change events carry no execution *)
Definition event_eqb (withexec : bool) (a b : event) : bool :=
  (evk_code (e_kind a) =? evk_code (e_kind b)) && Nat.eqb (e_pos a) (e_pos b) && (e_time a =? e_time b)
  && ((negb withexec && is_fn_event a) (* IsHedge cannot be read without an Execution *) || (e_aux a =? e_aux b))
  && (match e_kind a with
      | KBreaker => true
      | KFnStart | KFnEnd =>
          if withexec then (e_attempts a =? e_attempts b) && (e_retries a =? e_retries b) && (e_hedges a =? e_hedges b) && (e_executions a =? e_executions b)
                           && outcome_eqb (e_out a) (e_out b) && (e_start a =? e_start b) && (e_astart a =? e_astart b)
          else match e_kind a with KFnEnd => outcome_eqb (e_out a) (e_out b) | _ => true end
      | _ => (e_attempts a =? e_attempts b) && (e_retries a =? e_retries b) && (e_hedges a =? e_hedges b) && (e_executions a =? e_executions b)
             && outcome_eqb (e_out a) (e_out b) && (e_start a =? e_start b) && (e_astart a =? e_astart b)
      end).

Fixpoint all2 {A B} (f : A -> B -> bool) (a : list A) (b : list B) : bool :=
  match a, b with
  | [], [] => true
  | x :: a', y :: b' => f x y && all2 f a' b'
  | _, _ => false
  end.

Definition state_eqb (a b : list (list Z) * list (list (Z * Z))) : bool :=
  all2 (all2 Z.eqb) (fst a) (fst b) && all2 (all2 (fun p q => (fst p =? fst q) && (snd p =? snd q))) (snd a) (snd b).

(* model events of kinds the harness does not observe for this entry point are dropped nowhere: the logs must align *)
Definition xobs_eqb (withexec : bool) (m o : xobs) : bool :=
  outcome_eqb (x_out m) (x_out o) && (x_start m =? x_start o) && (x_end m =? x_end o) && all2 (event_eqb withexec) (x_events m) (x_events o)
  && state_eqb (x_state m) (x_state o).

Fixpoint hist_eqb (qs : list request) (m o : list xobs) : bool :=
  match qs, m, o with
  | [], [], [] => true
  | q :: qs', x :: m', y :: o' => xobs_eqb (q_withexec q) x y && hist_eqb qs' m' o'
  | _, _, _ => false
  end.

(* histories whose model run is schedule-dependent (simultaneous events) or ran out of fuel are not compared *)
(* a Timeout whose limit is zero or negative arms a timer that is due at once: whether its callback or the attempt's
   function acts first is up to the scheduler *)
Definition has_elapsed_limit (q : request) : bool :=
  existsb (fun p => match p with PTimeout l => l <=? 0 | _ => false end) (q_stack q).

Definition skipped (h : hcase) : bool :=
  let '(b, l, k, c) := init_world_insts (h_start h) (h_insts h) in
  any_flagged (h_start h) b l k c (h_reqs h) || existsb has_elapsed_limit (h_reqs h).

Definition agrees (h : hcase) : bool := skipped h || hist_eqb (h_reqs h) (run_history h) (h_obs h).

Definition mismatches (cs : list hcase) : list Z := map h_id (filter (fun h => negb (agrees h)) cs).
Definition skipped_ids (cs : list hcase) : list Z := map h_id (filter skipped cs).

(* ---- diagnosis: where do model and observation first differ? ---- *)
Inductive diff :=
  | DNone
  | DOutcome (req : nat) (m o : outcome)
  | DEnd (req : nat) (m o : Z)
  | DEvent (req idx : nat) (m o : option event)
  | DState (req : nat) (m o : list (list Z) * list (list (Z * Z)))
  | DShape.

Fixpoint ev_diff (withexec : bool) (req idx : nat) (m o : list event) : diff :=
  match m, o with
  | [], [] => DNone
  | x :: m', y :: o' => if event_eqb withexec x y then ev_diff withexec req (S idx) m' o' else DEvent req idx (Some x) (Some y)
  | x :: _, [] => DEvent req idx (Some x) None
  | [], y :: _ => DEvent req idx None (Some y)
  end.

Fixpoint hist_diff (n : nat) (qs : list request) (m o : list xobs) : diff :=
  match qs, m, o with
  | [], [], [] => DNone
  | q :: qs', x :: m', y :: o' =>
      match ev_diff (q_withexec q) n 0 (x_events x) (x_events y) with
      | DNone =>
          if negb (outcome_eqb (x_out x) (x_out y)) then DOutcome n (x_out x) (x_out y)
          else if negb (x_end x =? x_end y) then DEnd n (x_end x) (x_end y)
          else if negb (state_eqb (x_state x) (x_state y)) then DState n (x_state x) (x_state y)
          else hist_diff (S n) qs' m' o'
      | d => d
      end
  | _, _, _ => DShape
  end.

Definition first_diff (h : hcase) : diff := hist_diff 0 (h_reqs h) (run_history h) (h_obs h).
