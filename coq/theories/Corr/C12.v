(* Corr/C12.v — correspondence for failure classification: the harness writes
   one [case] per observation of the real code; [mismatches] lists the cases
   where the model predicts something else; [checker_failures] lists the cases
   where the observation contradicts the documented rule (the property). *)
From FS Require Export Model.Classify Spec.ClassifySpec.

Inductive route : Type := RFallback | RRetry | RBreaker.

Inductive case : Type :=
  | CaseFail (id : Z) (r : route) (calls : list hcall) (o : outcome) (obs : bool)
  | CaseAbort (id : Z) (calls : list acall) (o : outcome) (obs : bool)
  | CaseHedge (id : Z) (calls : list acall) (o : outcome) (obs : bool)
  | CaseIs (id : Z) (e t : err) (obs : bool)
  | CaseTypes (id : Z) (e : err) (t : tgt) (obs : bool).

Definition case_id (c : case) : Z :=
  match c with
  | CaseFail id _ _ _ _ | CaseAbort id _ _ _ | CaseHedge id _ _ _
  | CaseIs id _ _ _ | CaseTypes id _ _ _ => id
  end.

Definition case_obs (c : case) : bool :=
  match c with
  | CaseFail _ _ _ _ b | CaseAbort _ _ _ b | CaseHedge _ _ _ b
  | CaseIs _ _ _ b | CaseTypes _ _ _ b => b
  end.

(* what the model of the code computes *)
Definition model_obs (c : case) : bool :=
  match c with
  | CaseFail _ _ calls o _ => is_failure (build_fpolicy calls) o
  | CaseAbort _ calls o _ => is_abortable (build_abort calls) o
  | CaseHedge _ calls o _ => is_abortable (build_hedge_cancel calls) o
  | CaseIs _ e t _ => errors_is e t
  | CaseTypes _ e t _ => types_match (Some e) t
  end.

(* what the property demands (documented rule) *)
Definition documented_obs (c : case) : bool :=
  match c with
  | CaseFail _ _ calls o _ => documented_is_failure calls o
  | CaseAbort _ calls o _ => documented_is_abortable calls o
  | CaseHedge _ calls o _ => documented_hedge_cancels calls o
  | CaseIs _ e t _ => errors_is e t        (* mirrors only: no separate documented form *)
  | CaseTypes _ e t _ => types_match (Some e) t
  end.

Definition mismatches (cs : list case) : list Z :=
  map case_id (filter (fun c => negb (Bool.eqb (model_obs c) (case_obs c))) cs).

Definition checker_failures (cs : list case) : list Z :=
  map case_id (filter (fun c => negb (Bool.eqb (documented_obs c) (case_obs c))) cs).
