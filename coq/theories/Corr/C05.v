(* Corr/C05.v — correspondence for the rate limiter: one case = one limiter
   configuration, one history of API calls at stopwatch instants, and what the
   real limiter returned (value, return instant) for each call. *)
From FS Require Export Model.RateLimiter Spec.LimiterSpec.

Record case := mk_case {
  c_id : Z; c_cfg : lcfg; c_hist : list (Z * lop); c_obs : list (Z * Z) }.

Definition obs_pairs (l : list lobs) : list (Z * Z) := map (fun o => (o_val o, o_ret o)) l.

Fixpoint pairs_eqb (a b : list (Z * Z)) : bool :=
  match a, b with
  | [], [] => true
  | (x1, y1) :: a', (x2, y2) :: b' => (x1 =? x2) && (y1 =? y2) && pairs_eqb a' b'
  | _, _ => false
  end.

Definition case_guard (c : case) : bool := cfg_ok (c_cfg c) && hist_ok 0 (c_hist c).

Definition model_obs (c : case) : list (Z * Z) :=
  obs_pairs (lim_run (c_cfg c) (lim_init (c_cfg c)) (c_hist c)).

(* what the property demands: the grant ledger's answers *)
Definition spec_obs (c : case) : list (Z * Z) :=
  obs_pairs (spec_run (c_cfg c) [] (c_hist c)).

Definition mismatches (cs : list case) : list Z :=
  map c_id (filter (fun c => negb (case_guard c && pairs_eqb (model_obs c) (c_obs c))) cs).

Definition checker_failures (cs : list case) : list Z :=
  map c_id (filter (fun c => negb (case_guard c && pairs_eqb (spec_obs c) (c_obs c))) cs).
