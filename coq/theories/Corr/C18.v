(* Corr/C18.v — correspondence for the HTTP and gRPC adapters (scripted in-memory transports). *)
From FS Require Export Model.Adapter Model.Ledger.

Inductive case :=
  | CaseHTTP (id : Z) (script : list attempt_result) (client_level : bool)
             (rcfg : Z * Z)   (* delay configured besides the Retry-After delay function: (base, backoff maximum) in ns, (0, 0) = none *)
             (attempts : Z) (instants : list Z)
             (status errcode : Z) (bodies_ok same_request values_seen deadline_seen body_readable both_ctx : bool)
             (opened closed : Z) (leak : bool)
  | CaseBody (id : Z) (kind : body_kind) (size : Z) (offset : nat) (is_error no_body each_complete : bool)
  | CaseGRPC (id : Z) (codes : list Z) (calls : Z) (ret : Z) (args_ok md_seen reply_ok leak : bool)
  (* attempts overlapping in time: how many attempts, how many were not cancelled when they finished reading the body,
     did each of those / each attempt at all receive the complete body *)
  | CaseOverlap (id : Z) (kind : body_kind) (attempts live : Z) (live_ok all_ok leak : bool)
  (* a core-library scenario run in a bubble followed by a virtual hour: did any goroutine remain blocked? *)
  | CaseCore (id : Z) (kind : Z) (leak : bool)
  (* the spawn sites found in the sources of this run *)
  | CaseSites (id : Z) (sites : list site).

Definition case_id (c : case) : Z :=
  match c with CaseHTTP id _ _ _ _ _ _ _ _ _ _ _ _ _ _ _ _ | CaseBody id _ _ _ _ _ _ | CaseGRPC id _ _ _ _ _ _ _ | CaseOverlap id _ _ _ _ _ _ | CaseCore id _ _ | CaseSites id _ => id end.

(* the harness repeats the last scripted behaviour when the script is shorter than the number of attempts *)
Definition pad (script : list attempt_result) : list attempt_result :=
  script ++ repeat (last script (AErr HPlainOther)) 4.

Definition herr_code (e : herr) : Z :=
  match e with
  | HCtxCanceled => 2 | HUnsupportedScheme => 3 | HCertNotTrusted => 4 | HStoppedAfterRedirects => 5
  | HUnknownAuthority => 6 | HUrlOther | HPlainOther => 7
  end.

Fixpoint diffs (l : list Z) : list Z :=
  match l with a :: ((b :: _) as l') => (b - a) :: diffs l' | _ => [] end.

Fixpoint zl_eqb (a b : list Z) : bool :=
  match a, b with [], [] => true | x :: a', y :: b' => (x =? y) && zl_eqb a' b' | _, _ => false end.

(* default policy: 2 retries *)
Definition http_expect (rcfg : Z * Z) (script : list attempt_result) : Z * Z * Z * list Z :=
  let '(r, k, ds) := http_retry_b (fst rcfg) (snd rcfg) 0 (pad script) 2 0 in
  match r with
  | Some i => match nth i (pad script) (AErr HPlainOther) with
              | AResp rs => (Z.of_nat k, rs_status rs, 0, ds)
              | AErr e => (Z.of_nat k, 0, herr_code e, ds)
              end
  | None => (* retries exceeded: ExceededError, unless the policy returns the last response ... the default policy wraps *)
            (Z.of_nat k, 0, 1, ds)
  end.

Fixpoint grpc_calls (codes : list Z) (retries_left : nat) (n : Z) : Z * Z :=
  match codes with
  | [] => (n, -3)
  | c :: rest =>
      if c =? -1 then (n + 1, -1)
      else if c =? -2 then (n + 1, -2)
      else if grpc_retryable (Some c) then
        (* exhausted: ExceededError wraps the last status error; status.FromError still finds its code *)
        match retries_left with O => (n + 1, c) | S k => grpc_calls rest k (n + 1) end
      else (n + 1, c)
  end.

(* a retry policy configured with WithRandomDelay(lo, hi) besides the delay function -- written (lo, -hi) in the case --
   waits the Retry-After when the response gives one and a duration in [lo, hi] otherwise *)
Fixpoint waits_ok (lo hi : Z) (script : list attempt_result) (waits : list Z) : bool :=
  match waits, script with
  | [], _ => true
  | d :: waits', a :: script' =>
      (if http_delay a =? -1 then (lo <=? d) && (d <=? hi) else d =? Z.max 0 (http_delay a)) && waits_ok lo hi script' waits'
  | _ :: _, [] => false
  end.

Definition delays_agree (rcfg : Z * Z) (script : list attempt_result) (waits ds : list Z) : bool :=
  if snd rcfg <? 0 then Nat.eqb (List.length waits) (List.length ds) && waits_ok (fst rcfg) (- snd rcfg) (pad script) waits
  else zl_eqb waits ds.

Definition agrees (c : case) : bool :=
  match c with
  | CaseHTTP _ script _ rcfg attempts instants status errcode bodies same vals dl readable both _ _ leak =>
      let '(k, st, ec, ds) := http_expect (if snd rcfg <? 0 then (fst rcfg, 0) else rcfg) script in
      (attempts =? k) && (status =? st) && (errcode =? ec) && delays_agree rcfg script (diffs instants) ds
      && bodies && same && vals && dl && Bool.eqb readable (negb both || (status =? 0)) && negb leak
  | CaseBody _ kind size off is_err no_body ok =>
      match kind with
      | BUnsupported => is_err
      | BNone => negb is_err && no_body
      | _ => negb is_err && negb no_body && ok
      end
  | CaseGRPC _ codes calls ret args md reply leak =>
      let '(n, r) := grpc_calls (codes ++ repeat (last codes (-1)) 4) 2 0 in
      (calls =? n) && (ret =? r) && args && md && reply && negb leak
  | CaseOverlap _ kind attempts live live_ok all_ok leak =>
      (* the model's attempt bodies are a function of the original body alone (bodies_of_attempts): no attempt can
         disturb another, whether or not they overlap *)
      (2 <=? attempts) && (1 <=? live) && live_ok && all_ok && negb leak
  | CaseCore _ _ leak => negb leak
  | CaseSites _ sites => sites_known sites && negb (Nat.eqb (List.length sites) 0)
  end.

(* C18 on the implementation's observations alone *)
Definition checker18 (c : case) : bool :=
  match c with
  | CaseHTTP _ script _ rcfg attempts instants status errcode bodies same vals dl readable _ _ _ _ =>
      let '(k, st, ec, ds) := http_expect (if snd rcfg <? 0 then (fst rcfg, 0) else rcfg) script in
      (attempts =? k) && (status =? st) && (errcode =? ec)
      (* waits at least the Retry-After, whatever other delay is configured *)
      && forallb (fun p => snd p <=? fst p) (combine (diffs instants) (map retry_after_floor (pad script)))
      && bodies && same && vals && dl && readable
  | CaseOverlap _ _ attempts live live_ok _ _ => (2 <=? attempts) && (1 <=? live) && live_ok
  | _ => agrees c
  end.

(* C19 on the implementation's observations: nothing left behind; responses obtained but not returned are closed *)
Definition checker19 (c : case) : bool :=
  match c with
  | CaseHTTP _ _ _ _ _ _ status _ _ _ _ _ _ _ opened closed leak =>
      negb leak && (closed =? opened)      (* the harness closes the returned response's body itself *)
  | CaseGRPC _ _ _ _ _ _ _ leak => negb leak
  | CaseBody _ _ _ _ _ _ _ => true
  | CaseOverlap _ _ _ _ _ _ leak => negb leak
  | CaseCore _ _ leak => negb leak
  | CaseSites _ sites => sites_known sites
  end.

(* what an execution leaves behind is C19's subject (Corr/C19.v judges the same cases with the leak flag) *)
Definition no_leak (c : case) : case :=
  match c with
  | CaseHTTP id sc cl rc at_ ins st ec b s v d r both op cl' _ => CaseHTTP id sc cl rc at_ ins st ec b s v d r both op cl' false
  | CaseGRPC id codes calls ret a m r _ => CaseGRPC id codes calls ret a m r false
  | CaseOverlap id k at_ live lo ao _ => CaseOverlap id k at_ live lo ao false
  | c => c
  end.

Definition mismatches (cs : list case) : list Z := map case_id (filter (fun c => negb (agrees (no_leak c))) cs).
Definition checker_failures (cs : list case) : list Z := map case_id (filter (fun c => negb (checker18 c)) cs).
