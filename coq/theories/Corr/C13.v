(* Corr/C13.v — correspondence for retry delays: the util helpers with explicit draws (bit exact),
   and end-to-end sequences of scheduled delays observed through OnRetryScheduled under a virtual clock. *)
From FS Require Export Model.Delay.

(* delay function of the harness: value by number of failures so far (1-based), -1 = none *)
Definition dfn_at (tbl : list (Z * Z)) (k : Z) : Z :=
  match find (fun p => fst p =? k) tbl with Some p => snd p | None => -1 end.

Inductive case :=
  | CaseRange (id dmin dmax : Z) (draw : fl) (obs : Z)
  | CaseJitter (id delay jitter : Z) (draw : fl) (obs : Z)
  | CaseFactor (id delay : Z) (jf draw : fl) (obs : Z)
  (* one execution whose function fails at once every time: per retry (delay, instant of scheduling, instant the next attempt starts),
     instants relative to the execution's start *)
  | CaseSeq (id : Z) (c : dcfg) (tbl : list (Z * Z))
            (lag : Z)   (* time the failure listener and the delay function take between an attempt's failure and the scheduling of the retry *)
            (obs : list (Z * Z * Z)).

Definition case_id (c : case) : Z :=
  match c with CaseRange id _ _ _ _ | CaseJitter id _ _ _ _ | CaseFactor id _ _ _ _ | CaseSeq id _ _ _ _ => id end.

Definition randomised (c : dcfg) : bool :=
  negb (d_jitter c =? 0) || negb (fst (d_jitter_factor c) =? 0) || ((d_delay c =? 0) && negb (d_min c =? 0) && negb (d_max c =? 0)).

(* deterministic configurations: the exact sequence; the function takes no time, the listeners and the delay function
   take [lag], so the k-th delay is scheduled at the sum of the previous ones and lags; the max-duration clamp uses the
   elapsed time at that instant *)
Fixpoint seq_model (c : dcfg) (tbl : list (Z * Z)) (lag : Z) (n : nat) (k last elapsed : Z) : list (Z * Z * Z) :=
  match n with
  | O => []
  | S n' =>
      let t := elapsed + lag in
      let '(d, last') := get_delay c last (k - 1) t (dfn_at tbl k) (0, 1) (0, 1) (0, 1) in
      (d, t, t + d) :: seq_model c tbl lag n' (k + 1) last' (t + d)
  end.

Fixpoint triples_eqb (a b : list (Z * Z * Z)) : bool :=
  match a, b with
  | [], [] => true
  | (x1, y1, z1) :: a', (x2, y2, z2) :: b' => (x1 =? x2) && (y1 =? y2) && (z1 =? z2) && triples_eqb a' b'
  | _, _ => false
  end.

Definition agrees (c : case) : bool :=
  match c with
  | CaseRange _ a b d o => random_delay_in_range a b d =? o
  | CaseJitter _ dl j d o => random_delay dl j d =? o
  | CaseFactor _ dl jf d o => random_delay_factor dl jf d =? o
  | CaseSeq _ cfg tbl lag obs =>
      if randomised cfg then true else triples_eqb (seq_model cfg tbl lag (length obs) 1 0 0) obs
  end.

(* the envelope of the property, evaluated on the implementation's observations *)
Definition clamp_md (c : dcfg) (d elapsed : Z) : Z := adjust_for_max_duration c d elapsed.

Fixpoint seq_envelope (c : dcfg) (tbl : list (Z * Z)) (k last : Z) (obs : list (Z * Z * Z)) : bool :=
  match obs with
  | [] => true
  | (d, t_sched, t_next) :: obs' =>
      let computed := dfn_at tbl k in
      let '(base, last') := if negb (computed =? -1) then (computed, last) else fixed_or_random c last (k - 1) (0, 1) in
      let in_range :=
        if (computed =? -1) && (d_delay c =? 0) && negb (d_min c =? 0) && negb (d_max c =? 0) then None
        else Some base in
      let '(lo, hi) :=
        match in_range with
        | None => (d_min c, d_max c)
        | Some b => (b, b)
        end in
      let '(lo, hi) :=
        if negb (d_jitter c =? 0) then ((if lo =? 0 then 0 else lo - d_jitter c), (if hi =? 0 then 0 else hi + d_jitter c))
        else if negb (fst (d_jitter_factor c) =? 0) then
          let jn := fst (d_jitter_factor c) in let jd := snd (d_jitter_factor c) in
          (* |jittered - base| <= jitterFactor * base + base * 2^-21 + 2 (float32 rounding of the delay itself and of the product) *)
          let slack b := (b * jn) / jd + b / 2097152 + 2 in
          (lo - slack lo, hi + slack hi)
        else (lo, hi) in
      (0 <=? d) && (clamp_md c lo t_sched <=? d) && (d <=? clamp_md c hi t_sched)
      && (if negb (d_max_duration c =? 0) then d <=? Z.max 0 (d_max_duration c - t_sched) else true)
      && (t_sched + d <=? t_next)                   (* the next attempt never starts before the delay elapsed *)
      && (if negb (d_max_delay c =? 0) && (computed =? -1) then base <=? Z.max (d_delay c) (d_max_delay c) else true)
      && seq_envelope c tbl (k + 1) last' obs'
  end.

Definition envelope_ok (c : case) : bool :=
  match c with
  | CaseRange _ a b d o => (a <=? o) && (o <=? b)
  | CaseJitter _ dl j d o => (dl - j <=? o) && (o <=? dl + j)
  | CaseFactor _ dl jf d o =>
      let s := (dl * fst jf) / snd jf + dl / 2097152 + 2 in (dl - s <=? o) && (o <=? dl + s)
  | CaseSeq _ cfg tbl _ obs => seq_envelope cfg tbl 1 0 obs
  end.

Definition mismatches (cs : list case) : list Z := map case_id (filter (fun c => negb (agrees c)) cs).
Definition checker_failures (cs : list case) : list Z := map case_id (filter (fun c => negb (envelope_ok c)) cs).
