(* Corr/C07.v — correspondence on whole executions (Corr/ExecCorr.v) and the C07 checker (Corr/ExecCheckers.v). *)
From FS Require Export Corr.ExecCorr Corr.ExecCheckers.
Definition case := hcase.
Definition checker_failures (cs : list hcase) : list Z := failures_of c07_ok cs ++ failures_always c07_late_ok cs.
