(* Corr/C01.v — policies compose as nested wrappers: correspondence on whole executions *)
From FS Require Export Corr.ExecCorr.
Definition case := hcase.
Definition checker_failures (cs : list hcase) : list Z := [].
