(* Corr/ExecCheckers.v — executable checkers evaluated on the IMPLEMENTATION's observed logs
   (oldest event first), one per property; those marked "proved" hold on every model log by a theorem. *)
From FS Require Export Corr.ExecCorr.
From FS Require Import Spec.Verdict.
From FS Require Import Proofs.ExecProofs Proofs.ExecStats.

Definition kind_is (k : evk) (e : event) : bool := evk_code (e_kind e) =? evk_code k.
Definition count_kind (k : evk) (l : list event) : Z := Z.of_nat (length (filter (kind_is k) l)).

(* ---- C17 (proved: Properties/C17.v) : counters exact at every observation point.
   [seen] = events so far, newest first. *)
Fixpoint stats_ok (seen : list event) (retries hedges execs : Z) (tlast : Z) (l : list event) : bool :=
  match l with
  | [] => true
  | e :: l' =>
      let retries' := if kind_is KRetry e then retries + 1 else retries in
      let hedges' := if kind_is KHedge e then hedges + 1 else hedges in
      let execs' := if kind_is KFnEnd e then execs + 1 else execs in
      (match e_kind e with
       | KBreaker => true      (* state-change events carry no execution *)
       | _ => (e_attempts e =? 1 + e_retries e + e_hedges e) && (e_retries e =? retries') && (e_hedges e =? hedges')
              && (e_executions e =? execs')
       end)
      && (tlast <=? e_time e) && stats_ok (e :: seen) retries' hedges' execs' (e_time e) l'
  end.

(* start times (not covered by the theorem; evaluated on the implementation's log): every observer sees the same
   StartTime, the instant the execution began; an AttemptStartTime lies between it and the instant of the observation *)
Definition times_ok (o : xobs) : bool :=
  forallb (fun e => match e_kind e with
                    | KBreaker => true
                    | _ => (e_start e =? x_start o)
                           && ((e_astart e =? -1) || ((x_start o <=? e_astart e) && (e_astart e <=? e_time e)))
                    end) (x_events o).

(* what the function could read of the previous attempt (LastResult / LastError) was the same at its exit as at its
   entry: the harness reports a difference in the aux field of the function-exit entry (the model's is always 0) *)
Definition exit_view_ok (o : xobs) : bool :=
  forallb (fun e => match e_kind e with KFnEnd => e_aux e =? 0 | _ => true end) (x_events o).

Definition c17_ok (q : request) (o : xobs) : bool :=
  if q_withexec q then stats_ok [] 0 0 0 (match x_events o with e :: _ => e_time e | [] => 0 end) (x_events o) && times_ok o && exit_view_ok o else true.

(* ---- C16: completion events exactly once and consistent; retry events consistent *)
Definition last_n {A} (n : nat) (l : list A) : list A := rev (firstn n (rev l)).

(* a rate limiter decides at once: OnRateLimitExceeded fires at the instant of the event before it (or of the start) --
   never after a wait.  Evaluated for stacks whose only layer that can wait silently is this one limiter (the wait of
   another limiter or of a bulkhead further out leaves no event at its end) *)
Definition sole_waiter (stack : list policy) : bool :=
  Nat.eqb (length (filter (fun p => match p with PLimiter _ _ => true | _ => false end) stack)) 1
  && negb (existsb (fun p => match p with PBulkhead _ _ => true | _ => false end) stack).

Fixpoint rate_events_immediate (tprev : Z) (l : list event) : bool :=
  match l with
  | [] => true
  | e :: l' => (if kind_is KRateExceeded e then e_time e =? tprev else true) && rate_events_immediate (e_time e) l'
  end.

(* per retry policy (stack position): every OnRetry is preceded by its own OnRetryScheduled -- a retry that was decided may
   be cancelled before it starts (then another OnRetryScheduled may follow), but none starts without having been decided *)
Fixpoint retry_pairs_ok (pos : nat) (pending : bool) (l : list event) : bool :=
  match l with
  | [] => true
  | e :: l' =>
      if Nat.eqb (e_pos e) pos && kind_is KRetryScheduled e then retry_pairs_ok pos true l'
      else if Nat.eqb (e_pos e) pos && kind_is KRetry e then pending && retry_pairs_ok pos false l'
      else retry_pairs_ok pos pending l'
  end.

(* breaker state-change events: a state-specific listener's event (tag = code of the new state) is followed at once by the
   generic listener's event for the same transition when the generic listener is registered, and a generic event is
   preceded by the specific one when that one is registered *)
Fixpoint breaker_events_match (mask : Z) (pending : option (nat * Z)) (l : list event) : bool :=
  match l with
  | [] => match pending with None => true | Some _ => false end
  | e :: l' =>
      if kind_is KBreaker e then
        let tag := e_aux e mod 4 in
        let trans := e_aux e / 4 in
        if tag =? 3 then
          (if Z.testbit mask (trans mod 4)
           then match pending with Some (p, tr) => Nat.eqb p (e_pos e) && (tr =? trans) | None => false end
           else match pending with None => true | Some _ => false end)
          && breaker_events_match mask None l'
        else
          match pending with
          | Some _ => false
          | None => (tag =? trans mod 4) && breaker_events_match mask (if Z.testbit mask 3 then Some (e_pos e, trans) else None) l'
          end
      else match pending with
           | Some _ => false       (* nothing comes between the two listeners of one transition *)
           | None => breaker_events_match mask None l'
           end
  end.

(* the verdict automaton of Spec/Verdict.v accepts the log at every stack position *)
Definition verdicts_ok (q : request) (o : xobs) : bool :=
  forallb (fun p => match vrun p (map (fun e => (e_kind e, e_pos e)) (x_events o)) with Some _ => true | None => false end)
          (seq 0 (length (q_stack q))).

(* exhaustion is final (Spec/Verdict.v xstep): nothing of a retry policy is logged after its OnRetriesExceeded *)
Definition exhaustion_ok (q : request) (o : xobs) : bool :=
  forallb (fun p => match xrun p (map (fun e => (e_kind e, e_pos e)) (x_events o)) with Some _ => true | None => false end)
          (seq 0 (length (q_stack q))).

Definition c16_ok (q : request) (o : xobs) : bool :=
  let evs := x_events o in
  let '(ls, lf, ld) := q_lsn q in
  let ns := count_kind KExecSuccess evs in let nf := count_kind KExecFailure evs in let nd := count_kind KExecDone evs in
  (if sole_waiter (q_stack q) then rate_events_immediate (x_start o) evs else true) &&
  (nd =? (if ld then 1 else 0)) && (ns + nf <=? 1)
  && (if ls && lf then ns + nf =? 1 else true)
  && forallb (fun e => if kind_is KExecSuccess e || kind_is KExecFailure e || kind_is KExecDone e
                       then outcome_eqb (e_out e) (if q_run q then (fst (e_out e), snd (x_out o)) else x_out o) else true) evs
  && forallb (fun p => retry_pairs_ok p false evs) (seq 0 (length (q_stack q)))
  && (count_kind KFnStart evs =? count_kind KFnEnd evs)
  && breaker_events_match (q_blsn q) None evs
  && verdicts_ok q o && exhaustion_ok q o.

(* ---- C02: in any stack, a retry policy with a bound starts at most maxRetries retries within one execution -- however often an
        enclosing policy re-enters it, and whatever other executions go through the same policy object meanwhile;
        a retry policy that is the whole stack runs the function at most maxRetries+1 times, and ExceededError wraps the
        last outcome *)
Definition retries_bounded (q : request) (o : xobs) : bool :=
  forallb (fun ip => match snd ip with
                     | PRetry cfg =>
                         if 0 <=? r_max_retries cfg
                         then Z.of_nat (length (filter (fun e => kind_is KRetry e && Nat.eqb (e_pos e) (fst ip)) (x_events o))) <=? r_max_retries cfg
                         else true
                     | _ => true
                     end) (combine (seq 0 (length (q_stack q))) (q_stack q)).

Definition c02_ok (q : request) (o : xobs) : bool :=
  retries_bounded q o && exhaustion_ok q o &&
  match q_stack q with
  | [PRetry cfg] =>
      let n := count_kind KFnStart (x_events o) in
      (if 0 <=? r_max_retries cfg then n <=? r_max_retries cfg + 1 else true)
      && (1 <=? n)
      && (match snd (x_out o) with
          | Some (EExceeded r e) =>
              match last_n 1 (filter (kind_is KFnEnd) (x_events o)) with
              | [fe] =>
                  (* either the function itself returned this error, or the policy wrapped the last outcome *)
                  oerr_eqb (snd (x_out o)) (snd (e_out fe))
                  || ((if q_run q then true else r =? fst (e_out fe)) && oerr_eqb e (snd (e_out fe)) && negb (r_return_last cfg))
              | _ => false
              end
          | _ => true
          end)
  | _ => true
  end.

(* ---- C11: nothing inside the cache policy happens after a hit (the next event belongs to an
        enclosing layer or to the executor) *)
Fixpoint c11_hits_ok (l : list event) : bool :=
  match l with
  | e :: ((e' :: _) as l') =>
      (if kind_is KCacheHit e then Nat.leb (e_pos e') (e_pos e) || kind_is KExecSuccess e' || kind_is KExecFailure e' || kind_is KExecDone e' else true)
      && c11_hits_ok l'
  | _ => true
  end.
(* a cache policy that is the outermost policy: after a miss the returned result is stored (OnResultCached fires) exactly
   when it is cacheable -- no error under the default condition, or a CacheIf condition matches -- and the key is not "" *)
Definition c11_store_ok (q : request) (o : xobs) : bool :=
  match q_stack q with
  | PCache _ cfg :: _ =>
      let missed := existsb (fun e => kind_is KCacheMiss e && Nat.eqb (e_pos e) 0) (x_events o) in
      let stored := existsb (fun e => kind_is KCached e && Nat.eqb (e_pos e) 0) (x_events o) in
      let key := match q_key q with CKStr k => k | _ => ca_key cfg end in
      let out := x_out o in
      let cacheable := (match ca_conds cfg with [] => true | _ => false end && negb (has_err out)) || applies_to_any (ca_conds cfg) out in
      if q_run q then true
      else if missed then Bool.eqb stored (cacheable && negb (key =? 0)) else negb stored
  | _ => true
  end.

(* without a key (none configured and none in the context, or an empty one in the context) an outermost cache policy is
   neither read nor written: no hit, no store *)
Definition c11_nokey_ok (q : request) (o : xobs) : bool :=
  match q_stack q with
  | PCache _ cfg :: _ =>
      let key := match q_key q with CKStr k => k | _ => ca_key cfg end in
      if key =? 0 then negb (existsb (fun e => (kind_is KCacheHit e || kind_is KCached e) && Nat.eqb (e_pos e) 0) (x_events o)) else true
  | _ => true
  end.

Definition c11_ok (q : request) (o : xobs) : bool := c11_hits_ok (x_events o) && c11_store_ok q o && c11_nokey_ok q o.

(* ---- C10: the fallback is applied only after this fallback classified the inner result a failure, with nothing said by this
        layer or by an enclosing one in between (a slow failure listener or fallback function leaves room for stragglers of
        the layers below: hedged attempts that lost and are still finishing) *)
Fixpoint c10_fb_ok (before : list event (* latest first *)) (l : list event) : bool :=
  match l with
  | [] => true
  | e :: l' =>
      (if kind_is KFallbackExecuted e && (e_aux e =? 0) then
         match find (fun p => Nat.leb (e_pos p) (e_pos e) && negb (kind_is KFallbackExecuted p && (e_aux p =? 1))) before with
         | Some p => kind_is KPolFailure p && Nat.eqb (e_pos p) (e_pos e)
         | None => false
         end
       else true) && c10_fb_ok (e :: before) l'
  end.
(* the fallback function is never applied to an execution that is already cancelled: the harness' fallback functions log an
   entry with aux = 1 when they find their execution cancelled on entry (the listener's own entries carry 0) *)
Definition fb_not_on_cancelled (l : list event) : bool :=
  forallb (fun e => negb (kind_is KFallbackExecuted e) || (e_aux e =? 0)) l.
Definition c10_ok (q : request) (o : xobs) : bool := c10_fb_ok [] (x_events o) && fb_not_on_cancelled (x_events o).

(* ---- C01: admission — the function runs only between the admission of every enclosing breaker,
        limiter, bulkhead and cache layer: a rejection event (RateExceeded, Full, CacheHit) is never
        followed by an event of a layer below it before an enclosing layer speaks again *)
Fixpoint c01_reject_ok (l : list event) : bool :=
  match l with
  | e :: ((e' :: _) as l') =>
      (if kind_is KRateExceeded e || kind_is KFull e || kind_is KCacheHit e
       then Nat.leb (e_pos e') (e_pos e) || kind_is KExecSuccess e' || kind_is KExecFailure e' || kind_is KExecDone e' else true)
      && c01_reject_ok l'
  | _ => true
  end.
Definition c01_ok (q : request) (o : xobs) : bool := c01_reject_ok (x_events o) && c16_ok q o.

(* ---- C07: a Timeout that is the outermost policy: ErrExceeded is returned iff its listener fired, which
        happens at most once and not before start + limit; otherwise the listener never fires *)
Definition c07_ok (q : request) (o : xobs) : bool :=
  match q_stack q with
  | PTimeout limit :: _ =>
      let fired := filter (fun e => kind_is KTimeoutExceeded e && Nat.eqb (e_pos e) 0) (x_events o) in
      let is_timeout := match snd (x_out o) with Some ETimeout => true | _ => false end in
      (Z.of_nat (length fired) <=? 1)
      && (match fired with
          | [e] => is_timeout && (x_start o + limit <=? e_time e)
          | _ => negb is_timeout || existsb (fun e => kind_is KFnEnd e && match snd (e_out e) with Some ETimeout => true | _ => false end) (x_events o)
                 || existsb (kind_is KFallbackExecuted) (x_events o) || existsb (kind_is KTimeoutExceeded) (x_events o)
          end)
  | _ => true
  end.

(* an outermost Timeout whose execution took longer than its limit (a limit that is zero or negative has elapsed from the
   start) did time out: its listener fired and the caller got ErrExceeded.  Sound whatever the schedule (evaluated on
   schedule-dependent histories too): the timer is armed for start + limit and cannot be stopped before the function returns *)
Definition c07_late_ok (q : request) (o : xobs) : bool :=
  match q_stack q with
  | PTimeout limit :: _ =>
      if x_start o + Z.max limit 0 <? x_end o then
        match snd (x_out o) with Some ETimeout => true | _ => false end
        && existsb (fun e => kind_is KTimeoutExceeded e && Nat.eqb (e_pos e) 0) (x_events o)
      else true
  | _ => true
  end.

(* ---- C08: after an external cancellation at most one further attempt starts, and the execution does
        not outlive the step that was in progress (function invocation) when the cancellation fired *)
(* the error handed to the caller names the cause: an error of one of the three cancellation kinds is the kind of the
   source that was active (the only source: stacks with a Timeout are not cancelled from outside as well) *)
Definition cancel_kind (e : err) : bool :=
  match e with ECtxCanceled | ECtxDeadline | EExecCanceled => true | _ => false end.
Definition same_cancel_kind (a b : err) : bool :=
  match a, b with
  | ECtxCanceled, ECtxCanceled | ECtxDeadline, ECtxDeadline | EExecCanceled, EExecCanceled => true
  | _, _ => false
  end.
Definition cause_named (src : err) (out : outcome) : bool :=
  match snd out with
  | Some e => if cancel_kind e then same_cancel_kind e src else true
  | None => true
  end.

(* user code other than the function that takes time without watching for the cancellation (a slow failure listener, a slow
   fallback function): the execution is not "cooperating" *)
Definition slow_user_code (stack : list policy) : bool :=
  existsb (fun p => match p with
                    | PRetry cfg => 0 <? r_lsn_dur cfg
                    | PFallback cfg => (0 <? fb_lsn_dur cfg) || (0 <? fb_dur cfg)
                    | _ => false
                    end) stack.

Definition c08_ok (q : request) (o : xobs) : bool :=
  match q_ext q with
  | Some (dt, src) =>
      let tc := x_start o + dt in
      cause_named src (x_out o) && fb_not_on_cancelled (x_events o) &&
      (* an execution that ends at the very instant of the cancellation was ended by it (coincidences are schedule-dependent
         and not judged): it reports the cause *)
      (if x_end o =? tc then match snd (x_out o) with Some e => same_cancel_kind e src | None => false end else true) &&
      if x_end o <? tc then true
      else
        (Z.of_nat (length (filter (fun e => kind_is KFnStart e && (tc <? e_time e)) (x_events o))) <=? 1)
        && (let ends_after := filter (fun e => kind_is KFnEnd e && (tc <=? e_time e)) (x_events o) in
            match ends_after with
            | [] => x_end o <=? tc
            | e :: _ => x_end o <=? Z.max tc (e_time e)
            end
            || negb (forallb (fun s => match fs_coop s with Some _ => true | None => false end) (q_script q) && q_withexec q)
            || slow_user_code (q_stack q))
  | None => true
  end.

(* ---- C09 on executions whose innermost policy is a hedge policy (any policies around it): per hedged run (it begins
        with the entry of a non-hedge attempt) at most maxHedges hedges start, hedge k not before k delays after the
        run began; every hedge started is followed by its attempt (so none starts after the run returned);
        a hedge policy that is the whole stack returns an attempt's outcome or the cancellation error *)
Definition hedge_of (stack : list policy) : option hedge_cfg :=
  match last stack (PTimeout 0) with PHedge c => Some c | _ => None end.

Fixpoint c09_hedges_ok (cfg : hedge_cfg) (run_start nh : Z) (l : list event) : bool :=
  match l with
  | [] => true
  | e :: l' =>
      if kind_is KFnStart e && (e_aux e =? 0) then c09_hedges_ok cfg (e_time e) 0 l'
      else if kind_is KHedge e then
        (nh + 1 <=? Z.of_nat (hg_max cfg)) && (run_start + (nh + 1) * hg_delay cfg <=? e_time e) && c09_hedges_ok cfg run_start (nh + 1) l'
      else c09_hedges_ok cfg run_start nh l'
  end.

Definition is_ctx_err (e : option err) : bool :=
  match e with Some ECtxCanceled | Some ECtxDeadline | Some EExecCanceled => true | _ => false end.

Definition c09x_ok (q : request) (o : xobs) : bool :=
  match hedge_of (q_stack q) with
  | Some cfg =>
      if q_withexec q then
        c09_hedges_ok cfg (x_start o) 0 (x_events o)
        && (count_kind KHedge (x_events o) =? Z.of_nat (length (filter (fun e => kind_is KFnStart e && (e_aux e =? 1)) (x_events o))))
        && (match q_stack q with
            | [_] => is_ctx_err (snd (x_out o))
                     || existsb (fun e => kind_is KFnEnd e && outcome_eqb (e_out e) (if q_run q then (fst (e_out e), snd (x_out o)) else x_out o)) (x_events o)
            | _ => true
            end)
      else true
  | None => true
  end.

Fixpoint all_reqs (f : request -> xobs -> bool) (qs : list request) (os : list xobs) : bool :=
  match qs, os with
  | q :: qs', o :: os' => f q o && all_reqs f qs' os'
  | _, _ => true
  end.

(* histories whose model run is schedule-dependent (two events at one instant) are not judged: their logs may
   legitimately differ from run to run, and the harness' own reads (e.g. Executions()+1 at function exit) race there *)
Definition failures_of (f : request -> xobs -> bool) (cs : list hcase) : list Z :=
  map h_id (filter (fun h => negb (skipped h) && negb (all_reqs f (h_reqs h) (h_obs h))) cs).
Definition failures_always (f : request -> xobs -> bool) (cs : list hcase) : list Z :=
  map h_id (filter (fun h => negb (all_reqs f (h_reqs h) (h_obs h))) cs).
