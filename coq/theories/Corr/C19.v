(* Corr/C19.v — the adapter scenarios of Corr/C18.v judged for what they leave behind: goroutines still blocked one
   hour (virtual) after the call returned, responses obtained but neither returned nor closed. *)
From FS Require Export Corr.C18.

Definition mismatches (cs : list case) : list Z :=
  map case_id (filter (fun c => negb (agrees c)) cs).
Definition checker_failures (cs : list case) : list Z := map case_id (filter (fun c => negb (checker19 c)) cs).
