(* Corr/C14.v — (1) the access table regenerated from the Go sources of this run must satisfy the lock
   discipline (up to the recorded findings); (2) stress scenarios must show no oracle failure
   (data races are reported by the race-detector build, see bin/check). *)
From FS Require Export Model.Lockset.
From Coq Require Export ZArith. Open Scope Z_scope.

Inductive case :=
  | CaseTable (id : Z) (tbl : list row)
  | CaseStress (id : Z) (execs bad : Z).

Definition case_id (c : case) : Z := match c with CaseTable id _ | CaseStress id _ _ => id end.

Definition ok (c : case) : bool :=
  match c with
  | CaseTable _ tbl => disciplined allowed tbl && negb (Nat.eqb (List.length tbl) 0)
  | CaseStress _ _ bad => bad =? 0
  end.

Definition mismatches (cs : list case) : list Z := map case_id (filter (fun c => negb (ok c)) cs).
Definition checker_failures (cs : list case) : list Z := mismatches cs.
