(* Corr/C17.v — correspondence on whole executions (shared machinery: Corr/ExecCorr.v) and the
   C17 checker evaluated on the implementation's own logs (Corr/ExecCheckers.v). *)
From FS Require Export Corr.ExecCorr Corr.ExecCheckers.
Definition case := hcase.
Definition checker_failures (cs : list hcase) : list Z := failures_of c17_ok cs.
