(* Corr/C11t.v — the cache policy with result types other than int (interfaces holding nil, nil pointers, nil and empty
   slices, empty strings, empty structs): two or three executions on one cache, compared with Model/CacheGen.v
   instantiated at value codes. *)
From FS Require Export Model.CacheGen.

(* ty: result type of the policy (for the evidence only); pre: value code already in the cache under the key, or -1;
   v1 v2: value codes the function returns in the first and second execution; observed per execution: value code returned,
   was the function invoked, number of OnCacheHit / OnCacheMiss / OnResultCached events *)
Inductive case :=
  | CaseTyped (id ty pre v1 v2 : Z) (r1 : Z) (inv1 : bool) (hit1 miss1 cached1 : Z) (r2 : Z) (inv2 : bool) (hit2 miss2 cached2 : Z).

Definition case_id (c : case) : Z := match c with CaseTyped id _ _ _ _ _ _ _ _ _ _ _ _ _ _ => id end.

Definition b2z (b : bool) : Z := if b then 1 else 0.

Definition agrees (c : case) : bool :=
  match c with
  | CaseTyped _ _ pre v1 v2 r1 inv1 hit1 miss1 cached1 r2 inv2 hit2 miss2 cached2 =>
      let l0 : store Z := if pre =? -1 then [] else cset [] 1 pre in
      let '(m1, i1, l1) := cache_exec l0 1 v1 in
      let '(m2, i2, _) := cache_exec l1 1 v2 in
      (r1 =? m1) && Bool.eqb inv1 i1 && (hit1 =? b2z (negb i1)) && (miss1 =? b2z i1) && (cached1 =? b2z i1)
      && (r2 =? m2) && Bool.eqb inv2 i2 && (hit2 =? b2z (negb i2)) && (miss2 =? b2z i2) && (cached2 =? b2z i2)
  end.

(* C11 on the observations alone: a cached entry -- put there beforehand or by the first execution -- is what comes back,
   and the function is not invoked *)
Definition checker (c : case) : bool :=
  match c with
  | CaseTyped _ _ pre v1 v2 r1 inv1 hit1 miss1 _ r2 inv2 hit2 miss2 _ =>
      (if pre =? -1 then inv1 && (r1 =? v1) && (miss1 =? 1) && (hit1 =? 0)
       else negb inv1 && (r1 =? pre) && (hit1 =? 1) && (miss1 =? 0))
      && negb inv2 && (r2 =? r1) && (hit2 =? 1) && (miss2 =? 0)
  end.

Definition mismatches (cs : list case) : list Z := map case_id (filter (fun c => negb (agrees c)) cs).
Definition checker_failures (cs : list case) : list Z := map case_id (filter (fun c => negb (checker c)) cs).
