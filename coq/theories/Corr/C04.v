(* Corr/C04.v — correspondence for executions racing through one breaker: a
   schedule of atomic steps (start execution i / let execution i finish with an
   outcome / advance the clock / manual state change) is run on the real breaker
   with gated functions and on the interleaving model; after every step the
   breaker state, the generation counter and each execution's status are compared. *)
From FS Require Export Model.BreakerConc.

Record snap := { sn_state : Z; sn_gen : Z; sn_threads : list Z (* 0 idle 1 rejected 2 in flight 3 done *);
                 sn_gens : list Z (* generation of admission, -1 when not in flight *) }.

Record case := mk_case {
  c_id : Z; c_calls : list bcall; c_nthreads : nat; c_start : Z; c_trace : list cstep; c_obs : list snap }.

Definition tcode (t : tstate) : Z := match t with TIdle => 0 | TRejected => 1 | TInFlight _ => 2 | TDone => 3 end.
Definition tgen (t : tstate) : Z := match t with TInFlight g => g | _ => -1 end.

Definition snap_of (k : conf (S := stats)) : snap :=
  {| sn_state := state_code (cf_state k); sn_gen := cf_gen k;
     sn_threads := map tcode (cf_threads k); sn_gens := map tgen (cf_threads k) |}.

Fixpoint zl_eqb (a b : list Z) : bool :=
  match a, b with
  | [], [] => true
  | x :: a', y :: b' => (x =? y) && zl_eqb a' b'
  | _, _ => false
  end.

Definition snap_eqb (a b : snap) : bool :=
  (sn_state a =? sn_state b) && (sn_gen a =? sn_gen b) && zl_eqb (sn_threads a) (sn_threads b) && zl_eqb (sn_gens a) (sn_gens b).

Definition init_conf (c : case) : conf (S := stats) :=
  {| cf_state := cb_init (build_bcfg (c_calls c)); cf_now := c_start c; cf_gen := 0;
     cf_threads := repeat TIdle (c_nthreads c) |}.

Fixpoint model_snaps (cfg : bcfg) (k : conf (S := stats)) (tr : list cstep) : list snap :=
  match tr with
  | [] => []
  | st :: tr' => let k' := conc_step conc_impl cfg k st in snap_of k' :: model_snaps cfg k' tr'
  end.

Fixpoint snaps_eqb (a b : list snap) : bool :=
  match a, b with
  | [], [] => true
  | x :: a', y :: b' => snap_eqb x y && snaps_eqb a' b'
  | _, _ => false
  end.

Definition case_guard (c : case) : bool := bcfg_ok (build_bcfg (c_calls c)).

Definition mismatches (cs : list case) : list Z :=
  map c_id (filter (fun c => negb (case_guard c &&
     snaps_eqb (model_snaps (build_bcfg (c_calls c)) (init_conf c) (c_trace c)) (c_obs c))) cs).

(* the property, evaluated on the implementation's own snapshots:
   (a) half-open: trials of the current generation in flight <= capacity;
   (b) a start-step that found the breaker open with time remaining must end rejected
       (the harness encodes that as thread code 1 right after the step; here we check the
       weaker, snapshot-only consequence: no thread is in flight with the generation of an open state) *)
Definition snap_ok (cap : Z) (s : snap) : bool :=
  if sn_state s =? 2 then
    Z.of_nat (length (filter (fun g => g =? sn_gen s) (sn_gens s))) <=? cap
  else if sn_state s =? 1 then
    negb (existsb (fun g => g =? sn_gen s) (sn_gens s))
  else true.

Definition checker_failures (cs : list case) : list Z :=
  map c_id (filter (fun c =>
     no_stale conc_impl (build_bcfg (c_calls c)) (init_conf c) (c_trace c)
     && negb (forallb (snap_ok (halfopen_capacity (build_bcfg (c_calls c)))) (c_obs c))) cs).
