(* Corr/C15.v — async executions: (1) whole executions through the async entry points, optionally
   cancelled through ExecutionResult.Cancel() at a swept instant, compared with Model/Exec.v (the
   sync semantics: both run the same execute path); (2) the future protocol observed by concurrent
   readers; (3) real-time stress of the two sub-operation windows (findings F3, F4). *)
From FS Require Export Corr.ExecCorr Corr.ExecCheckers Model.Future.

Inductive case :=
  | CaseExec (h : hcase)
  (* readers: for each Get/Result/Error call: returned only after completion and saw the published values *)
  | CaseFut (id : Z) (nreaders : Z) (gets_ok : list bool) (isdone_before done_before isdone_after done_after listeners_before_close : bool)
  | CaseStress (id : Z) (kind : Z) (trials bad : Z).

Definition case_id (c : case) : Z :=
  match c with CaseExec h => h_id h | CaseFut id _ _ _ _ _ _ _ => id | CaseStress id _ _ _ => id end.

Definition fut_model (n : nat) : fut := fut_run ([FExecute; FStore; FFlag; FClose] ++ repeat FGet n).

Definition agrees15 (c : case) : bool :=
  match c with
  | CaseExec h => agrees h
  | CaseFut _ n gets b1 b2 a1 a2 l =>
      let m := fut_model (Z.to_nat n) in
      (Z.of_nat (length gets) =? n) && forallb (fun p => Bool.eqb (fst p) (snd p)) (combine gets (f_gets m))
      && Bool.eqb b1 false && Bool.eqb b2 false
      && Bool.eqb a1 (is_done true m) && Bool.eqb a2 (done_closed m) && l
  | CaseStress _ _ _ bad => bad =? 0
  end.

(* a Cancel that takes effect before the execution completes makes an execution under a retry policy report
   ErrExecutionCanceled.  When a Timeout policy of the composition also fires before the execution completes there are two
   causes and the result names one of them (a Cancel() issued after the Timeout cancelled the attempt does not take effect
   on it; a Timeout whose limit expires after the Cancel() while the function is still running reports ErrExceeded):
   such runs are not judged here (the correspondence with the model still is). *)
Definition c15_cancel_ok (q : request) (o : xobs) : bool :=
  match q_ext q with
  | Some (dt, EExecCanceled) =>
      let tc := x_start o + dt in
      if (tc <? x_end o) && negb (existsb (kind_is KTimeoutExceeded) (x_events o)) then
        match snd (x_out o) with Some EExecCanceled => true | _ => false end
      else true
  | _ => true
  end.

Definition checker15 (c : case) : bool :=
  match c with
  | CaseExec h => all_reqs c15_cancel_ok (h_reqs h) (h_obs h) && all_reqs c16_ok (h_reqs h) (h_obs h)
  | CaseFut _ n gets b1 b2 a1 a2 l => forallb (fun b => b) gets && negb b1 && negb b2 && a1 && a2 && l
  | CaseStress _ _ _ bad => bad =? 0
  end.

Definition mismatches (cs : list case) : list Z := map case_id (filter (fun c => negb (agrees15 c)) cs).
Definition checker_failures (cs : list case) : list Z := map case_id (filter (fun c => negb (checker15 c)) cs).
Definition skipped_ids (cs : list case) : list Z :=
  map case_id (filter (fun c => match c with CaseExec h => skipped h | _ => false end) cs).
