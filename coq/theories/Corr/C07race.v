(* Corr/C07race.v — scripted interleavings of the timeout protocol: the harness forces an order of the
   atomic steps with gates on the function and on the listener, and reports what the caller got,
   how often the listener ran and whether the child execution was cancelled. *)
From FS Require Export Model.TimeoutRace.
From Coq Require Export ZArith. Open Scope Z_scope.

Record case := mk_case { c_id : Z; c_blocking : bool; c_steps : list step; c_ret : cell; c_count : Z; c_cancelled : bool }.

Definition cell_eqb (a b : cell) : bool := match a, b with CNone, CNone | CInner, CInner | CTimeout, CTimeout => true | _, _ => false end.
Definition count_z (c : count) : Z := match c with Zero => 0 | One => 1 | Many => 2 end.

Definition agrees (c : case) : bool :=
  let s := run (init (c_blocking c)) (c_steps c) in
  quiescent s && cell_eqb (s_ret s) (c_ret c) && (count_z (s_listener s) =? Z.min 2 (c_count c)) && Bool.eqb (s_cancelled s) (c_cancelled c).

(* the property on the implementation's own observation *)
Definition exclusive_obs (c : case) : bool :=
  match c_ret c, c_count c, c_cancelled c with
  | CInner, 0, false => true
  | CTimeout, 1, true => true
  | _, _, _ => false
  end.

Definition mismatches (cs : list case) : list Z := map c_id (filter (fun c => negb (agrees c)) cs).
Definition checker_failures (cs : list case) : list Z := map c_id (filter (fun c => negb (exclusive_obs c)) cs).
