(* Corr/C09.v — correspondence for hedged executions: a hedge policy around a function whose attempts
   have scripted durations and outcomes, under a virtual clock. *)
From FS Require Export Model.Hedge.

Record hstart := { hs_time : Z; hs_attempts : Z; hs_hedges : Z; hs_is_hedge : bool }.

(* [c_second]: the hedge sits inside a retry policy (one retry after [delay]); when the first hedged run ends in an
   error the second run uses the second list of attempts and starts at end + delay *)
Record case := mk_case {
  c_id : Z; c_cfg : hcfg; c_atts0 : list attempt; c_second : option (Z * list attempt); c_ext : option (Z * err); c_t0 : Z;
  c_inner : Z;  (* > 0: a Timeout with this limit sits INSIDE the hedge, around the function (0: nothing, or a closed breaker) *)
  c_out : outcome; c_end : Z; c_starts : list hstart; c_hedge_events : list Z;
  c_cancelled : list bool }.

(* what the hedge sees of an attempt that runs inside a Timeout: an attempt that outlasts the limit ends in ErrExceeded -- at the
   limit when it watches for its cancellation, when the function returns otherwise *)
Definition through_timeout (limit : Z) (a : attempt) : attempt :=
  if (0 <? limit) && (limit <? a_dur a) then
    {| a_dur := if a_coop a then limit else a_dur a; a_out := (0, Some ETimeout); a_coop := a_coop a |}
  else a.
Definition c_atts (c : case) : list attempt := map (through_timeout (c_inner c)) (c_atts0 c).

Fixpoint zl_eqb (a b : list Z) : bool :=
  match a, b with [], [] => true | x :: a', y :: b' => (x =? y) && zl_eqb a' b' | _, _ => false end.
Fixpoint bl_eqb (a b : list bool) : bool :=
  match a, b with [], [] => true | x :: a', y :: b' => Bool.eqb x y && bl_eqb a' b' | _, _ => false end.

Definition starts_ok (l : list hstart) : bool :=
  forallb (fun p => let '(i, s) := p in
             (hs_attempts s =? Z.of_nat i + 1) && (hs_hedges s =? Z.of_nat i) && Bool.eqb (hs_is_hedge s) (negb (Nat.eqb i 0)))
          (combine (seq 0 (length l)) l).

Definition has_err_out (o : outcome) : bool := match snd o with Some _ => true | None => false end.

(* the model run(s): one hedged run, or two when an enclosing retry re-runs the hedge *)
Definition model_runs (c : case) : hobs * option hobs :=
  let m := hedge_run (c_cfg c) (c_atts c) (c_ext c) (c_t0 c) in
  match c_second c with
  | Some (d, atts2) => if has_err_out (ho_out m) then (m, Some (hedge_run (c_cfg c) atts2 (c_ext c) (ho_end m + d))) else (m, None)
  | None => (m, None)
  end.

Definition agrees (c : case) : bool :=
  match model_runs c with
  | (m, None) =>
      ho_tie m || outcome_eqb (ho_out m) (c_out c) && (ho_end m =? c_end c) && zl_eqb (ho_starts m) (map hs_time (c_starts c))
      && zl_eqb (tl (ho_starts m)) (c_hedge_events c)
      (* (inside a Timeout the function's own execution is also cancelled by the timeout: not compared) *)
      && ((0 <? c_inner c) || bl_eqb (ho_cancelled m) (c_cancelled c))
      && (match c_second c with None => starts_ok (c_starts c) | Some _ => true end)
  | (m, Some m2) =>
      (* the enclosing retry policy (one retry) is exhausted when the second run fails too: ExceededError wraps its outcome *)
      let expected := if has_err_out (ho_out m2) then (0, Some (EExceeded (fst (ho_out m2)) (snd (ho_out m2)))) else ho_out m2 in
      ho_tie m || ho_tie m2 || outcome_eqb expected (c_out c) && (ho_end m2 =? c_end c)
      && zl_eqb (ho_starts m ++ ho_starts m2) (map hs_time (c_starts c))
      && zl_eqb (tl (ho_starts m) ++ tl (ho_starts m2)) (c_hedge_events c)
  end.

(* the property on the implementation's observation alone *)
Fixpoint prefix_sums (t : Z) (ds : list Z) (n : nat) : list Z :=
  match n with O => [] | S n' => t :: match ds with d :: ds' => prefix_sums (t + d) ds' n' | [] => [] end end.

Definition spacing_ok (c : case) : bool :=
  (* hedge k never starts before the first k delays have elapsed *)
  forallb (fun p => let '(i, s) := p in
            fold_left Z.add (firstn i (map (fun k => nth_delay (c_cfg c) k) (seq 0 i))) (c_t0 c) <=? hs_time s)
          (combine (seq 0 (length (c_starts c))) (c_starts c)).

Definition tie_any (c : case) : bool :=
  match model_runs c with (m, None) => ho_tie m | (m, Some m2) => ho_tie m || ho_tie m2 end.

(* the second run of a retried hedge: hedge k of that run never starts before the run's own start + k delays *)
Definition second_run_spacing_ok (c : case) : bool :=
  match c_second c, model_runs c with
  | Some _, (m, Some m2) =>
      let n1 := length (ho_starts m) in
      let second := skipn n1 (c_starts c) in
      match second with
      | [] => true
      | s0 :: _ =>
          forallb (fun p => let '(i, s) := p in
                     fold_left Z.add (map (fun k => nth_delay (c_cfg c) k) (seq 0 i)) (hs_time s0) <=? hs_time s)
                  (combine (seq 0 (length second)) second)
      end
  | _, _ => true
  end.

Definition checker_ok (c : case) : bool :=
  tie_any c || match c_second c with Some _ => second_run_spacing_ok c | None => false end ||
  Nat.leb (length (c_starts c)) (S (h_max (c_cfg c)))
  && spacing_ok c
  && starts_ok (c_starts c)
  && forallb (fun s => hs_time s <=? c_end c) (c_starts c)                        (* none started once a result was accepted *)
  && (match c_ext c with
      | Some (tc, e) =>
          (* cancelled before the end: the cause is reported and a cooperating execution is not kept waiting *)
          if tc <? c_end c then outcome_eqb (c_out c) (0, Some e) && negb (forallb a_coop (c_atts c))
          else true
      | None =>
          (* the result was produced by one of the attempts; losers cancelled, winner not *)
          existsb (fun a => outcome_eqb (a_out a) (c_out c)) (firstn (length (c_starts c)) (c_atts c))
          (* ... as soon as a result matching the cancel conditions was produced: the call does not outlast any started
             attempt whose result matches *)
          && forallb (fun p => let '(s, a) := p in
                        negb (is_abortable (h_cancel (c_cfg c)) (a_out a)) || (c_end c <=? hs_time s + a_dur a))
                     (combine (c_starts c) (c_atts c))
          && ((0 <? c_inner c) || (Z.of_nat (length (filter negb (c_cancelled c))) =? 1))
      end).

Definition skipped_ids (cs : list case) : list Z := map c_id (filter tie_any cs).
Definition mismatches (cs : list case) : list Z := map c_id (filter (fun c => negb (agrees c)) cs).
Definition checker_failures (cs : list case) : list Z := map c_id (filter (fun c => negb (checker_ok c)) cs).
