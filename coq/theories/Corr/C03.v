(* Corr/C03.v — correspondence for the circuit breaker: one case = the builder
   calls, a history of operations at absolute instants, and what the real
   breaker showed after every operation. *)
From FS Require Export Model.Breaker Spec.BreakerSpec.

Inductive case :=
  | CaseHist (id : Z) (calls : list bcall) (h : list (Z * bop)) (obs : list bobs)
  (* only the listeners with these tags are registered (0 close, 1 open, 2 half-open, 3 generic) *)
  | CaseHistL (id : Z) (lsn : list Z) (calls : list bcall) (h : list (Z * bop)) (obs : list bobs)
  | CaseRate (id : Z) (f n frate srate : Z).

Definition case_id (c : case) : Z := match c with CaseHist id _ _ _ | CaseHistL id _ _ _ _ | CaseRate id _ _ _ _ => id end.

Fixpoint zlist_eqb (a b : list Z) : bool :=
  match a, b with
  | [], [] => true
  | x :: a', y :: b' => (x =? y) && zlist_eqb a' b'
  | _, _ => false
  end.

Definition bevent_eqb (a b : bevent) : bool :=
  (ev_tag a =? ev_tag b) && (ev_old a =? ev_old b) && (ev_new a =? ev_new b) && zlist_eqb (ev_metrics a) (ev_metrics b).

Fixpoint list_eqb {A} (eq : A -> A -> bool) (a b : list A) : bool :=
  match a, b with
  | [], [] => true
  | x :: a', y :: b' => eq x y && list_eqb eq a' b'
  | _, _ => false
  end.

Definition bobs_eqb (a b : bobs) : bool :=
  (ob_val a =? ob_val b) && (ob_state a =? ob_state b) && (ob_remaining a =? ob_remaining b)
  && zlist_eqb (ob_metrics a) (ob_metrics b) && list_eqb bevent_eqb (ob_events a) (ob_events b).

Definition hist_guard (calls : list bcall) (h : list (Z * bop)) : bool :=
  bcfg_ok (build_bcfg calls) && bhist_ok 0 h.

Definition agrees (run : bcfg -> list (Z * bop) -> list bobs) (c : case) : bool :=
  match c with
  | CaseHist _ calls h obs => hist_guard calls h && list_eqb bobs_eqb (run (build_bcfg calls) h) obs
  | CaseHistL _ lsn calls h obs =>
      (* an unregistered listener sees nothing; the others see what they always see *)
      let keep (o : bobs) := {| ob_val := ob_val o; ob_state := ob_state o; ob_remaining := ob_remaining o; ob_metrics := ob_metrics o;
                                ob_events := filter (fun e => existsb (Z.eqb (ev_tag e)) lsn) (ob_events o) |} in
      hist_guard calls h && list_eqb bobs_eqb (map keep (run (build_bcfg calls) h)) obs
  | CaseRate _ f n fr sr => (rate f n =? fr) && (rate (n - f) n =? sr)
  end.

Definition mismatches (cs : list case) : list Z := map case_id (filter (fun c => negb (agrees cb_run c)) cs).
Definition checker_failures (cs : list case) : list Z := map case_id (filter (fun c => negb (agrees spec_brun c)) cs).
