(* Corr/C09x.v — executions through stacks whose innermost policy is a hedge policy (Model/Exec.v hedge layer):
   correspondence on complete logs (Corr/ExecCorr.v) and the C09 checker for such logs (Corr/ExecCheckers.v). *)
From FS Require Export Corr.ExecCorr Corr.ExecCheckers.
Definition case := hcase.
Definition checker_failures (cs : list hcase) : list Z := failures_of c09x_ok cs.
