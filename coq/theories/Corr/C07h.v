(* Corr/C07h.v — a Timeout inside a retry policy inside a hedge policy: Hedge(Retry(Timeout(fn))), one hedge.
   Each of the two hedged branches is a whole Retry(Timeout(fn)) run with a script of its own: the model runs each branch on
   Model/Exec.v (the retry loop around the timeout layer), turns what the branch shows to the hedge -- its outcome and how long
   it took -- into one attempt of Model/Hedge.v, and runs the hedge on the two.  Nothing in a branch watches for its
   cancellation, so a branch is the same run whether or not the other one wins meanwhile (up to the instant the hedge returns). *)
From FS Require Export Corr.ExecCorr Model.Hedge.

Record case := mk_case {
  c_id : Z; c_t0 : Z; c_delay : Z; c_rcfg : retry_cfg; c_limit : Z;
  c_script_p : list fn_step; c_script_h : list fn_step;       (* primary branch, hedged branch *)
  c_out : outcome; c_end : Z;
  c_starts_p : list Z; c_starts_h : list Z;                   (* instants at which the function was entered, per branch *)
  c_fired_p : list Z; c_fired_h : list Z }.                   (* instants of OnTimeoutExceeded, per branch *)

Definition branch_req (c : case) (script : list fn_step) : request :=
  {| q_stack := [PRetry (c_rcfg c); PTimeout (c_limit c)]; q_script := script; q_gap := 0; q_ext := None; q_key := CKNone;
     q_withexec := true; q_run := false; q_lsn := (false, false, false); q_blsn := 0 |}.

Definition branch (c : case) (start : Z) (script : list fn_step) : xobs * bool :=
  let '(o, w) := run_request start [] [] [] [] (branch_req c script) in (o, flagged w).

Definition as_attempt (o : xobs) : attempt := {| a_dur := x_end o - x_start o; a_out := x_out o; a_coop := false |}.

Definition hcfg_of (c : case) : hcfg :=
  {| h_max := 1; h_delays := [c_delay c]; h_cancel := build_hedge_cancel []; h_fixed := true |}.

(* The retry policy's count of failed attempts belongs to the execution, and the two branches are one execution: they draw on
   one budget.  Running the branches separately is therefore exact up to the first instant at which BOTH have recorded a
   failure with their retry policy; a scenario in which that happens before the hedge returns is not compared. *)
Definition retry_failures_upto (t : Z) (o : xobs) : list event :=
  filter (fun e => (evk_code (e_kind e) =? evk_code KPolFailure) && Nat.eqb (e_pos e) 0 && (e_time e <=? t)) (x_events o).

Definition model (c : case) : hobs * xobs * xobs * bool :=
  let '(p, fp) := branch c (c_t0 c) (c_script_p c) in
  let '(h, fh) := branch c (c_t0 c + c_delay c) (c_script_h c) in
  let m := hedge_run (hcfg_of c) [as_attempt p; as_attempt h] None (c_t0 c) in
  let shared := match retry_failures_upto (ho_end m) p, retry_failures_upto (ho_end m) h with _ :: _, _ :: _ => true | _, _ => false end in
  (m, p, h, fp || fh || ho_tie m || shared).

Definition times_of (k : evk) (o : xobs) : list Z :=
  map e_time (filter (fun e => evk_code (e_kind e) =? evk_code k) (x_events o)).
Definition before (t : Z) (l : list Z) : list Z := filter (fun x => x <? t) l.
Fixpoint zl_eqb (a b : list Z) : bool :=
  match a, b with [], [] => true | x :: a', y :: b' => (x =? y) && zl_eqb a' b' | _, _ => false end.

Definition skipped (c : case) : bool := snd (model c).

(* what the caller got and when; and, up to the instant the hedge returned, every entry of the function and every
   OnTimeoutExceeded of either branch at the instant the model gives it (the hedged branch only exists once the delay has passed) *)
Definition agrees (c : case) : bool :=
  let '(m, p, h, skip) := model c in
  skip ||
  outcome_eqb (ho_out m) (c_out c) && (ho_end m =? c_end c)
  && zl_eqb (before (ho_end m) (times_of KFnStart p)) (before (c_end c) (c_starts_p c))
  && zl_eqb (before (ho_end m) (times_of KTimeoutExceeded p)) (before (c_end c) (c_fired_p c))
  && (if c_t0 c + c_delay c <=? ho_end m
      then zl_eqb (before (ho_end m) (times_of KFnStart h)) (before (c_end c) (c_starts_h c))
           && zl_eqb (before (ho_end m) (times_of KTimeoutExceeded h)) (before (c_end c) (c_fired_h c))
      else match c_starts_h c with [] => true | _ => false end).

(* C07 on the observation alone: within a branch OnTimeoutExceeded fires at most once per entry of the function and never
   before some entry + the limit; a timed-out attempt is retried *)
Fixpoint fired_ok (limit : Z) (starts fired : list Z) : bool :=
  match fired with
  | [] => true
  | f :: fired' =>
      match filter (fun s => s + limit <=? f) starts with
      | [] => false
      | _ => fired_ok limit starts fired'
      end
  end.
(* C02 on the observation alone: the two branches are ONE execution and draw on one retry budget -- the function is entered at
   most once per branch plus once per retry the policy allows (evaluated on every scenario, compared or not) *)
Definition budget_ok (c : case) : bool :=
  if 0 <=? r_max_retries (c_rcfg c)
  then Z.of_nat (length (c_starts_p c) + length (c_starts_h c)) <=? 2 + r_max_retries (c_rcfg c)
  else true.

Definition checker (c : case) : bool :=
  budget_ok c &&
  (skipped c ||
  fired_ok (c_limit c) (c_starts_p c) (c_fired_p c) && fired_ok (c_limit c) (c_starts_h c) (c_fired_h c)
  && (Z.of_nat (length (c_fired_p c)) <=? Z.of_nat (length (c_starts_p c)))
  && (Z.of_nat (length (c_fired_h c)) <=? Z.of_nat (length (c_starts_h c)))
  && (c_t0 c <=? c_end c)
  (* the limit applies afresh to each attempt: an exceeded limit is a failed attempt for the retry policy around the Timeout
     (it handles every error), so the caller never sees a bare ErrExceeded -- only ExceededError around it once the retries
     are used up *)
  && negb (outcome_eqb (c_out c) (0, Some ETimeout))).

Definition skipped_ids (cs : list case) : list Z := map c_id (filter skipped cs).
Definition mismatches (cs : list case) : list Z := map c_id (filter (fun c => negb (agrees c)) cs).
Definition checker_failures (cs : list case) : list Z := map c_id (filter (fun c => negb (checker c)) cs).
