(* Corr/Probe.v — direct probes of the implementation whose expected outcome is fixed by the property itself (no model
   run is needed to know it): each case says how many trials were made and how many of them went wrong. *)
From Coq Require Export List ZArith Bool.
Export ListNotations.
Open Scope Z_scope.

Inductive case := CaseProbe (id kind trials bad : Z).

Definition case_id (c : case) : Z := match c with CaseProbe id _ _ _ => id end.
Definition agrees (c : case) : bool := match c with CaseProbe _ _ trials bad => (0 <? trials) && (bad =? 0) end.
Definition checker (c : case) : bool := agrees c.
Definition mismatches (cs : list case) : list Z := map case_id (filter (fun c => negb (agrees c)) cs).
Definition checker_failures (cs : list case) : list Z := map case_id (filter (fun c => negb (checker c)) cs).
