(* Base/Values.v — results, errors, outcomes, PolicyResult.
   Mirrors: common/result.go, internal/execution.go and the error shapes the
   harness can build (see harness/verifharness/errs.go).  No proofs here. *)
From Coq Require Export List ZArith Bool Lia.
Export ListNotations.
Open Scope Z_scope.

(* ------------------------------------------------------------------ *)
(* Errors: a closed family covering every shape named in C12.          *)

Inductive err : Type :=
  | ESent (n : nat)            (* package level errors.New sentinel #n        *)
  | EAnon                      (* a fresh *errors.errorString (fmt.Errorf w/o %w) *)
  | ETypedV (ty : nat) (n : Z) (* struct type ty, value receiver, value stored *)
  | ETypedVP (ty : nat) (n : nat) (* pointer #n to a value-receiver struct    *)
  | ETypedP (ty : nat) (n : nat)  (* pointer #n to a pointer-receiver struct   *)
  | EWrap (e : err)            (* fmt.Errorf("..%w", e)                        *)
  | EJoin (es : list err)      (* errors.Join(es...) (all non nil)             *)
  | ECustomIs (n target : nat) (* pointer #n to a type whose Is() accepts sentinel target *)
  | EExceeded (r : Z) (e : option err)  (* retrypolicy.ExceededError{r, e}     *)
  | EOpen | EFull | ERate | ETimeout    (* library sentinels (errors.New)      *)
  | ERetryExceeded                      (* retrypolicy.ErrExceeded sentinel    *)
  | ECtxCanceled | ECtxDeadline | EExecCanceled
  | EOther.                    (* anything the harness cannot map: forces a mismatch *)

(* Dynamic (reflect) type of the value stored in the error interface. *)
Inductive dyn_type : Type :=
  | TyErrStr            (* *errors.errorString *)
  | TyVal (ty : nat)    (* T  (value-receiver struct)  *)
  | TyPtrVal (ty : nat) (* *T                           *)
  | TyPtr (ty : nat)    (* *P (pointer-receiver struct) *)
  | TyWrap | TyJoin | TyCustomIs | TyExceeded | TyDeadline | TyOther.

Definition dyn_type_eqb (a b : dyn_type) : bool :=
  match a, b with
  | TyErrStr, TyErrStr | TyWrap, TyWrap | TyJoin, TyJoin | TyCustomIs, TyCustomIs
  | TyExceeded, TyExceeded | TyDeadline, TyDeadline | TyOther, TyOther => true
  | TyVal x, TyVal y | TyPtrVal x, TyPtrVal y | TyPtr x, TyPtr y => Nat.eqb x y
  | _, _ => false
  end.

Definition type_of (e : err) : dyn_type :=
  match e with
  | ESent _ | EAnon | EOpen | EFull | ERate | ETimeout | ERetryExceeded
  | ECtxCanceled | EExecCanceled => TyErrStr
  | ETypedV ty _ => TyVal ty
  | ETypedVP ty _ => TyPtrVal ty
  | ETypedP ty _ => TyPtr ty
  | EWrap _ => TyWrap
  | EJoin _ => TyJoin
  | ECustomIs _ _ => TyCustomIs
  | EExceeded _ _ => TyExceeded
  | ECtxDeadline => TyDeadline
  | EOther => TyOther
  end.

(* Equality of error values.  With [anon = true] this is plain structural
   equality of descriptions (used to compare observations).  With
   [anon = false] it is Go's `err == target` on interface values under the
   harness discipline "one canonical Go value per description": pointers then
   compare equal iff their descriptions are equal, value structs compare
   structurally, and a fresh allocation made by the library (EAnon) is never
   equal to anything.  EOther never equals anything, itself included. *)
Fixpoint err_eq_gen (anon : bool) (a b : err) : bool :=
  match a, b with
  | ESent x, ESent y => Nat.eqb x y
  | EAnon, EAnon => anon
  | ETypedV t x, ETypedV u y => Nat.eqb t u && Z.eqb x y
  | ETypedVP t x, ETypedVP u y => Nat.eqb t u && Nat.eqb x y
  | ETypedP t x, ETypedP u y => Nat.eqb t u && Nat.eqb x y
  | EWrap x, EWrap y => err_eq_gen anon x y
  | EJoin xs, EJoin ys =>
      (fix go (l1 l2 : list err) : bool :=
         match l1, l2 with
         | [], [] => true
         | x :: l1', y :: l2' => err_eq_gen anon x y && go l1' l2'
         | _, _ => false
         end) xs ys
  | ECustomIs x t, ECustomIs y u => Nat.eqb x y && Nat.eqb t u
  | EExceeded r1 None, EExceeded r2 None => Z.eqb r1 r2
  | EExceeded r1 (Some e1), EExceeded r2 (Some e2) => Z.eqb r1 r2 && err_eq_gen anon e1 e2
  | EOpen, EOpen | EFull, EFull | ERate, ERate | ETimeout, ETimeout
  | ERetryExceeded, ERetryExceeded
  | ECtxCanceled, ECtxCanceled | ECtxDeadline, ECtxDeadline
  | EExecCanceled, EExecCanceled => true
  | _, _ => false
  end.

Definition err_ideq : err -> err -> bool := err_eq_gen false.
Definition err_eqb : err -> err -> bool := err_eq_gen true.

Definition oerr_eqb (a b : option err) : bool :=
  match a, b with
  | None, None => true
  | Some x, Some y => err_eqb x y
  | _, _ => false
  end.

(* ------------------------------------------------------------------ *)
(* Outcomes and PolicyResult (common/result.go).                        *)

Definition outcome : Type := (Z * option err)%type.

Definition outcome_eqb (a b : outcome) : bool :=
  Z.eqb (fst a) (fst b) && oerr_eqb (snd a) (snd b).

Record presult : Type := mk_presult {
  pr_res : Z; pr_err : option err;
  pr_done : bool; pr_succ : bool; pr_all : bool }.

Definition pr_out (p : presult) : outcome := (pr_res p, pr_err p).

(* PolicyResult.WithDone (common/result.go:17-23) *)
Definition with_done (p : presult) (done success : bool) : presult :=
  {| pr_res := pr_res p; pr_err := pr_err p;
     pr_done := done; pr_succ := success; pr_all := success && pr_all p |}.

(* PolicyResult.WithFailure (common/result.go:26-31) *)
Definition with_failure (p : presult) : presult :=
  {| pr_res := pr_res p; pr_err := pr_err p;
     pr_done := pr_done p; pr_succ := false; pr_all := false |}.

(* internal.FailureResult (internal/execution.go) *)
Definition failure_result (e : err) : presult :=
  {| pr_res := 0; pr_err := Some e; pr_done := true; pr_succ := false; pr_all := false |}.

Definition presult_eqb (a b : presult) : bool :=
  outcome_eqb (pr_out a) (pr_out b) && Bool.eqb (pr_done a) (pr_done b)
  && Bool.eqb (pr_succ a) (pr_succ b) && Bool.eqb (pr_all a) (pr_all b).
