(* Model/Breaker.v — the circuit breaker state machine.
   Mirrors: circuitbreaker/circuitstats.go (countingStats, timedStats, rates in
   float64), circuitstates.go (closed/open/half-open), circuitbreaker.go
   (transitionTo, record*, the public methods), circuitbreakerbuilder.go (the
   builder calls), circuitbreakerexecutor.go (the breaker as a policy around a
   function that returns at once).  Times are absolute Unix nanoseconds (the
   breaker's clock).  No proofs here. *)
From FS Require Export Model.Classify.

(* ---------------- float64 rate ---------------------------------------- *)
(* uint(math.Round(float64(a) / float64(n) * 100.0)), computed exactly:
   [rnd53 num den] is the IEEE-754 binary64 round-to-nearest-even of the positive
   rational num/den (normal range), returned as a rational whose numerator has at
   most 53 bits.  a, n < 2^53 convert exactly. *)

Definition pow2 (k : Z) : Z := 2 ^ k.

(* scale num/den by 2^s (s may be negative) *)
Definition scaled (num den s : Z) : Z * Z :=
  if 0 <=? s then (num * pow2 s, den) else (num, den * pow2 (- s)).

Definition rnd53 (num den : Z) : Z * Z :=
  let e0 := Z.log2 num - Z.log2 den in
  let s0 := 52 - e0 in
  let q0 := let '(n, d) := scaled num den s0 in n / d in
  let s := if pow2 53 <=? q0 then s0 - 1 else if q0 <? pow2 52 then s0 + 1 else s0 in
  let '(n, d) := scaled num den s in
  let q := n / d in
  let r := n mod d in
  let m := if (2 * r <? d) then q
           else if (d <? 2 * r) then q + 1
           else if Z.even q then q else q + 1 in
  (* value = m / 2^s *)
  if 0 <=? s then (m, pow2 s) else (m * pow2 (- s), 1).

Definition rate (a n : Z) : Z :=
  if n =? 0 then 0
  else if a =? 0 then 0
  else
    let '(qn, qd) := rnd53 a n in
    let '(pn, pd) := rnd53 (qn * 100) qd in
    (2 * pn + pd) / (2 * pd).          (* math.Round: half away from zero *)

(* ---------------- countingStats --------------------------------------- *)

Record cstats := {
  cs_bits : list bool; cs_size : Z; cs_head : Z; cs_occ : Z; cs_succ : Z; cs_fail : Z }.

Definition cs_new (size : Z) : cstats :=
  {| cs_bits := repeat false (Z.to_nat size); cs_size := size; cs_head := 0;
     cs_occ := 0; cs_succ := 0; cs_fail := 0 |}.

Fixpoint set_nth {A} (n : nat) (v : A) (l : list A) : list A :=
  match l, n with
  | [], _ => []
  | _ :: l', O => v :: l'
  | x :: l', S n' => x :: set_nth n' v l'
  end.

(* setNext *)
Definition cs_record (c : cstats) (v : bool) : cstats :=
  let '(occ, succ, fail) :=
    if cs_occ c <? cs_size c then (cs_occ c + 1, cs_succ c, cs_fail c)
    else if nth (Z.to_nat (cs_head c)) (cs_bits c) false
         then (cs_occ c, cs_succ c - 1, cs_fail c)
         else (cs_occ c, cs_succ c, cs_fail c - 1) in
  let '(succ, fail) := if v then (succ + 1, fail) else (succ, fail + 1) in
  {| cs_bits := set_nth (Z.to_nat (cs_head c)) v (cs_bits c); cs_size := cs_size c;
     cs_head := (cs_head c + 1) mod cs_size c; cs_occ := occ; cs_succ := succ; cs_fail := fail |}.

(* ---------------- timedStats ------------------------------------------ *)

Definition bucket_count : Z := 10.

Record tstats := {
  ts_nanos : Z; ts_buckets : list (Z * Z) (* successes, failures *);
  ts_sum : Z * Z; ts_head : Z }.

Definition ts_new (period : Z) : tstats :=
  {| ts_nanos := period / bucket_count; ts_buckets := repeat (0, 0) 10; ts_sum := (0, 0); ts_head := 0 |}.

(* the expiry loop of currentBucket *)
Fixpoint ts_expire (buckets : list (Z * Z)) (sum : Z * Z) (head : Z) (i : Z) (n : nat) : list (Z * Z) * (Z * Z) :=
  match n with
  | O => (buckets, sum)
  | S n' =>
      let idx := Z.to_nat ((head + i + 1) mod bucket_count) in
      let b := nth idx buckets (0, 0) in
      ts_expire (set_nth idx (0, 0) buckets) (fst sum - fst b, snd sum - snd b) head (i + 1) n'
  end.

Definition ts_current (t : tstats) (now : Z) : tstats :=
  let newhead := now / ts_nanos t in
  if ts_head t <? newhead then
    let move := Z.min bucket_count (newhead - ts_head t) in
    let '(bs, sum) := ts_expire (ts_buckets t) (ts_sum t) (ts_head t) 0 (Z.to_nat move) in
    {| ts_nanos := ts_nanos t; ts_buckets := bs; ts_sum := sum; ts_head := newhead |}
  else t.

Definition ts_record (t : tstats) (now : Z) (v : bool) : tstats :=
  let t' := ts_current t now in
  let idx := Z.to_nat (ts_head t' mod bucket_count) in
  let b := nth idx (ts_buckets t') (0, 0) in
  let b' := if v then (fst b + 1, snd b) else (fst b, snd b + 1) in
  let s := ts_sum t' in
  {| ts_nanos := ts_nanos t'; ts_buckets := set_nth idx b' (ts_buckets t');
     ts_sum := if v then (fst s + 1, snd s) else (fst s, snd s + 1); ts_head := ts_head t' |}.

(* ---------------- the stats interface --------------------------------- *)

Inductive stats := SC (c : cstats) | ST (t : tstats).

Definition st_exec (s : stats) : Z :=
  match s with SC c => cs_occ c | ST t => fst (ts_sum t) + snd (ts_sum t) end.
Definition st_fail (s : stats) : Z := match s with SC c => cs_fail c | ST t => snd (ts_sum t) end.
Definition st_succ (s : stats) : Z := match s with SC c => cs_succ c | ST t => fst (ts_sum t) end.
Definition st_frate (s : stats) : Z := rate (st_fail s) (st_exec s).
Definition st_srate (s : stats) : Z := rate (st_succ s) (st_exec s).
Definition st_record (s : stats) (now : Z) (v : bool) : stats :=
  match s with SC c => SC (cs_record c v) | ST t => ST (ts_record t now v) end.

(* ---------------- configuration (circuitbreakerbuilder.go) ------------- *)

(* delay functions: decided by the failed attempt's result *)
Inductive dfn := DFNone | DFTable (tbl : list (Z * Z)) (default : Z).

Definition dfn_eval (f : dfn) (r : Z) : Z :=
  match f with
  | DFNone => -1
  | DFTable tbl d =>
      match find (fun p => fst p =? r) tbl with Some p => snd p | None => d end
  end.

Record bcfg := {
  b_fthr : Z; b_frate : Z; b_fcap : Z; b_fexec : Z; b_fperiod : Z;
  b_sthr : Z; b_scap : Z; b_delay : Z; b_dfn : dfn; b_fpol : fpolicy }.

Inductive bcall :=
  | WithFailureThreshold (n : Z)
  | WithFailureThresholdRatio (n c : Z)
  | WithFailureThresholdPeriod (n p : Z)
  | WithFailureRateThreshold (r e p : Z)
  | WithSuccessThreshold (n : Z)
  | WithSuccessThresholdRatio (n c : Z)
  | WithDelay (d : Z)
  | WithDelayFunc (f : dfn)
  | BHandle (h : hcall).

Definition bcfg_default : bcfg :=
  {| b_fthr := 1; b_frate := 0; b_fcap := 1; b_fexec := 0; b_fperiod := 0; b_sthr := 0; b_scap := 0;
     b_delay := 60000000000; b_dfn := DFNone; b_fpol := fpolicy_empty |}.

Definition apply_bcall (c : bcfg) (b : bcall) : bcfg :=
  match b with
  | WithFailureThreshold n =>
      {| b_fthr := n; b_frate := b_frate c; b_fcap := n; b_fexec := b_fexec c; b_fperiod := b_fperiod c;
         b_sthr := b_sthr c; b_scap := b_scap c; b_delay := b_delay c; b_dfn := b_dfn c; b_fpol := b_fpol c |}
  | WithFailureThresholdRatio n k =>
      {| b_fthr := n; b_frate := b_frate c; b_fcap := k; b_fexec := b_fexec c; b_fperiod := b_fperiod c;
         b_sthr := b_sthr c; b_scap := b_scap c; b_delay := b_delay c; b_dfn := b_dfn c; b_fpol := b_fpol c |}
  | WithFailureThresholdPeriod n p =>
      {| b_fthr := n; b_frate := b_frate c; b_fcap := n; b_fexec := n; b_fperiod := p;
         b_sthr := b_sthr c; b_scap := b_scap c; b_delay := b_delay c; b_dfn := b_dfn c; b_fpol := b_fpol c |}
  | WithFailureRateThreshold r e p =>
      {| b_fthr := b_fthr c; b_frate := r; b_fcap := b_fcap c; b_fexec := e; b_fperiod := p;
         b_sthr := b_sthr c; b_scap := b_scap c; b_delay := b_delay c; b_dfn := b_dfn c; b_fpol := b_fpol c |}
  | WithSuccessThreshold n =>
      {| b_fthr := b_fthr c; b_frate := b_frate c; b_fcap := b_fcap c; b_fexec := b_fexec c; b_fperiod := b_fperiod c;
         b_sthr := n; b_scap := n; b_delay := b_delay c; b_dfn := b_dfn c; b_fpol := b_fpol c |}
  | WithSuccessThresholdRatio n k =>
      {| b_fthr := b_fthr c; b_frate := b_frate c; b_fcap := b_fcap c; b_fexec := b_fexec c; b_fperiod := b_fperiod c;
         b_sthr := n; b_scap := k; b_delay := b_delay c; b_dfn := b_dfn c; b_fpol := b_fpol c |}
  | WithDelay d =>
      {| b_fthr := b_fthr c; b_frate := b_frate c; b_fcap := b_fcap c; b_fexec := b_fexec c; b_fperiod := b_fperiod c;
         b_sthr := b_sthr c; b_scap := b_scap c; b_delay := d; b_dfn := b_dfn c; b_fpol := b_fpol c |}
  | WithDelayFunc f =>
      {| b_fthr := b_fthr c; b_frate := b_frate c; b_fcap := b_fcap c; b_fexec := b_fexec c; b_fperiod := b_fperiod c;
         b_sthr := b_sthr c; b_scap := b_scap c; b_delay := b_delay c; b_dfn := f; b_fpol := b_fpol c |}
  | BHandle h =>
      {| b_fthr := b_fthr c; b_frate := b_frate c; b_fcap := b_fcap c; b_fexec := b_fexec c; b_fperiod := b_fperiod c;
         b_sthr := b_sthr c; b_scap := b_scap c; b_delay := b_delay c; b_dfn := b_dfn c;
         b_fpol := apply_hcall (b_fpol c) h |}
  end.

Definition build_bcfg (calls : list bcall) : bcfg := fold_left apply_bcall calls bcfg_default.

(* capacities chosen by newClosedState / newHalfOpenState *)
Definition closed_capacity (c : bcfg) : Z := if b_fexec c =? 0 then b_fcap c else b_fexec c.
Definition halfopen_capacity (c : bcfg) : Z :=
  if negb (b_scap c =? 0) then b_scap c
  else if negb (b_fexec c =? 0) then b_fexec c else b_fcap c.

(* configurations on which the Go code neither divides by zero nor wraps an unsigned subtraction *)
Definition bcfg_ok (c : bcfg) : bool :=
  (1 <=? b_fthr c) && (b_fthr c <=? b_fcap c) && (0 <=? b_frate c) && (b_frate c <=? 100)
  && (0 <=? b_fexec c) && (1 <=? closed_capacity c) && (1 <=? halfopen_capacity c)
  && (0 <=? b_sthr c) && (b_sthr c <=? b_scap c)
  && ((b_fperiod c =? 0) || (10 <=? b_fperiod c))
  && ((b_frate c =? 0) || (10 <=? b_fperiod c))
  && (0 <=? b_delay c).

(* ---------------- states ----------------------------------------------- *)
(* The state machine is written once, over an arbitrary implementation of the
   stats interface: [conc_impl] below is the code's (bit ring / time buckets);
   Spec/BreakerSpec.v instantiates the same machine with the documented
   windows (a plain log of results). *)

Record stats_impl (S : Type) := {
  si_exec : S -> Z; si_fail : S -> Z; si_succ : S -> Z;
  si_record : S -> Z -> bool -> S;
  si_new_closed : bcfg -> S; si_new_half : bcfg -> S }.
Arguments si_exec {S}. Arguments si_fail {S}. Arguments si_succ {S}.
Arguments si_record {S}. Arguments si_new_closed {S}. Arguments si_new_half {S}.

Definition conc_impl : stats_impl stats :=
  {| si_exec := st_exec; si_fail := st_fail; si_succ := st_succ; si_record := st_record;
     si_new_closed := fun c =>
       if negb (b_fperiod c =? 0) then ST (ts_new (b_fperiod c)) else SC (cs_new (closed_capacity c));
     si_new_half := fun c => SC (cs_new (halfopen_capacity c)) |}.

(* a state-change event as seen by one listener: tag 0/1/2 = OnClose/OnOpen/OnHalfOpen, 3 = OnStateChanged *)
Record bevent := { ev_tag : Z; ev_old : Z; ev_new : Z; ev_metrics : list Z }.

Inductive bop :=
  | BRecordSuccess | BRecordFailure | BRecordResult (r : Z) | BRecordError (e : err)
  | BTryAcquire | BOpen | BHalfOpen | BClose
  | BExec (o : outcome)      (* failsafe.Get(fn returning o at once, breaker) *)
  | BQuery.

Record bobs := {
  ob_val : Z;           (* TryAcquirePermit: 1/0; Exec: 1 = function ran, 0 = rejected with ErrOpen; else 0 *)
  ob_state : Z; ob_remaining : Z; ob_metrics : list Z; ob_events : list bevent }.

Section Machine.
  Context {S : Type} (I : stats_impl S).

  Inductive bstate :=
    | Closed (s : S)
    | Open (s : S) (start delay : Z)      (* keeps the previous state's stats *)
    | HalfOpen (s : S) (permitted : Z).

  Definition state_code (s : bstate) : Z :=
    match s with Closed _ => 0 | Open _ _ _ => 1 | HalfOpen _ _ => 2 end.

  Definition state_stats (s : bstate) : S :=
    match s with Closed st => st | Open st _ _ => st | HalfOpen st _ => st end.

  Definition new_closed (c : bcfg) : bstate := Closed (si_new_closed I c).
  Definition new_halfopen (c : bcfg) : bstate := HalfOpen (si_new_half I c) (halfopen_capacity c).

  Definition frate (st : S) : Z := rate (si_fail I st) (si_exec I st).
  Definition srate (st : S) : Z := rate (si_succ I st) (si_exec I st).

  (* the five metrics *)
  Definition metrics (s : S) : list Z := [si_exec I s; si_fail I s; frate s; si_succ I s; srate s].

  (* transitionTo: the specific listener, then the generic one; metrics of the old state *)
  Definition transition (c : bcfg) (s : bstate) (now : Z) (target : Z) (dly : Z) : bstate * list bevent :=
    if state_code s =? target then (s, [])
    else
      let s' := if target =? 0 then new_closed c
                else if target =? 1 then Open (state_stats s) now dly
                else new_halfopen c in
      let m := metrics (state_stats s) in
      (s', [ {| ev_tag := target; ev_old := state_code s; ev_new := target; ev_metrics := m |};
             {| ev_tag := 3; ev_old := state_code s; ev_new := target; ev_metrics := m |} ]).

  (* delay used when opening: the delay function only sees executions that run through the policy *)
  Definition open_delay (c : bcfg) (exec_result : option Z) : Z :=
    match exec_result with
    | Some r => let d := dfn_eval (b_dfn c) r in if d =? -1 then b_delay c else d
    | None => b_delay c
    end.

  (* tryAcquirePermit *)
  Definition try_acquire (c : bcfg) (s : bstate) (now : Z) : bool * bstate * list bevent :=
    match s with
    | Closed _ => (true, s, [])
    | Open _ start dly =>
        if dly <=? now - start then
          let '(s', evs) := transition c s now 2 0 in
          match s' with
          | HalfOpen cs p => if 0 <? p then (true, HalfOpen cs (p - 1), evs) else (false, s', evs)
          | _ => (true, s', evs)
          end
        else (false, s, [])
    | HalfOpen cs p => if 0 <? p then (true, HalfOpen cs (p - 1), []) else (false, s, [])
    end.

  (* checkThresholdAndReleasePermit *)
  Definition check_threshold (c : bcfg) (s : bstate) (now : Z) (exec_result : option Z) : bstate * list bevent :=
    match s with
    | Closed st =>
        if b_fexec c <=? si_exec I st then
          if (negb (b_frate c =? 0) && (b_frate c <=? frate st))
             || ((b_frate c =? 0) && (b_fthr c <=? si_fail I st))
          then transition c s now 1 (open_delay c exec_result)
          else (s, [])
        else (s, [])
    | Open _ _ _ => (s, [])
    | HalfOpen st p =>
        let '(succ_ex, fail_ex) :=
          if negb (b_sthr c =? 0) then
            (b_sthr c <=? si_succ I st, b_scap c - b_sthr c <? si_fail I st)
          else if negb (b_frate c =? 0) then
            let ex := b_fexec c <=? si_exec I st in
            (ex && (100 - b_frate c <? srate st), ex && (b_frate c <=? frate st))
          else
            (b_fcap c - b_fthr c <? si_succ I st, b_fthr c <=? si_fail I st) in
        if succ_ex then transition c s now 0 0
        else if fail_ex then transition c s now 1 (open_delay c exec_result)
        else (HalfOpen st (p + 1), [])
    end.

  Definition with_stats (s : bstate) (st : S) : bstate :=
    match s with
    | Closed _ => Closed st
    | Open _ a b => Open st a b
    | HalfOpen _ p => HalfOpen st p
    end.

  (* recordSuccess / recordFailure *)
  Definition record (c : bcfg) (s : bstate) (now : Z) (success : bool) (exec_result : option Z) : bstate * list bevent :=
    let s1 := with_stats s (si_record I (state_stats s) now success) in
    check_threshold c s1 now exec_result.

  Definition remaining_delay (s : bstate) (now : Z) : Z :=
    match s with Open _ start dly => Z.max 0 (dly - (now - start)) | _ => 0 end.

  Definition bstep_core (c : bcfg) (s : bstate) (now : Z) (op : bop) : Z * bstate * list bevent :=
    match op with
    | BRecordSuccess => let '(s', e) := record c s now true None in (0, s', e)
    | BRecordFailure => let '(s', e) := record c s now false None in (0, s', e)
    | BRecordResult r =>
        let '(s', e) := record c s now (negb (is_failure (b_fpol c) (r, None))) None in (0, s', e)
    | BRecordError er =>
        let '(s', e) := record c s now (negb (is_failure (b_fpol c) (0, Some er))) None in (0, s', e)
    | BTryAcquire => let '(b, s', e) := try_acquire c s now in ((if b then 1 else 0), s', e)
    | BOpen => let '(s', e) := transition c s now 1 (b_delay c) in (0, s', e)
    | BHalfOpen => let '(s', e) := transition c s now 2 0 in (0, s', e)
    | BClose => let '(s', e) := transition c s now 0 0 in (0, s', e)
    | BExec o =>
        let '(b, s1, e1) := try_acquire c s now in
        if b then
          (* OnSuccess records through RecordSuccess (no execution); OnFailure hands the
             execution with the failed result to the delay function *)
          let ok := negb (is_failure (b_fpol c) o) in
          let '(s2, e2) := record c s1 now ok (if ok then None else Some (fst o)) in
          (1, s2, e1 ++ e2)
        else (0, s1, e1)
    | BQuery => (0, s, [])
    end.

  Definition bstep (c : bcfg) (s : bstate) (now : Z) (op : bop) : bobs * bstate :=
    let '(v, s', e) := bstep_core c s now op in
    ({| ob_val := v; ob_state := state_code s'; ob_remaining := remaining_delay s' now;
        ob_metrics := metrics (state_stats s'); ob_events := e |}, s').

  Fixpoint brun (c : bcfg) (s : bstate) (h : list (Z * bop)) : list bobs :=
    match h with
    | [] => []
    | (now, op) :: h' => let '(o, s') := bstep c s now op in o :: brun c s' h'
    end.

  Fixpoint bfinal (c : bcfg) (s : bstate) (h : list (Z * bop)) : bstate :=
    match h with
    | [] => s
    | (now, op) :: h' => bfinal c (snd (bstep c s now op)) h'
    end.
End Machine.

Arguments Closed {S}. Arguments Open {S}. Arguments HalfOpen {S}.

(* the breaker of the code *)
Definition cb_init (c : bcfg) : bstate (S := stats) := new_closed conc_impl c.
Definition cb_run (c : bcfg) (h : list (Z * bop)) : list bobs := brun conc_impl c (cb_init c) h.

(* history guard: instants non-decreasing from a non-negative start *)
Fixpoint bhist_ok (tlast : Z) (h : list (Z * bop)) : bool :=
  match h with
  | [] => true
  | (now, _) :: h' => (tlast <=? now) && bhist_ok now h'
  end.
