(* Model/CacheGen.v — the cache policy over an ARBITRARY result type (cachepolicy/cacheexecutor.go PreExecute /
   PostExecute with a policy directly around the function).  Model/Exec.v fixes results to integers; this file states what
   the cache does for every type of value: no value -- zero, nil, empty -- is special. *)
From Coq Require Export List ZArith Bool.
Export ListNotations.
Open Scope Z_scope.

Section Cache.
Variable V : Type.

Definition store := list (Z * V).
Definition cget (l : store) (k : Z) : option V :=
  match find (fun p => fst p =? k) l with Some p => Some (snd p) | None => None end.
Definition cset (l : store) (k : Z) (v : V) : store := (k, v) :: filter (fun p => negb (fst p =? k)) l.

(* one execution whose function would return [fn]: (result, was the function invoked?, store afterwards); key 0 = no key *)
Definition cache_exec (l : store) (k : Z) (fn : V) : V * bool * store :=
  if k =? 0 then (fn, true, l)
  else match cget l k with
       | Some v => (v, false, l)
       | None => (fn, true, cset l k fn)
       end.
End Cache.

Arguments cget {V}. Arguments cset {V}. Arguments cache_exec {V}.
