(* Model/Ledger.v — what an execution may leave behind (property C19).
   (1) The hedge attempts' result hand-off (hedgepolicy/hedgeexecutor.go:46-53): each attempt goroutine, when its
   inner call returns, increments the result count and - if its result is final or matches the cancel conditions and
   it wins the compare-and-swap on resultSent - sends on the result channel, which has a buffer of one.  The main loop
   may or may not receive (it returns early when the execution is cancelled).  A goroutine leaks iff its send blocks.
   (2) The table of spawn sites (go statements, timers, AfterFunc, derived contexts) regenerated from the sources on
   every run, compared with the sites this development knows an exit argument for. *)
From Coq Require Export List Arith Bool Lia String.
Export ListNotations.

(* ---------------- hedge hand-off ---------------------------------------- *)
Record hstate := {
  hs_sent : bool;          (* resultSent *)
  hs_chan : nat;           (* elements in the result channel (capacity hs_cap) *)
  hs_cap : nat;
  hs_blocked : nat;        (* senders blocked forever on a full channel nobody reads *)
  hs_count : nat }.

Inductive hstep :=
  | HFinish (wants_send : bool)   (* an attempt's inner call returns; wants_send = final or cancellable *)
  | HRecv.                        (* the main loop receives (if anything is there) *)

Definition h_step (s : hstate) (x : hstep) : hstate :=
  match x with
  | HFinish w =>
      if w && negb (hs_sent s) then
        (* won the compare-and-swap: send *)
        if Nat.ltb (hs_chan s) (hs_cap s)
        then {| hs_sent := true; hs_chan := S (hs_chan s); hs_cap := hs_cap s; hs_blocked := hs_blocked s; hs_count := S (hs_count s) |}
        else {| hs_sent := true; hs_chan := hs_chan s; hs_cap := hs_cap s; hs_blocked := S (hs_blocked s); hs_count := S (hs_count s) |}
      else {| hs_sent := hs_sent s; hs_chan := hs_chan s; hs_cap := hs_cap s; hs_blocked := hs_blocked s; hs_count := S (hs_count s) |}
  | HRecv =>
      match hs_chan s with
      | O => s
      | S n => {| hs_sent := hs_sent s; hs_chan := n; hs_cap := hs_cap s; hs_blocked := hs_blocked s; hs_count := hs_count s |}
      end
  end.

Definition h_init (cap : nat) : hstate := {| hs_sent := false; hs_chan := 0; hs_cap := cap; hs_blocked := 0; hs_count := 0 |}.
Definition h_run (cap : nat) (tr : list hstep) : hstate := fold_left h_step tr (h_init cap).

(* ---------------- spawn sites ------------------------------------------- *)
(* (file, function, kind) with kind in go / NewTimer / AfterFunc / WithCancel / WithCancelCause / WithTimeout / WithDeadline *)
Definition site := (string * string * string)%type.

Definition site_eqb (a b : site) : bool :=
  String.eqb (fst (fst a)) (fst (fst b)) && String.eqb (snd (fst a)) (snd (fst b)) && String.eqb (snd a) (snd b).

(* the sites of the library and why each one ends *)
Definition known_sites : list site := [
  ("executor.go", "executeAsync", "go");                 (* async runner: ends when execute returns *)
  ("executor.go", "executeAsync", "WithCancel");         (* cancelled by ExecutionResult.Cancel or with the parent *)
  ("execution.go", "CopyForCancellable", "WithCancel");  (* child of the execution's context: released with it; cancelled by Timeout/hedge *)
  ("execution.go", "CopyForHedge", "WithCancel");
  ("hedgepolicy/hedgeexecutor.go", "Apply", "go");       (* hedge attempt: ends when the inner call returns; its send never blocks (theorem below) *)
  ("hedgepolicy/hedgeexecutor.go", "Apply", "NewTimer"); (* stopped when a result or the cancellation arrives first, else fires *)
  ("timeout/timeoutexecutor.go", "Apply", "AfterFunc");  (* stopped when the inner result wins, else fires once *)
  ("retrypolicy/retryexecutor.go", "Apply", "NewTimer"); (* stopped on cancellation, else fires *)
  ("ratelimiter/ratelimiter.go", "AcquirePermits", "NewTimer");
  ("ratelimiter/ratelimiter.go", "acquirePermitsWithMaxWait", "NewTimer");
  ("bulkhead/bulkhead.go", "AcquirePermitWithMaxWait", "NewTimer");   (* deferred Stop *)
  ("internal/util/util.go", "MergeContexts", "WithCancelCause");      (* cancelled by the returned function when the attempt returns *)
  ("internal/util/util.go", "MergeContexts", "AfterFunc")             (* unregistered by the returned function *)
]%string.

Definition sites_known (observed : list site) : bool :=
  forallb (fun s => existsb (site_eqb s) known_sites) observed.
