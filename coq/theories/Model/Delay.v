(* Model/Delay.v — the delay a retry policy schedules.
   Mirrors: retrypolicy/retryexecutor.go getDelay / getFixedOrRandomDelay / adjustForJitter /
   adjustForMaxDuration, internal/util RandomDelayInRange / RandomDelay / RandomDelayFactor,
   retrypolicy/retry.go WithDelay / WithBackoff(Factor) / WithRandomDelay / WithJitter(Factor).
   float32 / float64 arithmetic is computed exactly: a float is a rational num/den (den a power
   of two), every operation is the exact rational operation followed by IEEE-754
   round-to-nearest-even to 24 or 53 significant bits (normal range; no fused operations).
   Random draws are arguments.  No proofs here. *)
From Coq Require Export List ZArith Bool Lia.
Export ListNotations.
Open Scope Z_scope.

Definition fl := (Z * Z)%type.   (* numerator, positive denominator *)

Definition scaled2 (num den s : Z) : Z * Z :=
  if 0 <=? s then (num * 2 ^ s, den) else (num, den * 2 ^ (- s)).

(* round the positive rational a/d to p significant bits, ties to even *)
Definition rnd_pos (p : Z) (a d : Z) : fl :=
  let e0 := Z.log2 a - Z.log2 d in
  let s0 := (p - 1) - e0 in
  let q0 := let '(n, d') := scaled2 a d s0 in n / d' in
  let s := if 2 ^ p <=? q0 then s0 - 1 else if q0 <? 2 ^ (p - 1) then s0 + 1 else s0 in
  let '(n, d') := scaled2 a d s in
  let q := n / d' in
  let r := n mod d' in
  let m := if 2 * r <? d' then q else if d' <? 2 * r then q + 1 else if Z.even q then q else q + 1 in
  if 0 <=? s then (m, 2 ^ s) else (m * 2 ^ (- s), 1).

Definition rnd (p : Z) (x : fl) : fl :=
  let '(n, d) := x in
  if n =? 0 then (0, 1)
  else if 0 <? n then rnd_pos p n d
  else let '(m, d') := rnd_pos p (- n) d in (- m, d').

Definition fmul (p : Z) (x y : fl) : fl := rnd p (fst x * fst y, snd x * snd y).
Definition fadd (p : Z) (x y : fl) : fl := rnd p (fst x * snd y + fst y * snd x, snd x * snd y).
Definition fsub (p : Z) (x y : fl) : fl := rnd p (fst x * snd y - fst y * snd x, snd x * snd y).
Definition of_int (p : Z) (n : Z) : fl := rnd p (n, 1).
(* Go's conversion of a float to an integer type truncates toward zero *)
Definition to_int (x : fl) : Z := Z.quot (fst x) (snd x).

(* util.RandomDelayInRange (float64) *)
Definition random_delay_in_range (dmin dmax : Z) (random : fl) : Z :=
  let min64 := of_int 53 dmin in let max64 := of_int 53 dmax in
  to_int (fadd 53 (fmul 53 random (fsub 53 max64 min64)) min64).

(* util.RandomDelay (float64) *)
Definition random_delay (delay jitter : Z) (random : fl) : Z :=
  let addend := fmul 53 (fsub 53 (1, 1) (fmul 53 random (2, 1))) (of_int 53 jitter) in
  delay + to_int addend.

(* util.RandomDelayFactor (float32) *)
Definition random_delay_factor (delay : Z) (jitter_factor random : fl) : Z :=
  let factor := fadd 24 (1, 1) (fmul 24 (fsub 24 (1, 1) (fmul 24 random (2, 1))) jitter_factor) in
  to_int (fmul 24 (of_int 24 delay) factor).

(* ---------------- retry policy delay configuration ---------------------- *)

Record dcfg := {
  d_delay : Z; d_max_delay : Z; d_factor : fl;       (* WithDelay / WithBackoffFactor *)
  d_min : Z; d_max : Z;                               (* WithRandomDelay *)
  d_jitter : Z; d_jitter_factor : fl;                 (* WithJitter / WithJitterFactor *)
  d_max_duration : Z }.

(* getFixedOrRandomDelay: returns (delay, new lastDelay) *)
Definition fixed_or_random (c : dcfg) (last retries : Z) (draw : fl) : Z * Z :=
  if negb (d_delay c =? 0) then
    let l' :=
      if negb (last =? 0) && (1 <=? retries) && negb (d_max_delay c =? 0)
      then Z.min (to_int (fmul 24 (of_int 24 last) (d_factor c))) (d_max_delay c)
      else d_delay c in
    (l', l')
  else if negb (d_min c =? 0) && negb (d_max c =? 0) then (random_delay_in_range (d_min c) (d_max c) draw, last)
  else (0, last).

(* adjustForJitter *)
Definition adjust_for_jitter (c : dcfg) (delay : Z) (draw64 draw32 : fl) : Z :=
  if negb (d_jitter c =? 0) then random_delay delay (d_jitter c) draw64
  else if negb (fst (d_jitter_factor c) =? 0) then random_delay_factor delay (d_jitter_factor c) draw32
  else delay.

(* adjustForMaxDuration *)
Definition adjust_for_max_duration (c : dcfg) (delay elapsed : Z) : Z :=
  Z.max 0 (if negb (d_max_duration c =? 0) then Z.min delay (d_max_duration c - elapsed) else delay).

(* getDelay: [computed] is the delay function's value (-1 = none); returns (delay, new lastDelay) *)
Definition get_delay (c : dcfg) (last retries elapsed computed : Z) (d_range d_jit64 d_jit32 : fl) : Z * Z :=
  let '(d, last') := if negb (computed =? -1) then (computed, last) else fixed_or_random c last retries d_range in
  let d := if negb (d =? 0) then adjust_for_jitter c d d_jit64 d_jit32 else d in
  (adjust_for_max_duration c d elapsed, last').

(* the sequence of un-jittered backoff values of one execution: k-th retry *)
Fixpoint backoff_seq (c : dcfg) (k : nat) : Z :=
  match k with
  | O => d_delay c
  | S k' => fst (fixed_or_random c (backoff_seq c k') 1 (0, 1))
  end.
