(* Model/TimeoutRace.v — the two-goroutine protocol of timeout/timeoutexecutor.go:31-53.
   Timer goroutine (time.AfterFunc callback): compare-and-swap nil -> timeout result; if it wins:
   call the listener, then Cancel the child execution.  Caller goroutine: run the inner
   function, compare-and-swap nil -> inner result, Stop the timer if that won, then PostExecute
   on result.Load().  One step = one atomic operation; any interleaving is a list of steps. *)
From Coq Require Export List Bool.
Export ListNotations.

Inductive cell := CNone | CInner | CTimeout.
Inductive tpc := TIdle | TWon | TListened | TDoneWon | TLost | TStopped.
Inductive mpc := MRunning | MReturned | MSwapped | MStopped | MDone.
Inductive count := Zero | One | Many.

Record st := {
  s_cell : cell; s_t : tpc; s_m : mpc;
  s_listener : count;          (* calls of OnTimeoutExceeded *)
  s_cancelled : bool;          (* the child execution was cancelled by this Timeout *)
  s_blocking : bool;           (* the inner function returns only once its execution is cancelled *)
  s_ret : cell }.              (* what PostExecute received *)

Definition init (blocking : bool) : st :=
  {| s_cell := CNone; s_t := TIdle; s_m := MRunning; s_listener := Zero; s_cancelled := false;
     s_blocking := blocking; s_ret := CNone |}.

Inductive step := TFire | TListener | TCancel | MReturn | MCas | MStop | MPost.

Definition bump (c : count) : count := match c with Zero => One | _ => Many end.

(* a step that is not enabled leaves the state unchanged *)
Definition do_step (s : st) (x : step) : st :=
  match x, s_t s, s_m s with
  | TFire, TIdle, _ =>
      match s_cell s with
      | CNone => {| s_cell := CTimeout; s_t := TWon; s_m := s_m s; s_listener := s_listener s; s_cancelled := s_cancelled s;
                    s_blocking := s_blocking s; s_ret := s_ret s |}
      | _ => {| s_cell := s_cell s; s_t := TLost; s_m := s_m s; s_listener := s_listener s; s_cancelled := s_cancelled s;
                s_blocking := s_blocking s; s_ret := s_ret s |}
      end
  | TListener, TWon, _ =>
      {| s_cell := s_cell s; s_t := TListened; s_m := s_m s; s_listener := bump (s_listener s); s_cancelled := s_cancelled s;
         s_blocking := s_blocking s; s_ret := s_ret s |}
  | TCancel, TListened, _ =>
      {| s_cell := s_cell s; s_t := TDoneWon; s_m := s_m s; s_listener := s_listener s; s_cancelled := true;
         s_blocking := s_blocking s; s_ret := s_ret s |}
  | MReturn, _, MRunning =>
      if negb (s_blocking s) || s_cancelled s then
        {| s_cell := s_cell s; s_t := s_t s; s_m := MReturned; s_listener := s_listener s; s_cancelled := s_cancelled s;
           s_blocking := s_blocking s; s_ret := s_ret s |}
      else s
  | MCas, _, MReturned =>
      match s_cell s with
      | CNone => {| s_cell := CInner; s_t := s_t s; s_m := MSwapped; s_listener := s_listener s; s_cancelled := s_cancelled s;
                    s_blocking := s_blocking s; s_ret := s_ret s |}
      | _ => {| s_cell := s_cell s; s_t := s_t s; s_m := MStopped; s_listener := s_listener s; s_cancelled := s_cancelled s;
                s_blocking := s_blocking s; s_ret := s_ret s |}
      end
  | MStop, t, MSwapped =>       (* timer.Stop(): prevents a callback that has not started *)
      {| s_cell := s_cell s; s_t := (match t with TIdle => TStopped | _ => t end); s_m := MStopped; s_listener := s_listener s;
         s_cancelled := s_cancelled s; s_blocking := s_blocking s; s_ret := s_ret s |}
  | MPost, _, MStopped =>
      {| s_cell := s_cell s; s_t := s_t s; s_m := MDone; s_listener := s_listener s; s_cancelled := s_cancelled s;
         s_blocking := s_blocking s; s_ret := s_cell s |}
  | _, _, _ => s
  end.

Definition run (s : st) (tr : list step) : st := fold_left do_step tr s.

(* the caller has returned and the timer goroutine is not in the middle of its callback *)
Definition quiescent (s : st) : bool :=
  match s_m s, s_t s with
  | MDone, (TIdle | TDoneWon | TLost | TStopped) => true
  | _, _ => false
  end.

(* the property: exactly one of the two consistent outcomes *)
Definition exclusive (s : st) : bool :=
  match s_ret s, s_listener s, s_cancelled s with
  | CInner, Zero, false => true
  | CTimeout, One, true => true
  | _, _, _ => false
  end.
