(* Model/Classify.v — failure classification.
   Mirrors: policy/policy.go (BaseFailurePolicy, BaseAbortablePolicy),
   internal/util/util.go (ErrorTypesMatch, errorAs, AppliesToAny), the Go
   standard library's errors.Is for the error shapes of Base/Values.v, and
   hedgepolicy/hedge.go Build() (default cancel condition). No proofs here. *)
From FS Require Export Base.Values.

(* ---------------- errors.Is ------------------------------------------ *)

(* x.Is(target) for the two shapes that carry an Is method:
   retrypolicy.ExceededError.Is (retry.go:30-35) and the harness' custom type. *)
Definition has_is_method (e t : err) : bool :=
  match e with
  | EExceeded _ _ => err_ideq t ERetryExceeded || err_ideq t e
  | ECustomIs _ target => err_ideq t (ESent target)
  | _ => false
  end.

(* errors.Is(err, target) for err, target non-nil (stdlib errors/wrap.go `is`). *)
Fixpoint errors_is (e t : err) : bool :=
  err_ideq e t || has_is_method e t ||
  match e with
  | EWrap x => errors_is x t
  | EJoin xs =>
      (fix any (l : list err) : bool :=
         match l with [] => false | x :: l' => errors_is x t || any l' end) xs
  | EExceeded _ (Some x) => errors_is x t      (* ExceededError.Unwrap = LastError *)
  | EExceeded _ None => err_ideq EAnon t       (* Unwrap = fresh fmt.Errorf value  *)
  | _ => false
  end.

(* ---------------- util.ErrorTypesMatch -------------------------------- *)

(* What a caller may pass as the `target any` of HandleErrorTypes. *)
Inductive tgt : Type :=
  | TgtErr (e : err)          (* an error value, e.g. MyErr{} or &MyErr{} or a sentinel *)
  | TgtPtrRecvVal (ty : nat)  (* P{}: non-pointer value of a pointer-receiver type       *)
  | TgtIface.                 (* new(error): pointer to an interface type *)

(* Normalised target type computed by ErrorTypesMatch (util.go:28-39);
   None = an interface type every error is assignable to. *)
Definition target_type (t : tgt) : option dyn_type :=
  match t with
  | TgtIface => None
  | TgtPtrRecvVal ty => Some (TyPtr ty)
  | TgtErr e =>
      Some (match type_of e with
            | TyPtrVal ty => TyVal ty      (* *T -> Elem T, T implements error *)
            | ty => ty                     (* T stays; *P -> P -> back to *P   *)
            end)
  end.

Definition assignable (e : err) (tt : option dyn_type) : bool :=
  match tt with None => true | Some ty => dyn_type_eqb (type_of e) ty end.

(* errorAs (util.go:42-67) *)
Fixpoint error_as (e : err) (tt : option dyn_type) : bool :=
  assignable e tt ||
  match e with
  | EWrap x => error_as x tt
  | EJoin xs =>
      (fix any (l : list err) : bool :=
         match l with [] => false | x :: l' => error_as x tt || any l' end) xs
  | EExceeded _ (Some x) => error_as x tt
  | EExceeded _ None => assignable EAnon tt
  | _ => false
  end.

Definition types_match (oe : option err) (t : tgt) : bool :=
  match oe with None => false | Some e => error_as e (target_type t) end.

(* ---------------- predicates handed to HandleIf / AbortIf / CancelIf --- *)

Inductive pred : Type :=
  | PAlways | PNever
  | PResEq (k : Z) | PResGe (k : Z)
  | PHasErr | PErrIs (t : err)
  | PNot (p : pred) | PAnd (p q : pred) | POr (p q : pred).

Definition oerr_is (oe : option err) (t : err) : bool :=
  match oe with None => false | Some e => errors_is e t end.

Fixpoint pred_eval (p : pred) (o : outcome) : bool :=
  match p with
  | PAlways => true | PNever => false
  | PResEq k => Z.eqb (fst o) k
  | PResGe k => Z.leb k (fst o)
  | PHasErr => match snd o with Some _ => true | None => false end
  | PErrIs t => oerr_is (snd o) t
  | PNot q => negb (pred_eval q o)
  | PAnd q r => pred_eval q o && pred_eval r o
  | POr q r => pred_eval q o || pred_eval r o
  end.

(* ---------------- conditions ------------------------------------------ *)

Inductive cond : Type :=
  | CErrIs (t : err)     (* closure made by HandleErrors / AbortOnErrors         *)
  | CErrType (t : tgt)   (* closure made by HandleErrorTypes / AbortOnErrorTypes *)
  | CResult (r : Z)      (* closure made by HandleResult / AbortOnResult         *)
  | CIf (p : pred).      (* HandleIf / AbortIf                                   *)

Definition has_err (o : outcome) : bool :=
  match snd o with Some _ => true | None => false end.

(* The closures of policy.go:22-51, 101-129.  The result closure requires
   err == nil since the `fix:` commit for finding F2 (DESIGN.md section 5). *)
Definition cond_matches (o : outcome) (c : cond) : bool :=
  match c with
  | CErrIs t => oerr_is (snd o) t
  | CErrType t => types_match (snd o) t
  | CResult r => negb (has_err o) && Z.eqb (fst o) r
  | CIf p => pred_eval p o
  end.

(* The same closures as they were before the fix (reflect.DeepEqual(r, result)
   regardless of the error); kept only for the refutation lemma. *)
Definition cond_matches_prefix (o : outcome) (c : cond) : bool :=
  match c with
  | CResult r => Z.eqb (fst o) r
  | _ => cond_matches o c
  end.

(* util.AppliesToAny *)
Definition applies_to_any (cs : list cond) (o : outcome) : bool :=
  existsb (cond_matches o) cs.

(* ---------------- BaseFailurePolicy ----------------------------------- *)

Inductive hcall : Type :=
  | HandleErrors (ts : list err)
  | HandleErrorTypes (ts : list tgt)
  | HandleResult (r : Z)
  | HandleIf (p : pred).

Record fpolicy : Type := { f_conds : list cond; f_errors_checked : bool }.

Definition fpolicy_empty : fpolicy := {| f_conds := []; f_errors_checked := false |}.

(* One builder call (policy.go:22-51), in code order: append, then set flag. *)
Definition apply_hcall (p : fpolicy) (c : hcall) : fpolicy :=
  match c with
  | HandleErrors ts =>
      {| f_conds := f_conds p ++ map CErrIs ts; f_errors_checked := true |}
  | HandleErrorTypes ts =>
      {| f_conds := f_conds p ++ map CErrType ts; f_errors_checked := true |}
  | HandleResult r =>
      {| f_conds := f_conds p ++ [CResult r]; f_errors_checked := f_errors_checked p |}
  | HandleIf q =>
      {| f_conds := f_conds p ++ [CIf q]; f_errors_checked := true |}
  end.

Definition build_fpolicy (calls : list hcall) : fpolicy :=
  fold_left apply_hcall calls fpolicy_empty.

(* BaseFailurePolicy.IsFailure (policy.go:61-71) *)
Definition is_failure (p : fpolicy) (o : outcome) : bool :=
  match f_conds p with
  | [] => has_err o
  | _ :: _ =>
      if applies_to_any (f_conds p) o then true
      else has_err o && negb (f_errors_checked p)
  end.

Definition is_failure_prefix (p : fpolicy) (o : outcome) : bool :=
  match f_conds p with
  | [] => has_err o
  | _ :: _ =>
      if existsb (cond_matches_prefix o) (f_conds p) then true
      else has_err o && negb (f_errors_checked p)
  end.

(* ---------------- BaseAbortablePolicy ---------------------------------- *)

Inductive acall : Type :=
  | AbortOnErrors (ts : list err)
  | AbortOnErrorTypes (ts : list tgt)
  | AbortOnResult (r : Z)
  | AbortIf (p : pred).

Definition apply_acall (cs : list cond) (c : acall) : list cond :=
  match c with
  | AbortOnErrors ts => cs ++ map CErrIs ts
  | AbortOnErrorTypes ts => cs ++ map CErrType ts
  | AbortOnResult r => cs ++ [CResult r]
  | AbortIf q => cs ++ [CIf q]
  end.

Definition build_abort (calls : list acall) : list cond := fold_left apply_acall calls [].

(* BaseAbortablePolicy.IsAbortable *)
Definition is_abortable (cs : list cond) (o : outcome) : bool := applies_to_any cs o.

(* hedge.go Build(): with no cancel condition configured, cancel on anything. *)
Definition build_hedge_cancel (calls : list acall) : list cond :=
  match build_abort calls with
  | [] => [CIf PAlways]
  | cs => cs
  end.
