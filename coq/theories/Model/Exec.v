(* Model/Exec.v — sequential, virtual-time interpreter of one execution through a
   policy stack.  Mirrors, function by function: executor.go (execute),
   policy/policyexecutor.go (BaseExecutor.Apply / PostExecute), common/result.go,
   execution.go (copies, counters, cancellation under the execution mutex),
   retrypolicy/retryexecutor.go, circuitbreaker/circuitbreakerexecutor.go,
   ratelimiter/ratelimiterexecutor.go (+ acquirePermitsWithMaxWait),
   bulkhead/bulkheadexecutor.go (+ AcquirePermitWithMaxWait), timeout/timeoutexecutor.go,
   fallback/fallbackexecutor.go, cachepolicy/cacheexecutor.go.
   User code is data: the wrapped function is a script of (outcome, duration,
   cooperative?) steps, predicates are descriptors, listeners append to the trace.
   Time is absolute Z nanoseconds; cancellation sources are Timeout timers and one
   optional external context cancellation, fired in chronological order.
   A hedge policy is modelled when it is the innermost policy (directly around the function): its
   attempts run in the background ([w_bg]) while the main line of the execution goes on, and
   their completions are events of the same chronological loop ([advance]) as the cancellation
   sources.  (Model/Hedge.v is the stand-alone timed model of the hedge loop used by C09.)
   No proofs here. *)
From FS Require Export Model.Classify Model.Breaker Model.RateLimiter.

(* ---------------- policies -------------------------------------------- *)

Record retry_cfg := {
  r_fpol : fpolicy; r_abort : list cond; r_max_retries : Z; r_max_duration : Z;
  r_return_last : bool; r_delay : Z;
  r_lsn_dur : Z (* how long the policy's own OnFailure listener takes (it does not watch for the cancellation) *) }.

Inductive fb_kind := FBResult (r : Z) | FBError (e : err) | FBEcho (k : Z) | FBWrapErr.
(* [fb_lsn_dur]: how long the fallback's own OnFailure listener takes; [fb_dur]: how long the fallback function takes
   (neither watches for the cancellation) *)
Record fb_cfg := { fb_fpol : fpolicy; fb_kind_of : fb_kind; fb_lsn_dur : Z; fb_dur : Z }.

Record cache_cfg := { ca_key : Z (* 0 = "" *); ca_conds : list cond }.

Record hedge_cfg := { hg_max : nat; hg_delay : Z; hg_cancel : list cond (* cancel conditions after Build() *) }.

Inductive policy :=
  | PRetry (c : retry_cfg)
  | PBreaker (inst : nat)
  | PLimiter (inst : nat) (maxwait : Z)
  | PBulkhead (inst : nat) (maxwait : Z)
  | PTimeout (limit : Z)
  | PFallback (c : fb_cfg)
  | PCache (inst : nat) (c : cache_cfg)
  | PHedge (c : hedge_cfg)          (* modelled as the innermost policy only *).

(* ---------------- the wrapped function --------------------------------- *)

Record fn_step := {
  fs_out : outcome; fs_dur : Z;
  fs_coop : option outcome (* Some o: once its execution is cancelled it returns o ... *);
  fs_lag : Z (* ... this long after the cancellation *) }.

(* ---------------- events (listeners and function entry/exit) ----------- *)

Inductive evk :=
  | KFnStart | KFnEnd
  | KRetryScheduled | KRetry | KRetriesExceeded | KAbort
  | KPolSuccess | KPolFailure
  | KTimeoutExceeded | KFallbackExecuted
  | KCacheHit | KCacheMiss | KCached
  | KRateExceeded | KFull
  | KBreaker
  | KHedge
  | KExecSuccess | KExecFailure | KExecDone.

(* what a listener can read from the execution it is handed *)
Record event := {
  e_kind : evk; e_pos : nat (* stack position of the policy, 0 = outermost; function = stack length *);
  e_attempts : Z; e_retries : Z; e_hedges : Z; e_executions : Z;
  e_out : outcome (* LastResult/LastError, or Result/Error of a done event *);
  e_aux : Z (* scheduled delay; breaker event: old*16+new*4+tag; function entry: IsHedge *) ;
  e_time : Z;
  e_start : Z (* StartTime of the execution *);
  e_astart : Z (* AttemptStartTime of the execution copy the observer was handed; -1 where the event carries none *) }.

(* ---------------- world ------------------------------------------------ *)

Record copyst := { cp_chain : list nat (* cancel scopes, innermost first *); cp_last : outcome; cp_start : Z }.

Record scope := {
  sc_deadline : option Z;        (* pending Timeout timer *)
  sc_fired : bool;               (* the timer won the compare-and-swap *)
  sc_done : option (Z * err);    (* (sequence number, ctx.Err()) once cancelled *)
  sc_copy : nat;                 (* the execution copy the Timeout created *)
  sc_pos : nat }.

Record rstate := { rs_failed : Z; rs_exceeded : bool }.

Inductive ctxkey := CKNone | CKStr (k : Z) | CKOther.

(* a hedge attempt running in the background: its function returns [bg_out] at [bg_finish] *)
Record bgrun := {
  bg_grp : nat; bg_idx : nat; bg_copy : nat; bg_pos : nat; bg_finish : Z; bg_out : outcome;
  bg_coop : option (outcome * Z) (* not yet interrupted: returns the outcome this long after its execution is cancelled *) }.

(* the hedged run in progress (hedgeexecutor.go: resultCount, resultSent, resultChan) *)
Record hstate := {
  hs_grp : nat; hs_max : nat; hs_cond : list cond; hs_count : nat; hs_sent : bool;
  hs_acc : option (nat * outcome) (* accepted result waiting in the channel: attempt index, outcome *) }.

Record world := {
  w_now : Z; w_start : Z;
  w_attempts : Z; w_retries : Z; w_executions : Z; w_hedges : Z;
  w_cell : option presult;                    (* shared canceledResult *)
  w_seq : Z;
  w_scopes : list scope;                      (* index = scope id; 0 = the caller's context *)
  w_copies : list copyst;                     (* index = copy id *)
  w_ext : option (Z * err);                   (* pending external cancellation of the caller's context *)
  w_ctxkey : ctxkey;
  w_breakers : list (bcfg * bstate (S := stats));
  w_limiters : list (lcfg * Z * lstate);      (* configuration, Build() instant, state *)
  w_bulkheads : list (Z * Z);                 (* capacity, permits held *)
  w_caches : list (list (Z * Z));
  w_retry : list (nat * rstate);              (* per stack position, per execution *)
  w_script : list fn_step;
  w_trace : list event;                       (* newest first *)
  w_bg : list bgrun;                          (* hedge attempts still running *)
  w_hs : hstate;
  w_oof : bool }.                             (* out of fuel *)

(* generic list update *)
Fixpoint upd {A} (n : nat) (f : A -> A) (l : list A) : list A :=
  match l, n with
  | [], _ => []
  | x :: l', O => f x :: l'
  | x :: l', S n' => x :: upd n' f l'
  end.

Definition dflt_scope : scope := {| sc_deadline := None; sc_fired := false; sc_done := None; sc_copy := 0; sc_pos := 0 |}.
Definition dflt_copy : copyst := {| cp_chain := []; cp_last := (0, None); cp_start := 0 |}.

Definition get_scope (w : world) (s : nat) : scope := nth s (w_scopes w) dflt_scope.
Definition get_copy (w : world) (c : nat) : copyst := nth c (w_copies w) dflt_copy.

(* record update helpers (explicit, so that proofs can reason by projection) *)
Definition set_now (w : world) (t : Z) : world :=
  {| w_now := t; w_start := w_start w; w_attempts := w_attempts w; w_retries := w_retries w;
     w_executions := w_executions w; w_hedges := w_hedges w; w_cell := w_cell w; w_seq := w_seq w;
     w_scopes := w_scopes w; w_copies := w_copies w; w_ext := w_ext w; w_ctxkey := w_ctxkey w;
     w_breakers := w_breakers w; w_limiters := w_limiters w; w_bulkheads := w_bulkheads w; w_caches := w_caches w;
     w_retry := w_retry w; w_script := w_script w; w_trace := w_trace w; w_bg := w_bg w; w_hs := w_hs w;
     w_oof := w_oof w |}.
Definition set_counters (w : world) (a r x : Z) : world :=
  {| w_now := w_now w; w_start := w_start w; w_attempts := a; w_retries := r; w_executions := x;
     w_hedges := w_hedges w; w_cell := w_cell w; w_seq := w_seq w; w_scopes := w_scopes w; w_copies := w_copies w;
     w_ext := w_ext w; w_ctxkey := w_ctxkey w; w_breakers := w_breakers w; w_limiters := w_limiters w;
     w_bulkheads := w_bulkheads w; w_caches := w_caches w; w_retry := w_retry w; w_script := w_script w;
     w_trace := w_trace w; w_bg := w_bg w; w_hs := w_hs w; w_oof := w_oof w |}.
Definition set_cell (w : world) (c : option presult) : world :=
  {| w_now := w_now w; w_start := w_start w; w_attempts := w_attempts w; w_retries := w_retries w;
     w_executions := w_executions w; w_hedges := w_hedges w; w_cell := c; w_seq := w_seq w; w_scopes := w_scopes w;
     w_copies := w_copies w; w_ext := w_ext w; w_ctxkey := w_ctxkey w; w_breakers := w_breakers w;
     w_limiters := w_limiters w; w_bulkheads := w_bulkheads w; w_caches := w_caches w; w_retry := w_retry w;
     w_script := w_script w; w_trace := w_trace w; w_bg := w_bg w; w_hs := w_hs w; w_oof := w_oof w |}.
Definition set_scopes (w : world) (s : list scope) (seq : Z) (ext : option (Z * err)) : world :=
  {| w_now := w_now w; w_start := w_start w; w_attempts := w_attempts w; w_retries := w_retries w;
     w_executions := w_executions w; w_hedges := w_hedges w; w_cell := w_cell w; w_seq := seq; w_scopes := s;
     w_copies := w_copies w; w_ext := ext; w_ctxkey := w_ctxkey w; w_breakers := w_breakers w;
     w_limiters := w_limiters w; w_bulkheads := w_bulkheads w; w_caches := w_caches w; w_retry := w_retry w;
     w_script := w_script w; w_trace := w_trace w; w_bg := w_bg w; w_hs := w_hs w; w_oof := w_oof w |}.
Definition set_copies (w : world) (c : list copyst) : world :=
  {| w_now := w_now w; w_start := w_start w; w_attempts := w_attempts w; w_retries := w_retries w;
     w_executions := w_executions w; w_hedges := w_hedges w; w_cell := w_cell w; w_seq := w_seq w;
     w_scopes := w_scopes w; w_copies := c; w_ext := w_ext w; w_ctxkey := w_ctxkey w; w_breakers := w_breakers w;
     w_limiters := w_limiters w; w_bulkheads := w_bulkheads w; w_caches := w_caches w; w_retry := w_retry w;
     w_script := w_script w; w_trace := w_trace w; w_bg := w_bg w; w_hs := w_hs w; w_oof := w_oof w |}.
Definition set_insts (w : world) (b : list (bcfg * bstate (S := stats))) (l : list (lcfg * Z * lstate))
    (k : list (Z * Z)) (c : list (list (Z * Z))) : world :=
  {| w_now := w_now w; w_start := w_start w; w_attempts := w_attempts w; w_retries := w_retries w;
     w_executions := w_executions w; w_hedges := w_hedges w; w_cell := w_cell w; w_seq := w_seq w;
     w_scopes := w_scopes w; w_copies := w_copies w; w_ext := w_ext w; w_ctxkey := w_ctxkey w; w_breakers := b;
     w_limiters := l; w_bulkheads := k; w_caches := c; w_retry := w_retry w; w_script := w_script w;
     w_trace := w_trace w; w_bg := w_bg w; w_hs := w_hs w; w_oof := w_oof w |}.
Definition set_retry (w : world) (r : list (nat * rstate)) : world :=
  {| w_now := w_now w; w_start := w_start w; w_attempts := w_attempts w; w_retries := w_retries w;
     w_executions := w_executions w; w_hedges := w_hedges w; w_cell := w_cell w; w_seq := w_seq w;
     w_scopes := w_scopes w; w_copies := w_copies w; w_ext := w_ext w; w_ctxkey := w_ctxkey w;
     w_breakers := w_breakers w; w_limiters := w_limiters w; w_bulkheads := w_bulkheads w; w_caches := w_caches w;
     w_retry := r; w_script := w_script w; w_trace := w_trace w; w_bg := w_bg w; w_hs := w_hs w; w_oof := w_oof w |}.
Definition set_script (w : world) (s : list fn_step) : world :=
  {| w_now := w_now w; w_start := w_start w; w_attempts := w_attempts w; w_retries := w_retries w;
     w_executions := w_executions w; w_hedges := w_hedges w; w_cell := w_cell w; w_seq := w_seq w;
     w_scopes := w_scopes w; w_copies := w_copies w; w_ext := w_ext w; w_ctxkey := w_ctxkey w;
     w_breakers := w_breakers w; w_limiters := w_limiters w; w_bulkheads := w_bulkheads w; w_caches := w_caches w;
     w_retry := w_retry w; w_script := s; w_trace := w_trace w; w_bg := w_bg w; w_hs := w_hs w; w_oof := w_oof w |}.
Definition set_trace (w : world) (t : list event) : world :=
  {| w_now := w_now w; w_start := w_start w; w_attempts := w_attempts w; w_retries := w_retries w;
     w_executions := w_executions w; w_hedges := w_hedges w; w_cell := w_cell w; w_seq := w_seq w;
     w_scopes := w_scopes w; w_copies := w_copies w; w_ext := w_ext w; w_ctxkey := w_ctxkey w;
     w_breakers := w_breakers w; w_limiters := w_limiters w; w_bulkheads := w_bulkheads w; w_caches := w_caches w;
     w_retry := w_retry w; w_script := w_script w; w_trace := t; w_bg := w_bg w; w_hs := w_hs w; w_oof := w_oof w |}.
Definition set_hedge (w : world) (h : Z) (bg : list bgrun) (hs : hstate) : world :=
  {| w_now := w_now w; w_start := w_start w; w_attempts := w_attempts w; w_retries := w_retries w;
     w_executions := w_executions w; w_hedges := h; w_cell := w_cell w; w_seq := w_seq w; w_scopes := w_scopes w;
     w_copies := w_copies w; w_ext := w_ext w; w_ctxkey := w_ctxkey w; w_breakers := w_breakers w;
     w_limiters := w_limiters w; w_bulkheads := w_bulkheads w; w_caches := w_caches w; w_retry := w_retry w;
     w_script := w_script w; w_trace := w_trace w; w_bg := bg; w_hs := hs; w_oof := w_oof w |}.
Definition set_oof (w : world) : world :=
  {| w_now := w_now w; w_start := w_start w; w_attempts := w_attempts w; w_retries := w_retries w;
     w_executions := w_executions w; w_hedges := w_hedges w; w_cell := w_cell w; w_seq := w_seq w;
     w_scopes := w_scopes w; w_copies := w_copies w; w_ext := w_ext w; w_ctxkey := w_ctxkey w;
     w_breakers := w_breakers w; w_limiters := w_limiters w; w_bulkheads := w_bulkheads w; w_caches := w_caches w;
     w_retry := w_retry w; w_script := w_script w; w_trace := w_trace w; w_bg := w_bg w; w_hs := w_hs w;
     w_oof := true |}.

(* ---------------- contexts and cancellation ---------------------------- *)

(* ctx.Err() of a copy: the error of the scope of its chain that was cancelled first *)
Definition ctx_err (w : world) (chain : list nat) : option err :=
  let best :=
    fold_left (fun acc s =>
      match sc_done (get_scope w s), acc with
      | Some (q, e), Some (q', _) => if q <? q' then Some (q, e) else acc
      | Some (q, e), None => Some (q, e)
      | None, _ => acc
      end) chain None in
  match best with Some (_, e) => Some e | None => None end.

Definition copy_err (w : world) (c : nat) : option err := ctx_err w (cp_chain (get_copy w c)).

(* execution.isCanceledWithResult *)
Definition is_canceled (w : world) (c : nat) : option presult :=
  match copy_err w c with
  | None => None
  | Some e =>
      Some (match w_cell w with
            | Some r => r
            | None => {| pr_res := 0; pr_err := Some e; pr_done := true; pr_succ := false; pr_all := false |}
            end)
  end.

(* Execution.LastError *)
Definition last_error (w : world) (c : nat) : option err :=
  match snd (cp_last (get_copy w c)) with
  | Some e => Some e
  | None => copy_err w c
  end.

Definition set_copy_last (w : world) (c : nat) (o : outcome) : world :=
  set_copies w (upd c (fun cp => {| cp_chain := cp_chain cp; cp_last := o; cp_start := cp_start cp |}) (w_copies w)).

(* cancelling a scope marks it done (its context and all child contexts) *)
Definition mark_done (w : world) (s : nat) (e : err) : world :=
  match sc_done (get_scope w s) with
  | Some _ => w
  | None =>
      set_scopes w (upd s (fun sc => {| sc_deadline := sc_deadline sc; sc_fired := sc_fired sc; sc_done := Some (w_seq w, e);
                                       sc_copy := sc_copy sc; sc_pos := sc_pos sc |}) (w_scopes w)) (w_seq w + 1) (w_ext w)
  end.

Definition snapshot (w : world) (c : nat) : outcome := (fst (cp_last (get_copy w c)), last_error w c).

Definition emit (w : world) (k : evk) (pos : nat) (o : outcome) (aux : Z) : world :=
  set_trace w ({| e_kind := k; e_pos := pos; e_attempts := w_attempts w; e_retries := w_retries w; e_hedges := w_hedges w;
                  e_executions := w_executions w; e_out := o; e_aux := aux; e_time := w_now w;
                  e_start := w_start w; e_astart := -1 |} :: w_trace w).

(* the newest event was handed (a copy of) execution copy c: it can read its AttemptStartTime *)
Definition stamp (w : world) (c : nat) : world :=
  match w_trace w with
  | e :: t =>
      set_trace w ({| e_kind := e_kind e; e_pos := e_pos e; e_attempts := e_attempts e; e_retries := e_retries e; e_hedges := e_hedges e;
                      e_executions := e_executions e; e_out := e_out e; e_aux := e_aux e; e_time := e_time e;
                      e_start := e_start e; e_astart := cp_start (get_copy w c) |} :: t)
  | [] => w
  end.

(* the Timeout's timer callback (timeoutexecutor.go:31-47) followed by execution.Cancel *)
Definition fire_timeout (w : world) (s : nat) : world :=
  let sc := get_scope w s in
  let w1 := set_scopes w (upd s (fun sc => {| sc_deadline := None; sc_fired := true; sc_done := sc_done sc;
                                             sc_copy := sc_copy sc; sc_pos := sc_pos sc |}) (w_scopes w)) (w_seq w) (w_ext w) in
  let w2 := emit w1 KTimeoutExceeded (sc_pos sc) (0, Some ETimeout) 0 in
  match copy_err w2 (sc_copy sc) with
  | Some _ => w2                                   (* already cancelled: Cancel returns at once *)
  | None =>
      let w3 := set_cell w2 (Some (failure_result ETimeout)) in
      let w4 := set_copy_last w3 (sc_copy sc) (0, Some ETimeout) in
      mark_done w4 s ECtxCanceled
  end.

(* the external cancellation source: the caller's context is cancelled / reaches its deadline, or -- error
   ErrExecutionCanceled -- ExecutionResult.Cancel() is called on an async execution: execution.Cancel
   stores the cancellation result and cancels the execution's context in one critical section
   (executor.go executeAsync + execution.go Cancel, since the fix: commit for finding F3) *)
Definition fire_ext (w : world) (e : err) : world :=
  let w0 := set_scopes w (w_scopes w) (w_seq w) None in
  match e with
  | EExecCanceled =>
      match copy_err w0 0%nat with
      | Some _ => w0
      | None =>
          let w1 := set_cell w0 (Some {| pr_res := 0; pr_err := Some EExecCanceled; pr_done := true; pr_succ := false; pr_all := false |}) in
          let w2 := set_copy_last w1 0%nat (0, Some EExecCanceled) in
          mark_done w2 0 ECtxCanceled
      end
  | _ => mark_done w0 0 e
  end.

(* the earliest pending cancellation source: (time, Some scope | None = external) *)
Fixpoint nt_go (i : nat) (l : list scope) (acc : option (Z * option nat)) : option (Z * option nat) :=
  match l with
  | [] => acc
  | sc :: l' =>
      let acc' :=
        match sc_deadline sc, acc with
        | Some d, Some (t, _) => if d <? t then Some (d, Some i) else acc
        | Some d, None => Some (d, Some i)
        | None, _ => acc
        end in
      nt_go (S i) l' acc'
  end.

Definition next_timer (w : world) : option (Z * option nat) :=
  nt_go 0%nat (w_scopes w) (match w_ext w with Some (t, _) => Some (t, None) | None => None end).

(* number of pending sources scheduled for instant t *)
Definition sources_at (w : world) (t : Z) : nat :=
  length (filter (fun sc => match sc_deadline sc with Some d => d =? t | None => false end) (w_scopes w))
  + (match w_ext w with Some (t', _) => if t' =? t then 1 else 0 | None => 0 end).

(* ---------------- background hedge attempts ----------------------------- *)

Definition is_some {A} (o : option A) : bool := match o with Some _ => true | None => false end.

Fixpoint bg_earliest (l : list bgrun) : option bgrun :=
  match l with
  | [] => None
  | b :: l' => match bg_earliest l' with
               | Some b' => if bg_finish b' <? bg_finish b then Some b' else Some b
               | None => Some b
               end
  end.

Definition bg_same (a b : bgrun) : bool := Nat.eqb (bg_grp a) (bg_grp b) && Nat.eqb (bg_idx a) (bg_idx b).
Definition bg_remove (b : bgrun) (l : list bgrun) : list bgrun := filter (fun x => negb (bg_same x b)) l.
Definition bg_count_at (l : list bgrun) (t : Z) : nat := length (filter (fun b => bg_finish b =? t) l).

(* the attempt's goroutine after its function returned (executor.go outerFn: record; hedgeexecutor.go:46-53) *)
Definition finish_bg (w : world) (b : bgrun) : world :=
  let w1 := set_hedge w (w_hedges w) (bg_remove b (w_bg w)) (w_hs w) in
  let w2 := set_counters w1 (w_attempts w1) (w_retries w1) (w_executions w1 + 1) in
  let w3 := stamp (emit w2 KFnEnd (bg_pos b) (bg_out b) 0) (bg_copy b) in
  let hs := w_hs w3 in
  if Nat.eqb (bg_grp b) (hs_grp hs) then
    let cnt := S (hs_count hs) in
    let take := (Nat.eqb cnt (S (hs_max hs)) || is_abortable (hs_cond hs) (bg_out b)) && negb (hs_sent hs) in
    set_hedge w3 (w_hedges w3) (w_bg w3)
      {| hs_grp := hs_grp hs; hs_max := hs_max hs; hs_cond := hs_cond hs; hs_count := cnt; hs_sent := hs_sent hs || take;
         hs_acc := if take then Some (bg_idx b, bg_out b) else hs_acc hs |}
  else w3.

(* cooperative attempts whose execution has just been cancelled will return after their lag; a cancellation at the
   very instant such an attempt returns anyway, or a zero lag, is schedule-dependent *)
Definition refresh_bg (w : world) : world :=
  let hit (b : bgrun) := is_some (bg_coop b) && is_some (copy_err w (bg_copy b)) in
  let tie := existsb (fun b => hit b && ((w_now w =? bg_finish b)
                                         || match bg_coop b with Some (_, lag) => lag <=? 0 | None => false end)) (w_bg w) in
  let bg' := map (fun b => match bg_coop b with
                           | Some (o, lag) =>
                               if hit b && (w_now w <? bg_finish b)
                               then {| bg_grp := bg_grp b; bg_idx := bg_idx b; bg_copy := bg_copy b; bg_pos := bg_pos b;
                                       bg_finish := w_now w + lag; bg_out := o; bg_coop := None |}
                               else b
                           | None => b
                           end) (w_bg w) in
  let w1 := set_hedge w (w_hedges w) bg' (w_hs w) in
  if tie then set_oof w1 else w1.

(* ---------------- the chronological loop -------------------------------- *)

Definition due (t : Z) (t_end : option Z) : bool := match t_end with Some e => t <=? e | None => true end.
Definition at_end (t : Z) (t_end : option Z) : bool := match t_end with Some e => t =? e | None => false end.
Definition settle (w : world) (t_end : option Z) : world :=
  match t_end with Some e => set_now w (Z.max (w_now w) e) | None => w end.

(* [w_oof] doubles as the "schedule-dependent" flag: it is raised when two events (cancellation sources,
   returns of background attempts) are due at the same instant or one is due exactly when the current wait ends
   (Go's select / timer goroutines may then go either way; such runs are excluded from comparisons).
   [intr]: the wait ends when this copy is cancelled; [acc]: it ends when the hedged run has an accepted result. *)
Fixpoint advance (fuel : nat) (w : world) (t_end : option Z) (intr : option nat) (acc : bool) : bool * world :=
  let interrupted :=
    match intr with Some c => match copy_err w c with Some _ => true | None => false end | None => false end in
  if interrupted then (true, w)
  else if acc && is_some (hs_acc (w_hs w)) then (false, w)
  else
    match fuel with
    | O => (false, settle w t_end)
    | S fuel' =>
        let nt := next_timer w in
        let bg_first := match bg_earliest (w_bg w), nt with
                        | Some b, Some (t, _) => bg_finish b <? t
                        | Some _, None => true
                        | None, _ => false
                        end in
        if bg_first then
          match bg_earliest (w_bg w) with
          | Some b =>
              let t := bg_finish b in
              if due t t_end then
                let w0 := if at_end t t_end || Nat.ltb 1 (bg_count_at (w_bg w) t) then set_oof w else w in
                let w1 := set_now w0 (Z.max (w_now w0) t) in
                advance fuel' (finish_bg w1 b) t_end intr acc
              else (false, settle w t_end)
          | None => (false, settle w t_end)
          end
        else
          match nt with
          | Some (t, src) =>
              if due t t_end then
                let w0 := if at_end t t_end || Nat.ltb 1 (sources_at w t) || Nat.ltb 0 (bg_count_at (w_bg w) t) then set_oof w else w in
                let w1 := set_now w0 (Z.max (w_now w0) t) in
                let w2 := match src with
                          | Some s => fire_timeout w1 s
                          | None => match w_ext w with Some (_, e) => fire_ext w1 e | None => w1 end
                          end in
                advance fuel' (refresh_bg w2) t_end intr acc
              else (false, settle w t_end)
          | None => (false, settle w t_end)
          end
    end.

Definition wait_fuel (w : world) : nat := 2 + length (w_scopes w) + length (w_bg w).

Definition wait (w : world) (dur : Z) (intr : option nat) : bool * world :=
  advance (wait_fuel w) w (Some (w_now w + dur)) intr false.

(* user code that takes [dur] and does not watch for the cancellation: timers fire and background attempts finish meanwhile *)
Definition pause (w : world) (dur : Z) : world := if 0 <? dur then snd (wait w dur None) else w.

(* ---------------- layers ------------------------------------------------ *)

Definition layer := nat (* copy id *) -> world -> presult * world.

(* BaseExecutor.PostExecute for policies whose OnSuccess/OnFailure only call listeners *)
Definition all_true (o : outcome) : presult :=
  {| pr_res := fst o; pr_err := snd o; pr_done := true; pr_succ := true; pr_all := true |}.

Definition ev_with_result (w : world) (c : nat) (k : evk) (pos : nat) (r : presult) : world :=
  stamp (emit w k pos (pr_res r, match pr_err r with Some e => Some e | None => copy_err w c end) 0) c.

Definition next_step (w : world) : fn_step :=
  match w_script w with s :: _ => s | [] => {| fs_out := (0, None); fs_dur := 0; fs_coop := None; fs_lag := 0 |} end.
Definition rest_script (w : world) : list fn_step := match w_script w with _ :: (_ :: _) as t => t | l => l end.

(* the user's function (executor.go outerFn) *)
Definition fn_layer (pos : nat) : layer := fun c w =>
  let st := next_step w in
  let w0 := set_script w (rest_script w) in
  let w1 := stamp (emit w0 KFnStart pos (snapshot w0 c) 0) c in
  let '(o, w2) :=
    match fs_coop st with
    | Some co => let '(i, w') := wait w1 (fs_dur st) (Some c) in
                 if i then let '(_, w'') := wait w' (fs_lag st) None in (co, w'') else (fs_out st, w')
    | None => let '(_, w') := wait w1 (fs_dur st) None in (fs_out st, w')
    end in
  let w3 := set_counters w2 (w_attempts w2) (w_retries w2) (w_executions w2 + 1) in
  (all_true o, stamp (emit w3 KFnEnd pos o 0) c).

(* retry *)
Definition get_rstate (w : world) (pos : nat) : rstate :=
  match find (fun p => Nat.eqb (fst p) pos) (w_retry w) with
  | Some p => snd p
  | None => {| rs_failed := 0; rs_exceeded := false |}
  end.
Definition put_rstate (w : world) (pos : nat) (r : rstate) : world :=
  set_retry w ((pos, r) :: filter (fun p => negb (Nat.eqb (fst p) pos)) (w_retry w)).

(* retryexecutor.go OnFailure *)
Definition retry_on_failure (cfg : retry_cfg) (pos : nat) (c : nat) (r : presult) (w : world) : presult * world :=
  let w0 := pause (ev_with_result w c KPolFailure pos r) (r_lsn_dur cfg) in
  let rs := get_rstate w0 pos in
  let failed := rs_failed rs + 1 in
  let max_retries_ex := negb (r_max_retries cfg =? -1) && (r_max_retries cfg <? failed) in
  let max_dur_ex := negb (r_max_duration cfg =? 0) && (r_max_duration cfg <? w_now w0 - w_start w0) in
  let exceeded := max_retries_ex || max_dur_ex in
  let w1 := put_rstate w0 pos {| rs_failed := failed; rs_exceeded := exceeded |} in
  let abortable := is_abortable (r_abort cfg) (pr_out r) in
  let allows := (r_max_retries cfg =? -1) || (0 <? r_max_retries cfg) in
  let should_retry := negb abortable && negb exceeded && allows in
  let done := abortable || negb should_retry in
  let w2 := if abortable then ev_with_result w1 c KAbort pos r else w1 in
  if exceeded then
    let w3 := if negb abortable then ev_with_result w2 c KRetriesExceeded pos r else w2 in
    if negb (r_return_last cfg) then (failure_result (EExceeded (pr_res r) (pr_err r)), w3)
    else (with_done r done false, w3)
  else (with_done r done false, w2).

Definition retry_delay (cfg : retry_cfg) (w : world) : Z :=
  let d := r_delay cfg in
  let d := if negb (r_max_duration cfg =? 0) then Z.min d (r_max_duration cfg - (w_now w - w_start w)) else d in
  Z.max 0 d.

Fixpoint retry_loop (fuel : nat) (cfg : retry_cfg) (pos : nat) (inner : layer) (c : nat) (w : world) : presult * world * nat (* ghost: number of times [inner] was invoked *) :=
  match fuel with
  | O => (failure_result EOther, set_oof w, O)
  | S fuel' =>
      let '(r, w1) := inner c w in
      match is_canceled w1 c with
      | Some cr => (cr, w1, 1%nat)
      | None =>
          if rs_exceeded (get_rstate w1 pos) then (r, w1, 1%nat)
          else
            let '(r2, w2) :=
              if is_failure (r_fpol cfg) (pr_out r) then retry_on_failure cfg pos c (with_failure r) w1
              else let r' := with_done r true true in (r', ev_with_result w1 c KPolSuccess pos r') in
            if pr_done r2 then
              (* a finished run that failed reports a cancellation that arrived while the failure was handled (since the fix:
                 commit for finding F17; before it the failure was returned) *)
              (match (if pr_succ r2 then None else is_canceled w2 c) with Some cr => cr | None => r2 end, w2, 1%nat)
            else
              (* RecordResult *)
              match is_canceled w2 c with
              | Some cr => (cr, w2, 1%nat)
              | None =>
                  let w3 := set_copy_last w2 c (pr_out r2) in
                  let d := retry_delay cfg w3 in
                  let w4 := stamp (emit w3 KRetryScheduled pos (pr_res r2, match pr_err r2 with Some e => Some e | None => copy_err w3 c end) d) c in
                  let '(_, w5) := wait w4 d (Some c) in
                  (* InitializeRetry *)
                  match is_canceled w5 c with
                  | Some cr => (cr, w5, 1%nat)
                  | None =>
                      let w6 := set_counters w5 (w_attempts w5 + 1) (w_retries w5 + 1) (w_executions w5) in
                      let w7 := set_copies w6 (upd c (fun cp => {| cp_chain := cp_chain cp; cp_last := cp_last cp; cp_start := w_now w6 |}) (w_copies w6)) in
                      let w8 := set_cell w7 None in
                      let w9 := ev_with_result w8 c KRetry pos r2 in
                      let '(rr, ww, n) := retry_loop fuel' cfg pos inner c w9 in (rr, ww, S n)
                  end
              end
      end
  end.

(* breaker *)
Definition bev_code (e : bevent) : Z := ev_old e * 16 + ev_new e * 4 + ev_tag e.
Definition emit_bevents (w : world) (pos : nat) (evs : list bevent) : world :=
  fold_left (fun w e => emit w KBreaker pos (0, None) (bev_code e)) evs w.

Definition set_breaker (w : world) (i : nat) (s : bstate (S := stats)) : world :=
  set_insts w (upd i (fun p => (fst p, s)) (w_breakers w)) (w_limiters w) (w_bulkheads w) (w_caches w).

Definition breaker_layer (pos inst : nat) (inner : layer) : layer := fun c w =>
  let '(cfg, s) := nth inst (w_breakers w) (bcfg_default, cb_init bcfg_default) in
  let '(ok, s1, evs) := try_acquire conc_impl cfg s (w_now w) in
  let w1 := emit_bevents (set_breaker w inst s1) pos evs in
  if negb ok then (failure_result EOpen, w1)
  else
    let '(r, w2) := inner c w1 in
    let '(_, s2) := nth inst (w_breakers w2) (bcfg_default, cb_init bcfg_default) in
    if is_failure (b_fpol cfg) (pr_out r) then
      let r' := with_failure r in
      let w3 := ev_with_result w2 c KPolFailure pos r' in
      let '(s3, evs') := record conc_impl cfg s2 (w_now w3) false (Some (pr_res r)) in
      (r', emit_bevents (set_breaker w3 inst s3) pos evs')
    else
      let r' := with_done r true true in
      let w3 := ev_with_result w2 c KPolSuccess pos r' in
      let '(s3, evs') := record conc_impl cfg s2 (w_now w3) true None in
      (r', emit_bevents (set_breaker w3 inst s3) pos evs').

(* rate limiter (ratelimiterexecutor.go Apply + acquirePermitsWithMaxWait with an execution).
   A wait that is interrupted by the cancellation of the execution returns the cancellation's result error
   (since the fix: commit for finding F12).  [stale = true] is the code as it was: it returned Execution.LastError()
   -- the PREVIOUS attempt's error when there is one -- and, when that stale error happened to be ErrExceeded,
   fired OnRateLimitExceeded although nothing was refused. *)
Definition limiter_layer_gen (stale : bool) (pos inst : nat) (maxwait : Z) (inner : layer) : layer := fun c w =>
  let '(cfg, base, s) := nth inst (w_limiters w) (Smooth 1, 0, SSmooth 0) in
  let '(wt, s') := lim_acquire cfg s (w_now w - base) 1 maxwait in
  let w1 := set_insts w (w_breakers w) (upd inst (fun p => (fst p, s')) (w_limiters w)) (w_bulkheads w) (w_caches w) in
  if wt =? -1 then
    (failure_result ERate, stamp (emit w1 KRateExceeded pos (snapshot w1 c) 0) c)
  else
    let '(i, w2) := wait w1 wt (Some c) in
    if i then
      if stale then
        let e := match last_error w2 c with Some e => e | None => EOther end in
        (failure_result e, if errors_is e ERate then stamp (emit w2 KRateExceeded pos (snapshot w2 c) 0) c else w2)
      else
        (failure_result (match is_canceled w2 c with
                         | Some cr => match pr_err cr with Some e => e | None => EOther end
                         | None => EOther
                         end), w2)
    else inner c w2.

Definition limiter_layer := limiter_layer_gen false.

(* the error a waiting policy reports when its wait is cut short by the cancellation of the execution: the error of the
   cancellation result (ErrExecutionCanceled for an async Cancel, ErrExceeded for a Timeout), else the context's error *)
Definition cancel_error (w : world) (c : nat) : err :=
  match is_canceled w c with
  | Some cr => match pr_err cr with
               | Some e => e
               | None => match copy_err w c with Some e => e | None => EOther end
               end
  | None => EOther
  end.

(* bulkhead (sequential: no other execution releases a permit while this one waits).  A cancelled execution is turned away
   with the cancellation's error (bulkheadexecutor.go PreExecute, since the fix: commit for finding F16; before it, with
   the context's error: an async Cancel() during the wait surfaced as context.Canceled) *)
Definition bulkhead_layer (pos inst : nat) (maxwait : Z) (inner : layer) : layer := fun c w =>
  let '(cap, held) := nth inst (w_bulkheads w) (0, 0) in
  let setheld (w : world) (h : Z) :=
    set_insts w (w_breakers w) (w_limiters w) (upd inst (fun p => (fst p, h)) (w_bulkheads w)) (w_caches w) in
  let full (w : world) := (failure_result EFull, stamp (emit w KFull pos (snapshot w c) 0) c) in
  match copy_err w c with
  | Some _ => (failure_result (cancel_error w c), w)
  | None =>
      if held <? cap then
        let '(r, w2) := inner c (setheld w (held + 1)) in
        let '(_, held2) := nth inst (w_bulkheads w2) (0, 0) in
        (r, setheld w2 (held2 - 1))
      else if maxwait =? 0 then full w
      else
        let '(i, w1) := wait w maxwait (Some c) in
        if i then (failure_result (cancel_error w1 c), w1)
        else full w1
  end.

(* timeout *)
Definition timeout_layer (pos : nat) (limit : Z) (inner : layer) : layer := fun c w =>
  let cp := get_copy w c in
  let s := length (w_scopes w) in
  let c' := length (w_copies w) in
  let w1 := set_scopes w (w_scopes w ++ [ {| sc_deadline := Some (w_now w + limit); sc_fired := false; sc_done := None;
                                              sc_copy := c'; sc_pos := pos |} ]) (w_seq w) (w_ext w) in
  let w2 := set_copies w1 (w_copies w1 ++ [ {| cp_chain := s :: cp_chain cp; cp_last := cp_last cp; cp_start := cp_start cp |} ]) in
  let '(r, w3) := inner c' w2 in
  let fired := sc_fired (get_scope w3 s) in
  let w4 := set_scopes w3 (upd s (fun sc => {| sc_deadline := None; sc_fired := sc_fired sc; sc_done := sc_done sc;
                                              sc_copy := sc_copy sc; sc_pos := sc_pos sc |}) (w_scopes w3)) (w_seq w3) (w_ext w3) in
  let r1 := if fired then failure_result ETimeout else r in
  let is_fail := match pr_err r1 with Some e => errors_is e ETimeout | None => false end in
  ((if is_fail then with_failure r1 else with_done r1 true true), w4).

(* fallback *)
Definition fb_apply (k : fb_kind) (last : outcome) : outcome :=
  match k with
  | FBResult r => (r, None)
  | FBError e => (0, Some e)
  | FBEcho n => (fst last + n, None)
  | FBWrapErr => match snd last with Some e => (fst last, Some (EWrap e)) | None => (fst last + 1, None) end
  end.

Definition fallback_layer (pos : nat) (cfg : fb_cfg) (inner : layer) : layer := fun c w =>
  let '(r, w1) := inner c w in
  let '(r2, w2) :=
    if is_failure (fb_fpol cfg) (pr_out r) then
      let r' := with_failure r in (r', pause (ev_with_result w1 c KPolFailure pos r') (fb_lsn_dur cfg))
    else let r' := with_done r true true in (r', ev_with_result w1 c KPolSuccess pos r') in
  if pr_succ r2 then (r2, w2)
  else
    (* the cancellation is looked at when the fallback is about to be applied: after the failure listener *)
    match is_canceled w2 c with
    | Some cr => (cr, w2)
    | None =>
        (* the fallback function sees the failed outcome as the last result *)
        let seen := (pr_res r2, match pr_err r2 with Some e => Some e | None => copy_err w2 c end) in
        let o := fb_apply (fb_kind_of cfg) seen in
        let w2 := pause w2 (fb_dur cfg) in
        (* ... and again when the function has returned: a cancellation that arrived meanwhile wins *)
        match is_canceled w2 c with
        | Some cr => (cr, w2)
        | None =>
            let w3 := emit w2 KFallbackExecuted pos o 0 in
            let ok := negb (is_failure (fb_fpol cfg) o) in
            ({| pr_res := fst o; pr_err := snd o; pr_done := true; pr_succ := ok; pr_all := ok |}, w3)
        end
    end.

(* cache *)
Definition cache_key (w : world) (cfg : cache_cfg) : Z :=
  match w_ctxkey w with CKStr k => k | _ => ca_key cfg end.

Definition cache_get (l : list (Z * Z)) (k : Z) : option Z :=
  match find (fun p => fst p =? k) l with Some p => Some (snd p) | None => None end.
Definition cache_set (l : list (Z * Z)) (k v : Z) : list (Z * Z) :=
  (k, v) :: filter (fun p => negb (fst p =? k)) l.

Definition cache_layer (pos inst : nat) (cfg : cache_cfg) (inner : layer) : layer := fun c w =>
  let store := nth inst (w_caches w) [] in
  let key := cache_key w cfg in
  let hit := if key =? 0 then None else cache_get store key in
  match hit with
  | Some v => (all_true (v, None), emit w KCacheHit pos (v, None) 0)
  | None =>
      let w1 := stamp (emit w KCacheMiss pos (snapshot w c) 0) c in
      let '(r, w2) := inner c w1 in
      let should := (match ca_conds cfg with [] => true | _ => false end && negb (has_err (pr_out r)))
                    || applies_to_any (ca_conds cfg) (pr_out r) in
      if should && negb (key =? 0) then
        let store2 := nth inst (w_caches w2) [] in
        let w3 := set_insts w2 (w_breakers w2) (w_limiters w2) (w_bulkheads w2)
                            (upd inst (fun _ => cache_set store2 key (pr_res r)) (w_caches w2)) in
        (r, ev_with_result w3 c KCached pos r)
      else (r, w2)
  end.

(* hedge, directly around the function (hedgepolicy/hedgeexecutor.go).  Attempt k runs on its own cancellable copy of
   the execution; the main loop waits for an accepted result, the hedge delay (while hedges remain) or the
   cancellation of its own execution. *)
Definition cancel_copy (w : world) (cs : nat * nat) : world :=
  match copy_err w (fst cs) with
  | Some _ => w                                         (* execution.Cancel: already cancelled *)
  | None => mark_done (set_cell w None) (snd cs) ECtxCanceled
  end.

Fixpoint cancel_others (w : world) (started : list (nat * nat)) (i winner : nat) : world :=
  match started with
  | [] => w
  | cs :: rest => cancel_others (if Nat.eqb i winner then w else cancel_copy w cs) rest (S i) winner
  end.

Definition clear_acc (w : world) : world :=
  let hs := w_hs w in
  set_hedge w (w_hedges w) (w_bg w)
    {| hs_grp := hs_grp hs; hs_max := hs_max hs; hs_cond := hs_cond hs; hs_count := hs_count hs; hs_sent := hs_sent hs; hs_acc := None |}.

(* attempt k of the run is prepared and started (CopyForCancellable / CopyForHedge + OnHedge; go innerFn(hedgeExec)):
   the new copy has index [length (w_copies w)] and its cancel scope index [length (w_scopes w)] *)
Definition hedge_start (pos total : nat) (c k : nat) (w : world) : world :=
  let cp := get_copy w c in
  let s := length (w_scopes w) in
  let c' := length (w_copies w) in
  let w1 := set_scopes w (w_scopes w ++ [ {| sc_deadline := None; sc_fired := false; sc_done := None; sc_copy := c'; sc_pos := pos |} ])
                       (w_seq w) (w_ext w) in
  let w2 := set_copies w1 (w_copies w1 ++ [ {| cp_chain := s :: cp_chain cp; cp_last := cp_last cp; cp_start := cp_start cp |} ]) in
  let w3 := match k with
            | O => w2
            | S _ =>
                let w' := set_hedge (set_counters w2 (w_attempts w2 + 1) (w_retries w2) (w_executions w2))
                                    (w_hedges w2 + 1) (w_bg w2) (w_hs w2) in
                stamp (emit w' KHedge pos (snapshot w' c') 0) c'
            end in
  let st := next_step w3 in
  let w4 := set_script w3 (rest_script w3) in
  let w5 := stamp (emit w4 KFnStart total (snapshot w4 c') (match k with O => 0 | S _ => 1 end)) c' in
  let b := {| bg_grp := hs_grp (w_hs w5); bg_idx := k; bg_copy := c'; bg_pos := total; bg_finish := w_now w5 + fs_dur st;
              bg_out := fs_out st; bg_coop := match fs_coop st with Some o => Some (o, fs_lag st) | None => None end |} in
  refresh_bg (set_hedge w5 (w_hedges w5) (b :: w_bg w5) (w_hs w5)).

Fixpoint hedge_loop (fuel : nat) (cfg : hedge_cfg) (pos total : nat) (c : nat) (k : nat) (started : list (nat * nat)) (w : world)
  : presult * world * list Z (* ghost: the instants at which attempts k, k+1, ... were started *) :=
  match fuel with
  | O => (failure_result EOther, set_oof w, [])
  | S fuel' =>
      let w6 := hedge_start pos total c k w in
      let started' := started ++ [(length (w_copies w), length (w_scopes w))] in
      let t_end := if Nat.ltb k (hg_max cfg) then Some (w_now w6 + hg_delay cfg) else None in
      let '(_, w7) := advance (wait_fuel w6) w6 t_end (Some c) true in
      match is_canceled w7 c with
      | Some cr => (cr, w7, [w_now w6])
      | None =>
          match hs_acc (w_hs w7) with
          | Some (idx, out) => (all_true out, refresh_bg (cancel_others (clear_acc w7) started' 0 idx), [w_now w6])
          | None =>
              match t_end with
              | Some _ => let '(r, w8, ts) := hedge_loop fuel' cfg pos total c (S k) started' w7 in (r, w8, w_now w6 :: ts)
              | None => (failure_result EOther, set_oof w7, [w_now w6])
              end
          end
      end
  end.

Definition hedge_layer (pos total : nat) (cfg : hedge_cfg) : layer := fun c w =>
  let hs := w_hs w in
  let w0 := set_hedge w (w_hedges w) (w_bg w)
              {| hs_grp := S (hs_grp hs); hs_max := hg_max cfg; hs_cond := hg_cancel cfg; hs_count := 0; hs_sent := false; hs_acc := None |} in
  fst (hedge_loop (S (S (hg_max cfg))) cfg pos total c 0 [] w0).

(* ---------------- composition (executor.go execute) --------------------- *)

Definition apply_policy (fuel : nat) (pos total : nat) (p : policy) (inner : layer) : layer :=
  match p with
  | PRetry cfg => fun c w => fst (retry_loop fuel cfg pos inner c w)
  | PBreaker i => breaker_layer pos i inner
  | PLimiter i mw => limiter_layer pos i mw inner
  | PBulkhead i mw => bulkhead_layer pos i mw inner
  | PTimeout l => timeout_layer pos l inner
  | PFallback cfg => fallback_layer pos cfg inner
  | PCache i cfg => cache_layer pos i cfg inner
  | PHedge cfg => hedge_layer pos total cfg         (* innermost: the function is run by the hedge attempts *)
  end.

(* the reverse loop of execute: policies[len-1] applied first (innermost) *)
Fixpoint compose (fuel : nat) (pos : nat) (stack : list policy) (total : nat) : layer :=
  match stack with
  | [] => fn_layer total
  | p :: rest => apply_policy fuel pos total p (compose fuel (S pos) rest total)
  end.

Definition execute (fuel : nat) (stack : list policy) (w : world) : presult * world :=
  let '(r, w1) := compose fuel 0 stack (length stack) 0%nat w in
  let o := pr_out r in
  let w2 := if pr_all r then emit w1 KExecSuccess 0 o 0 else emit w1 KExecFailure 0 o 0 in
  (r, emit w2 KExecDone 0 o 0).

(* hedge attempts still running when the execution returns go on to their end (the caller's context stays as it is) *)
Definition drain (w : world) : world :=
  match w_bg w with
  | [] => w
  | _ => snd (advance (wait_fuel w) (set_scopes w (w_scopes w) (w_seq w) None) None None false)
  end.

(* the modelled placement of a hedge policy *)
Fixpoint hedge_innermost (stack : list policy) : bool :=
  match stack with
  | [] => true
  | [_] => true
  | PHedge _ :: _ => false
  | _ :: rest => hedge_innermost rest
  end.

(* a fresh execution starting at [now] on the given policy instances *)
Definition fresh_world0 (now : Z) (ext : option (Z * err)) (key : ctxkey)
    (b : list (bcfg * bstate (S := stats))) (l : list (lcfg * Z * lstate)) (k : list (Z * Z)) (c : list (list (Z * Z)))
    (script : list fn_step) : world :=
  {| w_now := now; w_start := now; w_attempts := 1; w_retries := 0; w_executions := 0; w_hedges := 0; w_cell := None; w_seq := 0;
     w_scopes := [dflt_scope]; w_copies := [ {| cp_chain := [0%nat]; cp_last := (0, None); cp_start := now |} ];
     w_ext := ext; w_ctxkey := key; w_breakers := b; w_limiters := l; w_bulkheads := k; w_caches := c;
     w_retry := []; w_script := script; w_trace := [];
     w_bg := []; w_hs := {| hs_grp := 0; hs_max := 0; hs_cond := []; hs_count := 0; hs_sent := false; hs_acc := None |}; w_oof := false |}.

(* a caller's context that is already done when the execution is started (cancelled beforehand, deadline in the past) is done
   from the first instant on: every check of the execution sees it, the first one included *)
Definition fresh_world (now : Z) (ext : option (Z * err)) (key : ctxkey)
    (b : list (bcfg * bstate (S := stats))) (l : list (lcfg * Z * lstate)) (k : list (Z * Z)) (c : list (list (Z * Z)))
    (script : list fn_step) : world :=
  let w := fresh_world0 now ext key b l k c script in
  match ext with
  | Some (t, e) => if t <=? now then fire_ext w e else w
  | None => w
  end.
