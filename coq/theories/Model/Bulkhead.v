(* Model/Bulkhead.v — executions and standalone callers sharing one bulkhead (property C06).
   Mirrors bulkhead/bulkhead.go (the semaphore is a buffered channel: a send takes a permit, a
   receive returns one and hands it at once to the longest-waiting blocked sender;
   AcquirePermitWithMaxWait's two phases) and bulkhead/bulkheadexecutor.go (PreExecute acquires,
   PostExecute releases after the inner call returned, however it ended).
   One step = one atomic channel operation or one timer/context event.  No proofs here. *)
From Coq Require Export List ZArith Bool Lia.
Export ListNotations.
Open Scope Z_scope.

Inductive kstate :=
  | KIdle
  | KWaiting (deadline : Z)      (* blocked in the second select, the max-wait timer fires at [deadline] *)
  | KHolding                     (* permit held: the inner function is running *)
  | KReleased                    (* finished, permit returned *)
  | KRefused                     (* ErrFull *)
  | KCancelled.                  (* context cancelled while waiting: the context's error *)

Record bconf := {
  k_cap : Z; k_maxwait : Z;
  k_held : Z;                    (* occupancy of the channel *)
  k_ext : Z;                     (* permits held through the standalone API *)
  k_now : Z;
  k_threads : list kstate;
  k_queue : list nat }.          (* blocked senders, oldest first *)

Inductive kstep :=
  | KEnter (i : nat)             (* execution i reaches the bulkhead (PreExecute) *)
  | KFinish (i : nat)            (* execution i's inner call returns (PostExecute releases) *)
  | KCancelCtx (i : nat)         (* execution i's context is cancelled *)
  | KTick (dt : Z)               (* time passes; max-wait timers that become due fire *)
  | KTryAcquire                  (* standalone TryAcquirePermit *)
  | KRelease.                    (* standalone ReleasePermit (only by a holder) *)

Fixpoint set_k (n : nat) (v : kstate) (l : list kstate) : list kstate :=
  match l, n with
  | [], _ => []
  | _ :: l', O => v :: l'
  | x :: l', S n' => x :: set_k n' v l'
  end.

Definition kget (k : bconf) (i : nat) : kstate := nth i (k_threads k) KReleased.

Definition with_threads (k : bconf) (held ext : Z) (ts : list kstate) (q : list nat) : bconf :=
  {| k_cap := k_cap k; k_maxwait := k_maxwait k; k_held := held; k_ext := ext; k_now := k_now k; k_threads := ts; k_queue := q |}.

(* a permit comes back: the oldest blocked sender, if any, gets it in the same instant *)
Definition give_back (k : bconf) (ext : Z) (ts : list kstate) : bconf :=
  match k_queue k with
  | j :: q' => with_threads k (k_held k) ext (set_k j KHolding ts) q'
  | [] => with_threads k (k_held k - 1) ext ts []
  end.

Definition remove_nat (i : nat) (l : list nat) : list nat := filter (fun j => negb (Nat.eqb i j)) l.

(* timers due at or before [t]: the waiting executions whose deadline has passed are refused *)
Definition expire (t : Z) (ts : list kstate) : list kstate :=
  map (fun s => match s with KWaiting d => if d <=? t then KRefused else s | _ => s end) ts.
Definition still_waiting (ts : list kstate) (q : list nat) : list nat :=
  filter (fun j => match nth j ts KReleased with KWaiting _ => true | _ => false end) q.

Definition kstep_do (k : bconf) (x : kstep) : bconf :=
  match x with
  | KEnter i =>
      match kget k i with
      | KIdle =>
          if k_held k <? k_cap k then with_threads k (k_held k + 1) (k_ext k) (set_k i KHolding (k_threads k)) (k_queue k)
          else if k_maxwait k <=? 0 then with_threads k (k_held k) (k_ext k) (set_k i KRefused (k_threads k)) (k_queue k)
          else with_threads k (k_held k) (k_ext k) (set_k i (KWaiting (k_now k + k_maxwait k)) (k_threads k)) (k_queue k ++ [i])
      | _ => k
      end
  | KFinish i =>
      match kget k i with
      | KHolding => give_back k (k_ext k) (set_k i KReleased (k_threads k))
      | _ => k
      end
  | KCancelCtx i =>
      match kget k i with
      | KWaiting _ => with_threads k (k_held k) (k_ext k) (set_k i KCancelled (k_threads k)) (remove_nat i (k_queue k))
      | _ => k
      end
  | KTick dt =>
      let t := k_now k + Z.max 0 dt in
      let ts := expire t (k_threads k) in
      {| k_cap := k_cap k; k_maxwait := k_maxwait k; k_held := k_held k; k_ext := k_ext k; k_now := t;
         k_threads := ts; k_queue := still_waiting ts (k_queue k) |}
  | KTryAcquire =>
      if k_held k <? k_cap k then with_threads k (k_held k + 1) (k_ext k + 1) (k_threads k) (k_queue k) else k
  | KRelease =>
      if 0 <? k_ext k then give_back k (k_ext k - 1) (k_threads k) else k
  end.

Definition krun (k : bconf) (tr : list kstep) : bconf := fold_left kstep_do tr k.

Definition kinit (cap maxwait now : Z) (n : nat) : bconf :=
  {| k_cap := cap; k_maxwait := maxwait; k_held := 0; k_ext := 0; k_now := now; k_threads := repeat KIdle n; k_queue := [] |}.

Definition holding (k : bconf) : Z :=
  Z.of_nat (length (filter (fun s => match s with KHolding => true | _ => false end) (k_threads k))).
