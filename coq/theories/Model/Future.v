(* Model/Future.v — the future protocol of an async execution (result.go, executor.go executeAsync)
   and the race between ExecutionResult.Cancel and the retry loop's bookkeeping (execution.go).
   One step = one atomic operation (a mutex-protected region, an atomic store, a channel close). *)
From Coq Require Export List Bool.
Export ListNotations.

(* ---------------- 1. publication: runner vs readers --------------------- *)
(* runner: execute (listeners run inside) -> result.Store -> done.Store(true) -> close(doneChan) *)
Inductive rpc := RExecuting | RListened | RStored | RFlagged | RClosed.

Record fut := {
  f_r : rpc;
  f_stored : bool;       (* result published *)
  f_flag : bool;         (* the done flag *)
  f_closed : nat;        (* number of times the Done channel was closed *)
  f_gets : list bool     (* for every Get/Result/Error that has returned: did it see the published result? *) }.

Definition fut_init : fut := {| f_r := RExecuting; f_stored := false; f_flag := false; f_closed := 0; f_gets := [] |}.

Inductive fstep := FExecute | FStore | FFlag | FClose | FGet.

Definition fut_step (s : fut) (x : fstep) : fut :=
  match x, f_r s with
  | FExecute, RExecuting => {| f_r := RListened; f_stored := f_stored s; f_flag := f_flag s; f_closed := f_closed s; f_gets := f_gets s |}
  | FStore, RListened => {| f_r := RStored; f_stored := true; f_flag := f_flag s; f_closed := f_closed s; f_gets := f_gets s |}
  | FFlag, RStored => {| f_r := RFlagged; f_stored := f_stored s; f_flag := true; f_closed := f_closed s; f_gets := f_gets s |}
  | FClose, RFlagged => {| f_r := RClosed; f_stored := f_stored s; f_flag := f_flag s; f_closed := S (f_closed s); f_gets := f_gets s |}
  | FGet, _ =>   (* a reader blocked on <-doneChan proceeds only once the channel is closed *)
      if Nat.ltb 0 (f_closed s)
      then {| f_r := f_r s; f_stored := f_stored s; f_flag := f_flag s; f_closed := f_closed s; f_gets := f_stored s :: f_gets s |}
      else s
  | _, _ => s
  end.

Definition fut_run (tr : list fstep) : fut := fold_left fut_step tr fut_init.

(* IsDone(): since the fix: commit for finding F4 a non-blocking receive on the Done channel; before it, the flag *)
Definition is_done (fixed : bool) (s : fut) : bool := if fixed then Nat.ltb 0 (f_closed s) else f_flag s.
Definition done_closed (s : fut) : bool := Nat.ltb 0 (f_closed s).

(* ---------------- 2. Cancel() vs the retry loop ------------------------- *)
(* canceller: A = execution.Cancel stores ErrExecutionCanceled in the shared cell (unless already cancelled);
   B = the context is cancelled.  Since the fix: commit for finding F3 both happen in one critical section.
   retry loop: Init = InitializeRetry (returns the cancellation result if the context is done, else
   clears the cell and goes on); Check = IsCanceledWithResult / RecordResult's check. *)
Inductive cellv := VNone | VExecCanceled.
Inductive report := RepNone | RepExecCanceled | RepCtxCanceled.

Record crace := {
  k_cell : cellv; k_ctx : bool (* context done *); k_stepA : bool (* A executed *);
  k_report : report (* what the execution returned once it noticed the cancellation *) }.

Definition crace_init : crace := {| k_cell := VNone; k_ctx := false; k_stepA := false; k_report := RepNone |}.

Inductive cstep := KA | KB | KAB | KInit | KCheck.

Definition observe (s : crace) : report :=
  match k_cell s with VExecCanceled => RepExecCanceled | VNone => RepCtxCanceled end.

Definition crace_step (s : crace) (x : cstep) : crace :=
  match k_report s with
  | RepNone =>
      match x with
      | KA => if k_ctx s then s else {| k_cell := VExecCanceled; k_ctx := k_ctx s; k_stepA := true; k_report := RepNone |}
      | KB => if k_stepA s then {| k_cell := k_cell s; k_ctx := true; k_stepA := true; k_report := RepNone |} else s
      | KAB => if k_ctx s then s else {| k_cell := VExecCanceled; k_ctx := true; k_stepA := true; k_report := RepNone |}
      | KInit => if k_ctx s then {| k_cell := k_cell s; k_ctx := true; k_stepA := k_stepA s; k_report := observe s |}
                 else {| k_cell := VNone; k_ctx := false; k_stepA := k_stepA s; k_report := RepNone |}
      | KCheck => if k_ctx s then {| k_cell := k_cell s; k_ctx := true; k_stepA := k_stepA s; k_report := observe s |} else s
      end
  | _ => s
  end.

Definition crace_run (tr : list cstep) : crace := fold_left crace_step tr crace_init.

(* traces of the code after the fix use KAB only; before the fix KA and KB separately *)
Definition fixed_trace (tr : list cstep) : bool := forallb (fun x => match x with KA | KB => false | _ => true end) tr.
