(* Model/Hedge.v — a hedged execution in virtual time.
   Mirrors hedgepolicy/hedgeexecutor.go: the main loop starts attempt k, then waits for an accepted
   result or (while hedges remain) for the hedge delay; an attempt's result is accepted exactly once,
   when it matches the cancel conditions or when it is the last of all maxHedges+1 attempts to
   finish; on return every other started attempt is cancelled.  The caller's context may be
   cancelled at one instant; since the fix: commit for finding F9 the main loop's waits end at that
   instant ([h_fixed = false] keeps the loop as it was, for the refutation).
   An attempt is (duration, outcome, cooperative?): a cooperative attempt returns as soon as its
   execution is cancelled.  Instants of one scenario are pairwise distinct.  No proofs here. *)
From FS Require Export Model.Classify.

Record attempt := { a_dur : Z; a_out : outcome; a_coop : bool }.

Record hcfg := {
  h_max : nat;                    (* maxHedges *)
  h_delays : list Z;              (* delay before hedge 1, 2, ... (the delay function's values) *)
  h_cancel : list cond;           (* cancel conditions after Build(): never empty *)
  h_fixed : bool }.

Record running := { r_idx : nat; r_finish : Z; r_out : outcome }.

Record hobs := {
  ho_out : outcome;               (* what the hedge layer returns *)
  ho_end : Z;                     (* instant it returns *)
  ho_starts : list Z;             (* start instant of every attempt started, in order *)
  ho_winner : option nat;         (* index of the attempt whose result was accepted and returned *)
  ho_cancelled : list bool;
  ho_tie : bool }.                (* two events of the scenario fell on one instant: Go's select may go either way *)     (* per started attempt: its execution is cancelled (IsCanceled) when the layer returns *)

Definition nth_delay (c : hcfg) (k : nat) : Z := nth k (h_delays c) (last (h_delays c) 0).

(* insert by finish time *)
Fixpoint insert_run (r : running) (l : list running) : list running :=
  match l with
  | [] => [r]
  | x :: l' => if r_finish r <? r_finish x then r :: l else x :: insert_run r l'
  end.

(* process, in chronological order, the attempts that finish before [until] (None = no bound):
   returns the accepted one, if any, the remaining runners and the new count *)
Fixpoint settle (c : hcfg) (rs : list running) (count : nat) (until : option Z)
  : option running * list running * nat :=
  match rs with
  | [] => (None, [], count)
  | r :: rs' =>
      let due := match until with Some u => r_finish r <? u | None => true end in
      if due then
        let count' := S count in
        if Nat.eqb count' (S (h_max c)) || is_abortable (h_cancel c) (r_out r) then (Some r, rs', count')
        else settle c rs' count' until
      else (None, rs, count)
  end.

Definition cancel_result (e : err) : outcome := (0, Some e).

(* the main loop; [ext] = instant and error of the caller context's cancellation *)
Fixpoint hedge_loop (fuel : nat) (c : hcfg) (atts : list attempt) (ext : option (Z * err))
    (k : nat) (tk : Z) (rs : list running) (count : nat) (starts : list Z) (tie : bool) : hobs :=
  match fuel with
  | O => {| ho_out := (0, Some EOther); ho_end := tk; ho_starts := rev starts; ho_winner := None; ho_cancelled := []; ho_tie := tie |}
  | S fuel' =>
      let a := nth k atts {| a_dur := 0; a_out := (0, None); a_coop := false |} in
      (* a cooperative attempt started under an already cancelled context returns at once *)
      let fin := match ext with
                 | Some (tc, _) => if a_coop a && (tc <? tk + a_dur a) then Z.max tk tc else tk + a_dur a
                 | None => tk + a_dur a
                 end in
      let out := match ext with
                 | Some (tc, e) => if a_coop a && (tc <? tk + a_dur a) then cancel_result e else a_out a
                 | None => a_out a
                 end in
      let rs1 := insert_run {| r_idx := k; r_finish := fin; r_out := out |} rs in
      let starts1 := tk :: starts in
      let timer := if Nat.ltb k (h_max c) then Some (tk + nth_delay c k) else None in
      (* the wait ends at the timer, at an accepted result, or (fixed) at the caller's cancellation *)
      let bound := match timer, ext with
                   | Some t, Some (tc, _) => if h_fixed c && (tk <=? tc) then Some (Z.min t tc) else Some t
                   | Some t, None => Some t
                   | None, Some (tc, _) => if h_fixed c && (tk <=? tc) then Some tc else None
                   | None, None => None
                   end in
      (* simultaneous events: this attempt's own finish against the cancellation, any pending finish against
         the hedge timer, the timer against the cancellation, two uncancelled finishes *)
      let cut := match ext with Some (tc, _) => a_coop a && (tc <? tk + a_dur a) | None => false end in
      let tie1 := tie
                  || match ext with Some (tc, _) => (tk + a_dur a =? tc) || (tk =? tc) | None => false end
                  || existsb (fun r => match timer with Some t => r_finish r =? t | None => false end) rs1
                  || match timer, ext with Some t, Some (tc, _) => t =? tc | _, _ => false end
                  || (negb cut && existsb (fun r => negb (Nat.eqb (r_idx r) k) && (r_finish r =? fin)) rs1) in
      let '(acc, rs2, count2) := settle c rs1 count bound in
      let n_started := length starts1 in
      let wake := match acc with
                  | Some r => r_finish r
                  | None => match bound with Some b => b | None => tk end
                  end in
      let parent_cancelled := match ext with Some (tc, _) => tc <=? wake | None => false end in
      if parent_cancelled then
        {| ho_out := cancel_result (match ext with Some (_, e) => e | None => EOther end); ho_end := wake;
           ho_starts := rev starts1; ho_winner := None; ho_cancelled := repeat true n_started; ho_tie := tie1 |}
      else
        match acc with
        | Some r =>
            {| ho_out := r_out r; ho_end := r_finish r; ho_starts := rev starts1; ho_winner := Some (r_idx r);
               ho_cancelled := map (fun i => negb (Nat.eqb i (r_idx r))) (seq 0 n_started); ho_tie := tie1 |}
        | None =>
            match timer with
            | Some t => hedge_loop fuel' c atts ext (S k) t rs2 count2 starts1 tie1
            | None => {| ho_out := (0, Some EOther); ho_end := wake; ho_starts := rev starts1; ho_winner := None; ho_cancelled := []; ho_tie := tie1 |}
            end
        end
  end.

Definition hedge_run (c : hcfg) (atts : list attempt) (ext : option (Z * err)) (t0 : Z) : hobs :=
  hedge_loop (S (S (h_max c))) c atts ext 0 t0 [] 0 [] false.
