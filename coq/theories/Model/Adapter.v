(* Model/Adapter.v — the logic of the HTTP and gRPC adapters (not the network).
   Mirrors failsafehttp/policy.go (retryHandleFunc, DelayFunc, the default RetryPolicyBuilder),
   failsafehttp/http.go (bodyReader, doRequest), failsafegrpc/policy.go (retryable codes),
   internal/util MergeContexts (since the fix: commit for finding F6: the merged context is derived
   from the caller's context and additionally cancelled when the execution's context is done). *)
From Coq Require Export List ZArith Bool Lia.
Export ListNotations.
Open Scope Z_scope.

(* ---------------- what an attempt can produce -------------------------- *)
Inductive herr :=
  | HUnsupportedScheme      (* "unsupported protocol scheme" (url.Error from a Client, plain error from a RoundTripper) *)
  | HCertNotTrusted | HStoppedAfterRedirects | HUnknownAuthority   (* url.Error kinds that are final *)
  | HUrlOther               (* any other url.Error: connection refused, reset, EOF ... *)
  | HPlainOther             (* any other error from the inner RoundTripper *)
  | HCtxCanceled.           (* context.Canceled: the default policy aborts on it *)

Record response := { rs_status : Z; rs_retry_after : option Z (* Retry-After in whole seconds, if present and numeric *) }.

Inductive attempt_result := AResp (r : response) | AErr (e : herr).

(* retryHandleFunc *)
Definition http_retryable (a : attempt_result) : bool :=
  match a with
  | AErr HUnsupportedScheme | AErr HCertNotTrusted | AErr HStoppedAfterRedirects | AErr HUnknownAuthority => false
  | AErr _ => true
  | AResp r => (rs_status r =? 429) || ((500 <=? rs_status r) && negb (rs_status r =? 501))
  end.

Definition http_abort (a : attempt_result) : bool := match a with AErr HCtxCanceled => true | _ => false end.

(* DelayFunc: nanoseconds, or -1 *)
Definition http_delay (a : attempt_result) : Z :=
  match a with
  | AResp r =>
      if (rs_status r =? 429) || (rs_status r =? 503)
      then match rs_retry_after r with Some s => s * 1000000000 | None => -1 end
      else -1
  | AErr _ => -1
  end.

(* the default HTTP retry policy around a script of attempt results: returns the index of the attempt whose
   result is returned (or None when retries are exhausted: ExceededError wrapping the last), the number of
   attempts made, and the delay scheduled before each retry *)
Fixpoint http_retry (script : list attempt_result) (retries_left : nat) (idx : nat) : option nat * nat * list Z :=
  match script with
  | [] => (None, idx, [])
  | a :: rest =>
      if negb (http_retryable a) then (Some idx, S idx, [])
      else if http_abort a then
        (* an abort-matching failure stops the policy; when the budget is exhausted at the same time the policy
           still reports ExceededError (retryexecutor.go OnFailure) *)
        match retries_left with O => (None, S idx, []) | S _ => (Some idx, S idx, []) end
      else match retries_left with
           | O => (None, S idx, [])
           | S n =>
               let d := http_delay a in
               let '(r, k, ds) := http_retry rest n (S idx) in
               (r, k, (if d =? -1 then 0 else Z.max 0 d) :: ds)
           end
  end.

(* the same policy with a configured delay (WithDelay base) or backoff (WithBackoff base maxd, factor 2) besides the
   delay function: getDelay takes the delay function's value whenever it is not -1 -- unclamped by the backoff's
   maximum -- and the fixed / backed-off delay otherwise (retryexecutor.go getDelay, getFixedOrRandomDelay: the backoff
   advances from the last fixed delay used, starting over at base when none was used yet or on the first retry) *)
Definition fixed_delay (base maxd last : Z) (retries : nat) : Z :=
  if base =? 0 then 0
  else if negb (last =? 0) && negb (Nat.eqb retries 0) && negb (maxd =? 0) then Z.min (last * 2) maxd
  else base.

Fixpoint http_retry_b (base maxd last : Z) (script : list attempt_result) (retries_left : nat) (idx : nat) : option nat * nat * list Z :=
  match script with
  | [] => (None, idx, [])
  | a :: rest =>
      if negb (http_retryable a) then (Some idx, S idx, [])
      else if http_abort a then
        match retries_left with O => (None, S idx, []) | S _ => (Some idx, S idx, []) end
      else match retries_left with
           | O => (None, S idx, [])
           | S n =>
               let d := http_delay a in
               let f := fixed_delay base maxd last idx in
               let '(r, k, ds) := http_retry_b base maxd (if d =? -1 then (if base =? 0 then last else f) else last) rest n (S idx) in
               (r, k, (if d =? -1 then f else Z.max 0 d) :: ds)
           end
  end.

(* the wait the property demands before the retry that follows attempt a: a Retry-After given in seconds *)
Definition retry_after_floor (a : attempt_result) : Z :=
  match a with
  | AResp r => if (rs_status r =? 429) || (rs_status r =? 503)
               then match rs_retry_after r with Some s => Z.max 0 (s * 1000000000) | None => 0 end else 0
  | AErr _ => 0
  end.

(* gRPC: codes.Unavailable = 14, DeadlineExceeded = 4, ResourceExhausted = 8; a non-status error is not retried *)
Definition grpc_retryable (code : option Z) : bool :=
  match code with Some c => (c =? 14) || (c =? 4) || (c =? 8) | None => false end.

(* ---------------- request bodies --------------------------------------- *)
Inductive body_kind := BNone | BBuffer | BBytesReader | BSeeker | BStream | BUnsupported.

(* a body as the caller hands it over: its content and how much of it has already been consumed *)
Record body := { b_kind : body_kind; b_content : list Z; b_offset : nat }.

(* bodyReader: what every attempt's fresh reader yields.  Buffers and readers are captured from the current read
   position; a seekable body is rewound to its start for every attempt. *)
Definition attempt_body (b : body) : option (list Z) :=
  match b_kind b with
  | BNone => Some []
  | BBuffer | BBytesReader | BStream => Some (skipn (b_offset b) (b_content b))
  | BSeeker => Some (b_content b)
  | BUnsupported => None
  end.

(* n sequential attempts: every one of them sees the same bytes *)
Definition bodies_of_attempts (b : body) (n : nat) : list (option (list Z)) := repeat (attempt_body b) n.

(* ---------------- merged contexts --------------------------------------- *)
Record ctx := { c_background : bool; c_values : list (Z * Z); c_deadline : option Z; c_done_at : option Z (* instant it becomes done *) }.

Definition earlier (a b : option Z) : option Z :=
  match a, b with Some x, Some y => Some (Z.min x y) | Some x, None => Some x | None, y => y end.

(* MergeContexts(caller's context, execution's context) *)
Definition merge_contexts (caller exec : ctx) : ctx :=
  if c_background caller then exec
  else if c_background exec then caller
  else {| c_background := false; c_values := c_values caller; c_deadline := c_deadline caller;
          c_done_at := earlier (c_done_at caller) (c_done_at exec) |}.

(* as it was before the fix: built from context.Background() *)
Definition merge_contexts_prefix (caller exec : ctx) : ctx :=
  if c_background caller then exec
  else if c_background exec then caller
  else {| c_background := false; c_values := []; c_deadline := None;
          c_done_at := earlier (c_done_at caller) (c_done_at exec) |}.
