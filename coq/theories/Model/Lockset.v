(* Model/Lockset.v — threads, mutexes and plain memory accesses (property C14).
   A trace is a sequence of events of threads acquiring/releasing mutexes and reading/writing named
   locations.  An access table says how each location of the code is meant to be protected; the
   table of the real code is regenerated from the Go sources on every run (harness/accessgen). *)
From Coq Require Export List Arith Bool Lia.
Export ListNotations.

Definition thread := nat. Definition lock := nat. Definition loc := nat.

Inductive ev :=
  | Acq (t : thread) (m : lock)
  | Rel (t : thread) (m : lock)
  | Acc (t : thread) (x : loc) (write : bool).

Fixpoint run_holder (h : lock -> option thread) (tr : list ev) : lock -> option thread :=
  match tr with
  | [] => h
  | Acq t m :: tr' => run_holder (fun m' => if Nat.eqb m' m then Some t else h m') tr'
  | Rel t m :: tr' => run_holder (fun m' => if Nat.eqb m' m then None else h m') tr'
  | Acc _ _ _ :: tr' => run_holder h tr'
  end.

(* mutual exclusion and the locking discipline, checked along the trace:
   a mutex is acquired only when free and released only by its holder; every access to a location
   guarded by mutex g(x) is made while holding it *)
Fixpoint ok_from (g : loc -> lock) (h : lock -> option thread) (tr : list ev) : Prop :=
  match tr with
  | [] => True
  | Acq t m :: tr' => h m = None /\ ok_from g (fun m' => if Nat.eqb m' m then Some t else h m') tr'
  | Rel t m :: tr' => h m = Some t /\ ok_from g (fun m' => if Nat.eqb m' m then None else h m') tr'
  | Acc t x _ :: tr' => h (g x) = Some t /\ ok_from g h tr'
  end.

Definition disciplined_trace (g : loc -> lock) (tr : list ev) : Prop := ok_from g (fun _ => None) tr.

(* ---- access tables generated from the Go sources ---- *)
From Coq Require Export String.

Inductive protection :=
  | PAtomic            (* sync/atomic type: every access is an atomic operation *)
  | PChannel           (* channel: synchronised by the runtime *)
  | PImmutable         (* never written through the shared object after construction *)
  | PGuarded (m : nat) (* every access lexically inside the struct's mutex critical section (or in a method documented as requiring it) *)
  | PConfined          (* no mutex: state of one goroutine role (per-execution executor state) *)
  | PUnguarded.        (* written somewhere and accessed outside the mutex somewhere *)

Record row := { r_struct : string; r_field : string; r_prot : protection; r_unlocked : list string (* functions with an access outside the mutex *) }.

(* recorded findings (known_findings.txt): accesses known to be outside the discipline *)
Definition allowed : list (string * string * string) :=
  [ ("execution", "lastResult", "LastResult"); ("execution", "lastError", "LastError");
    ("execution", "attemptStartTime", "AttemptStartTime"); ("execution", "attemptStartTime", "ElapsedAttemptTime");
    ("circuitBreaker", "state", "Reset"); ("circuitBreaker", "<lock-requiring call>", "Reset") ]%string.

Definition site_allowed (al : list (string * string * string)) (r : row) (f : string) : bool :=
  existsb (fun p => String.eqb (fst (fst p)) (r_struct r) && String.eqb (snd (fst p)) (r_field r) && String.eqb (snd p) f) al.

Definition row_ok (al : list (string * string * string)) (r : row) : bool :=
  match r_prot r with
  | PUnguarded => forallb (site_allowed al r) (r_unlocked r)
  | _ => true
  end.

Definition disciplined (al : list (string * string * string)) (tbl : list row) : bool := forallb (row_ok al) tbl.
