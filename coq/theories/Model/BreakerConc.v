(* Model/BreakerConc.v — executions racing through one breaker (property C04).
   Each execution thread performs two atomic breaker operations, both under the
   breaker's mutex in the code: the admission (TryAcquirePermit in PreExecute)
   and the recording of its outcome (RecordSuccess / recordFailure in
   PostExecute).  Between them anything may happen: other threads' operations,
   clock advances, manual Open/HalfOpen/Close.  [gen] is a ghost counter of
   state changes; a thread remembers the generation it was admitted in. *)
From FS Require Export Model.Breaker.

Inductive tstate := TIdle | TRejected | TInFlight (gen : Z) | TDone.

Inductive cstep :=
  | CAcquire (i : nat)                       (* thread i asks for admission *)
  | CRecord (i : nat) (success : bool) (r : option Z)   (* thread i records its outcome *)
  | CTick (dt : Z)                           (* the clock advances *)
  | CManual (target : Z).                    (* Open / HalfOpen / Close from outside *)

Section Conc.
  Context {S : Type} (I : stats_impl S) (c : bcfg).

  Record conf := { cf_state : bstate (S := S); cf_now : Z; cf_gen : Z; cf_threads : list tstate }.

  Definition set_thread (i : nat) (t : tstate) (l : list tstate) : list tstate := set_nth i t l.

  Definition bump (g : Z) (evs : list bevent) : Z := g + Z.of_nat (length evs).

  Definition conc_step (k : conf) (st : cstep) : conf :=
    match st with
    | CAcquire i =>
        match nth i (cf_threads k) TDone with
        | TIdle =>
            let '(ok, s', evs) := try_acquire I c (cf_state k) (cf_now k) in
            let g := bump (cf_gen k) evs in
            {| cf_state := s'; cf_now := cf_now k; cf_gen := g;
               cf_threads := set_thread i (if ok then TInFlight g else TRejected) (cf_threads k) |}
        | _ => k
        end
    | CRecord i v r =>
        match nth i (cf_threads k) TDone with
        | TInFlight _ =>
            let '(s', evs) := record I c (cf_state k) (cf_now k) v r in
            {| cf_state := s'; cf_now := cf_now k; cf_gen := bump (cf_gen k) evs;
               cf_threads := set_thread i TDone (cf_threads k) |}
        | _ => k
        end
    | CTick dt =>
        {| cf_state := cf_state k; cf_now := cf_now k + Z.max 0 dt; cf_gen := cf_gen k; cf_threads := cf_threads k |}
    | CManual tgt =>
        let '(s', evs) := transition I c (cf_state k) (cf_now k) tgt (b_delay c) in
        {| cf_state := s'; cf_now := cf_now k; cf_gen := bump (cf_gen k) evs; cf_threads := cf_threads k |}
    end.

  Definition conc_run (k : conf) (tr : list cstep) : conf := fold_left conc_step tr k.

  (* trials of the current half-open generation that are running *)
  Definition inflight_now (k : conf) : Z :=
    Z.of_nat (length (filter (fun t => match t with TInFlight g => g =? cf_gen k | _ => false end) (cf_threads k))).

  (* the property's proviso: a step is stale when a thread admitted in an earlier
     generation records while the breaker is half-open *)
  Definition stale_step (k : conf) (st : cstep) : bool :=
    match st with
    | CRecord i _ _ =>
        match nth i (cf_threads k) TDone, cf_state k with
        | TInFlight g, HalfOpen _ _ => negb (g =? cf_gen k)
        | _, _ => false
        end
    | _ => false
    end.

  Fixpoint no_stale (k : conf) (tr : list cstep) : bool :=
    match tr with
    | [] => true
    | st :: tr' => negb (stale_step k st) && no_stale (conc_step k st) tr'
    end.
End Conc.
