(* Model/RateLimiter.v — smooth and bursty rate limiter statistics and the
   RateLimiter API built on them.
   Mirrors: ratelimiter/ratelimiterstats.go (smoothStats.acquirePermits,
   burstyStats.acquirePermits, exceedsMaxWaitTime), ratelimiter/ratelimiter.go
   (the ten API methods), internal/util RoundDown.  Times are Z nanoseconds
   measured by the limiter's stopwatch (0 = Build()).  No proofs here. *)
From Coq Require Export List ZArith Bool Lia.
Export ListNotations.
Open Scope Z_scope.

(* util.RoundDown *)
Definition round_down (x i : Z) : Z := x - x mod i.

(* exceedsMaxWaitTime: maxWaitTime = -1 means "no limit" *)
Definition exceeds_max_wait (wait maxw : Z) : bool :=
  negb (maxw =? -1) && (maxw <? wait).

(* ---------------- smoothStats ---------------------------------------- *)

(* state = nextFreePermitTime *)
Definition smooth_acquire (interval nfpt now k maxw : Z) : Z * Z :=
  let req := interval * k in
  let new :=
    if nfpt <=? now then round_down now interval + req
    else nfpt + req in
  let wait := Z.max (new - now - interval) 0 in
  if exceeds_max_wait wait maxw then (-1, nfpt) else (wait, new).

(* ---------------- burstyStats ---------------------------------------- *)

Record bursty := { b_avail : Z; b_cur : Z }.

(* the period roll-over at the head of burstyStats.acquirePermits.
   [fixed = true]: the code after the fix: commit for finding F1
   (availablePermits is capped at periodPermits); [fixed = false]: as found. *)
Definition bursty_roll (fixed : bool) (pp period : Z) (s : bursty) (now : Z) : bursty :=
  let newcur := now / period in
  if b_cur s <? newcur then
    let elapsed := (newcur - b_cur s) * pp in
    {| b_cur := newcur;
       b_avail := if b_avail s <? 0
                  then (if fixed then Z.min (b_avail s + elapsed) pp else b_avail s + elapsed)
                  else pp |}
  else s.

Definition bursty_acquire_gen (fixed : bool) (pp period : Z) (s0 : bursty) (now k maxw : Z) : Z * bursty :=
  let s := bursty_roll fixed pp period s0 now in
  if b_avail s <? k then
    let to_next := (b_cur s + 1) * period - now in
    let deficit := k - b_avail s in
    let addp := deficit / pp in
    let addu := deficit mod pp in
    let addp := if addu =? 0 then addp - 1 else addp in
    let wait := to_next + addp * period in
    if exceeds_max_wait wait maxw then (-1, s)
    else (wait, {| b_avail := b_avail s - k; b_cur := b_cur s |})
  else (0, {| b_avail := b_avail s - k; b_cur := b_cur s |}).

Definition bursty_acquire := bursty_acquire_gen true.
Definition bursty_acquire_prefix := bursty_acquire_gen false.

(* ---------------- the limiter as one state machine -------------------- *)

Inductive lcfg := Smooth (interval : Z) | Bursty (pp period : Z).
Inductive lstate := SSmooth (nfpt : Z) | SBursty (b : bursty).

Definition lim_init (c : lcfg) : lstate :=
  match c with
  | Smooth _ => SSmooth 0
  | Bursty pp _ => SBursty {| b_avail := pp; b_cur := 0 |}
  end.

(* stats.acquirePermits *)
Definition lim_acquire (c : lcfg) (s : lstate) (now k maxw : Z) : Z * lstate :=
  match c, s with
  | Smooth i, SSmooth n => let '(w, n') := smooth_acquire i n now k maxw in (w, SSmooth n')
  | Bursty pp p, SBursty b => let '(w, b') := bursty_acquire pp p b now k maxw in (w, SBursty b')
  | _, _ => (-1, s)
  end.

(* configuration guard: what the builders can produce without the code dividing by zero *)
Definition cfg_ok (c : lcfg) : bool :=
  match c with
  | Smooth i => 0 <? i
  | Bursty pp p => (0 <? pp) && (0 <? p)
  end.

(* ---------------- API (ratelimiter.go) -------------------------------- *)

Inductive lop :=
  | OpTryAcquire (k : Z)                 (* TryAcquirePermit(s): bool *)
  | OpReserve (k : Z)                    (* ReservePermit(s): wait *)
  | OpTryReserve (k maxw : Z)            (* TryReservePermit(s): wait or -1 *)
  | OpAcquire (k : Z)                    (* AcquirePermit(s)(ctx): blocks for the wait *)
  | OpAcquireMax (k maxw : Z).           (* AcquirePermit(s)WithMaxWait(ctx, ..) *)

(* What the caller observes: the returned value (bool as 0/1, duration, or for
   the blocking calls 0 = nil / 1 = ErrExceeded) and the instant (on the
   limiter's stopwatch) at which the call returns. *)
Record lobs := { o_val : Z; o_ret : Z }.

(* generic in the permit source, so that the same API wrapper runs over the
   code's statistics (below) and over the abstract grant ledger (Spec/LimiterSpec.v) *)
Definition api_step {S : Type} (acq : S -> Z -> Z -> Z -> Z * S) (s : S) (now : Z) (op : lop) : lobs * S :=
  match op with
  | OpTryAcquire k =>
      let '(w, s') := acq s now k 0 in
      ({| o_val := if w =? 0 then 1 else 0; o_ret := now |}, s')
  | OpReserve k =>
      let '(w, s') := acq s now k (-1) in ({| o_val := w; o_ret := now |}, s')
  | OpTryReserve k maxw =>
      let '(w, s') := acq s now k maxw in ({| o_val := w; o_ret := now |}, s')
  | OpAcquire k =>
      let '(w, s') := acq s now k (-1) in ({| o_val := 0; o_ret := now + w |}, s')
  | OpAcquireMax k maxw =>
      let '(w, s') := acq s now k maxw in
      if w =? -1 then ({| o_val := 1; o_ret := now |}, s')
      else ({| o_val := 0; o_ret := now + w |}, s')
  end.

Fixpoint api_run {S : Type} (acq : S -> Z -> Z -> Z -> Z * S) (s : S) (h : list (Z * lop)) : list lobs :=
  match h with
  | [] => []
  | (now, op) :: h' => let '(o, s') := api_step acq s now op in o :: api_run acq s' h'
  end.

Definition lim_step (c : lcfg) : lstate -> Z -> lop -> lobs * lstate := api_step (lim_acquire c).

(* a history: calls at (non-decreasing) stopwatch instants *)
Definition lim_run (c : lcfg) : lstate -> list (Z * lop) -> list lobs := api_run (lim_acquire c).

Definition op_permits (op : lop) : Z :=
  match op with
  | OpTryAcquire k | OpReserve k | OpTryReserve k _ | OpAcquire k | OpAcquireMax k _ => k
  end.
Definition op_maxw (op : lop) : Z :=
  match op with
  | OpTryAcquire _ => 0 | OpReserve _ | OpAcquire _ => -1
  | OpTryReserve _ m | OpAcquireMax _ m => m
  end.

(* history guard: instants non-negative and non-decreasing, at least one permit
   per request, max wait times non-negative (or the API's own -1) *)
Fixpoint hist_ok (tlast : Z) (h : list (Z * lop)) : bool :=
  match h with
  | [] => true
  | (now, op) :: h' =>
      (tlast <=? now) && (1 <=? op_permits op) && (-1 <=? op_maxw op) && hist_ok now h'
  end.
