(* Properties/C11.v — Cache: a hit skips everything inside it; only cacheable results are stored. *)
From FS Require Import Model.CacheGen Proofs.CacheGenProofs Model.Exec Proofs.ExecProofs Corr.C11.

Theorem C11_hit_skips_inner : forall pos inst cfg (inner : layer) c w v,
  cache_key w cfg <> 0 -> cache_get (nth inst (w_caches w) []) (cache_key w cfg) = Some v ->
  cache_layer pos inst cfg inner c w = (all_true (v, None), emit w KCacheHit pos (v, None) 0).
Proof. exact cache_hit_skips_inner. Qed.
Print Assumptions C11_hit_skips_inner.

Theorem C11_miss_returns_inner_unchanged : forall pos inst cfg (inner : layer) c w,
  (cache_key w cfg = 0 \/ cache_get (nth inst (w_caches w) []) (cache_key w cfg) = None) ->
  fst (cache_layer pos inst cfg inner c w) = fst (inner c (stamp (emit w KCacheMiss pos (snapshot w c) 0) c)).
Proof. exact cache_miss_returns_inner. Qed.
Print Assumptions C11_miss_returns_inner_unchanged.

Theorem C11_stored_iff_cacheable_and_keyed : forall pos inst cfg (inner : layer) c w,
  (cache_key w cfg = 0 \/ cache_get (nth inst (w_caches w) []) (cache_key w cfg) = None) ->
  let w1 := stamp (emit w KCacheMiss pos (snapshot w c) 0) c in
  let r := fst (inner c w1) in let w2 := snd (inner c w1) in
  w_caches (snd (cache_layer pos inst cfg inner c w)) =
    if cacheable cfg (pr_out r) && negb (cache_key w cfg =? 0)
    then upd inst (fun _ => cache_set (nth inst (w_caches w2) []) (cache_key w cfg) (pr_res r)) (w_caches w2)
    else w_caches w2.
Proof. exact cache_stored_iff_cacheable. Qed.
Print Assumptions C11_stored_iff_cacheable_and_keyed.

Theorem C11_context_key_precedence : forall w cfg k, w_ctxkey w = CKStr k -> cache_key w cfg = k.
Proof. exact cache_context_key_precedence. Qed.
Print Assumptions C11_context_key_precedence.

Theorem C11_configured_key_otherwise : forall w cfg, (forall k, w_ctxkey w <> CKStr k) -> cache_key w cfg = ca_key cfg.
Proof. exact cache_configured_key_otherwise. Qed.
Print Assumptions C11_configured_key_otherwise.

(* ---- for EVERY result type and every cache content (Model/CacheGen.v; the policies of Model/Exec.v return integers):
   no value -- zero, nil, empty -- is special ---- *)
Theorem C11_any_type_hit_returns_cached_value : forall (V : Type) (l : store V) k v fn,
  k <> 0 -> cget l k = Some v -> cache_exec l k fn = (v, false, l).
Proof. exact hit_returns_cached_value. Qed.
Print Assumptions C11_any_type_hit_returns_cached_value.

Theorem C11_any_type_miss_runs_and_stores : forall (V : Type) (l : store V) k fn,
  k <> 0 -> cget l k = None -> cache_exec l k fn = (fn, true, cset l k fn).
Proof. exact miss_runs_and_stores. Qed.
Print Assumptions C11_any_type_miss_runs_and_stores.

Theorem C11_any_type_second_execution_hits : forall (V : Type) (l : store V) k v1 v2,
  k <> 0 -> cget l k = None ->
  let l1 := snd (cache_exec l k v1) in cache_exec l1 k v2 = (v1, false, l1).
Proof. exact second_execution_hits. Qed.
Print Assumptions C11_any_type_second_execution_hits.

Theorem C11_any_type_other_keys_untouched : forall (V : Type) (l : store V) k k' fn,
  k' <> k -> cget (snd (cache_exec l k fn)) k' = cget l k'.
Proof. exact other_keys_untouched. Qed.
Print Assumptions C11_any_type_other_keys_untouched.
