(* Properties/C04.v — An open breaker admits nothing; half-open admits at most its trial capacity.
   The interleaving model (Model/BreakerConc.v): any number of execution threads, each performing
   the two atomic breaker operations of the code (admission, recording) with arbitrary other
   steps, clock advances and manual state changes in between. *)
From FS Require Import Model.BreakerConc Proofs.BreakerProofs Proofs.BreakerConcProofs Proofs.C04Proofs Corr.C04.

(* 1. Open admits nothing: in ANY configuration (whatever other threads are doing) an admission
      request that finds the breaker open before its delay elapsed is rejected (ErrOpen) and
      changes nothing else. *)
Theorem C04_open_rejects_all : forall S (I : stats_impl S) c k i a st d,
  cf_state k = Open a st d -> cf_now k - st < d -> nth i (cf_threads k) TDone = TIdle ->
  conc_step I c k (CAcquire i) =
    {| cf_state := cf_state k; cf_now := cf_now k; cf_gen := cf_gen k;
       cf_threads := set_thread i TRejected (cf_threads k) |}.
Proof. exact @open_rejects_all. Qed.
Print Assumptions C04_open_rejects_all.

(* 2. The invariant (permits + running trials of the current half-open generation = capacity;
      no running thread carries the generation of an open state) is kept by every step that is
      not a stale record, hence by every interleaving without one, of any length, for any
      number of threads. *)
Theorem C04_run_preserves_inv : forall S (I : stats_impl S) c, 1 <= halfopen_capacity c ->
  forall tr k, Inv c k -> no_stale I c k tr = true -> Inv c (conc_run I c k tr).
Proof. exact @run_preserves_inv. Qed.
Print Assumptions C04_run_preserves_inv.

(* 3. Half-open bound and permit return: never more than capacity trials of the current
      half-open state in flight; when none is in flight every permit is back. *)
Theorem C04_half_open_bound : forall S (I : stats_impl S) c, 1 <= halfopen_capacity c ->
  forall tr k, Inv c k -> no_stale I c k tr = true ->
  match cf_state (conc_run I c k tr) with
  | HalfOpen _ p => 0 <= inflight_now (conc_run I c k tr) <= halfopen_capacity c
                    /\ (inflight_now (conc_run I c k tr) = 0 -> p = halfopen_capacity c)
  | _ => True
  end.
Proof. exact @half_open_bound. Qed.
Print Assumptions C04_half_open_bound.

(* 4. The initial configuration satisfies the invariant (so the theorems are not vacuous). *)
Theorem C04_inv_init : forall S (I : stats_impl S) c threads,
  (forall t, In t threads -> t = TIdle) -> forall now,
  Inv c {| cf_state := new_closed I c; cf_now := now; cf_gen := 0; cf_threads := threads |}.
Proof. exact @inv_init. Qed.
Print Assumptions C04_inv_init.

(* 5. Used by the correspondence: the snapshot checker holds on every model trace without stale records. *)
Theorem C04_checker_sound : forall c tr, 1 <= halfopen_capacity c ->
  forall k, 0 <= cf_gen k -> Inv c k -> no_stale conc_impl c k tr = true ->
  forallb (snap_ok (halfopen_capacity c)) (model_snaps c k tr) = true.
Proof. exact model_snaps_ok. Qed.
Print Assumptions C04_checker_sound.

(* 6. The proviso is necessary: with an execution admitted before the breaker opened still in
      flight, capacity+1 trials run (witness evaluated by the kernel). *)
Theorem C04_bound_needs_proviso :
  let c := build_bcfg [WithFailureThreshold 1; WithDelay 0] in
  let k0 := {| cf_state := cb_init c; cf_now := 0; cf_gen := 0; cf_threads := [TIdle; TIdle; TIdle; TIdle] |} in
  let tr := [CAcquire 0; CAcquire 1; CRecord 1 false None; CAcquire 2; CRecord 0 true None; CAcquire 3] in
  no_stale conc_impl c k0 tr = false /\
  map (fun t => match t with TInFlight _ => true | _ => false end) (cf_threads (conc_run conc_impl c k0 tr))
    = [false; false; true; true].
Proof. exact half_open_bound_needs_proviso. Qed.
Print Assumptions C04_bound_needs_proviso.
