(* Properties/C15.v — Async results follow the future protocol and agree with sync execution. *)
From FS Require Import Model.Future Proofs.FutureProofs Model.Exec Proofs.ExecProofs Corr.C15.

(* every interleaving of the runner's publication steps with any number of readers: Done is closed at most
   once, only after the result was stored (which happens after the listeners ran), and every
   Get/Result/Error that returns does so after the close and sees the published result *)
Theorem C15_done_closed_once_after_result : forall tr,
  let s := fut_run tr in
  (f_closed s <= 1)%nat /\ (f_closed s = 1%nat -> f_stored s = true /\ f_r s = RClosed) /\ (forall b, In b (f_gets s) -> b = true).
Proof. exact done_closed_once_after_result. Qed.
Print Assumptions C15_done_closed_once_after_result.

(* IsDone is true exactly from the close on (since the fix for finding F4) *)
Theorem C15_isdone_iff_closed : forall tr, is_done true (fut_run tr) = done_closed (fut_run tr).
Proof. exact isdone_iff_closed. Qed.
Print Assumptions C15_isdone_iff_closed.

Theorem C15_isdone_before_close_refuted_before_fix :
  exists tr, is_done false (fut_run tr) = true /\ done_closed (fut_run tr) = false.
Proof. exact isdone_before_close_prefix. Qed.
Print Assumptions C15_isdone_before_close_refuted_before_fix.

(* Cancel(): for every interleaving with the retry loop's bookkeeping (fixed protocol: the cancellation
   result is stored and the context cancelled in one critical section) an execution that notices the
   cancellation reports ErrExecutionCanceled *)
Theorem C15_async_cancel_attribution : forall tr, fixed_trace tr = true ->
  k_report (crace_run tr) = RepNone \/ k_report (crace_run tr) = RepExecCanceled.
Proof. exact async_cancel_attribution. Qed.
Print Assumptions C15_async_cancel_attribution.

Theorem C15_async_cancel_misattributed_before_fix : k_report (crace_run [KA; KInit; KB; KCheck]) = RepCtxCanceled.
Proof. exact async_cancel_misattributed_prefix. Qed.
Print Assumptions C15_async_cancel_misattributed_before_fix.

(* async = sync: both entry points run the same [execute]; the async result is what [execute] returned.
   (Model/Exec.v has one execute for both; the differential in the correspondence compares each scenario
   through a sync and the matching async entry point with that single model.) *)
Theorem C15_cancel_result_is_cause : forall w c cr, is_canceled w c = Some cr ->
  match w_cell w with
  | Some r => cr = r
  | None => pr_err cr = copy_err w c /\ pr_done cr = true
  end.
Proof. exact cancel_result_is_cause. Qed.
Print Assumptions C15_cancel_result_is_cause.

(* a Cancel that takes effect while the retry policy handles the failure it gives up on (retries exceeded, abort) -- after the
   loop looked at the cancellation, e.g. while a failure listener runs -- is reported: the policy returns the cancellation's
   result (ErrExecutionCanceled for ExecutionResult.Cancel(), C15_cancel_wins), not ExceededError.  Finding F17, repaired by a
   fix: commit; any inner layer, any world *)
Theorem C15_cancel_while_giving_up_is_reported : forall cfg pos (inner : layer) fuel c w cr,
  let r := fst (inner c w) in let w1 := snd (inner c w) in
  let r2 := fst (retry_on_failure cfg pos c (with_failure r) w1) in
  let w2 := snd (retry_on_failure cfg pos c (with_failure r) w1) in
  is_canceled w1 c = None -> rs_exceeded (get_rstate w1 pos) = false ->
  is_failure (r_fpol cfg) (pr_out r) = true -> pr_done r2 = true -> is_canceled w2 c = Some cr ->
  retry_loop (S fuel) cfg pos inner c w = (cr, w2, 1%nat).
Proof. exact retry_gives_up_cancelled_reports_cancellation. Qed.
Print Assumptions C15_cancel_while_giving_up_is_reported.
