(* Properties/C05.v — Rate limiter never admits faster than configured; refusals cost nothing.
   Nothing but statements, each closed by [exact] and followed by Print Assumptions.
   Reading guide: [lim_run] is the Gallina mirror of ratelimiterstats.go + ratelimiter.go,
   [spec_run] the abstract grant ledger of Spec/LimiterSpec.v (one entry per granted permit =
   the interval slot / period in which it becomes usable). *)
From FS Require Import Spec.LimiterSpec Proofs.LimiterProofs Corr.C05.

(* 1. Refinement: for every configuration and every call history the code's answers
      (values and return instants of all API calls) are the ledger's answers. *)
Theorem C05_refines_ledger : forall c h,
  cfg_ok c = true -> hist_ok 0 h = true ->
  lim_run c (lim_init c) h = spec_run c [] h.
Proof. exact lim_refines_ledger. Qed.
Print Assumptions C05_refines_ledger.

(* 2. Capacity: after any history no interval slot (smooth: capacity 1) and no period
      (bursty: capacity maxExecutions) holds more granted permits than its capacity. *)
Theorem C05_capacity : forall c h s,
  cfg_ok c = true -> count (spec_final c [] h) s <= slot_cap c.
Proof. exact capacity_respected. Qed.
Print Assumptions C05_capacity.

(* 3. Each permit is usable at request instant + wait, that instant lies in the slot the
      ledger records, the slot is not before the request's own slot, it had room, and every
      slot between the request's slot and it was full: the earliest grant respecting order. *)
Theorem C05_permit_earliest_and_in_slot : forall c l now,
  0 < slot_cap c -> 0 < slot_width c -> 0 <= now ->
  let '(w, s) := spec_single c l now in
  0 <= w /\ (now + w) / slot_width c = s /\ now / slot_width c <= s /\
  count l s < slot_cap c /\ (forall p, now / slot_width c <= p < s -> slot_cap c <= count l p).
Proof. exact spec_single_props. Qed.
Print Assumptions C05_permit_earliest_and_in_slot.

(* 4. k permits at once = one permit then k-1 more at the same instant (code level);
      at the ledger level it is the definition of [spec_acquire]. *)
Theorem C05_k_permits_smooth : forall i nfpt now k,
  0 < i -> 0 <= now -> 1 <= k ->
  smooth_acquire i nfpt now (1 + k) (-1) =
  smooth_acquire i (snd (smooth_acquire i nfpt now 1 (-1))) now k (-1).
Proof. exact smooth_split_front. Qed.
Print Assumptions C05_k_permits_smooth.

Theorem C05_k_permits_bursty : forall pp period s now k,
  1 <= k ->
  bursty_acquire pp period s now (1 + k) (-1) =
  bursty_acquire pp period (snd (bursty_acquire pp period s now 1 (-1))) now k (-1).
Proof. exact bursty_split_front. Qed.
Print Assumptions C05_k_permits_bursty.

(* 5. A refused request (TryAcquire false / TryReserve -1 / ErrExceeded) leaves the limiter
      as if it had never been made: every later history sees identical answers. *)
Theorem C05_refusal_invisible : forall c h0 now op h,
  cfg_ok c = true -> hist_ok 0 (h0 ++ (now, op) :: h) = true ->
  let s := api_final (lim_acquire c) (lim_init c) h0 in
  fst (lim_acquire c s now (op_permits op) (op_maxw op)) = -1 ->
  lim_run c (snd (api_step (lim_acquire c) s now op)) h = lim_run c s h.
Proof. exact refusal_invisible. Qed.
Print Assumptions C05_refusal_invisible.

(* 6. A blocking acquire returns exactly at request instant + wait (never earlier). *)
Theorem C05_blocking_not_early : forall c s now k,
  o_ret (fst (lim_step c s now (OpAcquire k))) = now + fst (lim_acquire c s now k (-1)).
Proof. intros c s now k. unfold lim_step. cbn [api_step]. destruct (lim_acquire c s now k (-1)). reflexivity. Qed.
Print Assumptions C05_blocking_not_early.

(* 7. Used by the correspondence: an implementation trace equal to the model's satisfies the ledger. *)
Theorem C05_checker_sound : forall c, case_guard c = true -> model_obs c = spec_obs c.
Proof.
  intros c H. unfold case_guard in H. apply andb_true_iff in H. destruct H as [H1 H2].
  unfold model_obs, spec_obs. f_equal. exact (lim_refines_ledger _ _ H1 H2).
Qed.
Print Assumptions C05_checker_sound.

(* non-vacuity: a concrete history meets the guards, contains refusals, waits and an idle gap *)
Example C05_guard_inhabited :
  let c := Bursty 2 1000 in
  let h := [(0, OpReserve 3); (10, OpTryAcquire 1); (10, OpTryReserve 2 1500); (2001, OpTryAcquire 1); (2001, OpTryAcquire 2)] in
  cfg_ok c = true /\ hist_ok 0 h = true /\
  map o_val (lim_run c (lim_init c) h) = [1000; 0; -1; 1; 0].
Proof. vm_compute. auto. Qed.

(* Finding F1 (repaired by a fix: commit): with the roll-over as it was, three permits
   became usable in one period of a Bursty(2, 1s) limiter. *)
Theorem C05_refuted_before_fix :
  map o_val (api_run (bursty_acquire_prefix 2 1000000000) {| b_avail := 2; b_cur := 0 |} f1_hist)
  = [1000000000; 1; 1; 1].
Proof. exact bursty_overshoot_before_fix. Qed.
Print Assumptions C05_refuted_before_fix.
