(* Properties/C18.v — HTTP and gRPC adapters are transparent and replay requests faithfully (logic of the adapters;
   net/http and gRPC transports are outside the model). *)
From FS Require Import Model.Adapter Proofs.AdapterProofs Corr.C18.

Theorem C18_http_retryable_documented : forall a,
  http_retryable a = true <->
  match a with
  | AErr e => e <> HUnsupportedScheme /\ e <> HCertNotTrusted /\ e <> HStoppedAfterRedirects /\ e <> HUnknownAuthority
  | AResp r => rs_status r = 429 \/ (500 <= rs_status r /\ rs_status r <> 501)
  end.
Proof. exact http_retryable_documented. Qed.
Print Assumptions C18_http_retryable_documented.

Theorem C18_grpc_retryable_documented : forall code,
  grpc_retryable code = true <-> (code = Some 14 \/ code = Some 4 \/ code = Some 8).
Proof. exact grpc_retryable_documented. Qed.
Print Assumptions C18_grpc_retryable_documented.

Theorem C18_retry_after_respected : forall r s,
  (rs_status r = 429 \/ rs_status r = 503) -> rs_retry_after r = Some s -> 0 <= s ->
  http_delay (AResp r) = s * 1000000000.
Proof. exact retry_after_respected. Qed.
Print Assumptions C18_retry_after_respected.

(* for every script of server behaviours and every retry budget: the attempt whose result is returned is the last
   one made, it is returned because it is not retryable (or is the abort error), and every earlier attempt was retryable *)
Theorem C18_returned_is_last_attempt : forall script n idx r k ds,
  http_retry script n idx = (Some r, k, ds) -> k = S r.
Proof. exact returned_is_last_attempt. Qed.
Print Assumptions C18_returned_is_last_attempt.

Theorem C18_retried_exactly_when_retryable : forall script n idx r k ds,
  http_retry script n idx = (Some r, k, ds) ->
  exists a, nth_error script (r - idx) = Some a /\ (http_retryable a = false \/ http_abort a = true)
  /\ forall j, (j < r - idx)%nat -> exists b, nth_error script j = Some b /\ http_retryable b = true /\ http_abort b = false.
Proof. exact retried_exactly_when_retryable. Qed.
Print Assumptions C18_retried_exactly_when_retryable.

(* every attempt of a sequential retry sequence carries the same body, which is the complete original body when the
   caller hands over an unread body *)
Theorem C18_every_attempt_same_body : forall b n x, In x (bodies_of_attempts b n) -> x = attempt_body b.
Proof. exact every_attempt_same_body. Qed.
Print Assumptions C18_every_attempt_same_body.

Theorem C18_unread_body_is_complete : forall b,
  b_offset b = 0%nat -> b_kind b <> BUnsupported -> b_kind b <> BNone -> attempt_body b = Some (b_content b).
Proof. exact unread_body_is_complete. Qed.
Print Assumptions C18_unread_body_is_complete.

(* the context each attempt runs under carries the caller's values and deadline and is done when the caller's is *)
Theorem C18_attempt_context_carries_caller : forall caller exec,
  c_background caller = false ->
  let m := merge_contexts caller exec in
  c_values m = c_values caller /\ c_deadline m = c_deadline caller
  /\ (forall t, c_done_at caller = Some t -> exists t', c_done_at m = Some t' /\ t' <= t).
Proof. exact attempt_context_carries_caller. Qed.
Print Assumptions C18_attempt_context_carries_caller.

Theorem C18_attempt_context_dropped_caller_before_fix :
  exists caller exec, c_background caller = false /\ c_values caller <> [] /\
    c_values (merge_contexts_prefix caller exec) = [] /\ c_deadline (merge_contexts_prefix caller exec) = None
    /\ c_deadline caller <> None.
Proof. exact attempt_context_dropped_caller_before_fix. Qed.
Print Assumptions C18_attempt_context_dropped_caller_before_fix.
(* recorded finding F6b (not repaired): the returned body is unreadable when both contexts are non-background, because
   doRequest cancels the per-attempt context when the attempt function returns; see known_findings.txt *)
