(* Properties/C18.v — HTTP and gRPC adapters are transparent and replay requests faithfully (logic of the adapters;
   net/http and gRPC transports are outside the model). *)
From FS Require Import Model.Adapter Proofs.AdapterProofs Corr.C18.

Theorem C18_http_retryable_documented : forall a,
  http_retryable a = true <->
  match a with
  | AErr e => e <> HUnsupportedScheme /\ e <> HCertNotTrusted /\ e <> HStoppedAfterRedirects /\ e <> HUnknownAuthority
  | AResp r => rs_status r = 429 \/ (500 <= rs_status r /\ rs_status r <> 501)
  end.
Proof. exact http_retryable_documented. Qed.
Print Assumptions C18_http_retryable_documented.

Theorem C18_grpc_retryable_documented : forall code,
  grpc_retryable code = true <-> (code = Some 14 \/ code = Some 4 \/ code = Some 8).
Proof. exact grpc_retryable_documented. Qed.
Print Assumptions C18_grpc_retryable_documented.

Theorem C18_retry_after_respected : forall r s,
  (rs_status r = 429 \/ rs_status r = 503) -> rs_retry_after r = Some s -> 0 <= s ->
  http_delay (AResp r) = s * 1000000000.
Proof. exact retry_after_respected. Qed.
Print Assumptions C18_retry_after_respected.

(* for every script of server behaviours and every retry budget: the attempt whose result is returned is the last
   one made, it is returned because it is not retryable (or is the abort error), and every earlier attempt was retryable *)
Theorem C18_returned_is_last_attempt : forall script n idx r k ds,
  http_retry script n idx = (Some r, k, ds) -> k = S r.
Proof. exact returned_is_last_attempt. Qed.
Print Assumptions C18_returned_is_last_attempt.

Theorem C18_retried_exactly_when_retryable : forall script n idx r k ds,
  http_retry script n idx = (Some r, k, ds) ->
  exists a, nth_error script (r - idx) = Some a /\ (http_retryable a = false \/ http_abort a = true)
  /\ forall j, (j < r - idx)%nat -> exists b, nth_error script j = Some b /\ http_retryable b = true /\ http_abort b = false.
Proof. exact retried_exactly_when_retryable. Qed.
Print Assumptions C18_retried_exactly_when_retryable.

(* whatever delay or backoff the retry policy is configured with besides the Retry-After delay function (WithDelay base,
   WithBackoff base maxd), for every script, budget and backoff state: the wait scheduled after an attempt is at least
   the Retry-After that attempt's 429 / 503 response carried, and never negative; the configuration changes neither
   which attempts are made nor which one is returned; and with no configuration it is the default policy *)
Theorem C18_retry_after_waited_under_any_delay_configuration : forall base maxd, 0 <= base -> 0 <= maxd ->
  forall script last n idx r k ds, 0 <= last ->
  http_retry_b base maxd last script n idx = (r, k, ds) ->
  forall j d, nth_error ds j = Some d ->
  exists a, nth_error script j = Some a /\ retry_after_floor a <= d /\ 0 <= d.
Proof. exact retry_after_waited. Qed.
Print Assumptions C18_retry_after_waited_under_any_delay_configuration.

Theorem C18_delay_configuration_does_not_change_attempts : forall base maxd script last n idx,
  fst (http_retry_b base maxd last script n idx) = fst (http_retry script n idx).
Proof. exact http_retry_b_same_attempts. Qed.
Print Assumptions C18_delay_configuration_does_not_change_attempts.

Theorem C18_no_delay_configuration_is_default_policy : forall script last n idx,
  http_retry_b 0 0 last script n idx = http_retry script n idx.
Proof. exact http_retry_b_default. Qed.
Print Assumptions C18_no_delay_configuration_is_default_policy.

(* every attempt of a sequential retry sequence carries the same body, which is the complete original body when the
   caller hands over an unread body *)
Theorem C18_every_attempt_same_body : forall b n x, In x (bodies_of_attempts b n) -> x = attempt_body b.
Proof. exact every_attempt_same_body. Qed.
Print Assumptions C18_every_attempt_same_body.

Theorem C18_unread_body_is_complete : forall b,
  b_offset b = 0%nat -> b_kind b <> BUnsupported -> b_kind b <> BNone -> attempt_body b = Some (b_content b).
Proof. exact unread_body_is_complete. Qed.
Print Assumptions C18_unread_body_is_complete.

(* the context each attempt runs under carries the caller's values and deadline and is done when the caller's is *)
Theorem C18_attempt_context_carries_caller : forall caller exec,
  c_background caller = false ->
  let m := merge_contexts caller exec in
  c_values m = c_values caller /\ c_deadline m = c_deadline caller
  /\ (forall t, c_done_at caller = Some t -> exists t', c_done_at m = Some t' /\ t' <= t).
Proof. exact attempt_context_carries_caller. Qed.
Print Assumptions C18_attempt_context_carries_caller.

Theorem C18_attempt_context_dropped_caller_before_fix :
  exists caller exec, c_background caller = false /\ c_values caller <> [] /\
    c_values (merge_contexts_prefix caller exec) = [] /\ c_deadline (merge_contexts_prefix caller exec) = None
    /\ c_deadline caller <> None.
Proof. exact attempt_context_dropped_caller_before_fix. Qed.
Print Assumptions C18_attempt_context_dropped_caller_before_fix.
(* recorded finding F6b (not repaired): the returned body is unreadable when both contexts are non-background, because
   doRequest cancels the per-attempt context when the attempt function returns; see known_findings.txt *)
