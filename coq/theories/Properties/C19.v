(* Properties/C19.v — Finished executions leave no goroutines or connections behind (partial: see MANIFEST). *)
From FS Require Import Model.Ledger Proofs.LedgerProofs Corr.C19.

(* hedge attempts: with the result channel's buffer of one, in EVERY interleaving of any number of finishing attempts
   with the main loop's receives - including a main loop that has already returned and never receives - no attempt
   goroutine blocks on its send, so each one ends when its inner call returns *)
Theorem C19_hedge_send_never_blocks : forall cap tr, (1 <= cap)%nat -> hs_blocked (h_run cap tr) = 0%nat.
Proof. exact hedge_send_never_blocks. Qed.
Print Assumptions C19_hedge_send_never_blocks.

(* the buffer is necessary *)
Theorem C19_unbuffered_channel_leaks : hs_blocked (h_run 0 [HFinish true]) = 1%nat.
Proof. exact unbuffered_channel_leaks. Qed.
Print Assumptions C19_unbuffered_channel_leaks.

(* obligation discharged on every run: every go statement, timer, AfterFunc and derived context found in the
   library's sources of this run is one of the sites listed in Model/Ledger.v (each with its exit argument);
   evaluated by the kernel on the regenerated list (Corr/C18.v, CaseSites).  Non-vacuity: *)
Example C19_new_site_is_rejected : sites_known [("retrypolicy/retryexecutor.go", "Apply", "go")]%string = false.
Proof. reflexivity. Qed.
