From FS Require Import Corr.C19.
Theorem C19_placeholder : True. Proof. exact I. Qed.
Print Assumptions C19_placeholder.
