(* Properties/C19.v — Finished executions leave no goroutines or connections behind (partial: see MANIFEST). *)
From FS Require Import Model.Ledger Proofs.LedgerProofs Corr.C19.

(* hedge attempts: with the result channel's buffer of one, in EVERY interleaving of any number of finishing attempts
   with the main loop's receives - including a main loop that has already returned and never receives - no attempt
   goroutine blocks on its send, so each one ends when its inner call returns *)
Theorem C19_hedge_send_never_blocks : forall cap tr, (1 <= cap)%nat -> hs_blocked (h_run cap tr) = 0%nat.
Proof. exact hedge_send_never_blocks. Qed.
Print Assumptions C19_hedge_send_never_blocks.

(* the buffer is necessary *)
Theorem C19_unbuffered_channel_leaks : hs_blocked (h_run 0 [HFinish true]) = 1%nat.
Proof. exact unbuffered_channel_leaks. Qed.
Print Assumptions C19_unbuffered_channel_leaks.

(* the same hand-off, for every buffer size and every interleaving: exactly one finishing attempt wins the
   compare-and-swap on resultSent (and sends) when some attempt has a result to hand on, none otherwise; so at most one
   value ever travels through the channel and no second sender can be left waiting behind the first *)
Theorem C19_hedge_one_winner : forall cap tr, h_wins (h_init cap) tr = (if existsb wants tr then 1 else 0)%nat.
Proof. exact hedge_one_winner. Qed.
Print Assumptions C19_hedge_one_winner.

Theorem C19_hedge_sent_iff_winner : forall cap tr, hs_sent (h_run cap tr) = existsb wants tr.
Proof. exact hedge_sent_iff_winner. Qed.
Print Assumptions C19_hedge_sent_iff_winner.

(* resultCount counts every finished attempt exactly once (no attempt goroutine ends uncounted or is counted twice) *)
Theorem C19_hedge_count_exact : forall cap tr, hs_count (h_run cap tr) = List.length (filter is_finish tr).
Proof. exact hedge_count_exact. Qed.
Print Assumptions C19_hedge_count_exact.

(* with the buffer of one, the channel holds at most the winner's result and nothing before somebody has won *)
Theorem C19_hedge_channel_bound : forall cap tr, (1 <= cap)%nat ->
  (hs_chan (h_run cap tr) <= 1)%nat /\ (hs_sent (h_run cap tr) = false -> hs_chan (h_run cap tr) = 0%nat).
Proof. exact hedge_channel_bound. Qed.
Print Assumptions C19_hedge_channel_bound.

Example C19_one_winner_nonvacuous :
  h_wins (h_init 1) [HFinish false; HFinish true; HRecv; HFinish true] = 1%nat /\
  hs_count (h_run 1 [HFinish false; HFinish true; HRecv; HFinish true]) = 3%nat.
Proof. exact one_winner_nonvacuous. Qed.

(* obligation discharged on every run: every go statement, timer, AfterFunc and derived context found in the
   library's sources of this run is one of the sites listed in Model/Ledger.v (each with its exit argument);
   evaluated by the kernel on the regenerated list (Corr/C18.v, CaseSites).  Non-vacuity: *)
Example C19_new_site_is_rejected : sites_known [("retrypolicy/retryexecutor.go", "Apply", "go")]%string = false.
Proof. reflexivity. Qed.
