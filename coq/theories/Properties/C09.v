(* Properties/C09.v — Hedge: bounded attempts, spaced by the delay, one winner, losers cancelled.
   [hedge_run] is the virtual-time mirror of hedgepolicy/hedgeexecutor.go (Model/Hedge.v). *)
From FS Require Import Model.Hedge Proofs.HedgeProofs Corr.C09.
From FS Require Import Model.Exec Proofs.ExecHedgeProofs Proofs.ExecHedgeWinner Proofs.ExecHedgeLosers Proofs.ExecWF Corr.C09x.

(* For every maxHedges, delay function, cancel conditions, assignment of durations/outcomes/cooperativeness
   to the attempts and cancellation instant of the caller's context: at most maxHedges+1 attempts are
   started; attempt k starts exactly at t0 + the first k hedge delays (never earlier); when a result is
   accepted its producer is a started attempt, every other started attempt is cancelled and the winner is not. *)
Theorem C09_bounded_spaced_one_winner : forall c atts ext t0, good c t0 (hedge_run c atts ext t0).
Proof. exact hedge_run_good. Qed.
Print Assumptions C09_bounded_spaced_one_winner.

(* the statement unfolded, for readers *)
Theorem C09_attempt_bound : forall c atts ext t0,
  (length (ho_starts (hedge_run c atts ext t0)) <= S (h_max c))%nat.
Proof. intros. apply (hedge_run_good c atts ext t0). Qed.
Print Assumptions C09_attempt_bound.

Theorem C09_spacing : forall c atts ext t0 i,
  (i < length (ho_starts (hedge_run c atts ext t0)))%nat ->
  nth i (ho_starts (hedge_run c atts ext t0)) 0 = sched c t0 i.
Proof. intros c atts ext t0. apply (hedge_run_good c atts ext t0). Qed.
Print Assumptions C09_spacing.

(* a result matching the cancel conditions is returned as soon as it is produced; otherwise the
   result is delivered only when all maxHedges+1 attempts have finished: kernel-evaluated instances
   (the general statement is carried by [settle]'s definition and the correspondence) *)
Example C09_cancel_match_returns_immediately :
  let c := {| h_max := 2; h_delays := [1000]; h_cancel := build_hedge_cancel [AbortOnResult 7]; h_fixed := true |} in
  let atts := [ {| a_dur := 5000; a_out := (1, None); a_coop := true |}; {| a_dur := 700; a_out := (7, None); a_coop := true |};
                {| a_dur := 9000; a_out := (2, None); a_coop := true |} ] in
  let o := hedge_run c atts None 0 in
  ho_out o = (7, None) /\ ho_end o = 1700 /\ ho_starts o = [0; 1000] /\ ho_cancelled o = [true; false].
Proof. vm_compute. auto. Qed.

Example C09_no_match_waits_for_all :
  let c := {| h_max := 2; h_delays := [1000]; h_cancel := build_hedge_cancel [AbortOnResult 7]; h_fixed := true |} in
  let atts := [ {| a_dur := 5000; a_out := (1, None); a_coop := false |}; {| a_dur := 700; a_out := (3, None); a_coop := false |};
                {| a_dur := 9000; a_out := (2, None); a_coop := false |} ] in
  let o := hedge_run c atts None 0 in
  ho_out o = (2, None) /\ ho_end o = 11000 /\ ho_starts o = [0; 1000; 2000] /\ ho_cancelled o = [true; true; false].
Proof. vm_compute. auto. Qed.

(* Finding F9 (repaired by a fix: commit): with the loop as it was, a cancelled hedge waited out the hedge delay *)
Theorem C09_waited_out_delay_before_fix :
  let atts := [ {| a_dur := 7200000000000; a_out := (0, None); a_coop := true |}; {| a_dur := 5; a_out := (1, None); a_coop := true |} ] in
  let mk f := {| h_max := 1; h_delays := [3600000000000]; h_cancel := build_hedge_cancel [AbortOnResult 42]; h_fixed := f |} in
  ho_end (hedge_run (mk false) atts (Some (1000000000, ECtxCanceled)) 0) = 3600000000000 /\
  ho_end (hedge_run (mk true) atts (Some (1000000000, ECtxCanceled)) 0) = 1000000000.
Proof. vm_compute. auto. Qed.
Print Assumptions C09_waited_out_delay_before_fix.

(* ---- placement inside other policies: the hedge layer of Model/Exec.v (hedge policy directly around the function, ANY
   enclosing stack, script, pending timeouts / cancellations and attempts of earlier runs still in the background) ---- *)

(* one hedged run starts at most maxHedges hedges (the Hedges counter, which every observer reads, grows by at most that) *)
Theorem C09_in_stack_hedges_bounded : forall pos total cfg c w,
  w_hedges (snd (hedge_layer pos total cfg c w)) <= w_hedges w + Z.of_nat (hg_max cfg).
Proof. exact hedge_layer_hedges_bound. Qed.
Print Assumptions C09_in_stack_hedges_bounded.

(* at most maxHedges + 1 attempts are started by one run ... *)
Theorem C09_in_stack_attempts_bounded : forall cfg pos total fuel c started w,
  (length (snd (hedge_loop fuel cfg pos total c 0 started w)) <= S (hg_max cfg))%nat.
Proof. intros. pose proof (hedge_loop_attempts_bound cfg pos total fuel c 0 started w ltac:(lia)). lia. Qed.
Print Assumptions C09_in_stack_attempts_bounded.

(* ... and attempt i of the run is started no earlier than i hedge delays after the run began *)
Theorem C09_in_stack_spacing : forall cfg pos total, 0 <= hg_delay cfg ->
  forall fuel c started w i t,
  nth_error (snd (hedge_loop fuel cfg pos total c 0 started w)) i = Some t -> w_now w + Z.of_nat i * hg_delay cfg <= t.
Proof. intros cfg pos total Hd fuel c started w. exact (hedge_loop_spacing cfg pos total Hd fuel c 0 started w). Qed.
Print Assumptions C09_in_stack_spacing.

(* the caller of a hedged run -- whatever policy sits around it -- receives a result actually produced by one of the
   attempts: unless the run is cancelled from outside (then it reports that cancellation) or is schedule-dependent, the
   result handed on is the outcome of a function return recorded during this run ([pre] is what the run added to the
   trace), and that outcome matches the cancel conditions or was taken only after maxHedges+1 returns *)
Theorem C09_in_stack_result_produced_by_an_attempt : forall pos total cfg c w,
  let r := fst (hedge_layer pos total cfg c w) in
  let w' := snd (hedge_layer pos total cfg c w) in
  w_oof w' = true
  \/ is_canceled w' c = Some r
  \/ exists pre o q, keys w' = pre ++ keys w /\ r = all_true o /\ In (KFnEnd, q, o) pre
       /\ (is_abortable (hg_cancel cfg) o = true \/ (S (hg_max cfg) <= cntE pre)%nat).
Proof. exact hedge_layer_winner. Qed.
Print Assumptions C09_in_stack_result_produced_by_an_attempt.

(* at the moment the hedged run hands on an accepted result, every other attempt it started has been cancelled and the
   winning attempt has not: unless the run is schedule-dependent or cancelled from outside, exactly one of the execution
   copies the run created ([more]: copy and cancel scope of every attempt, in starting order) has a live context.
   The premises say the world is well formed: the caller's scope exists, the execution's copy and the scopes of its chain
   exist, attempts of earlier runs carry earlier run numbers; the next theorem derives them from the invariant [Wf] *)
Theorem C09_in_stack_losers_cancelled_winner_not : forall pos total cfg c w,
  (1 <= length (w_scopes w))%nat -> (c < length (w_copies w))%nat ->
  (forall s, In s (cp_chain (get_copy w c)) -> (s < length (w_scopes w))%nat) ->
  (forall b, In b (w_bg w) -> (bg_grp b <= hs_grp (w_hs w))%nat) ->
  let w' := snd (hedge_layer pos total cfg c w) in
  w_oof w' = true
  \/ is_canceled w' c <> None
  \/ exists (more : list (nat * nat)) idx cw sw, nth_error more idx = Some (cw, sw)
       /\ copy_err w' cw = None
       /\ forall j c' s', nth_error more j = Some (c', s') -> j <> idx -> copy_err w' c' <> None.
Proof. exact hedge_layer_one_left. Qed.
Print Assumptions C09_in_stack_losers_cancelled_winner_not.

(* the same from well-formedness alone: [Wf] (Proofs/ExecWF.v) is established by [fresh_world] and preserved by every layer
   of every stack -- each layer hands a well-formed world and an existing execution copy to the layer inside it, the hedge
   layer being the innermost *)
Theorem C09_in_stack_losers_cancelled_winner_not_wf : forall pos total cfg c w, okc c w -> Wf w ->
  let w' := snd (hedge_layer pos total cfg c w) in
  w_oof w' = true
  \/ is_canceled w' c <> None
  \/ exists (more : list (nat * nat)) idx cw sw, nth_error more idx = Some (cw, sw)
       /\ copy_err w' cw = None
       /\ forall j c' s', nth_error more j = Some (c', s') -> j <> idx -> copy_err w' c' <> None.
Proof. exact hedge_layer_one_left_wf. Qed.
Print Assumptions C09_in_stack_losers_cancelled_winner_not_wf.

Theorem C09_fresh_world_well_formed : forall now ext key b l k c script,
  Wf (fresh_world now ext key b l k c script) /\ okc 0 (fresh_world now ext key b l k c script).
Proof. exact fresh_world_Wf. Qed.
Print Assumptions C09_fresh_world_well_formed.

Theorem C09_every_layer_preserves_well_formedness : forall fuel stack pos total c w, okc c w -> Wf w ->
  Wf (snd (compose fuel pos stack total c w)) /\ (length (w_copies w) <= length (w_copies (snd (compose fuel pos stack total c w))))%nat.
Proof. intros fuel stack pos total c w Hc H. exact (compose_pres fuel stack pos total c w Hc H). Qed.
Print Assumptions C09_every_layer_preserves_well_formedness.

Example C09_in_stack_premises_hold_for_a_fresh_execution :
  let w := fresh_world 0 None CKNone [] [] [] [] [] in
  (1 <= length (w_scopes w))%nat /\ (0 < length (w_copies w))%nat
  /\ (forall s, In s (cp_chain (get_copy w 0)) -> (s < length (w_scopes w))%nat)
  /\ (forall b, In b (w_bg w) -> (bg_grp b <= hs_grp (w_hs w))%nat).
Proof. cbn. split; [lia|]. split; [lia|]. split; [intros s [<-|[]]; lia|intros b []]. Qed.

(* premises are satisfiable: retry around a hedge, first attempt slow, the hedge wins *)
Example C09_in_stack_example :
  let hc := {| hg_max := 1; hg_delay := 1000; hg_cancel := build_hedge_cancel [] |} in
  let script := [ {| fs_out := (1, None); fs_dur := 5000; fs_coop := None; fs_lag := 0 |};
                  {| fs_out := (2, None); fs_dur := 700; fs_coop := None; fs_lag := 0 |} ] in
  let w := fresh_world 0 None CKNone [] [] [] [] script in
  let '(r, w1, ts) := hedge_loop 3 hc 0 1 0 0 [] w in
  ts = [0; 1000] /\ w_hedges w1 = 1 /\ w_attempts w1 = 2
  (* the run is neither schedule-dependent nor cancelled, and hands on the hedge's result *)
  /\ w_oof w1 = false /\ is_canceled w1 0 = None /\ pr_res r = 2.
Proof. vm_compute. auto 10. Qed.
