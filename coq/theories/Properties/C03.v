(* Properties/C03.v — Circuit breaker follows its documented three-state machine.
   Nothing but statements, each closed by [exact] and followed by Print Assumptions.
   [cb_run] is the Gallina mirror of the circuitbreaker package (bit ring, time buckets, float64
   rates, states, transitions, builder); [spec_brun] is the same three-state machine over the
   documented windows (a plain log of the results recorded in the current state). *)
From FS Require Import Spec.BreakerSpec Proofs.BreakerProofs Proofs.BreakerTimedProofs Corr.C03.

(* 1. EVERY configuration in the guard (count, ratio, time-windowed count and time-windowed rate failure thresholds,
      with or without success threshold / ratio, fixed delay or delay function) and every history of records, permit
      requests, manual transitions and clock advances (instants non-decreasing): state, admission decisions, metrics,
      remaining delay and events of the code's machine -- bit ring, ten time buckets with running summaries -- are
      those of the documented machine over the documented windows ("the last N results"; "the results recorded in
      the last ten time slices counted from the most recent record"). *)
Theorem C03_breaker_refines_documented_windows : forall c h,
  bcfg_ok c = true -> bhist_ok 0 h = true -> cb_run c h = spec_brun c h.
Proof. exact breaker_refines_windows. Qed.
Print Assumptions C03_breaker_refines_documented_windows.

(* 1b. (the count-based half, as first proved) *)
Theorem C03_counting_breaker_refines_windows : forall c h,
  bcfg_ok c = true -> b_fperiod c = 0 -> bhist_ok 0 h = true -> cb_run c h = spec_brun c h.
Proof. exact counting_breaker_refines_windows. Qed.
Print Assumptions C03_counting_breaker_refines_windows.

(* 2. Time-based windows: the ten buckets relative to the head slice hold exactly the results of their slices, and the
      running summary the thresholds read is the count over the documented window (the invariant behind 1.) ... *)
Theorem C03_timed_buckets_are_the_window : forall nanos t ts log now v,
  Rtimed nanos t ts log -> t <= now -> Rtimed nanos now (ts_record ts now v) ((now, v) :: log).
Proof. exact Rtimed_record. Qed.
Print Assumptions C03_timed_buckets_are_the_window.

Theorem C03_timed_summary_is_bucket_sum : forall t now v,
  ts_consistent t -> ts_consistent (ts_record t now v).
Proof. exact timed_stats_summary_is_bucket_sum. Qed.
Print Assumptions C03_timed_summary_is_bucket_sum.

(* ... and the documented window itself: a result at least ten slices (the period) older than
   the newest never counts, one less than nine slices older always does. *)
Theorem C03_timed_window_documented : forall nanos tnew v log t b,
  1 <= nanos -> t <= tnew ->
  let a := {| a_kind := WTimed nanos; a_log := (tnew, v) :: log |} in
  In (t, b) ((tnew, v) :: log) ->
  (10 * nanos <= tnew - t -> ~ In (t, b) (a_window a)) /\ (tnew - t < 9 * nanos -> In (t, b) (a_window a)).
Proof. exact timed_window_documented. Qed.
Print Assumptions C03_timed_window_documented.

(* 3. Open for exactly the delay; the first request at or after it half-opens and takes a trial permit. *)
Theorem C03_open_for_exactly_delay : forall S (I : stats_impl S) c a st d now,
  1 <= halfopen_capacity c ->
  (now - st < d ->
     try_acquire I c (Open a st d) now = (false, Open a st d, [])
     /\ remaining_delay (Open a st d) now = d - (now - st))
  /\ (d <= now - st ->
     fst (fst (try_acquire I c (Open a st d) now)) = true
     /\ snd (fst (try_acquire I c (Open a st d) now)) = HalfOpen (si_new_half I c) (halfopen_capacity c - 1)
     /\ remaining_delay (Open a st d) now = 0).
Proof. exact @open_for_exactly_delay. Qed.
Print Assumptions C03_open_for_exactly_delay.

(* 4. A closed breaker opens exactly when the configured threshold over its window is met. *)
Theorem C03_closed_opens_iff : forall S (I : stats_impl S) c st now er,
  state_code (fst (check_threshold I c (Closed st) now er)) = 1 <->
  (b_fexec c <= si_exec I st /\
   ((b_frate c <> 0 /\ b_frate c <= frate I st) \/ (b_frate c = 0 /\ b_fthr c <= si_fail I st))).
Proof. exact @closed_opens_iff. Qed.
Print Assumptions C03_closed_opens_iff.

(* 5. Half-open decides within the trial capacity (count thresholds). *)
Theorem C03_half_open_decides_within_capacity : forall c a p now er,
  bcfg_ok c = true -> b_frate c = 0 -> (b_fexec c = 0 \/ b_fexec c = b_fcap c) ->
  (b_sthr c = 0 -> b_scap c = 0) ->
  a_kind a = WCount (halfopen_capacity c) ->
  Z.of_nat (length (a_log a)) >= halfopen_capacity c ->
  state_code (fst (check_threshold abs_impl c (HalfOpen a p) now er)) <> 2.
Proof. exact half_open_decides_within_capacity. Qed.
Print Assumptions C03_half_open_decides_within_capacity.

(* 5b. Rate thresholds: failure rate + success rate >= 100 for every window of up to 256 results
       (kernel-evaluated sweep, bound stated), so either failureRate >= r or successRate > 100 - r. *)
Theorem C03_rate_complement_upto_256 : forall f n,
  1 <= n <= 256 -> 0 <= f <= n -> 100 <= rate f n + rate (n - f) n.
Proof. exact rate_complement. Qed.
Print Assumptions C03_rate_complement_upto_256.

(* 6. Events: over any history, for any stats implementation, the emitted events form one
      connected path from the initial state; old <> new; the listener matching the new state
      fires first, then the generic one, with the same (old state's) metrics. *)
Theorem C03_history_events_form_path : forall S (I : stats_impl S) c h s,
  events_path (state_code s) (flat_map ob_events (brun I c s h)) = Some (state_code (bfinal I c s h)).
Proof. exact @history_events_form_path. Qed.
Print Assumptions C03_history_events_form_path.

(* 7. Used by the correspondence: a trace equal to the model's equals the documented machine's. *)
Theorem C03_checker_sound : forall id calls h obs,
  agrees cb_run (CaseHist id calls h obs) = agrees spec_brun (CaseHist id calls h obs).
Proof.
  intros id calls h obs. cbn [agrees]. unfold hist_guard.
  destruct (bcfg_ok (build_bcfg calls)) eqn:E1; [|reflexivity].
  destruct (bhist_ok 0 h) eqn:E2; [|reflexivity]. cbn [andb].
  rewrite (breaker_refines_windows _ _ E1 E2). reflexivity.
Qed.
Print Assumptions C03_checker_sound.

Example C03_guard_inhabited :
  let c := build_bcfg [WithFailureThresholdRatio 2 3; WithSuccessThreshold 2; WithDelay 10] in
  let h := [(5, BRecordFailure); (6, BRecordSuccess); (7, BRecordFailure); (8, BTryAcquire); (17, BTryAcquire);
            (18, BRecordSuccess); (19, BRecordSuccess)] in
  bcfg_ok c = true /\ bhist_ok 0 h = true /\ map ob_state (cb_run c h) = [0; 0; 1; 1; 2; 2; 0].
Proof. vm_compute. auto. Qed.

Example C03_guard_inhabited_timed :
  let c := build_bcfg [WithFailureRateThreshold 50 2 1000; WithDelay 10] in
  let h := [(5, BRecordFailure); (150, BRecordSuccess); (1100, BRecordFailure); (1200, BRecordFailure); (1210, BTryAcquire)] in
  bcfg_ok c = true /\ bhist_ok 0 h = true /\ map ob_state (cb_run c h) = map ob_state (spec_brun c h)
  /\ map ob_state (cb_run c h) = [0; 1; 1; 1; 2].
Proof. vm_compute. auto. Qed.
