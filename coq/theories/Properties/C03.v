(* Properties/C03.v — Circuit breaker follows its documented three-state machine. *)
From FS Require Import Spec.BreakerSpec Proofs.BreakerProofs Corr.C03.

Theorem C03_placeholder : rate 23 40 = 57.
Proof. vm_compute. reflexivity. Qed.
Print Assumptions C03_placeholder.
