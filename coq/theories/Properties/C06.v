(* Properties/C06.v — Bulkhead never exceeds its concurrency limit and never loses permits. *)
From FS Require Import Model.Bulkhead Proofs.BulkheadProofs Model.Exec Proofs.ExecProofs Corr.C06.

(* every interleaving (any length, any number of executions and standalone callers, any timing of context
   cancellations and max-wait timers): executions holding a permit + standalone holders never exceed
   maxConcurrency, and the channel occupancy is exactly that number *)
Theorem C06_bulkhead_never_exceeds : forall cap mw now n tr, 0 <= cap ->
  let k := krun (kinit cap mw now n) tr in holding k + k_ext k <= cap /\ k_held k = holding k + k_ext k.
Proof. exact bulkhead_never_exceeds. Qed.
Print Assumptions C06_bulkhead_never_exceeds.

(* no permit is ever lost: once nobody holds one, all maxConcurrency permits are available again *)
Theorem C06_all_permits_back : forall cap mw now n tr, 0 <= cap ->
  let k := krun (kinit cap mw now n) tr in holding k = 0 -> k_ext k = 0 -> k_held k = 0.
Proof. exact all_permits_back. Qed.
Print Assumptions C06_all_permits_back.

(* a free permit is not lost to the timer race: phase 1 takes it *)
Theorem C06_free_permit_is_taken : forall k i, kget k i = KIdle -> k_held k < k_cap k -> kget (kstep_do k (KEnter i)) i = KHolding.
Proof. exact free_permit_is_taken. Qed.
Print Assumptions C06_free_permit_is_taken.

(* refused and cancelled executions never return a permit they did not get *)
Theorem C06_only_holders_release : forall k i, kget k i <> KHolding -> kstep_do k (KFinish i) = k.
Proof. exact only_holders_release. Qed.
Print Assumptions C06_only_holders_release.

(* the executor side (Model/Exec.v): whatever the inner layer does - succeed, fail, be cancelled, time out -
   the bulkhead layer leaves the permit count as it found it: an admitted execution returns its permit exactly once *)
Theorem C06_layer_returns_its_permit_on_every_path : forall pos inst mw (inner : layer) c w,
  (inst < length (w_bulkheads w))%nat ->
  (forall c' w', (inst < length (w_bulkheads w'))%nat ->
     held_of (snd (inner c' w')) inst = held_of w' inst /\ (inst < length (w_bulkheads (snd (inner c' w'))))%nat) ->
  held_of (snd (bulkhead_layer pos inst mw inner c w)) inst = held_of w inst.
Proof. exact bulkhead_layer_balanced. Qed.
Print Assumptions C06_layer_returns_its_permit_on_every_path.
