(* Properties/C07.v — Timeout outcome is exclusive and consistent, and never early. *)
From FS Require Import Model.Exec Model.TimeoutRace Proofs.ExecProofs Proofs.TimeoutRaceProofs Corr.C07.

(* the compare-and-swap protocol between the timer callback and the caller (Model/TimeoutRace.v):
   EVERY interleaving of the atomic steps, of any length, that reaches quiescence ends either with the
   inner result, zero listener calls and no cancellation, or with the timeout result, exactly one
   listener call and the cancellation — never a mixture *)
Theorem C07_timeout_exclusive : forall blocking tr,
  quiescent (run (init blocking) tr) = true -> exclusive (run (init blocking) tr) = true.
Proof. exact timeout_exclusive. Qed.
Print Assumptions C07_timeout_exclusive.

(* a function that only returns on cancellation always ends in ErrExceeded *)
Theorem C07_blocks_until_cancel_always_exceeds : forall tr,
  s_m (run (init true) tr) = MDone -> s_ret (run (init true) tr) = CTimeout.
Proof. exact blocks_until_cancel_always_exceeds. Qed.
Print Assumptions C07_blocks_until_cancel_always_exceeds.

(* timed level (Model/Exec.v), any inner layer: the Timeout returns either the inner result (failure
   for the Timeout only if it is ErrExceeded) or ErrExceeded when its own timer won *)
Theorem C07_timeout_layer_outcome : forall pos limit (inner : layer) c w,
  let s := length (w_scopes w) in
  let res := timeout_layer pos limit inner c w in
  (sc_fired (get_scope (snd res) s) = true /\ fst res = with_failure (failure_result ETimeout))
  \/ (sc_fired (get_scope (snd res) s) = false /\
      exists r, pr_out (fst res) = pr_out r /\ (fst res = with_failure r \/ fst res = with_done r true true)).
Proof. exact timeout_layer_outcome. Qed.
Print Assumptions C07_timeout_layer_outcome.

(* never early: a timer callback is selected only with its own pending deadline, and runs on a clock that has reached it *)
Theorem C07_timeout_fires_not_early : forall w t s, next_timer w = Some (t, Some s) ->
  sc_deadline (get_scope w s) = Some t /\ t <= w_now (set_now w (Z.max (w_now w) t)).
Proof. exact timeout_fires_not_early. Qed.
Print Assumptions C07_timeout_fires_not_early.

(* the limit applies afresh to every application (every attempt of an enclosing retry) *)
Theorem C07_limit_afresh_per_application : forall pos limit (inner : layer) c w,
  sc_deadline (get_scope (timeout_entry_world pos limit c w) (length (w_scopes w))) = Some (w_now w + limit)
  /\ snd (timeout_layer pos limit inner c w) =
      let w3 := snd (inner (length (w_copies w)) (timeout_entry_world pos limit c w)) in
      set_scopes w3 (upd (length (w_scopes w)) (fun sc => {| sc_deadline := None; sc_fired := sc_fired sc; sc_done := sc_done sc;
                                              sc_copy := sc_copy sc; sc_pos := sc_pos sc |}) (w_scopes w3)) (w_seq w3) (w_ext w3).
Proof. exact timeout_deadline_is_entry_plus_limit. Qed.
Print Assumptions C07_limit_afresh_per_application.
