(* Properties/C13.v — Retry delays stay within their configured envelope.
   [get_delay] mirrors retryexecutor.go getDelay with float32/float64 arithmetic computed exactly. *)
From FS Require Import Model.Delay Proofs.DelayProofs Corr.C13.

Theorem C13_delay_nonneg : forall c last retries elapsed computed d1 d2 d3,
  0 <= fst (get_delay c last retries elapsed computed d1 d2 d3).
Proof. exact delay_nonneg. Qed.
Print Assumptions C13_delay_nonneg.

Theorem C13_delay_within_max_duration : forall c last retries elapsed computed d1 d2 d3,
  d_max_duration c <> 0 ->
  fst (get_delay c last retries elapsed computed d1 d2 d3) <= Z.max 0 (d_max_duration c - elapsed).
Proof. exact delay_within_max_duration. Qed.
Print Assumptions C13_delay_within_max_duration.

Theorem C13_fixed_delay_exact : forall c last retries elapsed d1 d2 d3,
  d_delay c <> 0 -> 0 <= d_delay c -> d_max_delay c = 0 -> d_jitter c = 0 -> fst (d_jitter_factor c) = 0 -> d_max_duration c = 0 ->
  get_delay c last retries elapsed (-1) d1 d2 d3 = (d_delay c, d_delay c).
Proof. exact fixed_delay_exact. Qed.
Print Assumptions C13_fixed_delay_exact.

Theorem C13_delay_func_value_used : forall c last retries elapsed v d1 d2 d3,
  v <> -1 -> d_jitter c = 0 -> fst (d_jitter_factor c) = 0 -> d_max_duration c = 0 ->
  get_delay c last retries elapsed v d1 d2 d3 = (Z.max 0 v, last).
Proof. exact delay_func_value_used. Qed.
Print Assumptions C13_delay_func_value_used.

Theorem C13_backoff_le_max_and_is_scaled_min : forall c last retries draw,
  d_delay c <> 0 -> last <> 0 -> 1 <= retries -> d_max_delay c <> 0 ->
  fst (fixed_or_random c last retries draw) <= d_max_delay c
  /\ fst (fixed_or_random c last retries draw) = Z.min (to_int (fmul 24 (of_int 24 last) (d_factor c))) (d_max_delay c).
Proof. exact backoff_le_max. Qed.
Print Assumptions C13_backoff_le_max_and_is_scaled_min.

Theorem C13_backoff_sequence : forall c k,
  d_delay c <> 0 -> d_max_delay c <> 0 -> backoff_seq c k <> 0 ->
  backoff_seq c (S k) = Z.min (to_int (fmul 24 (of_int 24 (backoff_seq c k)) (d_factor c))) (d_max_delay c).
Proof. exact backoff_sequence. Qed.
Print Assumptions C13_backoff_sequence.

Theorem C13_jitter_does_not_accumulate : forall c last retries elapsed computed d1 d2 d3 e1 e2 e3,
  d_delay c <> 0 ->
  snd (get_delay c last retries elapsed computed d1 d2 d3) = snd (get_delay c last retries elapsed computed e1 e2 e3).
Proof. exact jitter_does_not_accumulate. Qed.
Print Assumptions C13_jitter_does_not_accumulate.

(* Partial: "backoff equals min(delay*factor^k, maxDelay)" and "never decreases" hold only up to the float32
   rounding of Duration(float32(lastDelay) * delayFactor) (e.g. delay 16777217ns with factor 1 gives 16777216ns);
   the analytic rounding bounds and the jitter envelopes |jittered - base| <= jitter, <= jitterFactor*base + base*2^-21 + 2
   are not proved here: they are evaluated by the checker on every observed delay of every run (a test, not a theorem).
   "The next attempt never starts before the scheduled delay has elapsed" is Model/Exec.v's retry loop
   (wait d between RetryScheduled and the next attempt) and is compared instant by instant (C02, C16). *)
