(* Properties/C13.v — Retry delays stay within their configured envelope.
   [get_delay] mirrors retryexecutor.go getDelay with float32/float64 arithmetic computed exactly. *)
From FS Require Import Model.Delay Proofs.DelayProofs Proofs.FloatProofs Corr.C13.

Theorem C13_delay_nonneg : forall c last retries elapsed computed d1 d2 d3,
  0 <= fst (get_delay c last retries elapsed computed d1 d2 d3).
Proof. exact delay_nonneg. Qed.
Print Assumptions C13_delay_nonneg.

Theorem C13_delay_within_max_duration : forall c last retries elapsed computed d1 d2 d3,
  d_max_duration c <> 0 ->
  fst (get_delay c last retries elapsed computed d1 d2 d3) <= Z.max 0 (d_max_duration c - elapsed).
Proof. exact delay_within_max_duration. Qed.
Print Assumptions C13_delay_within_max_duration.

Theorem C13_fixed_delay_exact : forall c last retries elapsed d1 d2 d3,
  d_delay c <> 0 -> 0 <= d_delay c -> d_max_delay c = 0 -> d_jitter c = 0 -> fst (d_jitter_factor c) = 0 -> d_max_duration c = 0 ->
  get_delay c last retries elapsed (-1) d1 d2 d3 = (d_delay c, d_delay c).
Proof. exact fixed_delay_exact. Qed.
Print Assumptions C13_fixed_delay_exact.

Theorem C13_delay_func_value_used : forall c last retries elapsed v d1 d2 d3,
  v <> -1 -> d_jitter c = 0 -> fst (d_jitter_factor c) = 0 -> d_max_duration c = 0 ->
  get_delay c last retries elapsed v d1 d2 d3 = (Z.max 0 v, last).
Proof. exact delay_func_value_used. Qed.
Print Assumptions C13_delay_func_value_used.

Theorem C13_backoff_le_max_and_is_scaled_min : forall c last retries draw,
  d_delay c <> 0 -> last <> 0 -> 1 <= retries -> d_max_delay c <> 0 ->
  fst (fixed_or_random c last retries draw) <= d_max_delay c
  /\ fst (fixed_or_random c last retries draw) = Z.min (to_int (fmul 24 (of_int 24 last) (d_factor c))) (d_max_delay c).
Proof. exact backoff_le_max. Qed.
Print Assumptions C13_backoff_le_max_and_is_scaled_min.

Theorem C13_backoff_sequence : forall c k,
  d_delay c <> 0 -> d_max_delay c <> 0 -> backoff_seq c k <> 0 ->
  backoff_seq c (S k) = Z.min (to_int (fmul 24 (of_int 24 (backoff_seq c k)) (d_factor c))) (d_max_delay c).
Proof. exact backoff_sequence. Qed.
Print Assumptions C13_backoff_sequence.

Theorem C13_jitter_does_not_accumulate : forall c last retries elapsed computed d1 d2 d3 e1 e2 e3,
  d_delay c <> 0 ->
  snd (get_delay c last retries elapsed computed d1 d2 d3) = snd (get_delay c last retries elapsed computed e1 e2 e3).
Proof. exact jitter_does_not_accumulate. Qed.
Print Assumptions C13_jitter_does_not_accumulate.

(* ---- float arithmetic: IEEE-754 round-to-nearest-even never crosses a representable value ---- *)

(* |x| <= B, B with at most p significant bits (normalised mantissa mB, exponent -sB)  ->  |rnd x| <= B *)
Theorem C13_rounding_stays_within_representable_bound : forall p x mB sB,
  2 <= p -> wf x -> 2 ^ (p - 1) <= mB < 2 ^ p ->
  fle x (bval mB sB) -> fle (fneg (bval mB sB)) x ->
  fle (rnd p x) (bval mB sB) /\ fle (fneg (bval mB sB)) (rnd p x).
Proof. exact rnd_abs_le. Qed.
Print Assumptions C13_rounding_stays_within_representable_bound.

(* a jitter duration shifts the delay by at most that duration: util.RandomDelay in float64, every delay, every jitter
   below 2^53 ns (104 days), every draw in [0, 1) *)
Theorem C13_jitter_duration_envelope : forall delay jitter random,
  0 < jitter < 2 ^ 53 -> wf random -> 0 <= fst random < snd random ->
  delay - jitter <= random_delay delay jitter random <= delay + jitter.
Proof. exact jitter_envelope. Qed.
Print Assumptions C13_jitter_duration_envelope.

(* a random delay lies within [delayMin, delayMax]: util.RandomDelayInRange in float64, bounds below 2^53 ns, every draw *)
Theorem C13_random_range_envelope : forall dmin dmax random,
  0 < dmin -> dmin <= dmax -> dmax < 2 ^ 53 -> wf random -> 0 <= fst random < snd random ->
  dmin <= random_delay_in_range dmin dmax random <= dmax.
Proof. exact random_range_envelope. Qed.
Print Assumptions C13_random_range_envelope.

(* backoff does not decrease: one step Duration(float32(last) * factor) is at least [last] whenever [last] is exactly
   representable in float32 (at most 24 significant bits) and factor >= 1 *)
Theorem C13_backoff_step_not_below : forall mB sB last factor,
  2 ^ 23 <= mB < 2 ^ 24 -> wf factor -> snd factor <= fst factor ->
  fle (last, 1) (bval mB sB) -> fle (bval mB sB) (last, 1) ->
  last <= to_int (fmul 24 (of_int 24 last) factor).
Proof. exact backoff_step_not_below. Qed.
Print Assumptions C13_backoff_step_not_below.

(* "backoff equals delay*factor^k" up to float32 rounding, one step: for EVERY positive last delay and positive factor,
   |Duration(float32(last) * factor) - last*factor| <= last*factor / 2^22 + 1 ns *)
Theorem C13_backoff_step_equals_product_up_to_rounding : forall last fn fd,
  0 < last -> 0 < fn -> 0 < fd ->
  let step := to_int (fmul 24 (of_int 24 last) (fn, fd)) in
  2 ^ 22 * Z.abs (step * fd - last * fn) <= last * fn + 2 ^ 22 * fd.
Proof. exact backoff_step_accuracy. Qed.
Print Assumptions C13_backoff_step_equals_product_up_to_rounding.

(* a jitter FACTOR shifts the delay by at most jitterFactor * delay, up to float32 rounding: util.RandomDelayFactor in float32,
   every positive delay, every float32 jitter factor in (0, 1), every draw in [0, 1):
   |jittered - delay| <= jitterFactor * delay + delay / 2^20 + 1 ns *)
Theorem C13_jitter_factor_envelope : forall delay mJ sJ random,
  0 < delay -> 2 ^ 23 <= mJ < 2 ^ 24 -> fst (bval mJ sJ) < snd (bval mJ sJ) ->
  wf random -> 0 <= fst random < snd random ->
  let jf := bval mJ sJ in
  2 ^ 20 * snd jf * Z.abs (random_delay_factor delay jf random - delay)
  <= 2 ^ 20 * delay * fst jf + delay * snd jf + 2 ^ 20 * snd jf.
Proof. exact jitter_factor_envelope. Qed.
Print Assumptions C13_jitter_factor_envelope.

(* premises are satisfiable: 100 ms = 390625 * 2^8 ns has 19 significant bits *)
Example C13_100ms_is_representable :
  let mB := 390625 * 2 ^ 5 in let sB := -3 in
  2 ^ 23 <= mB < 2 ^ 24 /\ fle (100000000, 1) (bval mB sB) /\ fle (bval mB sB) (100000000, 1).
Proof. vm_compute. repeat split; discriminate. Qed.

(* "Backoff never
   decreases" holds exactly on float32-representable delays (theorem above) and otherwise up to the rounding bound of
   C13_backoff_step_equals_product_up_to_rounding (e.g. 16777217 ns with factor 1 gives 16777216 ns).
   "The next attempt never starts before the scheduled delay has elapsed" is Model/Exec.v's retry loop
   (wait d between RetryScheduled and the next attempt) and is compared instant by instant (C02, C16). *)
