(* Properties/C01.v — Policies compose as nested wrappers, in declaration order.
   [compose]/[execute] are the Gallina mirror of executor.go + policy/policyexecutor.go + every policy
   executor; each theorem is for an ARBITRARY inner layer, hence for every composition below it. *)
From FS Require Import Proofs.ExecFlagsProofs.
From FS Require Import Model.Exec Proofs.ExecProofs Proofs.ExecStats Corr.C01.

(* the executor's reverse loop is the right-nested application P1(P2(...Pn(fn))) in declaration order *)
Theorem C01_compose_is_right_nesting : forall fuel pos p rest total,
  compose fuel pos (p :: rest) total = apply_policy fuel pos total p (compose fuel (S pos) rest total).
Proof. exact compose_is_right_nesting. Qed.
Print Assumptions C01_compose_is_right_nesting.

(* the caller receives precisely the outermost layer's result; the completion verdict is its SuccessAll;
   one success-or-failure event and one done event, carrying that result, close the log *)
Theorem C01_caller_gets_outermost_result_and_verdict : forall fuel stack w,
  let '(r, w1) := compose fuel 0 stack (length stack) 0%nat w in
  fst (execute fuel stack w) = r /\
  exists e1 e2, w_trace (snd (execute fuel stack w)) = e2 :: e1 :: w_trace w1
    /\ e_kind e2 = KExecDone /\ e_kind e1 = (if pr_all r then KExecSuccess else KExecFailure)
    /\ e_out e1 = pr_out r /\ e_out e2 = pr_out r.
Proof. exact execute_outermost_and_verdict. Qed.
Print Assumptions C01_caller_gets_outermost_result_and_verdict.

(* the function (and everything inside) runs only when the enclosing policy admits the attempt:
   a rejecting breaker / rate limiter / full bulkhead / cache hit yields a result that does not
   depend on what it wraps *)
Theorem C01_breaker_rejection_skips_inner : forall pos inst (inner inner' : layer) c w,
  let '(cfg, s) := nth inst (w_breakers w) (bcfg_default, cb_init bcfg_default) in
  fst (fst (try_acquire conc_impl cfg s (w_now w))) = false ->
  breaker_layer pos inst inner c w = breaker_layer pos inst inner' c w
  /\ pr_err (fst (breaker_layer pos inst inner c w)) = Some EOpen.
Proof. exact breaker_rejection_skips_inner. Qed.
Print Assumptions C01_breaker_rejection_skips_inner.

Theorem C01_limiter_rejection_skips_inner : forall pos inst mw (inner inner' : layer) c w,
  let '(cfg, base, s) := nth inst (w_limiters w) (Smooth 1, 0, SSmooth 0) in
  fst (lim_acquire cfg s (w_now w - base) 1 mw) = -1 ->
  limiter_layer pos inst mw inner c w = limiter_layer pos inst mw inner' c w
  /\ pr_err (fst (limiter_layer pos inst mw inner c w)) = Some ERate.
Proof. exact limiter_rejection_skips_inner. Qed.
Print Assumptions C01_limiter_rejection_skips_inner.

Theorem C01_bulkhead_full_skips_inner : forall pos inst (inner inner' : layer) c w,
  let '(cap, held) := nth inst (w_bulkheads w) (0, 0) in
  cap <= held -> copy_err w c = None ->
  bulkhead_layer pos inst 0 inner c w = bulkhead_layer pos inst 0 inner' c w
  /\ pr_err (fst (bulkhead_layer pos inst 0 inner c w)) = Some EFull.
Proof. exact bulkhead_full_skips_inner. Qed.
Print Assumptions C01_bulkhead_full_skips_inner.

Theorem C01_cache_hit_skips_inner : forall pos inst cfg (inner : layer) c w v,
  cache_key w cfg <> 0 -> cache_get (nth inst (w_caches w) []) (cache_key w cfg) = Some v ->
  cache_layer pos inst cfg inner c w = (all_true (v, None), emit w KCacheHit pos (v, None) 0).
Proof. exact cache_hit_skips_inner. Qed.
Print Assumptions C01_cache_hit_skips_inner.

(* partial: the refinement of the flag algebra (Done/Success/SuccessAll) to flag-free per-policy
   documented behaviours (DESIGN.md 4.1 exec_refines_nesting) is not proved; the per-layer
   theorems of C02, C10, C11 and the correspondence on complete logs stand in for it. *)

(* "Each policy handles only what the policy inside it returned": between two layers only the result, the error and the
   SuccessAll verdict carry information.  Overwriting the Done and Success flags arbitrarily ([g] keeps result, error
   and SuccessAll) at EVERY layer boundary of ANY stack changes nothing: the same world (complete log of every listener
   and of the function, counters, policy instances, clock), the same returned result and error, the same verdict.
   Hence the number of invocations, the returned value and the verdict are determined by the nesting of
   (result, error, verdict) transformers alone. *)
Theorem C01_flags_do_not_leak_between_layers : forall g, (forall r, same_core (g r) r) ->
  forall fuel stack w,
  same_core (fst (execute_g g fuel stack w)) (fst (execute fuel stack w))
  /\ snd (execute_g g fuel stack w) = snd (execute fuel stack w).
Proof. exact execution_determined_by_result_error_verdict. Qed.
Print Assumptions C01_flags_do_not_leak_between_layers.

Theorem C01_every_layer_respects_inner_equivalence : forall fuel pos total p inner inner',
  layer_eqv inner inner' -> layer_eqv (apply_policy fuel pos total p inner) (apply_policy fuel pos total p inner').
Proof. exact apply_policy_eqv. Qed.
Print Assumptions C01_every_layer_respects_inner_equivalence.

(* a garbling that does change flags exists (the statement is not about the identity only) *)
Example C01_garbling_is_not_trivial :
  let g := fun r => {| pr_res := pr_res r; pr_err := pr_err r; pr_done := negb (pr_done r); pr_succ := negb (pr_succ r); pr_all := pr_all r |} in
  (forall r, same_core (g r) r) /\ g (failure_result EOpen) <> failure_result EOpen.
Proof. split; [intros r; repeat split|discriminate]. Qed.
