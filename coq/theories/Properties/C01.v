From FS Require Import Corr.C01.
Theorem C01_placeholder : True. Proof. exact I. Qed.
Print Assumptions C01_placeholder.
