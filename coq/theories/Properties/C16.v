(* Properties/C16.v — Events are emitted exactly once per occurrence and tell a consistent story. *)
From FS Require Import Model.Exec Proofs.ExecProofs Proofs.ExecStats Proofs.BreakerProofs Proofs.ExecRetryEvents Proofs.ExecCheckerProofs Proofs.ExecEventsProofs Spec.Verdict Proofs.ExecVerdictEvents Proofs.ExecExhaustion Corr.C16.

(* executor: one success-or-failure event matching SuccessAll, then one done event, both carrying the returned result *)
Theorem C16_completion_events : forall fuel stack w,
  let '(r, w1) := compose fuel 0 stack (length stack) 0%nat w in
  fst (execute fuel stack w) = r /\
  exists e1 e2, w_trace (snd (execute fuel stack w)) = e2 :: e1 :: w_trace w1
    /\ e_kind e2 = KExecDone /\ e_kind e1 = (if pr_all r then KExecSuccess else KExecFailure)
    /\ e_out e1 = pr_out r /\ e_out e2 = pr_out r.
Proof. exact execute_outermost_and_verdict. Qed.
Print Assumptions C16_completion_events.

(* every retry started is counted exactly once: in the complete log of any execution through any
   stack each event's Retries equals the number of OnRetry events so far (so OnRetry fires once
   per retry actually started), Hedges the number of OnHedge events so far (once per hedge started),
   Executions the number of function returns so far *)
Theorem C16_retry_events_counted_once : forall fuel stack now ext key b l k c script,
  trace_ok (w_trace (drain (snd (execute fuel stack (fresh_world now ext key b l k c script))))).
Proof. exact execution_statistics_exact. Qed.
Print Assumptions C16_retry_events_counted_once.

(* per retry policy (stack position), in the complete log of any execution through any stack: every OnRetry is preceded by
   its own OnRetryScheduled -- a decided retry may be cancelled before it starts (an unpaired OnRetryScheduled), but no
   retry starts without having been decided.  [st pos] runs the pairing automaton of position pos over the log. *)
Theorem C16_on_retry_follows_its_on_retry_scheduled : forall fuel stack now ext key b l k c script pos,
  st pos (w_trace (drain (snd (execute fuel stack (fresh_world now ext key b l k c script))))) <> None.
Proof. intros. apply retry_events_pair_up. Qed.
Print Assumptions C16_on_retry_follows_its_on_retry_scheduled.

(* used by the correspondence: the executable form of the pairing accepts every model log *)
Theorem C16_pairing_checker_accepts_model : forall fuel stack now ext key b l k c script pos,
  retry_pairs_ok pos false (rev (w_trace (drain (snd (execute fuel stack (fresh_world now ext key b l k c script)))))) = true.
Proof. intros. apply c16_pairing_checker_accepts_model. Qed.
Print Assumptions C16_pairing_checker_accepts_model.

(* fallback / cache events fire exactly in their situation (any inner layer) *)
Theorem C16_fallback_event_iff_applied : forall pos cfg (inner : layer) c w,
  let r := fst (inner c w) in let w1 := snd (inner c w) in
  is_failure (fb_fpol cfg) (pr_out r) = false ->
  fallback_layer pos cfg inner c w = (with_done r true true, ev_with_result w1 c KPolSuccess pos (with_done r true true)).
Proof. exact fallback_unhandled_passes_through. Qed.
Print Assumptions C16_fallback_event_iff_applied.

(* OnRateLimitExceeded fires exactly when the limiter refuses (any inner layer, any world): a granted permit -- waited for
   to the end or interrupted by a cancellation -- adds no event of this layer *)
Theorem C16_rate_limit_event_only_on_refusal : forall pos inst mw (inner : layer) c w,
  let '(cfg, base, s) := nth inst (w_limiters w) (Smooth 1, 0, SSmooth 0) in
  let '(wt, s') := lim_acquire cfg s (w_now w - base) 1 mw in
  let w1 := set_insts w (w_breakers w) (upd inst (fun p => (fst p, s')) (w_limiters w)) (w_bulkheads w) (w_caches w) in
  (wt = -1 -> limiter_layer pos inst mw inner c w = (failure_result ERate, stamp (emit w1 KRateExceeded pos (snapshot w1 c) 0) c))
  /\ (wt <> -1 ->
      snd (limiter_layer pos inst mw inner c w) =
      if fst (wait w1 wt (Some c)) then snd (wait w1 wt (Some c)) else snd (inner c (snd (wait w1 wt (Some c))))).
Proof. exact limiter_event_only_on_refusal. Qed.
Print Assumptions C16_rate_limit_event_only_on_refusal.

(* Finding F12 (repaired by a fix: commit): with the code as it was, a limiter wait interrupted by the cancellation of the
   execution returned Execution.LastError(), the PREVIOUS attempt's error; after a refused attempt that stale error is
   ErrExceeded and OnRateLimitExceeded fired although this attempt's permit had been granted.
   Retry(3 retries, 2048 ns) around Bursty(1 per 16384 ns, max wait 10304 ns), caller cancels at 7000 ns:
   refusals at 2048 and 4096 (events), the attempt at 6144 waits, and at 7000 the old code logged a third event. *)
Theorem C16_rate_limit_event_without_refusal_before_fix :
  let rc := {| r_fpol := build_fpolicy []; r_abort := []; r_max_retries := 3; r_max_duration := 0; r_return_last := false; r_delay := 2048; r_lsn_dur := 0 |} in
  let lim := (Bursty 1 16384, 0, lim_init (Bursty 1 16384)) in
  let script := [ {| fs_out := (0, Some (ESent 0)); fs_dur := 0; fs_coop := None; fs_lag := 0 |} ] in
  let w0 := fresh_world 0 (Some (7000, ECtxCanceled)) CKNone [] [lim] [] [] script in
  let events stale := map (fun e => e_time e)
       (filter (fun e => match e_kind e with KRateExceeded => true | _ => false end)
               (rev (w_trace (snd (fst (retry_loop 10 rc 0 (limiter_layer_gen stale 1 0 10304 (fn_layer 2)) 0%nat w0)))))) in
  events true = [2048; 4096; 7000] /\ events false = [2048; 4096].
Proof. vm_compute. auto. Qed.
Print Assumptions C16_rate_limit_event_without_refusal_before_fix.

(* OnFull fires exactly when the bulkhead refuses (any inner layer, any world): an execution that arrives cancelled, an
   admitted one, and one whose wait is interrupted by a cancellation add no event of this layer; a full bulkhead that
   does not wait, or whose wait runs to its end, reports ErrFull with exactly one OnFull *)
Theorem C16_full_event_only_on_refusal : forall pos inst mw (inner : layer) c w,
  let cap := fst (nth inst (w_bulkheads w) (0, 0)) in
  let held := snd (nth inst (w_bulkheads w) (0, 0)) in
  let setheld (w : world) (h : Z) :=
    set_insts w (w_breakers w) (w_limiters w) (upd inst (fun p => (fst p, h)) (w_bulkheads w)) (w_caches w) in
  (forall e, copy_err w c = Some e -> bulkhead_layer pos inst mw inner c w = (failure_result (cancel_error w c), w))
  /\ (copy_err w c = None -> held < cap ->
      kps (snd (bulkhead_layer pos inst mw inner c w)) = kps (snd (inner c (setheld w (held + 1)))))
  /\ (copy_err w c = None -> cap <= held -> mw = 0 ->
      fst (bulkhead_layer pos inst mw inner c w) = failure_result EFull
      /\ kps (snd (bulkhead_layer pos inst mw inner c w)) = (KFull, pos) :: kps w)
  /\ (copy_err w c = None -> cap <= held -> mw <> 0 ->
      let i := fst (wait w mw (Some c)) in let w1 := snd (wait w mw (Some c)) in
      (i = true -> kps (snd (bulkhead_layer pos inst mw inner c w)) = kps w1
                   /\ fst (bulkhead_layer pos inst mw inner c w)
                      = failure_result (cancel_error w1 c))
      /\ (i = false -> fst (bulkhead_layer pos inst mw inner c w) = failure_result EFull
                       /\ kps (snd (bulkhead_layer pos inst mw inner c w)) = (KFull, pos) :: kps w1)).
Proof. exact bulkhead_full_event_only_on_refusal. Qed.
Print Assumptions C16_full_event_only_on_refusal.

(* a retry policy's verdict on a failed attempt (any world, any ledger): OnFailure always; OnAbort exactly when the outcome
   matches an abort condition; OnRetriesExceeded exactly when the budget (max retries or max duration) is exhausted and
   the outcome is not an abort; either of them ends the policy's run (Done), and exhaustion is remembered in the ledger,
   after which the retry loop returns without consulting the policy again -- so neither fires twice in one run (stated over
   whole logs by C16_verdict_events_consistent below) *)
Theorem C16_abort_and_exceeded_events_in_their_situation : forall cfg pos c r w,
  let w0 := pause (ev_with_result w c KPolFailure pos r) (r_lsn_dur cfg) in    (* OnFailure logged, and its listener has returned *)
  let failed := rs_failed (get_rstate w pos) + 1 in
  let exceeded := (negb (r_max_retries cfg =? -1) && (r_max_retries cfg <? failed))
                  || (negb (r_max_duration cfg =? 0) && (r_max_duration cfg <? w_now w0 - w_start w0)) in
  let abortable := is_abortable (r_abort cfg) (pr_out r) in
  kps (snd (retry_on_failure cfg pos c r w)) =
    (if exceeded && negb abortable then [(KRetriesExceeded, pos)] else [])
    ++ (if abortable then [(KAbort, pos)] else []) ++ kps w0
  /\ (r_lsn_dur cfg <= 0 -> kps w0 = (KPolFailure, pos) :: kps w)
  /\ (abortable || exceeded = true -> pr_done (fst (retry_on_failure cfg pos c r w)) = true)
  /\ rs_exceeded (get_rstate (snd (retry_on_failure cfg pos c r w)) pos) = exceeded.
Proof. exact retry_failure_events. Qed.
Print Assumptions C16_abort_and_exceeded_events_in_their_situation.

(* OnTimeoutExceeded is logged by the timer callback, which is also what makes the Timeout report ErrExceeded
   (C07_layer_outcome: the layer returns ErrExceeded exactly when its scope is marked fired) *)
Theorem C16_timeout_event_iff_fired : forall w s, (s < length (w_scopes w))%nat ->
  kps (fire_timeout w s) = (KTimeoutExceeded, sc_pos (get_scope w s)) :: kps w
  /\ sc_fired (get_scope (fire_timeout w s) s) = true.
Proof. exact timeout_event_iff_fired_step. Qed.
Print Assumptions C16_timeout_event_iff_fired.

(* ... and over whole logs: in the complete log of any execution through any stack, at every stack position, the events
   satisfy the automaton of Spec/Verdict.v -- OnAbort and OnRetriesExceeded are each logged directly after an OnFailure
   of the same position, at most one of them, and nothing of that position but a new OnFailure / OnSuccess follows them
   (so neither fires twice in a run of the policy and no retry is scheduled after them); OnRetryScheduled directly follows
   an OnFailure; OnRetry follows its OnRetryScheduled *)
Theorem C16_verdict_events_consistent : forall fuel stack now ext key b l k c script pos,
  vst pos (drain (snd (execute fuel stack (fresh_world now ext key b l k c script)))) <> None.
Proof. exact verdict_events_consistent. Qed.
Print Assumptions C16_verdict_events_consistent.

(* used by the correspondence: the executable form (run over the log in the order it was written, with the entries of
   unregistered listeners left out) accepts every model log *)
Theorem C16_verdict_checker_accepts_model : forall fuel stack now ext key b l k c script lsn mask pos,
  vrun pos (map kp (filter (blsn_keeps mask) (filter (lsn_keeps lsn)
     (rev (w_trace (drain (snd (execute fuel stack (fresh_world now ext key b l k c script))))))))) <> None.
Proof. exact verdict_checker_accepts_model. Qed.
Print Assumptions C16_verdict_checker_accepts_model.

(* breaker state-change events form a connected path from the initial state, specific listener then generic *)
Theorem C16_breaker_events_form_path : forall S (I : stats_impl S) c h s,
  events_path (state_code s) (flat_map ob_events (brun I c s h)) = Some (state_code (bfinal I c s h)).
Proof. exact @history_events_form_path. Qed.
Print Assumptions C16_breaker_events_form_path.

(* exhaustion is final: in the complete log of any execution through any stack, at every position, once a retry policy has
   logged OnRetriesExceeded it logs nothing more -- no verdict, no OnAbort, no second OnRetriesExceeded, no retry scheduled or
   started -- however often the policies around it re-enter it ([xstk pos] runs the automaton of Spec/Verdict.v over the log) *)
Theorem C16_exhaustion_is_final : forall fuel stack now ext key b l k c script pos,
  xstk pos (kps (drain (snd (execute fuel stack (fresh_world now ext key b l k c script))))) <> None.
Proof. exact exhaustion_is_final. Qed.
Print Assumptions C16_exhaustion_is_final.

(* used by the correspondence: the executable form accepts every model log *)
Theorem C16_exhaustion_checker_accepts_model : forall fuel stack now ext key b l k c script lsn mask q o,
  q_stack q = stack ->
  x_events o = filter (blsn_keeps mask) (filter (lsn_keeps lsn)
     (rev (w_trace (drain (snd (execute fuel stack (fresh_world now ext key b l k c script))))))) ->
  exhaustion_ok q o = true.
Proof. exact exhaustion_checker_accepts_model. Qed.
Print Assumptions C16_exhaustion_checker_accepts_model.
