(* Properties/C16.v — Events are emitted exactly once per occurrence and tell a consistent story. *)
From FS Require Import Model.Exec Proofs.ExecProofs Proofs.ExecStats Proofs.BreakerProofs Corr.C16.

(* executor: one success-or-failure event matching SuccessAll, then one done event, both carrying the returned result *)
Theorem C16_completion_events : forall fuel stack w,
  let '(r, w1) := compose fuel 0 stack (length stack) 0%nat w in
  fst (execute fuel stack w) = r /\
  exists e1 e2, w_trace (snd (execute fuel stack w)) = e2 :: e1 :: w_trace w1
    /\ e_kind e2 = KExecDone /\ e_kind e1 = (if pr_all r then KExecSuccess else KExecFailure)
    /\ e_out e1 = pr_out r /\ e_out e2 = pr_out r.
Proof. exact execute_outermost_and_verdict. Qed.
Print Assumptions C16_completion_events.

(* every retry started is counted exactly once: in the complete log of any execution through any
   stack each event's Retries equals the number of OnRetry events so far (so OnRetry fires once
   per retry actually started), Hedges the number of OnHedge events so far (once per hedge started),
   Executions the number of function returns so far *)
Theorem C16_retry_events_counted_once : forall fuel stack now ext key b l k c script,
  trace_ok (w_trace (drain (snd (execute fuel stack (fresh_world now ext key b l k c script))))).
Proof. exact execution_statistics_exact. Qed.
Print Assumptions C16_retry_events_counted_once.

(* fallback / cache events fire exactly in their situation (any inner layer) *)
Theorem C16_fallback_event_iff_applied : forall pos cfg (inner : layer) c w,
  let r := fst (inner c w) in let w1 := snd (inner c w) in
  is_failure (fb_fpol cfg) (pr_out r) = false ->
  fallback_layer pos cfg inner c w = (with_done r true true, ev_with_result w1 c KPolSuccess pos (with_done r true true)).
Proof. exact fallback_unhandled_passes_through. Qed.
Print Assumptions C16_fallback_event_iff_applied.

(* breaker state-change events form a connected path from the initial state, specific listener then generic *)
Theorem C16_breaker_events_form_path : forall S (I : stats_impl S) c h s,
  events_path (state_code s) (flat_map ob_events (brun I c s h)) = Some (state_code (bfinal I c s h)).
Proof. exact @history_events_form_path. Qed.
Print Assumptions C16_breaker_events_form_path.
