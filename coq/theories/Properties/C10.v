(* Properties/C10.v — Fallback replaces exactly the failures it handles, once (any inner layer). *)
From FS Require Import Model.Exec Proofs.ExecProofs Corr.C10.

Theorem C10_unhandled_passes_through : forall pos cfg (inner : layer) c w,
  let r := fst (inner c w) in let w1 := snd (inner c w) in
  is_failure (fb_fpol cfg) (pr_out r) = false ->
  fallback_layer pos cfg inner c w = (with_done r true true, ev_with_result w1 c KPolSuccess pos (with_done r true true)).
Proof. exact fallback_unhandled_passes_through. Qed.
Print Assumptions C10_unhandled_passes_through.

(* [w2]: the world when the fallback is about to be applied -- after the policy's own failure listener has run, however long it
   took; [w3]: the world when the fallback function has returned, however long it took *)
Theorem C10_handled_failure_is_replaced_once : forall pos cfg (inner : layer) c w,
  let r := fst (inner c w) in let w1 := snd (inner c w) in
  let w2 := pause (ev_with_result w1 c KPolFailure pos (with_failure r)) (fb_lsn_dur cfg) in
  let w3 := pause w2 (fb_dur cfg) in
  is_failure (fb_fpol cfg) (pr_out r) = true -> is_canceled w2 c = None -> is_canceled w3 c = None ->
  let seen := (pr_res r, match pr_err r with Some e => Some e | None => copy_err w2 c end) in
  let o := fb_apply (fb_kind_of cfg) seen in
  let ok := negb (is_failure (fb_fpol cfg) o) in
  fallback_layer pos cfg inner c w =
    ({| pr_res := fst o; pr_err := snd o; pr_done := true; pr_succ := ok; pr_all := ok |},
     emit w3 KFallbackExecuted pos o 0).
Proof. exact fallback_handled_replaces. Qed.
Print Assumptions C10_handled_failure_is_replaced_once.

Theorem C10_not_applied_when_cancelled : forall pos cfg (inner : layer) c w cr,
  let r := fst (inner c w) in let w1 := snd (inner c w) in
  let w2 := pause (ev_with_result w1 c KPolFailure pos (with_failure r)) (fb_lsn_dur cfg) in
  is_failure (fb_fpol cfg) (pr_out r) = true -> is_canceled w2 c = Some cr ->
  fallback_layer pos cfg inner c w = (cr, w2).
Proof. exact fallback_not_applied_when_cancelled. Qed.
Print Assumptions C10_not_applied_when_cancelled.

(* a cancellation that arrives while the fallback function runs: the function's output is dropped, no OnFallbackExecuted *)
Theorem C10_output_dropped_when_cancelled_meanwhile : forall pos cfg (inner : layer) c w cr,
  let r := fst (inner c w) in let w1 := snd (inner c w) in
  let w2 := pause (ev_with_result w1 c KPolFailure pos (with_failure r)) (fb_lsn_dur cfg) in
  let w3 := pause w2 (fb_dur cfg) in
  is_failure (fb_fpol cfg) (pr_out r) = true -> is_canceled w2 c = None -> is_canceled w3 c = Some cr ->
  fallback_layer pos cfg inner c w = (cr, w3).
Proof. exact fallback_output_dropped_when_cancelled_meanwhile. Qed.
Print Assumptions C10_output_dropped_when_cancelled_meanwhile.
