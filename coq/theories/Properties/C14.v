(* Properties/C14.v — Shared policies and executors are safe for concurrent use (partial: see MANIFEST). *)
From FS Require Import Model.Lockset Proofs.LocksetProofs Corr.C14.

(* generic: in EVERY trace that respects mutual exclusion and the locking discipline (each access to a location
   is made while holding the location's guard), any two accesses to one location by different threads are
   separated by "the first thread unlocks the guard, the second locks it": ordered by happens-before, no race *)
Theorem C14_disciplined_accesses_are_ordered : forall g pre t1 x w1 mid t2 w2 rest,
  disciplined_trace g (pre ++ Acc t1 x w1 :: mid ++ Acc t2 x w2 :: rest) -> t1 <> t2 ->
  rel_then_acq t1 t2 (g x) mid.
Proof. exact disciplined_accesses_are_ordered. Qed.
Print Assumptions C14_disciplined_accesses_are_ordered.

(* the obligation discharged on every run against the table generated from the current sources:
   [disciplined allowed generated_table = true], evaluated by the kernel (Corr/C14.v, CaseTable).
   Non-vacuity: a table with an unguarded row outside the recorded findings is rejected. *)
Example C14_obligation_rejects_unguarded_state :
  disciplined allowed [ {| r_struct := "circuitBreaker"; r_field := "state"; r_prot := PUnguarded; r_unlocked := ["RemainingDelay"] |} ]%string = false.
Proof. reflexivity. Qed.
