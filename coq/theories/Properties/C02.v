(* Properties/C02.v — Retry: bounded attempts, stops at first success or abort, correct final result. *)
From FS Require Import Model.Exec Proofs.ExecProofs Proofs.ExecRetryBudget Corr.C02.

(* for an arbitrary wrapped layer that does not touch this retry layer's own per-execution ledger:
   the layer invokes what it wraps at most maxRetries + 1 times per execution (the ghost counter
   returned by retry_loop), counting failures already charged to the execution *)
Theorem C02_retry_invocation_bound : forall cfg pos (inner : layer),
  (forall c w, get_rstate (snd (inner c w)) pos = get_rstate w pos) ->
  0 <= r_max_retries cfg ->
  forall fuel c w,
  rs_exceeded (get_rstate w pos) = false -> 0 <= rs_failed (get_rstate w pos) <= r_max_retries cfg ->
  Z.of_nat (snd (retry_loop fuel cfg pos inner c w)) <= r_max_retries cfg - rs_failed (get_rstate w pos) + 1.
Proof. exact retry_invocation_bound. Qed.
Print Assumptions C02_retry_invocation_bound.

(* never re-invoked after a success: the stopping outcome is returned unchanged *)
Theorem C02_retry_stops_on_success : forall cfg pos (inner : layer) fuel c w,
  let r := fst (inner c w) in let w1 := snd (inner c w) in
  is_canceled w1 c = None -> rs_exceeded (get_rstate w1 pos) = false ->
  is_failure (r_fpol cfg) (pr_out r) = false ->
  retry_loop (S fuel) cfg pos inner c w =
    (with_done r true true, ev_with_result w1 c KPolSuccess pos (with_done r true true), 1%nat).
Proof. exact retry_stops_on_success. Qed.
Print Assumptions C02_retry_stops_on_success.

(* never re-invoked after an abort-matching outcome *)
Theorem C02_retry_stops_on_abort : forall cfg pos (inner : layer) fuel c w,
  let r := fst (inner c w) in let w1 := snd (inner c w) in
  is_canceled w1 c = None -> rs_exceeded (get_rstate w1 pos) = false ->
  is_failure (r_fpol cfg) (pr_out r) = true -> is_abortable (r_abort cfg) (pr_out r) = true ->
  snd (retry_loop (S fuel) cfg pos inner c w) = 1%nat.
Proof. exact retry_stops_on_abort. Qed.
Print Assumptions C02_retry_stops_on_abort.

(* one handled failure: the ledger is charged by one; the budget is exhausted exactly when
   failures > maxRetries or the max duration has elapsed, and then the layer is done and returns
   ExceededError{last result, last error} (or the last outcome itself with ReturnLastFailure) *)
Theorem C02_retry_on_failure : forall cfg pos c r w,
  let w0 := pause (ev_with_result w c KPolFailure pos r) (r_lsn_dur cfg) in   (* OnFailure logged, its listener has returned *)
  let rs := get_rstate w0 pos in
  let failed := rs_failed rs + 1 in
  let exceeded := (negb (r_max_retries cfg =? -1) && (r_max_retries cfg <? failed))
                  || (negb (r_max_duration cfg =? 0) && (r_max_duration cfg <? w_now w0 - w_start w0)) in
  get_rstate (snd (retry_on_failure cfg pos c r w)) pos = {| rs_failed := failed; rs_exceeded := exceeded |}
  /\ (exceeded = true -> pr_done (fst (retry_on_failure cfg pos c r w)) = true)
  /\ (exceeded = true -> r_return_last cfg = false ->
        fst (retry_on_failure cfg pos c r w) = failure_result (EExceeded (pr_res r) (pr_err r)))
  /\ (exceeded = true -> r_return_last cfg = true -> pr_out (fst (retry_on_failure cfg pos c r w)) = pr_out r)
  /\ (is_abortable (r_abort cfg) (pr_out r) = true -> pr_done (fst (retry_on_failure cfg pos c r w)) = true).
Proof. exact retry_on_failure_rstate. Qed.
Print Assumptions C02_retry_on_failure.

(* the budget belongs to one execution: every execution starts from an empty ledger *)
Theorem C02_retry_budget_is_per_execution : forall now ext key b l k c script pos,
  get_rstate (fresh_world now ext key b l k c script) pos = {| rs_failed := 0; rs_exceeded := false |}.
Proof. exact retry_budget_is_per_execution. Qed.
Print Assumptions C02_retry_budget_is_per_execution.

(* over whole executions: in the complete log of any execution through any stack (any script, any cancellation, any instances),
   the retry policy at position p0 -- whatever policies are around it and re-enter it, whatever policies are inside it --
   starts at most maxRetries retries: the number of its OnRetry events is within its bound *)
Theorem C02_retries_within_budget_in_any_stack : forall fuel stack now ext key b l k c script p0 cfg0,
  nth_error stack p0 = Some (PRetry cfg0) -> 0 <= r_max_retries cfg0 ->
  Z.of_nat (length (filter (fun e => kind_is KRetry e && Nat.eqb (e_pos e) p0)
                           (w_trace (drain (snd (execute fuel stack (fresh_world now ext key b l k c script)))))))
  <= r_max_retries cfg0.
Proof. exact retries_within_budget. Qed.
Print Assumptions C02_retries_within_budget_in_any_stack.

(* used by the correspondence: the executable form (retries_bounded, evaluated on the implementation's logs) accepts every
   model log, whichever completion and breaker listeners are registered *)
Theorem C02_retries_checker_accepts_model : forall fuel stack now ext key b l k c script lsn mask q o,
  q_stack q = stack ->
  x_events o = filter (blsn_keeps mask) (filter (lsn_keeps lsn)
     (rev (w_trace (drain (snd (execute fuel stack (fresh_world now ext key b l k c script))))))) ->
  retries_bounded q o = true.
Proof. exact retries_checker_accepts_model. Qed.
Print Assumptions C02_retries_checker_accepts_model.
