(* Properties/C17.v — Execution statistics count attempts, executions, retries and hedges exactly. *)
From FS Require Import Model.Exec Proofs.ExecProofs Proofs.ExecStats Proofs.ExecCheckerProofs Proofs.ExecTimes Corr.C17.

(* In the complete log of any execution through any stack of retry, breaker, rate limiter, bulkhead,
   timeout, fallback, cache and (as the innermost policy) hedge policies, with any script, cancellation
   pattern and instance state, EVERY observation point (function entry/exit, every listener incl.
   OnHedge, completion events, and what hedge attempts that are still running when the execution
   returns log afterwards) reports Attempts = 1 + Retries + Hedges, Retries = retries started so far,
   Hedges = hedges started so far, Executions = function invocations completed so far (rejected
   attempts never count as executions; overlapping hedge attempts count when they return), and time
   stamps never decrease. *)
Theorem C17_statistics_exact_at_every_observation_point : forall fuel stack now ext key b l k c script,
  trace_ok (w_trace (drain (snd (execute fuel stack (fresh_world now ext key b l k c script))))).
Proof. exact execution_statistics_exact. Qed.
Print Assumptions C17_statistics_exact_at_every_observation_point.

(* the invariant behind it is preserved by every composition *)
Theorem C17_every_composition_preserves_the_invariant : forall fuel stack pos total c w,
  Tr w -> Tr (snd (compose fuel pos stack total c w)).
Proof. intros fuel stack pos total. exact (compose_preserves fuel stack pos total). Qed.
Print Assumptions C17_every_composition_preserves_the_invariant.

(* used by the correspondence: the executable checker applied to implementation logs accepts every model log *)
Theorem C17_checker_accepts_model : forall fuel stack now ext key b l k c script,
  let evs := rev (w_trace (drain (snd (execute fuel stack (fresh_world now ext key b l k c script))))) in
  stats_ok [] 0 0 0 (match evs with e :: _ => e_time e | [] => 0 end) evs = true.
Proof. exact c17_checker_accepts_model. Qed.
Print Assumptions C17_checker_accepts_model.

(* Start times: in the complete log of any execution through any stack (incl. what hedge attempts still running when
   the execution returns log afterwards) every observer is shown StartTime = the instant the execution began (never
   later than the observation), and every AttemptStartTime it can read lies between that instant and the instant of
   the observation -- so ElapsedTime and ElapsedAttemptTime are never negative and ElapsedAttemptTime <= ElapsedTime. *)
Theorem C17_start_times_exact : forall fuel stack now ext key b l k c script,
  Forall (fun e => e_start e = now /\ now <= e_time e /\ (e_astart e = -1 \/ now <= e_astart e <= e_time e))
         (w_trace (drain (snd (execute fuel stack (fresh_world now ext key b l k c script))))).
Proof. exact start_times_exact. Qed.
Print Assumptions C17_start_times_exact.

(* used by the correspondence: the executable form (times_ok) accepts every model log *)
Theorem C17_start_times_checker_accepts_model : forall fuel stack now ext key b l k c script,
  forallb (fun e => (e_start e =? now) && ((e_astart e =? -1) || ((now <=? e_astart e) && (e_astart e <=? e_time e))))
          (rev (w_trace (drain (snd (execute fuel stack (fresh_world now ext key b l k c script)))))) = true.
Proof. exact start_times_checker_accepts_model. Qed.
Print Assumptions C17_start_times_checker_accepts_model.
