(* Properties/C12.v — Failure classification follows the documented handle-condition rules.
   Nothing but statements, each closed by [exact] and followed by Print Assumptions. *)
From FS Require Import Spec.ClassifySpec Proofs.ClassifyProofs Corr.C12.
From Coq Require Import Permutation.

(* For every list of registrations (any subset, order, repetition) and every
   outcome the classification computed by the code equals the documented rule. *)
Theorem C12_is_failure_documented : forall calls o,
  is_failure (build_fpolicy calls) o = documented_is_failure calls o.
Proof. exact is_failure_documented. Qed.
Print Assumptions C12_is_failure_documented.

Theorem C12_is_failure_truth_table : forall calls o,
  is_failure (build_fpolicy calls) o = true <->
    (all_conds calls = [] /\ has_err o = true)
    \/ (exists c, In c (all_conds calls) /\ cond_matches o c = true)
    \/ (has_err o = true /\ forall c, In c calls -> error_handling_call c = false).
Proof. exact is_failure_truth_table. Qed.
Print Assumptions C12_is_failure_truth_table.

Theorem C12_result_cond_only_without_error : forall r k e,
  cond_matches (r, Some e) (CResult k) = false.
Proof. exact result_cond_only_without_error. Qed.
Print Assumptions C12_result_cond_only_without_error.

Theorem C12_order_irrelevant : forall calls calls' o,
  Permutation calls calls' ->
  is_failure (build_fpolicy calls) o = is_failure (build_fpolicy calls') o.
Proof. exact order_irrelevant. Qed.
Print Assumptions C12_order_irrelevant.

Theorem C12_errors_is_spec : forall e t, errors_is e t = true <-> is_documented e t.
Proof. exact errors_is_spec. Qed.
Print Assumptions C12_errors_is_spec.

Theorem C12_error_types_spec : forall e tt, error_as e tt = true <-> type_documented e tt.
Proof. exact error_as_spec. Qed.
Print Assumptions C12_error_types_spec.

Theorem C12_is_abortable_documented : forall calls o,
  is_abortable (build_abort calls) o = documented_is_abortable calls o.
Proof. exact is_abortable_documented. Qed.
Print Assumptions C12_is_abortable_documented.

Theorem C12_hedge_cancel_documented : forall calls o,
  is_abortable (build_hedge_cancel calls) o = documented_hedge_cancels calls o.
Proof. exact hedge_cancel_documented. Qed.
Print Assumptions C12_hedge_cancel_documented.

(* Consequence used by the correspondence: whenever the implementation's
   observation equals the model's, it satisfies the documented rule. *)
Theorem C12_checker_sound : forall c, model_obs c = documented_obs c.
Proof.
  intros [id r calls o b | id calls o b | id calls o b | id e t b | id e t b]; cbn [model_obs documented_obs].
  - exact (is_failure_documented calls o).
  - exact (is_abortable_documented calls o).
  - exact (hedge_cancel_documented calls o).
  - reflexivity.
  - reflexivity.
Qed.
Print Assumptions C12_checker_sound.

(* The defect repaired by the fix: commit (F2), kept as a theorem about the old closures. *)
Theorem C12_refuted_before_fix :
  exists calls o, is_failure_prefix (build_fpolicy calls) o <> documented_is_failure calls o.
Proof. exact is_failure_documented_refuted_before_fix. Qed.
Print Assumptions C12_refuted_before_fix.
