(* Properties/C08.v — Cancellation stops the execution promptly and is reported as its cause.
   (Retry-based compositions on Model/Exec.v; hedge: Properties/C09.v; async Cancel(): Properties/C15.v.) *)
From FS Require Import Model.Exec Proofs.ExecProofs Proofs.ExecEventsProofs Corr.C08.

Theorem C08_cancel_result_is_cause : forall w c cr, is_canceled w c = Some cr ->
  match w_cell w with
  | Some r => cr = r
  | None => pr_err cr = copy_err w c /\ pr_done cr = true
  end.
Proof. exact cancel_result_is_cause. Qed.
Print Assumptions C08_cancel_result_is_cause.

Theorem C08_retry_returns_cancel_result : forall cfg pos (inner : layer) fuel c w cr,
  is_canceled (snd (inner c w)) c = Some cr ->
  retry_loop (S fuel) cfg pos inner c w = (cr, snd (inner c w), 1%nat).
Proof. exact retry_returns_cancel_result. Qed.
Print Assumptions C08_retry_returns_cancel_result.

Theorem C08_wait_interrupted_immediately : forall w d c e, copy_err w c = Some e -> wait w d (Some c) = (true, w).
Proof. exact wait_interrupted_immediately. Qed.
Print Assumptions C08_wait_interrupted_immediately.

Theorem C08_no_fallback_after_cancel : forall pos cfg (inner : layer) c w cr,
  let r := fst (inner c w) in let w1 := snd (inner c w) in
  let w2 := pause (ev_with_result w1 c KPolFailure pos (with_failure r)) (fb_lsn_dur cfg) in
  is_failure (fb_fpol cfg) (pr_out r) = true -> is_canceled w2 c = Some cr ->
  fallback_layer pos cfg inner c w = (cr, w2).
Proof. exact no_fallback_after_cancel. Qed.
Print Assumptions C08_no_fallback_after_cancel.

(* a cancellation that arrives while a fallback function runs is what the fallback layer reports: its result (whose error is the
   cause, C08_cancel_result_is_cause), not the function's output *)
Theorem C08_cancel_during_fallback_reported : forall pos cfg (inner : layer) c w cr,
  let r := fst (inner c w) in let w1 := snd (inner c w) in
  let w2 := pause (ev_with_result w1 c KPolFailure pos (with_failure r)) (fb_lsn_dur cfg) in
  let w3 := pause w2 (fb_dur cfg) in
  is_failure (fb_fpol cfg) (pr_out r) = true -> is_canceled w2 c = None -> is_canceled w3 c = Some cr ->
  fallback_layer pos cfg inner c w = (cr, w3).
Proof. exact cancel_during_fallback_reported. Qed.
Print Assumptions C08_cancel_during_fallback_reported.

Theorem C08_limiter_wait_interrupted : forall pos inst mw (inner inner' : layer) c w,
  let '(cfg, base, s) := nth inst (w_limiters w) (Smooth 1, 0, SSmooth 0) in
  let '(wt, s') := lim_acquire cfg s (w_now w - base) 1 mw in
  let w1 := set_insts w (w_breakers w) (upd inst (fun p => (fst p, s')) (w_limiters w)) (w_bulkheads w) (w_caches w) in
  wt <> -1 -> fst (wait w1 wt (Some c)) = true ->
  limiter_layer pos inst mw inner c w = limiter_layer pos inst mw inner' c w.
Proof. exact limiter_wait_interrupted. Qed.
Print Assumptions C08_limiter_wait_interrupted.

(* a bulkhead turns a cancelled execution away -- on arrival or out of its wait -- with the error of the cancellation result
   (ErrExecutionCanceled for ExecutionResult.Cancel(), ErrExceeded for a Timeout, else the context's error), whatever is
   inside it *)
Theorem C08_bulkhead_cancelled_reports_cause : forall pos inst mw (inner inner' : layer) c w,
  (forall cr e, is_canceled w c = Some cr -> pr_err cr = Some e ->
     bulkhead_layer pos inst mw inner c w = (failure_result e, w))
  /\ (copy_err w c = None -> fst (nth inst (w_bulkheads w) (0, 0)) <= snd (nth inst (w_bulkheads w) (0, 0)) -> mw <> 0 ->
      fst (wait w mw (Some c)) = true ->
      let w1 := snd (wait w mw (Some c)) in
      bulkhead_layer pos inst mw inner c w = bulkhead_layer pos inst mw inner' c w
      /\ forall cr e, is_canceled w1 c = Some cr -> pr_err cr = Some e ->
           bulkhead_layer pos inst mw inner c w = (failure_result e, w1)).
Proof. exact bulkhead_cancelled_reports_cause. Qed.
Print Assumptions C08_bulkhead_cancelled_reports_cause.

(* Finding F16 (repaired by a fix: commit): the bulkhead used to report the context's error, which is context.Canceled
   when the execution was cancelled through its ExecutionResult -- not the cause *)
Theorem C08_bulkhead_reported_context_error_before_fix :
  exists w c, copy_err w c = Some ECtxCanceled /\ cancel_error w c = EExecCanceled.
Proof. exact bulkhead_reported_context_error_before_fix. Qed.
Print Assumptions C08_bulkhead_reported_context_error_before_fix.
