(* Proofs/ExecHedgeProofs.v — the hedge layer of Model/Exec.v (a hedge policy directly around the function, any
   policies around it): at most maxHedges hedges per hedged run, hedge k not before k delays after the run began.
   All statements are for arbitrary worlds: any enclosing stack, script, pending timeouts and cancellations,
   attempts of earlier runs still in the background. *)
From FS Require Import Model.Exec Proofs.ExecProofs.
From Coq Require Import ZifyBool.

(* ---- nothing but the hedge loop itself starts a hedge ---- *)
Lemma mark_done_hedges w s e : w_hedges (mark_done w s e) = w_hedges w.
Proof. unfold mark_done. destruct (sc_done (get_scope w s)); reflexivity. Qed.

Lemma fire_timeout_hedges w s : w_hedges (fire_timeout w s) = w_hedges w.
Proof.
  unfold fire_timeout. match goal with |- context [copy_err ?w2 ?c] => destruct (copy_err w2 c) end; [reflexivity|].
  rewrite mark_done_hedges. reflexivity.
Qed.

Lemma fire_ext_hedges w e : w_hedges (fire_ext w e) = w_hedges w.
Proof.
  unfold fire_ext. destruct e; rewrite ?mark_done_hedges; try reflexivity.
  destruct (copy_err _ 0%nat); [reflexivity|]. rewrite mark_done_hedges. reflexivity.
Qed.

Lemma finish_bg_hedges w b : w_hedges (finish_bg w b) = w_hedges w.
Proof. unfold finish_bg. match goal with |- context [if ?c then _ else _] => destruct c end; reflexivity. Qed.

Lemma refresh_bg_hedges w : w_hedges (refresh_bg w) = w_hedges w.
Proof. unfold refresh_bg. match goal with |- context [if ?c then _ else _] => destruct c end; reflexivity. Qed.

Lemma settle_hedges w t : w_hedges (settle w t) = w_hedges w.
Proof. destruct t; reflexivity. Qed.

Lemma advance_hedges fuel : forall w t intr acc, w_hedges (snd (advance fuel w t intr acc)) = w_hedges w.
Proof.
  induction fuel as [|fuel IH]; intros w t intr acc; cbn [advance].
  - destruct (match intr with Some c => _ | None => false end); cbn [snd]; [reflexivity|].
    destruct (acc && _); cbn [snd]; [reflexivity|apply settle_hedges].
  - destruct (match intr with Some c => _ | None => false end); cbn [snd]; [reflexivity|].
    destruct (acc && _); cbn [snd]; [reflexivity|].
    match goal with |- context [if ?c then _ else _] => destruct c end.
    + destruct (bg_earliest (w_bg w)) as [b|]; [|apply settle_hedges].
      destruct (due (bg_finish b) t); [|apply settle_hedges].
      rewrite IH, finish_bg_hedges. match goal with |- context [if ?c then _ else _] => destruct c end; reflexivity.
    + destruct (next_timer w) as [[tt src]|]; [|apply settle_hedges].
      destruct (due tt t); [|apply settle_hedges].
      rewrite IH, refresh_bg_hedges.
      destruct src as [s|]; [rewrite fire_timeout_hedges|destruct (w_ext w) as [[? e]|]; [rewrite fire_ext_hedges|]];
        match goal with |- context [if ?c then _ else _] => destruct c end; reflexivity.
Qed.

Lemma cancel_copy_hedges w cs : w_hedges (cancel_copy w cs) = w_hedges w.
Proof. unfold cancel_copy. destruct (copy_err w (fst cs)); [reflexivity|]. rewrite mark_done_hedges. reflexivity. Qed.

Lemma cancel_others_hedges started : forall w i winner, w_hedges (cancel_others w started i winner) = w_hedges w.
Proof.
  induction started as [|cs rest IH]; intros w i winner; cbn [cancel_others]; [reflexivity|].
  rewrite IH. destruct (Nat.eqb i winner); [reflexivity|apply cancel_copy_hedges].
Qed.

Lemma hedge_start_hedges pos total c k w :
  w_hedges (hedge_start pos total c k w) = w_hedges w + (match k with O => 0 | S _ => 1 end).
Proof. unfold hedge_start. rewrite refresh_bg_hedges. destruct k; cbn; lia. Qed.

Lemma refresh_bg_now w : w_now (refresh_bg w) = w_now w.
Proof. unfold refresh_bg. match goal with |- context [if ?c then _ else _] => destruct c end; reflexivity. Qed.

Lemma hedge_start_now pos total c k w : w_now (hedge_start pos total c k w) = w_now w.
Proof. unfold hedge_start. rewrite refresh_bg_now. destruct k; reflexivity. Qed.

(* ---- C09: at most maxHedges hedges per hedged run ---- *)
Theorem hedge_loop_hedges_bound cfg pos total : forall fuel c k started w,
  (k <= hg_max cfg)%nat ->
  w_hedges (snd (fst (hedge_loop fuel cfg pos total c k started w)))
  <= w_hedges w + (match k with O => 0 | S _ => 1 end) + Z.of_nat (hg_max cfg - k).
Proof.
  induction fuel as [|fuel IH]; intros c k started w Hk; cbn [hedge_loop].
  - cbn [fst snd]. cbn. destruct k; lia.
  - pose proof (hedge_start_hedges pos total c k w) as H6. set (w6 := hedge_start pos total c k w) in *.
    match goal with |- context [advance ?f w6 ?t ?i ?a] =>
      pose proof (advance_hedges f w6 t i a) as H7; destruct (advance f w6 t i a) as [ii w7] end.
    cbn [snd] in H7.
    destruct (is_canceled w7 c); [cbn [fst snd]; lia|].
    destruct (hs_acc (w_hs w7)) as [[idx out]|].
    + cbn [fst snd]. rewrite refresh_bg_hedges, cancel_others_hedges. cbn. lia.
    + destruct (Nat.ltb k (hg_max cfg)) eqn:Hlt; [|cbn [fst snd]; cbn; lia].
      apply Nat.ltb_lt in Hlt.
      specialize (IH c (S k) (started ++ [(length (w_copies w), length (w_scopes w))]) w7 ltac:(lia)).
      destruct (hedge_loop fuel cfg pos total c (S k) _ w7) as [[r8 w8] ts]. cbn [fst snd] in *. lia.
Qed.

Theorem hedge_layer_hedges_bound pos total cfg c w :
  w_hedges (snd (hedge_layer pos total cfg c w)) <= w_hedges w + Z.of_nat (hg_max cfg).
Proof.
  unfold hedge_layer.
  pose proof (hedge_loop_hedges_bound cfg pos total (S (S (hg_max cfg))) c 0 []
                (set_hedge w (w_hedges w) (w_bg w)
                   {| hs_grp := S (hs_grp (w_hs w)); hs_max := hg_max cfg; hs_cond := hg_cancel cfg; hs_count := 0; hs_sent := false; hs_acc := None |})
                ltac:(lia)) as H.
  cbn [w_hedges set_hedge] in H. lia.
Qed.

(* ---- C09: hedge k is not started before k hedge delays have elapsed since the run began ---- *)

(* a wait that ended neither by interruption nor by an accepted result lasted until its end instant *)
Lemma advance_not_early fuel : forall w t intr acc w',
  advance fuel w (Some t) intr acc = (false, w') -> hs_acc (w_hs w') = None -> acc = true -> t <= w_now w'.
Proof.
  induction fuel as [|fuel IH]; intros w t intr acc w' H Hacc Ha; cbn [advance] in H.
  - destruct (match intr with Some c => _ | None => false end); [discriminate|].
    destruct (acc && is_some (hs_acc (w_hs w))) eqn:E.
    + inversion H; subst. rewrite Hacc in E. cbn in E. discriminate.
    + inversion H; subst. cbn. lia.
  - destruct (match intr with Some c => _ | None => false end); [discriminate|].
    destruct (acc && is_some (hs_acc (w_hs w))) eqn:E.
    + inversion H; subst. rewrite Hacc in E. cbn in E. discriminate.
    + assert (Hs : forall w0, (false, settle w0 (Some t)) = (false, w') -> t <= w_now w') by (intros w0 E0; inversion E0; subst; cbn; lia).
      match type of H with (if ?c then _ else _) = _ => destruct c end.
      * destruct (bg_earliest (w_bg w)) as [b|]; [|apply (Hs w); exact H].
        destruct (due (bg_finish b) (Some t)); [|apply (Hs w); exact H].
        eapply IH; eassumption.
      * destruct (next_timer w) as [[tt src]|]; [|apply (Hs w); exact H].
        destruct (due tt (Some t)); [|apply (Hs w); exact H].
        eapply IH; eassumption.
Qed.

(* an interrupted wait leaves its execution cancelled *)
Lemma advance_interrupted fuel : forall w t intr acc w',
  advance fuel w t intr acc = (true, w') -> exists c e, intr = Some c /\ copy_err w' c = Some e.
Proof.
  induction fuel as [|fuel IH]; intros w t intr acc w' H; cbn [advance] in H.
  - destruct intr as [c|]; [destruct (copy_err w c) as [e|] eqn:E|].
    + inversion H; subst. eauto.
    + destruct (acc && _); discriminate.
    + destruct (acc && _); discriminate.
  - destruct intr as [c|]; [destruct (copy_err w c) as [e|] eqn:E|].
    + inversion H; subst. eauto.
    + destruct (acc && _); [discriminate|].
      match type of H with (if ?c then _ else _) = _ => destruct c end.
      * destruct (bg_earliest (w_bg w)) as [b|]; [|discriminate]. destruct (due _ t); [|discriminate]. eapply IH; eassumption.
      * destruct (next_timer w) as [[tt src]|]; [|discriminate]. destruct (due tt t); [|discriminate]. eapply IH; eassumption.
    + destruct (acc && _); [discriminate|].
      match type of H with (if ?c then _ else _) = _ => destruct c end.
      * destruct (bg_earliest (w_bg w)) as [b|]; [|discriminate]. destruct (due _ t); [|discriminate].
        destruct (IH _ _ _ _ _ H) as (c & e & Hc & _). discriminate.
      * destruct (next_timer w) as [[tt src]|]; [|discriminate]. destruct (due tt t); [|discriminate].
        destruct (IH _ _ _ _ _ H) as (c & e & Hc & _). discriminate.
Qed.

(* the start instants of the attempts of one hedged run (ghost result of the loop): attempt k+i of the run is started
   no earlier than i hedge delays after attempt k *)
Definition spaced (base d : Z) (ts : list Z) : Prop := forall i t, nth_error ts i = Some t -> base + Z.of_nat i * d <= t.

Lemma spaced_one base d : 0 <= d -> spaced base d [base].
Proof. intros Hd [|[|i]] t H; cbn in H; try discriminate. inversion H. lia. Qed.

Lemma spaced_cons base base' d ts : 0 <= d -> base + d <= base' -> spaced base' d ts -> spaced base d (base :: ts).
Proof.
  intros Hd Hb Hs [|i] t H; cbn [nth_error] in H.
  - inversion H. lia.
  - specialize (Hs i t H). lia.
Qed.

Theorem hedge_loop_spacing cfg pos total : 0 <= hg_delay cfg ->
  forall fuel c k started w, spaced (w_now w) (hg_delay cfg) (snd (hedge_loop fuel cfg pos total c k started w)).
Proof.
  intros Hd. induction fuel as [|fuel IH]; intros c k started w; cbn [hedge_loop].
  - cbn [snd]. intros [|i] t H; discriminate.
  - pose proof (hedge_start_now pos total c k w) as N6. set (w6 := hedge_start pos total c k w) in *.
    destruct (advance (wait_fuel w6) w6 (if Nat.ltb k (hg_max cfg) then Some (w_now w6 + hg_delay cfg) else None) (Some c) true) as [ii w7] eqn:Ea.
    rewrite N6 in *.
    destruct (is_canceled w7 c) eqn:Ec; [cbn [snd]; apply spaced_one, Hd|].
    destruct (hs_acc (w_hs w7)) as [[idx out]|] eqn:Eacc; [cbn [snd]; apply spaced_one, Hd|].
    destruct (Nat.ltb k (hg_max cfg)); [|cbn [snd]; apply spaced_one, Hd].
    (* the wait ran to the end of the hedge delay *)
    assert (Hii : ii = false).
    { destruct ii; [|reflexivity]. destruct (advance_interrupted _ _ _ _ _ _ Ea) as (c0 & e & Hc0 & He). inversion Hc0; subst c0.
      unfold is_canceled in Ec. rewrite He in Ec. discriminate. }
    subst ii. pose proof (advance_not_early _ _ _ _ _ _ Ea Eacc eq_refl) as Hlate.
    specialize (IH c (S k) (started ++ [(length (w_copies w), length (w_scopes w))]) w7).
    destruct (hedge_loop fuel cfg pos total c (S k) _ w7) as [[r8 w8] ts]. cbn [snd] in *.
    eapply spaced_cons; [exact Hd|exact Hlate|exact IH].
Qed.

(* the ghost list has one entry per attempt started, at most maxHedges + 1 - k *)
Theorem hedge_loop_attempts_bound cfg pos total : forall fuel c k started w,
  (k <= hg_max cfg)%nat ->
  (length (snd (hedge_loop fuel cfg pos total c k started w)) <= S (hg_max cfg) - k)%nat.
Proof.
  induction fuel as [|fuel IH]; intros c k started w Hk; cbn [hedge_loop].
  - cbn [snd length]. lia.
  - match goal with |- context [advance ?f ?w6 ?t ?i ?a] => destruct (advance f w6 t i a) as [ii w7] end.
    destruct (is_canceled w7 c); [cbn [snd length]; lia|].
    destruct (hs_acc (w_hs w7)) as [[idx out]|]; [cbn [snd length]; lia|].
    destruct (Nat.ltb k (hg_max cfg)) eqn:Hlt; [|cbn [snd length]; lia].
    apply Nat.ltb_lt in Hlt.
    specialize (IH c (S k) (started ++ [(length (w_copies w), length (w_scopes w))]) w7 ltac:(lia)).
    destruct (hedge_loop fuel cfg pos total c (S k) _ w7) as [[r8 w8] ts]. cbn [snd length] in *. lia.
Qed.
