(* Proofs/ExecExhaustion.v — C16 / C02: exhaustion is final.  In the complete log of any execution through any stack, once a
   retry policy has logged OnRetriesExceeded it logs nothing more for the rest of the execution -- no further OnFailure /
   OnSuccess verdict, no OnAbort, no second OnRetriesExceeded, no retry scheduled or started -- however often the policies
   around it re-enter it: it remembers (in the execution's ledger) that it is exhausted and hands results through.
   Sixth induction over the stack, through the generic pass of Proofs/ExecRetryEvents.v; the invariant ties the log to the
   ledger: "the log shows OnRetriesExceeded for position p  ==>  p is a retry policy and its ledger says exhausted". *)
From FS Require Import Model.Exec Spec.Verdict Proofs.ExecProofs Proofs.ExecRetryEvents Proofs.ExecEventsProofs Proofs.ExecRetryBudget.
From FS Require Import Corr.ExecCorr Corr.ExecCheckers.
From Coq Require Import ZifyBool.

Definition xst (pos : nat) (w : world) : option bool := xstk pos (kps w).

Lemma xstep_neutral pos k s : verdict_kind (fst k) = false \/ snd k <> pos -> xstep pos k s = s.
Proof.
  intros H. unfold xstep. destruct s as [ex|]; [|reflexivity].
  destruct H as [H|H]; [rewrite H, andb_false_r; reflexivity|].
  destruct (Nat.eqb (snd k) pos) eqn:E; [apply Nat.eqb_eq in E; contradiction|reflexivity].
Qed.

Section Stack.
Variable stk : list policy.       (* the whole stack of the execution *)

Definition retry_pos (q : nat) : bool := match nth_error stk q with Some (PRetry _) => true | _ => false end.

(* the invariant: no automaton violated; an exhausted automaton belongs to a retry policy whose ledger says so *)
Definition XJ (w : world) : Prop :=
  forall pos, match xst pos w with
              | None => False
              | Some true => retry_pos pos = true /\ rs_exceeded (get_rstate w pos) = true
              | Some false => True
              end.
Definition XJrel (w w' : world) : Prop := XJ w -> XJ w'.

(* harmless events: anything that is not a retry-policy kind, and the verdicts (OnFailure / OnSuccess) of layers that are not
   retry policies; harmless ledger writes: none (only a retry policy writes, and it is treated on its own) *)
Definition Nx (k : evk) (q : nat) : Prop :=
  verdict_kind k = false \/ (retry_pos q = false /\ (k = KPolFailure \/ k = KPolSuccess)).
Definition Px (q : nat) : Prop := False.

Lemma Nx_plain k q : plain_kind k = true -> Nx k q.
Proof. intros H. left. destruct k; cbn in H; try discriminate; reflexivity. Qed.

Lemma x_refl w : XJrel w w. Proof. intros H. exact H. Qed.
Lemma x_trans a b c : XJrel a b -> XJrel b c -> XJrel a c. Proof. unfold XJrel. auto. Qed.
Lemma x_frame w w' : w_trace w' = w_trace w -> w_retry w' = w_retry w -> XJrel w w'.
Proof.
  intros Ht Hr HJ pos. specialize (HJ pos). unfold xst, kps in *. rewrite Ht. rewrite (get_rstate_ext _ _ pos Hr). exact HJ.
Qed.
Lemma x_put w q r : Px q -> XJrel w (put_rstate w q r). Proof. intros []. Qed.
Lemma x_emit w k q o aux : Nx k q -> XJrel w (emit w k q o aux).
Proof.
  intros HN HJ pos. specialize (HJ pos). unfold xst in *. rewrite kps_emit. cbn [xstk].
  assert (Hg : get_rstate (emit w k q o aux) pos = get_rstate w pos) by (apply get_rstate_ext; reflexivity). rewrite Hg.
  destruct HN as [Hk|[Hq Hk]].
  - rewrite xstep_neutral; [exact HJ|left; exact Hk].
  - destruct (Nat.eq_dec q pos) as [->|Hne]; [|rewrite xstep_neutral; [exact HJ|right; exact Hne]].
    destruct (xstk pos (kps w)) as [[|]|]; [destruct HJ as [Hr _]; congruence| |contradiction].
    unfold xstep. cbn [fst snd]. rewrite Nat.eqb_refl. destruct Hk as [->| ->]; exact I.
Qed.
Lemma x_stamp w c : XJrel w (stamp w c).
Proof.
  intros HJ pos. specialize (HJ pos). unfold xst in *. rewrite kps_stamp.
  assert (Hg : get_rstate (stamp w c) pos = get_rstate w pos) by (apply get_rstate_ext; unfold stamp; destruct (w_trace w); reflexivity).
  rewrite Hg. exact HJ.
Qed.
#[local] Hint Resolve x_refl x_trans x_frame x_put x_emit x_stamp Nx_plain : xdb.
#[local] Hint Extern 1 (Nx _ _) => (left; reflexivity) : xdb.

Ltac inst_x lem := first [eapply lem with (N := Nx) (P := Px) | eapply lem with (N := Nx) | eapply lem]; eauto with xdb.

(* ---- the automaton and the ledger of one position are left alone by everything at other positions ---- *)
Definition xsame (q : nat) (w w' : world) : Prop := xst q w' = xst q w /\ get_rstate w' q = get_rstate w q.
Definition Nq (q : nat) (k : evk) (q' : nat) : Prop := verdict_kind k = false \/ q' <> q.
Definition Pq (q : nat) (q' : nat) : Prop := q' <> q.

Lemma q_refl q w : xsame q w w. Proof. split; reflexivity. Qed.
Lemma q_trans q a b c : xsame q a b -> xsame q b c -> xsame q a c. Proof. intros [A1 A2] [B1 B2]. split; congruence. Qed.
Lemma q_frame q w w' : w_trace w' = w_trace w -> w_retry w' = w_retry w -> xsame q w w'.
Proof. intros Ht Hr. split; [unfold xst, kps; rewrite Ht; reflexivity|apply get_rstate_ext, Hr]. Qed.
Lemma q_put q w q' r : Pq q q' -> xsame q w (put_rstate w q' r).
Proof. intros H. split; [reflexivity|apply get_put_rstate_other, H]. Qed.
Lemma q_emit q w k q' o aux : Nq q k q' -> xsame q w (emit w k q' o aux).
Proof. intros H. split; [unfold xst; rewrite kps_emit; cbn [xstk]; apply xstep_neutral; exact H|apply get_rstate_ext; reflexivity]. Qed.
Lemma q_stamp q w c : xsame q w (stamp w c).
Proof. split; [unfold xst; rewrite kps_stamp; reflexivity|apply get_rstate_ext; unfold stamp; destruct (w_trace w); reflexivity]. Qed.
Lemma Nq_plain q k q' : plain_kind k = true -> Nq q k q'.
Proof. intros H. left. destruct k; cbn in H; try discriminate; reflexivity. Qed.
#[local] Hint Resolve q_refl q_trans q_frame q_put q_emit q_stamp Nq_plain : qdb.
#[local] Hint Extern 1 (Nq _ _ _) => (right; lia) : qdb.
#[local] Hint Extern 1 (Nq _ _ _) => (left; reflexivity) : qdb.
#[local] Hint Extern 1 (Pq _ _) => (unfold Pq; lia) : qdb.

Ltac inst_q q lem := first [eapply lem with (N := Nq q) (P := Pq q) | eapply lem with (N := Nq q) | eapply lem]; eauto with qdb.

Theorem compose_xquiet q fuel stack : forall start total, (q < start)%nat -> quiet (xsame q) (compose fuel start stack total).
Proof.
  induction stack as [|p rest IH]; intros start total Hlt; cbn [compose].
  - inst_q q fn_layer_quiet.
  - specialize (IH (S start) total ltac:(lia)). destruct p as [rc|bi|li lmw|ki kmw|lim|fc|ci cc|hc]; cbn [apply_policy].
    + intros c w. eapply retry_loop_quiet with (N := Nq q) (P := Pq q); eauto with qdb.
    + inst_q q breaker_layer_quiet.
    + inst_q q limiter_layer_quiet.
    + inst_q q bulkhead_layer_quiet.
    + inst_q q timeout_layer_quiet.
    + inst_q q fallback_layer_quiet.
    + inst_q q cache_layer_quiet.
    + inst_q q hedge_layer_quiet.
Qed.

(* one event of position q logged, its ledger as given: the invariant at the other positions is carried over *)
Lemma XJ_step w w' q k : kps w' = (k, q) :: kps w -> (forall pos, pos <> q -> get_rstate w' pos = get_rstate w pos) -> XJ w ->
  match xstep q (k, q) (xst q w) with
  | None => False
  | Some true => retry_pos q = true /\ rs_exceeded (get_rstate w' q) = true
  | Some false => True
  end -> XJ w'.
Proof.
  intros E Hg HJ Hq pos. unfold xst. rewrite E. cbn [xstk].
  destruct (Nat.eq_dec pos q) as [->|Hne]; [exact Hq|].
  rewrite xstep_neutral; [|right; cbn [snd]; auto]. rewrite (Hg pos Hne). exact (HJ pos).
Qed.

(* the retry policy at position q *)
Lemma retry_loop_XJ q cfg inner : retry_pos q = true -> quiet XJrel inner -> quiet (xsame q) inner ->
  forall fuel c w, XJ w -> XJ (snd (fst (retry_loop fuel cfg q inner c w))).
Proof.
  intros Hrp Hj Hq. induction fuel as [|fuel IH]; intros c w HJ; cbn [retry_loop].
  - cbn [fst snd]. apply (x_frame w); [reflexivity|reflexivity|exact HJ].
  - pose proof (Hj c w HJ) as J1. destruct (inner c w) as [r w1]. cbn [snd] in J1.
    destruct (is_canceled w1 c); [exact J1|]. destruct (rs_exceeded (get_rstate w1 q)) eqn:Ex1; [exact J1|].
    (* not exhausted according to the ledger, hence according to the log *)
    assert (X1 : xst q w1 = Some false).
    { specialize (J1 q). destruct (xst q w1) as [[|]|]; [destruct J1 as [_ H]; congruence|reflexivity|contradiction]. }
    assert (Gev : forall w' k rr, (forall pos, pos <> q -> get_rstate (ev_with_result w' c k q rr) pos = get_rstate w' pos))
      by (intros; apply get_rstate_ext; reflexivity).
    destruct (is_failure (r_fpol cfg) (pr_out r)) eqn:Ef.
    + destruct (retry_failure_events cfg q c (with_failure r) w1) as (Ek & _ & Hdone & Hex).
      pose proof (retry_on_failure_rstate cfg q c (with_failure r) w1) as Hrs. cbv zeta in Hrs.
      set (ab := is_abortable (r_abort cfg) (pr_out (with_failure r))) in *.
      set (w0 := pause (ev_with_result w1 c KPolFailure q (with_failure r)) (r_lsn_dur cfg)) in *.
      set (ex := (negb (r_max_retries cfg =? -1) && (r_max_retries cfg <? rs_failed (get_rstate w1 q) + 1))
                 || (negb (r_max_duration cfg =? 0) && (r_max_duration cfg <? w_now w0 - w_start w0))) in *.
      (* OnFailure logged (not exhausted: allowed), then the listener's pause *)
      set (wa := ev_with_result w1 c KPolFailure q (with_failure r)) in *.
      assert (Ja : XJ wa /\ xst q wa = Some false).
      { assert (Ka : kps wa = (KPolFailure, q) :: kps w1) by (subst wa; apply kps_ev).
        split.
        - apply (XJ_step w1 wa q KPolFailure Ka (Gev w1 KPolFailure _) J1). rewrite X1. unfold xstep. cbn [fst snd]. rewrite Nat.eqb_refl. exact I.
        - unfold xst. rewrite Ka. cbn [xstk]. fold (xst q w1). rewrite X1. unfold xstep. cbn [fst snd]. rewrite Nat.eqb_refl. reflexivity. }
      destruct Ja as [Ja Xa].
      assert (J0 : XJ w0) by (assert (Rj : XJrel wa w0) by (subst w0; inst_x same_pause); exact (Rj Ja)).
      assert (X0 : xst q w0 = Some false /\ get_rstate w0 q = get_rstate wa q).
      { assert (Rv : xsame q wa w0) by (subst w0; inst_q q same_pause). destruct Rv as [A B]. rewrite A. split; [exact Xa|exact B]. }
      destruct X0 as [X0 G0].
      assert (Hg0 : get_rstate w0 q = get_rstate w1 q) by (rewrite G0; apply get_rstate_ext; reflexivity).
      rewrite Hg0 in Hrs.
      destruct (retry_on_failure cfg q c (with_failure r) w1) as [r2 w2] eqn:Erf. cbn [fst snd] in *.
      destruct Hrs as (Hrs & _).
      (* what follows OnFailure: nothing, OnAbort, or OnRetriesExceeded (then the ledger says exhausted) *)
      assert (Hothers : forall pos, pos <> q -> get_rstate w2 pos = get_rstate w0 pos).
      { intros pos Hne. pose proof (f_equal snd Erf) as E2. cbn [snd] in E2. rewrite <- E2. unfold retry_on_failure. fold wa. fold w0.
        repeat match goal with |- context [if ?b then _ else _] => destruct b end; cbn [snd];
          repeat (rewrite ?(Gev _ _ _ pos Hne)); apply get_put_rstate_other; auto. }
      assert (J2 : XJ w2 /\ (ab || ex = false -> xst q w2 = Some false)).
      { split.
        - intros pos. unfold xst. rewrite Ek.
          destruct (Nat.eq_dec pos q) as [->|Hne].
          + fold (xst q w0). destruct ab, ex; cbn [negb andb orb app xstk]; fold (xst q w0); rewrite X0;
              unfold xstep; cbn [fst snd verdict_kind]; rewrite ?Nat.eqb_refl; cbn [andb]; try exact I.
            split; [exact Hrp|exact Hex].
          + assert (E : xstk pos ((if ex && negb ab then [(KRetriesExceeded, q)] else []) ++ (if ab then [(KAbort, q)] else []) ++ kps w0) = xstk pos (kps w0)).
            { destruct ab, ex; cbn [negb andb orb app xstk]; rewrite ?xstep_neutral; try reflexivity; right; cbn [snd]; auto. }
            rewrite E. rewrite (Hothers pos Hne). exact (J0 pos).
        - intros Hn. unfold xst. rewrite Ek. destruct ab, ex; try discriminate. cbn [negb andb orb app]. exact X0. }
      destruct J2 as [J2 P2].
      destruct (pr_done r2) eqn:Ed; [exact J2|].
      assert (Hn : ab || ex = false) by (destruct (ab || ex) eqn:E; [specialize (Hdone eq_refl); discriminate|reflexivity]).
      specialize (P2 Hn).
      destruct (is_canceled w2 c); [exact J2|].
      set (w3 := set_copy_last w2 c (pr_out r2)).
      set (w4 := stamp (emit w3 KRetryScheduled q _ _) c).
      assert (K4 : kps w4 = (KRetryScheduled, q) :: kps w2) by (subst w4 w3; rewrite kps_stamp, kps_emit; reflexivity).
      assert (G4 : forall pos, get_rstate w4 pos = get_rstate w2 pos).
      { intros pos. apply get_rstate_ext. subst w4 w3. unfold stamp, emit. cbn. destruct (w_trace w2); reflexivity. }
      assert (J4 : XJ w4 /\ xst q w4 = Some false).
      { split.
        - apply (XJ_step w2 w4 q KRetryScheduled K4 (fun pos _ => G4 pos) J2). rewrite P2. unfold xstep. cbn [fst snd]. rewrite Nat.eqb_refl. exact I.
        - unfold xst. rewrite K4. cbn [xstk]. fold (xst q w2). rewrite P2. unfold xstep. cbn [fst snd]. rewrite Nat.eqb_refl. reflexivity. }
      destruct J4 as [J4 P4].
      assert (J5 : XJrel w4 (snd (wait w4 (retry_delay cfg w3) (Some c)))) by (inst_x same_wait).
      specialize (J5 J4).
      assert (P5 : xsame q w4 (snd (wait w4 (retry_delay cfg w3) (Some c)))) by (inst_q q same_wait).
      destruct (wait w4 _ (Some c)) as [ii w5]. cbn [snd] in J5, P5. destruct P5 as [P5 _]. rewrite P4 in P5.
      destruct (is_canceled w5 c); [exact J5|].
      match goal with |- context [retry_loop fuel cfg q inner c ?w9] => set (w9' := w9) end.
      assert (K9 : kps w9' = (KRetry, q) :: kps w5) by (subst w9'; rewrite kps_ev; reflexivity).
      assert (J9 : XJ w9').
      { apply (XJ_step w5 w9' q KRetry K9); [intros pos _; subst w9'; apply get_rstate_ext; reflexivity|exact J5|].
        rewrite P5. unfold xstep. cbn [fst snd]. rewrite Nat.eqb_refl. exact I. }
      specialize (IH c w9' J9). destruct (retry_loop fuel cfg q inner c w9') as [[rr ww] n]. exact IH.
    + cbn [pr_done with_done fst snd].
      apply (XJ_step w1 _ q KPolSuccess (kps_ev w1 c KPolSuccess q _) (Gev w1 KPolSuccess _) J1).
      rewrite X1. unfold xstep. cbn [fst snd]. rewrite Nat.eqb_refl. exact I.
Qed.

(* the stack: [stack] is the part of stk from position start on *)
Theorem compose_XJ fuel : forall stack start total, (forall i, nth_error stack i = nth_error stk (start + i)) ->
  quiet XJrel (compose fuel start stack total).
Proof.
  induction stack as [|p rest IH]; intros start total Hs; cbn [compose].
  - inst_x fn_layer_quiet.
  - assert (IHr : quiet XJrel (compose fuel (S start) rest total)).
    { apply IH. intros i. specialize (Hs (S i)). cbn [nth_error] in Hs. rewrite Hs. f_equal. lia. }
    pose proof (Hs 0%nat) as H0. cbn [nth_error] in H0. rewrite Nat.add_0_r in H0.
    assert (Hnr : forall k, (k = KPolFailure \/ k = KPolSuccess) -> (match p with PRetry _ => False | _ => True end) -> Nx k start).
    { intros k Hk Hp. right. split; [|exact Hk]. unfold retry_pos. rewrite <- H0. destruct p; try reflexivity; contradiction. }
    destruct p as [rc|bi|li lmw|ki kmw|lim|fc|ci cc|hc]; cbn [apply_policy].
    + intros c w HJ. apply (retry_loop_XJ start rc _); [unfold retry_pos; rewrite <- H0; reflexivity|exact IHr|
        exact (compose_xquiet start fuel rest (S start) total ltac:(lia))|exact HJ].
    + inst_x breaker_layer_quiet; apply Hnr; auto; exact I.
    + inst_x limiter_layer_quiet.
    + inst_x bulkhead_layer_quiet.
    + inst_x timeout_layer_quiet.
    + inst_x fallback_layer_quiet; apply Hnr; auto; exact I.
    + inst_x cache_layer_quiet.
    + inst_x hedge_layer_quiet.
Qed.

Lemma XJ_drain w : XJ w -> XJ (drain w).
Proof.
  intros HJ. unfold drain. destruct (w_bg w); [exact HJ|].
  match goal with |- XJ (snd (advance ?f ?w0 ?t ?i ?a)) => assert (HA : XJrel w0 (snd (advance f w0 t i a))) by (inst_x same_advance) end.
  apply HA. apply (x_frame w); [reflexivity|reflexivity|exact HJ].
Qed.

End Stack.

(* C16 / C02: in the complete log of any execution through any stack, at every position: nothing of a retry policy is logged
   after its OnRetriesExceeded *)
Theorem exhaustion_is_final fuel stack now ext key b l k c script :
  forall pos, xstk pos (kps (drain (snd (execute fuel stack (fresh_world now ext key b l k c script))))) <> None.
Proof.
  assert (J0 : XJ stack (fresh_world now ext key b l k c script)).
  { assert (J00 : XJ stack (fresh_world0 now ext key b l k c script)) by (intros pos; cbn; exact I).
    unfold fresh_world. destruct ext as [[t e]|]; [|exact J00]. destruct (t <=? now); [|exact J00].
    apply (same_fire_ext (XJrel stack) (x_refl stack) (x_trans stack) (x_frame stack)); exact J00. }
  assert (JF : XJ stack (drain (snd (execute fuel stack (fresh_world now ext key b l k c script))))).
  { apply XJ_drain. unfold execute.
    pose proof (compose_XJ stack fuel stack 0%nat (length stack) ltac:(intros i; reflexivity) 0%nat _ J0) as J1.
    destruct (compose fuel 0 stack (length stack) 0%nat (fresh_world now ext key b l k c script)) as [r w1]. cbn [snd] in J1.
    apply (x_emit stack _ KExecDone); [left; reflexivity|]. destruct (pr_all r); apply (x_emit stack w1); try (left; reflexivity); exact J1. }
  intros pos. specialize (JF pos). unfold xst in JF. destruct (xstk pos _) as [[|]|]; [discriminate|discriminate|contradiction].
Qed.

(* ---- the executable form (Corr/ExecCheckers.v exhaustion_ok) accepts every model log, whichever listeners are registered ---- *)
Lemma xfold_filter pos (f : event -> bool) : (forall e, f e = false -> verdict_kind (e_kind e) = false) ->
  forall l s, fold_left (fun s k => xstep pos k s) (map kp (filter f l)) s = fold_left (fun s k => xstep pos k s) (map kp l) s.
Proof.
  intros Hf. induction l as [|e l IH]; intros s; [reflexivity|]. cbn [filter]. destruct (f e) eqn:E; cbn [map fold_left].
  - apply IH.
  - rewrite IH. f_equal. symmetry. apply xstep_neutral. left. cbn [kp fst]. apply Hf, E.
Qed.

Theorem exhaustion_checker_accepts_model fuel stack now ext key b l k c script lsn mask q o :
  q_stack q = stack ->
  x_events o = filter (blsn_keeps mask) (filter (lsn_keeps lsn)
     (rev (w_trace (drain (snd (execute fuel stack (fresh_world now ext key b l k c script))))))) ->
  exhaustion_ok q o = true.
Proof.
  intros Hs Ho. unfold exhaustion_ok. apply forallb_forall. intros pos _. rewrite Ho.
  change (map (fun e => (e_kind e, e_pos e))) with (map kp). unfold xrun.
  rewrite (xfold_filter pos (blsn_keeps mask)).
  2:{ intros e H. unfold blsn_keeps in H. destruct (e_kind e); try discriminate; reflexivity. }
  rewrite (xfold_filter pos (lsn_keeps lsn)).
  2:{ intros e H. unfold lsn_keeps in H. destruct (e_kind e); try discriminate; reflexivity. }
  change (fold_left (fun s k => xstep pos k s) (map kp (rev (w_trace (drain (snd (execute fuel stack (fresh_world now ext key b l k c script))))))) (Some false))
    with (xrun pos (map kp (rev (w_trace (drain (snd (execute fuel stack (fresh_world now ext key b l k c script)))))))).
  rewrite xrun_xstk, <- map_rev, rev_involutive.
  pose proof (exhaustion_is_final fuel stack now ext key b l k c script pos) as H. unfold kps in H.
  destruct (xstk pos _); [reflexivity|contradiction].
Qed.
