(* Proofs/LimiterProofs.v — C05: the code's limiter statistics refine the grant ledger. *)
From FS Require Import Spec.LimiterSpec.
From Coq Require Import ZifyBool.

(* ------------------------------------------------------------------ *)
(* A. the ledger                                                        *)

Lemma count_nonneg l s : 0 <= count l s.
Proof. unfold count. lia. Qed.

Lemma count_cons l x s : count (x :: l) s = count l s + (if Z.eq_dec x s then 1 else 0).
Proof. unfold count. cbn [count_occ]. destruct (Z.eq_dec x s); lia. Qed.

Lemma ledger_max_ge l q : q <= ledger_max l q.
Proof. induction l as [|x l IH]; cbn [ledger_max fold_right]; [lia|]. fold (ledger_max l q). lia. Qed.

Lemma count_above_max l q s : ledger_max l q < s -> count l s = 0.
Proof.
  induction l as [|x l IH]; cbn [ledger_max fold_right]; intros H; [reflexivity|].
  fold (ledger_max l q) in H. rewrite count_cons. rewrite IH by lia.
  destruct (Z.eq_dec x s); lia.
Qed.

Lemma find_free_spec cap l M :
  0 < cap -> (forall s, M < s -> count l s = 0) ->
  forall fuel q, M + 1 - q <= Z.of_nat fuel ->
  let r := find_free cap l q fuel in
  q <= r /\ count l r < cap /\ forall s, q <= s < r -> cap <= count l s.
Proof.
  intros Hcap HM fuel. induction fuel as [|f IH]; intros q Hf; cbn [find_free].
  - repeat split; [lia | rewrite HM by lia; lia | intros s Hs; lia].
  - destruct (count l q <? cap) eqn:E.
    + repeat split; [lia | lia | intros s Hs; lia].
    + specialize (IH (q + 1) ltac:(lia)). cbv zeta in IH. destruct IH as (H1 & H2 & H3).
      repeat split; [lia | exact H2 |].
      intros s Hs. destruct (Z.eq_dec s q) as [->|Hne]; [lia | apply H3; lia].
Qed.

Lemma earliest_free_spec cap l q :
  0 < cap ->
  let r := earliest_free cap l q in
  q <= r /\ count l r < cap /\ forall s, q <= s < r -> cap <= count l s.
Proof.
  intros Hcap. unfold earliest_free.
  apply (find_free_spec cap l (ledger_max l q) Hcap).
  - intros s Hs. apply (count_above_max l q s Hs).
  - pose proof (ledger_max_ge l q). lia.
Qed.

Lemma earliest_free_unique cap l q r :
  0 < cap -> q <= r -> count l r < cap -> (forall s, q <= s < r -> cap <= count l s) ->
  earliest_free cap l q = r.
Proof.
  intros Hcap Hq Hr Hfull.
  destruct (earliest_free_spec cap l q Hcap) as (H1 & H2 & H3).
  destruct (Z.lt_trichotomy (earliest_free cap l q) r) as [Hlt|[Heq|Hgt]]; [|exact Heq|].
  - specialize (Hfull _ (conj H1 Hlt)). lia.
  - specialize (H3 r (conj Hq Hgt)). lia.
Qed.

(* a permit granted in slot s at instant now is usable inside slot s *)
Lemma usable_in_slot w now s : 0 < w -> 0 <= now -> now / w <= s -> Z.max (w * s) now / w = s.
Proof.
  intros Hw Hn Hs.
  destruct (Z.max_spec (w * s) now) as [[Hlt ->]|[Hge ->]].
  - assert (s <= now / w) by (apply Z.div_le_lower_bound; lia). lia.
  - rewrite Z.mul_comm. apply Z.div_mul. lia.
Qed.

(* ------------------------------------------------------------------ *)
(* B. facts about the ledger specification itself                       *)

Definition cap_ok (cap : Z) (l : ledger) : Prop := forall s, count l s <= cap.

Lemma spec_single_props c l now :
  0 < slot_cap c -> 0 < slot_width c -> 0 <= now ->
  let '(w, s) := spec_single c l now in
  0 <= w /\ (now + w) / slot_width c = s /\ now / slot_width c <= s /\
  count l s < slot_cap c /\ (forall p, now / slot_width c <= p < s -> slot_cap c <= count l p).
Proof.
  intros Hc Hw Hn. unfold spec_single.
  destruct (earliest_free_spec (slot_cap c) l (now / slot_width c) Hc) as (H1 & H2 & H3).
  set (s := earliest_free (slot_cap c) l (now / slot_width c)) in *.
  repeat split; [lia | | exact H1 | exact H2 | exact H3].
  replace (now + (Z.max (slot_width c * s) now - now)) with (Z.max (slot_width c * s) now) by lia.
  apply usable_in_slot; assumption.
Qed.

Lemma spec_singles_cap c now k : 0 < slot_cap c ->
  forall l w, cap_ok (slot_cap c) l -> cap_ok (slot_cap c) (snd (spec_singles c l now k w)).
Proof.
  intros Hc. induction k as [|k IH]; intros l w Hl; cbn [spec_singles]; [exact Hl|].
  destruct (spec_single c l now) as [w' s] eqn:E. apply IH.
  unfold spec_single in E. injection E as _ Es.
  destruct (earliest_free_spec (slot_cap c) l (now / slot_width c) Hc) as (_ & H2 & _).
  rewrite Es in H2. intros p. rewrite count_cons. specialize (Hl p).
  destruct (Z.eq_dec s p) as [->|]; lia.
Qed.

Lemma spec_acquire_cap c l now k maxw : 0 < slot_cap c ->
  cap_ok (slot_cap c) l -> cap_ok (slot_cap c) (snd (spec_acquire c l now k maxw)).
Proof.
  intros Hc Hl. unfold spec_acquire.
  pose proof (spec_singles_cap c now (Z.to_nat k) Hc l 0 Hl) as H.
  destruct (spec_singles c l now (Z.to_nat k) 0) as [w l']. cbn [snd] in H.
  destruct (exceeds_max_wait w maxw); cbn [snd]; assumption.
Qed.

Lemma api_step_snd {S} (acq : S -> Z -> Z -> Z -> Z * S) s now op :
  snd (api_step acq s now op) = snd (acq s now (op_permits op) (op_maxw op)).
Proof.
  destruct op; cbn [api_step op_permits op_maxw];
    try (destruct (acq s now k _) as [w s']; reflexivity).
  destruct (acq s now k maxw) as [w s']. destruct (w =? -1); reflexivity.
Qed.

(* no slot (interval slot / period) ever holds more permits than its capacity *)
Lemma spec_capacity c h : 0 < slot_cap c ->
  forall l, cap_ok (slot_cap c) l -> cap_ok (slot_cap c) (spec_final c l h).
Proof.
  intros Hc. induction h as [|[now op] h IH]; intros l Hl; cbn [spec_final]; [exact Hl|].
  apply IH. rewrite api_step_snd. apply spec_acquire_cap; assumption.
Qed.

(* a refused request leaves the ledger untouched *)
Lemma spec_refusal_no_change c l now k maxw :
  fst (spec_acquire c l now k maxw) = -1 -> 0 <= now -> 0 < slot_cap c -> 0 < slot_width c -> 1 <= k ->
  snd (spec_acquire c l now k maxw) = l.
Proof.
  intros H Hn Hc Hw Hk. unfold spec_acquire in *.
  destruct (spec_singles c l now (Z.to_nat k) 0) as [w l'] eqn:E.
  destruct (exceeds_max_wait w maxw); [reflexivity|].
  cbn [fst] in H. exfalso.
  (* a granted wait is never negative *)
  assert (Hw0 : forall k l w0, 0 <= w0 -> 0 <= fst (spec_singles c l now k w0)).
  { clear - Hn Hc Hw. intros k. induction k as [|k IH]; intros l w0 H0; cbn [spec_singles]; [exact H0|].
    pose proof (spec_single_props c l now Hc Hw Hn) as P.
    destruct (spec_single c l now) as [w' s]. apply IH. lia. }
  specialize (Hw0 (Z.to_nat k) l 0 ltac:(lia)). rewrite E in Hw0. cbn [fst] in Hw0. lia.
Qed.

(* ------------------------------------------------------------------ *)
(* C. smoothStats refines the ledger                                    *)

Lemma exceeds_none w : exceeds_max_wait w (-1) = false.
Proof. unfold exceeds_max_wait. rewrite Z.eqb_refl. reflexivity. Qed.

Lemma round_down_eq now i : 0 < i -> round_down now i = i * (now / i).
Proof. intros Hi. unfold round_down. pose proof (Z.div_mod now i ltac:(lia)). lia. Qed.

Lemma smooth_acquire_maxw i nfpt now k maxw :
  smooth_acquire i nfpt now k maxw =
  let '(w, n') := smooth_acquire i nfpt now k (-1) in
  if exceeds_max_wait w maxw then (-1, nfpt) else (w, n').
Proof. unfold smooth_acquire. rewrite exceeds_none. reflexivity. Qed.

(* nextFreePermitTime = interval * (first slot never granted); every slot from
   the last request's slot up to it has been granted *)
Definition smooth_inv (i nfpt : Z) (l : ledger) (tlast : Z) : Prop :=
  exists n, nfpt = i * n /\ 0 <= n /\ (forall s, n <= s -> count l s = 0)
            /\ (forall s, tlast / i <= s < n -> 1 <= count l s).

Lemma smooth_inv_mono i nfpt l t t' : 0 < i -> t <= t' -> smooth_inv i nfpt l t -> smooth_inv i nfpt l t'.
Proof.
  intros Hi Ht (n & H1 & H2 & H3 & H4). exists n. repeat split; try assumption.
  intros s Hs. apply H4. pose proof (Z.div_le_mono t t' i ltac:(lia) Ht). lia.
Qed.

Lemma smooth_single i nfpt l tlast now :
  0 < i -> 0 <= tlast <= now -> smooth_inv i nfpt l tlast ->
  let '(w, nf') := smooth_acquire i nfpt now 1 (-1) in
  let '(w', s) := spec_single (Smooth i) l now in
  w = w' /\ smooth_inv i nf' (s :: l) now /\ now < nf'.
Proof.
  intros Hi Ht (n & -> & Hn & Habove & Hbelow).
  unfold smooth_acquire, spec_single. cbn [slot_cap slot_width]. rewrite exceeds_none.
  rewrite round_down_eq by assumption.
  set (q := now / i).
  assert (Hq : i * q <= now < i * q + i).
  { subst q. pose proof (Z.mul_div_le now i ltac:(lia)). pose proof (Z.mod_pos_bound now i ltac:(lia)).
    pose proof (Z.div_mod now i ltac:(lia)). lia. }
  assert (Htq : tlast / i <= q) by (apply Z.div_le_mono; lia).
  destruct (i * n <=? now) eqn:E.
  - assert (Hnq : n <= q) by (subst q; apply Z.div_le_lower_bound; lia).
    rewrite (earliest_free_unique 1 l q q) by (try lia; rewrite Habove by lia; lia).
    split; [lia|]. split; [|lia].
    exists (q + 1). repeat split; try lia.
    + intros s Hs. rewrite count_cons, Habove by lia. destruct (Z.eq_dec q s); lia.
    + intros s Hs. rewrite count_cons. pose proof (count_nonneg l s). destruct (Z.eq_dec q s); lia.
  - assert (Hqn : q < n) by (subst q; apply Z.div_lt_upper_bound; lia).
    rewrite (earliest_free_unique 1 l q n); try lia.
    + split; [lia|]. split; [|lia].
      exists (n + 1). repeat split; try lia.
      * intros s Hs. rewrite count_cons, Habove by lia. destruct (Z.eq_dec n s); lia.
      * intros s Hs. rewrite count_cons. pose proof (count_nonneg l s).
        destruct (Z.eq_dec n s); [lia|]. specialize (Hbelow s ltac:(lia)). lia.
    + rewrite Habove by lia. lia.
    + intros s Hs. apply Hbelow. lia.
Qed.

(* k+1 permits at once = one permit, then k more at the same instant *)
Lemma smooth_split_front i nfpt now k :
  0 < i -> 0 <= now -> 1 <= k ->
  smooth_acquire i nfpt now (1 + k) (-1) =
  smooth_acquire i (snd (smooth_acquire i nfpt now 1 (-1))) now k (-1).
Proof.
  intros Hi Hn Hk. unfold smooth_acquire. rewrite !exceeds_none. cbn [snd].
  rewrite round_down_eq by assumption.
  assert (Hq : i * (now / i) <= now < i * (now / i) + i).
  { pose proof (Z.mul_div_le now i ltac:(lia)). pose proof (Z.mod_pos_bound now i ltac:(lia)).
    pose proof (Z.div_mod now i ltac:(lia)). lia. }
  destruct (nfpt <=? now) eqn:E.
  - destruct (i * (now / i) + i * 1 <=? now) eqn:E2; [lia|]. f_equal; lia.
  - destruct (nfpt + i * 1 <=? now) eqn:E2; [lia|]. f_equal; lia.
Qed.

Lemma smooth_refines_k i now : 0 < i -> 0 <= now ->
  forall k nfpt l tlast w0,
  0 <= tlast <= now -> smooth_inv i nfpt l tlast ->
  let '(w, nf') := smooth_acquire i nfpt now (Z.of_nat (S k)) (-1) in
  let '(w', l') := spec_singles (Smooth i) l now (S k) w0 in
  w = w' /\ smooth_inv i nf' l' now.
Proof.
  intros Hi Hn. induction k as [|k IH]; intros nfpt l tlast w0 Ht Hinv.
  - cbn [spec_singles]. change (Z.of_nat 1) with 1.
    pose proof (smooth_single i nfpt l tlast now Hi Ht Hinv) as H.
    destruct (smooth_acquire i nfpt now 1 (-1)) as [w nf'].
    destruct (spec_single (Smooth i) l now) as [w' s]. tauto.
  - replace (Z.of_nat (S (S k))) with (1 + Z.of_nat (S k)) by lia.
    rewrite smooth_split_front by lia.
    pose proof (smooth_single i nfpt l tlast now Hi Ht Hinv) as H.
    destruct (smooth_acquire i nfpt now 1 (-1)) as [w1 n1]. cbn [snd].
    cbn [spec_singles]. destruct (spec_single (Smooth i) l now) as [w1' s].
    destruct H as (_ & Hinv1 & _).
    exact (IH n1 (s :: l) now w1' ltac:(lia) Hinv1).
Qed.

Lemma smooth_refines i nfpt l tlast now k maxw :
  0 < i -> 0 <= tlast <= now -> 1 <= k -> smooth_inv i nfpt l tlast ->
  let '(w, nf') := smooth_acquire i nfpt now k maxw in
  let '(w', l') := spec_acquire (Smooth i) l now k maxw in
  w = w' /\ smooth_inv i nf' l' now.
Proof.
  intros Hi Ht Hk Hinv. rewrite smooth_acquire_maxw. unfold spec_acquire.
  destruct (Z.to_nat k) as [|k'] eqn:Ek; [lia|].
  replace k with (Z.of_nat (S k')) by lia.
  pose proof (smooth_refines_k i now Hi ltac:(lia) k' nfpt l tlast 0 Ht Hinv) as H.
  destruct (smooth_acquire i nfpt now (Z.of_nat (S k')) (-1)) as [w nf'].
  destruct (spec_singles (Smooth i) l now (S k') 0) as [w' l'].
  destruct H as [-> Hinv']. destruct (exceeds_max_wait w' maxw).
  - split; [reflexivity|]. apply (smooth_inv_mono i nfpt l tlast now); [assumption|lia|assumption].
  - split; [reflexivity|assumption].
Qed.

(* ------------------------------------------------------------------ *)
(* D. burstyStats refines the ledger                                    *)

Definition clamp (x lo hi : Z) : Z := Z.max lo (Z.min x hi).

(* permits the ledger must hold in period p >= cur, given the balance *)
Definition expected (pp avail cur p : Z) : Z := clamp (pp * (cur + 1 - p) - avail) 0 pp.

Definition bursty_inv (pp period : Z) (s : bursty) (l : ledger) (tlast : Z) : Prop :=
  b_cur s = tlast / period /\ b_avail s <= pp /\
  forall p, b_cur s <= p -> count l p = expected pp (b_avail s) (b_cur s) p.

Lemma bursty_acquire_maxw pp period s now k maxw :
  -1 <= maxw ->
  bursty_acquire pp period s now k maxw =
  let '(w, s') := bursty_acquire pp period s now k (-1) in
  if exceeds_max_wait w maxw then (-1, bursty_roll true pp period s now) else (w, s').
Proof.
  intros Hm. unfold bursty_acquire, bursty_acquire_gen. rewrite exceeds_none.
  destruct (b_avail (bursty_roll true pp period s now) <? k); [reflexivity|].
  unfold exceeds_max_wait. destruct (maxw =? -1) eqn:E; cbn [negb andb]; [reflexivity|].
  destruct (maxw <? 0) eqn:E2; [lia|reflexivity].
Qed.

Lemma clamp_id x pp : 0 <= x <= pp -> clamp x 0 pp = x.
Proof. unfold clamp. lia. Qed.
Lemma clamp_lo x pp : 0 <= pp -> x <= 0 -> clamp x 0 pp = 0.
Proof. unfold clamp. lia. Qed.
Lemma clamp_hi x pp : 0 <= pp -> pp <= x -> clamp x 0 pp = pp.
Proof. unfold clamp. lia. Qed.

(* the roll-over keeps the relation between balance and ledger *)
Lemma bursty_roll_inv pp period s l tlast now :
  0 < pp -> 0 < period -> 0 <= tlast <= now ->
  bursty_inv pp period s l tlast -> bursty_inv pp period (bursty_roll true pp period s now) l now.
Proof.
  intros Hpp Hper Ht (Hcur & Hav & Hcnt). unfold bursty_roll.
  pose proof (Z.div_le_mono tlast now period ltac:(lia) ltac:(lia)) as Hdiv.
  destruct (b_cur s <? now / period) eqn:E.
  - split; [reflexivity|]. cbn [b_cur b_avail].
    set (e := now / period - b_cur s) in *. assert (He : 1 <= e) by lia.
    destruct (b_avail s <? 0) eqn:Ea.
    + split; [lia|]. intros p Hp. rewrite Hcnt by lia. unfold expected.
      replace (now / period) with (b_cur s + e) in * by lia.
      destruct (Z.min_spec (b_avail s + e * pp) pp) as [[Hlt ->]|[Hge ->]].
      * f_equal. lia.
      * rewrite !clamp_lo; try lia; nia.
    + split; [lia|]. intros p Hp. rewrite Hcnt by lia. unfold expected.
      replace (now / period) with (b_cur s + e) in * by lia.
      rewrite !clamp_lo; try lia; nia.
  - split; [lia|]. split; assumption.
Qed.

Lemma bursty_roll_idem pp period s now :
  bursty_roll true pp period (bursty_roll true pp period s now) now = bursty_roll true pp period s now.
Proof.
  unfold bursty_roll at 1. destruct (b_cur (bursty_roll true pp period s now) <? now / period) eqn:E; [|reflexivity].
  exfalso. unfold bursty_roll in E. destruct (b_cur s <? now / period) eqn:E2; cbn [b_cur] in E; lia.
Qed.

Lemma bursty_roll_cur pp period s tlast now :
  b_cur s = tlast / period -> 0 < period -> tlast <= now ->
  b_cur (bursty_roll true pp period s now) = now / period.
Proof.
  intros Hc Hp Ht. pose proof (Z.div_le_mono tlast now period ltac:(lia) Ht).
  unfold bursty_roll. destruct (b_cur s <? now / period) eqn:E; cbn [b_cur]; lia.
Qed.

(* one permit from a state whose period is already the request's period *)
Lemma bursty_single pp period s l now :
  0 < pp -> 0 < period -> 0 <= now ->
  bursty_inv pp period s l now ->
  let '(w, s') := bursty_acquire pp period s now 1 (-1) in
  let '(w', p) := spec_single (Bursty pp period) l now in
  w = w' /\ bursty_inv pp period s' (p :: l) now /\ s' = {| b_avail := b_avail s - 1; b_cur := b_cur s |}.
Proof.
  intros Hpp Hper Hn (Hcur & Hav & Hcnt).
  unfold bursty_acquire, bursty_acquire_gen. rewrite exceeds_none.
  assert (Hroll : bursty_roll true pp period s now = s).
  { unfold bursty_roll. destruct (b_cur s <? now / period) eqn:E; [lia|reflexivity]. }
  rewrite Hroll. unfold spec_single. cbn [slot_cap slot_width].
  set (cur := b_cur s) in *. set (a := b_avail s) in *. rewrite <- Hcur.
  assert (Hq : period * cur <= now < period * cur + period).
  { rewrite Hcur. pose proof (Z.mul_div_le now period ltac:(lia)). pose proof (Z.mod_pos_bound now period ltac:(lia)).
    pose proof (Z.div_mod now period ltac:(lia)). lia. }
  destruct (a <? 1) eqn:E.
  - (* deficit: the permit comes from a later period *)
    set (d := 1 - a). assert (Hd : 1 <= d) by lia.
    pose proof (Z.div_mod d pp ltac:(lia)) as Hdm. pose proof (Z.mod_pos_bound d pp ltac:(lia)) as Hmb.
    set (j := if d mod pp =? 0 then d / pp - 1 else d / pp).
    assert (Hj : 0 <= j /\ pp * j < d <= pp * j + pp).
    { subst j. destruct (d mod pp =? 0) eqn:Em; nia. }
    rewrite (earliest_free_unique pp l cur (cur + 1 + j)); try lia.
    + split; [nia|]. split; [|reflexivity].
      split; [exact Hcur|]. cbn [b_avail b_cur]. fold cur. split; [lia|].
      intros p Hp. rewrite count_cons, Hcnt by lia. unfold expected. fold a.
      destruct (Z.eq_dec (cur + 1 + j) p) as [<-|Hne].
      * rewrite !clamp_id; nia.
      * destruct (Z_lt_le_dec p (cur + 1 + j)).
        -- rewrite !clamp_hi; try lia; nia.
        -- rewrite !clamp_lo; try lia; nia.
    + rewrite Hcnt by lia. unfold expected. fold a. rewrite clamp_id; nia.
    + intros p Hp. rewrite Hcnt by lia. unfold expected. fold a. rewrite clamp_hi; try lia; nia.
  - (* a permit is available in the current period *)
    rewrite (earliest_free_unique pp l cur cur); try lia.
    + split; [lia|]. split; [|reflexivity].
      split; [exact Hcur|]. cbn [b_avail b_cur]. fold cur. split; [lia|].
      intros p Hp. rewrite count_cons, Hcnt by lia. unfold expected. fold a.
      destruct (Z.eq_dec cur p) as [<-|Hne].
      * rewrite !clamp_id; nia.
      * rewrite !clamp_lo; try lia; nia.
    + rewrite Hcnt by lia. unfold expected. fold a. rewrite clamp_id; nia.
Qed.

Lemma bursty_split_front pp period s now k :
  1 <= k ->
  bursty_acquire pp period s now (1 + k) (-1) =
  bursty_acquire pp period (snd (bursty_acquire pp period s now 1 (-1))) now k (-1).
Proof.
  intros Hk. unfold bursty_acquire, bursty_acquire_gen. rewrite !exceeds_none.
  set (r := bursty_roll true pp period s now).
  assert (Hr : forall a, bursty_roll true pp period {| b_avail := a; b_cur := b_cur r |} now
                         = {| b_avail := a; b_cur := b_cur r |}).
  { intros a. unfold bursty_roll at 1. cbn [b_cur b_avail].
    destruct (b_cur r <? now / period) eqn:E; [|reflexivity]. exfalso.
    subst r. unfold bursty_roll in E. destruct (b_cur s <? now / period) eqn:E2; cbn [b_cur] in E; lia. }
  destruct (b_avail r <? 1) eqn:E1; cbn [snd]; rewrite Hr; cbn [b_avail b_cur].
  - destruct (b_avail r <? 1 + k) eqn:E2; [|lia].
    destruct (b_avail r - 1 <? k) eqn:E3; [|lia].
    replace (k - (b_avail r - 1)) with (1 + k - b_avail r) by lia.
    f_equal. f_equal. lia.
  - destruct (b_avail r <? 1 + k) eqn:E2; destruct (b_avail r - 1 <? k) eqn:E3; try lia.
    + replace (k - (b_avail r - 1)) with (1 + k - b_avail r) by lia. f_equal. f_equal. lia.
    + f_equal. f_equal. lia.
Qed.

Lemma bursty_refines_k pp period now : 0 < pp -> 0 < period -> 0 <= now ->
  forall k s l w0,
  bursty_inv pp period s l now ->
  let '(w, s') := bursty_acquire pp period s now (Z.of_nat (S k)) (-1) in
  let '(w', l') := spec_singles (Bursty pp period) l now (S k) w0 in
  w = w' /\ bursty_inv pp period s' l' now.
Proof.
  intros Hpp Hper Hn. induction k as [|k IH]; intros s l w0 Hinv.
  - cbn [spec_singles]. change (Z.of_nat 1) with 1.
    pose proof (bursty_single pp period s l now Hpp Hper Hn Hinv) as H.
    destruct (bursty_acquire pp period s now 1 (-1)) as [w s'].
    destruct (spec_single (Bursty pp period) l now) as [w' p]. tauto.
  - replace (Z.of_nat (S (S k))) with (1 + Z.of_nat (S k)) by lia.
    rewrite bursty_split_front by lia.
    pose proof (bursty_single pp period s l now Hpp Hper Hn Hinv) as H.
    destruct (bursty_acquire pp period s now 1 (-1)) as [w1 s1]. cbn [snd].
    cbn [spec_singles]. destruct (spec_single (Bursty pp period) l now) as [w1' p].
    destruct H as (_ & Hinv1 & _).
    exact (IH s1 (p :: l) w1' Hinv1).
Qed.

Lemma bursty_acquire_rolls pp period s now k :
  bursty_acquire pp period s now k (-1) =
  bursty_acquire pp period (bursty_roll true pp period s now) now k (-1).
Proof. unfold bursty_acquire, bursty_acquire_gen. rewrite bursty_roll_idem. reflexivity. Qed.

Lemma bursty_refines pp period s l tlast now k maxw :
  0 < pp -> 0 < period -> 0 <= tlast <= now -> 1 <= k -> -1 <= maxw ->
  bursty_inv pp period s l tlast ->
  let '(w, s') := bursty_acquire pp period s now k maxw in
  let '(w', l') := spec_acquire (Bursty pp period) l now k maxw in
  w = w' /\ bursty_inv pp period s' l' now.
Proof.
  intros Hpp Hper Ht Hk Hm Hinv. rewrite bursty_acquire_maxw by assumption. unfold spec_acquire.
  pose proof (bursty_roll_inv pp period s l tlast now Hpp Hper Ht Hinv) as Hinv0.
  rewrite bursty_acquire_rolls.
  destruct (Z.to_nat k) as [|k'] eqn:Ek; [lia|].
  replace k with (Z.of_nat (S k')) by lia.
  pose proof (bursty_refines_k pp period now Hpp Hper ltac:(lia) k' _ l 0 Hinv0) as H.
  destruct (bursty_acquire pp period (bursty_roll true pp period s now) now (Z.of_nat (S k')) (-1)) as [w s'].
  destruct (spec_singles (Bursty pp period) l now (S k') 0) as [w' l'].
  destruct H as [-> Hinv']. destruct (exceeds_max_wait w' maxw); split; try reflexivity; assumption.
Qed.

(* ------------------------------------------------------------------ *)
(* E. the limiter API over the code's statistics = the API over the ledger *)

Definition lim_rel (c : lcfg) (s : lstate) (l : ledger) (tlast : Z) : Prop :=
  match c, s with
  | Smooth i, SSmooth n => smooth_inv i n l tlast
  | Bursty pp p, SBursty b => bursty_inv pp p b l tlast
  | _, _ => False
  end.

Lemma lim_rel_init c : cfg_ok c = true -> lim_rel c (lim_init c) [] 0.
Proof.
  destruct c as [i|pp p]; cbn [cfg_ok lim_init lim_rel]; intros H.
  - apply Z.ltb_lt in H. exists 0. repeat split; try lia.
    + intros s Hs. rewrite Z.div_0_l in Hs by lia. lia.
  - apply andb_true_iff in H. destruct H as [H1 H2]. apply Z.ltb_lt in H1, H2.
    split; [cbn [b_cur]; rewrite Z.div_0_l by lia; reflexivity|]. cbn [b_avail b_cur]. split; [lia|].
    intros q Hq. unfold expected. change (count [] q) with 0. rewrite clamp_lo; nia.
Qed.

Lemma lim_acquire_refines c s l tlast now k maxw :
  cfg_ok c = true -> 0 <= tlast <= now -> 1 <= k -> -1 <= maxw -> lim_rel c s l tlast ->
  let '(w, s') := lim_acquire c s now k maxw in
  let '(w', l') := spec_acquire c l now k maxw in
  w = w' /\ lim_rel c s' l' now.
Proof.
  intros Hc Ht Hk Hm Hrel. destruct c as [i|pp p]; destruct s as [n|b]; cbn [lim_rel] in Hrel; try contradiction;
    cbn [cfg_ok] in Hc; cbn [lim_acquire].
  - apply Z.ltb_lt in Hc. pose proof (smooth_refines i n l tlast now k maxw ltac:(lia) Ht Hk Hrel) as H.
    destruct (smooth_acquire i n now k maxw) as [w n'].
    destruct (spec_acquire (Smooth i) l now k maxw) as [w' l']. exact H.
  - apply andb_true_iff in Hc. destruct Hc as [H1 H2]. apply Z.ltb_lt in H1, H2.
    pose proof (bursty_refines pp p b l tlast now k maxw ltac:(lia) ltac:(lia) Ht Hk Hm Hrel) as H.
    destruct (bursty_acquire pp p b now k maxw) as [w b'].
    destruct (spec_acquire (Bursty pp p) l now k maxw) as [w' l']. exact H.
Qed.

Lemma api_step_refines c s l tlast now op :
  cfg_ok c = true -> 0 <= tlast <= now -> 1 <= op_permits op -> -1 <= op_maxw op -> lim_rel c s l tlast ->
  fst (api_step (lim_acquire c) s now op) = fst (api_step (spec_acquire c) l now op)
  /\ lim_rel c (snd (api_step (lim_acquire c) s now op)) (snd (api_step (spec_acquire c) l now op)) now.
Proof.
  intros Hc Ht Hk Hm Hrel.
  pose proof (lim_acquire_refines c s l tlast now (op_permits op) (op_maxw op) Hc Ht Hk Hm Hrel) as H.
  destruct op; cbn [op_permits op_maxw api_step] in *;
    destruct (lim_acquire c s now k _) as [w s']; destruct (spec_acquire c l now k _) as [w' l'];
    destruct H as [-> Hrel']; try (split; [reflexivity|exact Hrel']).
  destruct (w' =? -1); split; try reflexivity; exact Hrel'.
Qed.

Theorem lim_refines_ledger_from c : cfg_ok c = true ->
  forall h s l tlast, 0 <= tlast -> hist_ok tlast h = true -> lim_rel c s l tlast ->
  lim_run c s h = spec_run c l h.
Proof.
  intros Hc. induction h as [|[now op] h IH]; intros s l tlast Ht Hh Hrel; [reflexivity|].
  cbn [hist_ok] in Hh. unfold lim_run, spec_run. cbn [api_run].
  pose proof (api_step_refines c s l tlast now op Hc ltac:(lia) ltac:(lia) ltac:(lia) Hrel) as [Ho Hr].
  destruct (api_step (lim_acquire c) s now op) as [o s'].
  destruct (api_step (spec_acquire c) l now op) as [o' l']. cbn [fst snd] in *. subst o'.
  f_equal. apply (IH s' l' now); [lia|lia|exact Hr].
Qed.

Theorem lim_refines_ledger c h : cfg_ok c = true -> hist_ok 0 h = true ->
  lim_run c (lim_init c) h = spec_run c [] h.
Proof.
  intros Hc Hh. apply (lim_refines_ledger_from c Hc h _ _ 0); [lia|exact Hh|apply lim_rel_init; exact Hc].
Qed.

(* every reachable limiter state is related to some ledger *)
Lemma reachable_rel c : cfg_ok c = true ->
  forall h0 rest s l tlast, 0 <= tlast -> hist_ok tlast (h0 ++ rest) = true -> lim_rel c s l tlast ->
  exists l' t', lim_rel c (api_final (lim_acquire c) s h0) l' t' /\ 0 <= t' /\ hist_ok t' rest = true.
Proof.
  intros Hc. induction h0 as [|[now op] h0 IH]; intros rest s l tlast Ht Hh Hrel.
  - exists l, tlast. cbn [api_final app] in *. auto.
  - cbn [app hist_ok] in Hh. cbn [api_final].
    pose proof (api_step_refines c s l tlast now op Hc ltac:(lia) ltac:(lia) ltac:(lia) Hrel) as [_ Hr].
    apply (IH rest _ (snd (api_step (spec_acquire c) l now op)) now); [lia|lia|exact Hr].
Qed.

Lemma hist_ok_weaken t t' h : t <= t' -> hist_ok t' h = true -> hist_ok t h = true.
Proof. destruct h as [|[now op] h]; cbn [hist_ok]; intros; lia. Qed.

(* a refused request is invisible to everything that follows *)
Lemma refusal_invisible_rel c s l tlast now k maxw :
  cfg_ok c = true -> 0 <= tlast <= now -> 1 <= k -> -1 <= maxw -> lim_rel c s l tlast ->
  fst (lim_acquire c s now k maxw) = -1 ->
  forall h, hist_ok now h = true ->
  lim_run c (snd (lim_acquire c s now k maxw)) h = lim_run c s h.
Proof.
  intros Hc Ht Hk Hm Hrel Href h Hh.
  pose proof (lim_acquire_refines c s l tlast now k maxw Hc Ht Hk Hm Hrel) as H.
  destruct (lim_acquire c s now k maxw) as [w s'] eqn:E1.
  destruct (spec_acquire c l now k maxw) as [w' l'] eqn:E2. cbn [fst snd] in *.
  destruct H as [Hw Hrel']. subst w.
  assert (Hl : l' = l).
  { pose proof (spec_refusal_no_change c l now k maxw) as Hs. rewrite E2 in Hs. cbn [fst snd] in Hs.
    apply Hs; try lia.
    - destruct c; cbn [cfg_ok slot_cap] in *; lia.
    - destruct c; cbn [cfg_ok slot_width] in *; lia. }
  subst l'.
  rewrite (lim_refines_ledger_from c Hc h s' l now ltac:(lia) Hh Hrel').
  rewrite (lim_refines_ledger_from c Hc h s l tlast ltac:(lia) (hist_ok_weaken tlast now h ltac:(lia) Hh) Hrel).
  reflexivity.
Qed.

Theorem refusal_invisible c h0 now op h :
  cfg_ok c = true -> hist_ok 0 (h0 ++ (now, op) :: h) = true ->
  let s := api_final (lim_acquire c) (lim_init c) h0 in
  fst (lim_acquire c s now (op_permits op) (op_maxw op)) = -1 ->
  lim_run c (snd (api_step (lim_acquire c) s now op)) h = lim_run c s h.
Proof.
  intros Hc Hh s Href.
  destruct (reachable_rel c Hc h0 ((now, op) :: h) (lim_init c) [] 0 ltac:(lia) Hh (lim_rel_init c Hc))
    as (l & t & Hrel & Ht & Hrest).
  fold s in Hrel. cbn [hist_ok] in Hrest. rewrite api_step_snd.
  apply (refusal_invisible_rel c s l t now); try lia; assumption.
Qed.

(* the ledger of a whole run never over-fills a slot, and what the code returns is the ledger's answer *)
Theorem capacity_respected c h s : cfg_ok c = true ->
  count (spec_final c [] h) s <= slot_cap c.
Proof.
  intros Hc. apply spec_capacity.
  - destruct c; cbn [cfg_ok slot_cap] in *; lia.
  - intros q. cbn. destruct c; cbn [cfg_ok slot_cap] in *; lia.
Qed.

(* ------------------------------------------------------------------ *)
(* Finding F1 (repaired by a fix: commit): the roll-over as it was.     *)
Definition f1_hist : list (Z * lop) :=
  [(0, OpReserve 3); (2000000001, OpTryAcquire 1); (2000000001, OpTryAcquire 1); (2000000001, OpTryAcquire 1)].

Lemma bursty_overshoot_before_fix :
  map o_val (api_run (bursty_acquire_prefix 2 1000000000) {| b_avail := 2; b_cur := 0 |} f1_hist)
  = [1000000000; 1; 1; 1].
Proof. vm_compute. reflexivity. Qed.
