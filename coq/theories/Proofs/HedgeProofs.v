(* Proofs/HedgeProofs.v — C09: bounded, spaced attempts; losers cancelled, winner not *)
From FS Require Import Model.Hedge.
From Coq Require Import ZifyBool.

(* start instants prescribed by the delays: T_0 = t0, T_{k+1} = T_k + delay_k *)
Fixpoint sched (c : hcfg) (t0 : Z) (k : nat) : Z :=
  match k with O => t0 | S k' => sched c t0 k' + nth_delay c k' end.

Definition good (c : hcfg) (t0 : Z) (o : hobs) : Prop :=
  (length (ho_starts o) <= S (h_max c))%nat
  /\ (forall i, (i < length (ho_starts o))%nat -> nth i (ho_starts o) 0 = sched c t0 i)
  /\ (match ho_winner o with
      | Some w => (w < length (ho_starts o))%nat /\ length (ho_cancelled o) = length (ho_starts o)
                  /\ forall i, (i < length (ho_starts o))%nat -> nth i (ho_cancelled o) false = negb (Nat.eqb i w)
      | None => True
      end).

Lemma settle_winner_in c rs : forall count until acc rs' count',
  settle c rs count until = (Some acc, rs', count') -> In acc rs.
Proof.
  induction rs as [|r rs IH]; intros count until acc rs' count' H; cbn [settle] in H; [discriminate|].
  destruct (match until with Some u => r_finish r <? u | None => true end); [|discriminate].
  destruct (_ || _).
  - injection H as <- _ _. left. reflexivity.
  - right. eapply IH. exact H.
Qed.

Lemma settle_rest_subset c rs : forall count until acc rs' count',
  settle c rs count until = (acc, rs', count') -> forall x, In x rs' -> In x rs.
Proof.
  induction rs as [|r rs IH]; intros count until acc rs' count' H x Hx; cbn [settle] in H.
  - injection H as _ <- _. exact Hx.
  - destruct (match until with Some u => r_finish r <? u | None => true end).
    + destruct (_ || _).
      * injection H as _ <- _. right. exact Hx.
      * right. eapply IH; eauto.
    + injection H as _ <- _. exact Hx.
Qed.

Lemma in_insert_run r l x : In x (insert_run r l) -> x = r \/ In x l.
Proof.
  induction l as [|y l IH]; cbn [insert_run]; intros H.
  - destruct H as [<-|[]]. left; reflexivity.
  - destruct (r_finish r <? r_finish y).
    + destruct H as [<-|H]; [left; reflexivity|right; exact H].
    + destruct H as [<-|H]; [right; left; reflexivity|]. destruct (IH H) as [->|H']; [left; reflexivity|right; right; exact H'].
Qed.

Lemma nth_rev_cons_last {A} (l : list A) x d : nth (length l) (rev (x :: l)) d = x.
Proof. cbn [rev]. rewrite app_nth2; rewrite rev_length; [|lia]. rewrite Nat.sub_diag. reflexivity. Qed.

Theorem hedge_loop_good c atts ext t0 : forall fuel k tk rs count starts tie,
  (k <= h_max c)%nat -> length starts = k -> tk = sched c t0 k ->
  (forall i, (i < k)%nat -> nth i (rev starts) 0 = sched c t0 i) ->
  (forall x, In x rs -> (r_idx x < k)%nat) ->
  good c t0 (hedge_loop fuel c atts ext k tk rs count starts tie).
Proof.
  induction fuel as [|fuel IH]; intros k tk rs count starts tie Hk Hlen Htk Hst Hrs; cbn [hedge_loop].
  - unfold good. cbn [ho_starts ho_winner ho_cancelled]. rewrite rev_length, Hlen. repeat split; try lia. exact Hst.
  - set (a := nth k atts _).
    set (fin := match ext with Some (tc, _) => _ | None => _ end).
    set (out := match ext with Some (tc, e) => _ | None => a_out a end).
    set (rs1 := insert_run _ rs).
    set (bound := match (if Nat.ltb k (h_max c) then Some (tk + nth_delay c k) else None), ext with
                  | Some t, Some (tc, _) => _ | Some t, None => Some t | None, Some (tc, _) => _ | None, None => None end).
    destruct (settle c rs1 count bound) as [[acc rs2] count2] eqn:Es.
    assert (Hstarts1 : forall i, (i < S k)%nat -> nth i (rev (tk :: starts)) 0 = sched c t0 i).
    { intros i Hi. destruct (Nat.eq_dec i k) as [->|Hne].
      - rewrite <- Hlen. rewrite nth_rev_cons_last. rewrite Hlen. exact Htk.
      - cbn [rev]. rewrite app_nth1 by (rewrite rev_length; lia). apply Hst. lia. }
    assert (Hlen1 : length (rev (tk :: starts)) = S k) by (rewrite rev_length; cbn [length]; lia).
    assert (Hrs1 : forall x, In x rs1 -> (r_idx x < S k)%nat).
    { intros x Hx. subst rs1. apply in_insert_run in Hx. destruct Hx as [->|Hx]; [cbn; lia|]. specialize (Hrs x Hx). lia. }
    destruct (match ext with Some (tc, _) => tc <=? _ | None => false end).
    + unfold good. cbn [ho_starts ho_winner ho_cancelled]. rewrite Hlen1. repeat split; try lia. exact Hstarts1.
    + destruct acc as [r|].
      * unfold good. cbn [ho_starts ho_winner ho_cancelled]. rewrite Hlen1. cbn [length]. rewrite Hlen.
        repeat split; try lia; try exact Hstarts1.
        -- apply Hrs1. eapply settle_winner_in. exact Es.
        -- rewrite map_length, seq_length. reflexivity.
        -- intros i Hi. rewrite (nth_indep _ false (negb (Nat.eqb (S k) (r_idx r)))) by (rewrite map_length, seq_length; lia).
           rewrite (map_nth (fun i => negb (Nat.eqb i (r_idx r))) (seq 0 (S k)) (S k) i). rewrite seq_nth by lia. reflexivity.
      * destruct (Nat.ltb k (h_max c)) eqn:Elt.
        -- apply Nat.ltb_lt in Elt. apply IH; try lia.
           ++ cbn [length]. lia.
           ++ cbn [sched]. lia.
           ++ exact Hstarts1.
           ++ intros x Hx. apply Hrs1. eapply settle_rest_subset; eauto.
        -- unfold good. cbn [ho_starts ho_winner ho_cancelled]. rewrite Hlen1. repeat split; try lia. exact Hstarts1.
Qed.

(* C09: at most maxHedges + 1 attempts are started; attempt k starts exactly after the first k hedge
   delays (never earlier); when a result is accepted it comes from a started attempt, every other
   started attempt is cancelled and the winner is not *)
Theorem hedge_run_good c atts ext t0 : good c t0 (hedge_run c atts ext t0).
Proof.
  unfold hedge_run. apply hedge_loop_good.
  - lia.
  - reflexivity.
  - reflexivity.
  - intros i Hi. inversion Hi.
  - intros x [].
Qed.
