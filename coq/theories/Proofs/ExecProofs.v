(* Proofs/ExecProofs.v — theorems about single layers of Model/Exec.v, each for an ARBITRARY inner
   layer, hence for every composition and depth below it (C01, C02, C10, C11, C16, C17). *)
From FS Require Import Model.Exec.
From Coq Require Import ZifyBool.

(* ------------------------------------------------------------------ *)
(* 0. frame facts: which fields the building blocks touch               *)

Ltac w_simpl := cbn [w_now w_start w_attempts w_retries w_executions w_cell w_seq w_scopes w_copies w_ext w_ctxkey
                     w_breakers w_limiters w_bulkheads w_caches w_retry w_script w_trace w_oof w_hedges w_bg w_hs
                     set_now set_counters set_cell set_scopes set_copies set_insts set_retry set_script set_trace set_oof set_hedge
                     emit stamp ev_with_result set_copy_last] in *.

(* the fields that neither a cancellation source nor the return of a background hedge attempt ever touches *)
Record same_policy_state (w w' : world) : Prop := {
  sp_retry : w_retry w' = w_retry w; sp_att : w_attempts w' = w_attempts w; sp_ret : w_retries w' = w_retries w;
  sp_start : w_start w' = w_start w;
  sp_br : w_breakers w' = w_breakers w; sp_li : w_limiters w' = w_limiters w;
  sp_bu : w_bulkheads w' = w_bulkheads w; sp_ca : w_caches w' = w_caches w; sp_key : w_ctxkey w' = w_ctxkey w;
  sp_script : w_script w' = w_script w }.

Lemma sps_refl w : same_policy_state w w.
Proof. constructor; reflexivity. Qed.

Lemma sps_trans a b c : same_policy_state a b -> same_policy_state b c -> same_policy_state a c.
Proof. intros [] []. constructor; congruence. Qed.

Lemma mark_done_sps w s e : same_policy_state w (mark_done w s e).
Proof. unfold mark_done. destruct (sc_done (get_scope w s)); [apply sps_refl|]. constructor; reflexivity. Qed.

Lemma fire_timeout_sps w s : same_policy_state w (fire_timeout w s).
Proof.
  unfold fire_timeout.
  match goal with |- context [copy_err ?w2 ?c] => destruct (copy_err w2 c) end.
  - constructor; reflexivity.
  - eapply sps_trans; [|apply mark_done_sps]. constructor; reflexivity.
Qed.

Lemma fire_ext_sps w e : same_policy_state w (fire_ext w e).
Proof.
  unfold fire_ext.
  assert (H0 : same_policy_state w (set_scopes w (w_scopes w) (w_seq w) None)) by (constructor; reflexivity).
  destruct e; try (eapply sps_trans; [exact H0|apply mark_done_sps]).
  destruct (copy_err _ 0%nat); [exact H0|].
  eapply sps_trans; [|apply mark_done_sps]. constructor; reflexivity.
Qed.

Lemma set_now_sps w t : same_policy_state w (set_now w t).
Proof. constructor; reflexivity. Qed.

Lemma set_oof_sps w : same_policy_state w (set_oof w).
Proof. constructor; reflexivity. Qed.

Lemma finish_bg_sps w b : same_policy_state w (finish_bg w b).
Proof. unfold finish_bg. match goal with |- context [if ?c then _ else _] => destruct c end; constructor; reflexivity. Qed.

Lemma refresh_bg_sps w : same_policy_state w (refresh_bg w).
Proof. unfold refresh_bg. match goal with |- context [if ?c then _ else _] => destruct c end; constructor; reflexivity. Qed.

Lemma settle_sps w t : same_policy_state w (settle w t).
Proof. destruct t; [apply set_now_sps|apply sps_refl]. Qed.

Lemma advance_sps fuel : forall w t intr acc, same_policy_state w (snd (advance fuel w t intr acc)).
Proof.
  induction fuel as [|fuel IH]; intros w t intr acc; cbn [advance].
  - destruct (match intr with Some c => _ | None => false end); cbn [snd]; [apply sps_refl|].
    destruct (acc && _); cbn [snd]; [apply sps_refl|apply settle_sps].
  - destruct (match intr with Some c => _ | None => false end); cbn [snd]; [apply sps_refl|].
    destruct (acc && _); cbn [snd]; [apply sps_refl|].
    match goal with |- context [if ?c then _ else _] => destruct c end.
    + destruct (bg_earliest (w_bg w)) as [b|]; [|apply settle_sps].
      destruct (due (bg_finish b) t); [|apply settle_sps].
      eapply sps_trans; [|apply IH].
      eapply sps_trans; [|apply finish_bg_sps].
      eapply sps_trans; [|apply set_now_sps].
      match goal with |- context [if ?c then _ else _] => destruct c end; [apply set_oof_sps|apply sps_refl].
    + destruct (next_timer w) as [[tt src]|]; [|apply settle_sps].
      destruct (due tt t); [|apply settle_sps].
      eapply sps_trans; [|apply IH].
      eapply sps_trans; [|apply refresh_bg_sps].
      match goal with |- context [set_now (if ?c then set_oof w else w) _] => set (w0 := if c then set_oof w else w) end.
      assert (H0 : same_policy_state w w0) by (subst w0; match goal with |- context [if ?c then _ else _] => destruct c end; [apply set_oof_sps|apply sps_refl]).
      eapply sps_trans; [exact H0|]. eapply sps_trans; [apply set_now_sps|].
      destruct src as [s|]; [apply fire_timeout_sps|]. destruct (w_ext w) as [[? e]|]; [apply fire_ext_sps|apply sps_refl].
Qed.

Lemma wait_sps w d intr : same_policy_state w (snd (wait w d intr)).
Proof. apply advance_sps. Qed.

(* ------------------------------------------------------------------ *)
(* 1. C11 — cache                                                       *)

(* a hit returns the cached value with no error and does not run anything inside the cache policy:
   the result does not depend on the inner layer at all, and the world only gains the hit event *)
Theorem cache_hit_skips_inner pos inst cfg (inner : layer) c w v :
  cache_key w cfg <> 0 -> cache_get (nth inst (w_caches w) []) (cache_key w cfg) = Some v ->
  cache_layer pos inst cfg inner c w = (all_true (v, None), emit w KCacheHit pos (v, None) 0).
Proof.
  intros Hk Hg. unfold cache_layer. destruct (cache_key w cfg =? 0) eqn:E; [lia|]. rewrite Hg. reflexivity.
Qed.

(* a miss returns the inner result unchanged (value, error and flags) *)
Theorem cache_miss_returns_inner pos inst cfg (inner : layer) c w :
  (cache_key w cfg = 0 \/ cache_get (nth inst (w_caches w) []) (cache_key w cfg) = None) ->
  fst (cache_layer pos inst cfg inner c w) = fst (inner c (stamp (emit w KCacheMiss pos (snapshot w c) 0) c)).
Proof.
  intros H. unfold cache_layer.
  assert (Hh : (if cache_key w cfg =? 0 then None else cache_get (nth inst (w_caches w) []) (cache_key w cfg)) = None).
  { destruct (cache_key w cfg =? 0) eqn:E; [reflexivity|]. destruct H; [lia|assumption]. }
  rewrite Hh. destruct (inner c _) as [r w2]. destruct (_ && _); reflexivity.
Qed.

Definition cacheable (cfg : cache_cfg) (o : outcome) : bool :=
  (match ca_conds cfg with [] => true | _ => false end && negb (has_err o)) || applies_to_any (ca_conds cfg) o.

(* after a miss the store of this cache instance is updated at the effective key iff the result is
   cacheable and the key is not empty; with an empty key the cache is never written *)
Theorem cache_stored_iff_cacheable pos inst cfg (inner : layer) c w :
  (cache_key w cfg = 0 \/ cache_get (nth inst (w_caches w) []) (cache_key w cfg) = None) ->
  let w1 := stamp (emit w KCacheMiss pos (snapshot w c) 0) c in
  let r := fst (inner c w1) in let w2 := snd (inner c w1) in
  w_caches (snd (cache_layer pos inst cfg inner c w)) =
    if cacheable cfg (pr_out r) && negb (cache_key w cfg =? 0)
    then upd inst (fun _ => cache_set (nth inst (w_caches w2) []) (cache_key w cfg) (pr_res r)) (w_caches w2)
    else w_caches w2.
Proof.
  intros H. unfold cache_layer.
  assert (Hh : (if cache_key w cfg =? 0 then None else cache_get (nth inst (w_caches w) []) (cache_key w cfg)) = None).
  { destruct (cache_key w cfg =? 0) eqn:E; [reflexivity|]. destruct H; [lia|assumption]. }
  rewrite Hh. cbv zeta. destruct (inner c _) as [r w2]. cbn [fst snd]. unfold cacheable.
  destruct (_ && negb (cache_key w cfg =? 0)); reflexivity.
Qed.

(* a string key in the context takes precedence over the configured key *)
Theorem cache_context_key_precedence w cfg k : w_ctxkey w = CKStr k -> cache_key w cfg = k.
Proof. intros H. unfold cache_key. rewrite H. reflexivity. Qed.
Theorem cache_configured_key_otherwise w cfg : (forall k, w_ctxkey w <> CKStr k) -> cache_key w cfg = ca_key cfg.
Proof. intros H. unfold cache_key. destruct (w_ctxkey w) as [|k|]; try reflexivity. exfalso. apply (H k). reflexivity. Qed.

(* ------------------------------------------------------------------ *)
(* 2. C10 — fallback                                                    *)

Definition fb_inner_classified (pos : nat) (cfg : fb_cfg) (c : nat) (r : presult) (w1 : world) : presult * world :=
  if is_failure (fb_fpol cfg) (pr_out r) then (with_failure r, ev_with_result w1 c KPolFailure pos (with_failure r))
  else (with_done r true true, ev_with_result w1 c KPolSuccess pos (with_done r true true)).

(* results the fallback does not handle pass through unchanged, and the fallback is not applied *)
Theorem fallback_unhandled_passes_through pos cfg (inner : layer) c w :
  let r := fst (inner c w) in let w1 := snd (inner c w) in
  is_failure (fb_fpol cfg) (pr_out r) = false ->
  fallback_layer pos cfg inner c w = (with_done r true true, ev_with_result w1 c KPolSuccess pos (with_done r true true)).
Proof.
  cbv zeta. unfold fallback_layer. destruct (inner c w) as [r w1]. cbn [fst snd]. intros H. rewrite H. reflexivity.
Qed.

(* a handled failure: when the execution is not cancelled -- neither when the fallback is about to be applied (after the
   policy's own failure listener, however long that took) nor when the fallback function has returned (however long that
   took) -- the fallback is applied exactly once, to the failed result and error, its output replaces the result and is
   classified by the same conditions *)
Theorem fallback_handled_replaces pos cfg (inner : layer) c w :
  let r := fst (inner c w) in let w1 := snd (inner c w) in
  let w2 := pause (ev_with_result w1 c KPolFailure pos (with_failure r)) (fb_lsn_dur cfg) in
  let w3 := pause w2 (fb_dur cfg) in
  is_failure (fb_fpol cfg) (pr_out r) = true -> is_canceled w2 c = None -> is_canceled w3 c = None ->
  let seen := (pr_res r, match pr_err r with Some e => Some e | None => copy_err w2 c end) in
  let o := fb_apply (fb_kind_of cfg) seen in
  let ok := negb (is_failure (fb_fpol cfg) o) in
  fallback_layer pos cfg inner c w =
    ({| pr_res := fst o; pr_err := snd o; pr_done := true; pr_succ := ok; pr_all := ok |},
     emit w3 KFallbackExecuted pos o 0).
Proof.
  cbv zeta. unfold fallback_layer. destruct (inner c w) as [r w1]. cbn [fst snd]. intros H Hc Hc'. rewrite H.
  cbn [pr_succ with_failure]. rewrite Hc, Hc'. reflexivity.
Qed.

(* a cancelled execution never gets the fallback's output, and the fallback function is not even entered: the cancellation is
   looked at after the failure listener has returned, not before *)
Theorem fallback_not_applied_when_cancelled pos cfg (inner : layer) c w cr :
  let r := fst (inner c w) in let w1 := snd (inner c w) in
  let w2 := pause (ev_with_result w1 c KPolFailure pos (with_failure r)) (fb_lsn_dur cfg) in
  is_failure (fb_fpol cfg) (pr_out r) = true -> is_canceled w2 c = Some cr ->
  fallback_layer pos cfg inner c w = (cr, w2).
Proof.
  cbv zeta. unfold fallback_layer. destruct (inner c w) as [r w1]. cbn [fst snd]. intros H Hc. rewrite H.
  cbn [pr_succ with_failure]. rewrite Hc. reflexivity.
Qed.

(* a cancellation that arrives while the fallback function runs wins over the function's output: the execution reports
   the cancellation's result and no OnFallbackExecuted event *)
Theorem fallback_output_dropped_when_cancelled_meanwhile pos cfg (inner : layer) c w cr :
  let r := fst (inner c w) in let w1 := snd (inner c w) in
  let w2 := pause (ev_with_result w1 c KPolFailure pos (with_failure r)) (fb_lsn_dur cfg) in
  let w3 := pause w2 (fb_dur cfg) in
  is_failure (fb_fpol cfg) (pr_out r) = true -> is_canceled w2 c = None -> is_canceled w3 c = Some cr ->
  fallback_layer pos cfg inner c w = (cr, w3).
Proof.
  cbv zeta. unfold fallback_layer. destruct (inner c w) as [r w1]. cbn [fst snd]. intros H Hc Hc'. rewrite H.
  cbn [pr_succ with_failure]. rewrite Hc, Hc'. reflexivity.
Qed.

(* ------------------------------------------------------------------ *)
(* 3. C01 — admission: a policy that rejects does not run what it wraps  *)

Theorem breaker_rejection_skips_inner pos inst (inner inner' : layer) c w :
  let '(cfg, s) := nth inst (w_breakers w) (bcfg_default, cb_init bcfg_default) in
  fst (fst (try_acquire conc_impl cfg s (w_now w))) = false ->
  breaker_layer pos inst inner c w = breaker_layer pos inst inner' c w
  /\ pr_err (fst (breaker_layer pos inst inner c w)) = Some EOpen.
Proof.
  unfold breaker_layer. destruct (nth inst (w_breakers w) _) as [cfg s].
  destruct (try_acquire conc_impl cfg s (w_now w)) as [[ok s1] evs]. cbn [fst]. intros ->. cbn [negb]. auto.
Qed.

Theorem limiter_rejection_skips_inner pos inst mw (inner inner' : layer) c w :
  let '(cfg, base, s) := nth inst (w_limiters w) (Smooth 1, 0, SSmooth 0) in
  fst (lim_acquire cfg s (w_now w - base) 1 mw) = -1 ->
  limiter_layer pos inst mw inner c w = limiter_layer pos inst mw inner' c w
  /\ pr_err (fst (limiter_layer pos inst mw inner c w)) = Some ERate.
Proof.
  unfold limiter_layer, limiter_layer_gen. destruct (nth inst (w_limiters w) _) as [[cfg base] s].
  destruct (lim_acquire cfg s (w_now w - base) 1 mw) as [wt s']. cbn [fst]. intros ->. cbn. auto.
Qed.

Theorem bulkhead_full_skips_inner pos inst (inner inner' : layer) c w :
  let '(cap, held) := nth inst (w_bulkheads w) (0, 0) in
  cap <= held -> copy_err w c = None ->
  bulkhead_layer pos inst 0 inner c w = bulkhead_layer pos inst 0 inner' c w
  /\ pr_err (fst (bulkhead_layer pos inst 0 inner c w)) = Some EFull.
Proof.
  unfold bulkhead_layer. destruct (nth inst (w_bulkheads w) (0, 0)) as [cap held]. intros H Hc. rewrite Hc.
  destruct (held <? cap) eqn:E; [lia|]. cbn. auto.
Qed.

(* the composition is the right-nested application of the policies in declaration order *)
Theorem compose_is_right_nesting fuel pos p rest total :
  compose fuel pos (p :: rest) total = apply_policy fuel pos total p (compose fuel (S pos) rest total).
Proof. reflexivity. Qed.

(* the caller receives the outermost layer's result; the completion verdict is its SuccessAll;
   exactly one done event and exactly one of success/failure are emitted, last *)
Theorem execute_outermost_and_verdict fuel stack w :
  let '(r, w1) := compose fuel 0 stack (length stack) 0%nat w in
  fst (execute fuel stack w) = r /\
  exists e1 e2, w_trace (snd (execute fuel stack w)) = e2 :: e1 :: w_trace w1
    /\ e_kind e2 = KExecDone /\ e_kind e1 = (if pr_all r then KExecSuccess else KExecFailure)
    /\ e_out e1 = pr_out r /\ e_out e2 = pr_out r.
Proof.
  unfold execute. destruct (compose fuel 0 stack (length stack) 0%nat w) as [r w1]. cbn [fst snd]. split; [reflexivity|].
  destruct (pr_all r); eexists _, _; cbn; repeat split.
Qed.

(* ------------------------------------------------------------------ *)
(* 4. C02 — retry                                                       *)

Lemma get_rstate_ext w w' pos : w_retry w' = w_retry w -> get_rstate w' pos = get_rstate w pos.
Proof. unfold get_rstate. intros ->. reflexivity. Qed.

Lemma get_put_rstate w pos r : get_rstate (put_rstate w pos r) pos = r.
Proof. unfold get_rstate, put_rstate. cbn [w_retry set_retry find fst snd]. rewrite Nat.eqb_refl. reflexivity. Qed.

Lemma pause_sps w d : same_policy_state w (pause w d).
Proof. unfold pause. destruct (0 <? d); [apply wait_sps|apply sps_refl]. Qed.

(* one pass of OnFailure, read off the code *)
Lemma retry_on_failure_rstate cfg pos c r w :
  let w0 := pause (ev_with_result w c KPolFailure pos r) (r_lsn_dur cfg) in   (* the failure listener has returned *)
  let rs := get_rstate w0 pos in
  let failed := rs_failed rs + 1 in
  let exceeded := (negb (r_max_retries cfg =? -1) && (r_max_retries cfg <? failed))
                  || (negb (r_max_duration cfg =? 0) && (r_max_duration cfg <? w_now w0 - w_start w0)) in
  get_rstate (snd (retry_on_failure cfg pos c r w)) pos = {| rs_failed := failed; rs_exceeded := exceeded |}
  /\ (exceeded = true -> pr_done (fst (retry_on_failure cfg pos c r w)) = true)
  /\ (exceeded = true -> r_return_last cfg = false ->
        fst (retry_on_failure cfg pos c r w) = failure_result (EExceeded (pr_res r) (pr_err r)))
  /\ (exceeded = true -> r_return_last cfg = true -> pr_out (fst (retry_on_failure cfg pos c r w)) = pr_out r)
  /\ (is_abortable (r_abort cfg) (pr_out r) = true -> pr_done (fst (retry_on_failure cfg pos c r w)) = true).
Proof.
  cbv zeta. unfold retry_on_failure.
  set (w0 := pause (ev_with_result w c KPolFailure pos r) (r_lsn_dur cfg)).
  set (failed := rs_failed (get_rstate w0 pos) + 1).
  set (exceeded := _ || _).
  set (w1 := put_rstate w0 pos _).
  set (ab := is_abortable (r_abort cfg) (pr_out r)).
  assert (Hg : forall w2, w_retry w2 = w_retry w1 -> get_rstate w2 pos = {| rs_failed := failed; rs_exceeded := exceeded |}).
  { intros w2 E. rewrite (get_rstate_ext _ _ _ E). subst w1. apply get_put_rstate. }
  destruct exceeded eqn:Ex.
  - destruct (negb (r_return_last cfg)) eqn:Erl; cbn [fst snd].
    + repeat split; try (intros; reflexivity); try (intros; destruct (r_return_last cfg); discriminate).
      * apply Hg. destruct ab; cbn [negb]; unfold ev_with_result, emit; reflexivity.
    + repeat split; intros; try reflexivity; try (destruct (r_return_last cfg); discriminate).
      * apply Hg. destruct ab; cbn [negb]; unfold ev_with_result, emit; reflexivity.
      * cbn [with_done pr_done]. destruct ab; cbn; reflexivity.
      * cbn [with_done pr_done]. rewrite H. reflexivity.
  - cbn [fst snd]. repeat split; intros; try discriminate.
    + apply Hg. destruct ab; unfold ev_with_result, emit; reflexivity.
    + cbn [with_done pr_done]. rewrite H. reflexivity.
Qed.

(* the retry layer invokes what it wraps at most maxRetries + 1 times per execution, counting the
   failures already charged to this execution's budget *)
Theorem retry_invocation_bound cfg pos (inner : layer) :
  (forall c w, get_rstate (snd (inner c w)) pos = get_rstate w pos) ->
  0 <= r_max_retries cfg ->
  forall fuel c w,
  rs_exceeded (get_rstate w pos) = false -> 0 <= rs_failed (get_rstate w pos) <= r_max_retries cfg ->
  (Z.of_nat (snd (retry_loop fuel cfg pos inner c w)) <= r_max_retries cfg - rs_failed (get_rstate w pos) + 1).
Proof.
  intros Hframe Hmax. induction fuel as [|fuel IH]; intros c w Hex Hf; cbn [retry_loop].
  - cbn. lia.
  - pose proof (Hframe c w) as Hfr. destruct (inner c w) as [r w1]. cbn [snd] in Hfr.
    destruct (is_canceled w1 c); [cbn; lia|].
    rewrite Hfr, Hex.
    destruct (is_failure (r_fpol cfg) (pr_out r)) eqn:Efail.
    + pose proof (retry_on_failure_rstate cfg pos c (with_failure r) w1) as H. cbv zeta in H.
      destruct (retry_on_failure cfg pos c (with_failure r) w1) as [r2 w2]. cbn [fst snd] in H.
      destruct H as (Hrs & Hdone & _ & _ & _).
      destruct (pr_done r2) eqn:Ed; [cbn; lia|].
      destruct (is_canceled w2 c); [cbn; lia|].
      match goal with |- context [wait ?ww ?d ?i] => pose proof (wait_sps ww d i) as Hw; destruct (wait ww d i) as [ii w5] end.
      cbn [snd] in Hw.
      destruct (is_canceled w5 c); [cbn; lia|].
      match goal with |- context [retry_loop fuel cfg pos inner c ?w9] =>
        assert (H9 : get_rstate w9 pos = get_rstate w2 pos) end.
      { apply get_rstate_ext. unfold ev_with_result, emit. cbn. rewrite (sp_retry _ _ Hw). reflexivity. }
      assert (Hg1 : get_rstate (pause (ev_with_result w1 c KPolFailure pos (with_failure r)) (r_lsn_dur cfg)) pos = get_rstate w1 pos).
      { apply get_rstate_ext. rewrite (sp_retry _ _ (pause_sps _ _)). reflexivity. }
      rewrite Hg1, Hfr in Hrs, Hdone.
      (* not exceeded, otherwise the result would have been done *)
      match type of Hrs with _ = {| rs_failed := ?f; rs_exceeded := ?e |} => destruct e eqn:Ee end.
      { specialize (Hdone eq_refl). congruence. }
      match goal with |- context [retry_loop fuel cfg pos inner c ?w9] =>
        specialize (IH c w9); destruct (retry_loop fuel cfg pos inner c w9) as [[rr ww] n] end.
      cbn [snd] in *. rewrite H9, Hrs in IH. cbn [rs_failed rs_exceeded] in IH.
      assert (Hle : rs_failed (get_rstate w pos) + 1 <= r_max_retries cfg).
      { apply orb_false_iff in Ee. destruct Ee as [E1 _]. lia. }
      specialize (IH eq_refl ltac:(lia)). lia.
    + cbn [pr_done with_done]. cbn. lia.
Qed.

(* a non-failure stops the loop at once and is returned unchanged (value and error) *)
Theorem retry_stops_on_success cfg pos (inner : layer) fuel c w :
  let r := fst (inner c w) in let w1 := snd (inner c w) in
  is_canceled w1 c = None -> rs_exceeded (get_rstate w1 pos) = false ->
  is_failure (r_fpol cfg) (pr_out r) = false ->
  retry_loop (S fuel) cfg pos inner c w =
    (with_done r true true, ev_with_result w1 c KPolSuccess pos (with_done r true true), 1%nat).
Proof.
  cbv zeta. cbn [retry_loop]. destruct (inner c w) as [r w1]. cbn [fst snd]. intros Hc He Hf.
  rewrite Hc, He, Hf. reflexivity.
Qed.

(* an abort-matching failure stops the loop at once; unless the budget is exhausted at the same
   time the outcome is returned unchanged *)
Theorem retry_stops_on_abort cfg pos (inner : layer) fuel c w :
  let r := fst (inner c w) in let w1 := snd (inner c w) in
  is_canceled w1 c = None -> rs_exceeded (get_rstate w1 pos) = false ->
  is_failure (r_fpol cfg) (pr_out r) = true -> is_abortable (r_abort cfg) (pr_out r) = true ->
  snd (retry_loop (S fuel) cfg pos inner c w) = 1%nat.
Proof.
  cbv zeta. cbn [retry_loop]. destruct (inner c w) as [r w1]. cbn [fst snd]. intros Hc He Hf Ha.
  rewrite Hc, He, Hf.
  pose proof (retry_on_failure_rstate cfg pos c (with_failure r) w1) as H. cbv zeta in H.
  destruct (retry_on_failure cfg pos c (with_failure r) w1) as [r2 w2]. cbn [fst snd] in H.
  destruct H as (_ & _ & _ & _ & Hab).
  assert (E : pr_out (with_failure r) = pr_out r) by reflexivity. rewrite E in Hab.
  rewrite (Hab Ha). reflexivity.
Qed.

(* what a retry policy makes of a failed attempt is never a success *)
Lemma retry_on_failure_not_success cfg pos c r w : pr_succ (fst (retry_on_failure cfg pos c r w)) = false.
Proof.
  unfold retry_on_failure. destruct (_ || _); [|reflexivity]. destruct (negb (r_return_last cfg)); reflexivity.
Qed.

(* a retry policy that gives up on a failed attempt (retries exceeded, max duration exceeded, abort) while the execution is
   cancelled -- the cancellation having arrived after the loop's look at it, while the failure was handled (a slow failure
   listener) -- reports the cancellation's result, not the failure (since the fix: commit for finding F17) *)
Theorem retry_gives_up_cancelled_reports_cancellation cfg pos (inner : layer) fuel c w cr :
  let r := fst (inner c w) in let w1 := snd (inner c w) in
  let r2 := fst (retry_on_failure cfg pos c (with_failure r) w1) in
  let w2 := snd (retry_on_failure cfg pos c (with_failure r) w1) in
  is_canceled w1 c = None -> rs_exceeded (get_rstate w1 pos) = false ->
  is_failure (r_fpol cfg) (pr_out r) = true -> pr_done r2 = true -> is_canceled w2 c = Some cr ->
  retry_loop (S fuel) cfg pos inner c w = (cr, w2, 1%nat).
Proof.
  cbv zeta. cbn [retry_loop]. destruct (inner c w) as [r w1]. cbn [fst snd]. intros Hc He Hf Hd Hc2.
  rewrite Hc, He, Hf.
  pose proof (retry_on_failure_not_success cfg pos c (with_failure r) w1) as Hs.
  destruct (retry_on_failure cfg pos c (with_failure r) w1) as [r2 w2]. cbn [fst snd] in *.
  rewrite Hd, Hs, Hc2. reflexivity.
Qed.

(* ... and the same run without a cancellation returns the failure as the policy made it (ExceededError, or the last
   outcome with ReturnLastFailure or on an abort) *)
Theorem retry_gives_up_returns_failure cfg pos (inner : layer) fuel c w :
  let r := fst (inner c w) in let w1 := snd (inner c w) in
  let r2 := fst (retry_on_failure cfg pos c (with_failure r) w1) in
  let w2 := snd (retry_on_failure cfg pos c (with_failure r) w1) in
  is_canceled w1 c = None -> rs_exceeded (get_rstate w1 pos) = false ->
  is_failure (r_fpol cfg) (pr_out r) = true -> pr_done r2 = true -> is_canceled w2 c = None ->
  retry_loop (S fuel) cfg pos inner c w = (r2, w2, 1%nat).
Proof.
  cbv zeta. cbn [retry_loop]. destruct (inner c w) as [r w1]. cbn [fst snd]. intros Hc He Hf Hd Hc2.
  rewrite Hc, He, Hf.
  pose proof (retry_on_failure_not_success cfg pos c (with_failure r) w1) as Hs.
  destruct (retry_on_failure cfg pos c (with_failure r) w1) as [r2 w2]. cbn [fst snd] in *.
  rewrite Hd, Hs, Hc2. reflexivity.
Qed.

(* every execution starts with an empty retry ledger: budgets are never shared between executions *)
Theorem retry_budget_is_per_execution now ext key b l k c script pos :
  get_rstate (fresh_world now ext key b l k c script) pos = {| rs_failed := 0; rs_exceeded := false |}.
Proof.
  unfold fresh_world. destruct ext as [[t e]|]; [|reflexivity]. destruct (t <=? now); [|reflexivity].
  rewrite (get_rstate_ext _ _ pos (sp_retry _ _ (fire_ext_sps (fresh_world0 now (Some (t, e)) key b l k c script) e))). reflexivity.
Qed.

(* ------------------------------------------------------------------ *)
(* 5. C07 — timeout (timed level)                                       *)

(* the Timeout's result is either the inner result (re-flagged by its own failure test: only
   ErrExceeded is a failure for the Timeout) or, when its timer won, ErrExceeded — nothing else *)
Theorem timeout_layer_outcome pos limit (inner : layer) c w :
  let s := length (w_scopes w) in
  let res := timeout_layer pos limit inner c w in
  (sc_fired (get_scope (snd res) s) = true /\ fst res = with_failure (failure_result ETimeout))
  \/ (sc_fired (get_scope (snd res) s) = false /\
      exists r, pr_out (fst res) = pr_out r /\
        (fst res = with_failure r \/ fst res = with_done r true true)).
Proof.
  cbv zeta. unfold timeout_layer.
  match goal with |- context [inner ?c' ?w2] => destruct (inner c' w2) as [r w3] end.
  cbn [fst snd].
  set (s := length (w_scopes w)).
  assert (Hf : forall l n, sc_fired (nth n (upd n (fun sc => {| sc_deadline := None; sc_fired := sc_fired sc; sc_done := sc_done sc;
                 sc_copy := sc_copy sc; sc_pos := sc_pos sc |}) l) dflt_scope) = sc_fired (nth n l dflt_scope)).
  { clear. intros l. induction l as [|x l IH]; intros [|n]; cbn; auto. }
  assert (Hg : forall q e, sc_fired (get_scope (set_scopes w3 (upd s (fun sc => {| sc_deadline := None; sc_fired := sc_fired sc; sc_done := sc_done sc;
                 sc_copy := sc_copy sc; sc_pos := sc_pos sc |}) (w_scopes w3)) q e) s) = sc_fired (get_scope w3 s)).
  { intros q e. unfold get_scope. cbn [w_scopes set_scopes]. apply Hf. }
  rewrite Hg.
  destruct (sc_fired (get_scope w3 s)) eqn:E.
  - left. split; [reflexivity|]. cbn. reflexivity.
  - right. split; [reflexivity|]. exists r.
    destruct (match pr_err r with Some e => errors_is e ETimeout | None => false end); split; auto.
Qed.

(* a timer is selected only when it is pending with exactly that deadline *)
Lemma nt_go_spec l : forall i acc t s,
  nt_go i l acc = Some (t, Some s) ->
  acc = Some (t, Some s) \/ ((i <= s)%nat /\ sc_deadline (nth (s - i) l dflt_scope) = Some t).
Proof.
  induction l as [|sc l IH]; intros i acc t s H; cbn [nt_go] in H; [left; exact H|].
  apply IH in H. destruct H as [H|[Hi H]].
  - destruct (sc_deadline sc) as [d|] eqn:Ed; [|left; exact H].
    destruct acc as [[t1 o1]|].
    + destruct (d <? t1); [|left; exact H]. injection H as -> ->. right. split; [lia|]. rewrite Nat.sub_diag. exact Ed.
    + injection H as -> ->. right. split; [lia|]. rewrite Nat.sub_diag. exact Ed.
  - right. split; [lia|]. replace (s - i)%nat with (S (s - S i)) by lia. exact H.
Qed.

Theorem next_timer_deadline w t s : next_timer w = Some (t, Some s) -> sc_deadline (get_scope w s) = Some t.
Proof.
  unfold next_timer, get_scope. intros H. apply nt_go_spec in H. destruct H as [H|[_ H]].
  - destruct (w_ext w) as [[? ?]|]; discriminate.
  - rewrite Nat.sub_0_r in H. exact H.
Qed.

(* ErrExceeded is never produced early: the callback of scope s runs on a clock that has reached its deadline *)
Theorem timeout_fires_not_early w t s : next_timer w = Some (t, Some s) ->
  sc_deadline (get_scope w s) = Some t /\ t <= w_now (set_now w (Z.max (w_now w) t)).
Proof. intros H. split; [apply next_timer_deadline; exact H|cbn; lia]. Qed.

(* the limit applies afresh to each application of the Timeout: the world in which the inner
   layer starts has a new scope whose deadline is the entry instant plus the limit *)
Definition timeout_entry_world (pos : nat) (limit : Z) (c : nat) (w : world) : world :=
  let cp := get_copy w c in
  let w1 := set_scopes w (w_scopes w ++ [ {| sc_deadline := Some (w_now w + limit); sc_fired := false; sc_done := None;
                                              sc_copy := length (w_copies w); sc_pos := pos |} ]) (w_seq w) (w_ext w) in
  set_copies w1 (w_copies w1 ++ [ {| cp_chain := length (w_scopes w) :: cp_chain cp; cp_last := cp_last cp; cp_start := cp_start cp |} ]).

Theorem timeout_deadline_is_entry_plus_limit pos limit (inner : layer) c w :
  sc_deadline (get_scope (timeout_entry_world pos limit c w) (length (w_scopes w))) = Some (w_now w + limit)
  /\ snd (timeout_layer pos limit inner c w) =
      let w3 := snd (inner (length (w_copies w)) (timeout_entry_world pos limit c w)) in
      set_scopes w3 (upd (length (w_scopes w)) (fun sc => {| sc_deadline := None; sc_fired := sc_fired sc; sc_done := sc_done sc;
                                              sc_copy := sc_copy sc; sc_pos := sc_pos sc |}) (w_scopes w3)) (w_seq w3) (w_ext w3).
Proof.
  split.
  - unfold timeout_entry_world, get_scope. cbn [w_scopes set_copies set_scopes]. rewrite app_nth2 by lia.
    rewrite Nat.sub_diag. reflexivity.
  - unfold timeout_layer, timeout_entry_world. cbn [w_copies set_scopes]. destruct (inner _ _). reflexivity.
Qed.

(* ------------------------------------------------------------------ *)
(* 6. C08 — cancellation                                                *)

(* what a cancelled execution reports: the result stored by the canceller (a Timeout stores
   ErrExceeded), else the context's own error *)
Theorem cancel_result_is_cause w c cr : is_canceled w c = Some cr ->
  match w_cell w with
  | Some r => cr = r
  | None => pr_err cr = copy_err w c /\ pr_done cr = true
  end.
Proof.
  unfold is_canceled. destruct (copy_err w c) as [e|]; [|discriminate]. intros H. injection H as <-.
  destruct (w_cell w); [reflexivity|]. cbn. auto.
Qed.

(* the retry loop returns the cancellation result as soon as the inner layer comes back cancelled:
   no PostExecute, no delay, no further attempt *)
Theorem retry_returns_cancel_result cfg pos (inner : layer) fuel c w cr :
  is_canceled (snd (inner c w)) c = Some cr ->
  retry_loop (S fuel) cfg pos inner c w = (cr, snd (inner c w), 1%nat).
Proof. cbn [retry_loop]. destruct (inner c w) as [r w1]. cbn [snd]. intros ->. reflexivity. Qed.

(* every interruptible wait (retry delay, rate-limiter wait, bulkhead wait, cooperative function)
   ends at once when its execution is already cancelled: remaining delays are not waited out *)
Theorem wait_interrupted_immediately w d c e : copy_err w c = Some e -> wait w d (Some c) = (true, w).
Proof. intros H. unfold wait, wait_fuel. cbn [Nat.add advance]. rewrite H. reflexivity. Qed.

(* a fallback inside the cancelled scope is never applied (C10's theorems restated for C08), and a cancellation that arrives
   while it runs is what the execution reports *)
Theorem no_fallback_after_cancel pos cfg (inner : layer) c w cr :
  let r := fst (inner c w) in let w1 := snd (inner c w) in
  let w2 := pause (ev_with_result w1 c KPolFailure pos (with_failure r)) (fb_lsn_dur cfg) in
  is_failure (fb_fpol cfg) (pr_out r) = true -> is_canceled w2 c = Some cr ->
  fallback_layer pos cfg inner c w = (cr, w2).
Proof. exact (fallback_not_applied_when_cancelled pos cfg inner c w cr). Qed.

Theorem cancel_during_fallback_reported pos cfg (inner : layer) c w cr :
  let r := fst (inner c w) in let w1 := snd (inner c w) in
  let w2 := pause (ev_with_result w1 c KPolFailure pos (with_failure r)) (fb_lsn_dur cfg) in
  let w3 := pause w2 (fb_dur cfg) in
  is_failure (fb_fpol cfg) (pr_out r) = true -> is_canceled w2 c = None -> is_canceled w3 c = Some cr ->
  fallback_layer pos cfg inner c w = (cr, w3).
Proof. exact (fallback_output_dropped_when_cancelled_meanwhile pos cfg inner c w cr). Qed.

(* a rate-limiter wait that is interrupted by the cancellation fails with the execution's last error
   (the cause) and does not run what it wraps *)
Theorem limiter_wait_interrupted pos inst mw (inner inner' : layer) c w :
  let '(cfg, base, s) := nth inst (w_limiters w) (Smooth 1, 0, SSmooth 0) in
  let '(wt, s') := lim_acquire cfg s (w_now w - base) 1 mw in
  let w1 := set_insts w (w_breakers w) (upd inst (fun p => (fst p, s')) (w_limiters w)) (w_bulkheads w) (w_caches w) in
  wt <> -1 -> fst (wait w1 wt (Some c)) = true ->
  limiter_layer pos inst mw inner c w = limiter_layer pos inst mw inner' c w.
Proof.
  unfold limiter_layer, limiter_layer_gen. destruct (nth inst (w_limiters w) _) as [[cfg base] s].
  destruct (lim_acquire cfg s (w_now w - base) 1 mw) as [wt s']. intros Hne.
  destruct (wt =? -1) eqn:E; [lia|]. destruct (wait _ wt (Some c)) as [i w2]. cbn [fst]. intros ->. reflexivity.
Qed.

(* C16: the rate limiter layer fires its event exactly when it refuses: when the permit is granted (with or
   without a wait) the layer itself adds nothing to the log -- whether the wait runs to its end or is interrupted *)
Theorem limiter_event_only_on_refusal pos inst mw (inner : layer) c w :
  let '(cfg, base, s) := nth inst (w_limiters w) (Smooth 1, 0, SSmooth 0) in
  let '(wt, s') := lim_acquire cfg s (w_now w - base) 1 mw in
  let w1 := set_insts w (w_breakers w) (upd inst (fun p => (fst p, s')) (w_limiters w)) (w_bulkheads w) (w_caches w) in
  (wt = -1 -> limiter_layer pos inst mw inner c w = (failure_result ERate, stamp (emit w1 KRateExceeded pos (snapshot w1 c) 0) c))
  /\ (wt <> -1 ->
      snd (limiter_layer pos inst mw inner c w) =
      if fst (wait w1 wt (Some c)) then snd (wait w1 wt (Some c)) else snd (inner c (snd (wait w1 wt (Some c))))).
Proof.
  unfold limiter_layer, limiter_layer_gen. destruct (nth inst (w_limiters w) _) as [[cfg base] s].
  destruct (lim_acquire cfg s (w_now w - base) 1 mw) as [wt s']. split; intros H.
  - subst wt. reflexivity.
  - destruct (wt =? -1) eqn:E; [lia|]. destruct (wait _ wt (Some c)) as [i w2]. cbn [fst snd]. destruct i; reflexivity.
Qed.

(* ------------------------------------------------------------------ *)
(* 7. C06 — the bulkhead layer returns its permit exactly when it took one *)

Lemma nth_upd_same {A} (l : list A) n f d : (n < length l)%nat -> nth n (upd n f l) d = f (nth n l d).
Proof. revert n; induction l as [|x l IH]; intros [|n] H; cbn in *; try lia; auto. apply IH; lia. Qed.

Lemma upd_length {A} (l : list A) n f : length (upd n f l) = length l.
Proof. revert n; induction l as [|x l IH]; intros [|n]; cbn; auto. Qed.

Lemma stamp_bulkheads w c : w_bulkheads (stamp w c) = w_bulkheads w.
Proof. unfold stamp. destruct (w_trace w); reflexivity. Qed.

Definition held_of (w : world) (inst : nat) : Z := snd (nth inst (w_bulkheads w) (0, 0)).

(* whatever the inner layer does (succeed, fail, be cancelled, time out), provided it leaves this
   instance's permit count as it found it, the bulkhead layer leaves it as IT found it: every admitted
   execution returns its permit exactly once, refused and cancelled ones return nothing *)
Theorem bulkhead_layer_balanced pos inst mw (inner : layer) c w :
  (inst < length (w_bulkheads w))%nat ->
  (forall c' w', (inst < length (w_bulkheads w'))%nat ->
     held_of (snd (inner c' w')) inst = held_of w' inst /\ (inst < length (w_bulkheads (snd (inner c' w'))))%nat) ->
  held_of (snd (bulkhead_layer pos inst mw inner c w)) inst = held_of w inst.
Proof.
  intros Hi Hin. unfold bulkhead_layer, held_of.
  destruct (nth inst (w_bulkheads w) (0, 0)) as [cap held] eqn:En. cbn [snd].
  destruct (copy_err w c); [cbn [snd]; rewrite En; reflexivity|].
  destruct (held <? cap).
  - set (w1 := set_insts w _ _ _ _).
    assert (H1 : (inst < length (w_bulkheads w1))%nat) by (subst w1; cbn [w_bulkheads set_insts]; rewrite upd_length; exact Hi).
    destruct (Hin c w1 H1) as [Hh Hl]. unfold held_of in Hh.
    destruct (inner c w1) as [r w2]. cbn [snd] in *.
    destruct (nth inst (w_bulkheads w2) (0, 0)) as [cap2 held2] eqn:E2. cbn [snd w_bulkheads set_insts].
    rewrite nth_upd_same by exact Hl. rewrite E2. cbn [snd] in *.
    subst w1. cbn [w_bulkheads set_insts] in Hh. rewrite nth_upd_same in Hh by exact Hi. rewrite En in Hh. cbn [snd] in Hh. lia.
  - destruct (mw =? 0); [cbn [snd]; rewrite stamp_bulkheads; unfold emit; cbn [w_bulkheads set_trace]; rewrite En; reflexivity|].
    pose proof (wait_sps w mw (Some c)) as Hw. destruct (wait w mw (Some c)) as [i w1]. cbn [snd] in Hw.
    destruct i; cbn [snd]; rewrite ?stamp_bulkheads; unfold emit; cbn [w_bulkheads set_trace]; rewrite (sp_bu _ _ Hw), En; reflexivity.
Qed.
