(* Proofs/ExecTimes.v — C17: start times.  In the complete log of any execution through any stack every observer is
   shown the same StartTime (the instant the execution began), and every AttemptStartTime it can read lies between
   that instant and the instant of the observation -- so ElapsedTime and ElapsedAttemptTime are never negative and
   ElapsedAttemptTime <= ElapsedTime.  (Induction over the stack, like Proofs/ExecStats.v.) *)
From FS Require Import Model.Exec Proofs.ExecProofs.
From Coq Require Import ZifyBool.

Definition ev_ok (t0 : Z) (e : event) : Prop :=
  e_start e = t0 /\ t0 <= e_time e /\ (e_astart e = -1 \/ (t0 <= e_astart e <= e_time e)).
Definition cp_ok (w : world) (cp : copyst) : Prop := w_start w <= cp_start cp <= w_now w.
Definition okc (c : nat) (w : world) : Prop := (c < length (w_copies w))%nat.

Section T0.
Variable t0 : Z.   (* the instant the execution began *)

Record Ts (w : world) : Prop := {
  ts_t0 : w_start w = t0;
  ts_now : w_start w <= w_now w;
  ts_ev : Forall (ev_ok (w_start w)) (w_trace w);
  ts_cp : Forall (cp_ok w) (w_copies w);
  ts_bg : Forall (fun b => okc (bg_copy b) w) (w_bg w) }.

(* ---- building blocks ---- *)
Lemma Ts_frame w w' :
  w_start w' = w_start w -> w_trace w' = w_trace w -> w_copies w' = w_copies w -> w_bg w' = w_bg w -> w_now w <= w_now w' ->
  Ts w -> Ts w'.
Proof.
  intros Es Et Ec Eb En [H0' Hn He Hc Hb]. constructor; rewrite ?Es, ?Et, ?Ec, ?Eb; try assumption; try lia.
  - eapply Forall_impl; [|exact Hc]. intros cp [A B]. unfold cp_ok. rewrite Es. lia.
  - eapply Forall_impl; [|exact Hb]. intros b Hb'. unfold okc in *. rewrite Ec. exact Hb'.
Qed.

Ltac ts_frame H := eapply Ts_frame; [..|exact H]; try reflexivity; try (cbn; lia).

Lemma Ts_emit w k pos o aux : Ts w -> Ts (emit w k pos o aux).
Proof.
  intros [H0' Hn He Hc Hb]. constructor; unfold emit; cbn [w_start w_now w_trace w_copies w_bg set_trace]; try assumption.
  constructor; [|exact He]. unfold ev_ok. cbn [e_start e_time e_astart]. repeat split; lia.
Qed.

(* the observer of the newest event (logged at this very instant) reads the AttemptStartTime of a valid copy *)
Lemma Ts_stamp_emit w c k pos o aux : okc c w -> Ts w -> Ts (stamp (emit w k pos o aux) c).
Proof.
  intros Hc0 [H0' Hn He Hc Hb]. unfold stamp, emit. cbn [w_trace set_trace].
  constructor; cbn [w_start w_now w_trace w_copies w_bg set_trace]; try assumption.
  constructor; [|exact He]. unfold ev_ok. cbn [e_start e_time e_astart]. repeat split; try lia.
  right. unfold get_copy. cbn [w_copies set_trace].
  rewrite Forall_forall in Hc. specialize (Hc (nth c (w_copies w) dflt_copy) (nth_In _ _ Hc0)). unfold cp_ok in Hc. lia.
Qed.

Lemma okc_frame c w w' : w_copies w' = w_copies w -> okc c w -> okc c w'.
Proof. unfold okc. intros ->. auto. Qed.

Lemma Ts_set_now w t : Ts w -> Ts (set_now w (Z.max (w_now w) t)).
Proof. intros H. ts_frame H. Qed.
Lemma Ts_settle w t : Ts w -> Ts (settle w t).
Proof. intros H. destruct t; [apply Ts_set_now|]; exact H. Qed.
Lemma Ts_set_oof w : Ts w -> Ts (set_oof w).
Proof. intros H. ts_frame H. Qed.
Lemma Ts_set_scopes w s q e : Ts w -> Ts (set_scopes w s q e).
Proof. intros H. ts_frame H. Qed.
Lemma Ts_set_cell w c : Ts w -> Ts (set_cell w c).
Proof. intros H. ts_frame H. Qed.
Lemma Ts_set_insts w b l k c : Ts w -> Ts (set_insts w b l k c).
Proof. intros H. ts_frame H. Qed.
Lemma Ts_set_retry w r : Ts w -> Ts (set_retry w r).
Proof. intros H. ts_frame H. Qed.
Lemma Ts_set_script w s : Ts w -> Ts (set_script w s).
Proof. intros H. ts_frame H. Qed.
Lemma Ts_set_counters w a r x : Ts w -> Ts (set_counters w a r x).
Proof. intros H. ts_frame H. Qed.
Lemma Ts_mark_done w s e : Ts w -> Ts (mark_done w s e).
Proof. intros H. unfold mark_done. destruct (sc_done (get_scope w s)); [exact H|]. ts_frame H. Qed.

(* copies: updated in place or appended *)
Lemma upd_length {A} (l : list A) n f : length (upd n f l) = length l.
Proof. revert n; induction l as [|x l IH]; intros [|n]; cbn; auto. Qed.

Lemma Forall_upd {A} (P : A -> Prop) (l : list A) n f : Forall P l -> (forall x, P x -> P (f x)) -> Forall P (upd n f l).
Proof.
  intros H Hf. revert n. induction H as [|x l Hx Hl IH]; intros [|n]; cbn; constructor; auto.
Qed.

Lemma Ts_upd_copies w c f :
  (forall cp, cp_ok w cp -> cp_ok w (f cp)) -> Ts w -> Ts (set_copies w (upd c f (w_copies w))).
Proof.
  intros Hf [H0' Hn He Hc Hb]. constructor; cbn [w_start w_now w_trace w_copies w_bg set_copies]; try assumption.
  - apply Forall_upd; [|exact Hf]. exact Hc.
  - eapply Forall_impl; [|exact Hb]. intros b Hb'. unfold okc in *. cbn [w_copies set_copies]. rewrite upd_length. exact Hb'.
Qed.

Lemma Ts_set_copy_last w c o : Ts w -> Ts (set_copy_last w c o).
Proof. intros H. unfold set_copy_last. apply Ts_upd_copies; [|exact H]. intros cp Hcp. exact Hcp. Qed.

Lemma Ts_append_copy w c chain last :
  okc c w -> Ts w -> Ts (set_copies w (w_copies w ++ [ {| cp_chain := chain; cp_last := last; cp_start := cp_start (get_copy w c) |} ])).
Proof.
  intros Hc0 [H0' Hn He Hc Hb]. constructor; cbn [w_start w_now w_trace w_copies w_bg set_copies]; try assumption.
  - apply Forall_app. split; [exact Hc|]. constructor; [|constructor].
    unfold cp_ok. cbn [cp_start w_start w_now set_copies].
    rewrite Forall_forall in Hc. specialize (Hc (nth c (w_copies w) dflt_copy) (nth_In _ _ Hc0)). exact Hc.
  - eapply Forall_impl; [|exact Hb]. intros b Hb'. unfold okc in *. cbn [w_copies set_copies]. rewrite app_length. lia.
Qed.

Lemma Ts_set_hedge w h bg hs : Forall (fun b => okc (bg_copy b) w) bg -> Ts w -> Ts (set_hedge w h bg hs).
Proof. intros Hbg [H0' Hn He Hc Hb]. constructor; cbn [w_start w_now w_trace w_copies w_bg set_hedge]; assumption. Qed.

Lemma Ts_set_hedge_same w h hs : Ts w -> Ts (set_hedge w h (w_bg w) hs).
Proof. intros H. apply Ts_set_hedge; [apply (ts_bg _ H)|exact H]. Qed.

(* ---- cancellation sources and background attempts ---- *)
Lemma Ts_fire_timeout w s : Ts w -> Ts (fire_timeout w s).
Proof.
  intros H. unfold fire_timeout.
  set (w1 := set_scopes w _ _ _). assert (H1 : Ts w1) by (apply Ts_set_scopes, H).
  set (w2 := emit w1 KTimeoutExceeded _ _ _). assert (H2 : Ts w2) by (apply Ts_emit, H1).
  destruct (copy_err w2 _); [exact H2|].
  apply Ts_mark_done, Ts_set_copy_last, Ts_set_cell, H2.
Qed.

Lemma Ts_fire_ext w e : Ts w -> Ts (fire_ext w e).
Proof.
  intros H. unfold fire_ext.
  assert (H0 : Ts (set_scopes w (w_scopes w) (w_seq w) None)) by (apply Ts_set_scopes, H).
  destruct e; try (apply Ts_mark_done; exact H0).
  destruct (copy_err _ 0%nat); [exact H0|].
  apply Ts_mark_done, Ts_set_copy_last, Ts_set_cell, H0.
Qed.

Lemma Forall_filter {A} (P : A -> Prop) f (l : list A) : Forall P l -> Forall P (filter f l).
Proof. intros H. induction H as [|x l Hx Hl IH]; cbn; [constructor|]. destruct (f x); [constructor|]; assumption. Qed.

Lemma Ts_finish_bg w b : In b (w_bg w) -> Ts w -> Ts (finish_bg w b).
Proof.
  intros Hin H. unfold finish_bg.
  assert (Hcb : okc (bg_copy b) w) by (pose proof (ts_bg _ H) as Hb; rewrite Forall_forall in Hb; exact (Hb b Hin)).
  set (w1 := set_hedge w (w_hedges w) (bg_remove b (w_bg w)) (w_hs w)).
  assert (H1 : Ts w1) by (apply Ts_set_hedge; [apply Forall_filter, (ts_bg _ H)|exact H]).
  set (w2 := set_counters w1 _ _ _). assert (H2 : Ts w2) by (apply Ts_set_counters, H1).
  assert (H3 : Ts (stamp (emit w2 KFnEnd (bg_pos b) (bg_out b) 0) (bg_copy b))) by (apply Ts_stamp_emit; [exact Hcb|exact H2]).
  match goal with |- context [if ?c then _ else _] => destruct c end; [|exact H3].
  apply Ts_set_hedge_same, H3.
Qed.

Lemma Ts_refresh_bg w : Ts w -> Ts (refresh_bg w).
Proof.
  intros H. unfold refresh_bg.
  match goal with |- context [set_hedge w (w_hedges w) ?bg' (w_hs w)] =>
    assert (H1 : Ts (set_hedge w (w_hedges w) bg' (w_hs w))) end.
  { apply Ts_set_hedge; [|exact H]. pose proof (ts_bg _ H) as Hb. induction Hb as [|b l Hb Hl IH]; cbn [map]; constructor; [|exact IH].
    destruct (bg_coop b) as [[o lag]|]; [|exact Hb]. match goal with |- context [if ?c then _ else _] => destruct c end; exact Hb. }
  match goal with |- context [if ?c then _ else _] => destruct c end; [apply Ts_set_oof|]; exact H1.
Qed.

Lemma bg_earliest_In l b : bg_earliest l = Some b -> In b l.
Proof.
  revert b. induction l as [|x l IH]; intros b H; cbn [bg_earliest] in H; [discriminate|].
  destruct (bg_earliest l) as [b'|].
  - destruct (bg_finish b' <? bg_finish x); inversion H; subst; [right; apply IH; reflexivity|left; reflexivity].
  - inversion H. left. reflexivity.
Qed.

Lemma copies_len_advance_aux w w' : w_copies w' = w_copies w -> length (w_copies w') = length (w_copies w).
Proof. intros ->. reflexivity. Qed.

Lemma Ts_advance fuel : forall w t intr acc, Ts w ->
  Ts (snd (advance fuel w t intr acc)) /\ length (w_copies (snd (advance fuel w t intr acc))) = length (w_copies w).
Proof.
  induction fuel as [|fuel IH]; intros w t intr acc H; cbn [advance].
  - destruct (match intr with Some c => _ | None => false end); cbn [snd]; [auto|].
    destruct (acc && _); cbn [snd]; [auto|]. split; [apply Ts_settle, H|destruct t; reflexivity].
  - destruct (match intr with Some c => _ | None => false end); cbn [snd]; [auto|].
    destruct (acc && _); cbn [snd]; [auto|].
    assert (Hs : Ts (settle w t) /\ length (w_copies (settle w t)) = length (w_copies w)) by (split; [apply Ts_settle, H|destruct t; reflexivity]).
    match goal with |- context [if ?c then _ else _] => destruct c end.
    + destruct (bg_earliest (w_bg w)) as [b|] eqn:Eb; [|exact Hs].
      destruct (due (bg_finish b) t); [|exact Hs].
      match goal with |- context [advance fuel ?w' t intr acc] => assert (H' : Ts w' /\ length (w_copies w') = length (w_copies w)) end.
      { match goal with |- context [set_now (if ?c then set_oof w else w) _] => set (w0 := if c then set_oof w else w) end.
        assert (H0 : Ts w0 /\ w_bg w0 = w_bg w /\ w_copies w0 = w_copies w)
          by (subst w0; match goal with |- context [if ?c then _ else _] => destruct c end; [split; [apply Ts_set_oof, H|auto]|auto]).
        destruct H0 as (H0 & Ebg & Ecp).
        split.
        - apply Ts_finish_bg; [cbn [w_bg set_now]; rewrite Ebg; apply bg_earliest_In, Eb|apply Ts_set_now, H0].
        - unfold finish_bg. match goal with |- context [if ?c then _ else _] => destruct c end; cbn [w_copies set_hedge stamp emit set_trace set_counters w_trace set_now]; rewrite Ecp; reflexivity. }
      destruct H' as [H1 L1]. destruct (IH _ t intr acc H1) as [H2 L2]. split; [exact H2|congruence].
    + destruct (next_timer w) as [[tt src]|]; [|exact Hs].
      destruct (due tt t); [|exact Hs].
      match goal with |- context [advance fuel ?w' t intr acc] => assert (H' : Ts w' /\ length (w_copies w') = length (w_copies w)) end.
      { match goal with |- context [set_now (if ?c then set_oof w else w) _] => set (w0 := if c then set_oof w else w) end.
        assert (H0 : Ts w0 /\ w_copies w0 = w_copies w)
          by (subst w0; match goal with |- context [if ?c then _ else _] => destruct c end; [split; [apply Ts_set_oof, H|auto]|auto]).
        destruct H0 as (H0 & Ecp).
        assert (H1 : Ts (set_now w0 (Z.max (w_now w0) tt))) by (apply Ts_set_now, H0).
        split.
        - apply Ts_refresh_bg. destruct src as [s|]; [apply Ts_fire_timeout, H1|]. destruct (w_ext w) as [[? e]|]; [apply Ts_fire_ext|]; exact H1.
        - unfold refresh_bg. match goal with |- context [if ?c then set_oof _ else _] => destruct c end; cbn [w_copies set_oof set_hedge];
            (destruct src as [s|]; [unfold fire_timeout; match goal with |- context [copy_err ?a ?b] => destruct (copy_err a b) end;
               [cbn; rewrite Ecp; reflexivity|unfold mark_done; match goal with |- context [sc_done ?x] => destruct (sc_done x) end;
                  cbn [w_copies set_scopes set_copy_last set_copies set_cell emit set_trace set_now]; rewrite ?upd_length, Ecp; reflexivity]
             | destruct (w_ext w) as [[? e]|]; [|cbn; rewrite Ecp; reflexivity];
               unfold fire_ext; destruct e; unfold mark_done;
               repeat match goal with |- context [sc_done ?x] => destruct (sc_done x) end;
               try match goal with |- context [copy_err ?a ?b] => destruct (copy_err a b) end;
               repeat match goal with |- context [sc_done ?x] => destruct (sc_done x) end;
               cbn [w_copies set_scopes set_copy_last set_copies set_cell set_now]; rewrite ?upd_length, ?Ecp; reflexivity]). }
      destruct H' as [H1 L1]. destruct (IH _ t intr acc H1) as [H2 L2]. split; [exact H2|congruence].
Qed.

Lemma Ts_wait w d intr : Ts w -> Ts (snd (wait w d intr)) /\ length (w_copies (snd (wait w d intr))) = length (w_copies w).
Proof. apply Ts_advance. Qed.

(* ---- layers ---- *)
Definition Step (w w' : world) : Prop := Ts w' /\ (length (w_copies w) <= length (w_copies w'))%nat.
Definition pres (l : layer) : Prop := forall c w, okc c w -> Ts w -> Step w (snd (l c w)).

Lemma okc_le c w w' : (length (w_copies w) <= length (w_copies w'))%nat -> okc c w -> okc c w'.
Proof. unfold okc. lia. Qed.

Lemma Step_refl w : Ts w -> Step w w.
Proof. intros H. split; [exact H|lia]. Qed.

Lemma Step_trans a b c : Step a b -> Step b c -> Step a c.
Proof. intros [_ L1] [H2 L2]. split; [exact H2|lia]. Qed.

Lemma Step_same w w' : Ts w' -> w_copies w' = w_copies w -> Step w w'.
Proof. intros H E. split; [exact H|rewrite E; lia]. Qed.

Lemma stamp_copies w c : w_copies (stamp w c) = w_copies w.
Proof. unfold stamp. destruct (w_trace w); reflexivity. Qed.

Lemma Step_ev w c k pos r : okc c w -> Ts w -> Step w (ev_with_result w c k pos r).
Proof. intros Hc H. unfold ev_with_result. apply Step_same; [apply Ts_stamp_emit; assumption|rewrite stamp_copies; reflexivity]. Qed.

Lemma Step_semit w c k pos o aux : okc c w -> Ts w -> Step w (stamp (emit w k pos o aux) c).
Proof. intros Hc H. apply Step_same; [apply Ts_stamp_emit; assumption|rewrite stamp_copies; reflexivity]. Qed.

Lemma Step_wait w d intr : Ts w -> Step w (snd (wait w d intr)).
Proof. intros H. destruct (Ts_wait w d intr H) as [A B]. split; [exact A|lia]. Qed.

Lemma fn_layer_pres pos : pres (fn_layer pos).
Proof.
  intros c w Hc H. unfold fn_layer.
  set (w0 := set_script w _). assert (H0 : Ts w0) by (apply Ts_set_script, H).
  assert (Hc0 : okc c w0) by exact Hc.
  pose proof (Step_semit w0 c KFnStart pos (snapshot w0 c) 0 Hc0 H0) as [H1 L1].
  set (w1 := stamp (emit w0 KFnStart pos _ 0) c) in *.
  assert (Hfin : forall o w2, Step w w2 -> Step w (stamp (emit (set_counters w2 (w_attempts w2) (w_retries w2) (w_executions w2 + 1)) KFnEnd pos o 0) c)).
  { intros o w2 [H2 L2]. eapply Step_trans; [split; [exact H2|exact L2]|].
    apply (Step_semit (set_counters w2 _ _ _) c); [apply (okc_le c w); [exact L2|exact Hc]|apply Ts_set_counters, H2]. }
  destruct (fs_coop _) as [co|].
  - pose proof (Step_wait w1 (fs_dur (next_step w)) (Some c) H1) as Sw. destruct (wait w1 _ (Some c)) as [ii w'].
    cbn [snd] in *. destruct ii.
    + pose proof (Step_wait w' (fs_lag (next_step w)) None (proj1 Sw)) as Sw2. destruct (wait w' _ None) as [jj w''].
      cbn [snd] in *. apply Hfin. eapply Step_trans; [split; [exact H1|exact L1]|]. eapply Step_trans; eassumption.
    + cbn [snd]. apply Hfin. eapply Step_trans; [split; [exact H1|exact L1]|exact Sw].
  - pose proof (Step_wait w1 (fs_dur (next_step w)) None H1) as Sw. destruct (wait w1 _ None) as [ii w'].
    cbn [snd] in *. apply Hfin. eapply Step_trans; [split; [exact H1|exact L1]|exact Sw].
Qed.

Lemma Step_emit_bevents pos evs : forall w, Ts w -> Step w (emit_bevents w pos evs).
Proof.
  unfold emit_bevents. induction evs as [|e evs IH]; intros w H; cbn [fold_left]; [apply Step_refl, H|].
  eapply Step_trans; [|apply IH, Ts_emit, H]. apply Step_same; [apply Ts_emit, H|reflexivity].
Qed.

Ltac step_chain := repeat (first [eassumption | eapply Step_trans; [eassumption|]]).

Lemma breaker_layer_pres pos inst inner : pres inner -> pres (breaker_layer pos inst inner).
Proof.
  intros Hi c w Hc H. unfold breaker_layer, set_breaker.
  destruct (nth inst (w_breakers w) _) as [cfg s].
  destruct (try_acquire conc_impl cfg s (w_now w)) as [[ok s1] evs].
  assert (S1 : Step w (emit_bevents (set_insts w (upd inst (fun p => (fst p, s1)) (w_breakers w)) (w_limiters w) (w_bulkheads w) (w_caches w)) pos evs)).
  { eapply Step_trans; [|apply Step_emit_bevents, Ts_set_insts, H]. apply Step_same; [apply Ts_set_insts, H|reflexivity]. }
  destruct ok; cbn [negb]; [|exact S1].
  set (w1 := emit_bevents _ pos evs) in *.
  pose proof (Hi c w1 (okc_le c w w1 (proj2 S1) Hc) (proj1 S1)) as S2. destruct (inner c w1) as [r w2]. cbn [snd] in S2.
  assert (Hc2 : okc c w2) by (apply (okc_le c w); [destruct S1, S2; lia|exact Hc]).
  destruct (nth inst (w_breakers w2) _) as [cfg2 s2].
  assert (Hfin : forall w3 s3 evs', Step w2 w3 ->
            Step w (emit_bevents (set_insts w3 (upd inst (fun p => (fst p, s3)) (w_breakers w3)) (w_limiters w3) (w_bulkheads w3) (w_caches w3)) pos evs')).
  { intros w3 s3 evs' S3. eapply Step_trans; [exact S1|]. eapply Step_trans; [exact S2|]. eapply Step_trans; [exact S3|].
    eapply Step_trans; [|apply Step_emit_bevents, Ts_set_insts, (proj1 S3)]. apply Step_same; [apply Ts_set_insts, (proj1 S3)|reflexivity]. }
  destruct (is_failure (b_fpol cfg) (pr_out r)).
  - destruct (record conc_impl cfg s2 _ false _) as [s3 evs']. cbn [snd]. apply Hfin. apply Step_ev; [exact Hc2|exact (proj1 S2)].
  - destruct (record conc_impl cfg s2 _ true _) as [s3 evs']. cbn [snd]. apply Hfin. apply Step_ev; [exact Hc2|exact (proj1 S2)].
Qed.

Lemma limiter_layer_pres pos inst mw inner : pres inner -> pres (limiter_layer pos inst mw inner).
Proof.
  intros Hi c w Hc H. unfold limiter_layer, limiter_layer_gen.
  destruct (nth inst (w_limiters w) _) as [[cfg base] s].
  destruct (lim_acquire cfg s (w_now w - base) 1 mw) as [wt s'].
  set (w1 := set_insts w _ _ _ _). assert (H1 : Ts w1) by (apply Ts_set_insts, H).
  assert (S1 : Step w w1) by (apply Step_same; [exact H1|reflexivity]).
  destruct (wt =? -1); [cbn [snd]; eapply Step_trans; [exact S1|]; apply Step_semit; [exact Hc|exact H1]|].
  pose proof (Step_wait w1 wt (Some c) H1) as Sw. destruct (wait w1 wt (Some c)) as [i w2]. cbn [snd] in Sw.
  destruct i; cbn [snd]; [eapply Step_trans; [exact S1|exact Sw]|].
  eapply Step_trans; [exact S1|]. eapply Step_trans; [exact Sw|]. apply Hi; [apply (okc_le c w1); [exact (proj2 Sw)|exact Hc]|exact (proj1 Sw)].
Qed.

Lemma bulkhead_layer_pres pos inst mw inner : pres inner -> pres (bulkhead_layer pos inst mw inner).
Proof.
  intros Hi c w Hc H. unfold bulkhead_layer.
  destruct (nth inst (w_bulkheads w) (0, 0)) as [cap held].
  destruct (copy_err w c); [apply Step_refl, H|].
  destruct (held <? cap).
  - match goal with |- context [inner c ?w1] => assert (H1 : Ts w1) by (apply Ts_set_insts, H);
      pose proof (Hi c w1 Hc H1) as S2; destruct (inner c w1) as [r w2] end.
    cbn [snd] in S2. destruct (nth inst (w_bulkheads w2) (0, 0)) as [cap2 held2]. cbn [snd].
    destruct S2 as [H2 L2]. split; [apply Ts_set_insts, H2|exact L2].
  - destruct (mw =? 0); [cbn [snd]; apply Step_semit; assumption|].
    pose proof (Step_wait w mw (Some c) H) as Sw. destruct (wait w mw (Some c)) as [i w1]. cbn [snd] in Sw.
    destruct i; [exact Sw|cbn [snd]]. eapply Step_trans; [exact Sw|]. apply Step_semit; [apply (okc_le c w); [exact (proj2 Sw)|exact Hc]|exact (proj1 Sw)].
Qed.

Lemma timeout_layer_pres pos limit inner : pres inner -> pres (timeout_layer pos limit inner).
Proof.
  intros Hi c w Hc H. unfold timeout_layer.
  set (w1 := set_scopes w _ _ _). assert (H1 : Ts w1) by (apply Ts_set_scopes, H).
  match goal with |- context [inner ?c' ?w2] => set (cn := c'); set (w2' := w2) end.
  assert (H2 : Ts w2') by (subst w2'; apply (Ts_append_copy w1 c); [exact Hc|exact H1]).
  assert (L2 : (length (w_copies w) <= length (w_copies w2'))%nat) by (subst w2' w1; cbn [w_copies set_copies set_scopes]; rewrite app_length; lia).
  assert (Hcn : okc cn w2') by (subst cn w2' w1; unfold okc; cbn [w_copies set_copies set_scopes]; rewrite app_length; cbn; lia).
  pose proof (Hi cn w2' Hcn H2) as [H3 L3]. destruct (inner cn w2') as [r w3]. cbn [snd] in *.
  split; [apply Ts_set_scopes, H3|cbn [w_copies set_scopes]; lia].
Qed.

Lemma Step_pause w d : Ts w -> Step w (pause w d).
Proof. intros H. unfold pause. destruct (0 <? d); [apply Step_wait, H|split; [exact H|lia]]. Qed.

Lemma fallback_layer_pres pos cfg inner : pres inner -> pres (fallback_layer pos cfg inner).
Proof.
  intros Hi c w Hc H. unfold fallback_layer. pose proof (Hi c w Hc H) as S1. destruct (inner c w) as [r w1]. cbn [snd] in S1.
  assert (Hc1 : okc c w1) by (apply (okc_le c w); [exact (proj2 S1)|exact Hc]).
  destruct (is_failure (fb_fpol cfg) (pr_out r)).
  - pose proof (Step_ev w1 c KPolFailure pos (with_failure r) Hc1 (proj1 S1)) as S2.
    set (w2a := ev_with_result w1 c KPolFailure pos _) in *.
    pose proof (Step_pause w2a (fb_lsn_dur cfg) (proj1 S2)) as S2b. set (w2 := pause w2a _) in *.
    assert (S2' : Step w w2) by (eapply Step_trans; [exact S1|eapply Step_trans; [exact S2|exact S2b]]).
    cbn [pr_succ with_failure]. destruct (is_canceled w2 c); [exact S2'|].
    pose proof (Step_pause w2 (fb_dur cfg) (proj1 S2')) as S3. set (w3 := pause w2 _) in *.
    assert (S3' : Step w w3) by (eapply Step_trans; [exact S2'|exact S3]).
    destruct (is_canceled w3 c); [exact S3'|].
    cbn [snd]. eapply Step_trans; [exact S3'|]. apply Step_same; [apply Ts_emit, (proj1 S3')|reflexivity].
  - cbn [pr_succ with_done]. cbn [snd]. eapply Step_trans; [exact S1|]. apply Step_ev; [exact Hc1|exact (proj1 S1)].
Qed.

Lemma cache_layer_pres pos inst cfg inner : pres inner -> pres (cache_layer pos inst cfg inner).
Proof.
  intros Hi c w Hc H. unfold cache_layer.
  destruct (if cache_key w cfg =? 0 then None else _) as [v|].
  - cbn [snd]. apply Step_same; [apply Ts_emit, H|reflexivity].
  - pose proof (Step_semit w c KCacheMiss pos (snapshot w c) 0 Hc H) as S1. set (w1 := stamp (emit w KCacheMiss pos _ 0) c) in *.
    pose proof (Hi c w1 (okc_le c w w1 (proj2 S1) Hc) (proj1 S1)) as S2. destruct (inner c w1) as [r w2]. cbn [snd] in S2.
    destruct (_ && _); cbn [snd]; [|eapply Step_trans; [exact S1|exact S2]].
    eapply Step_trans; [exact S1|]. eapply Step_trans; [exact S2|].
    set (w3 := set_insts w2 _ _ _ _). assert (H3 : Ts w3) by (apply Ts_set_insts, (proj1 S2)).
    eapply Step_trans; [apply (Step_same w2 w3); [exact H3|reflexivity]|].
    apply Step_ev; [|exact H3]. apply (okc_le c w); [destruct S1 as [_ L1]; destruct S2 as [_ L2]; subst w3; cbn [w_copies set_insts]; lia|exact Hc].
Qed.

Lemma Step_put_rstate w pos r : Ts w -> Step w (put_rstate w pos r).
Proof. intros H. unfold put_rstate. apply Step_same; [apply Ts_set_retry, H|reflexivity]. Qed.

Lemma retry_on_failure_Step cfg pos c r w : okc c w -> Ts w -> Step w (snd (retry_on_failure cfg pos c r w)).
Proof.
  intros Hc H. unfold retry_on_failure.
  pose proof (Step_ev w c KPolFailure pos r Hc H) as S0a. set (w0a := ev_with_result w c KPolFailure pos r) in *.
  pose proof (Step_pause w0a (r_lsn_dur cfg) (proj1 S0a)) as S0b. set (w0 := pause w0a (r_lsn_dur cfg)) in *.
  assert (S0 : Step w w0) by (eapply Step_trans; [exact S0a|exact S0b]).
  pose proof (Step_put_rstate w0 pos {| rs_failed := rs_failed (get_rstate w0 pos) + 1;
     rs_exceeded := negb (r_max_retries cfg =? -1) && (r_max_retries cfg <? rs_failed (get_rstate w0 pos) + 1)
                    || negb (r_max_duration cfg =? 0) && (r_max_duration cfg <? w_now w0 - w_start w0) |} (proj1 S0)) as S1.
  set (w1 := put_rstate w0 pos _) in *.
  assert (Hc1 : okc c w1) by (apply (okc_le c w); [destruct S0, S1; lia|exact Hc]).
  set (ab := is_abortable (r_abort cfg) (pr_out r)).
  set (w2 := if ab then ev_with_result w1 c KAbort pos r else w1).
  assert (S2 : Step w1 w2) by (subst w2; destruct ab; [apply Step_ev; [exact Hc1|exact (proj1 S1)]|apply Step_refl, (proj1 S1)]).
  assert (Hc2 : okc c w2) by (apply (okc_le c w1); [exact (proj2 S2)|exact Hc1]).
  assert (S02 : Step w w2) by (eapply Step_trans; [exact S0|]; eapply Step_trans; [exact S1|exact S2]).
  destruct (_ || _); [|exact S02].
  set (w3 := if negb ab then ev_with_result w2 c KRetriesExceeded pos r else w2).
  assert (S3 : Step w2 w3) by (subst w3; destruct (negb ab); [apply Step_ev; [exact Hc2|exact (proj1 S2)]|apply Step_refl, (proj1 S2)]).
  destruct (negb (r_return_last cfg)); cbn [snd]; eapply Step_trans; [exact S02|exact S3|exact S02|exact S3].
Qed.

Lemma retry_loop_Step cfg pos inner : pres inner ->
  forall fuel c w, okc c w -> Ts w -> Step w (snd (fst (retry_loop fuel cfg pos inner c w))).
Proof.
  intros Hi. induction fuel as [|fuel IH]; intros c w Hc H; cbn [retry_loop].
  - cbn [fst snd]. apply Step_same; [apply Ts_set_oof, H|reflexivity].
  - pose proof (Hi c w Hc H) as S1. destruct (inner c w) as [r w1]. cbn [snd] in S1.
    assert (Hc1 : okc c w1) by (apply (okc_le c w); [exact (proj2 S1)|exact Hc]).
    destruct (is_canceled w1 c); [exact S1|].
    destruct (rs_exceeded (get_rstate w1 pos)); [exact S1|].
    assert (S2 : Step w1 (snd (if is_failure (r_fpol cfg) (pr_out r) then retry_on_failure cfg pos c (with_failure r) w1
                              else (with_done r true true, ev_with_result w1 c KPolSuccess pos (with_done r true true))))).
    { destruct (is_failure _ _); [apply retry_on_failure_Step; [exact Hc1|exact (proj1 S1)]|cbn [snd]; apply Step_ev; [exact Hc1|exact (proj1 S1)]]. }
    destruct (if is_failure (r_fpol cfg) (pr_out r) then _ else _) as [r2 w2]. cbn [snd] in S2.
    assert (S12 : Step w w2) by (eapply Step_trans; [exact S1|exact S2]).
    assert (Hc2 : okc c w2) by (apply (okc_le c w); [exact (proj2 S12)|exact Hc]).
    destruct (pr_done r2); [exact S12|].
    destruct (is_canceled w2 c); [exact S12|].
    set (w3 := set_copy_last w2 c (pr_out r2)). assert (H3 : Ts w3) by (apply Ts_set_copy_last, (proj1 S2)).
    assert (L3 : length (w_copies w3) = length (w_copies w2)) by (subst w3; unfold set_copy_last; cbn [w_copies set_copies]; apply upd_length).
    assert (Hc3 : okc c w3) by (unfold okc in *; lia).
    pose proof (Step_semit w3 c KRetryScheduled pos (pr_res r2, match pr_err r2 with Some e => Some e | None => copy_err w3 c end) (retry_delay cfg w3) Hc3 H3) as S4.
    set (w4 := stamp (emit w3 KRetryScheduled pos _ _) c) in *.
    pose proof (Step_wait w4 (retry_delay cfg w3) (Some c) (proj1 S4)) as S5. destruct (wait w4 _ (Some c)) as [ii w5]. cbn [snd] in S5.
    assert (S05 : Step w w5).
    { split; [exact (proj1 S5)|]. destruct S12 as [_ A], S4 as [_ B], S5 as [_ C]. lia. }
    destruct (is_canceled w5 c); [exact S05|].
    assert (Hc5 : okc c w5) by (apply (okc_le c w); [exact (proj2 S05)|exact Hc]).
    (* InitializeRetry: the attempt start moves to now *)
    set (w6 := set_counters w5 _ _ _). assert (H6 : Ts w6) by (apply Ts_set_counters, (proj1 S5)).
    match goal with |- context [set_cell ?w7 None] => set (w7' := w7) end.
    assert (H7 : Ts w7').
    { subst w7'. apply (Ts_upd_copies w6); [|exact H6]. intros cp Hcp. unfold cp_ok in *. cbn [cp_start w_start w_now set_counters] in *.
      pose proof (ts_now _ (proj1 S5)). lia. }
    assert (L7 : length (w_copies w7') = length (w_copies w5)) by (subst w7' w6; cbn [w_copies set_copies set_counters]; apply upd_length).
    set (w8 := set_cell w7' None). assert (H8 : Ts w8) by (apply Ts_set_cell, H7).
    assert (Hc8 : okc c w8) by (unfold okc in *; subst w8; cbn [w_copies set_cell]; lia).
    pose proof (Step_ev w8 c KRetry pos r2 Hc8 H8) as S9. set (w9 := ev_with_result w8 c KRetry pos r2) in *.
    assert (Hc9 : okc c w9) by (apply (okc_le c w8); [exact (proj2 S9)|exact Hc8]).
    specialize (IH c w9 Hc9 (proj1 S9)). destruct (retry_loop fuel cfg pos inner c w9) as [[rr ww] n]. cbn [fst snd] in *.
    split; [exact (proj1 IH)|]. destruct S05 as [_ A], S9 as [_ B], IH as [_ C]. subst w8. cbn [w_copies set_cell] in B. lia.
Qed.

(* hedge *)
Lemma Ts_cancel_copy w cs : Ts w -> Ts (cancel_copy w cs) /\ length (w_copies (cancel_copy w cs)) = length (w_copies w).
Proof.
  intros H. unfold cancel_copy. destruct (copy_err w (fst cs)); [auto|].
  split; [apply Ts_mark_done, Ts_set_cell, H|]. unfold mark_done. destruct (sc_done _); reflexivity.
Qed.

Lemma Ts_cancel_others started : forall w i winner, Ts w ->
  Ts (cancel_others w started i winner) /\ length (w_copies (cancel_others w started i winner)) = length (w_copies w).
Proof.
  induction started as [|cs rest IH]; intros w i winner H; cbn [cancel_others]; [auto|].
  destruct (Nat.eqb i winner); [apply IH, H|].
  destruct (Ts_cancel_copy w cs H) as [H1 L1]. destruct (IH _ (S i) winner H1) as [H2 L2]. split; [exact H2|congruence].
Qed.

Lemma refresh_bg_copies w : w_copies (refresh_bg w) = w_copies w.
Proof. unfold refresh_bg. match goal with |- context [if ?c then _ else _] => destruct c end; reflexivity. Qed.

Lemma hedge_start_Step pos total c k w : okc c w -> Ts w ->
  Ts (hedge_start pos total c k w) /\ length (w_copies (hedge_start pos total c k w)) = S (length (w_copies w)).
Proof.
  intros Hc H. unfold hedge_start.
  set (w1 := set_scopes w _ _ _). assert (H1 : Ts w1) by (apply Ts_set_scopes, H).
  match goal with |- context [set_copies w1 ?l] => set (w2 := set_copies w1 l) end.
  assert (H2 : Ts w2) by (subst w2; apply (Ts_append_copy w1 c); [exact Hc|exact H1]).
  assert (L2 : length (w_copies w2) = S (length (w_copies w))) by (subst w2 w1; cbn [w_copies set_copies set_scopes]; rewrite app_length; cbn; lia).
  assert (Hn : okc (length (w_copies w)) w2) by (unfold okc; lia).
  match goal with |- context [set_script ?w3 _] => set (w3' := w3) end.
  assert (H3 : Ts w3' /\ w_copies w3' = w_copies w2 /\ w_bg w3' = w_bg w2).
  { subst w3'. destruct k as [|k']; [auto|].
    split; [|split; [rewrite stamp_copies; reflexivity|unfold stamp; cbn; reflexivity]].
    apply Ts_stamp_emit; [exact Hn|]. apply Ts_set_hedge; [exact (ts_bg _ H2)|apply Ts_set_counters, H2]. }
  destruct H3 as (H3 & E3 & B3).
  set (w4 := set_script w3' _). assert (H4 : Ts w4) by (apply Ts_set_script, H3).
  assert (Hn4 : okc (length (w_copies w)) w4) by (unfold okc in *; subst w4; cbn [w_copies set_script]; rewrite E3; exact Hn).
  match goal with |- context [stamp (emit w4 KFnStart total ?o ?a) ?cc] => set (w5 := stamp (emit w4 KFnStart total o a) cc) end.
  assert (H5 : Ts w5) by (apply Ts_stamp_emit; [exact Hn4|exact H4]).
  assert (E5 : w_copies w5 = w_copies w2) by (subst w5; rewrite stamp_copies; cbn [w_copies emit set_trace]; subst w4; cbn [w_copies set_script]; exact E3).
  split; [|rewrite refresh_bg_copies; cbn [w_copies set_hedge]; rewrite E5; exact L2].
  apply Ts_refresh_bg. apply Ts_set_hedge; [|exact H5].
  constructor.
  - unfold okc. cbn [bg_copy]. rewrite E5, L2. lia.
  - exact (ts_bg _ H5).
Qed.

Lemma hedge_loop_Step cfg pos total : forall fuel c k started w, okc c w -> Ts w ->
  Step w (snd (fst (hedge_loop fuel cfg pos total c k started w))).
Proof.
  induction fuel as [|fuel IH]; intros c k started w Hc H; cbn [hedge_loop].
  - cbn [fst snd]. apply Step_same; [apply Ts_set_oof, H|reflexivity].
  - destruct (hedge_start_Step pos total c k w Hc H) as [H6 L6]. set (w6 := hedge_start pos total c k w) in *.
    match goal with |- context [advance ?f w6 ?t ?i ?a] => destruct (Ts_advance f w6 t i a H6) as [H7 L7]; destruct (advance f w6 t i a) as [ii w7] end.
    cbn [snd] in *.
    assert (S7 : Step w w7) by (split; [exact H7|lia]).
    destruct (is_canceled w7 c); [exact S7|].
    destruct (hs_acc (w_hs w7)) as [[idx out]|].
    + cbn [fst snd]. unfold clear_acc.
      match goal with |- context [cancel_others ?x ?st 0 idx] => destruct (Ts_cancel_others st x 0%nat idx (Ts_set_hedge_same w7 _ _ H7)) as [H8 L8] end.
      split; [apply Ts_refresh_bg, H8|rewrite refresh_bg_copies, L8; cbn [w_copies set_hedge]; lia].
    + match goal with |- context [if ?c then Some _ else None] => destruct c end; [|cbn [fst snd]; eapply Step_trans; [exact S7|]; apply Step_same; [apply Ts_set_oof, H7|reflexivity]].
      assert (Hc7 : okc c w7) by (apply (okc_le c w); [exact (proj2 S7)|exact Hc]).
      specialize (IH c (S k) (started ++ [(length (w_copies w), length (w_scopes w))]) w7 Hc7 H7).
      destruct (hedge_loop fuel cfg pos total c (S k) _ w7) as [[r8 w8] ts]. cbn [fst snd] in *. eapply Step_trans; [exact S7|exact IH].
Qed.

Lemma hedge_layer_pres pos total cfg : pres (hedge_layer pos total cfg).
Proof.
  intros c w Hc H. unfold hedge_layer.
  match goal with |- context [hedge_loop ?f cfg pos total c 0 [] ?w0] =>
    pose proof (hedge_loop_Step cfg pos total f c 0%nat [] w0 Hc (Ts_set_hedge_same w _ _ H)) as S end.
  exact S.
Qed.

Theorem compose_pres fuel stack : forall pos total, pres (compose fuel pos stack total).
Proof.
  induction stack as [|p rest IH]; intros pos total; cbn [compose].
  - apply fn_layer_pres.
  - specialize (IH (S pos) total). destruct p as [rc|bi|li lmw|ki kmw|lim|fc|ci cc|hc]; cbn [apply_policy].
    + intros c w Hc H. apply (retry_loop_Step rc pos _ IH fuel c w Hc H).
    + apply breaker_layer_pres, IH.
    + apply limiter_layer_pres, IH.
    + apply bulkhead_layer_pres, IH.
    + apply timeout_layer_pres, IH.
    + apply fallback_layer_pres, IH.
    + apply cache_layer_pres, IH.
    + apply hedge_layer_pres.
Qed.

Lemma fire_ext_copies_len w e : length (w_copies (fire_ext w e)) = length (w_copies w).
Proof.
  unfold fire_ext, mark_done, set_copy_last.
  destruct e; cbn [w_copies set_scopes];
    repeat (match goal with |- context [match ?x with _ => _ end] => destruct x end; cbn [w_copies set_scopes set_copies set_cell]);
    rewrite ?upd_length; reflexivity.
Qed.

Lemma fresh_world_Ts now ext key b l k c script : t0 = now -> Ts (fresh_world now ext key b l k c script) /\ okc 0 (fresh_world now ext key b l k c script).
Proof.
  intros E.
  assert (H0 : Ts (fresh_world0 now ext key b l k c script)).
  { constructor; cbn [fresh_world0 w_start w_now w_trace w_copies w_bg].
    - symmetry. exact E.
    - lia.
    - constructor.
    - constructor; [|constructor]. unfold cp_ok. cbn. lia.
    - constructor. }
  assert (C0 : okc 0 (fresh_world0 now ext key b l k c script)) by (unfold okc; cbn; lia).
  unfold fresh_world. destruct ext as [[t e]|]; [|split; assumption]. destruct (t <=? now); [|split; assumption].
  split; [apply Ts_fire_ext, H0|]. unfold okc in *. rewrite fire_ext_copies_len. exact C0.
Qed.

End T0.

(* C17: in the complete log of any execution through any stack (incl. what hedge attempts still running when the
   execution returns log afterwards) every event shows StartTime = the instant the execution began, not later than
   the event; every AttemptStartTime shown lies between the two *)
Theorem start_times_exact fuel stack now ext key b l k c script :
  Forall (ev_ok now) (w_trace (drain (snd (execute fuel stack (fresh_world now ext key b l k c script))))).
Proof.
  destruct (fresh_world_Ts now now ext key b l k c script eq_refl) as [H0 Hc0]. set (w0 := fresh_world now ext key b l k c script) in *.
  unfold execute.
  pose proof (compose_pres now fuel stack 0 (length stack) 0%nat w0 Hc0 H0) as [H1 _].
  destruct (compose fuel 0 stack (length stack) 0%nat w0) as [r w1]. cbn [snd] in *.
  assert (H2 : Ts now (emit (if pr_all r then emit w1 KExecSuccess 0 (pr_out r) 0 else emit w1 KExecFailure 0 (pr_out r) 0) KExecDone 0 (pr_out r) 0))
    by (apply Ts_emit; destruct (pr_all r); apply Ts_emit, H1).
  set (w2 := emit _ KExecDone 0 (pr_out r) 0) in *.
  assert (H3 : Ts now (drain w2)).
  { unfold drain. destruct (w_bg w2); [exact H2|]. apply Ts_advance, Ts_set_scopes, H2. }
  pose proof (ts_ev _ _ H3) as He. rewrite (ts_t0 _ _ H3) in He. exact He.
Qed.

(* the executable form used by the correspondence (Corr/ExecCheckers.v [times_ok]) accepts every model log *)
Lemma ev_ok_bool now e : ev_ok now e ->
  ((e_start e =? now) && ((e_astart e =? -1) || ((now <=? e_astart e) && (e_astart e <=? e_time e)))) = true.
Proof. intros (A & B & [C|C]); lia. Qed.

Theorem start_times_checker_accepts_model fuel stack now ext key b l k c script :
  forallb (fun e => (e_start e =? now) && ((e_astart e =? -1) || ((now <=? e_astart e) && (e_astart e <=? e_time e))))
          (rev (w_trace (drain (snd (execute fuel stack (fresh_world now ext key b l k c script)))))) = true.
Proof.
  apply forallb_forall. intros e He. apply in_rev in He.
  pose proof (start_times_exact fuel stack now ext key b l k c script) as H. rewrite Forall_forall in H.
  apply ev_ok_bool, H, He.
Qed.
