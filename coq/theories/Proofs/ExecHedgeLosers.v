(* Proofs/ExecHedgeLosers.v — C09 inside a stack: at the moment a hedged run hands on an accepted result, every other
   attempt it started has been cancelled and the winning attempt has not. *)
From FS Require Import Model.Exec Proofs.ExecProofs Proofs.ExecHedgeProofs.
From Coq Require Import ZifyBool.

(* ---- ctx.Err() of a chain of scopes ---- *)
Definition pick (w : world) (acc : option (Z * err)) (s : nat) : option (Z * err) :=
  match sc_done (get_scope w s), acc with
  | Some (q, e), Some (q', _) => if q <? q' then Some (q, e) else acc
  | Some (q, e), None => Some (q, e)
  | None, _ => acc
  end.

Lemma ctx_err_fold w chain : ctx_err w chain = match fold_left (pick w) chain None with Some (_, e) => Some e | None => None end.
Proof. reflexivity. Qed.

Lemma fold_pick_some w : forall chain acc, acc <> None -> fold_left (pick w) chain acc <> None.
Proof.
  induction chain as [|s chain IH]; intros acc H; cbn [fold_left]; [exact H|].
  apply IH. unfold pick. destruct (sc_done (get_scope w s)) as [[q e]|]; [|exact H].
  destruct acc as [[q' e']|]; [destruct (q <? q'); discriminate|discriminate].
Qed.

Lemma fold_pick_none w : forall chain acc, fold_left (pick w) chain acc = None <->
  acc = None /\ forall s, In s chain -> sc_done (get_scope w s) = None.
Proof.
  induction chain as [|s chain IH]; intros acc; cbn [fold_left].
  - split; [intros H; split; [exact H|intros s []]|intros [H _]; exact H].
  - rewrite IH. unfold pick. split.
    + intros [H1 H2]. destruct (sc_done (get_scope w s)) as [[q e]|] eqn:E.
      * destruct acc as [[q' e']|]; [destruct (q <? q'); discriminate|discriminate].
      * split; [exact H1|]. intros s' [<-|Hin]; [exact E|apply H2, Hin].
    + intros [-> H]. rewrite (H s (or_introl eq_refl)). split; [reflexivity|]. intros s' Hin. apply H. right. exact Hin.
Qed.

Lemma ctx_err_none w chain : ctx_err w chain = None <-> forall s, In s chain -> sc_done (get_scope w s) = None.
Proof.
  rewrite ctx_err_fold. destruct (fold_left (pick w) chain None) as [[q e]|] eqn:E.
  - split; [discriminate|]. intros H. assert (F : fold_left (pick w) chain None = None) by (apply fold_pick_none; split; [reflexivity|exact H]).
    rewrite F in E. discriminate.
  - split; [|reflexivity]. intros _. apply fold_pick_none in E. apply E.
Qed.

Lemma ctx_err_some_if w chain s : In s chain -> sc_done (get_scope w s) <> None -> ctx_err w chain <> None.
Proof. intros Hin Hd H. destruct (ctx_err_none w chain) as [A _]. apply Hd, (A H), Hin. Qed.

(* ---- list updates ---- *)
Lemma nth_upd_other {A} (l : list A) n m f d : n <> m -> nth m (upd n f l) d = nth m l d.
Proof.
  revert n m. induction l as [|x l IH]; intros n m H; [destruct n; reflexivity|].
  destruct n as [|n], m as [|m]; cbn [upd nth]; try reflexivity; [contradiction|]. apply IH. lia.
Qed.

Lemma nth_upd_chain (l : list copyst) n m (f : copyst -> copyst) :
  (forall cp, cp_chain (f cp) = cp_chain cp) -> cp_chain (nth m (upd n f l) dflt_copy) = cp_chain (nth m l dflt_copy).
Proof.
  intros Hf. destruct (Nat.eq_dec n m) as [<-|Hne]; [|rewrite nth_upd_other by exact Hne; reflexivity].
  destruct (Nat.lt_ge_cases n (length l)) as [Hlt|Hge].
  - rewrite nth_upd_same by exact Hlt. apply Hf.
  - assert (E : upd n f l = l).
    { clear Hf. revert n Hge. induction l as [|x l IH]; intros n Hge; [destruct n; reflexivity|].
      destruct n as [|n]; cbn [length] in Hge; [lia|]. cbn [upd]. rewrite IH by lia. reflexivity. }
    rewrite E. reflexivity.
Qed.

Section K.
Variable n0 : nat.
Hypothesis Hn0 : (1 <= n0)%nat.

(* what the chronological loop may do to the state of a hedged run whose scopes are those from n0 on *)
Record Keeps (w w' : world) : Prop := {
  k_sc : length (w_scopes w') = length (w_scopes w);
  k_cp : length (w_copies w') = length (w_copies w);
  k_chain : forall k, cp_chain (get_copy w' k) = cp_chain (get_copy w k);
  k_scope : forall s, (n0 <= s)%nat -> get_scope w' s = get_scope w s;
  k_grp : hs_grp (w_hs w') = hs_grp (w_hs w);
  k_bg : forall b, In b (w_bg w') -> exists b0, In b0 (w_bg w) /\ bg_grp b0 = bg_grp b /\ bg_idx b0 = bg_idx b;
  k_acc : forall i o, hs_acc (w_hs w') = Some (i, o) ->
            hs_acc (w_hs w) = Some (i, o) \/ exists b, In b (w_bg w) /\ bg_grp b = hs_grp (w_hs w) /\ bg_idx b = i }.

Lemma Keeps_refl w : Keeps w w.
Proof. constructor; try reflexivity; intros; eauto. Qed.

Lemma Keeps_trans a b c : Keeps a b -> Keeps b c -> Keeps a c.
Proof.
  intros [A1 A2 A3 A4 A5 A6 A7] [B1 B2 B3 B4 B5 B6 B7]. constructor; try congruence.
  - intros s Hs. rewrite B4 by exact Hs. apply A4, Hs.
  - intros x Hx. destruct (B6 x Hx) as (y & Hy & G & I). destruct (A6 y Hy) as (z & Hz & G' & I'). exists z. repeat split; congruence.
  - intros i o H. destruct (B7 i o H) as [H'|(y & Hy & G & I)]; [apply A7, H'|].
    right. destruct (A6 y Hy) as (z & Hz & G' & I'). exists z. repeat split; congruence.
Qed.

Lemma Keeps_same w w' :
  w_scopes w' = w_scopes w -> w_copies w' = w_copies w -> w_bg w' = w_bg w -> w_hs w' = w_hs w -> Keeps w w'.
Proof.
  intros E1 E2 E3 E4. constructor; unfold get_copy, get_scope; rewrite ?E1, ?E2, ?E3, ?E4; try reflexivity; intros; eauto.
Qed.

Lemma Keeps_scopes_lt w s f seq ext : (s < n0)%nat -> Keeps w (set_scopes w (upd s f (w_scopes w)) seq ext).
Proof.
  intros Hs. constructor; cbn [w_scopes w_copies w_bg w_hs set_scopes]; try reflexivity; intros; eauto.
  - apply upd_length.
  - unfold get_scope. cbn [w_scopes set_scopes]. apply nth_upd_other. lia.
Qed.

Lemma Keeps_mark_done w s e : (s < n0)%nat -> Keeps w (mark_done w s e).
Proof. intros Hs. unfold mark_done. destruct (sc_done _); [apply Keeps_refl|apply Keeps_scopes_lt, Hs]. Qed.

Lemma Keeps_copy_last w c o : Keeps w (set_copy_last w c o).
Proof.
  unfold set_copy_last. constructor; cbn [w_scopes w_copies w_bg w_hs set_copies]; try reflexivity; intros; eauto.
  - apply upd_length.
  - unfold get_copy. cbn [w_copies set_copies]. apply nth_upd_chain. reflexivity.
Qed.

Lemma Keeps_fire_timeout w s : (s < n0)%nat -> Keeps w (fire_timeout w s).
Proof.
  intros Hs. unfold fire_timeout.
  set (w1 := set_scopes w _ (w_seq w) (w_ext w)). assert (K1 : Keeps w w1) by (apply Keeps_scopes_lt, Hs).
  set (w2 := emit w1 KTimeoutExceeded _ _ _). assert (K2 : Keeps w w2) by (eapply Keeps_trans; [exact K1|apply Keeps_same; reflexivity]).
  destruct (copy_err w2 _); [exact K2|].
  eapply Keeps_trans; [exact K2|]. eapply Keeps_trans; [|apply Keeps_mark_done, Hs].
  eapply Keeps_trans; [|apply Keeps_copy_last]. apply Keeps_same; reflexivity.
Qed.

Lemma Keeps_fire_ext w e : Keeps w (fire_ext w e).
Proof.
  unfold fire_ext. set (w0 := set_scopes w (w_scopes w) (w_seq w) None).
  assert (K0 : Keeps w w0) by (apply Keeps_same; reflexivity).
  assert (H0 : (0 < n0)%nat) by lia.
  destruct e; try (eapply Keeps_trans; [exact K0|apply Keeps_mark_done, H0]).
  destruct (copy_err w0 0%nat); [exact K0|].
  eapply Keeps_trans; [exact K0|]. eapply Keeps_trans; [|apply Keeps_mark_done, H0].
  eapply Keeps_trans; [|apply Keeps_copy_last]. apply Keeps_same; reflexivity.
Qed.

Lemma Keeps_refresh_bg w : Keeps w (refresh_bg w).
Proof.
  unfold refresh_bg.
  match goal with |- context [set_hedge w (w_hedges w) ?bg' (w_hs w)] => set (bg := bg') end.
  assert (K : Keeps w (set_hedge w (w_hedges w) bg (w_hs w))).
  { constructor; cbn [w_scopes w_copies w_bg w_hs set_hedge]; try reflexivity; intros; eauto.
    subst bg. apply in_map_iff in H. destruct H as (b0 & <- & Hin). exists b0. split; [exact Hin|].
    destruct (bg_coop b0) as [[o lag]|]; [|split; reflexivity].
    match goal with |- context [if ?c then _ else _] => destruct c end; split; reflexivity. }
  match goal with |- context [if ?c then _ else _] => destruct c end; [|exact K].
  eapply Keeps_trans; [exact K|apply Keeps_same; reflexivity].
Qed.

Lemma Keeps_settle w t : Keeps w (settle w t).
Proof. destruct t; [apply Keeps_same; reflexivity|apply Keeps_refl]. Qed.

Lemma Keeps_finish_bg w b : In b (w_bg w) -> Keeps w (finish_bg w b).
Proof.
  intros Hb. unfold finish_bg.
  set (w1 := set_hedge w (w_hedges w) _ (w_hs w)). set (w2 := set_counters w1 _ _ _).
  set (w3 := stamp (emit w2 KFnEnd (bg_pos b) (bg_out b) 0) (bg_copy b)).
  assert (S3 : w_hs w3 = w_hs w) by (subst w3; unfold stamp, emit; cbn [w_trace set_trace]; reflexivity).
  assert (B3 : w_bg w3 = bg_remove b (w_bg w)) by (subst w3; unfold stamp, emit; cbn [w_trace set_trace]; reflexivity).
  assert (C3 : w_copies w3 = w_copies w) by (subst w3; unfold stamp, emit; cbn [w_trace set_trace]; reflexivity).
  assert (D3 : w_scopes w3 = w_scopes w) by (subst w3; unfold stamp, emit; cbn [w_trace set_trace]; reflexivity).
  assert (Bsub : forall x, In x (bg_remove b (w_bg w)) -> In x (w_bg w)) by (intros x Hx; unfold bg_remove in Hx; apply filter_In in Hx; apply Hx).
  destruct (Nat.eqb (bg_grp b) (hs_grp (w_hs w3))) eqn:G.
  - constructor; cbn [w_scopes w_copies w_bg w_hs set_hedge hs_grp hs_acc]; unfold get_copy, get_scope; cbn [w_scopes w_copies set_hedge];
      rewrite ?S3, ?B3, ?C3, ?D3; try reflexivity.
    + intros x Hx. exists x. split; [apply Bsub, Hx|split; reflexivity].
    + intros i o H. match type of H with (if ?t then _ else _) = _ => destruct t end.
      * injection H as <- <-. right. exists b. split; [exact Hb|]. split; [|reflexivity].
        apply Nat.eqb_eq in G. rewrite S3 in G. exact G.
      * left. exact H.
  - constructor; unfold get_copy, get_scope; rewrite ?S3, ?B3, ?C3, ?D3; try reflexivity.
    + intros x Hx. exists x. split; [apply Bsub, Hx|split; reflexivity].
    + intros i o H. left. exact H.
Qed.

Definition fresh_from (w : world) : Prop := forall s, (n0 <= s)%nat -> sc_deadline (get_scope w s) = None.

Lemma fresh_from_Keeps w w' : Keeps w w' -> fresh_from w -> fresh_from w'.
Proof. intros K H s Hs. rewrite (k_scope _ _ K s Hs). apply H, Hs. Qed.

Lemma bg_earliest_in l b : bg_earliest l = Some b -> In b l.
Proof.
  revert b. induction l as [|x l IH]; intros b H; cbn [bg_earliest] in H; [discriminate|].
  destruct (bg_earliest l) as [b'|]; [|injection H as <-; left; reflexivity].
  destruct (bg_finish b' <? bg_finish x); injection H as <-; [right; apply IH; reflexivity|left; reflexivity].
Qed.

Lemma advance_Keeps fuel : forall w t intr acc, fresh_from w -> Keeps w (snd (advance fuel w t intr acc)).
Proof.
  induction fuel as [|fuel IH]; intros w t intr acc F; cbn [advance].
  - destruct (match intr with Some c => _ | None => false end); cbn [snd]; [apply Keeps_refl|].
    destruct (acc && _); cbn [snd]; [apply Keeps_refl|apply Keeps_settle].
  - destruct (match intr with Some c => _ | None => false end); cbn [snd]; [apply Keeps_refl|].
    destruct (acc && _); cbn [snd]; [apply Keeps_refl|].
    match goal with |- context [if ?c then _ else _] => destruct c end.
    + destruct (bg_earliest (w_bg w)) as [b|] eqn:Eb; [|apply Keeps_settle].
      destruct (due (bg_finish b) t); [|apply Keeps_settle].
      match goal with |- context [set_now (if ?c then set_oof w else w) ?tt] => set (w1 := set_now (if c then set_oof w else w) tt) end.
      assert (K1 : Keeps w w1) by (subst w1; match goal with |- context [if ?c then _ else _] => destruct c end; apply Keeps_same; reflexivity).
      assert (Hb : In b (w_bg w1)).
      { apply bg_earliest_in in Eb. subst w1. match goal with |- context [if ?c then _ else _] => destruct c end; exact Eb. }
      assert (K2 : Keeps w (finish_bg w1 b)) by (eapply Keeps_trans; [exact K1|apply Keeps_finish_bg, Hb]).
      eapply Keeps_trans; [exact K2|]. apply IH. eapply fresh_from_Keeps; [exact K2|exact F].
    + destruct (next_timer w) as [[tt src]|] eqn:Ent; [|apply Keeps_settle].
      destruct (due tt t); [|apply Keeps_settle].
      match goal with |- context [set_now (if ?c then set_oof w else w) ?t1] => set (w1 := set_now (if c then set_oof w else w) t1) end.
      assert (K1 : Keeps w w1) by (subst w1; match goal with |- context [if ?c then _ else _] => destruct c end; apply Keeps_same; reflexivity).
      assert (K2 : Keeps w (refresh_bg (match src with
                                        | Some s => fire_timeout w1 s
                                        | None => match w_ext w with Some (_, e) => fire_ext w1 e | None => w1 end
                                        end))).
      { eapply Keeps_trans; [|apply Keeps_refresh_bg]. eapply Keeps_trans; [exact K1|].
        destruct src as [s|].
        - apply Keeps_fire_timeout. pose proof (next_timer_deadline w tt s Ent) as Hd.
          destruct (Nat.lt_ge_cases s n0) as [Hlt|Hge]; [exact Hlt|]. rewrite (F s Hge) in Hd. discriminate.
        - destruct (w_ext w) as [[? e]|]; [apply Keeps_fire_ext|apply Keeps_refl]. }
      eapply Keeps_trans; [exact K2|]. apply IH. eapply fresh_from_Keeps; [exact K2|exact F].
Qed.
End K.

(* ---- cancelling the losers ---- *)
Lemma copy_err_none_iff w c : copy_err w c = None <-> forall s, In s (cp_chain (get_copy w c)) -> sc_done (get_scope w s) = None.
Proof. unfold copy_err. apply ctx_err_none. Qed.

Lemma mark_done_chain w s e k : cp_chain (get_copy (mark_done w s e) k) = cp_chain (get_copy w k).
Proof. unfold mark_done. destruct (sc_done _); reflexivity. Qed.

Lemma mark_done_other w s e s' : s' <> s -> get_scope (mark_done w s e) s' = get_scope w s'.
Proof.
  intros H. unfold mark_done. destruct (sc_done _); [reflexivity|].
  unfold get_scope. cbn [w_scopes set_scopes]. apply nth_upd_other. auto.
Qed.

Lemma mark_done_self w s e : (s < length (w_scopes w))%nat -> sc_done (get_scope (mark_done w s e) s) <> None.
Proof.
  intros H. unfold mark_done. destruct (sc_done (get_scope w s)) eqn:E; [rewrite E; discriminate|].
  unfold get_scope. cbn [w_scopes set_scopes]. rewrite nth_upd_same by exact H. cbn [sc_done]. discriminate.
Qed.

Lemma mark_done_mono w s e s' : sc_done (get_scope w s') <> None -> sc_done (get_scope (mark_done w s e) s') <> None.
Proof.
  intros H. destruct (Nat.eq_dec s' s) as [->|Hne]; [|rewrite mark_done_other by exact Hne; exact H].
  unfold mark_done. destruct (sc_done (get_scope w s)) eqn:E; [rewrite E; discriminate|contradiction].
Qed.

Lemma mark_done_len w s e : length (w_scopes (mark_done w s e)) = length (w_scopes w).
Proof. unfold mark_done. destruct (sc_done _); [reflexivity|]. cbn [w_scopes set_scopes]. apply upd_length. Qed.

(* one loser *)
Lemma cancel_copy_spec w cs :
  let w' := cancel_copy w cs in
  (forall k, cp_chain (get_copy w' k) = cp_chain (get_copy w k))
  /\ length (w_scopes w') = length (w_scopes w)
  /\ (forall s, sc_done (get_scope w s) <> None -> sc_done (get_scope w' s) <> None)
  /\ (forall s, s <> snd cs -> get_scope w' s = get_scope w s)
  /\ ((snd cs < length (w_scopes w))%nat -> In (snd cs) (cp_chain (get_copy w (fst cs))) -> copy_err w' (fst cs) <> None).
Proof.
  cbv zeta. unfold cancel_copy. destruct (copy_err w (fst cs)) as [e|] eqn:Ec.
  - repeat split; auto. intros _ _. rewrite Ec. discriminate.
  - set (w0 := set_cell w None).
    assert (G : forall s, get_scope w0 s = get_scope w s) by reflexivity.
    assert (C : forall k, get_copy w0 k = get_copy w k) by reflexivity.
    split; [intros k; rewrite mark_done_chain, C; reflexivity|].
    split; [rewrite mark_done_len; reflexivity|].
    split; [intros s H; apply mark_done_mono; rewrite G; exact H|].
    split; [intros s H; rewrite mark_done_other by exact H; apply G|].
    intros Hlt Hin. unfold copy_err. rewrite mark_done_chain, C.
    apply (ctx_err_some_if _ _ (snd cs) Hin). apply mark_done_self. exact Hlt.
Qed.

Lemma copy_err_mono w w' c :
  (forall k, cp_chain (get_copy w' k) = cp_chain (get_copy w k)) ->
  (forall s, sc_done (get_scope w s) <> None -> sc_done (get_scope w' s) <> None) ->
  copy_err w c <> None -> copy_err w' c <> None.
Proof.
  intros Hc Hm H H'. apply H. apply copy_err_none_iff. intros s Hin.
  destruct (sc_done (get_scope w s)) as [d|] eqn:E; [|reflexivity].
  exfalso. destruct (copy_err_none_iff w' c) as [A _]. specialize (A H' s). rewrite Hc in A. specialize (A Hin).
  apply (Hm s); [rewrite E; discriminate|exact A].
Qed.

(* all of them: position [i + j] of the run's attempts is cancelled unless it is the winner, nothing else changes *)
Lemma cancel_others_spec : forall started w i winner,
  let w' := cancel_others w started i winner in
  (forall k, cp_chain (get_copy w' k) = cp_chain (get_copy w k))
  /\ length (w_scopes w') = length (w_scopes w)
  /\ (forall s, sc_done (get_scope w s) <> None -> sc_done (get_scope w' s) <> None)
  /\ (forall s, (forall j cs, nth_error started j = Some cs -> (i + j)%nat <> winner -> snd cs <> s) -> get_scope w' s = get_scope w s)
  /\ (forall j cs, nth_error started j = Some cs -> (i + j)%nat <> winner ->
        (snd cs < length (w_scopes w))%nat -> In (snd cs) (cp_chain (get_copy w (fst cs))) -> copy_err w' (fst cs) <> None).
Proof.
  induction started as [|cs rest IH]; intros w i winner; cbn [cancel_others].
  - repeat split; auto. intros j cs H. destruct j; discriminate.
  - set (w1 := if Nat.eqb i winner then w else cancel_copy w cs).
    destruct (IH w1 (S i) winner) as (R1 & R2 & R3 & R4 & R5).
    assert (S1 : (forall k, cp_chain (get_copy w1 k) = cp_chain (get_copy w k))
                 /\ length (w_scopes w1) = length (w_scopes w)
                 /\ (forall s, sc_done (get_scope w s) <> None -> sc_done (get_scope w1 s) <> None)
                 /\ (forall s, (i <> winner -> s <> snd cs) -> get_scope w1 s = get_scope w s)
                 /\ (i <> winner -> (snd cs < length (w_scopes w))%nat -> In (snd cs) (cp_chain (get_copy w (fst cs))) -> copy_err w1 (fst cs) <> None)).
    { subst w1. destruct (Nat.eqb i winner) eqn:E.
      - apply Nat.eqb_eq in E. repeat split; auto; try (intros; contradiction).
      - apply Nat.eqb_neq in E. destruct (cancel_copy_spec w cs) as (A & B & C & D & F). repeat split; auto. }
    destruct S1 as (A & B & C & D & F).
    split; [intros k; rewrite R1; apply A|].
    split; [rewrite R2; exact B|].
    split; [intros s H; apply R3, C, H|].
    split.
    + intros s H. rewrite R4.
      * apply D. intros Hne. apply not_eq_sym. apply (H 0%nat cs eq_refl). rewrite Nat.add_0_r. exact Hne.
      * intros j cs' Hj Hne. apply (H (S j) cs' Hj). lia.
    + intros j cs' Hj Hne Hlt Hin. destruct j as [|j]; cbn [nth_error] in Hj.
      * injection Hj as <-. rewrite Nat.add_0_r in Hne. apply (copy_err_mono w1); [exact R1|exact R3|]. apply F; assumption.
      * apply (R5 j cs' Hj); [lia|rewrite B; exact Hlt|rewrite A; exact Hin].
Qed.

Lemma NoDup_app_one {A} (l : list A) x : NoDup l -> ~ In x l -> NoDup (l ++ [x]).
Proof.
  induction l as [|y l IH]; intros Hn Hx; cbn [app]; [constructor; [intros []|constructor]|].
  inversion Hn as [|? ? Hy Hl]; subst. constructor.
  - intros Hin. apply in_app_or in Hin. destruct Hin as [Hin|[<-|[]]]; [contradiction|]. apply Hx. left. reflexivity.
  - apply IH; [exact Hl|]. intros Hin. apply Hx. right. exact Hin.
Qed.

(* ---- the invariant of a hedged run ---- *)
Record HI (c n0 : nat) (chain0 : list nat) (g : nat) (started : list (nat * nat)) (w : world) : Prop := {
  hi_n0 : (1 <= n0 <= length (w_scopes w))%nat;
  hi_c : (c < length (w_copies w))%nat;
  hi_chain : cp_chain (get_copy w c) = chain0;
  hi_chain0 : forall s, In s chain0 -> (s < n0)%nat;
  hi_fresh : fresh_from n0 w;
  hi_each : forall c' s', In (c', s') started ->
              (n0 <= s' < length (w_scopes w))%nat /\ (c' < length (w_copies w))%nat
              /\ cp_chain (get_copy w c') = s' :: chain0 /\ sc_done (get_scope w s') = None;
  hi_nodup : NoDup (map snd started);
  hi_grp : hs_grp (w_hs w) = g;
  hi_bg : forall b, In b (w_bg w) -> bg_grp b = g -> (bg_idx b < length started)%nat;
  hi_acc : forall i o, hs_acc (w_hs w) = Some (i, o) -> (i < length started)%nat }.

Lemma HI_Keeps c n0 chain0 g started w w' : HI c n0 chain0 g started w -> Keeps n0 w w' -> HI c n0 chain0 g started w'.
Proof.
  intros [H1 H2 H3 H4 H5 H6 H7 H8 H9 H10] K. destruct K as [K1 K2 K3 K4 K5 K6 K7] eqn:EK. constructor.
  - rewrite K1. exact H1.
  - rewrite K2. exact H2.
  - rewrite K3. exact H3.
  - exact H4.
  - eapply fresh_from_Keeps; [exact K|exact H5].
  - intros c' s' Hin. destruct (H6 c' s' Hin) as (A & B & C & D). rewrite K1, K2, K3, (K4 s') by lia. auto.
  - exact H7.
  - rewrite K5. exact H8.
  - intros b Hb Hg. destruct (K6 b Hb) as (b0 & Hb0 & G & I). rewrite <- I. apply H9; [exact Hb0|congruence].
  - intros i o H. destruct (K7 i o H) as [H'|(b & Hb & G & I)]; [apply (H10 i o H')|].
    rewrite <- I. apply H9; [exact Hb|congruence].
Qed.

Lemma hedge_start_scopes pos total c k w :
  w_scopes (hedge_start pos total c k w) =
  w_scopes w ++ [ {| sc_deadline := None; sc_fired := false; sc_done := None; sc_copy := length (w_copies w); sc_pos := pos |} ].
Proof. unfold hedge_start, refresh_bg. match goal with |- context [if ?c then _ else _] => destruct c end; destruct k; reflexivity. Qed.

Lemma hedge_start_copies pos total c k w :
  w_copies (hedge_start pos total c k w) =
  w_copies w ++ [ {| cp_chain := length (w_scopes w) :: cp_chain (get_copy w c); cp_last := cp_last (get_copy w c); cp_start := cp_start (get_copy w c) |} ].
Proof. unfold hedge_start, refresh_bg. match goal with |- context [if ?c then _ else _] => destruct c end; destruct k; reflexivity. Qed.

Lemma hedge_start_hs' pos total c k w : w_hs (hedge_start pos total c k w) = w_hs w.
Proof. unfold hedge_start, refresh_bg. match goal with |- context [if ?c then _ else _] => destruct c end; destruct k; reflexivity. Qed.

Lemma hedge_start_bg pos total c k w : forall b, In b (w_bg (hedge_start pos total c k w)) ->
  (bg_grp b = hs_grp (w_hs w) /\ bg_idx b = k) \/ exists b0, In b0 (w_bg w) /\ bg_grp b0 = bg_grp b /\ bg_idx b0 = bg_idx b.
Proof.
  intros b Hb. unfold hedge_start in Hb.
  match type of Hb with In b (w_bg (refresh_bg ?wx)) => destruct (k_bg 1 wx (refresh_bg wx) (Keeps_refresh_bg 1 wx) b Hb) as (b0 & Hb0 & G & I) end.
  cbn [w_bg set_hedge] in Hb0. destruct Hb0 as [<-|Hb0].
  - left. cbn [bg_grp bg_idx] in G, I. split; [|symmetry; exact I]. rewrite <- G. destruct k; reflexivity.
  - right. exists b0. split; [|split; assumption]. destruct k; exact Hb0.
Qed.

Lemma HI_hedge_start pos total c n0 chain0 g started w :
  HI c n0 chain0 g started w ->
  HI c n0 chain0 g (started ++ [(length (w_copies w), length (w_scopes w))]) (hedge_start pos total c (length started) w).
Proof.
  intros [H1 H2 H3 H4 H5 H6 H7 H8 H9 H10].
  set (w6 := hedge_start pos total c (length started) w).
  assert (Es : w_scopes w6 = w_scopes w ++ [ {| sc_deadline := None; sc_fired := false; sc_done := None; sc_copy := length (w_copies w); sc_pos := pos |} ]) by apply hedge_start_scopes.
  assert (Ec : w_copies w6 = w_copies w ++ [ {| cp_chain := length (w_scopes w) :: cp_chain (get_copy w c); cp_last := cp_last (get_copy w c); cp_start := cp_start (get_copy w c) |} ]) by apply hedge_start_copies.
  assert (Eh : w_hs w6 = w_hs w) by apply hedge_start_hs'.
  assert (Gs : forall s, (s < length (w_scopes w))%nat -> get_scope w6 s = get_scope w s) by (intros s Hs; unfold get_scope; rewrite Es, app_nth1 by exact Hs; reflexivity).
  assert (Gc : forall k, (k < length (w_copies w))%nat -> get_copy w6 k = get_copy w k) by (intros k Hk; unfold get_copy; rewrite Ec, app_nth1 by exact Hk; reflexivity).
  constructor.
  - rewrite Es, app_length. cbn [length]. lia.
  - rewrite Ec, app_length. cbn [length]. lia.
  - rewrite Gc by exact H2. exact H3.
  - exact H4.
  - intros s Hs. destruct (Nat.lt_ge_cases s (length (w_scopes w))) as [Hlt|Hge]; [rewrite Gs by exact Hlt; apply H5, Hs|].
    unfold get_scope. rewrite Es. destruct (Nat.eq_dec s (length (w_scopes w))) as [->|Hne].
    + rewrite app_nth2, Nat.sub_diag by lia. reflexivity.
    + rewrite nth_overflow by (rewrite app_length; cbn [length]; lia). reflexivity.
  - intros c' s' Hin. apply in_app_or in Hin. destruct Hin as [Hin|[Heq|[]]].
    + destruct (H6 c' s' Hin) as (A & B & C & D). rewrite Es, Ec, !app_length. cbn [length].
      rewrite Gc by exact B. rewrite Gs by lia. repeat split; try lia; assumption.
    + injection Heq as <- <-. rewrite Es, Ec, !app_length. cbn [length]. repeat split; try lia.
      * unfold get_copy. rewrite Ec, app_nth2, Nat.sub_diag by lia. cbn [nth cp_chain]. rewrite H3. reflexivity.
      * unfold get_scope. rewrite Es, app_nth2, Nat.sub_diag by lia. reflexivity.
  - rewrite map_app. cbn [map snd]. apply NoDup_app_one; [exact H7|].
    intros Hin. apply in_map_iff in Hin. destruct Hin as ([c' s'] & E & Hin). cbn [snd] in E. subst s'.
    destruct (H6 c' _ Hin) as (A & _). lia.
  - rewrite Eh. exact H8.
  - intros b Hb Hg. rewrite app_length. cbn [length].
    destruct (hedge_start_bg pos total c (length started) w b Hb) as [[_ I]|(b0 & Hb0 & G & I)]; [lia|].
    specialize (H9 b0 Hb0 ltac:(congruence)). lia.
  - intros i o H. rewrite Eh in H. rewrite app_length. cbn [length]. specialize (H10 i o H). lia.
Qed.

Lemma copy_err_same w w' k : w_scopes w' = w_scopes w -> w_copies w' = w_copies w -> copy_err w' k = copy_err w k.
Proof. intros E1 E2. unfold copy_err, ctx_err, get_copy, get_scope. rewrite E1, E2. reflexivity. Qed.

Lemma refresh_bg_scopes w : w_scopes (refresh_bg w) = w_scopes w.
Proof. unfold refresh_bg. match goal with |- context [if ?c then _ else _] => destruct c end; reflexivity. Qed.
Lemma refresh_bg_copies' w : w_copies (refresh_bg w) = w_copies w.
Proof. unfold refresh_bg. match goal with |- context [if ?c then _ else _] => destruct c end; reflexivity. Qed.

Lemma nodup_snd_distinct (l : list (nat * nat)) i j a b :
  NoDup (map snd l) -> nth_error l i = Some a -> nth_error l j = Some b -> i <> j -> snd a <> snd b.
Proof.
  intros Hn Hi Hj Hne E. apply Hne. rewrite NoDup_nth_error in Hn. apply Hn.
  - rewrite map_length. apply nth_error_Some. rewrite Hi. discriminate.
  - rewrite (map_nth_error snd i l Hi), (map_nth_error snd j l Hj). rewrite E. reflexivity.
Qed.

(* what the run leaves behind when it hands on an accepted result: exactly one of its attempts is not cancelled *)
Definition one_left (c : nat) (started0 : list (nat * nat)) (w' : world) : Prop :=
  w_oof w' = true
  \/ is_canceled w' c <> None
  \/ exists more idx cw sw, nth_error (started0 ++ more) idx = Some (cw, sw)
       /\ copy_err w' cw = None
       /\ forall j c' s', nth_error (started0 ++ more) j = Some (c', s') -> j <> idx -> copy_err w' c' <> None.

Theorem hedge_loop_one_left cfg pos total c n0 chain0 g : forall fuel k started w,
  k = length started -> HI c n0 chain0 g started w ->
  one_left c started (snd (fst (hedge_loop fuel cfg pos total c k started w))).
Proof.
  induction fuel as [|fuel IH]; intros k started w Hk H; cbn [hedge_loop].
  - cbn [fst snd]. left. reflexivity.
  - subst k.
    pose proof (HI_hedge_start pos total c n0 chain0 g started w H) as H6.
    set (started' := started ++ [(length (w_copies w), length (w_scopes w))]) in *.
    set (w6 := hedge_start pos total c (length started) w) in *.
    match goal with |- context [advance ?f w6 ?t ?i ?a] =>
      pose proof (advance_Keeps n0 (proj1 (hi_n0 _ _ _ _ _ _ H6)) f w6 t i a (hi_fresh _ _ _ _ _ _ H6)) as K7; destruct (advance f w6 t i a) as [ii w7] end.
    cbn [snd] in K7. pose proof (HI_Keeps _ _ _ _ _ _ _ H6 K7) as H7.
    destruct (is_canceled w7 c) as [cr|] eqn:Ec; [cbn [fst snd]; right; left; rewrite Ec; discriminate|].
    assert (Ec' : copy_err w7 c = None) by (unfold is_canceled in Ec; destruct (copy_err w7 c); [discriminate|reflexivity]).
    destruct (hs_acc (w_hs w7)) as [[idx out]|] eqn:Ea.
    + cbn [fst snd]. right. right.
      pose proof (hi_acc _ _ _ _ _ _ H7 idx out Ea) as Hidx.
      destruct (nth_error started' idx) as [[cw sw]|] eqn:En; [|apply nth_error_None in En; lia].
      exists [(length (w_copies w), length (w_scopes w))], idx, cw, sw. fold started'.
      set (w8 := clear_acc w7).
      assert (G8 : forall s, get_scope w8 s = get_scope w7 s) by reflexivity.
      assert (C8 : forall k, get_copy w8 k = get_copy w7 k) by reflexivity.
      destruct (cancel_others_spec started' w8 0 idx) as (R1 & R2 & R3 & R4 & R5).
      set (w9 := cancel_others w8 started' 0 idx) in *.
      assert (E9 : forall k, copy_err (refresh_bg w9) k = copy_err w9 k) by (intros k; apply copy_err_same; [apply refresh_bg_scopes|apply refresh_bg_copies']).
      split; [exact En|]. split.
      * rewrite E9. apply copy_err_none_iff. intros s Hs. rewrite R1, C8 in Hs.
        destruct (hi_each _ _ _ _ _ _ H7 cw sw (nth_error_In _ _ En)) as (A & B & C & D). rewrite C in Hs.
        rewrite R4, G8.
        -- destruct Hs as [<-|Hs]; [exact D|].
           destruct (copy_err_none_iff w7 c) as [F _]. apply (F Ec'). rewrite (hi_chain _ _ _ _ _ _ H7). exact Hs.
        -- intros j cs Hj Hne. cbn [Nat.add] in Hne. destruct Hs as [<-|Hs].
           ++ apply (nodup_snd_distinct started' j idx cs (cw, sw)); [exact (hi_nodup _ _ _ _ _ _ H7)|exact Hj|exact En|exact Hne].
           ++ destruct cs as [c' s']. destruct (hi_each _ _ _ _ _ _ H7 c' s' (nth_error_In _ _ Hj)) as (A' & _).
              pose proof (hi_chain0 _ _ _ _ _ _ H7 s Hs) as Hlt0. cbn [snd]. intros Es. rewrite Es in A'. destruct A' as [A1' _]. apply (Nat.lt_irrefl s). eapply Nat.lt_le_trans; [exact Hlt0|exact A1'].
      * intros j c' s' Hj Hne. rewrite E9.
        destruct (hi_each _ _ _ _ _ _ H7 c' s' (nth_error_In _ _ Hj)) as (A & B & C & D).
        apply (R5 j (c', s') Hj); cbn [Nat.add fst snd]; [exact Hne|exact (proj2 A)|rewrite C8, C; left; reflexivity].
    + match goal with |- context [if ?c then Some _ else None] => destruct c end; [|cbn [fst snd]; left; reflexivity].
      specialize (IH (S (length started)) started' w7 ltac:(subst started'; rewrite app_length; cbn [length]; lia) H7).
      destruct (hedge_loop fuel cfg pos total c (S (length started)) started' w7) as [[r8 w8] ts]. cbn [fst snd] in *.
      destruct IH as [O|[Cn|(more & idx & cw & sw & N1 & N2 & N3)]]; [left; exact O|right; left; exact Cn|].
      right. right. exists ((length (w_copies w), length (w_scopes w)) :: more), idx, cw, sw.
      subst started'. rewrite <- app_assoc in N1, N3. cbn [app] in N1, N3. repeat split; assumption.
Qed.

(* C09, in any stack: when the hedged run hands on an accepted result, every other attempt it started has been cancelled
   and the winning attempt has not.  The premises say that the world is well formed (the caller's scope exists, the
   execution copy and the scopes of its chain exist, attempts of earlier runs carry earlier run numbers); they hold in
   every world Model/Exec.v reaches from [fresh_world] (not proved here: see the Example in Properties/C09.v). *)
Theorem hedge_layer_one_left pos total cfg c w :
  (1 <= length (w_scopes w))%nat -> (c < length (w_copies w))%nat ->
  (forall s, In s (cp_chain (get_copy w c)) -> (s < length (w_scopes w))%nat) ->
  (forall b, In b (w_bg w) -> (bg_grp b <= hs_grp (w_hs w))%nat) ->
  one_left c [] (snd (hedge_layer pos total cfg c w)).
Proof.
  intros H1 H2 H3 H4. unfold hedge_layer.
  apply (hedge_loop_one_left cfg pos total c (length (w_scopes w)) (cp_chain (get_copy w c)) (S (hs_grp (w_hs w))) _ 0%nat [] _ eq_refl).
  constructor; cbn [w_scopes w_copies w_bg w_hs set_hedge hs_grp hs_acc length map].
  - lia.
  - exact H2.
  - reflexivity.
  - exact H3.
  - intros s Hs. unfold get_scope. cbn [w_scopes set_hedge]. rewrite nth_overflow by exact Hs. reflexivity.
  - intros c' s' [].
  - constructor.
  - reflexivity.
  - intros b Hb Hg. specialize (H4 b Hb). lia.
  - intros i o H. discriminate.
Qed.
