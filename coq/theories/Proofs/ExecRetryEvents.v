(* Proofs/ExecRetryEvents.v — C16: per retry policy, every OnRetry is preceded by its own OnRetryScheduled.
   In the complete log of any execution through any stack, for every stack position, the OnRetryScheduled / OnRetry
   events of that position pair up: a retry never starts without having been decided (a decided retry may be
   cancelled before it starts).  Third induction over the stack (after Proofs/ExecStats.v and Proofs/ExecTimes.v). *)
From FS Require Import Model.Exec Proofs.ExecProofs.
From Coq Require Import ZifyBool.

(* the pairing automaton of one position, run over a trace (newest event first): None = violated,
   Some true = a retry has been decided and not yet started *)
Definition stp (pos : nat) (e : event) (s : option bool) : option bool :=
  match s with
  | None => None
  | Some b =>
      if Nat.eqb (e_pos e) pos then
        match e_kind e with
        | KRetryScheduled => Some true
        | KRetry => if b then Some false else None
        | _ => Some b
        end
      else Some b
  end.

Fixpoint st (pos : nat) (tr : list event) : option bool :=
  match tr with
  | [] => Some false
  | e :: tr' => stp pos e (st pos tr')
  end.

Definition retry_kind (k : evk) : bool := match k with KRetryScheduled | KRetry => true | _ => false end.
(* the kinds a retry policy's own verdict is made of are handled separately from the rest *)
Definition plain_kind (k : evk) : bool :=
  match k with KRetryScheduled | KRetry | KPolFailure | KPolSuccess | KAbort | KRetriesExceeded => false | _ => true end.
Lemma plain_not_retry k : plain_kind k = true -> retry_kind k = false.
Proof. destruct k; cbn; intros H; try reflexivity; discriminate. Qed.

Lemma stp_neutral pos e s : retry_kind (e_kind e) = false \/ e_pos e <> pos -> stp pos e s = s.
Proof.
  intros H. unfold stp. destruct s as [b|]; [|reflexivity].
  destruct (Nat.eqb (e_pos e) pos) eqn:E; [|reflexivity]. apply Nat.eqb_eq in E.
  destruct H as [H|H]; [|contradiction]. destruct (e_kind e); cbn in H; try discriminate; reflexivity.
Qed.

(* ---- a generic pass over all layers: any preorder on worlds that contains the steps below is preserved by every layer ---- *)
Section Gen.
  Variable R : world -> world -> Prop.
  Variable N : evk -> nat -> Prop.          (* the events that are harmless for R *)
  Hypothesis same_refl : forall w, R w w.
  Hypothesis same_trans : forall a b c, R a b -> R b c -> R a c.
  Variable P : nat -> Prop.                 (* the positions whose retry ledger R does not read *)
  Hypothesis same_frame : forall w w', w_trace w' = w_trace w -> w_retry w' = w_retry w -> R w w'.
  Hypothesis same_put : forall w q r, P q -> R w (put_rstate w q r).
  Hypothesis same_emit : forall w k q o aux, N k q -> R w (emit w k q o aux).
  Hypothesis same_stamp : forall w c, R w (stamp w c).
  Hypothesis N_plain : forall k q, plain_kind k = true -> N k q.

Lemma same_semit w c k q o aux : N k q -> R w (stamp (emit w k q o aux) c).
Proof. intros H. eapply same_trans; [apply same_emit, H|apply same_stamp]. Qed.

Lemma same_ev w c k q r : N k q -> R w (ev_with_result w c k q r).
Proof. intros H. unfold ev_with_result. apply same_semit, H. Qed.

Lemma same_mark_done w s e : R w (mark_done w s e).
Proof. unfold mark_done. destruct (sc_done _); [apply same_refl|apply same_frame; reflexivity]. Qed.

Lemma same_fire_timeout w s : R w (fire_timeout w s).
Proof.
  unfold fire_timeout.
  set (w1 := set_scopes w _ _ _). assert (H1 : R w w1) by (apply same_frame; reflexivity).
  set (w2 := emit w1 KTimeoutExceeded _ _ _). assert (H2 : R w w2) by (eapply same_trans; [exact H1|apply same_emit; apply N_plain; reflexivity]).
  destruct (copy_err w2 _); [exact H2|].
  eapply same_trans; [exact H2|]. eapply same_trans; [|apply same_mark_done]. apply same_frame; reflexivity.
Qed.

Lemma same_fire_ext w e : R w (fire_ext w e).
Proof.
  unfold fire_ext.
  set (w0 := set_scopes w (w_scopes w) (w_seq w) None). assert (H0 : R w w0) by (apply same_frame; reflexivity).
  destruct e; try (eapply same_trans; [exact H0|apply same_mark_done]).
  destruct (copy_err w0 0%nat); [exact H0|].
  eapply same_trans; [exact H0|]. eapply same_trans; [|apply same_mark_done]. apply same_frame; reflexivity.
Qed.

Lemma same_finish_bg w b : R w (finish_bg w b).
Proof.
  unfold finish_bg.
  set (w1 := set_hedge w (w_hedges w) _ (w_hs w)). set (w2 := set_counters w1 _ _ _).
  assert (H2 : R w w2) by (apply same_frame; reflexivity).
  set (w3 := stamp (emit w2 KFnEnd (bg_pos b) (bg_out b) 0) (bg_copy b)).
  assert (H3 : R w w3) by (eapply same_trans; [exact H2|apply same_semit; apply N_plain; reflexivity]).
  match goal with |- context [if ?c then _ else _] => destruct c end; [|exact H3].
  eapply same_trans; [exact H3|apply same_frame; reflexivity].
Qed.

Lemma same_refresh_bg w : R w (refresh_bg w).
Proof. unfold refresh_bg. match goal with |- context [if ?c then _ else _] => destruct c end; apply same_frame; reflexivity. Qed.

Lemma same_settle w t : R w (settle w t).
Proof. destruct t; [apply same_frame|apply same_refl]; reflexivity. Qed.

Lemma same_advance fuel : forall w t intr acc, R w (snd (advance fuel w t intr acc)).
Proof.
  induction fuel as [|fuel IH]; intros w t intr acc; cbn [advance].
  - destruct (match intr with Some c => _ | None => false end); cbn [snd]; [apply same_refl|].
    destruct (acc && _); cbn [snd]; [apply same_refl|apply same_settle].
  - destruct (match intr with Some c => _ | None => false end); cbn [snd]; [apply same_refl|].
    destruct (acc && _); cbn [snd]; [apply same_refl|].
    match goal with |- context [if ?c then _ else _] => destruct c end.
    + destruct (bg_earliest (w_bg w)) as [b|]; [|apply same_settle].
      destruct (due (bg_finish b) t); [|apply same_settle].
      match goal with |- context [set_now (if ?c then set_oof w else w) ?tt] => set (w0 := if c then set_oof w else w); set (w1 := set_now w0 tt) end.
      assert (H0 : R w w0) by (subst w0; match goal with |- context [if ?c then _ else _] => destruct c end; [apply same_frame; reflexivity|apply same_refl]).
      assert (H1 : R w w1) by (eapply same_trans; [exact H0|apply same_frame; reflexivity]).
      eapply same_trans; [exact H1|]. eapply same_trans; [apply same_finish_bg|apply IH].
    + destruct (next_timer w) as [[tt src]|]; [|apply same_settle].
      destruct (due tt t); [|apply same_settle].
      match goal with |- context [set_now (if ?c then set_oof w else w) ?t1] => set (w0 := if c then set_oof w else w); set (w1 := set_now w0 t1) end.
      assert (H0 : R w w0) by (subst w0; match goal with |- context [if ?c then _ else _] => destruct c end; [apply same_frame; reflexivity|apply same_refl]).
      assert (H1 : R w w1) by (eapply same_trans; [exact H0|apply same_frame; reflexivity]).
      eapply same_trans; [|apply IH]. eapply same_trans; [|apply same_refresh_bg]. eapply same_trans; [exact H1|].
      destruct src as [s|]; [apply same_fire_timeout|]. destruct (w_ext w) as [[? e]|]; [apply same_fire_ext|apply same_refl].
Qed.

Lemma same_wait w d intr : R w (snd (wait w d intr)).
Proof. apply same_advance. Qed.

Lemma same_pause w d : R w (pause w d).
Proof. unfold pause. destruct (0 <? d); [apply same_wait|apply same_refl]. Qed.

(* ---- layers that never touch the automaton of [pos] ---- *)
Definition quiet (l : layer) : Prop := forall c w, R w (snd (l c w)).

Lemma fn_layer_quiet total : quiet (fn_layer total).
Proof.
  intros c w. unfold fn_layer.
  set (w0 := set_script w _). assert (H0 : R w w0) by (apply same_frame; reflexivity).
  set (w1 := stamp (emit w0 KFnStart total _ 0) c). assert (H1 : R w w1) by (eapply same_trans; [exact H0|apply same_semit; apply N_plain; reflexivity]).
  assert (Hfin : forall o w2, R w w2 -> R w (stamp (emit (set_counters w2 (w_attempts w2) (w_retries w2) (w_executions w2 + 1)) KFnEnd total o 0) c)).
  { intros o w2 H2. eapply same_trans; [exact H2|]. eapply same_trans; [|apply same_semit; apply N_plain; reflexivity]. apply same_frame; reflexivity. }
  destruct (fs_coop _) as [co|].
  - pose proof (same_wait w1 (fs_dur (next_step w)) (Some c)) as Sw. destruct (wait w1 _ (Some c)) as [ii w']. cbn [snd] in Sw.
    destruct ii.
    + pose proof (same_wait w' (fs_lag (next_step w)) None) as Sw2. destruct (wait w' _ None) as [jj w'']. cbn [snd] in *.
      apply Hfin. eapply same_trans; [exact H1|]. eapply same_trans; eassumption.
    + cbn [snd]. apply Hfin. eapply same_trans; eassumption.
  - pose proof (same_wait w1 (fs_dur (next_step w)) None) as Sw. destruct (wait w1 _ None) as [ii w']. cbn [snd] in *.
    apply Hfin. eapply same_trans; eassumption.
Qed.

Lemma same_emit_bevents q evs : forall w, R w (emit_bevents w q evs).
Proof.
  unfold emit_bevents. induction evs as [|e evs IH]; intros w; cbn [fold_left]; [apply same_refl|].
  eapply same_trans; [|apply IH]. apply same_emit. apply N_plain. reflexivity.
Qed.

Lemma breaker_layer_quiet q inst inner : N KPolFailure q -> N KPolSuccess q -> quiet inner -> quiet (breaker_layer q inst inner).
Proof.
  intros Hpf Hps Hi c w. unfold breaker_layer, set_breaker.
  destruct (nth inst (w_breakers w) _) as [cfg s]. destruct (try_acquire conc_impl cfg s (w_now w)) as [[ok s1] evs].
  match goal with |- context [emit_bevents ?x q evs] => assert (S1 : R w (emit_bevents x q evs)) by
    (eapply same_trans; [|apply same_emit_bevents]; apply same_frame; reflexivity); set (w1 := emit_bevents x q evs) in * end.
  destruct ok; cbn [negb]; [|exact S1].
  pose proof (Hi c w1) as S2. destruct (inner c w1) as [r w2]. cbn [snd] in S2.
  destruct (nth inst (w_breakers w2) _) as [cfg2 s2].
  assert (Hfin : forall w3 s3 evs', R w2 w3 ->
     R w (emit_bevents (set_insts w3 (upd inst (fun p => (fst p, s3)) (w_breakers w3)) (w_limiters w3) (w_bulkheads w3) (w_caches w3)) q evs')).
  { intros w3 s3 evs' S3. eapply same_trans; [exact S1|]. eapply same_trans; [exact S2|]. eapply same_trans; [exact S3|].
    eapply same_trans; [|apply same_emit_bevents]. apply same_frame; reflexivity. }
  destruct (is_failure (b_fpol cfg) (pr_out r)).
  - destruct (record conc_impl cfg s2 _ false _) as [s3 evs']. cbn [snd]. apply Hfin. apply same_ev. exact Hpf.
  - destruct (record conc_impl cfg s2 _ true _) as [s3 evs']. cbn [snd]. apply Hfin. apply same_ev. exact Hps.
Qed.

Lemma limiter_layer_quiet q inst mw inner : quiet inner -> quiet (limiter_layer q inst mw inner).
Proof.
  intros Hi c w. unfold limiter_layer, limiter_layer_gen.
  destruct (nth inst (w_limiters w) _) as [[cfg base] s]. destruct (lim_acquire cfg s (w_now w - base) 1 mw) as [wt s'].
  set (w1 := set_insts w _ _ _ _). assert (S1 : R w w1) by (apply same_frame; reflexivity).
  destruct (wt =? -1); [cbn [snd]; eapply same_trans; [exact S1|apply same_semit; apply N_plain; reflexivity]|].
  pose proof (same_wait w1 wt (Some c)) as Sw. destruct (wait w1 wt (Some c)) as [i w2]. cbn [snd] in Sw.
  destruct i; cbn [snd]; [eapply same_trans; [exact S1|exact Sw]|].
  eapply same_trans; [exact S1|]. eapply same_trans; [exact Sw|apply Hi].
Qed.

Lemma bulkhead_layer_quiet q inst mw inner : quiet inner -> quiet (bulkhead_layer q inst mw inner).
Proof.
  intros Hi c w. unfold bulkhead_layer.
  destruct (nth inst (w_bulkheads w) (0, 0)) as [cap held].
  destruct (copy_err w c); [apply same_refl|].
  destruct (held <? cap).
  - match goal with |- context [inner c ?w1] => assert (S1 : R w w1) by (apply same_frame; reflexivity);
      pose proof (Hi c w1) as S2; destruct (inner c w1) as [r w2] end.
    cbn [snd] in S2. destruct (nth inst (w_bulkheads w2) (0, 0)) as [cap2 held2]. cbn [snd].
    eapply same_trans; [exact S1|]. eapply same_trans; [exact S2|apply same_frame; reflexivity].
  - destruct (mw =? 0); [cbn [snd]; apply same_semit; apply N_plain; reflexivity|].
    pose proof (same_wait w mw (Some c)) as Sw. destruct (wait w mw (Some c)) as [i w1]. cbn [snd] in Sw.
    destruct i; [exact Sw|cbn [snd]]. eapply same_trans; [exact Sw|apply same_semit; apply N_plain; reflexivity].
Qed.

Lemma timeout_layer_quiet q limit inner : quiet inner -> quiet (timeout_layer q limit inner).
Proof.
  intros Hi c w. unfold timeout_layer.
  match goal with |- context [inner ?c' ?w2] => assert (S1 : R w w2) by (apply same_frame; reflexivity);
    pose proof (Hi c' w2) as S2; destruct (inner c' w2) as [r w3] end.
  cbn [snd] in *. eapply same_trans; [exact S1|]. eapply same_trans; [exact S2|apply same_frame; reflexivity].
Qed.

Lemma fallback_layer_quiet q cfg inner : N KPolFailure q -> N KPolSuccess q -> quiet inner -> quiet (fallback_layer q cfg inner).
Proof.
  intros Hpf Hps Hi c w. unfold fallback_layer. pose proof (Hi c w) as S1. destruct (inner c w) as [r w1]. cbn [snd] in S1.
  destruct (is_failure (fb_fpol cfg) (pr_out r)).
  - set (w2 := pause (ev_with_result w1 c KPolFailure q _) _).
    assert (S2 : R w w2) by (eapply same_trans; [exact S1|]; eapply same_trans; [apply same_ev; exact Hpf|apply same_pause]).
    cbn [pr_succ with_failure]. destruct (is_canceled w2 c); [exact S2|].
    set (w3 := pause w2 _). assert (S3 : R w w3) by (eapply same_trans; [exact S2|apply same_pause]).
    destruct (is_canceled w3 c); [exact S3|].
    cbn [snd]. eapply same_trans; [exact S3|apply same_emit; apply N_plain; reflexivity].
  - cbn [pr_succ with_done]. cbn [snd]. eapply same_trans; [exact S1|apply same_ev; exact Hps].
Qed.

Lemma cache_layer_quiet q inst cfg inner : quiet inner -> quiet (cache_layer q inst cfg inner).
Proof.
  intros Hi c w. unfold cache_layer.
  destruct (if cache_key w cfg =? 0 then None else _) as [v|].
  - cbn [snd]. apply same_emit. apply N_plain. reflexivity.
  - set (w1 := stamp (emit w KCacheMiss q _ 0) c). assert (S1 : R w w1) by (apply same_semit; apply N_plain; reflexivity).
    pose proof (Hi c w1) as S2. destruct (inner c w1) as [r w2]. cbn [snd] in S2.
    destruct (_ && _); cbn [snd]; [|eapply same_trans; [exact S1|exact S2]].
    eapply same_trans; [exact S1|]. eapply same_trans; [exact S2|].
    eapply same_trans; [|apply same_ev; apply N_plain; reflexivity]. apply same_frame; reflexivity.
Qed.

Lemma same_cancel_others started : forall w i winner, R w (cancel_others w started i winner).
Proof.
  induction started as [|cs rest IH]; intros w i winner; cbn [cancel_others]; [apply same_refl|].
  eapply same_trans; [|apply IH]. destruct (Nat.eqb i winner); [apply same_refl|].
  unfold cancel_copy. destruct (copy_err w (fst cs)); [apply same_refl|].
  eapply same_trans; [|apply same_mark_done]. apply same_frame; reflexivity.
Qed.

Lemma same_hedge_start q total c k w : R w (hedge_start q total c k w).
Proof.
  unfold hedge_start.
  set (w1 := set_scopes w _ _ _). set (w2 := set_copies w1 _).
  assert (H2 : R w w2) by (apply same_frame; reflexivity).
  match goal with |- context [set_script ?w3 _] => set (w3' := w3) end.
  assert (H3 : R w w3').
  { subst w3'. destruct k as [|k']; [exact H2|]. eapply same_trans; [exact H2|].
    eapply same_trans; [|apply same_semit; apply N_plain; reflexivity]. apply same_frame; reflexivity. }
  set (w4 := set_script w3' _). assert (H4 : R w w4) by (eapply same_trans; [exact H3|apply same_frame; reflexivity]).
  set (w5 := stamp (emit w4 KFnStart total _ _) _). assert (H5 : R w w5) by (eapply same_trans; [exact H4|apply same_semit; apply N_plain; reflexivity]).
  eapply same_trans; [exact H5|]. eapply same_trans; [|apply same_refresh_bg]. apply same_frame; reflexivity.
Qed.

Lemma hedge_loop_quiet cfg q total : forall fuel c k started w, R w (snd (fst (hedge_loop fuel cfg q total c k started w))).
Proof.
  induction fuel as [|fuel IH]; intros c k started w; cbn [hedge_loop].
  - cbn [fst snd]. apply same_frame; reflexivity.
  - pose proof (same_hedge_start q total c k w) as S6. set (w6 := hedge_start q total c k w) in *.
    match goal with |- context [advance ?f w6 ?t ?i ?a] => pose proof (same_advance f w6 t i a) as S7; destruct (advance f w6 t i a) as [ii w7] end.
    cbn [snd] in S7. assert (S07 : R w w7) by (eapply same_trans; eassumption).
    destruct (is_canceled w7 c); [exact S07|].
    destruct (hs_acc (w_hs w7)) as [[idx out]|].
    + cbn [fst snd]. eapply same_trans; [exact S07|]. eapply same_trans; [|apply same_refresh_bg].
      eapply same_trans; [|apply same_cancel_others]. unfold clear_acc. apply same_frame; reflexivity.
    + match goal with |- context [if ?c then Some _ else None] => destruct c end; [|cbn [fst snd]; eapply same_trans; [exact S07|apply same_frame; reflexivity]].
      specialize (IH c (S k) (started ++ [(length (w_copies w), length (w_scopes w))]) w7).
      destruct (hedge_loop fuel cfg q total c (S k) _ w7) as [[r8 w8] ts]. cbn [fst snd] in *. eapply same_trans; eassumption.
Qed.

Lemma hedge_layer_quiet q total cfg : quiet (hedge_layer q total cfg).
Proof.
  intros c w. unfold hedge_layer.
  match goal with |- context [hedge_loop ?f cfg q total c 0 [] ?w0] =>
    pose proof (hedge_loop_quiet cfg q total f c 0%nat [] w0) as S; assert (S0 : R w w0) by (apply same_frame; reflexivity) end.
  eapply same_trans; eassumption.
Qed.

Lemma same_retry_on_failure q cfg c r w : P q -> N KPolFailure q -> N KAbort q -> N KRetriesExceeded q -> R w (snd (retry_on_failure cfg q c r w)).
Proof.
  intros Hp Hpf Hab Hex. unfold retry_on_failure.
  set (w0 := pause (ev_with_result w c KPolFailure q r) (r_lsn_dur cfg)).
  assert (S0 : R w w0) by (eapply same_trans; [apply same_ev; exact Hpf|apply same_pause]).
  match goal with |- context [put_rstate w0 q ?rs] => set (w1 := put_rstate w0 q rs) end.
  assert (S1 : R w w1) by (eapply same_trans; [exact S0|apply same_put; exact Hp]).
  set (ab := is_abortable (r_abort cfg) (pr_out r)).
  set (w2 := if ab then ev_with_result w1 c KAbort q r else w1).
  assert (S2 : R w w2) by (subst w2; destruct ab; [eapply same_trans; [exact S1|apply same_ev; exact Hab]|exact S1]).
  destruct (_ || _); [|exact S2].
  set (w3 := if negb ab then ev_with_result w2 c KRetriesExceeded q r else w2).
  assert (S3 : R w w3) by (subst w3; destruct (negb ab); [eapply same_trans; [exact S2|apply same_ev; exact Hex]|exact S2]).
  destruct (negb (r_return_last cfg)); exact S3.
Qed.

(* a retry policy at another position *)
Lemma retry_loop_quiet q cfg inner : P q -> N KRetryScheduled q -> N KRetry q -> N KPolFailure q -> N KPolSuccess q -> N KAbort q -> N KRetriesExceeded q -> quiet inner ->
  forall fuel c w, R w (snd (fst (retry_loop fuel cfg q inner c w))).
Proof.
  intros Hp Hq1 Hq2 Hpf Hps Hab Hex Hi. induction fuel as [|fuel IH]; intros c w; cbn [retry_loop].
  - cbn [fst snd]. apply same_frame; reflexivity.
  - pose proof (Hi c w) as S1. destruct (inner c w) as [r w1]. cbn [snd] in S1.
    destruct (is_canceled w1 c); [exact S1|]. destruct (rs_exceeded (get_rstate w1 q)); [exact S1|].
    assert (S2 : R w1 (snd (if is_failure (r_fpol cfg) (pr_out r) then retry_on_failure cfg q c (with_failure r) w1
                                   else (with_done r true true, ev_with_result w1 c KPolSuccess q (with_done r true true)))))
      by (destruct (is_failure _ _); [apply same_retry_on_failure; assumption|cbn [snd]; apply same_ev; exact Hps]).
    destruct (if is_failure (r_fpol cfg) (pr_out r) then _ else _) as [r2 w2]. cbn [snd] in S2.
    assert (S12 : R w w2) by (eapply same_trans; eassumption).
    destruct (pr_done r2); [exact S12|]. destruct (is_canceled w2 c); [exact S12|].
    set (w3 := set_copy_last w2 c (pr_out r2)).
    set (w4 := stamp (emit w3 KRetryScheduled q _ _) c).
    assert (S4 : R w w4) by (eapply same_trans; [exact S12|]; eapply same_trans; [apply (same_frame w2 w3); reflexivity|apply same_semit; exact Hq1]).
    pose proof (same_wait w4 (retry_delay cfg w3) (Some c)) as S5. destruct (wait w4 _ (Some c)) as [ii w5]. cbn [snd] in S5.
    assert (S05 : R w w5) by (eapply same_trans; eassumption).
    destruct (is_canceled w5 c); [exact S05|].
    match goal with |- context [retry_loop fuel cfg q inner c ?w9] => set (w9' := w9) end.
    assert (S9 : R w w9').
    { subst w9'. eapply same_trans; [exact S05|]. eapply same_trans; [|apply same_ev; exact Hq2]. apply same_frame; reflexivity. }
    pose proof (IH c w9') as IH9. destruct (retry_loop fuel cfg q inner c w9') as [[rr ww] n]. cbn [fst snd] in *. eapply same_trans; eassumption.
Qed.

End Gen.

(* ---- instance 1: the automaton of one position is left where it is ---- *)
Definition same (pos : nat) (w w' : world) : Prop := st pos (w_trace w') = st pos (w_trace w).
Definition Nn (pos : nat) (k : evk) (q : nat) : Prop := retry_kind k = false \/ q <> pos.

Lemma s_refl pos w : same pos w w. Proof. reflexivity. Qed.
Lemma s_trans pos a b c : same pos a b -> same pos b c -> same pos a c. Proof. unfold same. congruence. Qed.
Lemma s_frame pos w w' : w_trace w' = w_trace w -> same pos w w'. Proof. unfold same. intros ->. reflexivity. Qed.
Lemma s_emit pos w k q o aux : Nn pos k q -> same pos w (emit w k q o aux).
Proof. intros H. unfold same, emit. cbn [w_trace set_trace st]. apply stp_neutral. cbn [e_kind e_pos]. exact H. Qed.
Lemma s_stamp pos w c : same pos w (stamp w c).
Proof. unfold same, stamp. destruct (w_trace w) as [|e t] eqn:E; [rewrite E; reflexivity|]. cbn [w_trace set_trace st]. reflexivity. Qed.
Lemma s_plain pos k q : plain_kind k = true -> Nn pos k q. Proof. intros H. left. apply plain_not_retry, H. Qed.
Lemma s_kind pos k q : retry_kind k = false -> Nn pos k q. Proof. left. assumption. Qed.
Lemma s_frame2 pos w w' : w_trace w' = w_trace w -> w_retry w' = w_retry w -> same pos w w'. Proof. intros H _. apply s_frame, H. Qed.
Lemma s_put pos w q r : True -> same pos w (put_rstate w q r). Proof. intros _. apply s_frame. reflexivity. Qed.
#[local] Hint Resolve s_refl s_trans s_frame2 s_put s_emit s_stamp s_plain : samedb.
#[local] Hint Extern 1 (Nn _ _ _) => (apply s_kind; reflexivity) : samedb.

Ltac inst_same pos lem := first [eapply lem with (N := Nn pos) (P := fun _ => True) | eapply lem with (N := Nn pos) | eapply lem]; eauto with samedb.

(* everything below position [start] leaves the automaton of every position above it alone *)
Theorem compose_quiet fuel stack : forall pos start total, (pos < start)%nat -> quiet (same pos) (compose fuel start stack total).
Proof.
  induction stack as [|p rest IH]; intros pos start total Hlt; cbn [compose].
  - inst_same pos fn_layer_quiet.
  - specialize (IH pos (S start) total ltac:(lia)). destruct p as [rc|bi|li lmw|ki kmw|lim|fc|ci cc|hc]; cbn [apply_policy].
    + intros c w. eapply retry_loop_quiet with (N := Nn pos) (P := fun _ => True); eauto with samedb; try exact I; right; lia.
    + inst_same pos breaker_layer_quiet.
    + inst_same pos limiter_layer_quiet.
    + inst_same pos bulkhead_layer_quiet.
    + inst_same pos timeout_layer_quiet.
    + inst_same pos fallback_layer_quiet.
    + inst_same pos cache_layer_quiet.
    + inst_same pos hedge_layer_quiet.
Qed.

(* ---- instance 2: no automaton is ever violated ---- *)
Definition J (w : world) : Prop := forall pos, st pos (w_trace w) <> None.
Definition Jrel (w w' : world) : Prop := J w -> J w'.
Definition Nj (k : evk) (q : nat) : Prop := retry_kind k = false.

Lemma j_refl w : Jrel w w. Proof. intros H. exact H. Qed.
Lemma j_trans a b c : Jrel a b -> Jrel b c -> Jrel a c. Proof. unfold Jrel. auto. Qed.
Lemma j_frame w w' : w_trace w' = w_trace w -> Jrel w w'. Proof. unfold Jrel, J. intros ->. auto. Qed.
Lemma j_emit w k q o aux : Nj k q -> Jrel w (emit w k q o aux).
Proof. intros H HJ pos. rewrite (s_emit pos w k q o aux (or_introl H)). apply HJ. Qed.
Lemma j_stamp w c : Jrel w (stamp w c).
Proof. intros HJ pos. rewrite (s_stamp pos w c). apply HJ. Qed.
Lemma j_plain k q : plain_kind k = true -> Nj k q. Proof. apply plain_not_retry. Qed.
Lemma j_frame2 w w' : w_trace w' = w_trace w -> w_retry w' = w_retry w -> Jrel w w'. Proof. intros H _. apply j_frame, H. Qed.
Lemma j_put w q r : True -> Jrel w (put_rstate w q r). Proof. intros _. apply j_frame. reflexivity. Qed.
#[local] Hint Resolve j_refl j_trans j_frame2 j_put j_emit j_stamp j_plain : jdb.
#[local] Hint Extern 1 (Nj _ _) => reflexivity : jdb.

Ltac inst_j lem := first [eapply lem with (N := Nj) (P := fun _ => True) | eapply lem with (N := Nj) | eapply lem]; eauto with jdb.

(* the retry policy at position q: its own automaton goes decided -> started, everything inside leaves it alone *)
Lemma retry_loop_J q cfg inner : quiet Jrel inner -> quiet (same q) inner ->
  forall fuel c w, J w -> J (snd (fst (retry_loop fuel cfg q inner c w))).
Proof.
  intros Hj Hq. induction fuel as [|fuel IH]; intros c w HJ; cbn [retry_loop].
  - cbn [fst snd]. apply (j_frame w); [reflexivity|exact HJ].
  - pose proof (Hj c w HJ) as J1. destruct (inner c w) as [r w1]. cbn [snd] in J1.
    destruct (is_canceled w1 c); [exact J1|]. destruct (rs_exceeded (get_rstate w1 q)); [exact J1|].
    assert (J2 : J (snd (if is_failure (r_fpol cfg) (pr_out r) then retry_on_failure cfg q c (with_failure r) w1
                         else (with_done r true true, ev_with_result w1 c KPolSuccess q (with_done r true true))))).
    { destruct (is_failure _ _).
      - assert (X : Jrel w1 (snd (retry_on_failure cfg q c (with_failure r) w1))) by (eapply same_retry_on_failure with (N := Nj) (P := fun _ => True); eauto with jdb; exact I).
        exact (X J1).
      - cbn [snd]. assert (X : Jrel w1 (ev_with_result w1 c KPolSuccess q (with_done r true true))) by (eapply same_ev with (N := Nj); eauto with jdb; reflexivity).
        exact (X J1). }
    destruct (if is_failure (r_fpol cfg) (pr_out r) then _ else _) as [r2 w2]. cbn [snd] in J2.
    destruct (pr_done r2); [exact J2|]. destruct (is_canceled w2 c); [exact J2|].
    set (w3 := set_copy_last w2 c (pr_out r2)). assert (J3 : J w3) by (apply (j_frame w2); [reflexivity|exact J2]).
    (* the retry is decided *)
    set (w4 := stamp (emit w3 KRetryScheduled q _ _) c).
    assert (J4 : J w4 /\ st q (w_trace w4) = Some true).
    { subst w4. split.
      - intros pos. rewrite (s_stamp pos). unfold emit. cbn [w_trace set_trace st]. unfold stp. specialize (J3 pos).
        destruct (st pos (w_trace w3)) as [b|]; [|contradiction]. cbn [e_pos e_kind]. destruct (Nat.eqb q pos); discriminate.
      - rewrite (s_stamp q). unfold emit. cbn [w_trace set_trace st]. unfold stp. specialize (J3 q).
        destruct (st q (w_trace w3)) as [b|]; [|contradiction]. cbn [e_pos e_kind]. rewrite Nat.eqb_refl. reflexivity. }
    destruct J4 as [J4 P4].
    assert (J5 : Jrel w4 (snd (wait w4 (retry_delay cfg w3) (Some c)))) by (eapply same_wait with (N := Nj); eauto with jdb).
    specialize (J5 J4).
    assert (P5 : same q w4 (snd (wait w4 (retry_delay cfg w3) (Some c)))) by (eapply same_wait with (N := Nn q); eauto with samedb).
    destruct (wait w4 _ (Some c)) as [ii w5]. cbn [snd] in J5, P5. unfold same in P5. rewrite P4 in P5.
    destruct (is_canceled w5 c); [exact J5|].
    (* the retry starts: its automaton was in the decided state *)
    match goal with |- context [retry_loop fuel cfg q inner c ?w9] => set (w9' := w9) end.
    assert (J9 : J w9').
    { subst w9'. unfold ev_with_result. intros pos. rewrite (s_stamp pos). unfold emit. cbn [w_trace set_trace set_cell set_copies set_counters st].
      unfold stp. cbn [e_pos e_kind]. destruct (Nat.eqb q pos) eqn:E.
      - apply Nat.eqb_eq in E. subst pos. rewrite P5. discriminate.
      - specialize (J5 pos). destruct (st pos (w_trace w5)); [discriminate|contradiction]. }
    specialize (IH c w9' J9). destruct (retry_loop fuel cfg q inner c w9') as [[rr ww] n]. exact IH.
Qed.

Theorem compose_J fuel stack : forall start total, quiet Jrel (compose fuel start stack total).
Proof.
  induction stack as [|p rest IH]; intros start total; cbn [compose].
  - inst_j fn_layer_quiet.
  - specialize (IH (S start) total). destruct p as [rc|bi|li lmw|ki kmw|lim|fc|ci cc|hc]; cbn [apply_policy].
    + intros c w HJ. apply (retry_loop_J start rc _ IH (compose_quiet fuel rest start (S start) total ltac:(lia)) fuel c w HJ).
    + inst_j breaker_layer_quiet.
    + inst_j limiter_layer_quiet.
    + inst_j bulkhead_layer_quiet.
    + inst_j timeout_layer_quiet.
    + inst_j fallback_layer_quiet.
    + inst_j cache_layer_quiet.
    + inst_j hedge_layer_quiet.
Qed.

(* C16: in the complete log of any execution through any stack, at every stack position, every OnRetry event is preceded
   by its own OnRetryScheduled event (decided retries that are cancelled before they start leave an unpaired
   OnRetryScheduled, never an unpaired OnRetry) *)
Lemma J_drain w : J w -> J (drain w).
Proof.
  intros HJ. unfold drain. destruct (w_bg w); [exact HJ|].
  match goal with |- J (snd (advance ?f ?w0 ?t ?i ?a)) => assert (HA : Jrel w0 (snd (advance f w0 t i a))) by (eapply same_advance with (N := Nj); eauto with jdb) end.
  apply HA. apply (j_frame w); [reflexivity|exact HJ].
Qed.

Theorem retry_events_pair_up fuel stack now ext key b l k c script :
  forall pos, st pos (w_trace (drain (snd (execute fuel stack (fresh_world now ext key b l k c script))))) <> None.
Proof.
  assert (J0 : J (fresh_world now ext key b l k c script)).
  { assert (J00 : J (fresh_world0 now ext key b l k c script)) by (intros pos; cbn; discriminate).
    unfold fresh_world. destruct ext as [[t e]|]; [|exact J00]. destruct (t <=? now); [|exact J00].
    apply (same_fire_ext Jrel j_refl j_trans j_frame2); exact J00. }
  change (J (drain (snd (execute fuel stack (fresh_world now ext key b l k c script))))). apply J_drain.
  unfold execute.
  pose proof (compose_J fuel stack 0 (length stack) 0%nat _ J0) as J1.
  destruct (compose fuel 0 stack (length stack) 0%nat _) as [r w1]. cbn [snd] in *.
  apply (j_emit _ KExecDone); [reflexivity|]. destruct (pr_all r); apply (j_emit w1); try reflexivity; exact J1.
Qed.
