(* Proofs/BreakerProofs.v — C03 / C04 *)
From FS Require Import Spec.BreakerSpec.
