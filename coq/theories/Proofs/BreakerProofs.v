(* Proofs/BreakerProofs.v — C03 / C04 *)
From FS Require Import Spec.BreakerSpec.
From Coq Require Import ZifyBool.

Lemma transition_open_half {S} (I : stats_impl S) c a st d now :
  transition I c (Open a st d) now 2 0 =
  (HalfOpen (si_new_half I c) (halfopen_capacity c),
   [ {| ev_tag := 2; ev_old := 1; ev_new := 2; ev_metrics := metrics I a |};
     {| ev_tag := 3; ev_old := 1; ev_new := 2; ev_metrics := metrics I a |} ]).
Proof. reflexivity. Qed.

(* ------------------------------------------------------------------ *)
(* A. Two implementations of the stats interface that agree on what the
      machine reads drive the machine identically.                      *)
Section Sim.
  Context {S1 S2 : Type} (I1 : stats_impl S1) (I2 : stats_impl S2) (R : Z -> S1 -> S2 -> Prop) (c : bcfg).
  Hypothesis Hobs : forall t a b, R t a b ->
    si_exec I1 a = si_exec I2 b /\ si_fail I1 a = si_fail I2 b /\ si_succ I1 a = si_succ I2 b.
  Hypothesis Hrec : forall t a b now v, R t a b -> t <= now -> R now (si_record I1 a now v) (si_record I2 b now v).
  Hypothesis Hweak : forall t t' a b, R t a b -> t <= t' -> R t' a b.
  Hypothesis Hnewc : forall t, 0 <= t -> R t (si_new_closed I1 c) (si_new_closed I2 c).
  Hypothesis Hnewh : forall t, 0 <= t -> R t (si_new_half I1 c) (si_new_half I2 c).

  (* instants are non-negative (they are absolute Unix times; histories start at 0 or later) *)
  Inductive SR (t : Z) : bstate (S := S1) -> bstate (S := S2) -> Prop :=
    | SR_closed a b : 0 <= t -> R t a b -> SR t (Closed a) (Closed b)
    | SR_open a b st d : 0 <= t -> R t a b -> SR t (Open a st d) (Open b st d)
    | SR_half a b p : 0 <= t -> R t a b -> SR t (HalfOpen a p) (HalfOpen b p).

  Lemma SR_nonneg t s1 s2 : SR t s1 s2 -> 0 <= t.
  Proof. intros H; destruct H; assumption. Qed.

  Lemma SR_weak t t' s1 s2 : SR t s1 s2 -> t <= t' -> SR t' s1 s2.
  Proof. intros H Ht. destruct H; constructor; try lia; eapply Hweak; eauto. Qed.

  Lemma SR_code t s1 s2 : SR t s1 s2 -> state_code s1 = state_code s2.
  Proof. intros H; destruct H; reflexivity. Qed.

  Lemma SR_stats t s1 s2 : SR t s1 s2 -> R t (state_stats s1) (state_stats s2).
  Proof. intros H; destruct H; assumption. Qed.

  Lemma SR_remaining t s1 s2 now : SR t s1 s2 -> remaining_delay s1 now = remaining_delay s2 now.
  Proof. intros H; destruct H; reflexivity. Qed.

  Lemma R_rates t a b : R t a b -> frate I1 a = frate I2 b /\ srate I1 a = srate I2 b.
  Proof. intros H. destruct (Hobs _ _ _ H) as (E1 & E2 & E3). unfold frate, srate. rewrite E1, E2, E3. auto. Qed.

  Lemma R_metrics t a b : R t a b -> metrics I1 a = metrics I2 b.
  Proof.
    intros H. destruct (Hobs _ _ _ H) as (E1 & E2 & E3). destruct (R_rates _ _ _ H) as (E4 & E5).
    unfold metrics. rewrite E1, E2, E3, E4, E5. reflexivity.
  Qed.

  Lemma transition_sim t s1 s2 now tgt d : SR t s1 s2 ->
    snd (transition I1 c s1 now tgt d) = snd (transition I2 c s2 now tgt d)
    /\ SR t (fst (transition I1 c s1 now tgt d)) (fst (transition I2 c s2 now tgt d)).
  Proof.
    intros H. unfold transition. rewrite <- (SR_code _ _ _ H).
    destruct (state_code s1 =? tgt); cbn [fst snd]; [auto|].
    rewrite (R_metrics _ _ _ (SR_stats _ _ _ H)). split; [reflexivity|].
    pose proof (SR_nonneg _ _ _ H) as Hp.
    destruct (tgt =? 0); [constructor; [exact Hp|apply Hnewc; exact Hp]|].
    destruct (tgt =? 1); [constructor; [exact Hp|apply (SR_stats _ _ _ H)]|].
    constructor; [exact Hp|apply Hnewh; exact Hp].
  Qed.

  Lemma try_acquire_sim t s1 s2 now : SR t s1 s2 ->
    let r1 := try_acquire I1 c s1 now in let r2 := try_acquire I2 c s2 now in
    fst (fst r1) = fst (fst r2) /\ snd r1 = snd r2 /\ SR t (snd (fst r1)) (snd (fst r2)).
  Proof.
    intros H. destruct H as [a b Hp H|a b st d Hp H|a b p Hp H]; cbn [try_acquire].
    - cbn. repeat split. constructor; assumption.
    - destruct (d <=? now - st); cbn [fst snd].
      + rewrite !transition_open_half. rewrite (R_metrics _ _ _ H).
        destruct (0 <? halfopen_capacity c); cbn [fst snd]; repeat split; constructor; try exact Hp; apply Hnewh; exact Hp.
      + repeat split. constructor; assumption.
    - destruct (0 <? p); cbn [fst snd]; repeat split; constructor; assumption.
  Qed.

  Lemma check_threshold_sim t s1 s2 now er : SR t s1 s2 ->
    snd (check_threshold I1 c s1 now er) = snd (check_threshold I2 c s2 now er)
    /\ SR t (fst (check_threshold I1 c s1 now er)) (fst (check_threshold I2 c s2 now er)).
  Proof.
    intros H. pose proof H as H0.
    destruct H as [a b Hp H|a b st d Hp H|a b p Hp H]; cbn [check_threshold];
      destruct (Hobs _ _ _ H) as (E1 & E2 & E3); destruct (R_rates _ _ _ H) as (E4 & E5).
    - rewrite E1, E2, E4. destruct (b_fexec c <=? si_exec I2 b); [|cbn; auto].
      destruct (_ || _); [apply transition_sim; assumption|cbn; auto].
    - cbn. auto.
    - rewrite E1, E2, E3, E4, E5.
      destruct (if negb (b_sthr c =? 0) then _ else _) as [se fe].
      destruct se; [apply transition_sim; assumption|].
      destruct fe; [apply transition_sim; assumption|].
      cbn [fst snd]. split; [reflexivity|]. constructor; assumption.
  Qed.

  Lemma record_sim t s1 s2 now v er : SR t s1 s2 -> t <= now ->
    snd (record I1 c s1 now v er) = snd (record I2 c s2 now v er)
    /\ SR now (fst (record I1 c s1 now v er)) (fst (record I2 c s2 now v er)).
  Proof.
    intros H Ht. unfold record. apply check_threshold_sim.
    destruct H as [a b Hp H|a b st d Hp H|a b p Hp H]; cbn [state_stats with_stats]; constructor; try lia; eapply Hrec; eauto.
  Qed.

  Lemma bstep_core_sim t s1 s2 now op : SR t s1 s2 -> t <= now ->
    let r1 := bstep_core I1 c s1 now op in let r2 := bstep_core I2 c s2 now op in
    fst (fst r1) = fst (fst r2) /\ snd r1 = snd r2 /\ SR now (snd (fst r1)) (snd (fst r2)).
  Proof.
    intros H Ht. pose proof (SR_weak _ _ _ _ H Ht) as Hn.
    destruct op; cbn [bstep_core];
      try (match goal with |- context [record I1 c s1 now ?v ?er] =>
             pose proof (record_sim t s1 s2 now v er H Ht) as [Ea Eb];
             destruct (record I1 c s1 now v er) as [x1 y1]; destruct (record I2 c s2 now v er) as [x2 y2];
             cbn [fst snd] in *; subst; repeat split; assumption end).
    - pose proof (try_acquire_sim now s1 s2 now Hn) as (Ea & Eb & Ec). cbv zeta in *.
      destruct (try_acquire I1 c s1 now) as [[b1 x1] y1]; destruct (try_acquire I2 c s2 now) as [[b2 x2] y2].
      cbn [fst snd] in *. subst. repeat split; assumption.
    - pose proof (transition_sim now s1 s2 now 1 (b_delay c) Hn) as [Ea Eb].
      destruct (transition I1 c s1 now 1 (b_delay c)); destruct (transition I2 c s2 now 1 (b_delay c)).
      cbn [fst snd] in *. subst. repeat split; assumption.
    - pose proof (transition_sim now s1 s2 now 2 0 Hn) as [Ea Eb].
      destruct (transition I1 c s1 now 2 0); destruct (transition I2 c s2 now 2 0).
      cbn [fst snd] in *. subst. repeat split; assumption.
    - pose proof (transition_sim now s1 s2 now 0 0 Hn) as [Ea Eb].
      destruct (transition I1 c s1 now 0 0); destruct (transition I2 c s2 now 0 0).
      cbn [fst snd] in *. subst. repeat split; assumption.
    - pose proof (try_acquire_sim now s1 s2 now Hn) as (Ea & Eb & Ec). cbv zeta in *.
      destruct (try_acquire I1 c s1 now) as [[b1 x1] y1]; destruct (try_acquire I2 c s2 now) as [[b2 x2] y2].
      cbn [fst snd] in *. subst. destruct b2; [|cbn [fst snd]; repeat split; assumption].
      set (ok := negb (is_failure (b_fpol c) o)).
      pose proof (record_sim now x1 x2 now ok (if ok then None else Some (fst o)) Ec ltac:(lia)) as [Fa Fb].
      destruct (record I1 c x1 now ok _) as [u1 v1]; destruct (record I2 c x2 now ok _) as [u2 v2].
      cbn [fst snd] in *. subst. repeat split; assumption.
    - cbn [fst snd]. repeat split. assumption.
  Qed.

  Lemma brun_sim h : forall t s1 s2, SR t s1 s2 -> bhist_ok t h = true ->
    brun I1 c s1 h = brun I2 c s2 h.
  Proof.
    induction h as [|[now op] h IH]; intros t s1 s2 H Hh; [reflexivity|].
    cbn [bhist_ok] in Hh. cbn [brun]. unfold bstep.
    pose proof (bstep_core_sim t s1 s2 now op H ltac:(lia)) as (Ea & Eb & Ec). cbv zeta in *.
    destruct (bstep_core I1 c s1 now op) as [[v1 x1] e1]; destruct (bstep_core I2 c s2 now op) as [[v2 x2] e2].
    cbn [fst snd] in *. subst.
    rewrite (SR_code _ _ _ Ec), (SR_remaining _ _ _ now Ec), (R_metrics _ _ _ (SR_stats _ _ _ Ec)).
    f_equal. apply (IH now); [assumption|lia].
  Qed.
End Sim.

(* ------------------------------------------------------------------ *)
(* B. countingStats (bit ring) = the last [capacity] results            *)

Lemma nth_set_nth_eq {A} (l : list A) n v d : (n < length l)%nat -> nth n (set_nth n v l) d = v.
Proof. revert n; induction l as [|x l IH]; intros [|n] H; cbn in *; try lia; auto. apply IH; lia. Qed.

Lemma nth_set_nth_neq {A} (l : list A) n m v d : n <> m -> nth m (set_nth n v l) d = nth m l d.
Proof. revert n m; induction l as [|x l IH]; intros [|n] [|m] H; cbn; try reflexivity; try lia. apply IH; lia. Qed.

Lemma set_nth_length {A} (l : list A) n v : length (set_nth n v l) = length l.
Proof. revert n; induction l as [|x l IH]; intros [|n]; cbn; auto. Qed.

Lemma nth_firstn {A} (l : list A) n i d : (i < n)%nat -> nth i (firstn n l) d = nth i l d.
Proof. revert n i; induction l as [|x l IH]; intros [|n] [|i] H; cbn; try reflexivity; try lia. apply IH; lia. Qed.

Lemma mod_shift_ne a k cap : 0 <= a < cap -> 0 < k < cap -> (a - k) mod cap <> a.
Proof.
  intros Ha Hk. destruct (Z_le_gt_dec k a).
  - rewrite Z.mod_small by lia. lia.
  - replace (a - k) with (a - k + cap + (-1) * cap) by lia. rewrite Z.mod_add by lia.
    rewrite Z.mod_small by lia. lia.
Qed.

Definition results (l : list (Z * bool)) : list bool := map snd l.

Definition cnt (b : bool) (l : list bool) : Z := Z.of_nat (count_occ bool_dec l b).

Lemma count_if_cnt f l : count_if f l = Z.of_nat (length (filter f (results l))).
Proof. unfold count_if, results. induction l as [|[t v] l IH]; cbn; [reflexivity|]. destruct (f v); cbn; lia. Qed.

Record Rcount (cap : Z) (c : cstats) (log : list (Z * bool)) : Prop := {
  rc_size : cs_size c = cap; rc_cap : 1 <= cap;
  rc_len : length (cs_bits c) = Z.to_nat cap;
  rc_head : 0 <= cs_head c < cap;
  rc_occ : cs_occ c = Z.of_nat (length (firstn (Z.to_nat cap) log));
  rc_succ : cs_succ c = count_if (fun b => b) (firstn (Z.to_nat cap) log);
  rc_fail : cs_fail c = count_if negb (firstn (Z.to_nat cap) log);
  rc_fill : cs_occ c < cap -> cs_head c = cs_occ c;
  rc_ring : forall i, (i < length (firstn (Z.to_nat cap) log))%nat ->
      nth (Z.to_nat ((cs_head c - 1 - Z.of_nat i) mod cap)) (cs_bits c) false
      = snd (nth i log (0, false)) }.

Lemma Rcount_new cap : 1 <= cap -> Rcount cap (cs_new cap) [].
Proof.
  intros H. constructor; cbn; try lia; try reflexivity.
  - apply repeat_length.
  - rewrite firstn_nil. reflexivity.
  - rewrite firstn_nil. reflexivity.
  - rewrite firstn_nil. reflexivity.
  - rewrite firstn_nil. cbn. lia.
Qed.

Lemma count_if_cons f t v l : count_if f ((t, v) :: l) = (if f v then 1 else 0) + count_if f l.
Proof. unfold count_if. cbn [filter snd]. destruct (f v); cbn [length]; lia. Qed.

Lemma firstn_snoc_last {A} (l : list A) n d : length l = S n -> l = firstn n l ++ [nth n l d].
Proof.
  revert n; induction l as [|x l IH]; intros n H; cbn in H; [lia|].
  destruct n as [|n]; cbn.
  - destruct l; cbn in H; [reflexivity|lia].
  - f_equal. apply IH. lia.
Qed.

Lemma count_if_app f a b : count_if f (a ++ b) = count_if f a + count_if f b.
Proof. unfold count_if. rewrite filter_app, app_length. lia. Qed.

Definition evicted (c : cstats) : bool := nth (Z.to_nat (cs_head c)) (cs_bits c) false.

Lemma cs_record_proj c v :
  cs_bits (cs_record c v) = set_nth (Z.to_nat (cs_head c)) v (cs_bits c)
  /\ cs_size (cs_record c v) = cs_size c
  /\ cs_head (cs_record c v) = (cs_head c + 1) mod cs_size c
  /\ cs_occ (cs_record c v) = (if cs_occ c <? cs_size c then cs_occ c + 1 else cs_occ c)
  /\ cs_succ (cs_record c v) =
       (if cs_occ c <? cs_size c then cs_succ c else if evicted c then cs_succ c - 1 else cs_succ c)
       + (if v then 1 else 0)
  /\ cs_fail (cs_record c v) =
       (if cs_occ c <? cs_size c then cs_fail c else if evicted c then cs_fail c else cs_fail c - 1)
       + (if v then 0 else 1).
Proof.
  unfold cs_record, evicted. destruct (cs_occ c <? cs_size c);
    [|destruct (nth (Z.to_nat (cs_head c)) (cs_bits c) false)]; destruct v; cbn; repeat split; lia.
Qed.

Lemma ring_step cap (bits : list bool) head v (log : list (Z * bool)) now k :
  1 <= cap -> 0 <= head < cap -> length bits = Z.to_nat cap -> (k < Z.to_nat cap)%nat ->
  (forall i, (i < k)%nat -> nth (Z.to_nat ((head - 1 - Z.of_nat i) mod cap)) bits false = snd (nth i log (0, false))) ->
  forall i, (i < S k)%nat ->
  nth (Z.to_nat (((head + 1) mod cap - 1 - Z.of_nat i) mod cap)) (set_nth (Z.to_nat head) v bits) false
  = snd (nth i ((now, v) :: log) (0, false)).
Proof.
  intros Hcap Hhead Hlen Hk Hring i Hi.
  replace ((head + 1) mod cap - 1 - Z.of_nat i) with ((head + 1) mod cap - (1 + Z.of_nat i)) by lia.
  rewrite Zminus_mod_idemp_l.
  destruct i as [|j]; cbn [nth snd].
  - replace (head + 1 - (1 + Z.of_nat 0)) with head by lia.
    rewrite Z.mod_small by lia. apply nth_set_nth_eq. lia.
  - replace (head + 1 - (1 + Z.of_nat (S j))) with (head - 1 - Z.of_nat j) by lia.
    rewrite nth_set_nth_neq; [apply Hring; lia|].
    intros Heq. apply Z2Nat.inj in Heq; try lia.
    + replace (head - 1 - Z.of_nat j) with (head - (Z.of_nat j + 1)) in Heq by lia.
      symmetry in Heq. revert Heq. apply mod_shift_ne; lia.
    + apply Z.mod_pos_bound; lia.
Qed.

Lemma Rcount_record cap c log now v :
  Rcount cap c log -> Rcount cap (cs_record c v) ((now, v) :: log).
Proof.
  intros [Hsize Hcap Hlen Hhead Hocc Hsucc Hfail Hfill Hring].
  destruct (cs_record_proj c v) as (Pb & Ps & Ph & Po & Pu & Pf). rewrite Hsize in *.
  assert (En : exists m, Z.to_nat cap = S m) by (exists (Nat.pred (Z.to_nat cap)); lia).
  destruct En as [m En]. rewrite En in *.
  assert (Hw' : firstn (S m) ((now, v) :: log) = (now, v) :: firstn m log) by reflexivity.
  destruct (cs_occ c <? cap) eqn:Efull.
  - (* still filling *)
    assert (Hshort : (length log < S m)%nat) by (rewrite firstn_length in Hocc; lia).
    assert (Hall : firstn (S m) log = log) by (apply firstn_all2; lia).
    assert (Hall' : firstn m log = log) by (apply firstn_all2; lia).
    rewrite Hall in *. specialize (Hfill ltac:(lia)).
    constructor; rewrite ?En, ?Hw', ?Hall'.
    + rewrite Ps. reflexivity.
    + assumption.
    + rewrite Pb, set_nth_length. assumption.
    + rewrite Ph. apply Z.mod_pos_bound. lia.
    + rewrite Po. cbn [length]. lia.
    + rewrite Pu, count_if_cons. lia.
    + rewrite Pf, count_if_cons. destruct v; cbn [negb]; lia.
    + rewrite Po, Ph. intros Hlt. rewrite Z.mod_small by lia. lia.
    + rewrite Pb, Ph. cbn [length]. apply ring_step; try lia; assumption.
  - (* full: the entry at head is the oldest of the window and is overwritten *)
    assert (Hlong : (S m <= length log)%nat) by (rewrite firstn_length in Hocc; lia).
    assert (Hlenw : length (firstn (S m) log) = S m) by (rewrite firstn_length; lia).
    assert (Hev : evicted c = snd (nth m log (0, false))).
    { unfold evicted. specialize (Hring m ltac:(lia)).
      replace (cs_head c - 1 - Z.of_nat m) with (cs_head c + (-1) * cap) in Hring by lia.
      rewrite Z.mod_add, Z.mod_small in Hring by lia. exact Hring. }
    assert (Hsplit : firstn (S m) log = firstn m log ++ [nth m log (0, false)]).
    { rewrite (firstn_snoc_last (firstn (S m) log) m (0, false) Hlenw) at 1.
      rewrite firstn_firstn, Nat.min_l by lia. rewrite nth_firstn by lia. reflexivity. }
    rewrite Hsplit in Hsucc, Hfail. rewrite count_if_app in Hsucc, Hfail.
    destruct (nth m log (0, false)) as [te ve] eqn:Ee. cbn [snd] in Hev.
    rewrite count_if_cons in Hsucc, Hfail. unfold count_if in Hsucc at 2. unfold count_if in Hfail at 2.
    cbn [filter length] in Hsucc, Hfail.
    assert (Hlenm : length (firstn m log) = m) by (rewrite firstn_length; lia).
    constructor; rewrite ?En, ?Hw'.
    + rewrite Ps. reflexivity.
    + assumption.
    + rewrite Pb, set_nth_length. assumption.
    + rewrite Ph. apply Z.mod_pos_bound. lia.
    + rewrite Po. cbn [length]. lia.
    + rewrite Pu, count_if_cons, Hev. destruct ve; cbn [negb] in *; lia.
    + rewrite Pf, count_if_cons, Hev. destruct ve, v; cbn [negb] in *; lia.
    + rewrite Po. lia.
    + rewrite Pb, Ph. cbn [length]. rewrite Hlenm. apply ring_step; try lia; try assumption.
      intros i Hi. apply Hring. lia.
Qed.

(* ------------------------------------------------------------------ *)
(* C. For count-based configurations the code's breaker = the documented machine *)

Definition Rc (t : Z) (st : stats) (a : astats) : Prop :=
  match st, a_kind a with
  | SC c, WCount cap => Rcount cap c (a_log a)
  | _, _ => False
  end.

Lemma Rc_obs t st a : Rc t st a ->
  si_exec conc_impl st = si_exec abs_impl a /\ si_fail conc_impl st = si_fail abs_impl a
  /\ si_succ conc_impl st = si_succ abs_impl a.
Proof.
  unfold Rc. destruct st as [c|ts]; [|tauto]. destruct a as [[cap|n] log]; cbn [a_kind a_log]; [|tauto].
  intros H. cbn [conc_impl abs_impl si_exec si_fail si_succ st_exec st_fail st_succ]. unfold a_window. cbn [a_kind a_log].
  destruct H. repeat split; assumption.
Qed.

Lemma Rc_rec t st a now v : Rc t st a -> t <= now ->
  Rc now (si_record conc_impl st now v) (si_record abs_impl a now v).
Proof.
  unfold Rc. destruct st as [c|ts]; [|tauto]. destruct a as [[cap|n] log]; cbn [a_kind a_log]; [|tauto].
  intros H _. cbn [conc_impl abs_impl si_record st_record a_kind a_log]. apply Rcount_record. exact H.
Qed.

Theorem counting_breaker_refines_windows c h :
  bcfg_ok c = true -> b_fperiod c = 0 -> bhist_ok 0 h = true ->
  cb_run c h = spec_brun c h.
Proof.
  intros Hok Hper Hh. unfold cb_run, spec_brun.
  unfold bcfg_ok in Hok. repeat (apply andb_true_iff in Hok; destruct Hok as [Hok ?]).
  apply (brun_sim conc_impl abs_impl Rc c Rc_obs Rc_rec) with (t := 0).
  - intros t t' a b HR _. exact HR.
  - intros t _. cbn [conc_impl abs_impl si_new_closed]. rewrite Hper. cbn [Z.eqb negb].
    unfold Rc. cbn [a_kind a_log]. apply Rcount_new. lia.
  - intros t _. cbn [conc_impl abs_impl si_new_half]. unfold Rc. cbn [a_kind a_log]. apply Rcount_new. lia.
  - unfold cb_init, spec_init, new_closed. constructor; [lia|].
    cbn [conc_impl abs_impl si_new_closed]. rewrite Hper. cbn [Z.eqb negb].
    unfold Rc. cbn [a_kind a_log]. apply Rcount_new. lia.
  - exact Hh.
Qed.

(* ------------------------------------------------------------------ *)
(* D. timedStats: the running summary is the sum of the ten buckets      *)

Definition bsum (bs : list (Z * Z)) : Z * Z :=
  fold_right (fun b acc => (fst b + fst acc, snd b + snd acc)) (0, 0) bs.

Lemma bsum_set_nth bs idx v : (idx < length bs)%nat ->
  bsum (set_nth idx v bs) =
  (fst (bsum bs) - fst (nth idx bs (0, 0)) + fst v, snd (bsum bs) - snd (nth idx bs (0, 0)) + snd v).
Proof.
  revert idx; induction bs as [|b bs IH]; intros [|idx] H; cbn [length] in H; try lia.
  - cbn. f_equal; lia.
  - cbn [set_nth nth bsum fold_right]. fold (bsum bs). fold (bsum (set_nth idx v bs)).
    rewrite IH by lia. cbn [fst snd]. f_equal; lia.
Qed.

Definition ts_consistent (t : tstats) : Prop := length (ts_buckets t) = 10%nat /\ ts_sum t = bsum (ts_buckets t).

Lemma ts_expire_consistent n : forall bs sum head i,
  length bs = 10%nat -> sum = bsum bs ->
  let '(bs', sum') := ts_expire bs sum head i n in length bs' = 10%nat /\ sum' = bsum bs'.
Proof.
  induction n as [|n IH]; intros bs sum head i Hl Hs; cbn [ts_expire]; [auto|].
  apply IH.
  - rewrite set_nth_length. exact Hl.
  - rewrite bsum_set_nth.
    + subst sum. cbn [fst snd]. f_equal; lia.
    + rewrite Hl. pose proof (Z.mod_pos_bound (head + i + 1) bucket_count ltac:(unfold bucket_count; lia)).
      unfold bucket_count in *. lia.
Qed.

Lemma ts_current_consistent t now : ts_consistent t -> ts_consistent (ts_current t now).
Proof.
  intros [Hl Hs]. unfold ts_current. destruct (ts_head t <? now / ts_nanos t); [|split; assumption].
  pose proof (ts_expire_consistent (Z.to_nat (Z.min bucket_count (now / ts_nanos t - ts_head t)))
                (ts_buckets t) (ts_sum t) (ts_head t) 0 Hl Hs) as H.
  destruct (ts_expire _ _ _ _ _) as [bs' sum']. exact H.
Qed.

Theorem timed_stats_summary_is_bucket_sum t now v : ts_consistent t -> ts_consistent (ts_record t now v).
Proof.
  intros H. apply (ts_current_consistent t now) in H. destruct H as [Hl Hs].
  unfold ts_record. set (t' := ts_current t now) in *.
  split; cbn [ts_buckets ts_sum].
  - rewrite set_nth_length. exact Hl.
  - rewrite bsum_set_nth.
    + rewrite Hs. destruct v; cbn [fst snd]; f_equal; lia.
    + rewrite Hl. pose proof (Z.mod_pos_bound (ts_head t') bucket_count ltac:(unfold bucket_count; lia)).
      unfold bucket_count in *. lia.
Qed.

(* the documented time window: older than the period never counts, the most recent nine slices always do *)
Lemma timed_window_documented nanos tnew v log t b :
  1 <= nanos -> t <= tnew ->
  let a := {| a_kind := WTimed nanos; a_log := (tnew, v) :: log |} in
  In (t, b) ((tnew, v) :: log) ->
  (10 * nanos <= tnew - t -> ~ In (t, b) (a_window a))
  /\ (tnew - t < 9 * nanos -> In (t, b) (a_window a)).
Proof.
  intros Hn Ht a Hin. unfold a_window, a. cbn [a_kind a_log]. split; intros H.
  - intros Hf. apply filter_In in Hf. destruct Hf as [_ Hf]. cbn [fst] in Hf.
    assert (t / nanos <= tnew / nanos - 10).
    { replace (tnew / nanos - 10) with ((tnew + (-10) * nanos) / nanos) by (rewrite Z.div_add by lia; lia).
      apply Z.div_le_mono; lia. }
    unfold bucket_count in Hf. lia.
  - apply filter_In. split; [exact Hin|]. cbn [fst].
    assert (tnew / nanos - 9 <= t / nanos).
    { replace (tnew / nanos - 9) with ((tnew + (-9) * nanos) / nanos) by (rewrite Z.div_add by lia; lia).
      apply Z.div_le_mono; lia. }
    unfold bucket_count. lia.
Qed.

(* ------------------------------------------------------------------ *)
(* E. the transition rules (any stats implementation)                   *)
Section Rules.
  Context {S : Type} (I : stats_impl S) (c : bcfg).

  (* open for exactly the delay *)
  Theorem open_for_exactly_delay a st d now :
    1 <= halfopen_capacity c ->
    (now - st < d ->
       try_acquire I c (Open a st d) now = (false, Open a st d, [])
       /\ remaining_delay (Open a st d) now = d - (now - st))
    /\ (d <= now - st ->
       fst (fst (try_acquire I c (Open a st d) now)) = true
       /\ snd (fst (try_acquire I c (Open a st d) now)) = HalfOpen (si_new_half I c) (halfopen_capacity c - 1)
       /\ remaining_delay (Open a st d) now = 0).
  Proof.
    intros Hcap. split; intros H; cbn [try_acquire remaining_delay].
    - destruct (d <=? now - st) eqn:E; [lia|]. split; [reflexivity|lia].
    - destruct (d <=? now - st) eqn:E; [|lia]. rewrite transition_open_half.
      destruct (0 <? halfopen_capacity c) eqn:E2; [|lia]. cbn [fst snd]. repeat split. lia.
  Qed.

  (* a closed breaker opens exactly when the configured threshold over its window is met *)
  Theorem closed_opens_iff st now er :
    state_code (fst (check_threshold I c (Closed st) now er)) = 1 <->
    (b_fexec c <= si_exec I st /\
     ((b_frate c <> 0 /\ b_frate c <= frate I st) \/ (b_frate c = 0 /\ b_fthr c <= si_fail I st))).
  Proof.
    cbn [check_threshold].
    destruct (b_fexec c <=? si_exec I st) eqn:E1; [|cbn; lia].
    destruct (_ || _) eqn:E2.
    - cbn. split; [intros _|reflexivity]. lia.
    - cbn. split; [lia|]. intros H. lia.
  Qed.

  (* events: every transition reports old <> new, the listener matching the new state fires
     first and the generic one second, both with the same metrics; consecutive events chain *)
  Fixpoint events_path (code : Z) (evs : list bevent) : option Z :=
    match evs with
    | [] => Some code
    | e1 :: e2 :: rest =>
        if (ev_old e1 =? code) && (ev_old e2 =? code) && negb (ev_new e1 =? code)
           && (ev_new e2 =? ev_new e1) && (ev_tag e1 =? ev_new e1) && (ev_tag e2 =? 3)
           && (0 <=? ev_new e1) && (ev_new e1 <=? 2)
        then events_path (ev_new e1) rest else None
    | _ => None
    end.

  Lemma events_path_app_n n : forall code evs1 evs2 mid, (length evs1 <= n)%nat ->
    events_path code evs1 = Some mid -> events_path code (evs1 ++ evs2) = events_path mid evs2.
  Proof.
    induction n as [|n IH]; intros code evs1 evs2 mid Hl H.
    - destruct evs1; cbn in Hl; [|lia]. cbn in H. injection H as ->. reflexivity.
    - destruct evs1 as [|e1 [|e2 rest]]; cbn [events_path app] in *; try discriminate.
      + injection H as ->. reflexivity.
      + destruct (_ && _); [|discriminate]. apply IH; [cbn in Hl; lia|exact H].
  Qed.

  Lemma events_path_app code evs1 evs2 mid :
    events_path code evs1 = Some mid -> events_path code (evs1 ++ evs2) = events_path mid evs2.
  Proof. apply (events_path_app_n (length evs1)). lia. Qed.

  Lemma transition_path s now tgt d : 0 <= tgt <= 2 ->
    events_path (state_code s) (snd (transition I c s now tgt d)) = Some (state_code (fst (transition I c s now tgt d))).
  Proof.
    intros Ht. unfold transition. destruct (state_code s =? tgt) eqn:E; cbn [fst snd events_path]; [reflexivity|].
    cbn [ev_old ev_new ev_tag]. rewrite !Z.eqb_refl. rewrite Z.eqb_sym, E.
    replace (0 <=? tgt) with true by lia. replace (tgt <=? 2) with true by lia. cbn [andb negb].
    f_equal. destruct (tgt =? 0) eqn:E0; [cbn; lia|]. destruct (tgt =? 1) eqn:E1; cbn; lia.
  Qed.

  Lemma check_threshold_path s now er :
    events_path (state_code s) (snd (check_threshold I c s now er)) = Some (state_code (fst (check_threshold I c s now er))).
  Proof.
    destruct s as [st|st a b|st p]; cbn [check_threshold].
    - destruct (b_fexec c <=? si_exec I st); [|reflexivity].
      destruct (_ || _); [apply transition_path; lia|reflexivity].
    - reflexivity.
    - destruct (if negb (b_sthr c =? 0) then _ else _) as [se fe].
      destruct se; [apply transition_path; lia|]. destruct fe; [apply transition_path; lia|reflexivity].
  Qed.

  Lemma record_path s now v er :
    events_path (state_code s) (snd (record I c s now v er)) = Some (state_code (fst (record I c s now v er))).
  Proof.
    unfold record. rewrite <- check_threshold_path. f_equal. destruct s; reflexivity.
  Qed.

  Lemma try_acquire_path s now :
    events_path (state_code s) (snd (try_acquire I c s now)) = Some (state_code (snd (fst (try_acquire I c s now)))).
  Proof.
    destruct s as [st|st a b|st p]; cbn [try_acquire].
    - reflexivity.
    - destruct (b <=? now - a); [|reflexivity]. rewrite transition_open_half.
      destruct (0 <? halfopen_capacity c); reflexivity.
    - destruct (0 <? p); reflexivity.
  Qed.

  Theorem step_events_form_path s now op :
    events_path (state_code s) (snd (bstep_core I c s now op)) = Some (state_code (snd (fst (bstep_core I c s now op)))).
  Proof.
    destruct op; cbn [bstep_core];
      try (match goal with |- context [record I c s now ?v ?er] =>
             pose proof (record_path s now v er) as H; destruct (record I c s now v er); exact H end).
    - pose proof (try_acquire_path s now) as H. destruct (try_acquire I c s now) as [[b s'] e]. exact H.
    - pose proof (transition_path s now 1 (b_delay c) ltac:(lia)) as H. destruct (transition I c s now 1 (b_delay c)). exact H.
    - pose proof (transition_path s now 2 0 ltac:(lia)) as H. destruct (transition I c s now 2 0). exact H.
    - pose proof (transition_path s now 0 0 ltac:(lia)) as H. destruct (transition I c s now 0 0). exact H.
    - pose proof (try_acquire_path s now) as H. destruct (try_acquire I c s now) as [[b s1] e1]. cbn [fst snd] in H.
      destruct b; [|exact H].
      set (ok := negb (is_failure (b_fpol c) o)).
      pose proof (record_path s1 now ok (if ok then None else Some (fst o))) as H2.
      destruct (record I c s1 now ok _) as [s2 e2]. cbn [fst snd] in *.
      rewrite (events_path_app _ _ _ _ H). exact H2.
    - reflexivity.
  Qed.

  (* over a whole history the emitted events form one connected path from the initial state *)
  Theorem history_events_form_path h : forall s,
    events_path (state_code s) (flat_map ob_events (brun I c s h)) = Some (state_code (bfinal I c s h)).
  Proof.
    induction h as [|[now op] h IH]; intros s; [reflexivity|].
    cbn [brun bfinal]. unfold bstep.
    pose proof (step_events_form_path s now op) as H.
    destruct (bstep_core I c s now op) as [[v s'] e]. cbn [fst snd] in *.
    cbn [flat_map ob_events]. rewrite (events_path_app _ _ _ _ H). apply IH.
  Qed.
End Rules.

(* ------------------------------------------------------------------ *)
(* F. half-open decides within the trial capacity (documented windows, count-based thresholds) *)

Lemma count_if_partition l : count_if (fun b => b) l + count_if negb l = Z.of_nat (length l).
Proof.
  unfold count_if. induction l as [|[t v] l IH]; cbn [filter snd length]; [reflexivity|].
  destruct v; cbn [negb length]; lia.
Qed.

Theorem half_open_decides_within_capacity c a p now er :
  bcfg_ok c = true -> b_frate c = 0 -> (b_fexec c = 0 \/ b_fexec c = b_fcap c) ->
  (b_sthr c = 0 -> b_scap c = 0) ->
  a_kind a = WCount (halfopen_capacity c) ->
  Z.of_nat (length (a_log a)) >= halfopen_capacity c ->       (* capacity results recorded in this state *)
  state_code (fst (check_threshold abs_impl c (HalfOpen a p) now er)) <> 2.
Proof.
  intros Hok Hr Hfe Hss Hk Hlen.
  unfold bcfg_ok in Hok. repeat (apply andb_true_iff in Hok; destruct Hok as [Hok ?]).
  cbn [check_threshold abs_impl si_succ si_fail si_exec]. unfold a_window. rewrite Hk.
  set (w := firstn (Z.to_nat (halfopen_capacity c)) (a_log a)).
  assert (Hw : Z.of_nat (length w) = halfopen_capacity c).
  { subst w. rewrite firstn_length. lia. }
  pose proof (count_if_partition w) as Hp. rewrite Hw in Hp.
  assert (Hcap : halfopen_capacity c = if b_sthr c =? 0 then b_fcap c else b_scap c).
  { unfold halfopen_capacity. destruct (b_sthr c =? 0) eqn:E.
    - destruct (b_scap c =? 0) eqn:E2; cbn [negb]; [|lia].
      destruct (b_fexec c =? 0) eqn:E3; cbn [negb]; lia.
    - destruct (b_scap c =? 0) eqn:E2; cbn [negb]; lia. }
  destruct (b_sthr c =? 0) eqn:Es; cbn [negb].
  - rewrite Hr. cbn [Z.eqb negb].
    destruct (b_fcap c - b_fthr c <? count_if (fun b => b) w) eqn:E1.
    + unfold transition. cbn [state_code]. cbn. lia.
    + destruct (b_fthr c <=? count_if negb w) eqn:E2; [unfold transition; cbn; lia|lia].
  - destruct (b_sthr c <=? count_if (fun b => b) w) eqn:E1.
    + unfold transition. cbn. lia.
    + destruct (b_scap c - b_sthr c <? count_if negb w) eqn:E2; [unfold transition; cbn; lia|lia].
Qed.

(* ------------------------------------------------------------------ *)
(* G. float64 rates: failure rate + success rate never falls below 100, for every window of up to 256 results
      (finite sweep evaluated by the kernel; this is what makes a rate-based half-open state decide) *)
Definition rate_pairs (nmax : nat) : list (Z * Z) :=
  flat_map (fun n => map (fun f => (Z.of_nat f, Z.of_nat n)) (seq 0 (S n))) (seq 1 nmax).

Lemma rate_complement_sweep :
  forallb (fun p => 100 <=? rate (fst p) (snd p) + rate (snd p - fst p) (snd p)) (rate_pairs 256) = true.
Proof. vm_compute. reflexivity. Qed.

Lemma rate_pairs_complete nmax f n : (1 <= n <= nmax)%nat -> (f <= n)%nat -> In (Z.of_nat f, Z.of_nat n) (rate_pairs nmax).
Proof.
  intros Hn Hf. unfold rate_pairs. apply in_flat_map. exists n. split.
  - apply in_seq. lia.
  - apply in_map_iff. exists f. split; [reflexivity|]. apply in_seq. lia.
Qed.

Theorem rate_complement f n : 1 <= n <= 256 -> 0 <= f <= n -> 100 <= rate f n + rate (n - f) n.
Proof.
  intros Hn Hf. pose proof rate_complement_sweep as H. rewrite forallb_forall in H.
  specialize (H (Z.of_nat (Z.to_nat f), Z.of_nat (Z.to_nat n))
                (rate_pairs_complete 256 (Z.to_nat f) (Z.to_nat n) ltac:(lia) ltac:(lia))).
  cbn [fst snd] in H. rewrite !Z2Nat.id in H by lia. lia.
Qed.
