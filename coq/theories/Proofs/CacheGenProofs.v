(* Proofs/CacheGenProofs.v — C11 for every result type and every cache content *)
From FS Require Import Model.CacheGen.
From Coq Require Import Lia.

Section P.
Variable V : Type.

Lemma cget_cset (l : store V) k v : cget (cset l k v) k = Some v.
Proof. unfold cget, cset. cbn [find fst]. rewrite Z.eqb_refl. reflexivity. Qed.

Lemma find_filter_other (l : store V) k k' : k' <> k ->
  find (fun p => fst p =? k') (filter (fun p => negb (fst p =? k)) l) = find (fun p => fst p =? k') l.
Proof.
  intros Hne. induction l as [|p l IH]; [reflexivity|]. cbn [filter find].
  destruct (fst p =? k) eqn:E; cbn [negb].
  - apply Z.eqb_eq in E. destruct (fst p =? k') eqn:E'; [apply Z.eqb_eq in E'; congruence|exact IH].
  - cbn [find]. destruct (fst p =? k'); [reflexivity|exact IH].
Qed.

Lemma cget_cset_other (l : store V) k k' v : k' <> k -> cget (cset l k v) k' = cget l k'.
Proof.
  intros Hne. unfold cget, cset. cbn [find fst].
  destruct (k =? k') eqn:E; [apply Z.eqb_eq in E; congruence|]. rewrite find_filter_other by exact Hne. reflexivity.
Qed.

(* a hit returns the cached value -- whatever it is -- without invoking the function, and leaves the cache alone *)
Theorem hit_returns_cached_value (l : store V) k v fn : k <> 0 -> cget l k = Some v -> cache_exec l k fn = (v, false, l).
Proof. intros Hk H. unfold cache_exec. destruct (k =? 0) eqn:E; [apply Z.eqb_eq in E; contradiction|]. rewrite H. reflexivity. Qed.

(* a miss runs the function, returns its value unchanged and stores it under the key *)
Theorem miss_runs_and_stores (l : store V) k fn : k <> 0 -> cget l k = None ->
  cache_exec l k fn = (fn, true, cset l k fn).
Proof. intros Hk H. unfold cache_exec. destruct (k =? 0) eqn:E; [apply Z.eqb_eq in E; contradiction|]. rewrite H. reflexivity. Qed.

(* so the execution after a miss is a hit on what the first one returned, for EVERY value of every type *)
Theorem second_execution_hits (l : store V) k v1 v2 : k <> 0 -> cget l k = None ->
  let l1 := snd (cache_exec l k v1) in cache_exec l1 k v2 = (v1, false, l1).
Proof.
  intros Hk H. cbv zeta. rewrite (miss_runs_and_stores l k v1 Hk H). cbn [snd].
  apply hit_returns_cached_value; [exact Hk|apply cget_cset].
Qed.

(* entries under other keys are neither read nor changed *)
Theorem other_keys_untouched (l : store V) k k' fn : k' <> k -> cget (snd (cache_exec l k fn)) k' = cget l k'.
Proof.
  intros Hne. unfold cache_exec. destruct (k =? 0); [reflexivity|]. destruct (cget l k); [reflexivity|].
  cbn [snd]. apply cget_cset_other. exact Hne.
Qed.

(* without a key nothing is looked up or stored *)
Theorem no_key_no_cache (l : store V) fn : cache_exec l 0 fn = (fn, true, l).
Proof. reflexivity. Qed.
End P.
