(* Proofs/ExecWF.v — worlds are well formed: the caller's scope exists, every execution copy's chain of cancel scopes
   lies within the scopes that exist, every background attempt belongs to an existing copy and to the current or an earlier
   hedged run.  Established by [fresh_world], preserved by every layer of every stack (same skeleton as Proofs/ExecTimes.v:
   each layer hands a well-formed world and an existing copy to the layer inside it) -- which is how the hedge layer,
   the innermost one, receives the premises of Proofs/ExecHedgeLosers.v. *)
From FS Require Import Model.Exec Proofs.ExecProofs Proofs.ExecHedgeProofs Proofs.ExecHedgeLosers.
From Coq Require Import ZifyBool.

Definition okc (c : nat) (w : world) : Prop := (c < length (w_copies w))%nat.

Record Wf (w : world) : Prop := {
  wf_sc : (1 <= length (w_scopes w))%nat;
  wf_cp : Forall (fun cp => forall s, In s (cp_chain cp) -> (s < length (w_scopes w))%nat) (w_copies w);
  wf_bg : Forall (fun b => okc (bg_copy b) w /\ (bg_grp b <= hs_grp (w_hs w))%nat) (w_bg w) }.

Lemma Wf_frame w w' :
  (length (w_scopes w) <= length (w_scopes w'))%nat -> w_copies w' = w_copies w -> w_bg w' = w_bg w ->
  (hs_grp (w_hs w) <= hs_grp (w_hs w'))%nat -> Wf w -> Wf w'.
Proof.
  intros Es Ec Eb Eg [H1 H2 H3]. constructor; rewrite ?Ec, ?Eb.
  - lia.
  - eapply Forall_impl; [|exact H2]. intros cp Hcp s Hs. specialize (Hcp s Hs). lia.
  - eapply Forall_impl; [|exact H3]. intros b [A B]. unfold okc in *. rewrite Ec. split; [exact A|lia].
Qed.

Ltac wf_frame H := eapply Wf_frame; [..|exact H]; try reflexivity; try (cbn; lia).

Lemma stamp_scopes w c : w_scopes (stamp w c) = w_scopes w. Proof. unfold stamp. destruct (w_trace w); reflexivity. Qed.
Lemma stamp_copies w c : w_copies (stamp w c) = w_copies w. Proof. unfold stamp. destruct (w_trace w); reflexivity. Qed.
Lemma stamp_bg w c : w_bg (stamp w c) = w_bg w. Proof. unfold stamp. destruct (w_trace w); reflexivity. Qed.
Lemma stamp_hs w c : w_hs (stamp w c) = w_hs w. Proof. unfold stamp. destruct (w_trace w); reflexivity. Qed.

Lemma Wf_emit w k pos o aux : Wf w -> Wf (emit w k pos o aux).
Proof. intros H. wf_frame H. Qed.
Lemma Wf_stamp w c : Wf w -> Wf (stamp w c).
Proof. intros H. eapply Wf_frame; [..|exact H]; rewrite ?stamp_scopes, ?stamp_copies, ?stamp_bg, ?stamp_hs; auto. Qed.
Lemma Wf_stamp_emit w c k pos o aux : okc c w -> Wf w -> Wf (stamp (emit w k pos o aux) c).
Proof. intros _ H. apply Wf_stamp, Wf_emit, H. Qed.

Lemma okc_frame c w w' : w_copies w' = w_copies w -> okc c w -> okc c w'.
Proof. unfold okc. intros ->. auto. Qed.

Lemma Wf_set_now w t : Wf w -> Wf (set_now w t). Proof. intros H. wf_frame H. Qed.
Lemma Wf_settle w t : Wf w -> Wf (settle w t). Proof. intros H. destruct t; [apply Wf_set_now|]; exact H. Qed.
Lemma Wf_set_oof w : Wf w -> Wf (set_oof w). Proof. intros H. wf_frame H. Qed.
Lemma Wf_set_cell w c : Wf w -> Wf (set_cell w c). Proof. intros H. wf_frame H. Qed.
Lemma Wf_set_insts w b l k c : Wf w -> Wf (set_insts w b l k c). Proof. intros H. wf_frame H. Qed.
Lemma Wf_set_retry w r : Wf w -> Wf (set_retry w r). Proof. intros H. wf_frame H. Qed.
Lemma Wf_set_script w s : Wf w -> Wf (set_script w s). Proof. intros H. wf_frame H. Qed.
Lemma Wf_set_counters w a r x : Wf w -> Wf (set_counters w a r x). Proof. intros H. wf_frame H. Qed.

Lemma Wf_scopes_upd w s f q e : Wf w -> Wf (set_scopes w (upd s f (w_scopes w)) q e).
Proof. intros H. eapply Wf_frame; [..|exact H]; cbn [w_scopes w_copies w_bg w_hs set_scopes]; rewrite ?upd_length; auto. Qed.
Lemma Wf_scopes_same w q e : Wf w -> Wf (set_scopes w (w_scopes w) q e).
Proof. intros H. wf_frame H. Qed.
Lemma Wf_scopes_app w sc q e : Wf w -> Wf (set_scopes w (w_scopes w ++ [sc]) q e).
Proof. intros H. eapply Wf_frame; [..|exact H]; cbn [w_scopes w_copies w_bg w_hs set_scopes]; rewrite ?app_length; auto; lia. Qed.

Lemma Wf_mark_done w s e : Wf w -> Wf (mark_done w s e).
Proof. intros H. unfold mark_done. destruct (sc_done (get_scope w s)); [exact H|]. apply Wf_scopes_upd, H. Qed.

Lemma Forall_upd {A} (P : A -> Prop) (l : list A) n f : Forall P l -> (forall x, P x -> P (f x)) -> Forall P (upd n f l).
Proof. intros H Hf. revert n. induction H as [|x l Hx Hl IH]; intros [|n]; cbn; constructor; auto. Qed.

Lemma Wf_upd_copies w c f : (forall cp, cp_chain (f cp) = cp_chain cp) -> Wf w -> Wf (set_copies w (upd c f (w_copies w))).
Proof.
  intros Hf [H1 H2 H3]. constructor; cbn [w_scopes w_copies w_bg w_hs set_copies]; [exact H1| |].
  - apply Forall_upd; [exact H2|]. intros cp Hcp s Hs. rewrite Hf in Hs. apply Hcp, Hs.
  - eapply Forall_impl; [|exact H3]. intros b [A B]. unfold okc in *. cbn [w_copies set_copies]. rewrite upd_length. auto.
Qed.

Lemma Wf_set_copy_last w c o : Wf w -> Wf (set_copy_last w c o).
Proof. intros H. unfold set_copy_last. apply Wf_upd_copies; [|exact H]. intros cp. reflexivity. Qed.

Lemma chain_ok c w : okc c w -> Wf w -> forall s, In s (cp_chain (get_copy w c)) -> (s < length (w_scopes w))%nat.
Proof.
  intros Hc H. pose proof (wf_cp _ H) as Hcp. rewrite Forall_forall in Hcp.
  apply (Hcp (nth c (w_copies w) dflt_copy)). apply nth_In. exact Hc.
Qed.

(* a new cancel scope and the execution copy that runs under it (Timeout, hedge attempt) *)
Lemma Wf_push w c sc q e last start : okc c w -> Wf w ->
  Wf (set_copies (set_scopes w (w_scopes w ++ [sc]) q e)
        (w_copies w ++ [ {| cp_chain := length (w_scopes w) :: cp_chain (get_copy w c); cp_last := last; cp_start := start |} ])).
Proof.
  intros Hc H. pose proof (chain_ok c w Hc H) as Hch. destruct H as [H1 H2 H3].
  constructor; cbn [w_scopes w_copies w_bg w_hs set_copies set_scopes]; rewrite ?app_length; cbn [length].
  - lia.
  - apply Forall_app. split.
    + eapply Forall_impl; [|exact H2]. intros cp Hcp s Hs. specialize (Hcp s Hs). lia.
    + constructor; [|constructor]. cbn [cp_chain]. intros s [<-|Hs]; [lia|]. specialize (Hch s Hs). lia.
  - eapply Forall_impl; [|exact H3]. intros b [A B]. unfold okc in *. cbn [w_copies set_copies set_scopes]. rewrite app_length. split; [lia|exact B].
Qed.

Lemma Wf_set_hedge w h bg hs :
  Forall (fun b => okc (bg_copy b) w /\ (bg_grp b <= hs_grp hs)%nat) bg -> Wf w -> Wf (set_hedge w h bg hs).
Proof. intros Hbg [H1 H2 H3]. constructor; cbn [w_scopes w_copies w_bg w_hs set_hedge]; assumption. Qed.

Lemma Wf_set_hedge_same w h hs : (hs_grp (w_hs w) <= hs_grp hs)%nat -> Wf w -> Wf (set_hedge w h (w_bg w) hs).
Proof.
  intros Hg H. apply Wf_set_hedge; [|exact H]. eapply Forall_impl; [|exact (wf_bg _ H)]. intros b [A B]. split; [exact A|lia].
Qed.

Lemma Wf_fire_timeout w s : Wf w -> Wf (fire_timeout w s).
Proof.
  intros H. unfold fire_timeout.
  set (w1 := set_scopes w _ _ _). assert (H1 : Wf w1) by (apply Wf_scopes_upd, H).
  set (w2 := emit w1 KTimeoutExceeded _ _ _). assert (H2 : Wf w2) by (apply Wf_emit, H1).
  destruct (copy_err w2 _); [exact H2|].
  apply Wf_mark_done, Wf_set_copy_last, Wf_set_cell, H2.
Qed.

Lemma Wf_fire_ext w e : Wf w -> Wf (fire_ext w e).
Proof.
  intros H. unfold fire_ext.
  assert (H0 : Wf (set_scopes w (w_scopes w) (w_seq w) None)) by (apply Wf_scopes_same, H).
  destruct e; try (apply Wf_mark_done; exact H0).
  destruct (copy_err _ 0%nat); [exact H0|].
  apply Wf_mark_done, Wf_set_copy_last, Wf_set_cell, H0.
Qed.

Lemma Forall_filter {A} (P : A -> Prop) f (l : list A) : Forall P l -> Forall P (filter f l).
Proof. intros H. induction H as [|x l Hx Hl IH]; cbn; [constructor|]. destruct (f x); [constructor|]; assumption. Qed.

Lemma Wf_finish_bg w b : In b (w_bg w) -> Wf w -> Wf (finish_bg w b).
Proof.
  intros Hin H. unfold finish_bg.
  set (w1 := set_hedge w (w_hedges w) (bg_remove b (w_bg w)) (w_hs w)).
  assert (H1 : Wf w1) by (apply Wf_set_hedge; [apply Forall_filter, (wf_bg _ H)|exact H]).
  set (w2 := set_counters w1 _ _ _). assert (H2 : Wf w2) by (apply Wf_set_counters, H1).
  assert (H3 : Wf (stamp (emit w2 KFnEnd (bg_pos b) (bg_out b) 0) (bg_copy b))) by (apply Wf_stamp, Wf_emit, H2).
  match goal with |- context [if ?c then _ else _] => destruct c end; [|exact H3].
  apply Wf_set_hedge_same; [cbn [hs_grp]; lia|exact H3].
Qed.

Lemma Wf_refresh_bg w : Wf w -> Wf (refresh_bg w).
Proof.
  intros H. unfold refresh_bg.
  match goal with |- context [set_hedge w (w_hedges w) ?bg' (w_hs w)] =>
    assert (H1 : Wf (set_hedge w (w_hedges w) bg' (w_hs w))) end.
  { apply Wf_set_hedge; [|exact H]. pose proof (wf_bg _ H) as Hb. induction Hb as [|b l Hb Hl IH]; cbn [map]; constructor; [|exact IH].
    destruct (bg_coop b) as [[o lag]|]; [|exact Hb]. match goal with |- context [if ?c then _ else _] => destruct c end; exact Hb. }
  match goal with |- context [if ?c then _ else _] => destruct c end; [apply Wf_set_oof|]; exact H1.
Qed.

Lemma fire_ext_len w e : length (w_copies (fire_ext w e)) = length (w_copies w).
Proof.
  unfold fire_ext, mark_done, set_copy_last.
  destruct e; cbn [w_copies set_scopes];
    repeat (match goal with |- context [match ?x with _ => _ end] => destruct x end; cbn [w_copies set_scopes set_copies set_cell]);
    rewrite ?upd_length; reflexivity.
Qed.

Lemma Wf_advance fuel : forall w t intr acc, Wf w ->
  Wf (snd (advance fuel w t intr acc)) /\ length (w_copies (snd (advance fuel w t intr acc))) = length (w_copies w).
Proof.
  induction fuel as [|fuel IH]; intros w t intr acc H; cbn [advance].
  - destruct (match intr with Some c => _ | None => false end); cbn [snd]; [auto|].
    destruct (acc && _); cbn [snd]; [auto|]. split; [apply Wf_settle, H|destruct t; reflexivity].
  - destruct (match intr with Some c => _ | None => false end); cbn [snd]; [auto|].
    destruct (acc && _); cbn [snd]; [auto|].
    assert (Hs : Wf (settle w t) /\ length (w_copies (settle w t)) = length (w_copies w)) by (split; [apply Wf_settle, H|destruct t; reflexivity]).
    pose proof (k_cp 1 w) as Kc.
    match goal with |- context [if ?c then _ else _] => destruct c end.
    + destruct (bg_earliest (w_bg w)) as [b|] eqn:Eb; [|exact Hs].
      destruct (due (bg_finish b) t); [|exact Hs].
      match goal with |- context [set_now (if ?c then set_oof w else w) ?tt] => set (w1 := set_now (if c then set_oof w else w) tt) end.
      assert (H1 : Wf w1) by (subst w1; apply Wf_set_now; match goal with |- context [if ?c then _ else _] => destruct c end; [apply Wf_set_oof|]; exact H).
      assert (Hb : In b (w_bg w1)) by (apply bg_earliest_in in Eb; subst w1; match goal with |- context [if ?c then _ else _] => destruct c end; exact Eb).
      assert (L1 : length (w_copies (finish_bg w1 b)) = length (w_copies w)).
      { rewrite (k_cp 1 w1 _ (Keeps_finish_bg 1 w1 b Hb)). subst w1. match goal with |- context [if ?c then _ else _] => destruct c end; reflexivity. }
      destruct (IH _ t intr acc (Wf_finish_bg w1 b Hb H1)) as [H2 L2]. split; [exact H2|congruence].
    + destruct (next_timer w) as [[tt src]|]; [|exact Hs].
      destruct (due tt t); [|exact Hs].
      match goal with |- context [set_now (if ?c then set_oof w else w) ?t1] => set (w1 := set_now (if c then set_oof w else w) t1) end.
      assert (H1 : Wf w1) by (subst w1; apply Wf_set_now; match goal with |- context [if ?c then _ else _] => destruct c end; [apply Wf_set_oof|]; exact H).
      assert (E1 : length (w_copies w1) = length (w_copies w)) by (subst w1; match goal with |- context [if ?c then _ else _] => destruct c end; reflexivity).
      match goal with |- context [advance fuel ?w' t intr acc] => assert (H' : Wf w' /\ length (w_copies w') = length (w_copies w)) end.
      { split.
        - apply Wf_refresh_bg. destruct src as [s|]; [apply Wf_fire_timeout, H1|]. destruct (w_ext w) as [[? e]|]; [apply Wf_fire_ext|]; exact H1.
        - rewrite refresh_bg_copies'. destruct src as [s|].
          + unfold fire_timeout. match goal with |- context [copy_err ?a ?b] => destruct (copy_err a b) end; [exact E1|].
            unfold mark_done. match goal with |- context [sc_done ?x] => destruct (sc_done x) end;
              cbn [w_copies set_scopes set_copy_last set_copies set_cell emit set_trace]; rewrite ?upd_length; exact E1.
          + destruct (w_ext w) as [[? e]|]; [|exact E1]. rewrite fire_ext_len. exact E1. }
      destruct H' as [H2 L2]. destruct (IH _ t intr acc H2) as [H3 L3]. split; [exact H3|congruence].
Qed.

Lemma Wf_wait w d intr : Wf w -> Wf (snd (wait w d intr)) /\ length (w_copies (snd (wait w d intr))) = length (w_copies w).
Proof. apply Wf_advance. Qed.

(* ---- layers ---- *)
Definition Step (w w' : world) : Prop := Wf w' /\ (length (w_copies w) <= length (w_copies w'))%nat.
Definition pres (l : layer) : Prop := forall c w, okc c w -> Wf w -> Step w (snd (l c w)).

Lemma okc_le c w w' : (length (w_copies w) <= length (w_copies w'))%nat -> okc c w -> okc c w'.
Proof. unfold okc. lia. Qed.

Lemma Step_refl w : Wf w -> Step w w.
Proof. intros H. split; [exact H|lia]. Qed.

Lemma Step_trans a b c : Step a b -> Step b c -> Step a c.
Proof. intros [_ L1] [H2 L2]. split; [exact H2|lia]. Qed.

Lemma Step_same w w' : Wf w' -> w_copies w' = w_copies w -> Step w w'.
Proof. intros H E. split; [exact H|rewrite E; lia]. Qed.


Lemma Step_ev w c k pos r : okc c w -> Wf w -> Step w (ev_with_result w c k pos r).
Proof. intros Hc H. unfold ev_with_result. apply Step_same; [apply Wf_stamp_emit; assumption|rewrite stamp_copies; reflexivity]. Qed.

Lemma Step_semit w c k pos o aux : okc c w -> Wf w -> Step w (stamp (emit w k pos o aux) c).
Proof. intros Hc H. apply Step_same; [apply Wf_stamp_emit; assumption|rewrite stamp_copies; reflexivity]. Qed.

Lemma Step_wait w d intr : Wf w -> Step w (snd (wait w d intr)).
Proof. intros H. destruct (Wf_wait w d intr H) as [A B]. split; [exact A|lia]. Qed.

Lemma fn_layer_pres pos : pres (fn_layer pos).
Proof.
  intros c w Hc H. unfold fn_layer.
  set (w0 := set_script w _). assert (H0 : Wf w0) by (apply Wf_set_script, H).
  assert (Hc0 : okc c w0) by exact Hc.
  pose proof (Step_semit w0 c KFnStart pos (snapshot w0 c) 0 Hc0 H0) as [H1 L1].
  set (w1 := stamp (emit w0 KFnStart pos _ 0) c) in *.
  assert (Hfin : forall o w2, Step w w2 -> Step w (stamp (emit (set_counters w2 (w_attempts w2) (w_retries w2) (w_executions w2 + 1)) KFnEnd pos o 0) c)).
  { intros o w2 [H2 L2]. eapply Step_trans; [split; [exact H2|exact L2]|].
    apply (Step_semit (set_counters w2 _ _ _) c); [apply (okc_le c w); [exact L2|exact Hc]|apply Wf_set_counters, H2]. }
  destruct (fs_coop _) as [co|].
  - pose proof (Step_wait w1 (fs_dur (next_step w)) (Some c) H1) as Sw. destruct (wait w1 _ (Some c)) as [ii w'].
    cbn [snd] in *. destruct ii.
    + pose proof (Step_wait w' (fs_lag (next_step w)) None (proj1 Sw)) as Sw2. destruct (wait w' _ None) as [jj w''].
      cbn [snd] in *. apply Hfin. eapply Step_trans; [split; [exact H1|exact L1]|]. eapply Step_trans; eassumption.
    + cbn [snd]. apply Hfin. eapply Step_trans; [split; [exact H1|exact L1]|exact Sw].
  - pose proof (Step_wait w1 (fs_dur (next_step w)) None H1) as Sw. destruct (wait w1 _ None) as [ii w'].
    cbn [snd] in *. apply Hfin. eapply Step_trans; [split; [exact H1|exact L1]|exact Sw].
Qed.

Lemma Step_emit_bevents pos evs : forall w, Wf w -> Step w (emit_bevents w pos evs).
Proof.
  unfold emit_bevents. induction evs as [|e evs IH]; intros w H; cbn [fold_left]; [apply Step_refl, H|].
  eapply Step_trans; [|apply IH, Wf_emit, H]. apply Step_same; [apply Wf_emit, H|reflexivity].
Qed.

Ltac step_chain := repeat (first [eassumption | eapply Step_trans; [eassumption|]]).

Lemma breaker_layer_pres pos inst inner : pres inner -> pres (breaker_layer pos inst inner).
Proof.
  intros Hi c w Hc H. unfold breaker_layer, set_breaker.
  destruct (nth inst (w_breakers w) _) as [cfg s].
  destruct (try_acquire conc_impl cfg s (w_now w)) as [[ok s1] evs].
  assert (S1 : Step w (emit_bevents (set_insts w (upd inst (fun p => (fst p, s1)) (w_breakers w)) (w_limiters w) (w_bulkheads w) (w_caches w)) pos evs)).
  { eapply Step_trans; [|apply Step_emit_bevents, Wf_set_insts, H]. apply Step_same; [apply Wf_set_insts, H|reflexivity]. }
  destruct ok; cbn [negb]; [|exact S1].
  set (w1 := emit_bevents _ pos evs) in *.
  pose proof (Hi c w1 (okc_le c w w1 (proj2 S1) Hc) (proj1 S1)) as S2. destruct (inner c w1) as [r w2]. cbn [snd] in S2.
  assert (Hc2 : okc c w2) by (apply (okc_le c w); [destruct S1, S2; lia|exact Hc]).
  destruct (nth inst (w_breakers w2) _) as [cfg2 s2].
  assert (Hfin : forall w3 s3 evs', Step w2 w3 ->
            Step w (emit_bevents (set_insts w3 (upd inst (fun p => (fst p, s3)) (w_breakers w3)) (w_limiters w3) (w_bulkheads w3) (w_caches w3)) pos evs')).
  { intros w3 s3 evs' S3. eapply Step_trans; [exact S1|]. eapply Step_trans; [exact S2|]. eapply Step_trans; [exact S3|].
    eapply Step_trans; [|apply Step_emit_bevents, Wf_set_insts, (proj1 S3)]. apply Step_same; [apply Wf_set_insts, (proj1 S3)|reflexivity]. }
  destruct (is_failure (b_fpol cfg) (pr_out r)).
  - destruct (record conc_impl cfg s2 _ false _) as [s3 evs']. cbn [snd]. apply Hfin. apply Step_ev; [exact Hc2|exact (proj1 S2)].
  - destruct (record conc_impl cfg s2 _ true _) as [s3 evs']. cbn [snd]. apply Hfin. apply Step_ev; [exact Hc2|exact (proj1 S2)].
Qed.

Lemma limiter_layer_pres pos inst mw inner : pres inner -> pres (limiter_layer pos inst mw inner).
Proof.
  intros Hi c w Hc H. unfold limiter_layer, limiter_layer_gen.
  destruct (nth inst (w_limiters w) _) as [[cfg base] s].
  destruct (lim_acquire cfg s (w_now w - base) 1 mw) as [wt s'].
  set (w1 := set_insts w _ _ _ _). assert (H1 : Wf w1) by (apply Wf_set_insts, H).
  assert (S1 : Step w w1) by (apply Step_same; [exact H1|reflexivity]).
  destruct (wt =? -1); [cbn [snd]; eapply Step_trans; [exact S1|]; apply Step_semit; [exact Hc|exact H1]|].
  pose proof (Step_wait w1 wt (Some c) H1) as Sw. destruct (wait w1 wt (Some c)) as [i w2]. cbn [snd] in Sw.
  destruct i; cbn [snd]; [eapply Step_trans; [exact S1|exact Sw]|].
  eapply Step_trans; [exact S1|]. eapply Step_trans; [exact Sw|]. apply Hi; [apply (okc_le c w1); [exact (proj2 Sw)|exact Hc]|exact (proj1 Sw)].
Qed.

Lemma bulkhead_layer_pres pos inst mw inner : pres inner -> pres (bulkhead_layer pos inst mw inner).
Proof.
  intros Hi c w Hc H. unfold bulkhead_layer.
  destruct (nth inst (w_bulkheads w) (0, 0)) as [cap held].
  destruct (copy_err w c); [apply Step_refl, H|].
  destruct (held <? cap).
  - match goal with |- context [inner c ?w1] => assert (H1 : Wf w1) by (apply Wf_set_insts, H);
      pose proof (Hi c w1 Hc H1) as S2; destruct (inner c w1) as [r w2] end.
    cbn [snd] in S2. destruct (nth inst (w_bulkheads w2) (0, 0)) as [cap2 held2]. cbn [snd].
    destruct S2 as [H2 L2]. split; [apply Wf_set_insts, H2|exact L2].
  - destruct (mw =? 0); [cbn [snd]; apply Step_semit; assumption|].
    pose proof (Step_wait w mw (Some c) H) as Sw. destruct (wait w mw (Some c)) as [i w1]. cbn [snd] in Sw.
    destruct i; [exact Sw|cbn [snd]]. eapply Step_trans; [exact Sw|]. apply Step_semit; [apply (okc_le c w); [exact (proj2 Sw)|exact Hc]|exact (proj1 Sw)].
Qed.

Lemma timeout_layer_pres pos limit inner : pres inner -> pres (timeout_layer pos limit inner).
Proof.
  intros Hi c w Hc H. unfold timeout_layer.
  set (w1 := set_scopes w _ _ _). assert (H1 : Wf w1) by (apply Wf_scopes_app, H).
  match goal with |- context [inner ?c' ?w2] => set (cn := c'); set (w2' := w2) end.
  assert (H2 : Wf w2') by (subst w2' w1; exact (Wf_push w c _ _ _ _ _ Hc H)).
  assert (L2 : (length (w_copies w) <= length (w_copies w2'))%nat) by (subst w2' w1; cbn [w_copies set_copies set_scopes]; rewrite app_length; lia).
  assert (Hcn : okc cn w2') by (subst cn w2' w1; unfold okc; cbn [w_copies set_copies set_scopes]; rewrite app_length; cbn; lia).
  pose proof (Hi cn w2' Hcn H2) as [H3 L3]. destruct (inner cn w2') as [r w3]. cbn [snd] in *.
  split; [apply Wf_scopes_upd, H3|cbn [w_copies set_scopes]; lia].
Qed.

Lemma Step_pause w d : Wf w -> Step w (pause w d).
Proof. intros H. unfold pause. destruct (0 <? d); [apply Step_wait, H|split; [exact H|lia]]. Qed.

Lemma fallback_layer_pres pos cfg inner : pres inner -> pres (fallback_layer pos cfg inner).
Proof.
  intros Hi c w Hc H. unfold fallback_layer. pose proof (Hi c w Hc H) as S1. destruct (inner c w) as [r w1]. cbn [snd] in S1.
  assert (Hc1 : okc c w1) by (apply (okc_le c w); [exact (proj2 S1)|exact Hc]).
  destruct (is_failure (fb_fpol cfg) (pr_out r)).
  - pose proof (Step_ev w1 c KPolFailure pos (with_failure r) Hc1 (proj1 S1)) as S2.
    set (w2a := ev_with_result w1 c KPolFailure pos _) in *.
    pose proof (Step_pause w2a (fb_lsn_dur cfg) (proj1 S2)) as S2b. set (w2 := pause w2a _) in *.
    assert (S2' : Step w w2) by (eapply Step_trans; [exact S1|eapply Step_trans; [exact S2|exact S2b]]).
    cbn [pr_succ with_failure]. destruct (is_canceled w2 c); [exact S2'|].
    pose proof (Step_pause w2 (fb_dur cfg) (proj1 S2')) as S3. set (w3 := pause w2 _) in *.
    assert (S3' : Step w w3) by (eapply Step_trans; [exact S2'|exact S3]).
    destruct (is_canceled w3 c); [exact S3'|].
    cbn [snd]. eapply Step_trans; [exact S3'|]. apply Step_same; [apply Wf_emit, (proj1 S3')|reflexivity].
  - cbn [pr_succ with_done]. cbn [snd]. eapply Step_trans; [exact S1|]. apply Step_ev; [exact Hc1|exact (proj1 S1)].
Qed.

Lemma cache_layer_pres pos inst cfg inner : pres inner -> pres (cache_layer pos inst cfg inner).
Proof.
  intros Hi c w Hc H. unfold cache_layer.
  destruct (if cache_key w cfg =? 0 then None else _) as [v|].
  - cbn [snd]. apply Step_same; [apply Wf_emit, H|reflexivity].
  - pose proof (Step_semit w c KCacheMiss pos (snapshot w c) 0 Hc H) as S1. set (w1 := stamp (emit w KCacheMiss pos _ 0) c) in *.
    pose proof (Hi c w1 (okc_le c w w1 (proj2 S1) Hc) (proj1 S1)) as S2. destruct (inner c w1) as [r w2]. cbn [snd] in S2.
    destruct (_ && _); cbn [snd]; [|eapply Step_trans; [exact S1|exact S2]].
    eapply Step_trans; [exact S1|]. eapply Step_trans; [exact S2|].
    set (w3 := set_insts w2 _ _ _ _). assert (H3 : Wf w3) by (apply Wf_set_insts, (proj1 S2)).
    eapply Step_trans; [apply (Step_same w2 w3); [exact H3|reflexivity]|].
    apply Step_ev; [|exact H3]. apply (okc_le c w); [destruct S1 as [_ L1]; destruct S2 as [_ L2]; subst w3; cbn [w_copies set_insts]; lia|exact Hc].
Qed.

Lemma Step_put_rstate w pos r : Wf w -> Step w (put_rstate w pos r).
Proof. intros H. unfold put_rstate. apply Step_same; [apply Wf_set_retry, H|reflexivity]. Qed.

Lemma retry_on_failure_Step cfg pos c r w : okc c w -> Wf w -> Step w (snd (retry_on_failure cfg pos c r w)).
Proof.
  intros Hc H. unfold retry_on_failure.
  pose proof (Step_ev w c KPolFailure pos r Hc H) as S0a. set (w0a := ev_with_result w c KPolFailure pos r) in *.
  pose proof (Step_pause w0a (r_lsn_dur cfg) (proj1 S0a)) as S0b. set (w0 := pause w0a (r_lsn_dur cfg)) in *.
  assert (S0 : Step w w0) by (eapply Step_trans; [exact S0a|exact S0b]).
  pose proof (Step_put_rstate w0 pos {| rs_failed := rs_failed (get_rstate w0 pos) + 1;
     rs_exceeded := negb (r_max_retries cfg =? -1) && (r_max_retries cfg <? rs_failed (get_rstate w0 pos) + 1)
                    || negb (r_max_duration cfg =? 0) && (r_max_duration cfg <? w_now w0 - w_start w0) |} (proj1 S0)) as S1.
  set (w1 := put_rstate w0 pos _) in *.
  assert (Hc1 : okc c w1) by (apply (okc_le c w); [destruct S0, S1; lia|exact Hc]).
  set (ab := is_abortable (r_abort cfg) (pr_out r)).
  set (w2 := if ab then ev_with_result w1 c KAbort pos r else w1).
  assert (S2 : Step w1 w2) by (subst w2; destruct ab; [apply Step_ev; [exact Hc1|exact (proj1 S1)]|apply Step_refl, (proj1 S1)]).
  assert (Hc2 : okc c w2) by (apply (okc_le c w1); [exact (proj2 S2)|exact Hc1]).
  assert (S02 : Step w w2) by (eapply Step_trans; [exact S0|]; eapply Step_trans; [exact S1|exact S2]).
  destruct (_ || _); [|exact S02].
  set (w3 := if negb ab then ev_with_result w2 c KRetriesExceeded pos r else w2).
  assert (S3 : Step w2 w3) by (subst w3; destruct (negb ab); [apply Step_ev; [exact Hc2|exact (proj1 S2)]|apply Step_refl, (proj1 S2)]).
  destruct (negb (r_return_last cfg)); cbn [snd]; eapply Step_trans; [exact S02|exact S3|exact S02|exact S3].
Qed.

Lemma retry_loop_Step cfg pos inner : pres inner ->
  forall fuel c w, okc c w -> Wf w -> Step w (snd (fst (retry_loop fuel cfg pos inner c w))).
Proof.
  intros Hi. induction fuel as [|fuel IH]; intros c w Hc H; cbn [retry_loop].
  - cbn [fst snd]. apply Step_same; [apply Wf_set_oof, H|reflexivity].
  - pose proof (Hi c w Hc H) as S1. destruct (inner c w) as [r w1]. cbn [snd] in S1.
    assert (Hc1 : okc c w1) by (apply (okc_le c w); [exact (proj2 S1)|exact Hc]).
    destruct (is_canceled w1 c); [exact S1|].
    destruct (rs_exceeded (get_rstate w1 pos)); [exact S1|].
    assert (S2 : Step w1 (snd (if is_failure (r_fpol cfg) (pr_out r) then retry_on_failure cfg pos c (with_failure r) w1
                              else (with_done r true true, ev_with_result w1 c KPolSuccess pos (with_done r true true))))).
    { destruct (is_failure _ _); [apply retry_on_failure_Step; [exact Hc1|exact (proj1 S1)]|cbn [snd]; apply Step_ev; [exact Hc1|exact (proj1 S1)]]. }
    destruct (if is_failure (r_fpol cfg) (pr_out r) then _ else _) as [r2 w2]. cbn [snd] in S2.
    assert (S12 : Step w w2) by (eapply Step_trans; [exact S1|exact S2]).
    assert (Hc2 : okc c w2) by (apply (okc_le c w); [exact (proj2 S12)|exact Hc]).
    destruct (pr_done r2); [exact S12|].
    destruct (is_canceled w2 c); [exact S12|].
    set (w3 := set_copy_last w2 c (pr_out r2)). assert (H3 : Wf w3) by (apply Wf_set_copy_last, (proj1 S2)).
    assert (L3 : length (w_copies w3) = length (w_copies w2)) by (subst w3; unfold set_copy_last; cbn [w_copies set_copies]; apply upd_length).
    assert (Hc3 : okc c w3) by (unfold okc in *; lia).
    pose proof (Step_semit w3 c KRetryScheduled pos (pr_res r2, match pr_err r2 with Some e => Some e | None => copy_err w3 c end) (retry_delay cfg w3) Hc3 H3) as S4.
    set (w4 := stamp (emit w3 KRetryScheduled pos _ _) c) in *.
    pose proof (Step_wait w4 (retry_delay cfg w3) (Some c) (proj1 S4)) as S5. destruct (wait w4 _ (Some c)) as [ii w5]. cbn [snd] in S5.
    assert (S05 : Step w w5).
    { split; [exact (proj1 S5)|]. destruct S12 as [_ A], S4 as [_ B], S5 as [_ C]. lia. }
    destruct (is_canceled w5 c); [exact S05|].
    assert (Hc5 : okc c w5) by (apply (okc_le c w); [exact (proj2 S05)|exact Hc]).
    (* InitializeRetry: the attempt start moves to now *)
    set (w6 := set_counters w5 _ _ _). assert (H6 : Wf w6) by (apply Wf_set_counters, (proj1 S5)).
    match goal with |- context [set_cell ?w7 None] => set (w7' := w7) end.
    assert (H7 : Wf w7').
    { subst w7'. apply (Wf_upd_copies w6); [|exact H6]. intros cp. reflexivity. }
    assert (L7 : length (w_copies w7') = length (w_copies w5)) by (subst w7' w6; cbn [w_copies set_copies set_counters]; apply upd_length).
    set (w8 := set_cell w7' None). assert (H8 : Wf w8) by (apply Wf_set_cell, H7).
    assert (Hc8 : okc c w8) by (unfold okc in *; subst w8; cbn [w_copies set_cell]; lia).
    pose proof (Step_ev w8 c KRetry pos r2 Hc8 H8) as S9. set (w9 := ev_with_result w8 c KRetry pos r2) in *.
    assert (Hc9 : okc c w9) by (apply (okc_le c w8); [exact (proj2 S9)|exact Hc8]).
    specialize (IH c w9 Hc9 (proj1 S9)). destruct (retry_loop fuel cfg pos inner c w9) as [[rr ww] n]. cbn [fst snd] in *.
    split; [exact (proj1 IH)|]. destruct S05 as [_ A], S9 as [_ B], IH as [_ C]. subst w8. cbn [w_copies set_cell] in B. lia.
Qed.

(* hedge *)
Lemma Wf_cancel_copy w cs : Wf w -> Wf (cancel_copy w cs) /\ length (w_copies (cancel_copy w cs)) = length (w_copies w).
Proof.
  intros H. unfold cancel_copy. destruct (copy_err w (fst cs)); [auto|].
  split; [apply Wf_mark_done, Wf_set_cell, H|]. unfold mark_done. destruct (sc_done _); reflexivity.
Qed.

Lemma Wf_cancel_others started : forall w i winner, Wf w ->
  Wf (cancel_others w started i winner) /\ length (w_copies (cancel_others w started i winner)) = length (w_copies w).
Proof.
  induction started as [|cs rest IH]; intros w i winner H; cbn [cancel_others]; [auto|].
  destruct (Nat.eqb i winner); [apply IH, H|].
  destruct (Wf_cancel_copy w cs H) as [H1 L1]. destruct (IH _ (S i) winner H1) as [H2 L2]. split; [exact H2|congruence].
Qed.

Lemma refresh_bg_copies w : w_copies (refresh_bg w) = w_copies w. Proof. apply refresh_bg_copies'. Qed.

Lemma hedge_start_Step pos total c k w : okc c w -> Wf w ->
  Wf (hedge_start pos total c k w) /\ length (w_copies (hedge_start pos total c k w)) = S (length (w_copies w)).
Proof.
  intros Hc H. unfold hedge_start.
  set (w1 := set_scopes w _ _ _). assert (H1 : Wf w1) by (apply Wf_scopes_app, H).
  match goal with |- context [set_copies w1 ?l] => set (w2 := set_copies w1 l) end.
  assert (H2 : Wf w2) by (subst w2 w1; exact (Wf_push w c _ _ _ _ _ Hc H)).
  assert (L2 : length (w_copies w2) = S (length (w_copies w))) by (subst w2 w1; cbn [w_copies set_copies set_scopes]; rewrite app_length; cbn; lia).
  assert (Hn : okc (length (w_copies w)) w2) by (unfold okc; lia).
  match goal with |- context [set_script ?w3 _] => set (w3' := w3) end.
  assert (H3 : Wf w3' /\ w_copies w3' = w_copies w2 /\ w_bg w3' = w_bg w2).
  { subst w3'. destruct k as [|k']; [auto|].
    split; [|split; [rewrite stamp_copies; reflexivity|unfold stamp; cbn; reflexivity]].
    apply Wf_stamp_emit; [exact Hn|]. apply Wf_set_hedge; [exact (wf_bg _ H2)|apply Wf_set_counters, H2]. }
  destruct H3 as (H3 & E3 & B3).
  set (w4 := set_script w3' _). assert (H4 : Wf w4) by (apply Wf_set_script, H3).
  assert (Hn4 : okc (length (w_copies w)) w4) by (unfold okc in *; subst w4; cbn [w_copies set_script]; rewrite E3; exact Hn).
  match goal with |- context [stamp (emit w4 KFnStart total ?o ?a) ?cc] => set (w5 := stamp (emit w4 KFnStart total o a) cc) end.
  assert (H5 : Wf w5) by (apply Wf_stamp_emit; [exact Hn4|exact H4]).
  assert (E5 : w_copies w5 = w_copies w2) by (subst w5; rewrite stamp_copies; cbn [w_copies emit set_trace]; subst w4; cbn [w_copies set_script]; exact E3).
  split; [|rewrite refresh_bg_copies; cbn [w_copies set_hedge]; rewrite E5; exact L2].
  apply Wf_refresh_bg. apply Wf_set_hedge; [|exact H5].
  constructor.
  - split; [unfold okc; cbn [bg_copy]; rewrite E5, L2; lia|cbn [bg_grp]; lia].
  - exact (wf_bg _ H5).
Qed.

Lemma hedge_loop_Step cfg pos total : forall fuel c k started w, okc c w -> Wf w ->
  Step w (snd (fst (hedge_loop fuel cfg pos total c k started w))).
Proof.
  induction fuel as [|fuel IH]; intros c k started w Hc H; cbn [hedge_loop].
  - cbn [fst snd]. apply Step_same; [apply Wf_set_oof, H|reflexivity].
  - destruct (hedge_start_Step pos total c k w Hc H) as [H6 L6]. set (w6 := hedge_start pos total c k w) in *.
    match goal with |- context [advance ?f w6 ?t ?i ?a] => destruct (Wf_advance f w6 t i a H6) as [H7 L7]; destruct (advance f w6 t i a) as [ii w7] end.
    cbn [snd] in *.
    assert (S7 : Step w w7) by (split; [exact H7|lia]).
    destruct (is_canceled w7 c); [exact S7|].
    destruct (hs_acc (w_hs w7)) as [[idx out]|].
    + cbn [fst snd]. unfold clear_acc.
      match goal with |- context [cancel_others ?x ?st 0 idx] => assert (Hx : Wf x) by (apply Wf_set_hedge_same; [cbn [hs_grp]; lia|exact H7]); destruct (Wf_cancel_others st x 0%nat idx Hx) as [H8 L8] end.
      split; [apply Wf_refresh_bg, H8|rewrite refresh_bg_copies, L8; cbn [w_copies set_hedge]; lia].
    + match goal with |- context [if ?c then Some _ else None] => destruct c end; [|cbn [fst snd]; eapply Step_trans; [exact S7|]; apply Step_same; [apply Wf_set_oof, H7|reflexivity]].
      assert (Hc7 : okc c w7) by (apply (okc_le c w); [exact (proj2 S7)|exact Hc]).
      specialize (IH c (S k) (started ++ [(length (w_copies w), length (w_scopes w))]) w7 Hc7 H7).
      destruct (hedge_loop fuel cfg pos total c (S k) _ w7) as [[r8 w8] ts]. cbn [fst snd] in *. eapply Step_trans; [exact S7|exact IH].
Qed.

Lemma hedge_layer_pres pos total cfg : pres (hedge_layer pos total cfg).
Proof.
  intros c w Hc H. unfold hedge_layer.
  match goal with |- context [hedge_loop ?f cfg pos total c 0 [] ?w0] =>
    assert (H0 : Wf w0) by (apply Wf_set_hedge_same; [cbn [hs_grp]; lia|exact H]); pose proof (hedge_loop_Step cfg pos total f c 0%nat [] w0 Hc H0) as S end.
  exact S.
Qed.

Theorem compose_pres fuel stack : forall pos total, pres (compose fuel pos stack total).
Proof.
  induction stack as [|p rest IH]; intros pos total; cbn [compose].
  - apply fn_layer_pres.
  - specialize (IH (S pos) total). destruct p as [rc|bi|li lmw|ki kmw|lim|fc|ci cc|hc]; cbn [apply_policy].
    + intros c w Hc H. apply (retry_loop_Step rc pos _ IH fuel c w Hc H).
    + apply breaker_layer_pres, IH.
    + apply limiter_layer_pres, IH.
    + apply bulkhead_layer_pres, IH.
    + apply timeout_layer_pres, IH.
    + apply fallback_layer_pres, IH.
    + apply cache_layer_pres, IH.
    + apply hedge_layer_pres.
Qed.


Lemma fresh_world_Wf now ext key b l k c script : Wf (fresh_world now ext key b l k c script) /\ okc 0 (fresh_world now ext key b l k c script).
Proof.
  assert (H0 : Wf (fresh_world0 now ext key b l k c script)).
  { constructor; cbn [fresh_world0 w_scopes w_copies w_bg w_hs length].
    - lia.
    - constructor; [|constructor]. cbn [cp_chain]. intros s [<-|[]]. lia.
    - constructor. }
  assert (C0 : okc 0 (fresh_world0 now ext key b l k c script)) by (unfold okc; cbn; lia).
  unfold fresh_world. destruct ext as [[t e]|]; [|split; assumption]. destruct (t <=? now); [|split; assumption].
  split; [apply Wf_fire_ext, H0|]. unfold okc in *. rewrite fire_ext_len. exact C0.
Qed.

(* every world an execution reaches between layers is well formed *)
Theorem execution_worlds_well_formed fuel stack now ext key b l k c script :
  Wf (snd (compose fuel 0 stack (length stack) 0%nat (fresh_world now ext key b l k c script))).
Proof.
  destruct (fresh_world_Wf now ext key b l k c script) as [H0 C0].
  exact (proj1 (compose_pres fuel stack 0%nat (length stack) 0%nat _ C0 H0)).
Qed.

(* C09: the premises of Proofs/ExecHedgeLosers.v follow from well-formedness, which every enclosing layer hands to the
   hedge layer together with an existing execution copy *)
Theorem hedge_layer_one_left_wf pos total cfg c w : okc c w -> Wf w -> one_left c [] (snd (hedge_layer pos total cfg c w)).
Proof.
  intros Hc H. apply hedge_layer_one_left.
  - exact (wf_sc _ H).
  - exact Hc.
  - exact (chain_ok c w Hc H).
  - intros b0 Hb. pose proof (wf_bg _ H) as Hbg. rewrite Forall_forall in Hbg. exact (proj2 (Hbg b0 Hb)).
Qed.
