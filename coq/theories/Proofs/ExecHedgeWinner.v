(* Proofs/ExecHedgeWinner.v — C09 inside a stack: the result a hedged run hands to the policies around it.
   For the hedge layer of Model/Exec.v started in ANY world (any enclosing stack, script, pending timeouts and
   cancellations, stragglers of earlier runs): unless the run is cancelled from outside, the result returned is the
   outcome of a function return recorded during this run, and that outcome either matches the cancel conditions or was
   taken only after maxHedges+1 function returns had been recorded during the run. *)
From FS Require Import Model.Exec Proofs.ExecProofs Proofs.ExecRetryEvents.
From Coq Require Import ZifyBool.

(* what an event says, without the counters and instants it carries *)
Definition ekey : Type := evk * nat * outcome.
Definition key (e : event) : ekey := (e_kind e, e_pos e, e_out e).
Definition keys (w : world) : list ekey := map key (w_trace w).
Definition is_fnend (k : ekey) : bool := match fst (fst k) with KFnEnd => true | _ => false end.
Definition cntE (l : list ekey) : nat := length (filter is_fnend l).

Lemma cntE_app a b : cntE (a ++ b) = (cntE a + cntE b)%nat.
Proof. unfold cntE. rewrite filter_app, app_length. reflexivity. Qed.

(* the trace only grows, and what the recorded events say does not change *)
Definition tr_ext (w w' : world) : Prop := exists p, keys w' = p ++ keys w.

Lemma ext_refl w : tr_ext w w. Proof. exists []. reflexivity. Qed.
Lemma ext_trans a b c : tr_ext a b -> tr_ext b c -> tr_ext a c.
Proof. intros [p Hp] [q Hq]. exists (q ++ p). rewrite Hq, Hp, app_assoc. reflexivity. Qed.
Lemma ext_frame w w' : w_trace w' = w_trace w -> tr_ext w w'.
Proof. intros H. exists []. unfold keys. rewrite H. reflexivity. Qed.
Lemma ext_emit w k q o aux : True -> tr_ext w (emit w k q o aux).
Proof. intros _. exists [(k, q, o)]. reflexivity. Qed.
Lemma keys_stamp w c : keys (stamp w c) = keys w.
Proof. unfold keys, stamp. destruct (w_trace w) as [|e t] eqn:E; [rewrite E; reflexivity|]. reflexivity. Qed.
Lemma ext_stamp w c : tr_ext w (stamp w c).
Proof. exists []. rewrite keys_stamp. reflexivity. Qed.

Local Hint Resolve ext_refl ext_trans ext_frame ext_emit ext_stamp : ext.
Ltac gen_ext lem := first [eapply lem with (N := fun _ _ => True) | eapply lem]; eauto with ext.

Lemma ext_fire_timeout w s : tr_ext w (fire_timeout w s). Proof. gen_ext same_fire_timeout. Qed.
Lemma ext_fire_ext w e : tr_ext w (fire_ext w e). Proof. gen_ext same_fire_ext. Qed.
Lemma ext_refresh_bg w : tr_ext w (refresh_bg w). Proof. gen_ext same_refresh_bg. Qed.
Lemma ext_settle w t : tr_ext w (settle w t). Proof. gen_ext same_settle. Qed.
Lemma ext_cancel_others started w i winner : tr_ext w (cancel_others w started i winner). Proof. gen_ext same_cancel_others. Qed.
Lemma ext_hedge_start q total c k w : tr_ext w (hedge_start q total c k w). Proof. gen_ext same_hedge_start. Qed.

(* ---- only the return of an attempt of the current run touches the run's state ---- *)
Lemma mark_done_hs w s e : w_hs (mark_done w s e) = w_hs w.
Proof. unfold mark_done. destruct (sc_done (get_scope w s)); reflexivity. Qed.
Lemma fire_timeout_hs w s : w_hs (fire_timeout w s) = w_hs w.
Proof.
  unfold fire_timeout. match goal with |- context [copy_err ?w2 ?c] => destruct (copy_err w2 c) end; [reflexivity|].
  rewrite mark_done_hs. reflexivity.
Qed.
Lemma fire_ext_hs w e : w_hs (fire_ext w e) = w_hs w.
Proof.
  unfold fire_ext. destruct e; rewrite ?mark_done_hs; try reflexivity.
  destruct (copy_err _ 0%nat); [reflexivity|]. rewrite mark_done_hs. reflexivity.
Qed.
Lemma refresh_bg_hs w : w_hs (refresh_bg w) = w_hs w.
Proof. unfold refresh_bg. match goal with |- context [if ?c then _ else _] => destruct c end; reflexivity. Qed.
Lemma settle_hs w t : w_hs (settle w t) = w_hs w.
Proof. destruct t; reflexivity. Qed.
Lemma cancel_copy_hs w cs : w_hs (cancel_copy w cs) = w_hs w.
Proof. unfold cancel_copy. destruct (copy_err w (fst cs)); [reflexivity|]. rewrite mark_done_hs. reflexivity. Qed.
Lemma cancel_others_hs started : forall w i winner, w_hs (cancel_others w started i winner) = w_hs w.
Proof.
  induction started as [|cs rest IH]; intros w i winner; cbn [cancel_others]; [reflexivity|].
  rewrite IH. destruct (Nat.eqb i winner); [reflexivity|apply cancel_copy_hs].
Qed.
Lemma hedge_start_hs pos total c k w : w_hs (hedge_start pos total c k w) = w_hs w.
Proof. unfold hedge_start. rewrite refresh_bg_hs. destruct k; reflexivity. Qed.

(* ---- the invariant of a hedged run: [old] is what the trace said when the run began ---- *)
Definition HW (cond : list cond) (mx : nat) (old : list ekey) (w : world) : Prop :=
  exists pre, keys w = pre ++ old /\ hs_cond (w_hs w) = cond /\ hs_max (w_hs w) = mx
    /\ (hs_count (w_hs w) <= cntE pre)%nat
    /\ forall i o, hs_acc (w_hs w) = Some (i, o) ->
         (exists q, In (KFnEnd, q, o) pre) /\ (is_abortable cond o = true \/ (S mx <= cntE pre)%nat).

Lemma HW_ext cond mx old w w' : HW cond mx old w -> tr_ext w w' -> w_hs w' = w_hs w -> HW cond mx old w'.
Proof.
  intros (pre & Hk & Hc & Hm & Hn & Ha) [p Hp] Hs. exists (p ++ pre). rewrite Hs.
  repeat split; try assumption.
  - rewrite Hp, Hk, app_assoc. reflexivity.
  - rewrite cntE_app. lia.
  - destruct (Ha i o H) as [[q Hq] _]. exists q. apply in_or_app. right. exact Hq.
  - destruct (Ha i o H) as [_ [Hab|Hc']]; [left; exact Hab|right; rewrite cntE_app; lia].
Qed.

Lemma HW_oof cond mx old w : HW cond mx old w -> HW cond mx old (set_oof w).
Proof. intros H. eapply HW_ext; [exact H|apply ext_frame; reflexivity|reflexivity]. Qed.
Lemma HW_now cond mx old w t : HW cond mx old w -> HW cond mx old (set_now w t).
Proof. intros H. eapply HW_ext; [exact H|apply ext_frame; reflexivity|reflexivity]. Qed.

Lemma HW_finish_bg cond mx old w b : HW cond mx old w -> HW cond mx old (finish_bg w b).
Proof.
  intros (pre & Hk & Hc & Hm & Hn & Ha). unfold finish_bg.
  set (w1 := set_hedge w (w_hedges w) _ (w_hs w)). set (w2 := set_counters w1 _ _ _).
  set (w3 := stamp (emit w2 KFnEnd (bg_pos b) (bg_out b) 0) (bg_copy b)).
  assert (K3 : keys w3 = ((KFnEnd, bg_pos b, bg_out b) :: pre) ++ old).
  { subst w3. rewrite keys_stamp. unfold keys, emit. cbn [w_trace set_trace map key e_kind e_pos e_out].
    change (map key (w_trace w2)) with (keys w). rewrite Hk. reflexivity. }
  assert (S3 : w_hs w3 = w_hs w).
  { subst w3. unfold stamp, emit. cbn [w_trace set_trace]. reflexivity. }
  assert (C3 : cntE ((KFnEnd, bg_pos b, bg_out b) :: pre) = S (cntE pre)) by reflexivity.
  destruct (Nat.eqb (bg_grp b) (hs_grp (w_hs w3))).
  - rewrite S3.
    set (take := (Nat.eqb (S (hs_count (w_hs w))) (S (hs_max (w_hs w))) || is_abortable (hs_cond (w_hs w)) (bg_out b)) && negb (hs_sent (w_hs w))).
    exists ((KFnEnd, bg_pos b, bg_out b) :: pre).
    split; [exact K3|]. cbn [w_hs set_hedge hs_cond hs_max hs_count hs_acc].
    split; [exact Hc|]. split; [exact Hm|]. split; [rewrite C3; lia|].
    intros i o H. destruct take eqn:T.
    + injection H as _ <-. split; [exists (bg_pos b); left; reflexivity|]. rewrite C3.
      destruct (is_abortable (hs_cond (w_hs w)) (bg_out b)) eqn:Ab; [left; rewrite <- Hc; exact Ab|right].
      subst take. destruct (Nat.eqb (S (hs_count (w_hs w))) (S (hs_max (w_hs w)))) eqn:Eq; [|cbn in T; discriminate].
      apply Nat.eqb_eq in Eq. lia.
    + destruct (Ha i o H) as [[q Hq] Hwhy]. split; [exists q; right; exact Hq|].
      destruct Hwhy as [Hab|Hc']; [left; exact Hab|right; rewrite C3; lia].
  - exists ((KFnEnd, bg_pos b, bg_out b) :: pre). rewrite S3. repeat split; try assumption.
    + rewrite C3. lia.
    + destruct (Ha i o H) as [[q Hq] _]. exists q. right. exact Hq.
    + destruct (Ha i o H) as [_ [Hab|Hc']]; [left; exact Hab|right; rewrite C3; lia].
Qed.

Lemma HW_settle cond mx old w t : HW cond mx old w -> HW cond mx old (settle w t).
Proof. intros H. eapply HW_ext; [exact H|apply ext_settle|apply settle_hs]. Qed.

Lemma HW_advance cond mx old fuel : forall w t intr acc, HW cond mx old w -> HW cond mx old (snd (advance fuel w t intr acc)).
Proof.
  induction fuel as [|fuel IH]; intros w t intr acc H; cbn [advance].
  - destruct (match intr with Some c => _ | None => false end); cbn [snd]; [exact H|].
    destruct (acc && _); cbn [snd]; [exact H|apply HW_settle, H].
  - destruct (match intr with Some c => _ | None => false end); cbn [snd]; [exact H|].
    destruct (acc && _); cbn [snd]; [exact H|].
    match goal with |- context [if ?c then _ else _] => destruct c end.
    + destruct (bg_earliest (w_bg w)) as [b|]; [|apply HW_settle, H].
      destruct (due (bg_finish b) t); [|apply HW_settle, H].
      apply IH, HW_finish_bg, HW_now. match goal with |- context [if ?c then _ else _] => destruct c end; [apply HW_oof, H|exact H].
    + destruct (next_timer w) as [[tt src]|]; [|apply HW_settle, H].
      destruct (due tt t); [|apply HW_settle, H].
      apply IH.
      match goal with |- context [set_now (if ?c then set_oof w else w) ?t1] => set (w1 := set_now (if c then set_oof w else w) t1) end.
      assert (H1 : HW cond mx old w1).
      { subst w1. apply HW_now. match goal with |- context [if ?c then _ else _] => destruct c end; [apply HW_oof, H|exact H]. }
      eapply HW_ext; [|apply ext_refresh_bg|apply refresh_bg_hs].
      destruct src as [s|].
      * eapply HW_ext; [exact H1|apply ext_fire_timeout|apply fire_timeout_hs].
      * destruct (w_ext w) as [[? e]|]; [|exact H1]. eapply HW_ext; [exact H1|apply ext_fire_ext|apply fire_ext_hs].
Qed.

(* what the hedged run hands on *)
Definition Won (cond : list cond) (mx : nat) (old : list ekey) (c : nat) (r : presult) (w' : world) : Prop :=
  w_oof w' = true
  \/ is_canceled w' c = Some r
  \/ exists pre o q, keys w' = pre ++ old /\ r = all_true o /\ In (KFnEnd, q, o) pre
       /\ (is_abortable cond o = true \/ (S mx <= cntE pre)%nat).

Theorem hedge_loop_winner cfg pos total old : forall fuel c k started w,
  HW (hg_cancel cfg) (hg_max cfg) old w ->
  Won (hg_cancel cfg) (hg_max cfg) old c (fst (fst (hedge_loop fuel cfg pos total c k started w)))
      (snd (fst (hedge_loop fuel cfg pos total c k started w))).
Proof.
  induction fuel as [|fuel IH]; intros c k started w H; cbn [hedge_loop].
  - cbn [fst snd]. left. reflexivity.
  - assert (H6 : HW (hg_cancel cfg) (hg_max cfg) old (hedge_start pos total c k w))
      by (eapply HW_ext; [exact H|apply ext_hedge_start|apply hedge_start_hs]).
    set (w6 := hedge_start pos total c k w) in *.
    match goal with |- context [advance ?f w6 ?t ?i ?a] =>
      pose proof (HW_advance (hg_cancel cfg) (hg_max cfg) old f w6 t i a H6) as H7; destruct (advance f w6 t i a) as [ii w7] end.
    cbn [snd] in H7.
    destruct (is_canceled w7 c) as [cr|] eqn:Ec; [cbn [fst snd]; right; left; exact Ec|].
    destruct (hs_acc (w_hs w7)) as [[idx out]|] eqn:Ea.
    + cbn [fst snd]. right. right.
      destruct H7 as (pre & Hk & _ & _ & _ & Ha). destruct (Ha idx out Ea) as [[q Hq] Hwhy].
      assert (E : tr_ext w7 (refresh_bg (cancel_others (clear_acc w7) (started ++ [(length (w_copies w), length (w_scopes w))]) 0 idx))).
      { eapply ext_trans; [|apply ext_refresh_bg]. eapply ext_trans; [|apply ext_cancel_others]. apply ext_frame. reflexivity. }
      destruct E as [p Hp]. exists (p ++ pre), out, q. repeat split.
      * rewrite Hp, Hk, app_assoc. reflexivity.
      * apply in_or_app. right. exact Hq.
      * destruct Hwhy as [Hab|Hn]; [left; exact Hab|right; rewrite cntE_app; lia].
    + match goal with |- context [if ?c then Some _ else None] => destruct c end; [|cbn [fst snd]; left; reflexivity].
      specialize (IH c (S k) (started ++ [(length (w_copies w), length (w_scopes w))]) w7 H7).
      destruct (hedge_loop fuel cfg pos total c (S k) _ w7) as [[r8 w8] ts]. cbn [fst snd] in *. exact IH.
Qed.

(* C09, in any stack: the caller of the hedge layer receives a result actually produced by one of the attempts ...
   one matching the cancel conditions, or else one taken only after maxHedges+1 attempts have returned *)
Theorem hedge_layer_winner pos total cfg c w :
  let r := fst (hedge_layer pos total cfg c w) in
  let w' := snd (hedge_layer pos total cfg c w) in
  w_oof w' = true
  \/ is_canceled w' c = Some r
  \/ exists pre o q, keys w' = pre ++ keys w /\ r = all_true o /\ In (KFnEnd, q, o) pre
       /\ (is_abortable (hg_cancel cfg) o = true \/ (S (hg_max cfg) <= cntE pre)%nat).
Proof.
  cbv zeta. unfold hedge_layer.
  match goal with |- context [hedge_loop ?f cfg pos total c 0 [] ?w0] =>
    pose proof (hedge_loop_winner cfg pos total (keys w) f c 0%nat [] w0) as Hw end.
  apply Hw. exists []. cbn [w_hs set_hedge hs_cond hs_max hs_count hs_acc cntE filter length app].
  repeat split; try reflexivity; try lia. all: discriminate.
Qed.
