(* Proofs/ExecStats.v — C17 / C16: the counters every observer reads are exact, at every observation
   point of every execution through any stack (induction over the stack, arbitrary scripts). *)
From FS Require Import Model.Exec Proofs.ExecProofs.
From Coq Require Import ZifyBool.

Definition kind_eq (k1 k2 : evk) : bool :=
  match k1, k2 with
  | KRetry, KRetry | KFnEnd, KFnEnd | KHedge, KHedge => true
  | _, _ => false
  end.
Definition is_kind (k : evk) (e : event) : bool := kind_eq k (e_kind e).

Definition cntk (k : evk) (tr : list event) : Z := Z.of_nat (length (filter (is_kind k) tr)).

(* what every event of a trace (newest first) must say *)
Fixpoint trace_ok (tr : list event) : Prop :=
  match tr with
  | [] => True
  | e :: rest =>
      e_attempts e = 1 + e_retries e + e_hedges e /\ e_retries e = cntk KRetry (e :: rest) /\ e_hedges e = cntk KHedge (e :: rest)
      /\ e_executions e = cntk KFnEnd (e :: rest)
      /\ (match rest with e' :: _ => e_time e' <= e_time e | [] => True end)
      /\ trace_ok rest
  end.

Record Tr (w : world) : Prop := {
  tr_att : w_attempts w = 1 + w_retries w + w_hedges w;
  tr_ret : w_retries w = cntk KRetry (w_trace w);
  tr_hed : w_hedges w = cntk KHedge (w_trace w);
  tr_exe : w_executions w = cntk KFnEnd (w_trace w);
  tr_time : match w_trace w with e :: _ => e_time e <= w_now w | [] => True end;
  tr_ok : trace_ok (w_trace w) }.

Definition plain_kind (k : evk) : bool := match k with KRetry | KFnEnd | KHedge => false | _ => true end.
Definition bump (k1 k : evk) : Z := if kind_eq k1 k then 1 else 0.

Lemma cntk_cons k e tr : cntk k (e :: tr) = bump k (e_kind e) + cntk k tr.
Proof. unfold cntk, bump, is_kind. cbn [filter]. destruct (kind_eq k (e_kind e)); cbn [length]; lia. Qed.

(* emitting an event after the counters were moved the way this kind of event requires *)
Lemma Tr_emit_gen w w' k pos o aux :
  Tr w -> w_trace w' = w_trace w -> w_now w <= w_now w' ->
  w_retries w' = w_retries w + bump KRetry k -> w_hedges w' = w_hedges w + bump KHedge k ->
  w_executions w' = w_executions w + bump KFnEnd k ->
  w_attempts w' = w_attempts w + bump KRetry k + bump KHedge k ->
  Tr (emit w' k pos o aux).
Proof.
  intros [Ha Hr Hh He Ht Hok] Etr Enow Er Eh Ex Eatt.
  constructor; unfold emit; cbn [w_attempts w_retries w_hedges w_executions w_trace w_now set_trace]; rewrite ?Etr.
  - lia.
  - rewrite cntk_cons. cbn [e_kind]. lia.
  - rewrite cntk_cons. cbn [e_kind]. lia.
  - rewrite cntk_cons. cbn [e_kind]. lia.
  - cbn [e_time]. lia.
  - cbn [trace_ok e_attempts e_retries e_hedges e_executions e_time].
    repeat split; try assumption; rewrite ?cntk_cons; cbn [e_kind]; try lia.
    destruct (w_trace w); [exact I|lia].
Qed.

Lemma Tr_emit w k pos o aux : plain_kind k = true -> Tr w -> Tr (emit w k pos o aux).
Proof.
  intros Hk H. apply (Tr_emit_gen w); try reflexivity; try exact H; try lia;
    unfold bump; destruct k; cbn in *; try discriminate; lia.
Qed.

(* reading the AttemptStartTime into the newest event changes nothing the invariant speaks about *)
Lemma Tr_stamp w c : Tr w -> Tr (stamp w c).
Proof.
  intros [Ha Hr Hh He Ht Hok]. unfold stamp. destruct (w_trace w) as [|e t] eqn:E; [constructor; rewrite ?E; assumption|].
  constructor; cbn [w_attempts w_retries w_hedges w_executions w_trace w_now set_trace]; try assumption.
  - rewrite Hr. rewrite !cntk_cons. reflexivity.
  - rewrite Hh. rewrite !cntk_cons. reflexivity.
  - rewrite He. rewrite !cntk_cons. reflexivity.
  - cbn [trace_ok] in *. cbn [e_attempts e_retries e_hedges e_executions e_time]. rewrite !cntk_cons in *. cbn [e_kind]. exact Hok.
Qed.

(* updates that touch neither counters, trace nor clock *)
Lemma Tr_frame w w' :
  w_attempts w' = w_attempts w -> w_retries w' = w_retries w -> w_executions w' = w_executions w ->
  w_hedges w' = w_hedges w ->
  w_trace w' = w_trace w -> w_now w <= w_now w' -> Tr w -> Tr w'.
Proof.
  intros E1 E2 E3 Eh E4 E5 [Ha Hr Hh He Ht Hok]. constructor; rewrite ?E1, ?E2, ?E3, ?Eh, ?E4; try assumption.
  destruct (w_trace w); [exact I|lia].
Qed.

Ltac tr_frame H := apply (Tr_frame _ _); try reflexivity; try (cbn; lia); try exact H.

Lemma Tr_ev_with_result w c k pos r : plain_kind k = true -> Tr w -> Tr (ev_with_result w c k pos r).
Proof. intros. unfold ev_with_result. apply Tr_stamp; apply Tr_emit; assumption. Qed.

Lemma Tr_mark_done w s e : Tr w -> Tr (mark_done w s e).
Proof. intros H. unfold mark_done. destruct (sc_done (get_scope w s)); [exact H|]. apply (Tr_frame w); try reflexivity; try (cbn; lia); try exact H. Qed.

Lemma Tr_fire_timeout w s : Tr w -> Tr (fire_timeout w s).
Proof.
  intros H. unfold fire_timeout.
  set (w1 := set_scopes w _ _ _).
  assert (H1 : Tr w1) by (apply (Tr_frame w); try reflexivity; try (cbn; lia); try exact H).
  set (w2 := emit w1 KTimeoutExceeded _ _ _).
  assert (H2 : Tr w2) by (try apply Tr_stamp; apply Tr_emit; [reflexivity|exact H1]).
  destruct (copy_err w2 _); [exact H2|].
  apply Tr_mark_done. apply (Tr_frame w2); try reflexivity; try (cbn; lia); try exact H2.
Qed.

Lemma Tr_fire_ext w e : Tr w -> Tr (fire_ext w e).
Proof.
  intros H. unfold fire_ext.
  assert (H0 : Tr (set_scopes w (w_scopes w) (w_seq w) None)) by (apply (Tr_frame w); try reflexivity; try (cbn; lia); exact H).
  destruct e; try (apply Tr_mark_done; exact H0).
  destruct (copy_err _ 0%nat); [exact H0|].
  apply Tr_mark_done. apply (Tr_frame (set_scopes w (w_scopes w) (w_seq w) None)); try reflexivity; try (cbn; lia); exact H0.
Qed.

Lemma Tr_set_now w t : Tr w -> Tr (set_now w (Z.max (w_now w) t)).
Proof. intros H. apply (Tr_frame w); try reflexivity; try (cbn; lia); try exact H. Qed.

Lemma Tr_set_oof w : Tr w -> Tr (set_oof w).
Proof. intros H. apply (Tr_frame w); try reflexivity; try (cbn; lia); try exact H. Qed.

Lemma Tr_settle w t : Tr w -> Tr (settle w t).
Proof. intros H. destruct t; [apply Tr_set_now|]; exact H. Qed.

Lemma Tr_set_hedge_same w bg hs : Tr w -> Tr (set_hedge w (w_hedges w) bg hs).
Proof. intros H. apply (Tr_frame w); try reflexivity; try (cbn; lia); exact H. Qed.

(* the function returns: Executions +1, then the exit event *)
Lemma Tr_fn_end w pos o : Tr w -> Tr (emit (set_counters w (w_attempts w) (w_retries w) (w_executions w + 1)) KFnEnd pos o 0).
Proof. intros H. apply (Tr_emit_gen w); try reflexivity; try exact H; cbn; lia. Qed.

Lemma Tr_finish_bg w b : Tr w -> Tr (finish_bg w b).
Proof.
  intros H. unfold finish_bg.
  set (w1 := set_hedge w (w_hedges w) _ (w_hs w)). assert (H1 : Tr w1) by (apply Tr_set_hedge_same, H).
  pose proof (Tr_stamp _ (bg_copy b) (Tr_fn_end w1 (bg_pos b) (bg_out b) H1)) as H3.
  match goal with |- context [if ?c then _ else _] => destruct c end; [|exact H3].
  eapply Tr_frame; [..|exact H3]; try reflexivity; cbn; lia.
Qed.

Lemma Tr_refresh_bg w : Tr w -> Tr (refresh_bg w).
Proof.
  intros H. unfold refresh_bg. match goal with |- context [if ?c then _ else _] => destruct c end.
  - apply Tr_set_oof, Tr_set_hedge_same, H.
  - apply Tr_set_hedge_same, H.
Qed.

Lemma Tr_advance fuel : forall w t intr acc, Tr w -> Tr (snd (advance fuel w t intr acc)).
Proof.
  induction fuel as [|fuel IH]; intros w t intr acc H; cbn [advance].
  - destruct (match intr with Some c => _ | None => false end); cbn [snd]; [exact H|].
    destruct (acc && _); cbn [snd]; [exact H|apply Tr_settle; exact H].
  - destruct (match intr with Some c => _ | None => false end); cbn [snd]; [exact H|].
    destruct (acc && _); cbn [snd]; [exact H|].
    match goal with |- context [if ?c then _ else _] => destruct c end.
    + destruct (bg_earliest (w_bg w)) as [b|]; [|apply Tr_settle; exact H].
      destruct (due (bg_finish b) t); [|apply Tr_settle; exact H].
      apply IH. apply Tr_finish_bg. apply Tr_set_now.
      match goal with |- context [if ?c then _ else _] => destruct c end; [apply Tr_set_oof|]; exact H.
    + destruct (next_timer w) as [[tt src]|]; [|apply Tr_settle; exact H].
      destruct (due tt t); [|apply Tr_settle; exact H].
      apply IH. apply Tr_refresh_bg.
      match goal with |- context [set_now (if ?c then set_oof w else w) _] => set (w0 := if c then set_oof w else w) end.
      assert (H0 : Tr w0) by (subst w0; match goal with |- context [if ?c then _ else _] => destruct c end; [apply Tr_set_oof|]; exact H).
      assert (H1 : Tr (set_now w0 (Z.max (w_now w0) tt))) by (apply Tr_set_now; exact H0).
      destruct src as [s|]; [apply Tr_fire_timeout; exact H1|].
      destruct (w_ext w) as [[? e]|]; [apply Tr_fire_ext|]; exact H1.
Qed.

Lemma Tr_wait w d intr : Tr w -> Tr (snd (wait w d intr)).
Proof. apply Tr_advance. Qed.

Definition preserves (l : layer) : Prop := forall c w, Tr w -> Tr (snd (l c w)).

Lemma fn_layer_preserves pos : preserves (fn_layer pos).
Proof.
  intros c w H. unfold fn_layer.
  set (w0 := set_script w _).
  assert (H0 : Tr w0) by (apply (Tr_frame w); try reflexivity; try (cbn; lia); try exact H).
  set (w1 := stamp (emit w0 KFnStart pos _ 0) c).
  assert (H1 : Tr w1) by (apply Tr_stamp; apply Tr_emit; [reflexivity|exact H0]).
  destruct (fs_coop _) as [co|].
  - match goal with |- context [wait w1 ?d ?i] => pose proof (Tr_wait w1 d i H1) as Hw; destruct (wait w1 d i) as [ii w'] end.
    cbn [snd] in *. destruct ii.
    + match goal with |- context [wait w' ?d ?i] => pose proof (Tr_wait w' d i Hw) as Hw2; destruct (wait w' d i) as [jj w''] end.
      cbn [snd] in *. apply Tr_stamp, Tr_fn_end. exact Hw2.
    + cbn [snd]. apply Tr_stamp, Tr_fn_end. exact Hw.
  - match goal with |- context [wait w1 ?d ?i] => pose proof (Tr_wait w1 d i H1) as Hw; destruct (wait w1 d i) as [ii w'] end.
    cbn [snd] in *. apply Tr_stamp, Tr_fn_end. exact Hw.
Qed.


Lemma Tr_emit_bevents pos evs : forall w, Tr w -> Tr (emit_bevents w pos evs).
Proof.
  unfold emit_bevents. induction evs as [|e evs IH]; intros w H; cbn [fold_left]; [exact H|].
  apply IH. try apply Tr_stamp; apply Tr_emit; [reflexivity|exact H].
Qed.

Lemma Tr_set_insts w b l k c : Tr w -> Tr (set_insts w b l k c).
Proof. intros H. apply (Tr_frame w); try reflexivity; try (cbn; lia); exact H. Qed.
Lemma Tr_set_copies w c : Tr w -> Tr (set_copies w c).
Proof. intros H. apply (Tr_frame w); try reflexivity; try (cbn; lia); exact H. Qed.
Lemma Tr_set_scopes w s q e : Tr w -> Tr (set_scopes w s q e).
Proof. intros H. apply (Tr_frame w); try reflexivity; try (cbn; lia); exact H. Qed.
Lemma Tr_set_cell w c : Tr w -> Tr (set_cell w c).
Proof. intros H. apply (Tr_frame w); try reflexivity; try (cbn; lia); exact H. Qed.
Lemma Tr_set_retry w r : Tr w -> Tr (set_retry w r).
Proof. intros H. apply (Tr_frame w); try reflexivity; try (cbn; lia); exact H. Qed.
Lemma Tr_set_copy_last w c o : Tr w -> Tr (set_copy_last w c o).
Proof. intros H. unfold set_copy_last. apply Tr_set_copies. exact H. Qed.

Lemma breaker_layer_preserves pos inst inner : preserves inner -> preserves (breaker_layer pos inst inner).
Proof.
  intros Hi c w H. unfold breaker_layer. unfold set_breaker.
  destruct (nth inst (w_breakers w) _) as [cfg s].
  destruct (try_acquire conc_impl cfg s (w_now w)) as [[ok s1] evs].
  assert (H1 : Tr (emit_bevents (set_insts w (upd inst (fun p => (fst p, s1)) (w_breakers w)) (w_limiters w) (w_bulkheads w) (w_caches w)) pos evs))
    by (apply Tr_emit_bevents, Tr_set_insts, H).
  destruct ok; cbn [negb]; [|exact H1].
  specialize (Hi c _ H1). destruct (inner c _) as [r w2]. cbn [snd] in Hi.
  destruct (nth inst (w_breakers w2) _) as [cfg2 s2].
  destruct (is_failure (b_fpol cfg) (pr_out r)).
  - destruct (record conc_impl cfg s2 _ false _) as [s3 evs']. cbn [snd].
    apply Tr_emit_bevents, Tr_set_insts, Tr_ev_with_result; [reflexivity|exact Hi].
  - destruct (record conc_impl cfg s2 _ true _) as [s3 evs']. cbn [snd].
    apply Tr_emit_bevents, Tr_set_insts, Tr_ev_with_result; [reflexivity|exact Hi].
Qed.

Lemma limiter_layer_preserves pos inst mw inner : preserves inner -> preserves (limiter_layer pos inst mw inner).
Proof.
  intros Hi c w H. unfold limiter_layer, limiter_layer_gen.
  destruct (nth inst (w_limiters w) _) as [[cfg base] s].
  destruct (lim_acquire cfg s (w_now w - base) 1 mw) as [wt s'].
  set (w1 := set_insts w _ _ _ _). assert (H1 : Tr w1) by (apply Tr_set_insts, H).
  destruct (wt =? -1); [cbn [snd]; try apply Tr_stamp; apply Tr_emit; [reflexivity|exact H1]|].
  pose proof (Tr_wait w1 wt (Some c) H1) as Hw. destruct (wait w1 wt (Some c)) as [i w2]. cbn [snd] in Hw.
  destruct i; [exact Hw|apply Hi; exact Hw].
Qed.

Lemma bulkhead_layer_preserves pos inst mw inner : preserves inner -> preserves (bulkhead_layer pos inst mw inner).
Proof.
  intros Hi c w H. unfold bulkhead_layer.
  destruct (nth inst (w_bulkheads w) (0, 0)) as [cap held].
  destruct (copy_err w c); [exact H|].
  destruct (held <? cap).
  - match goal with |- context [inner c ?w1] => assert (H1 : Tr w1) by (apply Tr_set_insts, H); specialize (Hi c w1 H1); destruct (inner c w1) as [r w2] end.
    cbn [snd] in Hi. destruct (nth inst (w_bulkheads w2) (0, 0)) as [cap2 held2]. cbn [snd]. apply Tr_set_insts, Hi.
  - destruct (mw =? 0); [cbn [snd]; try apply Tr_stamp; apply Tr_emit; [reflexivity|exact H]|].
    pose proof (Tr_wait w mw (Some c) H) as Hw. destruct (wait w mw (Some c)) as [i w1]. cbn [snd] in Hw.
    destruct i; [exact Hw|cbn [snd]; try apply Tr_stamp; apply Tr_emit; [reflexivity|exact Hw]].
Qed.

Lemma timeout_layer_preserves pos limit inner : preserves inner -> preserves (timeout_layer pos limit inner).
Proof.
  intros Hi c w H. unfold timeout_layer.
  match goal with |- context [inner ?c' ?w2] =>
    assert (H2 : Tr w2) by (apply Tr_set_copies, Tr_set_scopes, H); specialize (Hi c' w2 H2); destruct (inner c' w2) as [r w3] end.
  cbn [snd] in *. apply Tr_set_scopes, Hi.
Qed.

Lemma Tr_pause w d : Tr w -> Tr (pause w d).
Proof. intros H. unfold pause. destruct (0 <? d); [apply Tr_wait, H|exact H]. Qed.

Lemma fallback_layer_preserves pos cfg inner : preserves inner -> preserves (fallback_layer pos cfg inner).
Proof.
  intros Hi c w H. unfold fallback_layer. specialize (Hi c w H). destruct (inner c w) as [r w1]. cbn [snd] in Hi.
  destruct (is_failure (fb_fpol cfg) (pr_out r)).
  - set (w2 := pause (ev_with_result w1 c KPolFailure pos _) _).
    assert (H2 : Tr w2) by (apply Tr_pause, Tr_ev_with_result; [reflexivity|exact Hi]).
    cbn [pr_succ with_failure]. destruct (is_canceled w2 c); [exact H2|].
    set (w3 := pause w2 _). assert (H3 : Tr w3) by (apply Tr_pause, H2).
    destruct (is_canceled w3 c); [exact H3|].
    cbn [snd]. try apply Tr_stamp; apply Tr_emit; [reflexivity|exact H3].
  - cbn [pr_succ with_done]. cbn [snd]. apply Tr_ev_with_result; [reflexivity|exact Hi].
Qed.

Lemma cache_layer_preserves pos inst cfg inner : preserves inner -> preserves (cache_layer pos inst cfg inner).
Proof.
  intros Hi c w H. unfold cache_layer.
  destruct (if cache_key w cfg =? 0 then None else _) as [v|].
  - cbn [snd]. try apply Tr_stamp; apply Tr_emit; [reflexivity|exact H].
  - match goal with |- context [inner c ?w1] => assert (H1 : Tr w1) by (try apply Tr_stamp; apply Tr_emit; [reflexivity|exact H]); specialize (Hi c w1 H1); destruct (inner c w1) as [r w2] end.
    cbn [snd] in Hi. destruct (_ && _); cbn [snd]; [|exact Hi].
    apply Tr_ev_with_result; [reflexivity|]. apply Tr_set_insts, Hi.
Qed.

Lemma put_rstate_Tr w pos r : Tr w -> Tr (put_rstate w pos r).
Proof. intros H. unfold put_rstate. apply Tr_set_retry, H. Qed.

Lemma retry_on_failure_Tr cfg pos c r w : Tr w -> Tr (snd (retry_on_failure cfg pos c r w)).
Proof.
  intros H. unfold retry_on_failure.
  set (w0 := pause (ev_with_result w c KPolFailure pos r) (r_lsn_dur cfg)).
  assert (H0 : Tr w0) by (apply Tr_pause, Tr_ev_with_result; [reflexivity|exact H]).
  set (w1 := put_rstate w0 pos _). assert (H1 : Tr w1) by (apply put_rstate_Tr, H0).
  set (ab := is_abortable (r_abort cfg) (pr_out r)).
  set (w2 := if ab then ev_with_result w1 c KAbort pos r else w1).
  assert (H2 : Tr w2) by (subst w2; destruct ab; [apply Tr_ev_with_result; [reflexivity|exact H1]|exact H1]).
  destruct (_ || _); [|exact H2].
  set (w3 := if negb ab then ev_with_result w2 c KRetriesExceeded pos r else w2).
  assert (H3 : Tr w3) by (subst w3; destruct (negb ab); [apply Tr_ev_with_result; [reflexivity|exact H2]|exact H2]).
  destruct (negb (r_return_last cfg)); exact H3.
Qed.

Lemma retry_loop_preserves cfg pos inner : preserves inner ->
  forall fuel c w, Tr w -> Tr (snd (fst (retry_loop fuel cfg pos inner c w))).
Proof.
  intros Hi. induction fuel as [|fuel IH]; intros c w H; cbn [retry_loop].
  - cbn. apply Tr_set_oof, H.
  - pose proof (Hi c w H) as H1. destruct (inner c w) as [r w1]. cbn [snd] in H1.
    destruct (is_canceled w1 c); [exact H1|].
    destruct (rs_exceeded (get_rstate w1 pos)); [exact H1|].
    assert (H2 : Tr (snd (if is_failure (r_fpol cfg) (pr_out r) then retry_on_failure cfg pos c (with_failure r) w1
                          else (with_done r true true, ev_with_result w1 c KPolSuccess pos (with_done r true true))))).
    { destruct (is_failure _ _); [apply retry_on_failure_Tr, H1|cbn [snd]; apply Tr_ev_with_result; [reflexivity|exact H1]]. }
    destruct (if is_failure (r_fpol cfg) (pr_out r) then _ else _) as [r2 w2]. cbn [snd] in H2.
    destruct (pr_done r2); [exact H2|].
    destruct (is_canceled w2 c); [exact H2|].
    set (w3 := set_copy_last w2 c (pr_out r2)). assert (H3 : Tr w3) by (apply Tr_set_copy_last, H2).
    set (w4 := stamp (emit w3 KRetryScheduled pos _ _) c). assert (H4 : Tr w4) by (apply Tr_stamp; apply Tr_emit; [reflexivity|exact H3]).
    pose proof (Tr_wait w4 (retry_delay cfg w3) (Some c) H4) as H5. destruct (wait w4 _ (Some c)) as [ii w5]. cbn [snd] in H5.
    destruct (is_canceled w5 c); [exact H5|].
    (* InitializeRetry: attempts and retries +1, then the retry event *)
    match goal with |- context [retry_loop fuel cfg pos inner c ?w9] => assert (H9 : Tr w9) end.
    { unfold ev_with_result. apply Tr_stamp. apply (Tr_emit_gen w5); try reflexivity; try exact H5; cbn; lia. }
    specialize (IH c _ H9). destruct (retry_loop fuel cfg pos inner c _) as [[rr ww] n]. exact IH.
Qed.

Lemma Tr_cancel_copy w cs : Tr w -> Tr (cancel_copy w cs).
Proof. intros H. unfold cancel_copy. destruct (copy_err w (fst cs)); [exact H|]. apply Tr_mark_done, Tr_set_cell, H. Qed.

Lemma Tr_cancel_others started : forall w i winner, Tr w -> Tr (cancel_others w started i winner).
Proof.
  induction started as [|cs rest IH]; intros w i winner H; cbn [cancel_others]; [exact H|].
  apply IH. destruct (Nat.eqb i winner); [exact H|apply Tr_cancel_copy, H].
Qed.

(* a hedged run: Attempts and Hedges +1 with each hedge started, Executions +1 with each attempt that returns,
   whether or not the hedge layer is still waiting for it *)
Lemma Tr_hedge_start pos total c k w : Tr w -> Tr (hedge_start pos total c k w).
Proof.
  intros H. unfold hedge_start.
  set (w1 := set_scopes w _ _ _). assert (H1 : Tr w1) by (apply Tr_set_scopes, H).
  set (w2 := set_copies w1 _). assert (H2 : Tr w2) by (apply Tr_set_copies, H1).
  match goal with |- context [set_script ?w3 _] => set (w3' := w3) end.
  assert (H3 : Tr w3').
  { subst w3'. destruct k as [|k']; [exact H2|].
    apply Tr_stamp. apply (Tr_emit_gen w2); try reflexivity; try exact H2; cbn; lia. }
  set (w4 := set_script w3' _). assert (H4 : Tr w4) by (apply (Tr_frame w3'); try reflexivity; try (cbn; lia); exact H3).
  set (w5 := stamp (emit w4 KFnStart total _ _) _). assert (H5 : Tr w5) by (apply Tr_stamp; apply Tr_emit; [reflexivity|exact H4]).
  apply Tr_refresh_bg, Tr_set_hedge_same, H5.
Qed.

Lemma hedge_loop_preserves cfg pos total : forall fuel c k started w, Tr w -> Tr (snd (fst (hedge_loop fuel cfg pos total c k started w))).
Proof.
  induction fuel as [|fuel IH]; intros c k started w H; cbn [hedge_loop].
  - cbn [snd fst]. apply Tr_set_oof, H.
  - pose proof (Tr_hedge_start pos total c k w H) as H6. set (w6 := hedge_start pos total c k w) in *.
    match goal with |- context [advance ?f w6 ?t ?i ?a] => pose proof (Tr_advance f w6 t i a H6) as H7; destruct (advance f w6 t i a) as [ii w7] end.
    cbn [snd] in H7.
    destruct (is_canceled w7 c); [exact H7|].
    destruct (hs_acc (w_hs w7)) as [[idx out]|].
    + cbn [snd fst]. apply Tr_refresh_bg, Tr_cancel_others. unfold clear_acc. apply Tr_set_hedge_same, H7.
    + match goal with |- context [if ?c then Some _ else None] => destruct c end; [|cbn [snd fst]; apply Tr_set_oof, H7].
      specialize (IH c (S k) (started ++ [(length (w_copies w), length (w_scopes w))]) w7 H7).
      destruct (hedge_loop fuel cfg pos total c (S k) _ w7) as [[r8 w8] ts]. exact IH.
Qed.

Lemma hedge_layer_preserves pos total cfg : preserves (hedge_layer pos total cfg).
Proof. intros c w H. unfold hedge_layer. apply (hedge_loop_preserves cfg pos total). apply Tr_set_hedge_same, H. Qed.

Theorem compose_preserves fuel stack : forall pos total, preserves (compose fuel pos stack total).
Proof.
  induction stack as [|p rest IH]; intros pos total; cbn [compose].
  - apply fn_layer_preserves.
  - specialize (IH (S pos) total). destruct p as [rc|bi|li lmw|ki kmw|lim|fc|ci cc|hc]; cbn [apply_policy].
    + intros c w H. apply (retry_loop_preserves rc pos _ IH fuel c w H).
    + apply breaker_layer_preserves, IH.
    + apply limiter_layer_preserves, IH.
    + apply bulkhead_layer_preserves, IH.
    + apply timeout_layer_preserves, IH.
    + apply fallback_layer_preserves, IH.
    + apply cache_layer_preserves, IH.
    + apply hedge_layer_preserves.
Qed.

Lemma fresh_world_Tr now ext key b l k c script : Tr (fresh_world now ext key b l k c script).
Proof.
  assert (H0 : Tr (fresh_world0 now ext key b l k c script)) by (constructor; cbn; try reflexivity; exact I).
  unfold fresh_world. destruct ext as [[t e]|]; [|exact H0]. destruct (t <=? now); [apply Tr_fire_ext|]; exact H0.
Qed.

Lemma Tr_execute fuel stack w : Tr w -> Tr (snd (execute fuel stack w)).
Proof.
  intros H0. unfold execute.
  pose proof (compose_preserves fuel stack 0 (length stack) 0%nat _ H0) as H.
  destruct (compose fuel 0 stack (length stack) 0%nat _) as [r w1]. cbn [snd] in *.
  try apply Tr_stamp; apply Tr_emit; [reflexivity|]. destruct (pr_all r); try apply Tr_stamp; apply Tr_emit; try reflexivity; exact H.
Qed.

Lemma Tr_drain w : Tr w -> Tr (drain w).
Proof. intros H. unfold drain. destruct (w_bg w); [exact H|]. apply Tr_advance, Tr_set_scopes, H. Qed.

(* C17: in the complete log of any execution through any stack (a hedge policy, if any, innermost), with any script --
   including what hedge attempts still running when the execution returns log afterwards -- every event (function
   entry and exit, every listener, the completion events) reports Attempts = 1 + Retries + Hedges, Retries = number
   of retries started so far, Hedges = number of hedges started so far, Executions = number of function
   invocations completed so far, and time stamps never decrease. *)
Theorem execution_statistics_exact fuel stack now ext key b l k c script :
  trace_ok (w_trace (drain (snd (execute fuel stack (fresh_world now ext key b l k c script))))).
Proof. apply tr_ok, Tr_drain, Tr_execute, fresh_world_Tr. Qed.
