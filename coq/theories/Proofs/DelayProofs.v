(* Proofs/DelayProofs.v — C13: the delay a retry policy schedules stays inside its envelope *)
From FS Require Import Model.Delay.
From Coq Require Import ZifyBool.

(* every scheduled delay is non-negative, whatever the configuration, the draws and the delay function return *)
Theorem delay_nonneg c last retries elapsed computed d1 d2 d3 :
  0 <= fst (get_delay c last retries elapsed computed d1 d2 d3).
Proof.
  unfold get_delay. destruct (if negb (computed =? -1) then _ else _) as [d l']. cbn [fst].
  unfold adjust_for_max_duration. lia.
Qed.

(* ... and never extends past the remaining max duration *)
Theorem delay_within_max_duration c last retries elapsed computed d1 d2 d3 :
  d_max_duration c <> 0 ->
  fst (get_delay c last retries elapsed computed d1 d2 d3) <= Z.max 0 (d_max_duration c - elapsed).
Proof.
  intros H. unfold get_delay. destruct (if negb (computed =? -1) then _ else _) as [d l']. cbn [fst].
  unfold adjust_for_max_duration. destruct (d_max_duration c =? 0) eqn:E; [lia|]. cbn [negb]. lia.
Qed.

(* the fixed delay, exactly (no backoff, no jitter, no max duration) *)
Theorem fixed_delay_exact c last retries elapsed d1 d2 d3 :
  d_delay c <> 0 -> 0 <= d_delay c -> d_max_delay c = 0 -> d_jitter c = 0 -> fst (d_jitter_factor c) = 0 -> d_max_duration c = 0 ->
  get_delay c last retries elapsed (-1) d1 d2 d3 = (d_delay c, d_delay c).
Proof.
  intros H0 Hp H1 H2 H3 H4. unfold get_delay, fixed_or_random, adjust_for_jitter, adjust_for_max_duration.
  rewrite H1, H2, H3, H4. change (0 =? 0) with true. change (-1 =? -1) with true. cbn [negb andb].
  destruct (d_delay c =? 0) eqn:E; [lia|]. cbn [negb].
  rewrite !andb_false_r. rewrite E. cbn [negb]. f_equal. lia.
Qed.

(* the delay function's value is used when it returns one (then jitter and the max-duration clamp apply) *)
Theorem delay_func_value_used c last retries elapsed v d1 d2 d3 :
  v <> -1 -> d_jitter c = 0 -> fst (d_jitter_factor c) = 0 -> d_max_duration c = 0 ->
  get_delay c last retries elapsed v d1 d2 d3 = (Z.max 0 v, last).
Proof.
  intros Hv H2 H3 H4. unfold get_delay, adjust_for_jitter, adjust_for_max_duration. rewrite H2, H3, H4.
  change (0 =? 0) with true. cbn [negb].
  destruct (v =? -1) eqn:E; [lia|]. cbn [negb]. destruct (v =? 0); reflexivity.
Qed.

(* backoff never exceeds maxDelay: every un-jittered backoff value after the first is min(scaled, maxDelay) *)
Theorem backoff_le_max c last retries draw :
  d_delay c <> 0 -> last <> 0 -> 1 <= retries -> d_max_delay c <> 0 ->
  fst (fixed_or_random c last retries draw) <= d_max_delay c
  /\ fst (fixed_or_random c last retries draw) = Z.min (to_int (fmul 24 (of_int 24 last) (d_factor c))) (d_max_delay c).
Proof.
  intros H0 H1 H2 H3. unfold fixed_or_random.
  destruct (d_delay c =? 0) eqn:E0; [lia|]. destruct (last =? 0) eqn:E1; [lia|].
  destruct (d_max_delay c =? 0) eqn:E3; [lia|]. destruct (1 <=? retries) eqn:E2; [|lia]. cbn [negb andb fst]. lia.
Qed.

(* jitter never accumulates: the stored last delay, hence every later backoff value, does not depend on any draw *)
Theorem jitter_does_not_accumulate c last retries elapsed computed d1 d2 d3 e1 e2 e3 :
  d_delay c <> 0 ->
  snd (get_delay c last retries elapsed computed d1 d2 d3) = snd (get_delay c last retries elapsed computed e1 e2 e3).
Proof.
  intros H. unfold get_delay. destruct (negb (computed =? -1)); [reflexivity|].
  unfold fixed_or_random. destruct (d_delay c =? 0) eqn:E; [lia|]. reflexivity.
Qed.

(* the un-jittered backoff sequence of an execution is the iteration of the float32 scaling capped by maxDelay *)
Theorem backoff_sequence c k :
  d_delay c <> 0 -> d_max_delay c <> 0 -> backoff_seq c k <> 0 ->
  backoff_seq c (S k) = Z.min (to_int (fmul 24 (of_int 24 (backoff_seq c k)) (d_factor c))) (d_max_delay c).
Proof.
  intros H0 H1 H2. cbn [backoff_seq]. apply (backoff_le_max c (backoff_seq c k) 1 (0, 1)); try assumption; lia.
Qed.

(* the doubling backoff on exactly representable values is exact: min(delay * 2^k, maxDelay)
   for delays that fit 24 significant bits (e.g. any whole number of milliseconds up to 16 s
   in a power-of-two-friendly unit); checked by the kernel on a grid, a TEST of the model, not a theorem about all inputs *)
Example backoff_doubling_exact_examples :
  map (backoff_seq {| d_delay := 1000000; d_max_delay := 30000000; d_factor := (2, 1); d_min := 0; d_max := 0;
                      d_jitter := 0; d_jitter_factor := (0, 1); d_max_duration := 0 |}) [0; 1; 2; 3; 4; 5; 6]%nat
  = [1000000; 2000000; 4000000; 8000000; 16000000; 30000000; 30000000].
Proof. vm_compute. reflexivity. Qed.
