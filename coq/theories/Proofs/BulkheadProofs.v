(* Proofs/BulkheadProofs.v — C06: never above the limit, never a lost permit, for every interleaving *)
From FS Require Import Model.Bulkhead.
From Coq Require Import ZifyBool.

Definition is_holding (s : kstate) : bool := match s with KHolding => true | _ => false end.
Definition is_waiting (s : kstate) : bool := match s with KWaiting _ => true | _ => false end.
Definition cnt (P : kstate -> bool) (l : list kstate) : Z := Z.of_nat (length (filter P l)).

Lemma cnt_set_k P l i v : (i < length l)%nat ->
  cnt P (set_k i v l) = cnt P l - (if P (nth i l KReleased) then 1 else 0) + (if P v then 1 else 0).
Proof.
  unfold cnt. revert i; induction l as [|x l IH]; intros [|i] H; cbn [length] in H; try lia.
  - cbn [set_k nth filter]. destruct (P x), (P v); cbn [length]; lia.
  - cbn [set_k nth filter]. specialize (IH i ltac:(lia)). destruct (P x); cbn [length]; lia.
Qed.

Lemma cnt_nonneg P l : 0 <= cnt P l. Proof. unfold cnt. lia. Qed.

Lemma nth_range {A} (l : list A) i d x : nth i l d = x -> x <> d -> (i < length l)%nat.
Proof. intros H Hne. destruct (Nat.lt_ge_cases i (length l)) as [Hl|Hg]; [exact Hl|]. rewrite nth_overflow in H by lia. congruence. Qed.

Lemma NoDup_snoc {A} (l : list A) x : NoDup l -> ~ In x l -> NoDup (l ++ [x]).
Proof.
  induction l as [|y l IH]; intros Hn Hx; cbn [app]; [constructor; [intros []|constructor]|].
  inversion Hn as [|? ? Hy Hn']; subst. constructor.
  - intros Hin. apply in_app_or in Hin. destruct Hin as [Hin|[E|[]]]; [contradiction|]. apply Hx. left. symmetry. exact E.
  - apply IH; [exact Hn'|]. intros Hin. apply Hx. right. exact Hin.
Qed.

Lemma set_k_length l i v : length (set_k i v l) = length l.
Proof. revert i; induction l as [|x l IH]; intros [|i]; cbn; auto. Qed.

Lemma nth_set_k_same l i v : (i < length l)%nat -> nth i (set_k i v l) KReleased = v.
Proof. revert i; induction l as [|x l IH]; intros [|i] H; cbn in *; try lia; auto. apply IH; lia. Qed.

Lemma nth_set_k_other l i j v : i <> j -> nth j (set_k i v l) KReleased = nth j l KReleased.
Proof. revert i j; induction l as [|x l IH]; intros [|i] [|j] H; cbn; try reflexivity; try lia. apply IH; lia. Qed.

(* the invariant: channel occupancy = executions holding a permit + standalone holders, within capacity;
   every queued sender is a waiting execution; permits are only queued for while the bulkhead is full *)
Record KInv (k : bconf) : Prop := {
  ki_held : k_held k = cnt is_holding (k_threads k) + k_ext k;
  ki_cap : k_held k <= k_cap k;
  ki_ext : 0 <= k_ext k;
  ki_q : forall j, In j (k_queue k) -> is_waiting (kget k j) = true;
  ki_nodup : NoDup (k_queue k);
  ki_full : k_queue k <> [] -> k_held k = k_cap k }.

Lemma kinit_inv cap mw now n : 0 <= cap -> KInv (kinit cap mw now n).
Proof.
  intros H. constructor; cbn; try lia; try (intros j []); try constructor; try congruence.
  unfold cnt. induction n; cbn; auto.
Qed.

Lemma expire_holding t l : cnt is_holding (expire t l) = cnt is_holding l.
Proof.
  unfold cnt, expire. induction l as [|x l IH]; cbn [map filter]; [reflexivity|].
  destruct x; cbn [is_holding]; try exact IH; try (cbn [length]; lia).
  destruct (deadline <=? t); cbn [is_holding]; exact IH.
Qed.

Lemma give_back_inv k ts ext :
  k_held k = cnt is_holding ts + ext + 1 -> k_held k <= k_cap k -> 0 <= ext ->
  length ts = length (k_threads k) ->
  (forall j, In j (k_queue k) -> is_waiting (nth j ts KReleased) = true) -> NoDup (k_queue k) ->
  (k_queue k <> [] -> k_held k = k_cap k) ->
  KInv (give_back k ext ts).
Proof.
  intros Hh Hc He Hl Hq Hnd Hf. unfold give_back. destruct (k_queue k) as [|j q'] eqn:Eq.
  - constructor; cbn; try lia; try (intros j []); try constructor; try congruence.
  - assert (Hj : is_waiting (nth j ts KReleased) = true) by (apply Hq; left; reflexivity).
    assert (Hjr : (j < length ts)%nat).
    { destruct (Nat.lt_ge_cases j (length ts)) as [Hlt|Hge]; [exact Hlt|]. rewrite nth_overflow in Hj by lia. discriminate. }
    inversion Hnd as [|? ? Hnotin Hnd']; subst.
    constructor; cbn [k_held k_ext k_threads k_queue k_cap with_threads].
    + rewrite cnt_set_k by exact Hjr. destruct (nth j ts KReleased); cbn in Hj; try discriminate. cbn [is_holding]. lia.
    + lia.
    + lia.
    + intros i Hi. unfold kget. cbn [k_threads with_threads]. rewrite nth_set_k_other; [apply Hq; right; exact Hi|].
      intros ->. contradiction.
    + exact Hnd'.
    + intros _. apply Hf. congruence.
Qed.

Theorem kstep_inv k x : KInv k -> KInv (kstep_do k x).
Proof.
  intros [Hh Hc He Hq Hnd Hf]. destruct x as [i|i|i|dt| |]; cbn [kstep_do].
  - (* enter *)
    destruct (kget k i) eqn:Ei; try (constructor; assumption).
    pose proof (nth_range _ _ _ _ Ei ltac:(discriminate)) as Hi.
    destruct (k_held k <? k_cap k) eqn:Efree.
    + (* phase 1 takes the free permit *)
      assert (Hqe : k_queue k = []) by (destruct (k_queue k); [reflexivity|specialize (Hf ltac:(discriminate)); lia]).
      constructor; cbn [k_held k_ext k_threads k_queue k_cap with_threads].
      * rewrite cnt_set_k by exact Hi. unfold kget in Ei. rewrite Ei. cbn [is_holding]. lia.
      * lia.
      * exact He.
      * rewrite Hqe. intros j [].
      * exact Hnd.
      * rewrite Hqe. congruence.
    + destruct (k_maxwait k <=? 0).
      * constructor; cbn [k_held k_ext k_threads k_queue k_cap with_threads]; try assumption.
        -- rewrite cnt_set_k by exact Hi. unfold kget in Ei. rewrite Ei. cbn [is_holding]. lia.
        -- intros j Hj. unfold kget. cbn [k_threads with_threads]. rewrite nth_set_k_other; [apply Hq; exact Hj|].
           intros ->. specialize (Hq _ Hj). rewrite Ei in Hq. discriminate.
      * constructor; cbn [k_held k_ext k_threads k_queue k_cap with_threads]; try assumption.
        -- rewrite cnt_set_k by exact Hi. unfold kget in Ei. rewrite Ei. cbn [is_holding]. lia.
        -- intros j Hj. apply in_app_or in Hj. unfold kget. cbn [k_threads with_threads]. destruct Hj as [Hj|[<-|[]]].
           ++ rewrite nth_set_k_other; [apply Hq; exact Hj|]. intros ->. specialize (Hq _ Hj). rewrite Ei in Hq. discriminate.
           ++ rewrite nth_set_k_same by exact Hi. reflexivity.
        -- apply NoDup_snoc; [exact Hnd|]. intros Hj. specialize (Hq _ Hj). rewrite Ei in Hq. discriminate.
        -- intros _. lia.
  - (* finish: release *)
    destruct (kget k i) eqn:Ei; try (constructor; assumption).
    pose proof (nth_range _ _ _ _ Ei ltac:(discriminate)) as Hi.
    apply give_back_inv; try assumption.
    + rewrite cnt_set_k by exact Hi. unfold kget in Ei. rewrite Ei. cbn [is_holding]. lia.
    + apply set_k_length.
    + intros j Hj. rewrite nth_set_k_other; [apply Hq; exact Hj|]. intros ->. specialize (Hq _ Hj). rewrite Ei in Hq. discriminate.
  - (* the context of a waiting execution is cancelled *)
    destruct (kget k i) eqn:Ei; try (constructor; assumption).
    pose proof (nth_range _ _ _ _ Ei ltac:(discriminate)) as Hi.
    constructor; cbn [k_held k_ext k_threads k_queue k_cap with_threads]; try assumption.
    + rewrite cnt_set_k by exact Hi. unfold kget in Ei. rewrite Ei. cbn [is_holding]. lia.
    + intros j Hj. unfold remove_nat in Hj. apply filter_In in Hj. destruct Hj as [Hj Hne].
      unfold kget. cbn [k_threads with_threads]. rewrite nth_set_k_other; [apply Hq; exact Hj|]. intros ->. rewrite Nat.eqb_refl in Hne. discriminate.
    + apply NoDup_filter. exact Hnd.
    + intros Hne. apply Hf. intros E. rewrite E in Hne. cbn in Hne. congruence.
  - (* time passes *)
    constructor; cbn [k_held k_ext k_threads k_queue k_cap]; try assumption.
    + rewrite expire_holding. exact Hh.
    + intros j Hj. unfold still_waiting in Hj. apply filter_In in Hj. destruct Hj as [_ Hw]. unfold kget. cbn [k_threads].
      destruct (nth j (expire _ (k_threads k)) KReleased); try discriminate. reflexivity.
    + apply NoDup_filter. exact Hnd.
    + intros Hne. apply Hf. intros E. rewrite E in Hne. cbn in Hne. congruence.
  - (* standalone TryAcquirePermit *)
    destruct (k_held k <? k_cap k) eqn:Efree; [|constructor; assumption].
    assert (Hqe : k_queue k = []) by (destruct (k_queue k); [reflexivity|specialize (Hf ltac:(discriminate)); lia]).
    constructor; cbn [k_held k_ext k_threads k_queue k_cap with_threads]; try assumption; try lia.
    rewrite Hqe. congruence.
  - (* standalone ReleasePermit *)
    destruct (0 <? k_ext k) eqn:E; [|constructor; assumption].
    apply give_back_inv; try assumption; try lia; try reflexivity.
Qed.

Theorem krun_inv tr : forall k, KInv k -> KInv (krun k tr).
Proof. induction tr as [|x tr IH]; intros k H; [exact H|]. cbn [krun fold_left]. apply IH, kstep_inv, H. Qed.

Lemma kstep_cap k x : k_cap (kstep_do k x) = k_cap k.
Proof.
  destruct x as [i|i|i|dt| |]; cbn [kstep_do]; try reflexivity.
  - destruct (kget k i); try reflexivity. destruct (k_held k <? k_cap k); [reflexivity|]. destruct (k_maxwait k <=? 0); reflexivity.
  - destruct (kget k i); try reflexivity. unfold give_back. destruct (k_queue k); reflexivity.
  - destruct (kget k i); reflexivity.
  - destruct (k_held k <? k_cap k); reflexivity.
  - destruct (0 <? k_ext k); [|reflexivity]. unfold give_back. destruct (k_queue k); reflexivity.
Qed.

Lemma krun_cap tr : forall k, k_cap (krun k tr) = k_cap k.
Proof. induction tr as [|x tr IH]; intros k; [reflexivity|]. cbn [krun fold_left]. fold (krun (kstep_do k x) tr). rewrite IH. apply kstep_cap. Qed.

(* C06: at no instant do more executions hold a permit (plus standalone holders) than maxConcurrency *)
Theorem bulkhead_never_exceeds cap mw now n tr : 0 <= cap ->
  let k := krun (kinit cap mw now n) tr in holding k + k_ext k <= cap /\ k_held k = holding k + k_ext k.
Proof.
  intros Hc k. destruct (krun_inv tr _ (kinit_inv cap mw now n Hc)) as [Hh Hcap He _ _ _]. fold k in Hh, Hcap, He.
  assert (Ecap : k_cap k = cap) by (subst k; rewrite krun_cap; reflexivity).
  change (holding k) with (cnt is_holding (k_threads k)). split; lia.
Qed.

(* ... and no permit is ever lost: once no execution holds one and no standalone holder remains, the channel is empty *)
Theorem all_permits_back cap mw now n tr : 0 <= cap ->
  let k := krun (kinit cap mw now n) tr in holding k = 0 -> k_ext k = 0 -> k_held k = 0.
Proof. intros Hc k H1 H2. destruct (bulkhead_never_exceeds cap mw now n tr Hc) as [_ H]. fold k in H. lia. Qed.

(* a free permit is never lost to the max-wait timer: an execution that finds one free takes it (phase 1) *)
Theorem free_permit_is_taken k i : kget k i = KIdle -> k_held k < k_cap k -> kget (kstep_do k (KEnter i)) i = KHolding.
Proof.
  intros Hi Hfree. cbn [kstep_do]. rewrite Hi. destruct (k_held k <? k_cap k) eqn:E; [|lia].
  unfold kget. cbn [k_threads with_threads]. apply nth_set_k_same. apply (nth_range _ _ _ _ Hi). discriminate.
Qed.

(* refused and cancelled executions never return a permit: only a holder's finish gives one back *)
Theorem only_holders_release k i : kget k i <> KHolding -> kstep_do k (KFinish i) = k.
Proof. intros H. cbn [kstep_do]. destruct (kget k i); try reflexivity. contradiction. Qed.
