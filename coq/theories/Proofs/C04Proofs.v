(* Proofs/C04Proofs.v — the snapshot checker of Corr/C04.v is implied by the invariant *)
From FS Require Import Model.BreakerConc Proofs.BreakerProofs Proofs.BreakerConcProofs Corr.C04.
From Coq Require Import ZifyBool.

Lemma filter_tgen g l : 0 <= g ->
  length (filter (fun x => x =? g) (map tgen l)) = length (filter (is_gen g) l).
Proof.
  intros Hg. induction l as [|t l IH]; [reflexivity|]. cbn [map filter].
  destruct t as [| |g'|]; cbn [tgen is_gen]; try (destruct (-1 =? g) eqn:E; [lia|exact IH]).
  destruct (g' =? g); cbn [length]; lia.
Qed.

Lemma existsb_tgen g l : 0 <= g -> cntp (is_gen g) l = 0 -> existsb (fun x => x =? g) (map tgen l) = false.
Proof.
  intros Hg. unfold cntp. induction l as [|t l IH]; intros H; [reflexivity|]. cbn [map existsb filter] in *.
  destruct t as [| |g'|]; cbn [tgen is_gen] in *; try (destruct (-1 =? g) eqn:E; [lia|apply IH; exact H]).
  destruct (g' =? g); cbn [length] in *; [lia|apply IH; exact H].
Qed.

Theorem inv_implies_snap_ok c (k : conf (S := stats)) :
  1 <= halfopen_capacity c -> 0 <= cf_gen k -> Inv c k -> snap_ok (halfopen_capacity c) (snap_of k) = true.
Proof.
  intros Hcap Hg [Hb Hs]. unfold snap_ok, snap_of. cbn [sn_state sn_gen sn_gens].
  destruct (cf_state k) as [st|st a b|st p]; cbn [state_code].
  - reflexivity.
  - cbn. rewrite existsb_tgen; [reflexivity|exact Hg|exact Hs].
  - cbn. rewrite filter_tgen by exact Hg. destruct Hs as [Hp Hsum]. unfold cntp in Hsum. lia.
Qed.

Lemma gen_monotone c (k : conf (S := stats)) st : cf_gen k <= cf_gen (conc_step conc_impl c k st).
Proof.
  destruct st as [i|i v r|dt|tgt]; cbn [conc_step].
  - destruct (nth i (cf_threads k) TDone); try lia.
    destruct (try_acquire conc_impl c (cf_state k) (cf_now k)) as [[ok s'] evs]. cbn [cf_gen]. unfold bump. lia.
  - destruct (nth i (cf_threads k) TDone); try lia.
    destruct (record conc_impl c (cf_state k) (cf_now k) v r) as [s' evs]. cbn [cf_gen]. unfold bump. lia.
  - cbn [cf_gen]. lia.
  - destruct (transition conc_impl c (cf_state k) (cf_now k) tgt (b_delay c)) as [s' evs]. cbn [cf_gen]. unfold bump. lia.
Qed.

(* every snapshot of every interleaving without stale records satisfies the checker *)
Theorem model_snaps_ok c tr : 1 <= halfopen_capacity c ->
  forall k, 0 <= cf_gen k -> Inv c k -> no_stale conc_impl c k tr = true ->
  forallb (snap_ok (halfopen_capacity c)) (model_snaps c k tr) = true.
Proof.
  intros Hcap. induction tr as [|st tr IH]; intros k Hg Hk Hn; [reflexivity|].
  cbn [no_stale] in Hn. apply andb_true_iff in Hn. destruct Hn as [H1 H2].
  cbn [model_snaps forallb].
  assert (Hk' : Inv c (conc_step conc_impl c k st)).
  { apply step_preserves_inv; [exact Hcap|exact Hk|]. destruct (stale_step k st); [discriminate|reflexivity]. }
  pose proof (gen_monotone c k st) as Hm.
  rewrite inv_implies_snap_ok by (try assumption; lia). cbn [andb].
  apply IH; [lia|exact Hk'|exact H2].
Qed.
