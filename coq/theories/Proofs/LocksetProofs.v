(* Proofs/LocksetProofs.v — C14: consistent locking orders every pair of conflicting accesses *)
From FS Require Import Model.Lockset.

(* [has_acq_after t2 m tr]: t2 acquires m somewhere in tr.
   [rel_then_acq t1 t2 m tr]: t1 releases m and, later, t2 acquires it — the unlock/lock pair the Go
   memory model turns into a happens-before edge. *)
Fixpoint has_acq_after (t2 : thread) (m : lock) (tr : list ev) : Prop :=
  match tr with
  | [] => False
  | Acq t m' :: tr' => (t = t2 /\ m' = m) \/ has_acq_after t2 m tr'
  | _ :: tr' => has_acq_after t2 m tr'
  end.

Fixpoint rel_then_acq (t1 t2 : thread) (m : lock) (tr : list ev) : Prop :=
  match tr with
  | [] => False
  | Rel t m' :: tr' => (t = t1 /\ m' = m /\ has_acq_after t2 m tr') \/ rel_then_acq t1 t2 m tr'
  | _ :: tr' => rel_then_acq t1 t2 m tr'
  end.

(* t2 does not hold the guard now, yet accesses x later: it must acquire the guard in between *)
Lemma must_acquire g : forall tr h t2 x w rest,
  h (g x) <> Some t2 -> ok_from g h (tr ++ Acc t2 x w :: rest) -> has_acq_after t2 (g x) tr.
Proof.
  induction tr as [|e tr IH]; intros h t2 x w rest Hh Hok.
  - cbn [app ok_from] in Hok. destruct Hok as [H _]. contradiction.
  - destruct e as [t m|t m|t y wy]; cbn [app ok_from] in Hok; destruct Hok as [Ha Hb]; cbn [has_acq_after].
    + destruct (Nat.eq_dec m (g x)) as [->|Hm].
      * destruct (Nat.eq_dec t t2) as [->|Ht]; [left; auto|]. right.
        refine (IH _ t2 x w rest _ Hb). cbn. rewrite Nat.eqb_refl. congruence.
      * right. refine (IH _ t2 x w rest _ Hb). cbn.
        destruct (Nat.eqb (g x) m) eqn:E; [apply Nat.eqb_eq in E; congruence|exact Hh].
    + refine (IH _ t2 x w rest _ Hb). cbn. destruct (Nat.eqb (g x) m); [discriminate|exact Hh].
    + apply (IH h t2 x w rest); assumption.
Qed.

(* t1 holds the guard now and t2 <> t1 accesses x later: t1 releases it and t2 acquires it in between *)
Lemma held_then_access g : forall tr h t1 t2 x w rest,
  h (g x) = Some t1 -> t1 <> t2 -> ok_from g h (tr ++ Acc t2 x w :: rest) -> rel_then_acq t1 t2 (g x) tr.
Proof.
  induction tr as [|e tr IH]; intros h t1 t2 x w rest Hh Hne Hok.
  - cbn [app ok_from] in Hok. destruct Hok as [H _]. rewrite Hh in H. injection H as ->. contradiction.
  - destruct e as [t m|t m|t y wy]; cbn [app ok_from] in Hok; destruct Hok as [Ha Hb]; cbn [rel_then_acq].
    + refine (IH _ t1 t2 x w rest _ Hne Hb). cbn.
      destruct (Nat.eqb (g x) m) eqn:E; [|exact Hh]. apply Nat.eqb_eq in E. subst m. rewrite Hh in Ha. discriminate.
    + destruct (Nat.eq_dec m (g x)) as [->|Hm].
      * rewrite Hh in Ha. injection Ha as ->. left. repeat split.
        refine (must_acquire g tr _ t2 x w rest _ Hb). cbn. rewrite Nat.eqb_refl. discriminate.
      * right. refine (IH _ t1 t2 x w rest _ Hne Hb). cbn.
        destruct (Nat.eqb (g x) m) eqn:E; [apply Nat.eqb_eq in E; congruence|exact Hh].
    + apply (IH h t1 t2 x w rest); assumption.
Qed.

Lemma ok_from_suffix g : forall pre h suffix, ok_from g h (pre ++ suffix) -> exists h', ok_from g h' suffix.
Proof.
  induction pre as [|e pre IH]; intros h suffix H; [exists h; exact H|].
  destruct e; cbn [app ok_from] in H; destruct H as [_ H]; eapply IH; exact H.
Qed.

(* C14, generic: in every trace that respects mutual exclusion and the locking discipline, any two accesses to
   the same guarded location by different threads are separated by "first thread unlocks the guard, second
   thread locks it": they are ordered by happens-before, so they do not race *)
Theorem disciplined_accesses_are_ordered g pre t1 x w1 mid t2 w2 rest :
  disciplined_trace g (pre ++ Acc t1 x w1 :: mid ++ Acc t2 x w2 :: rest) -> t1 <> t2 ->
  rel_then_acq t1 t2 (g x) mid.
Proof.
  intros H Hne. unfold disciplined_trace in H. apply ok_from_suffix in H. destruct H as [h H].
  cbn [ok_from] in H. destruct H as [Hh Hok]. eapply held_then_access; eauto.
Qed.
