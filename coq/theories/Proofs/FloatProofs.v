(* Proofs/FloatProofs.v — C13: the IEEE-754 round-to-nearest-even of Model/Delay.v ([rnd], exact integer arithmetic)
   never crosses a representable value: |x| <= B implies |rnd x| <= B and B <= x implies B <= rnd x for every B with at most
   p significant bits; integers below 2^p are rounded to themselves.  From these: the jitter-duration and random-range
   envelopes of retry delays, for every draw, and "backoff does not decrease" for representable delays. *)
From FS Require Import Model.Delay.
From Coq Require Import ZifyBool.
Open Scope Z_scope.

Lemma pow2_pos k : 0 < 2 ^ k \/ k < 0.
Proof. destruct (Z_lt_le_dec k 0); [right; assumption|left; apply Z.pow_pos_nonneg; lia]. Qed.

Lemma pow2_gt0 k : 0 <= k -> 0 < 2 ^ k.
Proof. intros. apply Z.pow_pos_nonneg; lia. Qed.

Lemma scaled2_pos a d s : 0 < a -> 0 < d -> 0 < fst (scaled2 a d s) /\ 0 < snd (scaled2 a d s).
Proof.
  intros Ha Hd. unfold scaled2. destruct (0 <=? s) eqn:E; cbn [fst snd].
  - pose proof (pow2_gt0 s ltac:(lia)). split; nia.
  - pose proof (pow2_gt0 (- s) ltac:(lia)). split; nia.
Qed.

(* scaling by one more bit doubles the ratio *)
Lemma scaled2_succ a d s :
  fst (scaled2 a d (s + 1)) * snd (scaled2 a d s) = 2 * fst (scaled2 a d s) * snd (scaled2 a d (s + 1)).
Proof.
  unfold scaled2. destruct (0 <=? s) eqn:E; destruct (0 <=? s + 1) eqn:E1; cbn [fst snd]; try lia.
  - rewrite Z.pow_add_r by lia. change (2 ^ 1) with 2. ring.
  - assert (s = -1) by lia. subst s. change (2 ^ (-1 + 1)) with 1. change (2 ^ (- -1)) with 2. ring.
  - assert (Hx : 2 ^ (- s) = 2 * 2 ^ (- (s + 1))).
    { replace (- s) with (- (s + 1) + 1) at 1 by lia. rewrite Z.pow_add_r by lia. change (2 ^ 1) with 2. ring. }
    rewrite Hx. ring.
Qed.

(* bounds of the first estimate *)
Lemma estimate_bounds p a d : 2 <= p -> 0 < a -> 0 < d ->
  let s0 := (p - 1) - (Z.log2 a - Z.log2 d) in
  2 ^ (p - 2) * snd (scaled2 a d s0) < fst (scaled2 a d s0) /\ fst (scaled2 a d s0) < 2 ^ p * snd (scaled2 a d s0).
Proof.
  intros Hp Ha Hd s0.
  pose proof (Z.log2_spec a Ha) as [La1 La2]. pose proof (Z.log2_spec d Hd) as [Ld1 Ld2].
  pose proof (Z.log2_nonneg a) as Na. pose proof (Z.log2_nonneg d) as Nd.
  set (la := Z.log2 a) in *. set (ld := Z.log2 d) in *.
  unfold scaled2. destruct (0 <=? s0) eqn:E; cbn [fst snd].
  - (* a * 2^s0 against d *)
    assert (E1 : 2 ^ (la + 1) * 2 ^ s0 = 2 ^ p * 2 ^ ld) by (rewrite <- !Z.pow_add_r by lia; f_equal; lia).
    assert (E2 : 2 ^ la * 2 ^ s0 = 2 ^ (p - 2) * 2 ^ (ld + 1)) by (rewrite <- !Z.pow_add_r by lia; f_equal; lia).
    pose proof (pow2_gt0 s0 ltac:(lia)). pose proof (pow2_gt0 (p - 2) ltac:(lia)). pose proof (pow2_gt0 p ltac:(lia)).
    split; nia.
  - assert (E1 : 2 ^ p * (2 ^ ld * 2 ^ (- s0)) = 2 ^ (la + 1)) by (rewrite <- !Z.pow_add_r by lia; f_equal; lia).
    assert (E2 : 2 ^ (p - 2) * (2 ^ (ld + 1) * 2 ^ (- s0)) = 2 ^ la) by (rewrite <- !Z.pow_add_r by lia; f_equal; lia).
    pose proof (pow2_gt0 (- s0) ltac:(lia)). pose proof (pow2_gt0 (p - 2) ltac:(lia)). pose proof (pow2_gt0 p ltac:(lia)).
    split; nia.
Qed.

(* ---- the exponent chosen by rnd_pos ---- *)
Definition norm_s (p a d : Z) : Z :=
  let e0 := Z.log2 a - Z.log2 d in
  let s0 := (p - 1) - e0 in
  let q0 := let '(n, d') := scaled2 a d s0 in n / d' in
  if 2 ^ p <=? q0 then s0 - 1 else if q0 <? 2 ^ (p - 1) then s0 + 1 else s0.

Definition round_he (n d' : Z) : Z :=
  let q := n / d' in let r := n mod d' in
  if 2 * r <? d' then q else if d' <? 2 * r then q + 1 else if Z.even q then q else q + 1.

Lemma rnd_pos_eq p a d :
  rnd_pos p a d =
  let s := norm_s p a d in
  let m := round_he (fst (scaled2 a d s)) (snd (scaled2 a d s)) in
  if 0 <=? s then (m, 2 ^ s) else (m * 2 ^ (- s), 1).
Proof. unfold rnd_pos, norm_s, round_he. cbv zeta. destruct (scaled2 a d _) as [n0 d0]. destruct (scaled2 a d _) as [n d']. reflexivity. Qed.

Lemma div_lt_iff n d k : 0 < d -> (n / d < k <-> n < k * d).
Proof.
  intros Hd. split; intros H.
  - destruct (Z_lt_ge_dec n (k * d)) as [|Hge]; [assumption|]. exfalso.
    assert (k <= n / d) by (apply Z.div_le_lower_bound; lia). lia.
  - apply Z.div_lt_upper_bound; lia.
Qed.

Lemma norm_bounds p a d : 2 <= p -> 0 < a -> 0 < d ->
  let s := norm_s p a d in
  2 ^ (p - 1) * snd (scaled2 a d s) <= fst (scaled2 a d s) /\ fst (scaled2 a d s) < 2 ^ p * snd (scaled2 a d s).
Proof.
  intros Hp Ha Hd. unfold norm_s. cbv zeta.
  set (s0 := p - 1 - (Z.log2 a - Z.log2 d)).
  pose proof (estimate_bounds p a d Hp Ha Hd) as [L0 U0]. cbv zeta in L0, U0. fold s0 in L0, U0.
  pose proof (scaled2_pos a d s0 Ha Hd) as [Pn0 Pd0].
  pose proof (scaled2_pos a d (s0 + 1) Ha Hd) as [Pn1 Pd1].
  pose proof (scaled2_succ a d s0) as Hs.
  destruct (scaled2 a d s0) as [n0 d0] eqn:E0. cbn [fst snd] in *.
  assert (Hq0 : n0 / d0 < 2 ^ p) by (apply div_lt_iff; lia).
  destruct (2 ^ p <=? n0 / d0) eqn:E1; [lia|].
  destruct (n0 / d0 <? 2 ^ (p - 1)) eqn:E2.
  - assert (Hlt : n0 < 2 ^ (p - 1) * d0) by (apply div_lt_iff; lia).
    assert (E : 2 ^ p = 2 * 2 ^ (p - 1)) by (replace p with (p - 1 + 1) at 1 by lia; rewrite Z.pow_add_r by lia; change (2 ^ 1) with 2; ring).
    assert (E' : 2 ^ (p - 1) = 2 * 2 ^ (p - 2)) by (replace (p - 1) with (p - 2 + 1) by lia; rewrite Z.pow_add_r by lia; change (2 ^ 1) with 2; ring).
    destruct (scaled2 a d (s0 + 1)) as [n1 d1]. cbn [fst snd] in *. split; nia.
  - rewrite E0. cbn [fst snd].
    assert (Hge : 2 ^ (p - 1) * d0 <= n0).
    { destruct (Z_lt_ge_dec n0 (2 ^ (p - 1) * d0)) as [Hl|]; [|lia]. apply div_lt_iff in Hl; lia. }
    split; lia.
Qed.

(* ---- rounding an integer quotient to the nearest integer ---- *)
Lemma round_he_bounds n d' : 0 < d' -> 0 <= n ->
  n / d' <= round_he n d' <= n / d' + 1.
Proof. intros Hd Hn. unfold round_he. repeat match goal with |- context [if ?c then _ else _] => destruct c end; lia. Qed.

Lemma round_he_le n d' K : 0 < d' -> 0 <= n -> n <= K * d' -> round_he n d' <= K.
Proof.
  intros Hd Hn H. unfold round_he.
  assert (Hq : n / d' <= K) by (apply Z.div_le_upper_bound; lia).
  destruct (Z.eq_dec (n / d') K) as [E|E].
  - assert (Hr : n mod d' = 0).
    { pose proof (Z.div_mod n d' ltac:(lia)) as Hdm. pose proof (Z.mod_pos_bound n d' Hd). rewrite E in Hdm. nia. }
    rewrite Hr. destruct (2 * 0 <? d') eqn:E2; lia.
  - repeat match goal with |- context [if ?c then _ else _] => destruct c end; lia.
Qed.

Lemma round_he_ge n d' K : 0 < d' -> 0 <= n -> K * d' <= n -> K <= round_he n d'.
Proof.
  intros Hd Hn H. pose proof (round_he_bounds n d' Hd Hn).
  assert (K <= n / d') by (apply Z.div_le_lower_bound; lia). lia.
Qed.

(* 2^s as a fraction u/v of positive integers *)
Definition pu (s : Z) : Z := if 0 <=? s then 2 ^ s else 1.
Definition pv (s : Z) : Z := if 0 <=? s then 1 else 2 ^ (- s).

Lemma pu_pos s : 0 < pu s.
Proof. unfold pu. destruct (0 <=? s) eqn:E; [apply pow2_gt0; lia|lia]. Qed.
Lemma pv_pos s : 0 < pv s.
Proof. unfold pv. destruct (0 <=? s) eqn:E; [lia|apply pow2_gt0; lia]. Qed.

Lemma scaled2_pw a d s : scaled2 a d s = (a * pu s, d * pv s).
Proof. unfold scaled2, pu, pv. destruct (0 <=? s); f_equal; ring. Qed.

Lemma pw_succ s : pu (s + 1) * pv s = 2 * (pu s * pv (s + 1)).
Proof.
  unfold pu, pv. destruct (0 <=? s) eqn:E; destruct (0 <=? s + 1) eqn:E1; try lia.
  - rewrite Z.pow_add_r by lia. change (2 ^ 1) with 2. ring.
  - assert (s = -1) by lia. subst s. reflexivity.
  - assert (Hx : 2 ^ (- s) = 2 * 2 ^ (- (s + 1))).
    { replace (- s) with (- (s + 1) + 1) at 1 by lia. rewrite Z.pow_add_r by lia. change (2 ^ 1) with 2. ring. }
    rewrite Hx. ring.
Qed.

Lemma pw_shift s k : 0 <= k -> pu (s + k) * pv s = 2 ^ k * (pu s * pv (s + k)).
Proof.
  intros Hk. revert s. pattern k. apply natlike_ind; [| |exact Hk].
  - intros s. replace (s + 0) with s by lia. change (2 ^ 0) with 1. ring.
  - intros x Hx IH s. replace (s + Z.succ x) with ((s + x) + 1) by lia.
    rewrite Z.pow_succ_r by lia.
    pose proof (pw_succ (s + x)) as H1. pose proof (IH s) as H2.
    pose proof (pv_pos (s + x)). pose proof (pu_pos (s + x)).
    assert (E : pu (s + x + 1) * pv s * pv (s + x) = 2 * 2 ^ x * (pu s * pv (s + x + 1)) * pv (s + x)).
    { transitivity (pu (s + x + 1) * pv (s + x) * pv s); [ring|]. rewrite H1.
      transitivity (2 * pv (s + x + 1) * (pu (s + x) * pv s)); [ring|]. rewrite H2. ring. }
    apply Z.mul_reg_r with (p := pv (s + x)); [lia|]. exact E.
Qed.

(* the value m / 2^s *)
Definition bval (m s : Z) : fl := (m * pv s, pu s).

Definition fle (x y : fl) : Prop := fst x * snd y <= fst y * snd x.

Lemma rnd_pos_val p a d : rnd_pos p a d = bval (round_he (a * pu (norm_s p a d)) (d * pv (norm_s p a d))) (norm_s p a d).
Proof.
  rewrite rnd_pos_eq. cbv zeta. rewrite scaled2_pw. cbn [fst snd]. unfold bval, pu, pv.
  destruct (0 <=? norm_s p a d); f_equal; ring.
Qed.

Section Bounds.
  Variables (p a d mB sB : Z).
  Hypotheses (Hp : 2 <= p) (Ha : 0 < a) (Hd : 0 < d) (HmB : 2 ^ (p - 1) <= mB < 2 ^ p).

  Let s := norm_s p a d.
  Let n := a * pu s.
  Let d' := d * pv s.
  Let m := round_he n d'.

  Lemma nb : 2 ^ (p - 1) * d' <= n /\ n < 2 ^ p * d' /\ 0 < d' /\ 0 < n.
  Proof.
    pose proof (norm_bounds p a d Hp Ha Hd) as H. cbv zeta in H. fold s in H. rewrite scaled2_pw in H. cbn [fst snd] in H.
    fold n d' in H. pose proof (pu_pos s). pose proof (pv_pos s). pose proof (pow2_gt0 (p - 1) ltac:(lia)).
    subst n d'. repeat split; try lia; nia.
  Qed.

  Lemma m_bounds : 2 ^ (p - 1) <= m <= 2 ^ p.
  Proof.
    destruct nb as (L & U & Pd & Pn). subst m. split.
    - apply round_he_ge; lia.
    - apply round_he_le; lia.
  Qed.

  Lemma pow_split : 2 ^ p = 2 * 2 ^ (p - 1).
  Proof. replace p with (p - 1 + 1) at 1 by lia. rewrite Z.pow_add_r by lia. change (2 ^ 1) with 2. ring. Qed.

  (* x <= B  ->  rnd x <= B *)
  Theorem rnd_pos_le : fle (a, d) (bval mB sB) -> fle (rnd_pos p a d) (bval mB sB).
  Proof.
    unfold fle, bval. cbn [fst snd]. intros Hx. rewrite rnd_pos_val. fold s n d' m. unfold bval. cbn [fst snd].
    destruct nb as (L & U & Pd & Pn). pose proof m_bounds as [Lm Um]. pose proof pow_split as Ep.
    pose proof (pu_pos s) as Pus. pose proof (pv_pos s) as Pvs. pose proof (pu_pos sB) as PuB. pose proof (pv_pos sB) as PvB.
    pose proof (pow2_gt0 (p - 1) ltac:(lia)) as Pp.
    destruct (Z_lt_le_dec s sB) as [Hlt|Hge]; [|destruct (Z.eq_dec s sB) as [Heq|Hne]].
    - (* x would be at least 2^p / 2^sB > B *)
      exfalso. pose proof (pw_shift s (sB - s) ltac:(lia)) as Hs. replace (s + (sB - s)) with sB in Hs by lia.
      assert (Hk : 2 <= 2 ^ (sB - s)) by (change 2 with (2 ^ 1) at 1; apply Z.pow_le_mono_r; lia).
      subst n d'.
      (* a pu sB pv s = 2^k a pu s pv sB >= 2^k 2^(p-1) d pv s pv sB *)
      assert (E1 : a * (pu sB * pv s) = 2 ^ (sB - s) * (a * pu s) * pv sB) by (rewrite Hs; ring).
      assert (E2 : 2 ^ (sB - s) * (a * pu s) * pv sB >= 2 ^ (sB - s) * (2 ^ (p - 1) * (d * pv s)) * pv sB) by nia.
      assert (E3 : a * pu sB * pv s <= mB * pv sB * d * pv s) by nia.
      assert (E4 : 2 ^ (sB - s) * (2 ^ (p - 1) * (d * pv s)) * pv sB >= 2 ^ p * (d * pv s) * pv sB) by nia.
      assert (E5 : 0 < d * pv s * pv sB) by nia.
      nia.
    - (* same exponent: the integer bound mB is kept by rounding to nearest *)
      subst sB. fold s in Hx.
      assert (Hm : m <= mB). { subst m. apply round_he_le; try lia; subst n d'; nia. }
      assert (Hpp : 0 <= pv s * pu s) by nia.
      replace (m * pv s * pu s) with (m * (pv s * pu s)) by ring. replace (mB * pv s * pu s) with (mB * (pv s * pu s)) by ring.
      apply Z.mul_le_mono_nonneg_r; assumption.
    - (* lower binade: the result is at most 2^p / 2^s <= B *)
      pose proof (pw_shift sB (s - sB) ltac:(lia)) as Hs. replace (sB + (s - sB)) with s in Hs by lia.
      assert (Hk : 2 <= 2 ^ (s - sB)) by (change 2 with (2 ^ 1) at 1; apply Z.pow_le_mono_r; lia).
      assert (E2 : m <= mB * 2 ^ (s - sB)) by nia.
      assert (Hpp : 0 <= pu sB * pv s) by nia.
      replace (m * pv s * pu sB) with (m * (pu sB * pv s)) by ring.
      replace (mB * pv sB * pu s) with (mB * 2 ^ (s - sB) * (pu sB * pv s))
        by (transitivity (mB * (pu s * pv sB)); [rewrite Hs; ring|ring]).
      apply Z.mul_le_mono_nonneg_r; assumption.
  Qed.

  (* B <= x  ->  B <= rnd x *)
  Theorem rnd_pos_ge : fle (bval mB sB) (a, d) -> fle (bval mB sB) (rnd_pos p a d).
  Proof.
    unfold fle, bval. cbn [fst snd]. intros Hx. rewrite rnd_pos_val. fold s n d' m. unfold bval. cbn [fst snd].
    destruct nb as (L & U & Pd & Pn). pose proof m_bounds as [Lm Um]. pose proof pow_split as Ep.
    pose proof (pu_pos s) as Pus. pose proof (pv_pos s) as Pvs. pose proof (pu_pos sB) as PuB. pose proof (pv_pos sB) as PvB.
    pose proof (pow2_gt0 (p - 1) ltac:(lia)) as Pp.
    destruct (Z_lt_le_dec s sB) as [Hlt|Hge]; [|destruct (Z.eq_dec s sB) as [Heq|Hne]].
    - (* higher binade: the result is at least 2^(p-1) / 2^s >= B *)
      pose proof (pw_shift s (sB - s) ltac:(lia)) as Hs. replace (s + (sB - s)) with sB in Hs by lia.
      assert (Hk : 2 <= 2 ^ (sB - s)) by (change 2 with (2 ^ 1) at 1; apply Z.pow_le_mono_r; lia).
      assert (E2 : mB <= m * 2 ^ (sB - s)) by nia.
      assert (Hpp : 0 <= pu s * pv sB) by nia.
      replace (mB * pv sB * pu s) with (mB * (pu s * pv sB)) by ring.
      replace (m * pv s * pu sB) with (m * 2 ^ (sB - s) * (pu s * pv sB))
        by (transitivity (m * (pu sB * pv s)); [rewrite Hs; ring|ring]).
      apply Z.mul_le_mono_nonneg_r; assumption.
    - subst sB. fold s in Hx.
      assert (Hm : mB <= m). { subst m. apply round_he_ge; try lia; subst n d'; nia. }
      assert (Hpp : 0 <= pv s * pu s) by nia.
      replace (m * pv s * pu s) with (m * (pv s * pu s)) by ring. replace (mB * pv s * pu s) with (mB * (pv s * pu s)) by ring.
      apply Z.mul_le_mono_nonneg_r; assumption.
    - (* x would be below 2^p / 2^s <= B *)
      exfalso. pose proof (pw_shift sB (s - sB) ltac:(lia)) as Hs. replace (sB + (s - sB)) with s in Hs by lia.
      assert (Hk : 2 <= 2 ^ (s - sB)) by (change 2 with (2 ^ 1) at 1; apply Z.pow_le_mono_r; lia).
      subst n d'.
      set (P := pv s) in *. set (Q := pv sB) in *. set (K := 2 ^ (s - sB)) in *. set (M := 2 ^ (p - 1)) in *.
      set (X := a * pu sB) in *. set (Y := mB * Q * d) in *.
      assert (T1 : a * pu s * Q = K * (P * X)) by (subst X; transitivity (a * (pu s * Q)); [ring|rewrite Hs; ring]).
      assert (T2 : P * Y <= P * X) by (apply Z.mul_le_mono_nonneg_l; lia).
      assert (T3 : P * (M * Q * d) <= P * Y) by (apply Z.mul_le_mono_nonneg_l; [lia|subst Y; nia]).
      assert (T0 : 0 <= P * (M * Q * d)) by nia.
      assert (T4 : 2 * (P * (M * Q * d)) <= K * (P * X)) by nia.
      assert (T5 : a * pu s * Q < 2 ^ p * (d * P) * Q) by (apply Z.mul_lt_mono_pos_r; lia).
      rewrite Ep in T5. nia.
  Qed.
End Bounds.

Definition wf (x : fl) : Prop := 0 < snd x.
Definition fneg (x : fl) : fl := (- fst x, snd x).

Lemma fle_trans x y z : wf x -> wf y -> wf z -> fle x y -> fle y z -> fle x z.
Proof.
  unfold fle, wf. destruct x as [a b], y as [c d], z as [e f]. cbn [fst snd]. intros Hb Hd Hf H1 H2.
  (* a d <= c b, c f <= e d  =>  a f <= e b *)
  assert (E1 : a * d * f <= c * b * f) by (apply Z.mul_le_mono_nonneg_r; lia).
  assert (E2 : c * f * b <= e * d * b) by (apply Z.mul_le_mono_nonneg_r; lia).
  assert (E3 : (a * f) * d <= (e * b) * d) by lia.
  apply Z.mul_le_mono_pos_r in E3; lia.
Qed.

Lemma bval_wf m s : wf (bval m s).
Proof. unfold wf, bval. cbn. apply pu_pos. Qed.

Lemma rnd_pos_wf p a d : wf (rnd_pos p a d).
Proof. rewrite rnd_pos_val. apply bval_wf. Qed.

Lemma rnd_pos_positive p a d : 2 <= p -> 0 < a -> 0 < d -> 0 < fst (rnd_pos p a d).
Proof.
  intros Hp Ha Hd. rewrite rnd_pos_val. unfold bval. cbn [fst].
  pose proof (m_bounds p a d Hp Ha Hd) as [L _]. pose proof (pv_pos (norm_s p a d)). pose proof (pow2_gt0 (p - 1) ltac:(lia)). nia.
Qed.

Lemma rnd_wf p x : wf (rnd p x).
Proof.
  unfold rnd. destruct x as [n d]. destruct (n =? 0); [unfold wf; cbn; lia|].
  destruct (0 <? n); [apply rnd_pos_wf|]. pose proof (rnd_pos_wf p (- n) d) as H. destruct (rnd_pos p (- n) d). exact H.
Qed.

(* |x| <= B with B representable (normalised)  ->  |rnd x| <= B *)
Theorem rnd_abs_le p x mB sB : 2 <= p -> wf x -> 2 ^ (p - 1) <= mB < 2 ^ p ->
  fle x (bval mB sB) -> fle (fneg (bval mB sB)) x ->
  fle (rnd p x) (bval mB sB) /\ fle (fneg (bval mB sB)) (rnd p x).
Proof.
  intros Hp Hw HmB Hu Hl. destruct x as [n d]. unfold wf in Hw. cbn [snd] in Hw.
  pose proof (pow2_gt0 (p - 1) ltac:(lia)) as Pp. pose proof (pv_pos sB) as Pv. pose proof (pu_pos sB) as Pu.
  unfold rnd. destruct (n =? 0) eqn:E0.
  - unfold fle, fneg, bval. cbn [fst snd]. split; nia.
  - destruct (0 <? n) eqn:E1.
    + split; [apply rnd_pos_le; try assumption; lia|].
      pose proof (rnd_pos_positive p n d Hp ltac:(lia) Hw) as Hpos. pose proof (rnd_pos_wf p n d) as Hwf.
      unfold fle, fneg, bval, wf in *. cbn [fst snd] in *. nia.
    + assert (Hn : 0 < - n) by lia.
      assert (Hu' : fle (- n, d) (bval mB sB)) by (unfold fle, fneg, bval in *; cbn [fst snd] in *; lia).
      pose proof (rnd_pos_le p (- n) d mB sB Hp Hn Hw HmB Hu') as Hr.
      pose proof (rnd_pos_positive p (- n) d Hp Hn Hw) as Hpos. pose proof (rnd_pos_wf p (- n) d) as Hwf.
      destruct (rnd_pos p (- n) d) as [m' d'']. unfold fle, fneg, bval, wf in *. cbn [fst snd] in *. split; nia.
Qed.

(* B <= x (B positive, representable)  ->  B <= rnd x *)
Theorem rnd_ge p x mB sB : 2 <= p -> wf x -> 2 ^ (p - 1) <= mB < 2 ^ p ->
  fle (bval mB sB) x -> fle (bval mB sB) (rnd p x).
Proof.
  intros Hp Hw HmB Hl. destruct x as [n d]. unfold wf in Hw. cbn [snd] in Hw.
  pose proof (pow2_gt0 (p - 1) ltac:(lia)) as Pp. pose proof (pv_pos sB) as Pv. pose proof (pu_pos sB) as Pu.
  assert (Hn : 0 < n).
  { unfold fle, bval in Hl. cbn [fst snd] in Hl.
    assert (Hpos : 0 < mB * pv sB * d) by (apply Z.mul_pos_pos; [apply Z.mul_pos_pos; lia|lia]).
    destruct (Z_lt_le_dec 0 n) as [|Hle]; [assumption|]. pose proof (Z.mul_nonpos_nonneg n (pu sB) Hle ltac:(lia)). lia. }
  unfold rnd. destruct (n =? 0) eqn:E0; [lia|]. destruct (0 <? n) eqn:E1; [|lia].
  apply rnd_pos_ge; assumption.
Qed.

Lemma rnd_nonneg p x : 2 <= p -> wf x -> 0 <= fst x -> 0 <= fst (rnd p x).
Proof.
  intros Hp Hw Hx. destruct x as [n d]. unfold wf in Hw. cbn [fst snd] in *. unfold rnd.
  destruct (n =? 0) eqn:E0; [cbn; lia|]. destruct (0 <? n) eqn:E1; [|lia].
  pose proof (rnd_pos_positive p n d Hp ltac:(lia) Hw). lia.
Qed.

(* integers below 2^p are representable *)
Lemma int_normalised p J : 1 <= p -> 0 < J < 2 ^ p ->
  let sB := p - 1 - Z.log2 J in let mB := J * 2 ^ sB in
  0 <= sB /\ 2 ^ (p - 1) <= mB < 2 ^ p /\ bval mB sB = (mB, 2 ^ sB).
Proof.
  intros Hp [HJ0 HJ]. cbv zeta.
  pose proof (Z.log2_spec J HJ0) as [L U]. pose proof (Z.log2_nonneg J) as Ln.
  assert (Hlt : Z.log2 J < p) by (apply Z.log2_lt_pow2; lia).
  set (e := Z.log2 J) in *. set (sB := p - 1 - e).
  assert (HsB : 0 <= sB) by lia.
  assert (E1 : 2 ^ e * 2 ^ sB = 2 ^ (p - 1)) by (rewrite <- Z.pow_add_r by lia; f_equal; lia).
  assert (E2 : 2 ^ (e + 1) * 2 ^ sB = 2 ^ p) by (rewrite <- Z.pow_add_r by lia; f_equal; lia).
  pose proof (pow2_gt0 sB HsB) as Ps.
  split; [exact HsB|]. split; [split; nia|].
  unfold bval, pu, pv. destruct (0 <=? sB) eqn:E; [f_equal; ring|lia].
Qed.

(* comparisons of a fraction with an integer *)
Definition le_int (x : fl) (J : Z) : Prop := fst x <= J * snd x.
Definition ge_int (x : fl) (J : Z) : Prop := J * snd x <= fst x.

Lemma fle_bval_int x mB sB J : wf x -> 0 <= sB -> mB = J * 2 ^ sB -> bval mB sB = (mB, 2 ^ sB) ->
  (fle x (bval mB sB) <-> le_int x J) /\ (fle (bval mB sB) x <-> ge_int x J) /\ (fle (fneg (bval mB sB)) x <-> ge_int x (- J)).
Proof.
  intros Hw Hs Hm Hb. rewrite Hb. unfold fle, fneg, le_int, ge_int, wf in *. cbn [fst snd]. subst mB.
  pose proof (pow2_gt0 sB Hs) as P. destruct x as [n d]. cbn [fst snd] in *.
  repeat split; intros H; nia.
Qed.

Theorem rnd_le_int p x J : 2 <= p -> wf x -> 0 < J < 2 ^ p -> le_int x J -> ge_int x (- J) ->
  le_int (rnd p x) J /\ ge_int (rnd p x) (- J).
Proof.
  intros Hp Hw HJ Hu Hl. pose proof (int_normalised p J ltac:(lia) HJ) as (Hs & Hm & Hb). cbv zeta in *.
  set (sB := p - 1 - Z.log2 J) in *. set (mB := J * 2 ^ sB) in *.
  pose proof (fle_bval_int x mB sB J Hw Hs eq_refl Hb) as (A & _ & C).
  pose proof (fle_bval_int (rnd p x) mB sB J (rnd_wf p x) Hs eq_refl Hb) as (A' & _ & C').
  destruct (rnd_abs_le p x mB sB Hp Hw Hm (proj2 A Hu) (proj2 C Hl)) as [R1 R2].
  split; [apply A', R1|apply C', R2].
Qed.

Theorem rnd_ge_int p x J : 2 <= p -> wf x -> 0 < J < 2 ^ p -> ge_int x J -> ge_int (rnd p x) J.
Proof.
  intros Hp Hw HJ Hl. pose proof (int_normalised p J ltac:(lia) HJ) as (Hs & Hm & Hb). cbv zeta in *.
  set (sB := p - 1 - Z.log2 J) in *. set (mB := J * 2 ^ sB) in *.
  pose proof (fle_bval_int x mB sB J Hw Hs eq_refl Hb) as (_ & B & _).
  pose proof (fle_bval_int (rnd p x) mB sB J (rnd_wf p x) Hs eq_refl Hb) as (_ & B' & _).
  apply B'. apply rnd_ge; try assumption. apply B, Hl.
Qed.

(* an integer below 2^p is rounded to itself *)
Theorem rnd_exact_int p x J : 2 <= p -> wf x -> 0 <= J < 2 ^ p -> le_int x J -> ge_int x J ->
  le_int (rnd p x) J /\ ge_int (rnd p x) J.
Proof.
  intros Hp Hw HJ Hu Hl. destruct (Z.eq_dec J 0) as [->|Hne].
  - destruct x as [n d]. unfold le_int, ge_int, wf in *. cbn [fst snd] in *. assert (n = 0) by lia. subst n.
    unfold rnd. cbn. lia.
  - assert (HJ' : 0 < J < 2 ^ p) by lia.
    assert (Hl' : ge_int x (- J)) by (unfold ge_int, le_int, wf in *; nia).
    destruct (rnd_le_int p x J Hp Hw HJ' Hu Hl') as [A _]. split; [exact A|apply rnd_ge_int; assumption].
Qed.

Lemma to_int_between x lo hi : wf x -> ge_int x lo -> le_int x hi -> lo <= to_int x <= hi.
Proof.
  intros Hw Hl Hu. unfold to_int, wf, ge_int, le_int in *. destruct x as [n d]. cbn [fst snd] in *.
  destruct (Z_le_gt_dec 0 n) as [Hn|Hn].
  - rewrite Z.quot_div_nonneg by lia. split.
    + destruct (Z_le_gt_dec lo 0); [pose proof (Z.div_pos n d ltac:(lia) ltac:(lia)); lia|apply Z.div_le_lower_bound; lia].
    + apply Z.div_le_upper_bound; lia.
  - assert (E : Z.quot n d = - (Z.quot (- n) d)) by (rewrite Z.quot_opp_l by lia; lia).
    rewrite E. rewrite Z.quot_div_nonneg by lia. split.
    + assert ((- n) / d <= - lo) by (apply Z.div_le_upper_bound; lia). lia.
    + assert (0 <= (- n) / d) by (apply Z.div_pos; lia).
      destruct (Z_le_gt_dec 0 hi); [lia|]. assert (- hi <= (- n) / d) by (apply Z.div_le_lower_bound; lia). lia.
Qed.

Lemma pow53 : 2 <= 53. Proof. lia. Qed.

(* C13: a jitter duration shifts the delay by at most that duration (util.RandomDelay, float64), for every jitter below
   2^53 ns (104 days) and every draw in [0, 1) *)
Theorem jitter_envelope delay jitter random :
  0 < jitter < 2 ^ 53 -> wf random -> 0 <= fst random < snd random ->
  delay - jitter <= random_delay delay jitter random <= delay + jitter.
Proof.
  intros HJ Hw Hr. unfold random_delay, fmul, fsub, of_int. cbn [fst snd].
  destruct random as [rn rd]. unfold wf in Hw. cbn [fst snd] in *.
  (* t1 = 2 * random, in [0, 2] *)
  set (x1 := (rn * 2, rd * 1)). assert (W1 : wf x1) by (unfold wf, x1; cbn [fst snd]; lia).
  assert (B1 : le_int (rnd 53 x1) 2 /\ ge_int (rnd 53 x1) (- 2)).
  { apply rnd_le_int; [lia|exact W1|cbn; lia| |]; unfold le_int, ge_int, x1; cbn [fst snd]; lia. }
  assert (N1 : 0 <= fst (rnd 53 x1)) by (apply rnd_nonneg; [lia|exact W1|unfold x1; cbn [fst snd]; lia]).
  pose proof (rnd_wf 53 x1) as Wt1. destruct (rnd 53 x1) as [n1 d1]. unfold wf, le_int, ge_int in *. cbn [fst snd] in *.
  (* t2 = 1 - t1, in [-1, 1] *)
  set (x2 := (1 * d1 - n1 * 1, 1 * d1)). assert (W2 : wf x2) by (unfold wf, x2; cbn [fst snd]; lia).
  assert (B2 : le_int (rnd 53 x2) 1 /\ ge_int (rnd 53 x2) (- 1)).
  { apply rnd_le_int; [lia|exact W2|cbn; lia| |]; unfold le_int, ge_int, x2; cbn [fst snd]; lia. }
  pose proof (rnd_wf 53 x2) as Wt2. destruct (rnd 53 x2) as [n2 d2]. unfold wf, le_int, ge_int in *. cbn [fst snd] in *.
  (* jitter is represented exactly *)
  assert (BJ : le_int (rnd 53 (jitter, 1)) jitter /\ ge_int (rnd 53 (jitter, 1)) jitter).
  { apply rnd_exact_int; [lia|unfold wf; cbn; lia|lia| |]; unfold le_int, ge_int; cbn [fst snd]; lia. }
  pose proof (rnd_wf 53 (jitter, 1)) as WJ. destruct (rnd 53 (jitter, 1)) as [nJ dJ]. unfold wf, le_int, ge_int in *. cbn [fst snd] in *.
  assert (EJ : nJ = jitter * dJ) by lia.
  (* t3 = t2 * jitter, in [-jitter, jitter] *)
  set (x3 := (n2 * nJ, d2 * dJ)). assert (W3 : wf x3) by (unfold wf, x3; cbn [fst snd]; nia).
  assert (B3 : le_int (rnd 53 x3) jitter /\ ge_int (rnd 53 x3) (- jitter)).
  { apply rnd_le_int; [lia|exact W3|lia| |]; unfold le_int, ge_int, x3; cbn [fst snd]; subst nJ; nia. }
  pose proof (rnd_wf 53 x3) as Wt3.
  pose proof (to_int_between (rnd 53 x3) (- jitter) jitter Wt3 (proj2 B3) (proj1 B3)). lia.
Qed.

(* C13: a random delay lies within [delayMin, delayMax] (util.RandomDelayInRange, float64), for bounds below 2^53 ns *)
Theorem random_range_envelope dmin dmax random :
  0 < dmin -> dmin <= dmax -> dmax < 2 ^ 53 -> wf random -> 0 <= fst random < snd random ->
  dmin <= random_delay_in_range dmin dmax random <= dmax.
Proof.
  intros Hm Hle HM Hw Hr. unfold random_delay_in_range, fadd, fmul, fsub, of_int. cbn [fst snd].
  destruct random as [rn rd]. unfold wf in Hw. cbn [fst snd] in *.
  assert (Bm : le_int (rnd 53 (dmin, 1)) dmin /\ ge_int (rnd 53 (dmin, 1)) dmin)
    by (apply rnd_exact_int; [lia|unfold wf; cbn; lia|lia| |]; unfold le_int, ge_int; cbn [fst snd]; lia).
  assert (BM : le_int (rnd 53 (dmax, 1)) dmax /\ ge_int (rnd 53 (dmax, 1)) dmax)
    by (apply rnd_exact_int; [lia|unfold wf; cbn; lia|lia| |]; unfold le_int, ge_int; cbn [fst snd]; lia).
  pose proof (rnd_wf 53 (dmin, 1)) as Wm. pose proof (rnd_wf 53 (dmax, 1)) as WM.
  destruct (rnd 53 (dmin, 1)) as [nm dm]. destruct (rnd 53 (dmax, 1)) as [nM dM]. unfold wf, le_int, ge_int in *. cbn [fst snd] in *.
  assert (Em : nm = dmin * dm) by lia. assert (EM : nM = dmax * dM) by lia.
  (* diff = max - min, exactly *)
  set (xD := (nM * dm - nm * dM, dM * dm)). assert (WD : wf xD) by (unfold wf, xD; cbn [fst snd]; nia).
  assert (BD : le_int (rnd 53 xD) (dmax - dmin) /\ ge_int (rnd 53 xD) (dmax - dmin)).
  { assert (Eq : nM * dm - nm * dM = (dmax - dmin) * (dM * dm)) by (subst nm nM; ring).
    apply rnd_exact_int; [lia|exact WD|lia| |]; unfold le_int, ge_int, xD; cbn [fst snd]; rewrite Eq; lia. }
  pose proof (rnd_wf 53 xD) as WtD. destruct (rnd 53 xD) as [nD dD]. unfold wf, le_int, ge_int in *. cbn [fst snd] in *.
  assert (ED : nD = (dmax - dmin) * dD) by lia.
  (* prod = random * diff, in [0, diff] *)
  set (xP := (rn * nD, rd * dD)). assert (WP : wf xP) by (unfold wf, xP; cbn [fst snd]; nia).
  assert (NP : 0 <= fst (rnd 53 xP)) by (apply rnd_nonneg; [lia|exact WP|unfold xP; cbn [fst snd]; subst nD; apply Z.mul_nonneg_nonneg; [lia|nia]]).
  assert (BP : le_int (rnd 53 xP) (dmax - dmin)).
  { destruct (Z.eq_dec dmax dmin) as [E|E].
    - assert (nD = 0) by (subst nD; nia). subst xP. rewrite H. replace (rn * 0) with 0 by ring. unfold rnd, le_int. cbn. lia.
    - assert (PD : 0 <= (dmax - dmin) * dD) by nia.
      assert (K1 : rn * ((dmax - dmin) * dD) <= rd * ((dmax - dmin) * dD)) by (apply Z.mul_le_mono_nonneg_r; lia).
      assert (K2 : 0 <= rn * ((dmax - dmin) * dD)) by (apply Z.mul_nonneg_nonneg; lia).
      assert (K3 : 0 <= (dmax - dmin) * (rd * dD)) by nia.
      apply rnd_le_int; [lia|exact WP|lia| |]; unfold le_int, ge_int, xP; cbn [fst snd]; subst nD; lia. }
  pose proof (rnd_wf 53 xP) as WtP. destruct (rnd 53 xP) as [nP dP]. unfold wf, le_int, ge_int in *. cbn [fst snd] in *.
  (* sum = prod + min, in [min, max] *)
  set (xS := (nP * dm + nm * dP, dP * dm)). assert (WS : wf xS) by (unfold wf, xS; cbn [fst snd]; nia).
  assert (GS : ge_int xS dmin) by (unfold ge_int, xS; cbn [fst snd]; subst nm; nia).
  assert (LS : le_int xS dmax) by (unfold le_int, xS; cbn [fst snd]; subst nm; nia).
  assert (BS1 : ge_int (rnd 53 xS) dmin) by (apply rnd_ge_int; [lia|exact WS|lia|exact GS]).
  assert (BS2 : le_int (rnd 53 xS) dmax).
  { apply rnd_le_int; [lia|exact WS|lia|exact LS|]. unfold ge_int, xS in *. cbn [fst snd] in *. nia. }
  pose proof (rnd_wf 53 xS) as WtS.
  apply (to_int_between (rnd 53 xS) dmin dmax WtS BS1 BS2).
Qed.

(* C13: one backoff step Duration(float32(last) * factor) does not go below [last] when [last] is exactly representable
   in float32 (at most 24 significant bits, e.g. every whole number of milliseconds up to 4.6 hours) and factor >= 1 *)
Theorem backoff_step_not_below mB sB last factor :
  2 ^ 23 <= mB < 2 ^ 24 -> wf factor -> snd factor <= fst factor ->
  fle (last, 1) (bval mB sB) -> fle (bval mB sB) (last, 1) ->
  last <= to_int (fmul 24 (of_int 24 last) factor).
Proof.
  intros HmB Wf Hf Hle Hge. unfold fmul, of_int.
  pose proof (pu_pos sB) as Pu. pose proof (pv_pos sB) as Pv. pose proof (pow2_gt0 23 ltac:(lia)) as P23.
  assert (Hlast : 0 < last).
  { unfold fle, bval in Hge. cbn [fst snd] in Hge. assert (0 < mB * pv sB * 1) by nia. nia. }
  assert (W0 : wf (last, 1)) by (unfold wf; cbn; lia).
  (* float32(last) = last *)
  assert (G1 : fle (bval mB sB) (rnd 24 (last, 1))) by (apply rnd_ge; [lia|exact W0|exact HmB|exact Hge]).
  pose proof (rnd_wf 24 (last, 1)) as W1. destruct (rnd 24 (last, 1)) as [n1 d1]. unfold wf in W1. cbn [fst snd] in *.
  (* the product is at least last, and so is its rounding *)
  destruct factor as [fn fd]. unfold wf in Wf. cbn [fst snd] in *.
  set (x := (n1 * fn, d1 * fd)). assert (Wx : wf x) by (unfold wf, x; cbn [fst snd]; nia).
  assert (Gx : fle (bval mB sB) x).
  { unfold fle, bval, x in *. cbn [fst snd] in *.
    assert (0 <= mB * pv sB) by nia. assert (K : mB * pv sB * d1 * fd <= n1 * pu sB * fd) by (apply Z.mul_le_mono_nonneg_r; lia).
    assert (K2 : n1 * pu sB * fd <= n1 * pu sB * fn).
    { assert (0 <= n1 * pu sB) by nia. apply Z.mul_le_mono_nonneg_l; lia. }
    nia. }
  pose proof (rnd_ge 24 x mB sB ltac:(lia) Wx HmB Gx) as G2.
  pose proof (rnd_wf 24 x) as W2. destruct (rnd 24 x) as [n2 d2]. unfold wf in W2. cbn [fst snd] in *.
  assert (G3 : last * d2 <= n2).
  { unfold fle, bval in *. cbn [fst snd] in *.
    (* last pu = mB pv (from both directions); mB pv d2 <= n2 pu *)
    assert (E : last * pu sB = mB * pv sB) by lia.
    assert (K : last * pu sB * d2 <= n2 * pu sB) by (rewrite E; lia).
    assert (K' : (last * d2) * pu sB <= n2 * pu sB) by lia.
    apply Z.mul_le_mono_pos_r in K'; lia. }
  unfold to_int. cbn [fst snd].
  assert (Hn2 : 0 <= n2) by nia.
  rewrite Z.quot_div_nonneg by lia. apply Z.div_le_lower_bound; lia.
Qed.

(* ---- relative accuracy ---- *)
Lemma round_he_half n d' : 0 < d' -> 0 <= n -> 2 * Z.abs (round_he n d' * d' - n) <= d'.
Proof.
  intros Hd Hn. unfold round_he.
  pose proof (Z.div_mod n d' ltac:(lia)) as Hdm. pose proof (Z.mod_pos_bound n d' Hd) as Hr.
  set (q := n / d') in *. set (r := n mod d') in *.
  destruct (2 * r <? d') eqn:E1; [nia|]. destruct (d' <? 2 * r) eqn:E2; [nia|].
  destruct (Z.even q); nia.
Qed.

(* relative accuracy of rounding a positive rational: |rnd x - x| <= x / 2^p *)
Lemma rnd_pos_rel p a d : 2 <= p -> 0 < a -> 0 < d ->
  Z.abs (fst (rnd_pos p a d) * d - a * snd (rnd_pos p a d)) * 2 ^ p <= a * snd (rnd_pos p a d).
Proof.
  intros Hp Ha Hd. rewrite rnd_pos_val. unfold bval. cbn [fst snd].
  set (s := norm_s p a d). set (n := a * pu s). set (d' := d * pv s).
  destruct (nb p a d Hp Ha Hd) as (L & U & Pd & Pn). fold s n d' in L, U, Pd, Pn.
  pose proof (round_he_half n d' Pd ltac:(lia)) as Hh. set (m := round_he n d') in *.
  replace (m * pv s * d - a * pu s) with (m * d' - n) by (subst n d'; ring).
  pose proof (pow_split p 0 0 Hp) as Ep. pose proof (pow2_gt0 (p - 1) ltac:(lia)).
  fold n. nia.
Qed.

(* C13: one backoff step Duration(float32(last) * factor) equals last * factor up to float32 rounding:
   |step - last*factor| <= last*factor / 2^22 + 1 ns, for every positive last delay and positive factor *)
Theorem backoff_step_accuracy last fn fd :
  0 < last -> 0 < fn -> 0 < fd ->
  let step := to_int (fmul 24 (of_int 24 last) (fn, fd)) in
  2 ^ 22 * Z.abs (step * fd - last * fn) <= last * fn + 2 ^ 22 * fd.
Proof.
  intros Hl Hfn Hfd. cbv zeta. unfold fmul, of_int, rnd. cbn [fst snd].
  destruct (last =? 0) eqn:E0; [lia|]. destruct (0 <? last) eqn:E1; [|lia].
  pose proof (rnd_pos_rel 24 last 1 ltac:(lia) Hl ltac:(lia)) as R1.
  pose proof (rnd_pos_positive 24 last 1 ltac:(lia) Hl ltac:(lia)) as P1.
  pose proof (rnd_pos_wf 24 last 1) as W1.
  destruct (rnd_pos 24 last 1) as [ln ld]. unfold wf in W1. cbn [fst snd] in *.
  assert (Hx : 0 < ln * fn) by nia. assert (Hxd : 0 < ld * fd) by nia.
  destruct (ln * fn =? 0) eqn:E2; [lia|]. destruct (0 <? ln * fn) eqn:E3; [|lia].
  pose proof (rnd_pos_rel 24 (ln * fn) (ld * fd) ltac:(lia) Hx Hxd) as R2.
  pose proof (rnd_pos_positive 24 (ln * fn) (ld * fd) ltac:(lia) Hx Hxd) as P2.
  pose proof (rnd_pos_wf 24 (ln * fn) (ld * fd)) as W2.
  destruct (rnd_pos 24 (ln * fn) (ld * fd)) as [pn pd]. unfold wf in W2. cbn [fst snd] in *.
  unfold to_int. cbn [fst snd]. rewrite Z.quot_div_nonneg by lia.
  set (R := pn / pd).
  assert (HR : R * pd <= pn < (R + 1) * pd).
  { subst R. pose proof (Z.div_mod pn pd ltac:(lia)). pose proof (Z.mod_pos_bound pn pd W2). nia. }
  (* everything over the common denominator pd * ld *)
  set (A := last * ld) in *. replace (ln * 1 - last * ld) with (ln - A) in R1 by (subst A; ring).
  set (D := A * fn * pd). set (B := ln * fn * pd). set (C := pn * ld * fd).
  assert (HD : 0 < D) by (subst D A; nia).
  assert (K1 : 2 ^ 24 * Z.abs (B - D) <= D).
  { subst B D. replace (ln * fn * pd - A * fn * pd) with ((ln - A) * (fn * pd)) by ring.
    rewrite Z.abs_mul. rewrite (Z.abs_eq (fn * pd)) by nia.
    assert (Z.abs (ln - A) * 2 ^ 24 * (fn * pd) <= A * (fn * pd)) by (apply Z.mul_le_mono_nonneg_r; [nia|lia]). nia. }
  assert (K2 : 2 ^ 24 * Z.abs (C - B) <= B).
  { subst C B. replace (pn * ld * fd - ln * fn * pd) with (pn * (ld * fd) - ln * fn * pd) by ring. lia. }
  assert (HB : 0 < B) by (subst B; nia).
  assert (K3 : 2 ^ 22 * Z.abs (C - D) <= D).
  { assert (T : Z.abs (C - D) <= Z.abs (C - B) + Z.abs (B - D)) by (replace (C - D) with ((C - B) + (B - D)) by ring; apply Z.abs_triangle).
    assert (HBD : 2 ^ 24 * B <= 2 ^ 24 * D + D) by lia.
    change (2 ^ 24) with 16777216 in *. change (2 ^ 22) with 4194304. lia. }
  (* the truncation loses less than one unit *)
  set (T := R * fd * (pd * ld)). 
  assert (HT : C - pd * ld * fd < T <= C).
  { subst T C. split.
    - assert ((R + 1) * pd * (ld * fd) > pn * (ld * fd)) by (apply Z.lt_gt, Z.mul_lt_mono_pos_r; lia). nia.
    - assert (R * pd * (ld * fd) <= pn * (ld * fd)) by (apply Z.mul_le_mono_nonneg_r; lia). nia. }
  assert (K4 : 2 ^ 22 * Z.abs (T - D) <= D + 2 ^ 22 * (pd * ld * fd)).
  { assert (Z.abs (T - D) <= Z.abs (C - D) + pd * ld * fd) by lia. change (2 ^ 22) with 4194304 in *. lia. }
  (* cancel the common denominator *)
  assert (E : T - D = (R * fd - last * fn) * (pd * ld)) by (subst T D A; ring).
  rewrite E in K4. rewrite Z.abs_mul in K4. rewrite (Z.abs_eq (pd * ld)) in K4 by nia.
  assert (K5 : 2 ^ 22 * Z.abs (R * fd - last * fn) * (pd * ld) <= (last * fn + 2 ^ 22 * fd) * (pd * ld)).
  { subst D A. replace ((last * fn + 2 ^ 22 * fd) * (pd * ld)) with (last * ld * fn * pd + 2 ^ 22 * (pd * ld * fd)) by ring. lia. }
  apply Z.mul_le_mono_pos_r in K5; [exact K5|nia].
Qed.

(* C13: a jitter factor shifts the delay by at most jitterFactor * delay, up to float32 rounding:
   |jittered - delay| <= jitterFactor * delay + delay / 2^20 + 1 ns,
   for every positive delay, every float32 jitter factor in (0, 1) and every draw in [0, 1) (util.RandomDelayFactor) *)
Theorem jitter_factor_envelope delay mJ sJ random :
  0 < delay -> 2 ^ 23 <= mJ < 2 ^ 24 -> fst (bval mJ sJ) < snd (bval mJ sJ) ->
  wf random -> 0 <= fst random < snd random ->
  let jf := bval mJ sJ in
  2 ^ 20 * snd jf * Z.abs (random_delay_factor delay jf random - delay)
  <= 2 ^ 20 * delay * fst jf + delay * snd jf + 2 ^ 20 * snd jf.
Proof.
  intros Hd HmJ Hlt1 Hw Hr. cbv zeta. unfold random_delay_factor.
  set (jf := bval mJ sJ) in *. pose proof (bval_wf mJ sJ) as Wj. fold jf in Wj.
  assert (Pj : 0 < fst jf) by (unfold jf, bval; cbn [fst]; pose proof (pv_pos sJ); pose proof (pow2_gt0 23 ltac:(lia)); nia).
  destruct random as [rn rd]. unfold wf in Hw. cbn [fst snd] in Hw, Hr.
  (* t1 = 2 * random in [0, 2];  t2 = 1 - t1 in [-1, 1] *)
  unfold fmul at 3. cbn [fst snd].
  set (x1 := (rn * 2, rd * 1)). assert (W1 : wf x1) by (unfold wf, x1; cbn [fst snd]; lia).
  assert (B1 : le_int (rnd 24 x1) 2 /\ ge_int (rnd 24 x1) (- 2))
    by (apply rnd_le_int; [lia|exact W1|cbn; lia| |]; unfold le_int, ge_int, x1; cbn [fst snd]; lia).
  assert (N1 : 0 <= fst (rnd 24 x1)) by (apply rnd_nonneg; [lia|exact W1|unfold x1; cbn [fst snd]; lia]).
  pose proof (rnd_wf 24 x1) as Wt1. destruct (rnd 24 x1) as [n1 d1]. unfold wf, le_int, ge_int in Wt1, B1, N1. cbn [fst snd] in Wt1, B1, N1.
  unfold fsub. cbn [fst snd].
  set (x2 := (1 * d1 - n1 * 1, 1 * d1)). assert (W2 : wf x2) by (unfold wf, x2; cbn [fst snd]; lia).
  assert (B2 : le_int (rnd 24 x2) 1 /\ ge_int (rnd 24 x2) (- 1))
    by (apply rnd_le_int; [lia|exact W2|cbn; lia| |]; unfold le_int, ge_int, x2; cbn [fst snd]; lia).
  pose proof (rnd_wf 24 x2) as Wt2. destruct (rnd 24 x2) as [n2 d2]. unfold wf, le_int, ge_int in Wt2, B2. cbn [fst snd] in Wt2, B2.
  (* u = t2 * jf, |u| <= jf *)
  unfold fmul at 2. cbn [fst snd].
  destruct jf as [jn jd] eqn:Ej. unfold wf in Wj. cbn [fst snd] in *.
  set (xu := (n2 * jn, d2 * jd)). assert (Wu : wf xu) by (unfold wf, xu; cbn [fst snd]; nia).
  assert (Bu : fle (rnd 24 xu) (bval mJ sJ) /\ fle (fneg (bval mJ sJ)) (rnd 24 xu)).
  { apply rnd_abs_le; [lia|exact Wu|exact HmJ| |]; subst jf; rewrite Ej; unfold fle, fneg, xu; cbn [fst snd].
    - assert (n2 * jn * jd <= jn * (d2 * jd)) by (assert (n2 * (jn * jd) <= d2 * (jn * jd)) by (apply Z.mul_le_mono_nonneg_r; nia); nia). lia.
    - assert (- (jn * (d2 * jd)) <= n2 * jn * jd) by (assert (- d2 * (jn * jd) <= n2 * (jn * jd)) by (apply Z.mul_le_mono_nonneg_r; nia); nia). lia. }
  subst jf. rewrite Ej in Bu. unfold fle, fneg in Bu. cbn [fst snd] in Bu.
  pose proof (rnd_wf 24 xu) as Wtu. destruct (rnd 24 xu) as [un ud]. unfold wf in Wtu. cbn [fst snd] in Wtu, Bu.
  (* g = 1 + u > 0,  |g - 1| <= jf *)
  unfold fadd. cbn [fst snd].
  set (gn := 1 * ud + un * 1). set (gd := 1 * ud).
  assert (Gd : 0 < gd) by (subst gd; lia).
  assert (HC : Z.abs (gn - gd) * jd <= jn * gd) by (subst gn gd; replace (1 * ud + un * 1 - 1 * ud) with un by ring; nia).
  assert (Gn : 0 < gn /\ gn <= 2 * gd).
  { assert (Z.abs (gn - gd) * jd < jd * gd) by nia. assert (Z.abs (gn - gd) < gd) by nia. lia. }
  (* factor = rnd g, relative accuracy *)
  unfold rnd at 1. destruct (gn =? 0) eqn:Eg0; [lia|]. destruct (0 <? gn) eqn:Eg1; [|lia].
  pose proof (rnd_pos_rel 24 gn gd ltac:(lia) (proj1 Gn) Gd) as HB.
  pose proof (rnd_pos_positive 24 gn gd ltac:(lia) (proj1 Gn) Gd) as Pf.
  pose proof (rnd_pos_wf 24 gn gd) as Wf.
  destruct (rnd_pos 24 gn gd) as [fn fd]. unfold wf in Wf. cbn [fst snd] in HB, Pf, Wf.
  (* the product with float32(delay) *)
  pose proof (backoff_step_accuracy delay fn fd Hd Pf Wf) as HA. cbv zeta in HA.
  set (R := to_int (fmul 24 (of_int 24 delay) (fn, fd))) in *.
  (* arithmetic *)
  change (2 ^ 24) with 16777216 in *. change (2 ^ 22) with 4194304 in *. change (2 ^ 20) with 1048576.
  set (S := fd * gd). assert (PS : 0 < S) by (subst S; nia).
  set (U1 := Z.abs (R * fd - delay * fn) * gd). set (U2 := delay * Z.abs (fn * gd - gn * fd)). set (U3 := delay * fd * Z.abs (gn - gd)).
  assert (HG : Z.abs (R - delay) * S <= U1 + U2 + U3).
  { subst S U1 U2 U3.
    replace (Z.abs (R - delay) * (fd * gd)) with (Z.abs ((R - delay) * (fd * gd))) by (rewrite Z.abs_mul, (Z.abs_eq (fd * gd)) by nia; reflexivity).
    replace ((R - delay) * (fd * gd)) with ((R * fd - delay * fn) * gd + (delay * (fn * gd - gn * fd) + delay * fd * (gn - gd))) by ring.
    eapply Z.le_trans; [apply Z.abs_triangle|]. rewrite Z.abs_mul, (Z.abs_eq gd) by lia.
    eapply Z.le_trans; [apply Z.add_le_mono_l, Z.abs_triangle|].
    rewrite !Z.abs_mul, (Z.abs_eq delay), (Z.abs_eq fd) by lia. lia. }
  assert (H1 : 4194304 * U1 <= (delay * fn + 4194304 * fd) * gd) by (subst U1; assert (4194304 * Z.abs (R * fd - delay * fn) * gd <= (delay * fn + 4194304 * fd) * gd) by (apply Z.mul_le_mono_nonneg_r; lia); lia).
  assert (H2 : 16777216 * U2 <= delay * (gn * fd)) by (subst U2; assert (delay * (Z.abs (fn * gd - gn * fd) * 16777216) <= delay * (gn * fd)) by (apply Z.mul_le_mono_nonneg_l; lia); lia).
  assert (H3 : jd * U3 <= delay * fd * (jn * gd)) by (subst U3; assert (delay * fd * (Z.abs (gn - gd) * jd) <= delay * fd * (jn * gd)) by (apply Z.mul_le_mono_nonneg_l; nia); lia).
  assert (H4 : 16777216 * (fn * gd) <= 16777217 * (gn * fd)) by lia.
  assert (H5 : gn * fd <= 2 * gd * fd) by (apply Z.mul_le_mono_nonneg_r; lia).
  assert (H6 : 4 * (fn * gd) + gn * fd <= 16 * (fd * gd)) by lia.
  assert (H7 : jd * delay * (4 * (fn * gd) + gn * fd) <= jd * delay * (16 * (fd * gd))) by (apply Z.mul_le_mono_nonneg_l; nia).
  (* 16777216 jd G <= ... *)
  set (G := Z.abs (R - delay) * S) in *.
  set (M1 := jd * delay * (fn * gd)). set (M2 := jd * delay * (gn * fd)). set (M3 := jd * (fd * gd)).
  set (M4 := delay * jn * (fd * gd)). set (M5 := jd * delay * (fd * gd)).
  assert (K1 : 16777216 * jd * G <= 16777216 * jd * U1 + 16777216 * jd * U2 + 16777216 * jd * U3).
  { assert (16777216 * jd * G <= 16777216 * jd * (U1 + U2 + U3)) by (apply Z.mul_le_mono_nonneg_l; lia).
    replace (16777216 * jd * U1 + 16777216 * jd * U2 + 16777216 * jd * U3) with (16777216 * jd * (U1 + U2 + U3)) by ring. assumption. }
  assert (K2 : 16777216 * jd * U1 <= 4 * M1 + 16777216 * M3).
  { assert (jd * (4194304 * U1) <= jd * ((delay * fn + 4194304 * fd) * gd)) by (apply Z.mul_le_mono_nonneg_l; lia).
    replace (4 * M1 + 16777216 * M3) with (4 * (jd * ((delay * fn + 4194304 * fd) * gd))) by (subst M1 M3; ring).
    replace (16777216 * jd * U1) with (4 * (jd * (4194304 * U1))) by ring. lia. }
  assert (K3 : 16777216 * jd * U2 <= M2).
  { assert (jd * (16777216 * U2) <= jd * (delay * (gn * fd))) by (apply Z.mul_le_mono_nonneg_l; lia).
    replace M2 with (jd * (delay * (gn * fd))) by (subst M2; ring). replace (16777216 * jd * U2) with (jd * (16777216 * U2)) by ring. assumption. }
  assert (K4 : 16777216 * jd * U3 <= 16777216 * M4).
  { replace (16777216 * jd * U3) with (16777216 * (jd * U3)) by ring. replace M4 with (delay * fd * (jn * gd)) by (subst M4; ring). lia. }
  assert (K5 : 4 * M1 + M2 <= 16 * M5).
  { replace (4 * M1 + M2) with (jd * delay * (4 * (fn * gd) + gn * fd)) by (subst M1 M2; ring).
    replace (16 * M5) with (jd * delay * (16 * (fd * gd))) by (subst M5; ring). exact H7. }
  assert (K : 16777216 * jd * G <= (1048576 * delay * jn + delay * jd + 1048576 * jd) * 16 * S).
  { replace ((1048576 * delay * jn + delay * jd + 1048576 * jd) * 16 * S) with (16777216 * M4 + 16 * M5 + 16777216 * M3) by (subst M3 M4 M5 S; ring).
    lia. }
  subst G.
  assert (K' : (1048576 * jd * Z.abs (R - delay)) * (16 * S) <= (1048576 * delay * jn + delay * jd + 1048576 * jd) * (16 * S)) by lia.
  apply Z.mul_le_mono_pos_r in K'; lia.
Qed.
