(* Proofs/ExecCheckerProofs.v — the C17 checker of Corr/ExecCheckers.v accepts every model log *)
From FS Require Import Model.Exec Proofs.ExecProofs Proofs.ExecStats Corr.ExecCheckers.
From Coq Require Import ZifyBool.

Lemma trace_ok_suffix a : forall b, trace_ok (a ++ b) -> trace_ok b.
Proof. induction a as [|e a IH]; intros b H; [exact H|]. cbn [app trace_ok] in H. apply IH. tauto. Qed.

Lemma kind_is_retry e : kind_is KRetry e = is_kind KRetry e.
Proof. unfold kind_is, is_kind. destruct (e_kind e); reflexivity. Qed.
Lemma kind_is_fnend e : kind_is KFnEnd e = is_kind KFnEnd e.
Proof. unfold kind_is, is_kind. destruct (e_kind e); reflexivity. Qed.
Lemma kind_is_hedge e : kind_is KHedge e = is_kind KHedge e.
Proof. unfold kind_is, is_kind. destruct (e_kind e); reflexivity. Qed.
Lemma bump_is k e : bump k (e_kind e) = if is_kind k e then 1 else 0.
Proof. reflexivity. Qed.

Lemma stats_ok_sound l : forall seen tlast,
  trace_ok (rev l ++ seen) ->
  (match seen with e :: _ => tlast = e_time e | [] => tlast <= match l with e :: _ => e_time e | [] => tlast end end) ->
  stats_ok seen (cntk KRetry seen) (cntk KHedge seen) (cntk KFnEnd seen) tlast l = true.
Proof.
  induction l as [|e l IH]; intros seen tlast Hok Ht; [reflexivity|].
  cbn [rev] in Hok. rewrite <- app_assoc in Hok. cbn [app] in Hok.
  pose proof (trace_ok_suffix _ _ Hok) as He. cbn [trace_ok] in He. destruct He as (Ha & Hr & Hh & Hx & Htime & _).
  cbn [stats_ok]. rewrite kind_is_retry, kind_is_fnend, kind_is_hedge.
  rewrite cntk_cons, bump_is in Hr, Hh, Hx.
  assert (E1 : (if is_kind KRetry e then cntk KRetry seen + 1 else cntk KRetry seen) = cntk KRetry (e :: seen))
    by (rewrite cntk_cons, bump_is; destruct (is_kind KRetry e); lia).
  assert (E2 : (if is_kind KFnEnd e then cntk KFnEnd seen + 1 else cntk KFnEnd seen) = cntk KFnEnd (e :: seen))
    by (rewrite cntk_cons, bump_is; destruct (is_kind KFnEnd e); lia).
  assert (E3 : (if is_kind KHedge e then cntk KHedge seen + 1 else cntk KHedge seen) = cntk KHedge (e :: seen))
    by (rewrite cntk_cons, bump_is; destruct (is_kind KHedge e); lia).
  rewrite E1, E2, E3. rewrite (IH (e :: seen) (e_time e) Hok eq_refl).
  assert (Hle : tlast <= e_time e) by (destruct seen as [|e' ?]; [exact Ht|subst tlast; exact Htime]).
  rewrite !cntk_cons, !bump_is. destruct (e_kind e); cbn [andb]; lia.
Qed.

(* with every completion listener registered, the C17 checker accepts the model's complete log of any
   execution through any stack (incl. what still-running hedge attempts log after the execution returned) *)
Theorem c17_checker_accepts_model fuel stack now ext key b l k c script :
  let evs := rev (w_trace (drain (snd (execute fuel stack (fresh_world now ext key b l k c script))))) in
  stats_ok [] 0 0 0 (match evs with e :: _ => e_time e | [] => 0 end) evs = true.
Proof.
  cbv zeta.
  pose proof (execution_statistics_exact fuel stack now ext key b l k c script) as H.
  set (tr := w_trace _) in *.
  change 0 with (cntk KRetry []) at 1. change 0 with (cntk KHedge []) at 1. change 0 with (cntk KFnEnd []) at 1.
  apply stats_ok_sound.
  - rewrite rev_involutive, app_nil_r. exact H.
  - destruct (rev tr); lia.
Qed.

(* ---- C16: the per-policy pairing checker accepts every model log ---- *)
From FS Require Import Proofs.ExecRetryEvents.

Definition scan (pos : nat) (s : option bool) (l : list event) : option bool := fold_left (fun s e => stp pos e s) l s.

Lemma scan_none pos l : scan pos None l = None.
Proof. induction l as [|e l IH]; [reflexivity|]. cbn [scan fold_left stp]. exact IH. Qed.

Lemma st_scan pos tr : st pos tr = scan pos (Some false) (rev tr).
Proof.
  induction tr as [|e tr IH]; [reflexivity|]. cbn [st rev]. unfold scan. rewrite fold_left_app. cbn [fold_left].
  fold (scan pos (Some false) (rev tr)). rewrite <- IH. reflexivity.
Qed.

Lemma kind_is_sched e : kind_is KRetryScheduled e = match e_kind e with KRetryScheduled => true | _ => false end.
Proof. unfold kind_is. destruct (e_kind e); reflexivity. Qed.
Lemma kind_is_retry' e : kind_is KRetry e = match e_kind e with KRetry => true | _ => false end.
Proof. unfold kind_is. destruct (e_kind e); reflexivity. Qed.

Lemma retry_pairs_scan pos l : forall b, retry_pairs_ok pos b l = true <-> scan pos (Some b) l <> None.
Proof.
  induction l as [|e l IH]; intros b; cbn [retry_pairs_ok scan fold_left]; [split; [discriminate|reflexivity]|].
  fold (scan pos (stp pos e (Some b)) l). rewrite kind_is_sched, kind_is_retry'. unfold stp.
  destruct (Nat.eqb (e_pos e) pos); cbn [andb]; [|apply IH].
  destruct (e_kind e); try apply IH.
  destruct b; cbn [andb]; [apply IH|]. rewrite scan_none. split; [discriminate|intros H; contradiction].
Qed.

Theorem c16_pairing_checker_accepts_model fuel stack now ext key b l k c script pos :
  retry_pairs_ok pos false (rev (w_trace (drain (snd (execute fuel stack (fresh_world now ext key b l k c script)))))) = true.
Proof. apply retry_pairs_scan. rewrite <- st_scan. apply retry_events_pair_up. Qed.
