(* Proofs/ClassifyProofs.v — C12 *)
From FS Require Import Spec.ClassifySpec.
From Coq Require Import Permutation.

(* A usable induction principle for the nested inductive [err]. *)
Section ErrInd.
  Variable P : err -> Prop.
  Hypothesis Hsent : forall n, P (ESent n).
  Hypothesis Hanon : P EAnon.
  Hypothesis Htv : forall t n, P (ETypedV t n).
  Hypothesis Htvp : forall t n, P (ETypedVP t n).
  Hypothesis Htp : forall t n, P (ETypedP t n).
  Hypothesis Hwrap : forall e, P e -> P (EWrap e).
  Hypothesis Hjoin : forall es, Forall P es -> P (EJoin es).
  Hypothesis Hcust : forall n t, P (ECustomIs n t).
  Hypothesis Hexc_none : forall r, P (EExceeded r None).
  Hypothesis Hexc_some : forall r e, P e -> P (EExceeded r (Some e)).
  Hypothesis Hopen : P EOpen.
  Hypothesis Hfull : P EFull.
  Hypothesis Hrate : P ERate.
  Hypothesis Htimeout : P ETimeout.
  Hypothesis Hrexc : P ERetryExceeded.
  Hypothesis Hcc : P ECtxCanceled.
  Hypothesis Hcd : P ECtxDeadline.
  Hypothesis Hec : P EExecCanceled.
  Hypothesis Hother : P EOther.

  Fixpoint err_ind' (e : err) : P e :=
    match e with
    | ESent n => Hsent n
    | EAnon => Hanon
    | ETypedV t n => Htv t n
    | ETypedVP t n => Htvp t n
    | ETypedP t n => Htp t n
    | EWrap x => Hwrap x (err_ind' x)
    | EJoin xs =>
        Hjoin xs ((fix go (l : list err) : Forall P l :=
                     match l with
                     | [] => Forall_nil P
                     | x :: l' => Forall_cons x (err_ind' x) (go l')
                     end) xs)
    | ECustomIs n t => Hcust n t
    | EExceeded r None => Hexc_none r
    | EExceeded r (Some x) => Hexc_some r x (err_ind' x)
    | EOpen => Hopen | EFull => Hfull | ERate => Hrate | ETimeout => Htimeout
    | ERetryExceeded => Hrexc
    | ECtxCanceled => Hcc | ECtxDeadline => Hcd | EExecCanceled => Hec
    | EOther => Hother
    end.
End ErrInd.

(* The local [any] fixpoints are existsb. *)
Lemma errors_is_join xs t :
  errors_is (EJoin xs) t =
  err_ideq (EJoin xs) t || has_is_method (EJoin xs) t || existsb (fun x => errors_is x t) xs.
Proof.
  reflexivity.
Qed.

Lemma error_as_join xs tt :
  error_as (EJoin xs) tt = assignable (EJoin xs) tt || existsb (fun x => error_as x tt) xs.
Proof.
  reflexivity.
Qed.

Lemma reaches_leaf e n :
  match e with EWrap _ | EJoin _ | EExceeded _ _ => False | _ => True end ->
  reaches e n -> n = e.
Proof. intros Hl Hr. destruct Hr; try reflexivity; contradiction. Qed.

(* ---- errors.Is agrees with the documented meaning ---- *)
Theorem errors_is_spec e t : errors_is e t = true <-> is_documented e t.
Proof.
  unfold is_documented. induction e as [n0 | | ty n0 | ty n0 | ty n0 | e IHe | es HF | n0 tg | r | r e IHe | | | | | | | | | ] using err_ind';
  try (cbn [errors_is]; rewrite Bool.orb_false_r; rewrite Bool.orb_true_iff; split;
       [ intros H; eexists; split; [apply reach_refl| exact H]
       | intros (n & Hr & H); apply reaches_leaf in Hr; [subst; exact H | exact I] ]).
  - (* EWrap *)
    cbn [errors_is]. rewrite !Bool.orb_true_iff, IHe. split.
    + intros [H | (n & Hr & H)].
      * eexists; split; [apply reach_refl|exact H].
      * exists n; split; [now apply reach_wrap | exact H].
    + intros (n & Hr & H). inversion Hr; subst.
      * left; exact H.
      * right; eauto.
  - (* EJoin *)
    rewrite errors_is_join, !Bool.orb_true_iff, existsb_exists. split.
    + intros [H | (x & Hin & Hx)].
      * eexists; split; [apply reach_refl|exact H].
      * rewrite Forall_forall in HF. apply (HF x Hin) in Hx. destruct Hx as (n & Hr & Hn).
        exists n; split; [eapply reach_join; eauto | exact Hn].
    + intros (n & Hr & Hn). inversion Hr; subst.
      * left; exact Hn.
      * right. exists x; split; [assumption|]. rewrite Forall_forall in HF.
        apply (HF x); eauto.
  - (* EExceeded None *)
    cbn [errors_is]. rewrite !Bool.orb_true_iff. split.
    + intros [H | H].
      * eexists; split; [apply reach_refl|exact H].
      * exists EAnon; split; [apply reach_exc_none | left; exact H].
    + intros (n & Hr & Hn). inversion Hr; subst.
      * left; exact Hn.
      * right. destruct Hn as [Hn|Hn]; [exact Hn | discriminate Hn].
  - (* EExceeded Some *)
    cbn [errors_is]. rewrite !Bool.orb_true_iff, IHe. split.
    + intros [H | (n & Hr & H)].
      * eexists; split; [apply reach_refl|exact H].
      * exists n; split; [now apply reach_exc | exact H].
    + intros (n & Hr & H). inversion Hr; subst.
      * left; exact H.
      * right; eauto.
Qed.

(* ---- ErrorTypesMatch agrees with "the type of the error or of anything it wraps or joins" ---- *)
Theorem error_as_spec e tt : error_as e tt = true <-> type_documented e tt.
Proof.
  unfold type_documented. induction e as [n0 | | ty n0 | ty n0 | ty n0 | e IHe | es HF | n0 tg | r | r e IHe | | | | | | | | | ] using err_ind';
  try (cbn [error_as]; rewrite Bool.orb_false_r; split;
       [ intros H; eexists; split; [apply reach_refl| exact H]
       | intros (n & Hr & H); apply reaches_leaf in Hr; [subst; exact H | exact I] ]).
  - cbn [error_as]. rewrite !Bool.orb_true_iff, IHe. split.
    + intros [H | (n & Hr & H)].
      * eexists; split; [apply reach_refl|exact H].
      * exists n; split; [now apply reach_wrap | exact H].
    + intros (n & Hr & H). inversion Hr; subst; [left; exact H | right; eauto].
  - rewrite error_as_join, !Bool.orb_true_iff, existsb_exists. split.
    + intros [H0 | (x & Hin & Hx)].
      * eexists; split; [apply reach_refl|exact H0].
      * rewrite Forall_forall in HF. apply (HF x Hin) in Hx. destruct Hx as (n & Hr & Hn).
        exists n; split; [eapply reach_join; eauto | exact Hn].
    + intros (n & Hr & Hn). inversion Hr; subst.
      * left; exact Hn.
      * right. exists x; split; [assumption|]. rewrite Forall_forall in HF. apply (HF x); eauto.
  - cbn [error_as]. rewrite !Bool.orb_true_iff. split.
    + intros [H | H].
      * eexists; split; [apply reach_refl|exact H].
      * exists EAnon; split; [apply reach_exc_none | exact H].
    + intros (n & Hr & Hn). inversion Hr; subst; [left; exact Hn | right; exact Hn].
  - cbn [error_as]. rewrite !Bool.orb_true_iff, IHe. split.
    + intros [H | (n & Hr & H)].
      * eexists; split; [apply reach_refl|exact H].
      * exists n; split; [now apply reach_exc | exact H].
    + intros (n & Hr & H). inversion Hr; subst; [left; exact H | right; eauto].
Qed.

(* ---- the builder fold equals the declarative reading ---- *)

Lemma build_fpolicy_gen calls p :
  f_conds (fold_left apply_hcall calls p) = f_conds p ++ all_conds calls /\
  f_errors_checked (fold_left apply_hcall calls p) =
    f_errors_checked p || existsb error_handling_call calls.
Proof.
  revert p. induction calls as [|c calls IH]; intros p; cbn [fold_left all_conds flat_map existsb].
  - now rewrite app_nil_r, Bool.orb_false_r.
  - destruct (IH (apply_hcall p c)) as [Hc He]. rewrite Hc, He. fold (all_conds calls).
    destruct c; cbn [apply_hcall f_conds f_errors_checked conds_of_hcall error_handling_call];
      rewrite <- ?app_assoc; split; try reflexivity;
      rewrite ?Bool.orb_true_r, ?Bool.orb_true_l, ?Bool.orb_false_l; reflexivity.
Qed.

Lemma build_fpolicy_conds calls : f_conds (build_fpolicy calls) = all_conds calls.
Proof. unfold build_fpolicy. now destruct (build_fpolicy_gen calls fpolicy_empty) as [-> _]. Qed.

Lemma build_fpolicy_checked calls :
  f_errors_checked (build_fpolicy calls) = existsb error_handling_call calls.
Proof. unfold build_fpolicy. now destruct (build_fpolicy_gen calls fpolicy_empty) as [_ ->]. Qed.

Theorem is_failure_documented calls o :
  is_failure (build_fpolicy calls) o = documented_is_failure calls o.
Proof.
  unfold is_failure, documented_is_failure, applies_to_any.
  rewrite build_fpolicy_conds, build_fpolicy_checked.
  destruct (all_conds calls) as [|c cs]; [reflexivity|].
  destruct (existsb (cond_matches o) (c :: cs)); reflexivity.
Qed.

(* The property's own wording, as a logical truth table. *)
Theorem is_failure_truth_table calls o :
  is_failure (build_fpolicy calls) o = true <->
    (all_conds calls = [] /\ has_err o = true)
    \/ (exists c, In c (all_conds calls) /\ cond_matches o c = true)
    \/ (has_err o = true /\ forall c, In c calls -> error_handling_call c = false).
Proof.
  rewrite is_failure_documented. unfold documented_is_failure.
  destruct (all_conds calls) as [|c cs] eqn:Hcs.
  - split; [intros H; left; split; [reflexivity|exact H]|].
    intros [[_ H]|[(c & [] & _)|[H _]]]; exact H.
  - rewrite Bool.orb_true_iff, existsb_exists, Bool.andb_true_iff, Bool.negb_true_iff. split.
    + intros [(x & Hin & Hx) | [He Hn]].
      * right; left; eauto.
      * right; right; split; [exact He|]. intros x Hin.
        destruct (error_handling_call x) eqn:E; [|reflexivity].
        assert (existsb error_handling_call calls = true) by (apply existsb_exists; eauto).
        congruence.
    + intros [[Hc _] | [(x & Hin & Hx) | [He Hn]]]; [discriminate Hc | left; eauto |].
      right; split; [exact He|].
      destruct (existsb error_handling_call calls) eqn:E; [|reflexivity].
      apply existsb_exists in E. destruct E as (x & Hin & Hx). rewrite (Hn x Hin) in Hx. discriminate.
Qed.

(* Result conditions only ever match outcomes without an error. *)
Theorem result_cond_only_without_error r k e : cond_matches (r, Some e) (CResult k) = false.
Proof. reflexivity. Qed.

Theorem result_cond_deep_equal r k : cond_matches (r, None) (CResult k) = Z.eqb r k.
Proof. reflexivity. Qed.

(* Before the fix for F2 the code did not satisfy the documented rule. *)
Theorem is_failure_documented_refuted_before_fix :
  exists calls o, is_failure_prefix (build_fpolicy calls) o <> documented_is_failure calls o.
Proof.
  exists [HandleErrors [ESent 0]; HandleResult 0], (0, Some (ESent 1)).
  vm_compute. discriminate.
Qed.

(* Order and grouping of registrations are irrelevant. *)
Lemma existsb_perm {A} (f : A -> bool) l l' : Permutation l l' -> existsb f l = existsb f l'.
Proof.
  induction 1 as [| x l l' Hp IH | x y l | l l' l'' H1 IH1 H2 IH2]; cbn.
  - reflexivity.
  - now rewrite IH.
  - destruct (f x), (f y); reflexivity.
  - congruence.
Qed.

Lemma all_conds_perm calls calls' :
  Permutation calls calls' -> Permutation (all_conds calls) (all_conds calls').
Proof.
  unfold all_conds. induction 1 as [| x l l' Hp IH | x y l | l l' l'' H1 IH1 H2 IH2]; cbn.
  - constructor.
  - now apply Permutation_app_head.
  - rewrite !app_assoc. apply Permutation_app_tail, Permutation_app_comm.
  - etransitivity; eauto.
Qed.

Theorem order_irrelevant calls calls' o :
  Permutation calls calls' ->
  is_failure (build_fpolicy calls) o = is_failure (build_fpolicy calls') o.
Proof.
  intros Hp. rewrite !is_failure_documented. unfold documented_is_failure.
  pose proof (all_conds_perm _ _ Hp) as Hc.
  rewrite (existsb_perm error_handling_call _ _ Hp).
  destruct (all_conds calls) as [|c cs] eqn:E1, (all_conds calls') as [|c' cs'] eqn:E2.
  - reflexivity.
  - apply Permutation_nil in Hc. discriminate.
  - apply Permutation_sym, Permutation_nil in Hc. discriminate.
  - now rewrite (existsb_perm (cond_matches o) _ _ Hc).
Qed.

(* ---- abort / cancel conditions ---- *)

Lemma build_abort_gen calls cs :
  fold_left apply_acall calls cs = cs ++ flat_map conds_of_acall calls.
Proof.
  revert cs. induction calls as [|c calls IH]; intros cs; cbn [fold_left flat_map].
  - now rewrite app_nil_r.
  - rewrite IH. destruct c; cbn [apply_acall conds_of_acall]; now rewrite <- app_assoc.
Qed.

Theorem is_abortable_documented calls o :
  is_abortable (build_abort calls) o = documented_is_abortable calls o.
Proof. unfold is_abortable, build_abort, applies_to_any. now rewrite build_abort_gen. Qed.

Theorem abort_none_configured_never_aborts o : is_abortable (build_abort []) o = false.
Proof. reflexivity. Qed.

Theorem hedge_cancel_documented calls o :
  is_abortable (build_hedge_cancel calls) o = documented_hedge_cancels calls o.
Proof.
  unfold build_hedge_cancel, documented_hedge_cancels, is_abortable, build_abort, applies_to_any.
  rewrite build_abort_gen. cbn [app].
  destruct (flat_map conds_of_acall calls); reflexivity.
Qed.

(* Non-vacuity: a mixed registration list behaves as the table says on concrete outcomes. *)
Example classify_examples :
  let calls := [HandleErrors [ESent 0]; HandleResult 7; HandleErrorTypes [TgtErr (ETypedV 1 0)]] in
  is_failure (build_fpolicy calls) (7, None) = true /\
  is_failure (build_fpolicy calls) (7, Some (ESent 1)) = false /\
  is_failure (build_fpolicy calls) (0, Some (EWrap (EJoin [ESent 3; EWrap (ESent 0)]))) = true /\
  is_failure (build_fpolicy calls) (0, Some (EWrap (ETypedV 1 5))) = true /\
  is_failure (build_fpolicy calls) (0, Some (ETypedVP 1 5)) = false /\
  is_failure (build_fpolicy [HandleResult 7]) (0, Some (ESent 1)) = true.
Proof. vm_compute. repeat split. Qed.
