(* Proofs/TimeoutRaceProofs.v — C07: every interleaving of the timeout protocol ends consistently *)
From FS Require Import Model.TimeoutRace.

(* the invariant relating the shared cell, both program counters, the listener count and the cancellation flag *)
Definition inv (s : st) : bool :=
  match s_cell s, s_t s, s_m s, s_listener s, s_cancelled s with
  | CNone, (TIdle), (MRunning | MReturned), Zero, false => true
  | CTimeout, TWon, (MRunning | MReturned | MStopped | MDone), Zero, false => true
  | CTimeout, TListened, (MRunning | MReturned | MStopped | MDone), One, false => true
  | CTimeout, TDoneWon, (MRunning | MReturned | MStopped | MDone), One, true => true
  | CInner, (TIdle | TLost), (MSwapped | MStopped | MDone), Zero, false => true
  | CInner, TStopped, (MStopped | MDone), Zero, false => true
  | _, _, _, _, _ => false
  end
  && (match s_m s with MDone => match s_ret s, s_cell s with CInner, CInner | CTimeout, CTimeout => true | _, _ => false end
                    | _ => match s_ret s with CNone => true | _ => false end end)
  && (* a blocking function has returned only after the cancellation *)
     (if s_blocking s then match s_m s with MRunning => true | _ => s_cancelled s end else true).

Lemma inv_init b : inv (init b) = true.
Proof. destruct b; reflexivity. Qed.

Lemma inv_step s x : inv s = true -> inv (do_step s x) = true.
Proof.
  destruct s as [c t m l k b r]. destruct c, t, m, l, k, b, r; cbn; try discriminate; intros _; destruct x; reflexivity.
Qed.

Lemma inv_run tr : forall s, inv s = true -> inv (run s tr) = true.
Proof. induction tr as [|x tr IH]; intros s H; [exact H|]. cbn [run fold_left]. apply IH. apply inv_step. exact H. Qed.

Lemma inv_quiescent_exclusive s : inv s = true -> quiescent s = true -> exclusive s = true.
Proof.
  destruct s as [c t m l k b r]. destruct c, t, m, l, k, b, r; cbn; try discriminate; reflexivity.
Qed.

Lemma inv_blocking_timeout s : inv s = true -> s_blocking s = true -> s_m s = MDone -> s_ret s = CTimeout.
Proof.
  destruct s as [c t m l k b r]. destruct c, t, m, l, k, b, r; cbn; try discriminate; reflexivity.
Qed.

(* every interleaving, of any length, that reaches a quiescent state reaches one of the two consistent outcomes *)
Theorem timeout_exclusive blocking tr :
  quiescent (run (init blocking) tr) = true -> exclusive (run (init blocking) tr) = true.
Proof. intros H. apply inv_quiescent_exclusive; [apply inv_run, inv_init|exact H]. Qed.

(* a function that only returns on cancellation always ends in the timeout outcome *)
Theorem blocks_until_cancel_always_exceeds tr :
  s_m (run (init true) tr) = MDone -> s_ret (run (init true) tr) = CTimeout.
Proof.
  intros H. apply inv_blocking_timeout; [apply inv_run, inv_init| |exact H].
  assert (Hb : forall tr s, s_blocking (run s tr) = s_blocking s).
  { clear. induction tr as [|x tr IH]; intros s; [reflexivity|]. cbn [run fold_left]. fold (run (do_step s x) tr). rewrite IH.
    destruct s as [c t m l k b r]. destruct x, c, t, m; try reflexivity; cbn; destruct (negb b || k); reflexivity. }
  rewrite Hb. reflexivity.
Qed.

(* non-vacuity: both outcomes are reachable *)
Example inner_wins : exclusive (run (init false) [MReturn; MCas; MStop; MPost]) = true /\ quiescent (run (init false) [MReturn; MCas; MStop; MPost]) = true.
Proof. split; reflexivity. Qed.
Example timer_wins : let s := run (init true) [TFire; TListener; TCancel; MReturn; MCas; MPost] in
  s_ret s = CTimeout /\ quiescent s = true /\ exclusive s = true.
Proof. repeat split; reflexivity. Qed.
