(* Proofs/FutureProofs.v — C15 *)
From FS Require Import Model.Future.
From Coq Require Import Lia PeanoNat.

(* invariant of the publication protocol *)
Definition finv (s : fut) : Prop :=
  match f_r s with
  | RExecuting | RListened => f_stored s = false /\ f_flag s = false /\ f_closed s = 0
  | RStored => f_stored s = true /\ f_flag s = false /\ f_closed s = 0
  | RFlagged => f_stored s = true /\ f_flag s = true /\ f_closed s = 0
  | RClosed => f_stored s = true /\ f_flag s = true /\ f_closed s = 1
  end /\ (forall b, In b (f_gets s) -> b = true).

Lemma finv_init : finv fut_init.
Proof. split; [cbn; auto|intros b []]. Qed.

Lemma finv_step s x : finv s -> finv (fut_step s x).
Proof.
  intros [H Hg]. destruct s as [r st fl cl gs]. cbn [f_r f_stored f_flag f_closed f_gets] in *.
  destruct x; destruct r; cbn [fut_step f_r f_stored f_flag f_closed f_gets];
    destruct H as (Hs & Hf & Hc); subst;
    try (split; [cbn; auto|exact Hg]).
  all: cbn [Nat.ltb Nat.leb]; split; cbn [f_r f_stored f_flag f_closed f_gets]; auto.
  intros b [<-|Hb]; [reflexivity|apply Hg; exact Hb].
Qed.

Lemma finv_run tr : forall s, finv s -> finv (fold_left fut_step tr s).
Proof. induction tr as [|x tr IH]; intros s H; [exact H|]. cbn. apply IH, finv_step, H. Qed.

(* the Done channel is closed at most once, only after the result was stored (which is after the
   listeners ran), and every Get/Result/Error that returns does so after the close and sees the result *)
Theorem done_closed_once_after_result tr :
  let s := fut_run tr in
  f_closed s <= 1 /\ (f_closed s = 1 -> f_stored s = true /\ f_r s = RClosed) /\ (forall b, In b (f_gets s) -> b = true).
Proof.
  cbv zeta. pose proof (finv_run tr fut_init finv_init) as [H Hg]. fold (fut_run tr) in *.
  destruct (f_r (fut_run tr)) eqn:E; destruct H as (Hs & Hf & Hc); rewrite Hc; repeat split; auto; try lia; try discriminate.
Qed.

(* IsDone is true exactly when Done is closed (after the fix) *)
Theorem isdone_iff_closed tr : is_done true (fut_run tr) = done_closed (fut_run tr).
Proof. reflexivity. Qed.

(* before the fix: a reachable state in which IsDone is true while Done is not closed (finding F4) *)
Theorem isdone_before_close_prefix : exists tr, is_done false (fut_run tr) = true /\ done_closed (fut_run tr) = false.
Proof. exists [FExecute; FStore; FFlag]. split; reflexivity. Qed.

(* Cancel(): the invariant of the fixed protocol — the context is done only together with the stored cancellation result *)
Definition kinv (s : crace) : bool :=
  match k_ctx s, k_cell s, k_report s with
  | true, VExecCanceled, (RepNone | RepExecCanceled) => true
  | false, _, RepNone => true
  | _, _, _ => false
  end.

Lemma kinv_step s x : (match x with KA | KB => false | _ => true end) = true -> kinv s = true -> kinv (crace_step s x) = true.
Proof. destruct s as [c k a r]. destruct x, c, k, a, r; cbn; intros; try discriminate; reflexivity. Qed.

Lemma kinv_run tr : fixed_trace tr = true -> forall s, kinv s = true -> kinv (fold_left crace_step tr s) = true.
Proof.
  induction tr as [|x tr IH]; intros Hf s H; [exact H|]. cbn in Hf. apply andb_prop in Hf. destruct Hf as [Hx Hf].
  cbn [fold_left]. apply IH; [exact Hf|]. apply kinv_step; assumption.
Qed.

(* after the fix: however Cancel() interleaves with the retry loop, an execution that notices the
   cancellation reports ErrExecutionCanceled, never context.Canceled *)
Theorem async_cancel_attribution tr : fixed_trace tr = true ->
  k_report (crace_run tr) = RepNone \/ k_report (crace_run tr) = RepExecCanceled.
Proof.
  intros Hf. pose proof (kinv_run tr Hf crace_init eq_refl) as H. fold (crace_run tr) in H.
  destruct (crace_run tr) as [c k a r]. cbn in *. destruct k, c, r; try discriminate; auto.
Qed.

(* before the fix (finding F3): A ; InitializeRetry ; B ; check  reports context.Canceled *)
Theorem async_cancel_misattributed_prefix : k_report (crace_run [KA; KInit; KB; KCheck]) = RepCtxCanceled.
Proof. reflexivity. Qed.
