(* Proofs/ExecRetryBudget.v — C02 over whole executions: in the complete log of any execution through any stack, a retry
   policy with a bound starts at most maxRetries retries -- however often the policies around it re-enter it (its count of
   failed attempts lives in the execution's ledger, not in one run of its loop), whatever the policies inside it do, whatever
   the script.  Fifth induction over the stack, through the generic pass of Proofs/ExecRetryEvents.v: the invariant
       (number of OnRetry events of position p0 so far) <= (failed attempts charged to p0's ledger)  and  <= maxRetries
   is kept by every layer at another position (none logs an OnRetry of p0 or writes p0's ledger) and by p0's own loop
   (a retry starts only after a failure was charged and the ledger did not exceed the bound). *)
From FS Require Import Model.Exec Proofs.ExecProofs Proofs.ExecRetryEvents.
From FS Require Import Corr.ExecCorr Corr.ExecCheckers.
From Coq Require Import ZifyBool.

Definition retry_at (p0 : nat) (e : event) : bool := kind_is KRetry e && Nat.eqb (e_pos e) p0.
Definition rcount (p0 : nat) (w : world) : Z := Z.of_nat (length (filter (retry_at p0) (w_trace w))).

(* the events that are not an OnRetry of p0, the positions that are not p0 *)
Definition Nb (p0 : nat) (k : evk) (q : nat) : Prop := (evk_code k =? evk_code KRetry) = false \/ q <> p0.
Definition Pb (p0 : nat) (q : nat) : Prop := q <> p0.

Lemma Nb_plain p0 k q : plain_kind k = true -> Nb p0 k q.
Proof. intros H. left. destruct k; cbn in H; try discriminate; reflexivity. Qed.

Lemma rcount_emit p0 w k q o aux : Nb p0 k q -> rcount p0 (emit w k q o aux) = rcount p0 w.
Proof.
  intros H. unfold rcount, emit. cbn [w_trace set_trace filter]. unfold retry_at at 1, kind_is. cbn [e_kind e_pos].
  destruct H as [H|H]; [rewrite H; reflexivity|].
  destruct (Nat.eqb q p0) eqn:E; [apply Nat.eqb_eq in E; contradiction|]. rewrite andb_false_r. reflexivity.
Qed.

Lemma rcount_stamp p0 w c : rcount p0 (stamp w c) = rcount p0 w.
Proof.
  assert (H : forall e e' t, e_kind e' = e_kind e -> e_pos e' = e_pos e ->
            length (filter (retry_at p0) (e' :: t)) = length (filter (retry_at p0) (e :: t))).
  { intros e e' t Hk Hp. cbn [filter]. unfold retry_at, kind_is. rewrite Hk, Hp. destruct (_ && _); reflexivity. }
  unfold rcount, stamp. destruct (w_trace w) as [|e t] eqn:E; [rewrite E; reflexivity|]. cbn [w_trace set_trace].
  f_equal. apply H; reflexivity.
Qed.

Lemma rcount_retry p0 w c r : rcount p0 (ev_with_result w c KRetry p0 r) = rcount p0 w + 1.
Proof.
  unfold ev_with_result. rewrite rcount_stamp. unfold rcount, emit. cbn [w_trace set_trace filter]. unfold retry_at at 1, kind_is.
  cbn [e_kind e_pos]. rewrite Nat.eqb_refl. cbn [andb evk_code Z.eqb Pos.eqb length]. lia.
Qed.

Lemma get_put_rstate_other w q r p0 : q <> p0 -> get_rstate (put_rstate w q r) p0 = get_rstate w p0.
Proof.
  intros Hne. unfold get_rstate, put_rstate. cbn [w_retry set_retry find fst].
  destruct (Nat.eqb q p0) eqn:E; [apply Nat.eqb_eq in E; contradiction|].
  induction (w_retry w) as [|[a b] l IH]; [reflexivity|]. cbn [filter find fst].
  destruct (Nat.eqb a q) eqn:Ea; cbn [negb].
  - apply Nat.eqb_eq in Ea. subst a. rewrite E. exact IH.
  - cbn [find fst]. destruct (Nat.eqb a p0); [reflexivity|exact IH].
Qed.

(* ---- instance 5 of the generic pass: nothing of p0 is touched (no OnRetry of p0 logged, p0's ledger as it was) ---- *)
Definition bsame (p0 : nat) (w w' : world) : Prop := rcount p0 w' = rcount p0 w /\ get_rstate w' p0 = get_rstate w p0.

Lemma b_refl p0 w : bsame p0 w w. Proof. split; reflexivity. Qed.
Lemma b_trans p0 a b c : bsame p0 a b -> bsame p0 b c -> bsame p0 a c.
Proof. intros [A1 A2] [B1 B2]. split; congruence. Qed.
Lemma b_frame p0 w w' : w_trace w' = w_trace w -> w_retry w' = w_retry w -> bsame p0 w w'.
Proof. intros Ht Hr. split; [unfold rcount; rewrite Ht; reflexivity|apply get_rstate_ext, Hr]. Qed.
Lemma b_put p0 w q r : Pb p0 q -> bsame p0 w (put_rstate w q r).
Proof. intros H. split; [reflexivity|apply get_put_rstate_other, H]. Qed.
Lemma b_emit p0 w k q o aux : Nb p0 k q -> bsame p0 w (emit w k q o aux).
Proof. intros H. split; [apply rcount_emit, H|apply get_rstate_ext; reflexivity]. Qed.
Lemma b_stamp p0 w c : bsame p0 w (stamp w c).
Proof.
  split; [apply rcount_stamp|]. apply get_rstate_ext. unfold stamp. destruct (w_trace w); reflexivity.
Qed.
#[local] Hint Resolve b_refl b_trans b_frame b_put b_emit b_stamp Nb_plain : bdb.
#[local] Hint Extern 1 (Nb _ _ _) => (left; reflexivity) : bdb.
#[local] Hint Extern 1 (Nb _ _ _) => (right; lia) : bdb.
#[local] Hint Extern 1 (Pb _ _) => (unfold Pb; lia) : bdb.

Ltac inst_b p0 lem := first [eapply lem with (N := Nb p0) (P := Pb p0) | eapply lem with (N := Nb p0) | eapply lem]; eauto with bdb.

(* everything at a position other than p0 -- here: everything below position [start] > p0 -- leaves p0 alone *)
Theorem compose_bquiet p0 fuel stack : forall start total, (p0 < start)%nat -> quiet (bsame p0) (compose fuel start stack total).
Proof.
  induction stack as [|p rest IH]; intros start total Hlt; cbn [compose].
  - inst_b p0 fn_layer_quiet.
  - specialize (IH (S start) total ltac:(lia)). destruct p as [rc|bi|li lmw|ki kmw|lim|fc|ci cc|hc]; cbn [apply_policy].
    + intros c w. eapply retry_loop_quiet with (N := Nb p0) (P := Pb p0); eauto with bdb.
    + inst_b p0 breaker_layer_quiet.
    + inst_b p0 limiter_layer_quiet.
    + inst_b p0 bulkhead_layer_quiet.
    + inst_b p0 timeout_layer_quiet.
    + inst_b p0 fallback_layer_quiet.
    + inst_b p0 cache_layer_quiet.
    + inst_b p0 hedge_layer_quiet.
Qed.

(* ---- instance 6: the budget invariant of p0 with bound m is kept ---- *)
Definition Inv (p0 : nat) (m : Z) (w : world) : Prop :=
  rcount p0 w <= rs_failed (get_rstate w p0) /\ rcount p0 w <= m.
Definition Irel (p0 : nat) (m : Z) (w w' : world) : Prop := Inv p0 m w -> Inv p0 m w'.

Lemma bsame_Irel p0 m w w' : bsame p0 w w' -> Irel p0 m w w'.
Proof. intros [A B] [H1 H2]. unfold Inv. rewrite A, B. split; assumption. Qed.

Lemma i_refl p0 m w : Irel p0 m w w. Proof. intros H. exact H. Qed.
Lemma i_trans p0 m a b c : Irel p0 m a b -> Irel p0 m b c -> Irel p0 m a c. Proof. unfold Irel. auto. Qed.
Lemma i_frame p0 m w w' : w_trace w' = w_trace w -> w_retry w' = w_retry w -> Irel p0 m w w'.
Proof. intros. apply bsame_Irel, b_frame; assumption. Qed.
Lemma i_put p0 m w q r : Pb p0 q -> Irel p0 m w (put_rstate w q r). Proof. intros. apply bsame_Irel, b_put; assumption. Qed.
Lemma i_emit p0 m w k q o aux : Nb p0 k q -> Irel p0 m w (emit w k q o aux). Proof. intros. apply bsame_Irel, b_emit; assumption. Qed.
Lemma i_stamp p0 m w c : Irel p0 m w (stamp w c). Proof. apply bsame_Irel, b_stamp. Qed.
#[local] Hint Resolve i_refl i_trans i_frame i_put i_emit i_stamp Nb_plain : idb.
#[local] Hint Extern 1 (Nb _ _ _) => (left; reflexivity) : idb.
#[local] Hint Extern 1 (Nb _ _ _) => (right; lia) : idb.
#[local] Hint Extern 1 (Pb _ _) => (unfold Pb; lia) : idb.

Ltac inst_i p0 lem := first [eapply lem with (N := Nb p0) (P := Pb p0) | eapply lem with (N := Nb p0) | eapply lem]; eauto with idb.

(* ---- the count alone (instance 7, trace-only): what p0's own verdict on a failed attempt logs contains no OnRetry ---- *)
Definition csame (p0 : nat) (w w' : world) : Prop := rcount p0 w' = rcount p0 w.
Lemma c_refl p0 w : csame p0 w w. Proof. reflexivity. Qed.
Lemma c_trans p0 a b c : csame p0 a b -> csame p0 b c -> csame p0 a c. Proof. unfold csame. congruence. Qed.
Lemma c_frame p0 w w' : w_trace w' = w_trace w -> w_retry w' = w_retry w -> csame p0 w w'.
Proof. intros Ht _. unfold csame, rcount. rewrite Ht. reflexivity. Qed.
Lemma c_put p0 w q r : True -> csame p0 w (put_rstate w q r). Proof. reflexivity. Qed.
Lemma c_emit p0 w k q o aux : (evk_code k =? evk_code KRetry) = false -> csame p0 w (emit w k q o aux).
Proof. intros H. apply rcount_emit. left. exact H. Qed.
Lemma c_stamp p0 w c : csame p0 w (stamp w c). Proof. apply rcount_stamp. Qed.
Lemma c_plain k (q : nat) : plain_kind k = true -> (evk_code k =? evk_code KRetry) = false.
Proof. intros H. destruct k; cbn in H; try discriminate; reflexivity. Qed.

Lemma retry_on_failure_count p0 cfg c r w : rcount p0 (snd (retry_on_failure cfg p0 c r w)) = rcount p0 w.
Proof.
  assert (X : csame p0 w (snd (retry_on_failure cfg p0 c r w))).
  { eapply same_retry_on_failure with (R := csame p0) (N := fun k _ => (evk_code k =? evk_code KRetry) = false) (P := fun _ => True);
      first [reflexivity | exact I | apply c_refl | apply c_trans | apply c_frame | apply c_put | apply c_emit | apply c_stamp | apply c_plain]. }
  exact X.
Qed.

(* the retry policy at p0 itself *)
Lemma retry_loop_Inv p0 cfg inner : 0 <= r_max_retries cfg ->
  quiet (Irel p0 (r_max_retries cfg)) inner -> quiet (bsame p0) inner ->
  forall fuel c w, Inv p0 (r_max_retries cfg) w -> Inv p0 (r_max_retries cfg) (snd (fst (retry_loop fuel cfg p0 inner c w))).
Proof.
  intros Hm Hi Hq. set (m := r_max_retries cfg) in *.
  induction fuel as [|fuel IH]; intros c w HI; cbn [retry_loop].
  - cbn [fst snd]. apply (i_frame p0 m w); [reflexivity|reflexivity|exact HI].
  - pose proof (Hi c w HI) as I1. destruct (inner c w) as [r w1]. cbn [snd] in I1.
    destruct (is_canceled w1 c); [exact I1|]. destruct (rs_exceeded (get_rstate w1 p0)) eqn:Ex1; [exact I1|].
    destruct (is_failure (r_fpol cfg) (pr_out r)) eqn:Ef.
    + (* a failed attempt: charged to the ledger; nothing it logs is an OnRetry *)
      pose proof (retry_on_failure_rstate cfg p0 c (with_failure r) w1) as H. cbv zeta in H.
      pose proof (retry_on_failure_count p0 cfg c (with_failure r) w1) as Hc.
      assert (Hg0 : get_rstate (pause (ev_with_result w1 c KPolFailure p0 (with_failure r)) (r_lsn_dur cfg)) p0 = get_rstate w1 p0).
      { apply get_rstate_ext. rewrite (sp_retry _ _ (pause_sps _ _)). reflexivity. }
      rewrite Hg0 in H.
      destruct (retry_on_failure cfg p0 c (with_failure r) w1) as [r2 w2]. cbn [fst snd] in H, Hc.
      destruct H as (Hrs & Hdone & _).
      destruct I1 as [I1a I1b].
      assert (I2 : Inv p0 m w2).
      { unfold Inv. rewrite Hc, Hrs. cbn [rs_failed]. split; lia. }
      destruct (pr_done r2) eqn:Ed; [exact I2|].
      (* not done: the budget was not exceeded, so the charged count is within the bound *)
      match type of Hrs with _ = {| rs_failed := ?f; rs_exceeded := ?e |} => destruct e eqn:Ee end.
      { specialize (Hdone eq_refl). congruence. }
      assert (Hle : rs_failed (get_rstate w1 p0) + 1 <= m).
      { apply orb_false_iff in Ee. destruct Ee as [E1 _]. subst m. lia. }
      destruct (is_canceled w2 c); [exact I2|].
      set (w3 := set_copy_last w2 c (pr_out r2)).
      set (w4 := stamp (emit w3 KRetryScheduled p0 _ _) c).
      assert (B4 : bsame p0 w2 w4).
      { subst w4. eapply b_trans; [|apply b_stamp]. eapply b_trans; [|apply b_emit; left; reflexivity]. subst w3. apply b_frame; reflexivity. }
      assert (B5 : bsame p0 w4 (snd (wait w4 (retry_delay cfg w3) (Some c)))) by (inst_b p0 same_wait).
      destruct (wait w4 _ (Some c)) as [ii w5]. cbn [snd] in B5.
      assert (B25 : bsame p0 w2 w5) by exact (b_trans p0 _ _ _ B4 B5).
      destruct (is_canceled w5 c); [exact (bsame_Irel p0 m _ _ B25 I2)|].
      match goal with |- context [retry_loop fuel cfg p0 inner c ?w9] => set (w9' := w9) end.
      assert (I9 : Inv p0 m w9').
      { subst w9'. destruct B25 as [Bc Br]. unfold Inv. rewrite rcount_retry.
        match goal with |- context [rcount p0 ?w8] => assert (E8 : rcount p0 w8 = rcount p0 w5) by reflexivity end.
        rewrite E8, Bc, Hc.
        match goal with |- context [get_rstate (ev_with_result ?w8 c KRetry p0 r2) p0] =>
          assert (G8 : get_rstate (ev_with_result w8 c KRetry p0 r2) p0 = get_rstate w5 p0) by (apply get_rstate_ext; reflexivity) end.
        rewrite G8, Br, Hrs. cbn [rs_failed]. split; lia. }
      specialize (IH c w9' I9). destruct (retry_loop fuel cfg p0 inner c w9') as [[rr ww] n]. exact IH.
    + cbn [pr_done with_done fst snd]. apply (bsame_Irel p0 m w1); [|exact I1].
      unfold ev_with_result. eapply b_trans; [|apply b_stamp]. apply b_emit; left; reflexivity.
Qed.

(* the stack: the policy at position p0 is a retry policy with configuration cfg0 *)
Theorem compose_Inv p0 cfg0 fuel : 0 <= r_max_retries cfg0 -> forall stack start total,
  ((start <= p0)%nat -> nth_error stack (p0 - start) = Some (PRetry cfg0)) ->
  quiet (Irel p0 (r_max_retries cfg0)) (compose fuel start stack total).
Proof.
  intros Hm. induction stack as [|p rest IH]; intros start total Hp; cbn [compose].
  - inst_i p0 fn_layer_quiet.
  - assert (IHr : quiet (Irel p0 (r_max_retries cfg0)) (compose fuel (S start) rest total)).
    { apply IH. intros Hle. specialize (Hp ltac:(lia)). replace (p0 - start)%nat with (S (p0 - S start)) in Hp by lia. exact Hp. }
    destruct (Nat.eq_dec start p0) as [->|Hne].
    + (* the retry policy in question *)
      specialize (Hp (le_n _)). rewrite Nat.sub_diag in Hp. cbn [nth_error] in Hp. injection Hp as ->. cbn [apply_policy].
      intros c w HI. apply (retry_loop_Inv p0 cfg0 _ Hm IHr (compose_bquiet p0 fuel rest (S p0) total ltac:(lia)) fuel c w HI).
    + destruct p as [rc|bi|li lmw|ki kmw|lim|fc|ci cc|hc]; cbn [apply_policy].
      * intros c w. eapply retry_loop_quiet with (N := Nb p0) (P := Pb p0); eauto with idb.
      * inst_i p0 breaker_layer_quiet.
      * inst_i p0 limiter_layer_quiet.
      * inst_i p0 bulkhead_layer_quiet.
      * inst_i p0 timeout_layer_quiet.
      * inst_i p0 fallback_layer_quiet.
      * inst_i p0 cache_layer_quiet.
      * inst_i p0 hedge_layer_quiet.
Qed.

Lemma Inv_drain p0 m w : Inv p0 m w -> Inv p0 m (drain w).
Proof.
  intros HI. unfold drain. destruct (w_bg w); [exact HI|].
  match goal with |- Inv _ _ (snd (advance ?f ?w0 ?t ?i ?a)) => assert (HA : Irel p0 m w0 (snd (advance f w0 t i a))) by (inst_i p0 same_advance) end.
  apply HA. apply (i_frame p0 m w); [reflexivity|reflexivity|exact HI].
Qed.

(* C02: in the complete log of any execution through any stack, the retry policy at position p0 -- whatever is around it and
   inside it -- starts at most maxRetries retries *)
Theorem retries_within_budget fuel stack now ext key b l k c script p0 cfg0 :
  nth_error stack p0 = Some (PRetry cfg0) -> 0 <= r_max_retries cfg0 ->
  rcount p0 (drain (snd (execute fuel stack (fresh_world now ext key b l k c script)))) <= r_max_retries cfg0.
Proof.
  intros Hn Hm. set (m := r_max_retries cfg0).
  assert (I0 : Inv p0 m (fresh_world now ext key b l k c script)).
  { assert (I00 : Inv p0 m (fresh_world0 now ext key b l k c script)) by (unfold Inv; cbn; lia).
    unfold fresh_world. destruct ext as [[t e]|]; [|exact I00]. destruct (t <=? now); [|exact I00].
    apply (same_fire_ext (Irel p0 m) (i_refl p0 m) (i_trans p0 m) (i_frame p0 m)); exact I00. }
  apply (Inv_drain p0 m). unfold execute.
  pose proof (compose_Inv p0 cfg0 fuel Hm stack 0%nat (length stack)) as Hc.
  specialize (Hc ltac:(intros _; rewrite Nat.sub_0_r; exact Hn) 0%nat _ I0).
  destruct (compose fuel 0 stack (length stack) 0%nat (fresh_world now ext key b l k c script)) as [r w1]. cbn [snd] in Hc.
  apply (i_emit p0 m _ KExecDone); [left; reflexivity|]. destruct (pr_all r); apply (i_emit p0 m w1); try (left; reflexivity); exact Hc.
Qed.

(* ---- the executable form (Corr/ExecCheckers.v retries_bounded) accepts every model log ---- *)
Lemma filter_filter_len {A} (f g : A -> bool) (l : list A) : (forall x, g x = false -> f x = false) ->
  length (filter f (filter g l)) = length (filter f l).
Proof.
  intros H. induction l as [|x l IH]; [reflexivity|]. cbn [filter]. destruct (g x) eqn:E; cbn [filter].
  - destruct (f x); cbn [length]; rewrite IH; reflexivity.
  - rewrite (H x E). exact IH.
Qed.

Lemma filter_rev_len {A} (f : A -> bool) (l : list A) : length (filter f (rev l)) = length (filter f l).
Proof.
  induction l as [|x l IH]; [reflexivity|]. cbn [rev]. rewrite filter_app, app_length, IH. cbn [filter].
  destruct (f x); cbn [length]; lia.
Qed.

Lemma combine_seq_nth {A} (l : list A) : forall s i x, In (i, x) (combine (seq s (length l)) l) -> nth_error l (i - s) = Some x /\ (s <= i)%nat.
Proof.
  induction l as [|y l IH]; intros s i x H; [destruct H|]. cbn [length seq combine] in H. destruct H as [H|H].
  - injection H as <- <-. rewrite Nat.sub_diag. split; [reflexivity|lia].
  - destruct (IH (S s) i x H) as [E L]. split; [|lia]. replace (i - s)%nat with (S (i - S s)) by lia. exact E.
Qed.

Theorem retries_checker_accepts_model fuel stack now ext key b l k c script lsn mask q o :
  q_stack q = stack ->
  x_events o = filter (blsn_keeps mask) (filter (lsn_keeps lsn)
     (rev (w_trace (drain (snd (execute fuel stack (fresh_world now ext key b l k c script))))))) ->
  retries_bounded q o = true.
Proof.
  intros Hs Ho. unfold retries_bounded. rewrite Hs. apply forallb_forall. intros [i pol] Hin.
  destruct (combine_seq_nth stack 0%nat i pol Hin) as [Hn _]. rewrite Nat.sub_0_r in Hn. cbn [fst snd].
  destruct pol as [cfg| | | | | | |]; try reflexivity.
  destruct (0 <=? r_max_retries cfg) eqn:E0; [|reflexivity]. apply Z.leb_le in E0. apply Z.leb_le.
  pose proof (retries_within_budget fuel stack now ext key b l k c script i cfg Hn E0) as H. unfold rcount in H.
  rewrite Ho.
  rewrite (filter_filter_len _ (blsn_keeps mask)).
  2:{ intros e He. unfold blsn_keeps in He. unfold kind_is. destruct (e_kind e); try discriminate; reflexivity. }
  rewrite (filter_filter_len _ (lsn_keeps lsn)).
  2:{ intros e He. unfold lsn_keeps in He. unfold kind_is. destruct (e_kind e); try discriminate; reflexivity. }
  rewrite filter_rev_len. exact H.
Qed.

(* the bound is reached, also by a policy that an enclosing retry policy re-enters: outer (2 retries) around inner (1 retry)
   around a function that always fails -- the inner policy starts its one retry in the first outer attempt and none later *)
Example budget_is_reached_when_nested :
  let rc n := {| r_fpol := build_fpolicy []; r_abort := []; r_max_retries := n; r_max_duration := 0; r_return_last := false;
                 r_delay := 0; r_lsn_dur := 0 |} in
  let stack := [PRetry (rc 2); PRetry (rc 1)] in
  let w := drain (snd (execute 64 stack (fresh_world 0 None CKNone [] [] [] []
                 [{| fs_out := (0, Some (ESent 0)); fs_dur := 0; fs_coop := None; fs_lag := 0 |}]))) in
  rcount 0 w = 2 /\ rcount 1 w = 1 /\ Z.of_nat (length (filter (kind_is KFnStart) (w_trace w))) = 4.
Proof. vm_compute. repeat split. Qed.
