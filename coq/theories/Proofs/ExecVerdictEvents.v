(* Proofs/ExecVerdictEvents.v — C16: a retry policy's verdict events tell a consistent story in the complete log of any
   execution through any stack.  Per stack position, an automaton reads the position's events in the order they were
   logged: OnAbort and OnRetriesExceeded are each logged directly after an OnFailure of the same position and at most
   one of them; nothing but a new OnFailure / OnSuccess follows them (they end the policy's run: neither fires twice in a
   run, and no retry is scheduled after them); OnRetryScheduled directly follows an OnFailure; OnRetry follows its
   OnRetryScheduled.  Fourth induction over the stack, through the generic pass of Proofs/ExecRetryEvents.v. *)
From FS Require Import Model.Exec Spec.Verdict Proofs.ExecProofs Proofs.ExecRetryEvents Proofs.ExecEventsProofs.
From FS Require Import Corr.ExecCorr Corr.ExecCheckers.
From Coq Require Import ZifyBool.

Definition vst (pos : nat) (w : world) : option vstate := vstk pos (kps w).

Lemma vstep_neutral pos k s : plain_kind (fst k) = true \/ snd k <> pos -> vstepk pos k s = s.
Proof.
  intros H. unfold vstepk. destruct s as [v|]; [|reflexivity].
  destruct (Nat.eqb (snd k) pos) eqn:E; [|reflexivity]. apply Nat.eqb_eq in E.
  destruct H as [H|H]; [|contradiction]. destruct (fst k); cbn in H; try discriminate; reflexivity.
Qed.

(* ---- instance 3 of the generic pass: the verdict automaton of one position is left where it is ---- *)
Definition vsame (pos : nat) (w w' : world) : Prop := vst pos w' = vst pos w.
Definition Nv (pos : nat) (k : evk) (q : nat) : Prop := plain_kind k = true \/ q <> pos.

Lemma v_refl pos w : vsame pos w w. Proof. reflexivity. Qed.
Lemma v_trans pos a b c : vsame pos a b -> vsame pos b c -> vsame pos a c. Proof. unfold vsame. congruence. Qed.
Lemma v_frame pos w w' : w_trace w' = w_trace w -> vsame pos w w'. Proof. unfold vsame, vst, kps. intros ->. reflexivity. Qed.
Lemma v_emit pos w k q o aux : Nv pos k q -> vsame pos w (emit w k q o aux).
Proof. intros H. unfold vsame, vst. rewrite kps_emit. cbn [vstk]. apply vstep_neutral. exact H. Qed.
Lemma v_stamp pos w c : vsame pos w (stamp w c).
Proof. unfold vsame, vst. rewrite kps_stamp. reflexivity. Qed.
Lemma v_plain pos k q : plain_kind k = true -> Nv pos k q. Proof. left. assumption. Qed.
Lemma v_frame2 pos w w' : w_trace w' = w_trace w -> w_retry w' = w_retry w -> vsame pos w w'. Proof. intros H _. apply v_frame, H. Qed.
Lemma v_put pos w q r : True -> vsame pos w (put_rstate w q r). Proof. intros _. apply v_frame. reflexivity. Qed.
#[local] Hint Resolve v_refl v_trans v_frame2 v_put v_emit v_stamp v_plain : vdb.
#[local] Hint Extern 1 (Nv _ _ _) => (right; lia) : vdb.

Ltac inst_v pos lem := first [eapply lem with (N := Nv pos) | eapply lem]; eauto with vdb.

Theorem compose_vquiet fuel stack : forall pos start total, (pos < start)%nat -> quiet (vsame pos) (compose fuel start stack total).
Proof.
  induction stack as [|p rest IH]; intros pos start total Hlt; cbn [compose].
  - inst_v pos fn_layer_quiet.
  - specialize (IH pos (S start) total ltac:(lia)). destruct p as [rc|bi|li lmw|ki kmw|lim|fc|ci cc|hc]; cbn [apply_policy].
    + intros c w. eapply retry_loop_quiet with (N := Nv pos); eauto with vdb.
    + inst_v pos breaker_layer_quiet.
    + inst_v pos limiter_layer_quiet.
    + inst_v pos bulkhead_layer_quiet.
    + inst_v pos timeout_layer_quiet.
    + inst_v pos fallback_layer_quiet.
    + inst_v pos cache_layer_quiet.
    + inst_v pos hedge_layer_quiet.
Qed.

(* ---- instance 4: no verdict automaton is ever violated ---- *)
Definition VJ (w : world) : Prop := forall pos, vst pos w <> None.
Definition VJrel (w w' : world) : Prop := VJ w -> VJ w'.
(* kinds that no automaton state rejects *)
Definition safe_kind (k : evk) : bool := match k with KRetryScheduled | KRetry | KAbort | KRetriesExceeded => false | _ => true end.
Definition Nvj (k : evk) (q : nat) : Prop := safe_kind k = true.

Lemma vstep_safe pos k v : safe_kind (fst k) = true -> vstepk pos k (Some v) <> None.
Proof. intros H. unfold vstepk. destruct (Nat.eqb (snd k) pos); [|discriminate]. destruct (fst k); cbn in H; try discriminate. Qed.

Lemma vj_refl w : VJrel w w. Proof. intros H. exact H. Qed.
Lemma vj_trans a b c : VJrel a b -> VJrel b c -> VJrel a c. Proof. unfold VJrel. auto. Qed.
Lemma vj_frame w w' : w_trace w' = w_trace w -> VJrel w w'. Proof. unfold VJrel, VJ, vst, kps. intros ->. auto. Qed.
Lemma vj_emit w k q o aux : Nvj k q -> VJrel w (emit w k q o aux).
Proof.
  intros H HJ pos. unfold vst. rewrite kps_emit. cbn [vstk]. specialize (HJ pos). unfold vst in HJ.
  destruct (vstk pos (kps w)) as [v|]; [|contradiction]. apply vstep_safe. exact H.
Qed.
Lemma vj_stamp w c : VJrel w (stamp w c).
Proof. intros HJ pos. unfold vst. rewrite kps_stamp. apply HJ. Qed.
Lemma vj_plain k q : plain_kind k = true -> Nvj k q.
Proof. unfold Nvj. destruct k; cbn; intros H; try reflexivity; discriminate. Qed.
Lemma vj_frame2 w w' : w_trace w' = w_trace w -> w_retry w' = w_retry w -> VJrel w w'. Proof. intros H _. apply vj_frame, H. Qed.
Lemma vj_put w q r : True -> VJrel w (put_rstate w q r). Proof. intros _. apply vj_frame. reflexivity. Qed.
#[local] Hint Resolve vj_refl vj_trans vj_frame2 vj_put vj_emit vj_stamp vj_plain : vjdb.
#[local] Hint Extern 1 (Nvj _ _) => reflexivity : vjdb.

Ltac inst_vj lem := first [eapply lem with (N := Nvj) | eapply lem]; eauto with vjdb.

(* one logged event of position q, the other positions' automata unaffected *)
Lemma VJ_event w w' q k : kps w' = (k, q) :: kps w -> VJ w ->
  (forall v, vst q w = Some v -> vstepk q (k, q) (Some v) <> None) -> VJ w'.
Proof.
  intros E HJ Hq pos. unfold vst. rewrite E. cbn [vstk]. specialize (HJ pos). unfold vst in HJ.
  destruct (vstk pos (kps w)) as [v|] eqn:Ev; [|contradiction].
  destruct (Nat.eq_dec pos q) as [->|Hne]; [apply Hq; unfold vst; exact Ev|].
  rewrite vstep_neutral; [discriminate|right; cbn [snd]; auto].
Qed.

Lemma vst_event w w' q k : kps w' = (k, q) :: kps w -> vst q w' = vstepk q (k, q) (vst q w).
Proof. intros E. unfold vst. rewrite E. reflexivity. Qed.

Lemma after_failed pos q k l : k = KAbort \/ k = KRetriesExceeded ->
  vstk pos ((KPolFailure, q) :: l) <> None -> (pos = q -> vstk pos ((KPolFailure, q) :: l) = Some VFailed) ->
  vstk pos ((k, q) :: (KPolFailure, q) :: l) <> None.
Proof.
  intros Hk F1 F2. change (vstepk pos (k, q) (vstk pos ((KPolFailure, q) :: l)) <> None).
  destruct (Nat.eq_dec pos q) as [->|Hne].
  - rewrite (F2 eq_refl). unfold vstepk. cbn [fst snd]. rewrite Nat.eqb_refl. destruct Hk as [->| ->]; discriminate.
  - rewrite vstep_neutral; [exact F1|right; cbn [snd]; auto].
Qed.

(* the retry policy at position q *)
Lemma retry_loop_VJ q cfg inner : quiet VJrel inner -> quiet (vsame q) inner ->
  forall fuel c w, VJ w -> VJ (snd (fst (retry_loop fuel cfg q inner c w))).
Proof.
  intros Hj Hq. induction fuel as [|fuel IH]; intros c w HJ; cbn [retry_loop].
  - cbn [fst snd]. apply (vj_frame w); [reflexivity|exact HJ].
  - pose proof (Hj c w HJ) as J1. destruct (inner c w) as [r w1]. cbn [snd] in J1.
    destruct (is_canceled w1 c); [exact J1|]. destruct (rs_exceeded (get_rstate w1 q)); [exact J1|].
    destruct (is_failure (r_fpol cfg) (pr_out r)) eqn:Ef.
    + (* a failed attempt: OnFailure, then OnAbort or OnRetriesExceeded or neither *)
      destruct (retry_failure_events cfg q c (with_failure r) w1) as (Ek & _ & Hdone & _).
      set (ab := is_abortable (r_abort cfg) (pr_out (with_failure r))) in *.
      set (w0 := pause (ev_with_result w1 c KPolFailure q (with_failure r)) (r_lsn_dur cfg)) in *.
      set (ex := (negb (r_max_retries cfg =? -1) && (r_max_retries cfg <? rs_failed (get_rstate w1 q) + 1))
                 || (negb (r_max_duration cfg =? 0) && (r_max_duration cfg <? w_now w0 - w_start w0))) in *.
      destruct (retry_on_failure cfg q c (with_failure r) w1) as [r2 w2]. cbn [fst snd] in *.
      (* OnFailure is logged; while its listener runs only events that no automaton objects to are logged (timers firing,
         attempts finishing), and none that the automaton of q reads *)
      assert (F0 : VJ w0 /\ vst q w0 = Some VFailed).
      { assert (F : forall pos, vstk pos ((KPolFailure, q) :: kps w1) <> None /\ (pos = q -> vstk pos ((KPolFailure, q) :: kps w1) = Some VFailed)).
        { intros pos. cbn [vstk]. specialize (J1 pos). unfold vst in J1. destruct (vstk pos (kps w1)) as [v|]; [|contradiction].
          unfold vstepk. cbn [fst snd]. destruct (Nat.eqb q pos) eqn:E.
          - split; [discriminate|reflexivity].
          - split; [discriminate|]. intros ->. rewrite Nat.eqb_refl in E. discriminate. }
        set (wa := ev_with_result w1 c KPolFailure q (with_failure r)) in *.
        assert (Ka : kps wa = (KPolFailure, q) :: kps w1) by (subst wa; apply kps_ev).
        assert (Ja : VJ wa) by (intros pos; unfold vst; rewrite Ka; apply (proj1 (F pos))).
        assert (Va : vst q wa = Some VFailed) by (unfold vst; rewrite Ka; apply (proj2 (F q)); reflexivity).
        split.
        - assert (Rj : VJrel wa w0) by (subst w0; inst_vj same_pause). exact (Rj Ja).
        - assert (Rv : vsame q wa w0) by (subst w0; inst_v q same_pause). unfold vsame in Rv. rewrite Rv. exact Va. }
      destruct F0 as [J0 V0].
      assert (St : VJ w2 /\ (ab || ex = false -> vst q w2 = Some VFailed)).
      { assert (Fk : forall k, k = KAbort \/ k = KRetriesExceeded -> forall pos, vstk pos ((k, q) :: kps w0) <> None).
        { intros k Hk pos. change (vstepk pos (k, q) (vstk pos (kps w0)) <> None).
          destruct (Nat.eq_dec pos q) as [->|Hne].
          - unfold vst in V0. rewrite V0. unfold vstepk. cbn [fst snd]. rewrite Nat.eqb_refl. destruct Hk as [->| ->]; discriminate.
          - rewrite vstep_neutral; [apply J0|right; cbn [snd]; auto]. }
        split.
        - intros pos. unfold vst. rewrite Ek.
          destruct ab, ex; cbn [negb andb orb app]; try (apply Fk; auto); apply J0.
        - intros Hn. unfold vst. rewrite Ek. destruct ab, ex; try discriminate. cbn [negb andb orb app]. exact V0. }
      destruct St as [J2 P2].
      destruct (pr_done r2) eqn:Ed; [exact J2|].
      assert (Hn : ab || ex = false) by (destruct (ab || ex) eqn:E; [specialize (Hdone eq_refl); discriminate|reflexivity]).
      specialize (P2 Hn).
      destruct (is_canceled w2 c); [exact J2|].
      set (w3 := set_copy_last w2 c (pr_out r2)).
      assert (K3 : kps w3 = kps w2) by reflexivity.
      set (w4 := stamp (emit w3 KRetryScheduled q _ _) c).
      assert (K4 : kps w4 = (KRetryScheduled, q) :: kps w2) by (subst w4; rewrite kps_stamp, kps_emit, K3; reflexivity).
      assert (J4 : VJ w4).
      { apply (VJ_event w2 w4 q KRetryScheduled K4 J2). intros v Hv. rewrite P2 in Hv. injection Hv as <-.
        unfold vstepk. cbn [fst snd]. rewrite Nat.eqb_refl. discriminate. }
      assert (P4 : vst q w4 = Some VPending).
      { rewrite (vst_event w2 w4 q KRetryScheduled K4), P2. unfold vstepk. cbn [fst snd]. rewrite Nat.eqb_refl. reflexivity. }
      assert (J5 : VJrel w4 (snd (wait w4 (retry_delay cfg w3) (Some c)))) by (eapply same_wait with (N := Nvj); eauto with vjdb).
      specialize (J5 J4).
      assert (P5 : vsame q w4 (snd (wait w4 (retry_delay cfg w3) (Some c)))) by (eapply same_wait with (N := Nv q); eauto with vdb).
      destruct (wait w4 _ (Some c)) as [ii w5]. cbn [snd] in J5, P5. unfold vsame in P5. rewrite P4 in P5.
      destruct (is_canceled w5 c); [exact J5|].
      match goal with |- context [retry_loop fuel cfg q inner c ?w9] => set (w9' := w9) end.
      assert (K9 : kps w9' = (KRetry, q) :: kps w5) by (subst w9'; rewrite kps_ev; reflexivity).
      assert (J9 : VJ w9').
      { apply (VJ_event w5 w9' q KRetry K9 J5). intros v Hv. rewrite P5 in Hv. injection Hv as <-.
        unfold vstepk. cbn [fst snd]. rewrite Nat.eqb_refl. discriminate. }
      specialize (IH c w9' J9). destruct (retry_loop fuel cfg q inner c w9') as [[rr ww] n]. exact IH.
    + (* a success: OnSuccess, and the run is over *)
      cbn [pr_done with_done fst snd].
      apply (VJ_event w1 _ q KPolSuccess (kps_ev w1 c KPolSuccess q _) J1). intros v _.
      unfold vstepk. cbn [fst snd]. rewrite Nat.eqb_refl. discriminate.
Qed.

Theorem compose_VJ fuel stack : forall start total, quiet VJrel (compose fuel start stack total).
Proof.
  induction stack as [|p rest IH]; intros start total; cbn [compose].
  - inst_vj fn_layer_quiet.
  - specialize (IH (S start) total). destruct p as [rc|bi|li lmw|ki kmw|lim|fc|ci cc|hc]; cbn [apply_policy].
    + intros c w HJ. apply (retry_loop_VJ start rc _ IH (compose_vquiet fuel rest start (S start) total ltac:(lia)) fuel c w HJ).
    + inst_vj breaker_layer_quiet.
    + inst_vj limiter_layer_quiet.
    + inst_vj bulkhead_layer_quiet.
    + inst_vj timeout_layer_quiet.
    + inst_vj fallback_layer_quiet.
    + inst_vj cache_layer_quiet.
    + inst_vj hedge_layer_quiet.
Qed.

Lemma VJ_drain w : VJ w -> VJ (drain w).
Proof.
  intros HJ. unfold drain. destruct (w_bg w); [exact HJ|].
  match goal with |- VJ (snd (advance ?f ?w0 ?t ?i ?a)) => assert (HA : VJrel w0 (snd (advance f w0 t i a))) by (eapply same_advance with (N := Nvj); eauto with vjdb) end.
  apply HA. apply (vj_frame w); [reflexivity|exact HJ].
Qed.

(* C16: in the complete log of any execution through any stack, at every stack position, the verdict events are consistent *)
Theorem verdict_events_consistent fuel stack now ext key b l k c script :
  forall pos, vst pos (drain (snd (execute fuel stack (fresh_world now ext key b l k c script)))) <> None.
Proof.
  assert (J0 : VJ (fresh_world now ext key b l k c script)).
  { assert (J00 : VJ (fresh_world0 now ext key b l k c script)) by (intros pos; cbn; discriminate).
    unfold fresh_world. destruct ext as [[t e]|]; [|exact J00]. destruct (t <=? now); [|exact J00].
    apply (same_fire_ext VJrel vj_refl vj_trans vj_frame2); exact J00. }
  apply VJ_drain. unfold execute.
  pose proof (compose_VJ fuel stack 0%nat (length stack) 0%nat _ J0) as J1.
  destruct (compose fuel 0 stack (length stack) 0%nat (fresh_world now ext key b l k c script)) as [r w1]. cbn [snd] in J1.
  assert (X : VJrel w1 (emit (if pr_all r then emit w1 KExecSuccess 0 (pr_out r) 0 else emit w1 KExecFailure 0 (pr_out r) 0) KExecDone 0 (pr_out r) 0)).
  { eapply vj_trans; [|apply vj_emit; reflexivity]. destruct (pr_all r); apply vj_emit; reflexivity. }
  exact (X J1).
Qed.

(* ---- the executable form accepts every model log (the entries an unregistered listener leaves out are of plain kinds) ---- *)
Lemma vfold_filter_plain pos (f : event -> bool) : (forall e, f e = false -> plain_kind (e_kind e) = true) ->
  forall l s, fold_left (fun s k => vstepk pos k s) (map kp (filter f l)) s = fold_left (fun s k => vstepk pos k s) (map kp l) s.
Proof.
  intros Hf. induction l as [|e l IH]; intros s; [reflexivity|]. cbn [filter]. destruct (f e) eqn:E; cbn [map fold_left].
  - apply IH.
  - rewrite IH. f_equal. symmetry. apply vstep_neutral. left. cbn [kp fst]. apply Hf, E.
Qed.

Theorem verdict_checker_accepts_model fuel stack now ext key b l k c script lsn mask : forall pos,
  vrun pos (map kp (filter (blsn_keeps mask) (filter (lsn_keeps lsn)
     (rev (w_trace (drain (snd (execute fuel stack (fresh_world now ext key b l k c script))))))))) <> None.
Proof.
  intros pos. unfold vrun.
  rewrite (vfold_filter_plain pos (blsn_keeps mask)).
  2:{ intros e H. unfold blsn_keeps in H. destruct (e_kind e); try discriminate; reflexivity. }
  rewrite (vfold_filter_plain pos (lsn_keeps lsn)).
  2:{ intros e H. unfold lsn_keeps in H. destruct (e_kind e); try discriminate; reflexivity. }
  change (vrun pos (map kp (rev (w_trace (drain (snd (execute fuel stack (fresh_world now ext key b l k c script))))))) <> None).
  rewrite vrun_vstk, <- map_rev, rev_involutive.
  exact (verdict_events_consistent fuel stack now ext key b l k c script pos).
Qed.
