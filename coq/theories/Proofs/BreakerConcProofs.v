(* Proofs/BreakerConcProofs.v — C04: admission under arbitrary interleavings *)
From FS Require Import Model.BreakerConc Proofs.BreakerProofs.
From Coq Require Import ZifyBool.

Section ConcProofs.
  Context {S : Type} (I : stats_impl S) (c : bcfg).
  Hypothesis Hcap : 1 <= halfopen_capacity c.

  Definition cntp (P : tstate -> bool) (l : list tstate) : Z := Z.of_nat (length (filter P l)).
  Definition is_gen (g : Z) (t : tstate) : bool := match t with TInFlight g' => g' =? g | _ => false end.

  Lemma cntp_set_nth P l i t : (i < length l)%nat ->
    cntp P (set_nth i t l) = cntp P l - (if P (nth i l TDone) then 1 else 0) + (if P t then 1 else 0).
  Proof.
    unfold cntp. revert i; induction l as [|x l IH]; intros [|i] H; cbn [length] in H; try lia.
    - cbn [set_nth nth filter]. destruct (P x), (P t); cbn [length]; lia.
    - cbn [set_nth nth filter]. specialize (IH i ltac:(lia)). destruct (P x); cbn [length]; lia.
  Qed.

  Lemma set_nth_out {A} (l : list A) i t : (length l <= i)%nat -> set_nth i t l = l.
  Proof. revert i; induction l as [|x l IH]; intros [|i] H; cbn in *; try reflexivity; try lia. f_equal. apply IH. lia. Qed.

  Definition bounded (g : Z) (l : list tstate) : Prop := forall g', In (TInFlight g') l -> g' <= g.

  Lemma bounded_fresh g g' l : bounded g l -> g < g' -> cntp (is_gen g') l = 0.
  Proof.
    unfold cntp. induction l as [|x l IH]; intros Hb Hg; [reflexivity|].
    cbn [filter]. assert (Hx : is_gen g' x = false).
    { destruct x as [| |gx|]; try reflexivity. cbn. specialize (Hb gx (or_introl eq_refl)). lia. }
    rewrite Hx. apply IH; [|exact Hg]. intros g0 Hin. apply Hb. right. exact Hin.
  Qed.

  Lemma bounded_mono g g' l : bounded g l -> g <= g' -> bounded g' l.
  Proof. intros H Hg x Hx. specialize (H x Hx). lia. Qed.

  Lemma in_set_nth {A} (l : list A) i t x : In x (set_nth i t l) -> x = t \/ In x l.
  Proof.
    revert i; induction l as [|y l IH]; intros [|i] H; cbn in *; try tauto.
    - destruct H as [<-|H]; tauto.
    - destruct H as [<-|H]; [tauto|]. destruct (IH i H); tauto.
  Qed.

  Lemma bounded_set g l i t : bounded g l -> (forall g', t = TInFlight g' -> g' <= g) -> bounded g (set_nth i t l).
  Proof.
    intros Hb Ht g' Hin. apply in_set_nth in Hin. destruct Hin as [E|Hin]; [apply Ht; symmetry; exact E|apply Hb; exact Hin].
  Qed.

  Definition Inv (k : @conf S) : Prop :=
    bounded (cf_gen k) (cf_threads k) /\
    match cf_state k with
    | HalfOpen _ p => 0 <= p /\ p + cntp (is_gen (cf_gen k)) (cf_threads k) = halfopen_capacity c
    | Open _ _ _ => cntp (is_gen (cf_gen k)) (cf_threads k) = 0
    | Closed _ => True
    end.

  Lemma cntp_pos P l i : (i < length l)%nat -> P (nth i l TDone) = true -> 1 <= cntp P l.
  Proof.
    unfold cntp. revert i; induction l as [|x l IH]; intros [|i] H HP; cbn [length] in H; try lia; cbn [nth] in HP; cbn [filter].
    - rewrite HP. cbn [length]. lia.
    - specialize (IH i ltac:(lia) HP). destruct (P x); cbn [length]; lia.
  Qed.

  Lemma cntp_nonneg P l : 0 <= cntp P l.
  Proof. unfold cntp. lia. Qed.

  Lemma inflight_now_cntp (k : @conf S) : inflight_now k = cntp (is_gen (cf_gen k)) (cf_threads k).
  Proof. reflexivity. Qed.

  (* what a transition can produce *)
  Lemma transition_cases s now tgt d :
    transition I c s now tgt d = (s, []) \/
    exists s' e1 e2, transition I c s now tgt d = (s', [e1; e2]) /\
      match s' with HalfOpen _ p => p = halfopen_capacity c | _ => True end.
  Proof.
    unfold transition. destruct (state_code s =? tgt); [left; reflexivity|right].
    eexists _, _, _. split; [reflexivity|].
    destruct (tgt =? 0); [exact Logic.I|]. destruct (tgt =? 1); [exact Logic.I|]. reflexivity.
  Qed.

  Lemma bump_nil g : bump g [] = g.
  Proof. unfold bump. cbn [length]. lia. Qed.
  Lemma bump_two g e1 e2 : bump g [e1; e2] = g + 2.
  Proof. unfold bump. cbn [length]. lia. Qed.

  Lemma nth_in_range {A} (l : list A) i d x : nth i l d = x -> x <> d -> (i < length l)%nat.
  Proof.
    intros H Hne. destruct (Nat.lt_ge_cases i (length l)) as [Hlt|Hge]; [exact Hlt|].
    rewrite nth_overflow in H by lia. congruence.
  Qed.

  Lemma check_threshold_cases s now er :
    (snd (check_threshold I c s now er) = [] /\ state_code s <> 2 /\ fst (check_threshold I c s now er) = s)
    \/ (exists st p, snd (check_threshold I c s now er) = [] /\ s = HalfOpen st p
                    /\ fst (check_threshold I c s now er) = HalfOpen st (p + 1))
    \/ (exists e1 e2, snd (check_threshold I c s now er) = [e1; e2] /\
        match fst (check_threshold I c s now er) with HalfOpen _ _ => False | _ => True end).
  Proof.
    assert (Htr : forall tgt d, (tgt = 0 \/ tgt = 1) -> state_code s <> tgt ->
       exists e1 e2, snd (transition I c s now tgt d) = [e1; e2] /\
           match fst (transition I c s now tgt d) with HalfOpen _ _ => False | _ => True end).
    { intros tgt d Ht Hne. unfold transition. destruct (state_code s =? tgt) eqn:E; [lia|].
      eexists _, _. split; [reflexivity|]. cbn [fst]. destruct Ht as [-> | ->]; cbn; exact Logic.I. }
    destruct s as [st|st a b|st p]; cbn [check_threshold].
    - destruct (b_fexec c <=? si_exec I st); [|left; cbn; repeat split; lia].
      destruct (_ || _); [|left; cbn; repeat split; lia].
      right; right. apply Htr; [auto|cbn; lia].
    - left; cbn; repeat split; lia.
    - destruct (if negb (b_sthr c =? 0) then _ else _) as [se fe].
      destruct se; [right; right; apply Htr; [auto|cbn; lia]|].
      destruct fe; [right; right; apply Htr; [auto|cbn; lia]|].
      right; left. eexists _, _. repeat split; reflexivity.
  Qed.

  Theorem step_preserves_inv k st : Inv k -> stale_step k st = false -> Inv (conc_step I c k st).
  Proof.
    intros [Hb Hs] Hstale. destruct st as [i|i v r|dt|tgt]; cbn [conc_step].
    - (* admission *)
      destruct (nth i (cf_threads k) TDone) eqn:Ei; try (split; assumption).
      pose proof (nth_in_range _ _ _ _ Ei ltac:(discriminate)) as Hi.
      destruct (cf_state k) as [st|st a b|st p] eqn:Es; cbn [try_acquire].
      + (* closed: admitted, nothing changes *)
        unfold Inv; cbn [cf_state cf_gen cf_threads]. rewrite ?bump_nil, ?bump_two. split; [|exact Logic.I].
        apply bounded_set; [exact Hb|]. intros g' E. injection E as <-. lia.
      + destruct (b <=? cf_now k - a).
        * (* the delay has elapsed: half-open with a fresh generation; this thread takes the first trial permit *)
          rewrite transition_open_half. destruct (0 <? halfopen_capacity c) eqn:E0; [|lia].
          unfold Inv; cbn [cf_state cf_gen cf_threads]. rewrite ?bump_nil, ?bump_two. split.
          -- apply bounded_set; [apply (bounded_mono (cf_gen k)); [exact Hb|lia]|]. intros g' E. injection E as <-. lia.
          -- split; [lia|]. rewrite cntp_set_nth by exact Hi. rewrite Ei. cbn [is_gen].
             rewrite (bounded_fresh (cf_gen k)) by (try exact Hb; lia). rewrite Z.eqb_refl. lia.
        * unfold Inv; cbn [cf_state cf_gen cf_threads]. rewrite ?bump_nil, ?bump_two. split.
          -- apply bounded_set; [exact Hb|]. intros g' E. discriminate.
          -- unfold set_thread. rewrite cntp_set_nth by exact Hi. rewrite Ei. cbn [is_gen]. lia.
      + destruct Hs as [Hp Hsum]. destruct (0 <? p) eqn:E0.
        * unfold Inv; cbn [cf_state cf_gen cf_threads]. rewrite ?bump_nil, ?bump_two. split.
          -- apply bounded_set; [exact Hb|]. intros g' E. injection E as <-. lia.
          -- split; [lia|]. rewrite cntp_set_nth by exact Hi. rewrite Ei. cbn [is_gen]. rewrite Z.eqb_refl. lia.
        * unfold Inv; cbn [cf_state cf_gen cf_threads]. rewrite ?bump_nil, ?bump_two. split.
          -- apply bounded_set; [exact Hb|]. intros g' E. discriminate.
          -- split; [lia|]. rewrite cntp_set_nth by exact Hi. rewrite Ei. cbn [is_gen]. lia.
    - (* recording *)
      destruct (nth i (cf_threads k) TDone) as [| |g0|] eqn:Ei; try (split; assumption).
      pose proof (nth_in_range _ _ _ _ Ei ltac:(discriminate)) as Hi.
      unfold record.
      set (s1 := with_stats (cf_state k) (si_record I (state_stats (cf_state k)) (cf_now k) v)).
      pose proof (check_threshold_cases s1 (cf_now k) r) as Hc.
      destruct (check_threshold I c s1 (cf_now k) r) as [s' evs]. cbn [fst snd] in Hc.
      assert (Hbd : forall g, cf_gen k <= g -> bounded g (set_thread i TDone (cf_threads k))).
      { intros g Hg. apply bounded_set; [apply (bounded_mono (cf_gen k)); assumption|]. intros g' E. discriminate. }
      destruct Hc as [(-> & Hne & ->)|[(st & p & -> & E1 & ->)|(e1 & e2 & -> & Hc)]].
      + unfold Inv; cbn [cf_state cf_gen cf_threads]. rewrite ?bump_nil. split; [apply Hbd; lia|].
        subst s1. destruct (cf_state k); cbn [with_stats state_code] in *; try exact Logic.I; [|lia].
        unfold set_thread. rewrite cntp_set_nth by exact Hi. rewrite Ei. cbn [is_gen].
        destruct (g0 =? cf_gen k) eqn:Eg; [|lia].
        pose proof (cntp_pos (is_gen (cf_gen k)) (cf_threads k) i Hi) as Hpos. rewrite Ei in Hpos. cbn [is_gen] in Hpos.
        specialize (Hpos Eg). lia.
      + unfold Inv; cbn [cf_state cf_gen cf_threads]. rewrite ?bump_nil. split; [apply Hbd; lia|].
        subst s1. destruct (cf_state k) as [st0|st0 a b|st0 p0] eqn:Es; cbn [with_stats] in E1; try discriminate.
        injection E1 as <- <-. cbn [stale_step] in Hstale. rewrite Ei, Es in Hstale.
        destruct Hs as [Hp Hsum]. split; [lia|].
        unfold set_thread. rewrite cntp_set_nth by exact Hi. rewrite Ei. cbn [is_gen].
        destruct (g0 =? cf_gen k) eqn:Eg; [|discriminate]. lia.
      + unfold Inv; cbn [cf_state cf_gen cf_threads]. rewrite ?bump_two. split; [apply Hbd; lia|].
        destruct s'; try exact Logic.I; [|contradiction].
        apply (bounded_fresh (cf_gen k)); [apply Hbd; lia|lia].
    - (* clock *)
      unfold Inv; cbn [cf_state cf_gen cf_threads]. split; assumption.
    - (* manual Open / HalfOpen / Close *)
      destruct (transition_cases (cf_state k) (cf_now k) tgt (b_delay c)) as [E|(s' & e1 & e2 & E & Hs')]; rewrite E.
      + unfold Inv; cbn [cf_state cf_gen cf_threads]. rewrite ?bump_nil, ?bump_two. split; assumption.
      + unfold Inv; cbn [cf_state cf_gen cf_threads]. rewrite ?bump_nil, ?bump_two. split; [apply (bounded_mono (cf_gen k)); [assumption|lia]|].
        destruct s' as [| |st p]; try exact Logic.I.
        * apply (bounded_fresh (cf_gen k)); [exact Hb|lia].
        * subst p. split; [lia|]. rewrite (bounded_fresh (cf_gen k)) by (try exact Hb; lia). lia.
  Qed.

  (* every interleaving without a stale record keeps the invariant *)
  Theorem run_preserves_inv tr : forall k, Inv k -> no_stale I c k tr = true -> Inv (conc_run I c k tr).
  Proof.
    induction tr as [|st tr IH]; intros k Hk Hn; [exact Hk|].
    cbn [no_stale] in Hn. apply andb_true_iff in Hn. destruct Hn as [H1 H2].
    cbn [conc_run fold_left]. apply IH; [|exact H2].
    apply step_preserves_inv; [exact Hk|]. destruct (stale_step k st); [discriminate|reflexivity].
  Qed.

  (* C04, half-open bound: at most [capacity] trials admitted in the current half-open state are in flight,
     and when none is in flight all permits are back *)
  Corollary half_open_bound tr k : Inv k -> no_stale I c k tr = true ->
    match cf_state (conc_run I c k tr) with
    | HalfOpen _ p => 0 <= inflight_now (conc_run I c k tr) <= halfopen_capacity c
                      /\ (inflight_now (conc_run I c k tr) = 0 -> p = halfopen_capacity c)
    | _ => True
    end.
  Proof.
    intros Hk Hn. pose proof (run_preserves_inv tr k Hk Hn) as [_ H].
    destruct (cf_state (conc_run I c k tr)); try exact Logic.I.
    rewrite inflight_now_cntp. pose proof (cntp_nonneg (is_gen (cf_gen (conc_run I c k tr))) (cf_threads (conc_run I c k tr))). lia.
  Qed.

  (* C04, open admits nothing: whatever the other threads do, an admission request that finds the
     breaker open before its delay has elapsed is rejected and changes nothing but the requester *)
  Theorem open_rejects_all k i a st d :
    cf_state k = Open a st d -> cf_now k - st < d -> nth i (cf_threads k) TDone = TIdle ->
    conc_step I c k (CAcquire i) =
      {| cf_state := cf_state k; cf_now := cf_now k; cf_gen := cf_gen k;
         cf_threads := set_thread i TRejected (cf_threads k) |}.
  Proof.
    intros Hs Hd Hi. cbn [conc_step]. rewrite Hi, Hs. cbn [try_acquire].
    destruct (d <=? cf_now k - st) eqn:E; [lia|]. rewrite bump_nil. reflexivity.
  Qed.

  Lemma inv_init threads : (forall t, In t threads -> t = TIdle) -> forall now,
    Inv {| cf_state := new_closed I c; cf_now := now; cf_gen := 0; cf_threads := threads |}.
  Proof.
    intros H now. split; [|exact Logic.I]. intros g Hin. specialize (H _ Hin). discriminate.
  Qed.
End ConcProofs.

(* without the proviso the bound fails: a trial admitted while closed records after the breaker
   half-opened and "returns" a permit it never took *)
Example half_open_bound_needs_proviso :
  let c := build_bcfg [WithFailureThreshold 1; WithDelay 0] in
  let k0 := {| cf_state := cb_init c; cf_now := 0; cf_gen := 0; cf_threads := [TIdle; TIdle; TIdle; TIdle] |} in
  let tr := [CAcquire 0; CAcquire 1; CRecord 1 false None; CAcquire 2; CRecord 0 true None; CAcquire 3] in
  no_stale conc_impl c k0 tr = false /\
  map (fun t => match t with TInFlight _ => true | _ => false end) (cf_threads (conc_run conc_impl c k0 tr))
    = [false; false; true; true].
Proof. vm_compute. auto. Qed.
