(* Proofs/AdapterProofs.v — C18 *)
From FS Require Import Model.Adapter.
From Coq Require Import ZifyBool.

(* retried exactly for the documented errors and statuses (429 and 5xx except 501) *)
Theorem http_retryable_documented a :
  http_retryable a = true <->
  match a with
  | AErr e => e <> HUnsupportedScheme /\ e <> HCertNotTrusted /\ e <> HStoppedAfterRedirects /\ e <> HUnknownAuthority
  | AResp r => rs_status r = 429 \/ (500 <= rs_status r /\ rs_status r <> 501)
  end.
Proof.
  destruct a as [r|e]; cbn [http_retryable].
  - split; intros H; lia.
  - destruct e; split; intros H; try discriminate; try (repeat split; discriminate); try reflexivity; destruct H as (H1 & H2 & H3 & H4); congruence.
Qed.

Theorem grpc_retryable_documented code :
  grpc_retryable code = true <-> (code = Some 14 \/ code = Some 4 \/ code = Some 8).
Proof.
  destruct code as [c|]; cbn [grpc_retryable]; split; intros H; try discriminate.
  - assert (Hc : c = 14 \/ c = 4 \/ c = 8) by lia. destruct Hc as [Hc|[Hc|Hc]]; subst c; auto.
  - destruct H as [H|[H|H]]; injection H as ->; reflexivity.
  - destruct H as [H|[H|H]]; discriminate.
Qed.

(* a Retry-After given in seconds on a 429 or 503 is respected: the delay scheduled before the next attempt is at least that long *)
Theorem retry_after_respected r s :
  (rs_status r = 429 \/ rs_status r = 503) -> rs_retry_after r = Some s -> 0 <= s ->
  http_delay (AResp r) = s * 1000000000.
Proof.
  intros Hs Hr Hp. cbn [http_delay]. rewrite Hr.
  destruct ((rs_status r =? 429) || (rs_status r =? 503)) eqn:E; [reflexivity|lia].
Qed.

(* the response finally returned is the last attempt's: the index returned is the last attempt made *)
Theorem returned_is_last_attempt script : forall n idx r k ds,
  http_retry script n idx = (Some r, k, ds) -> k = S r.
Proof.
  induction script as [|a rest IH]; intros n idx r k ds H; cbn [http_retry] in H; [discriminate|].
  destruct (negb (http_retryable a)); [injection H as <- <- _; reflexivity|].
  destruct (http_abort a); [destruct n; [discriminate|injection H as <- <- _; reflexivity]|].
  destruct n as [|n]; [discriminate|].
  destruct (http_retry rest n (S idx)) as [[r' k'] ds'] eqn:E. injection H as -> -> _. eapply IH. exact E.
Qed.

(* ... and it is returned exactly because it is not retryable (or is the abort error); every earlier attempt was retryable *)
Theorem retried_exactly_when_retryable script : forall n idx r k ds,
  http_retry script n idx = (Some r, k, ds) ->
  exists a, nth_error script (r - idx) = Some a /\ (http_retryable a = false \/ http_abort a = true)
  /\ forall j, (j < r - idx)%nat -> exists b, nth_error script j = Some b /\ http_retryable b = true /\ http_abort b = false.
Proof.
  induction script as [|a rest IH]; intros n idx r k ds H; cbn [http_retry] in H; [discriminate|].
  destruct (negb (http_retryable a)) eqn:E1.
  - injection H as <- _ _. rewrite Nat.sub_diag. exists a. cbn [nth_error]. repeat split; [left; destruct (http_retryable a); [discriminate|reflexivity]|]. intros j Hj; lia.
  - destruct (http_abort a) eqn:E2.
    + destruct n as [|n]; [discriminate|]. injection H as <- _ _. rewrite Nat.sub_diag. exists a. cbn [nth_error]. repeat split; [right; exact E2|]. intros j Hj; lia.
    + destruct n as [|n]; [discriminate|].
      destruct (http_retry rest n (S idx)) as [[r' k'] ds'] eqn:E. injection H as -> _ _.
      destruct (IH n (S idx) r k' ds' E) as (x & Hx & Hc & Hall).
      assert (Hle : (S idx <= r)%nat).
      { clear -E. revert n idx r k' ds' E. induction rest as [|b rest IHr]; intros n idx r k ds E; cbn [http_retry] in E; [discriminate|].
        destruct (negb (http_retryable b)); [injection E as <- _ _; lia|]. destruct (http_abort b); [destruct n; [discriminate|injection E as <- _ _; lia]|].
        destruct n as [|n]; [discriminate|]. destruct (http_retry rest n (S (S idx))) as [[r' k'] ds'] eqn:E'. injection E as -> _ _.
        specialize (IHr n (S idx) r k' ds' E'). lia. }
      replace (r - idx)%nat with (S (r - S idx)) by lia. exists x. cbn [nth_error]. repeat split; [exact Hx|exact Hc|].
      intros [|j] Hj; cbn [nth_error].
      * exists a. repeat split; [destruct (http_retryable a); [reflexivity|discriminate]|exact E2].
      * apply Hall. lia.
Qed.

(* every attempt of a sequential retry sequence carries the same, complete body *)
Theorem every_attempt_same_body b n x : In x (bodies_of_attempts b n) -> x = attempt_body b.
Proof. unfold bodies_of_attempts. apply repeat_spec. Qed.

Theorem unread_body_is_complete b :
  b_offset b = 0%nat -> b_kind b <> BUnsupported -> b_kind b <> BNone -> attempt_body b = Some (b_content b).
Proof. intros Ho Hk Hn. unfold attempt_body. rewrite Ho. destruct (b_kind b); try reflexivity; contradiction. Qed.

(* the context each attempt runs under carries the caller's values and deadline and is done when the caller's is *)
Theorem attempt_context_carries_caller caller exec :
  c_background caller = false ->
  let m := merge_contexts caller exec in
  c_values m = c_values caller /\ c_deadline m = c_deadline caller
  /\ (forall t, c_done_at caller = Some t -> exists t', c_done_at m = Some t' /\ t' <= t).
Proof.
  intros Hb. unfold merge_contexts. rewrite Hb. destruct (c_background exec); cbn.
  - repeat split. intros t Ht. exists t. split; [exact Ht|lia].
  - repeat split. intros t Ht. rewrite Ht. destruct (c_done_at exec) as [u|]; cbn; eexists; split; try reflexivity; lia.
Qed.

(* finding F6 (repaired): the merged context as it was dropped the caller's values and deadline *)
Theorem attempt_context_dropped_caller_before_fix :
  exists caller exec, c_background caller = false /\ c_values caller <> [] /\
    c_values (merge_contexts_prefix caller exec) = [] /\ c_deadline (merge_contexts_prefix caller exec) = None
    /\ c_deadline caller <> None.
Proof.
  exists {| c_background := false; c_values := [(1, 2)]; c_deadline := Some 5; c_done_at := Some 5 |},
         {| c_background := false; c_values := []; c_deadline := None; c_done_at := None |}.
  cbn. repeat split; discriminate.
Qed.
