(* Proofs/AdapterProofs.v — C18 *)
From FS Require Import Model.Adapter.
From Coq Require Import ZifyBool.

(* retried exactly for the documented errors and statuses (429 and 5xx except 501) *)
Theorem http_retryable_documented a :
  http_retryable a = true <->
  match a with
  | AErr e => e <> HUnsupportedScheme /\ e <> HCertNotTrusted /\ e <> HStoppedAfterRedirects /\ e <> HUnknownAuthority
  | AResp r => rs_status r = 429 \/ (500 <= rs_status r /\ rs_status r <> 501)
  end.
Proof.
  destruct a as [r|e]; cbn [http_retryable].
  - split; intros H; lia.
  - destruct e; split; intros H; try discriminate; try (repeat split; discriminate); try reflexivity; destruct H as (H1 & H2 & H3 & H4); congruence.
Qed.

Theorem grpc_retryable_documented code :
  grpc_retryable code = true <-> (code = Some 14 \/ code = Some 4 \/ code = Some 8).
Proof.
  destruct code as [c|]; cbn [grpc_retryable]; split; intros H; try discriminate.
  - assert (Hc : c = 14 \/ c = 4 \/ c = 8) by lia. destruct Hc as [Hc|[Hc|Hc]]; subst c; auto.
  - destruct H as [H|[H|H]]; injection H as ->; reflexivity.
  - destruct H as [H|[H|H]]; discriminate.
Qed.

(* a Retry-After given in seconds on a 429 or 503 is respected: the delay scheduled before the next attempt is at least that long *)
Theorem retry_after_respected r s :
  (rs_status r = 429 \/ rs_status r = 503) -> rs_retry_after r = Some s -> 0 <= s ->
  http_delay (AResp r) = s * 1000000000.
Proof.
  intros Hs Hr Hp. cbn [http_delay]. rewrite Hr.
  destruct ((rs_status r =? 429) || (rs_status r =? 503)) eqn:E; [reflexivity|lia].
Qed.

(* the response finally returned is the last attempt's: the index returned is the last attempt made *)
Theorem returned_is_last_attempt script : forall n idx r k ds,
  http_retry script n idx = (Some r, k, ds) -> k = S r.
Proof.
  induction script as [|a rest IH]; intros n idx r k ds H; cbn [http_retry] in H; [discriminate|].
  destruct (negb (http_retryable a)); [injection H as <- <- _; reflexivity|].
  destruct (http_abort a); [destruct n; [discriminate|injection H as <- <- _; reflexivity]|].
  destruct n as [|n]; [discriminate|].
  destruct (http_retry rest n (S idx)) as [[r' k'] ds'] eqn:E. injection H as -> -> _. eapply IH. exact E.
Qed.

(* ... and it is returned exactly because it is not retryable (or is the abort error); every earlier attempt was retryable *)
Theorem retried_exactly_when_retryable script : forall n idx r k ds,
  http_retry script n idx = (Some r, k, ds) ->
  exists a, nth_error script (r - idx) = Some a /\ (http_retryable a = false \/ http_abort a = true)
  /\ forall j, (j < r - idx)%nat -> exists b, nth_error script j = Some b /\ http_retryable b = true /\ http_abort b = false.
Proof.
  induction script as [|a rest IH]; intros n idx r k ds H; cbn [http_retry] in H; [discriminate|].
  destruct (negb (http_retryable a)) eqn:E1.
  - injection H as <- _ _. rewrite Nat.sub_diag. exists a. cbn [nth_error]. repeat split; [left; destruct (http_retryable a); [discriminate|reflexivity]|]. intros j Hj; lia.
  - destruct (http_abort a) eqn:E2.
    + destruct n as [|n]; [discriminate|]. injection H as <- _ _. rewrite Nat.sub_diag. exists a. cbn [nth_error]. repeat split; [right; exact E2|]. intros j Hj; lia.
    + destruct n as [|n]; [discriminate|].
      destruct (http_retry rest n (S idx)) as [[r' k'] ds'] eqn:E. injection H as -> _ _.
      destruct (IH n (S idx) r k' ds' E) as (x & Hx & Hc & Hall).
      assert (Hle : (S idx <= r)%nat).
      { clear -E. revert n idx r k' ds' E. induction rest as [|b rest IHr]; intros n idx r k ds E; cbn [http_retry] in E; [discriminate|].
        destruct (negb (http_retryable b)); [injection E as <- _ _; lia|]. destruct (http_abort b); [destruct n; [discriminate|injection E as <- _ _; lia]|].
        destruct n as [|n]; [discriminate|]. destruct (http_retry rest n (S (S idx))) as [[r' k'] ds'] eqn:E'. injection E as -> _ _.
        specialize (IHr n (S idx) r k' ds' E'). lia. }
      replace (r - idx)%nat with (S (r - S idx)) by lia. exists x. cbn [nth_error]. repeat split; [exact Hx|exact Hc|].
      intros [|j] Hj; cbn [nth_error].
      * exists a. repeat split; [destruct (http_retryable a); [reflexivity|discriminate]|exact E2].
      * apply Hall. lia.
Qed.

(* a configured delay or backoff changes neither which attempts are made nor which result is returned ... *)
Theorem http_retry_b_same_attempts base maxd : forall script last n idx,
  fst (http_retry_b base maxd last script n idx) = fst (http_retry script n idx).
Proof.
  induction script as [|a rest IH]; intros last n idx; cbn [http_retry_b http_retry]; [reflexivity|].
  destruct (negb (http_retryable a)); [reflexivity|]. destruct (http_abort a); [destruct n; reflexivity|].
  destruct n as [|n]; [reflexivity|].
  specialize (IH (if http_delay a =? -1 then (if base =? 0 then last else fixed_delay base maxd last idx) else last) n (S idx)).
  destruct (http_retry_b base maxd _ rest n (S idx)) as [[r k] ds]. destruct (http_retry rest n (S idx)) as [[r' k'] ds'].
  cbn [fst] in *. exact IH.
Qed.

(* ... and without one it is the default policy *)
Theorem http_retry_b_default : forall script last n idx,
  http_retry_b 0 0 last script n idx = http_retry script n idx.
Proof.
  induction script as [|a rest IH]; intros last n idx; cbn [http_retry_b http_retry]; [reflexivity|].
  destruct (negb (http_retryable a)); [reflexivity|]. destruct (http_abort a); [destruct n; reflexivity|].
  destruct n as [|n]; [reflexivity|]. unfold fixed_delay. cbn [Z.eqb].
  replace (if http_delay a =? -1 then last else last) with last by (destruct (http_delay a =? -1); reflexivity).
  rewrite IH. destruct (http_retry rest n (S idx)) as [[r k] ds]. reflexivity.
Qed.

Lemma fixed_delay_nonneg base maxd last k : 0 <= base -> 0 <= maxd -> 0 <= last -> 0 <= fixed_delay base maxd last k.
Proof.
  intros Hb Hm Hl. unfold fixed_delay. destruct (base =? 0); [lia|].
  destruct (negb (last =? 0) && negb (Nat.eqb k 0) && negb (maxd =? 0)); lia.
Qed.

(* whatever delay or backoff is configured besides, the wait scheduled after an attempt that carried a Retry-After in
   seconds (on a 429 or 503) is at least that long, and no wait is negative *)
Theorem retry_after_waited base maxd : 0 <= base -> 0 <= maxd -> forall script last n idx r k ds,
  0 <= last ->
  http_retry_b base maxd last script n idx = (r, k, ds) ->
  forall j d, nth_error ds j = Some d ->
  exists a, nth_error script j = Some a /\ retry_after_floor a <= d /\ 0 <= d.
Proof.
  intros Hb Hm. induction script as [|a rest IH]; intros last n idx r k ds Hl H j d Hj; cbn [http_retry_b] in H.
  - injection H as _ _ <-. destruct j; discriminate.
  - destruct (negb (http_retryable a)); [injection H as _ _ <-; destruct j; discriminate|].
    destruct (http_abort a); [destruct n; injection H as _ _ <-; destruct j; discriminate|].
    destruct n as [|n]; [injection H as _ _ <-; destruct j; discriminate|].
    pose proof (fixed_delay_nonneg base maxd last idx Hb Hm Hl) as Hf.
    set (last' := if http_delay a =? -1 then (if base =? 0 then last else fixed_delay base maxd last idx) else last) in H.
    assert (Hl' : 0 <= last') by (unfold last'; destruct (http_delay a =? -1); [destruct (base =? 0)|]; lia).
    destruct (http_retry_b base maxd last' rest n (S idx)) as [[r' k'] ds'] eqn:E. injection H as _ _ <-.
    destruct j as [|j]; cbn [nth_error] in Hj |- *.
    + injection Hj as <-. exists a. split; [reflexivity|].
      unfold retry_after_floor, http_delay.
      destruct a as [rs|e]; [|change (-1 =? -1) with true; cbv iota; lia].
      destruct ((rs_status rs =? 429) || (rs_status rs =? 503)); [|change (-1 =? -1) with true; cbv iota; lia].
      destruct (rs_retry_after rs) as [s|]; [|change (-1 =? -1) with true; cbv iota; lia].
      destruct (s * 1000000000 =? -1) eqn:E1; lia.
    + eapply IH; [exact Hl'|exact E|exact Hj].
Qed.

(* every attempt of a sequential retry sequence carries the same, complete body *)
Theorem every_attempt_same_body b n x : In x (bodies_of_attempts b n) -> x = attempt_body b.
Proof. unfold bodies_of_attempts. apply repeat_spec. Qed.

Theorem unread_body_is_complete b :
  b_offset b = 0%nat -> b_kind b <> BUnsupported -> b_kind b <> BNone -> attempt_body b = Some (b_content b).
Proof. intros Ho Hk Hn. unfold attempt_body. rewrite Ho. destruct (b_kind b); try reflexivity; contradiction. Qed.

(* the context each attempt runs under carries the caller's values and deadline and is done when the caller's is *)
Theorem attempt_context_carries_caller caller exec :
  c_background caller = false ->
  let m := merge_contexts caller exec in
  c_values m = c_values caller /\ c_deadline m = c_deadline caller
  /\ (forall t, c_done_at caller = Some t -> exists t', c_done_at m = Some t' /\ t' <= t).
Proof.
  intros Hb. unfold merge_contexts. rewrite Hb. destruct (c_background exec); cbn.
  - repeat split. intros t Ht. exists t. split; [exact Ht|lia].
  - repeat split. intros t Ht. rewrite Ht. destruct (c_done_at exec) as [u|]; cbn; eexists; split; try reflexivity; lia.
Qed.

(* finding F6 (repaired): the merged context as it was dropped the caller's values and deadline *)
Theorem attempt_context_dropped_caller_before_fix :
  exists caller exec, c_background caller = false /\ c_values caller <> [] /\
    c_values (merge_contexts_prefix caller exec) = [] /\ c_deadline (merge_contexts_prefix caller exec) = None
    /\ c_deadline caller <> None.
Proof.
  exists {| c_background := false; c_values := [(1, 2)]; c_deadline := Some 5; c_done_at := Some 5 |},
         {| c_background := false; c_values := []; c_deadline := None; c_done_at := None |}.
  cbn. repeat split; discriminate.
Qed.
