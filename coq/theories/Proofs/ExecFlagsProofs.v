(* Proofs/ExecFlagsProofs.v — C01: "each policy handles only what the policy inside it returned".
   Between two layers of a composition only the result, the error and the SuccessAll verdict carry information:
   the Done and Success flags of what an inner layer returns are never read by the layer around it (each layer
   reads these flags only on results it has just stamped itself).  Formally: garbling Done/Success arbitrarily at
   EVERY layer boundary of ANY stack changes nothing -- not the world (trace of every listener and of the
   function, counters, policy states, clock), not the returned result and error, not the verdict. *)
From FS Require Import Model.Exec Proofs.ExecProofs.
From Coq Require Import ZifyBool.

Definition same_core (r r' : presult) : Prop :=
  pr_res r = pr_res r' /\ pr_err r = pr_err r' /\ pr_all r = pr_all r'.

Definition layer_eqv (l l' : layer) : Prop :=
  forall c w, same_core (fst (l c w)) (fst (l' c w)) /\ snd (l c w) = snd (l' c w).

Lemma same_core_refl r : same_core r r.
Proof. repeat split. Qed.

Lemma same_core_trans a b c : same_core a b -> same_core b c -> same_core a c.
Proof. intros (?&?&?) (?&?&?). repeat split; congruence. Qed.

Lemma layer_eqv_refl l : layer_eqv l l.
Proof. intros c w. split; [apply same_core_refl|reflexivity]. Qed.

Lemma layer_eqv_trans a b c : layer_eqv a b -> layer_eqv b c -> layer_eqv a c.
Proof. intros H1 H2 x w. destruct (H1 x w) as [A B]. destruct (H2 x w) as [C D]. split; [eapply same_core_trans; eauto|congruence]. Qed.

(* a result whose Done/Success flags were overwritten *)
Definition garbled (g : presult -> presult) (l : layer) : layer := fun c w => let '(r, w') := l c w in (g r, w').

Lemma garbled_eqv g l : (forall r, same_core (g r) r) -> layer_eqv (garbled g l) l.
Proof. intros Hg c w. unfold garbled. destruct (l c w) as [r w']. cbn [fst snd]. split; [apply Hg|reflexivity]. Qed.

(* what the layers compute from an inner result depends on its core only *)
Ltac core_destruct H c w inner inner' :=
  let r := fresh "r" in let w1 := fresh "w1" in let r' := fresh "r'" in let w1' := fresh "w1'" in
  let E1 := fresh "E1" in let E2 := fresh "E2" in let E3 := fresh "E3" in let Ew := fresh "Ew" in
  specialize (H c w); destruct (inner c w) as [r w1]; destruct (inner' c w) as [r' w1'];
  cbn [fst snd] in H; destruct H as [(E1 & E2 & E3) Ew]; subst w1';
  destruct r as [res er dn sc al]; destruct r' as [res' er' dn' sc' al']; cbn [pr_res pr_err pr_all] in E1, E2, E3; subst res' er' al'.

Lemma ev_with_result_core w c k pos r r' :
  pr_res r = pr_res r' -> pr_err r = pr_err r' -> ev_with_result w c k pos r = ev_with_result w c k pos r'.
Proof. unfold ev_with_result. intros -> ->. reflexivity. Qed.

Lemma retry_on_failure_core cfg pos c res er dn sc al dn' sc' w :
  retry_on_failure cfg pos c (with_failure (mk_presult res er dn sc al)) w
  = retry_on_failure cfg pos c (with_failure (mk_presult res er dn' sc' al)) w.
Proof.
  unfold retry_on_failure, with_failure, with_done, pr_out, ev_with_result. cbn [pr_res pr_err pr_all pr_done pr_succ].
  reflexivity.
Qed.

Lemma retry_loop_eqv cfg pos (inner inner' : layer) : layer_eqv inner inner' ->
  forall fuel c w,
  same_core (fst (fst (retry_loop fuel cfg pos inner c w))) (fst (fst (retry_loop fuel cfg pos inner' c w)))
  /\ snd (fst (retry_loop fuel cfg pos inner c w)) = snd (fst (retry_loop fuel cfg pos inner' c w)).
Proof.
  intros H. induction fuel as [|fuel IH]; intros c w; cbn [retry_loop].
  - split; [apply same_core_refl|reflexivity].
  - pose proof (H c w) as Hcw. destruct (inner c w) as [r w1]; destruct (inner' c w) as [r' w1'].
    cbn [fst snd] in Hcw. destruct Hcw as [(E1 & E2 & E3) Ew]. subst w1'.
    destruct r as [res er dn sc al]; destruct r' as [res' er' dn' sc' al']. cbn [pr_res pr_err pr_all] in E1, E2, E3. subst res' er' al'.
    destruct (is_canceled w1 c); [split; [apply same_core_refl|reflexivity]|].
    destruct (rs_exceeded (get_rstate w1 pos)); [cbn [fst snd]; split; [repeat split|reflexivity]|].
    unfold pr_out. cbn [pr_res pr_err].
    destruct (is_failure (r_fpol cfg) (res, er)).
    + rewrite (retry_on_failure_core cfg pos c res er dn sc al dn' sc' w1).
      destruct (retry_on_failure cfg pos c _ w1) as [r2 w2].
      destruct (pr_done r2); [split; [apply same_core_refl|reflexivity]|].
      destruct (is_canceled w2 c); [split; [apply same_core_refl|reflexivity]|].
      match goal with |- context [wait ?ww ?d ?i] => destruct (wait ww d i) as [ii w5] end.
      destruct (is_canceled w5 c); [split; [apply same_core_refl|reflexivity]|].
      match goal with |- context [retry_loop fuel cfg pos inner c ?w9] => specialize (IH c w9);
        destruct (retry_loop fuel cfg pos inner c w9) as [[rr ww] n]; destruct (retry_loop fuel cfg pos inner' c w9) as [[rr' ww'] n'] end.
      exact IH.
    + cbn [with_done pr_done]. cbn [fst snd]. split; [repeat split|reflexivity].
Qed.

Lemma breaker_layer_eqv pos inst inner inner' : layer_eqv inner inner' -> layer_eqv (breaker_layer pos inst inner) (breaker_layer pos inst inner').
Proof.
  intros H c w. unfold breaker_layer.
  destruct (nth inst (w_breakers w) _) as [cfg s]. destruct (try_acquire conc_impl cfg s (w_now w)) as [[ok s1] evs].
  destruct ok; cbn [negb]; [|split; [apply same_core_refl|reflexivity]].
  match goal with |- context [inner c ?w1] => core_destruct H c w1 inner inner' end.
  destruct (nth inst (w_breakers w1) _) as [cfg2 s2]. unfold pr_out. cbn [pr_res pr_err].
  destruct (is_failure (b_fpol cfg) (res, er)).
  - destruct (record conc_impl cfg s2 _ false _) as [s3 evs']. cbn [fst snd]. split; [repeat split|reflexivity].
  - destruct (record conc_impl cfg s2 _ true _) as [s3 evs']. cbn [fst snd]. split; [repeat split|reflexivity].
Qed.

Lemma limiter_layer_eqv pos inst mw inner inner' : layer_eqv inner inner' -> layer_eqv (limiter_layer pos inst mw inner) (limiter_layer pos inst mw inner').
Proof.
  intros H c w. unfold limiter_layer, limiter_layer_gen.
  destruct (nth inst (w_limiters w) _) as [[cfg base] s]. destruct (lim_acquire cfg s (w_now w - base) 1 mw) as [wt s'].
  destruct (wt =? -1); [split; [apply same_core_refl|reflexivity]|].
  match goal with |- context [wait ?ww ?d ?i] => destruct (wait ww d i) as [ii w2] end.
  destruct ii; [split; [apply same_core_refl|reflexivity]|apply H].
Qed.

Lemma bulkhead_layer_eqv pos inst mw inner inner' : layer_eqv inner inner' -> layer_eqv (bulkhead_layer pos inst mw inner) (bulkhead_layer pos inst mw inner').
Proof.
  intros H c w. unfold bulkhead_layer.
  destruct (nth inst (w_bulkheads w) (0, 0)) as [cap held].
  destruct (copy_err w c); [split; [apply same_core_refl|reflexivity]|].
  destruct (held <? cap).
  - match goal with |- context [inner c ?w1] => core_destruct H c w1 inner inner' end.
    destruct (nth inst (w_bulkheads w1) (0, 0)) as [cap2 held2]. cbn [fst snd]. split; [repeat split|reflexivity].
  - destruct (mw =? 0); [split; [apply same_core_refl|reflexivity]|].
    destruct (wait w mw (Some c)) as [i w1]. destruct i; split; try apply same_core_refl; reflexivity.
Qed.

Lemma timeout_layer_eqv pos limit inner inner' : layer_eqv inner inner' -> layer_eqv (timeout_layer pos limit inner) (timeout_layer pos limit inner').
Proof.
  intros H c w. unfold timeout_layer.
  match goal with |- context [inner ?c' ?w2] => core_destruct H c' w2 inner inner' end.
  destruct (sc_fired _).
  - cbn [fst snd]. split; [repeat split|reflexivity].
  - cbn [pr_err]. destruct (match er with Some e => errors_is e ETimeout | None => false end); cbn [fst snd]; split; repeat split.
Qed.

Lemma fallback_layer_eqv pos cfg inner inner' : layer_eqv inner inner' -> layer_eqv (fallback_layer pos cfg inner) (fallback_layer pos cfg inner').
Proof.
  intros H c w. unfold fallback_layer. core_destruct H c w inner inner'.
  unfold pr_out. cbn [pr_res pr_err].
  destruct (is_failure (fb_fpol cfg) (res, er)).
  - rewrite (ev_with_result_core w1 c KPolFailure pos (with_failure (mk_presult res er dn sc al)) (with_failure (mk_presult res er dn' sc' al)))
      by reflexivity.
    cbn [with_failure pr_succ pr_res pr_err].
    match goal with |- context [is_canceled ?w2 c] => destruct (is_canceled w2 c) end; [split; [apply same_core_refl|reflexivity]|].
    cbn [fst snd]. split; [repeat split|reflexivity].
  - cbn [with_done pr_succ]. cbn [fst snd]. split; [repeat split|reflexivity].
Qed.

Lemma cache_layer_eqv pos inst cfg inner inner' : layer_eqv inner inner' -> layer_eqv (cache_layer pos inst cfg inner) (cache_layer pos inst cfg inner').
Proof.
  intros H c w. unfold cache_layer.
  destruct (if cache_key w cfg =? 0 then None else _) as [v|]; [split; [apply same_core_refl|reflexivity]|].
  match goal with |- context [inner c ?w1] => core_destruct H c w1 inner inner' end.
  unfold pr_out. cbn [pr_res pr_err].
  destruct (_ && _); cbn [fst snd]; split; repeat split.
Qed.

Lemma apply_policy_eqv fuel pos total p inner inner' :
  layer_eqv inner inner' -> layer_eqv (apply_policy fuel pos total p inner) (apply_policy fuel pos total p inner').
Proof.
  intros H. destruct p as [rc|bi|li lmw|ki kmw|lim|fc|ci cc|hc]; cbn [apply_policy].
  - intros c w. apply (retry_loop_eqv rc pos inner inner' H fuel c w).
  - apply breaker_layer_eqv, H.
  - apply limiter_layer_eqv, H.
  - apply bulkhead_layer_eqv, H.
  - apply timeout_layer_eqv, H.
  - apply fallback_layer_eqv, H.
  - apply cache_layer_eqv, H.
  - apply layer_eqv_refl.
Qed.

(* the composition with the Done/Success flags garbled at every layer boundary *)
Fixpoint compose_g (g : presult -> presult) (fuel : nat) (pos : nat) (stack : list policy) (total : nat) : layer :=
  match stack with
  | [] => garbled g (fn_layer total)
  | p :: rest => garbled g (apply_policy fuel pos total p (compose_g g fuel (S pos) rest total))
  end.

Theorem flags_do_not_leak g : (forall r, same_core (g r) r) ->
  forall fuel stack pos total, layer_eqv (compose_g g fuel pos stack total) (compose fuel pos stack total).
Proof.
  intros Hg fuel. induction stack as [|p rest IH]; intros pos total; cbn [compose_g compose].
  - apply garbled_eqv, Hg.
  - eapply layer_eqv_trans; [apply garbled_eqv, Hg|]. apply apply_policy_eqv, IH.
Qed.

(* hence for whole executions: same world (complete log, counters, policy instances, clock), same result, error and verdict *)
Definition execute_g (g : presult -> presult) (fuel : nat) (stack : list policy) (w : world) : presult * world :=
  let '(r, w1) := compose_g g fuel 0 stack (length stack) 0%nat w in
  let o := pr_out r in
  let w2 := if pr_all r then emit w1 KExecSuccess 0 o 0 else emit w1 KExecFailure 0 o 0 in
  (r, emit w2 KExecDone 0 o 0).

Theorem execution_determined_by_result_error_verdict g : (forall r, same_core (g r) r) ->
  forall fuel stack w,
  same_core (fst (execute_g g fuel stack w)) (fst (execute fuel stack w))
  /\ snd (execute_g g fuel stack w) = snd (execute fuel stack w).
Proof.
  intros Hg fuel stack w. unfold execute_g, execute.
  pose proof (flags_do_not_leak g Hg fuel stack 0%nat (length stack) 0%nat w) as [Hc Hw].
  destruct (compose_g g fuel 0 stack (length stack) 0%nat w) as [r w1].
  destruct (compose fuel 0 stack (length stack) 0%nat w) as [r' w1']. cbn [fst snd] in *. subst w1'.
  destruct Hc as (E1 & E2 & E3). unfold pr_out. rewrite E1, E2, E3. split; [repeat split; assumption|reflexivity].
Qed.
