(* Proofs/ExecEventsProofs.v — C16: policy events fire exactly in their situation.  Layer-level statements for an
   ARBITRARY inner layer and world; [kps w] is the list of (kind, stack position) of the events logged so far,
   newest first. *)
From FS Require Import Model.Exec Proofs.ExecProofs.
From Coq Require Import ZifyBool.

Definition kp (e : event) : evk * nat := (e_kind e, e_pos e).
Definition kps (w : world) : list (evk * nat) := map kp (w_trace w).

Lemma kps_stamp w c : kps (stamp w c) = kps w.
Proof. unfold kps, stamp. destruct (w_trace w) as [|e t] eqn:E; [rewrite E; reflexivity|]. reflexivity. Qed.
Lemma kps_emit w k q o aux : kps (emit w k q o aux) = (k, q) :: kps w.
Proof. reflexivity. Qed.
Lemma kps_ev w c k q r : kps (ev_with_result w c k q r) = (k, q) :: kps w.
Proof. unfold ev_with_result. rewrite kps_stamp. reflexivity. Qed.

(* ---- OnFull: exactly when the bulkhead refuses ---- *)
Theorem bulkhead_full_event_only_on_refusal pos inst mw (inner : layer) c w :
  let cap := fst (nth inst (w_bulkheads w) (0, 0)) in
  let held := snd (nth inst (w_bulkheads w) (0, 0)) in
  let setheld (w : world) (h : Z) :=
    set_insts w (w_breakers w) (w_limiters w) (upd inst (fun p => (fst p, h)) (w_bulkheads w)) (w_caches w) in
  (* an execution that arrives cancelled is turned away silently *)
  (forall e, copy_err w c = Some e -> bulkhead_layer pos inst mw inner c w = (failure_result (cancel_error w c), w))
  (* admitted: this layer logs nothing *)
  /\ (copy_err w c = None -> held < cap ->
      kps (snd (bulkhead_layer pos inst mw inner c w)) = kps (snd (inner c (setheld w (held + 1)))))
  (* full, no waiting: refused at once with the event *)
  /\ (copy_err w c = None -> cap <= held -> mw = 0 ->
      fst (bulkhead_layer pos inst mw inner c w) = failure_result EFull
      /\ kps (snd (bulkhead_layer pos inst mw inner c w)) = (KFull, pos) :: kps w)
  (* full, waiting: the event exactly when the wait ran to its end; an interrupted wait reports the cancellation silently *)
  /\ (copy_err w c = None -> cap <= held -> mw <> 0 ->
      let i := fst (wait w mw (Some c)) in let w1 := snd (wait w mw (Some c)) in
      (i = true -> kps (snd (bulkhead_layer pos inst mw inner c w)) = kps w1
                   /\ fst (bulkhead_layer pos inst mw inner c w)
                      = failure_result (cancel_error w1 c))
      /\ (i = false -> fst (bulkhead_layer pos inst mw inner c w) = failure_result EFull
                       /\ kps (snd (bulkhead_layer pos inst mw inner c w)) = (KFull, pos) :: kps w1)).
Proof.
  cbv zeta. unfold bulkhead_layer. destruct (nth inst (w_bulkheads w) (0, 0)) as [cap held]. cbn [fst snd].
  split; [|split; [|split]].
  - intros e He. rewrite He. reflexivity.
  - intros Hc Hlt. rewrite Hc. destruct (held <? cap) eqn:E; [|lia].
    destruct (inner c _) as [r w2]. destruct (nth inst (w_bulkheads w2) (0, 0)) as [cap2 held2]. reflexivity.
  - intros Hc Hge Hm. rewrite Hc. destruct (held <? cap) eqn:E; [lia|]. subst mw. cbn [Z.eqb fst snd].
    rewrite kps_stamp. split; reflexivity.
  - intros Hc Hge Hm. rewrite Hc. destruct (held <? cap) eqn:E; [lia|]. destruct (mw =? 0) eqn:E0; [lia|].
    destruct (wait w mw (Some c)) as [i w1]. cbn [fst snd]. split; intros Hi; subst i; cbn [fst snd].
    + split; reflexivity.
    + rewrite kps_stamp. split; reflexivity.
Qed.

(* ---- the retry policy's verdict on a failed attempt: OnFailure always; OnAbort exactly when the outcome matches an abort
   condition; OnRetriesExceeded exactly when the budget (max retries or max duration) is exhausted and the outcome is not
   an abort; and either of the two ends the policy's run (Done), so neither can fire twice in one run ---- *)
Theorem retry_failure_events cfg pos c r w :
  let w0 := pause (ev_with_result w c KPolFailure pos r) (r_lsn_dur cfg) in    (* OnFailure logged, and its listener has returned *)
  let failed := rs_failed (get_rstate w pos) + 1 in
  let exceeded := (negb (r_max_retries cfg =? -1) && (r_max_retries cfg <? failed))
                  || (negb (r_max_duration cfg =? 0) && (r_max_duration cfg <? w_now w0 - w_start w0)) in
  let abortable := is_abortable (r_abort cfg) (pr_out r) in
  kps (snd (retry_on_failure cfg pos c r w)) =
    (if exceeded && negb abortable then [(KRetriesExceeded, pos)] else [])
    ++ (if abortable then [(KAbort, pos)] else []) ++ kps w0
  /\ (r_lsn_dur cfg <= 0 -> kps w0 = (KPolFailure, pos) :: kps w)
  /\ (abortable || exceeded = true -> pr_done (fst (retry_on_failure cfg pos c r w)) = true)
  /\ rs_exceeded (get_rstate (snd (retry_on_failure cfg pos c r w)) pos) = exceeded.
Proof.
  cbv zeta. unfold retry_on_failure.
  set (w0 := pause (ev_with_result w c KPolFailure pos r) (r_lsn_dur cfg)).
  assert (R0 : get_rstate w0 pos = get_rstate w pos).
  { subst w0. apply get_rstate_ext. rewrite (sp_retry _ _ (pause_sps _ _)). reflexivity. }
  rewrite R0.
  set (exceeded := (negb (r_max_retries cfg =? -1) && (r_max_retries cfg <? rs_failed (get_rstate w pos) + 1))
                   || (negb (r_max_duration cfg =? 0) && (r_max_duration cfg <? w_now w0 - w_start w0))).
  set (abortable := is_abortable (r_abort cfg) (pr_out r)).
  set (w1 := put_rstate w0 pos _).
  assert (K1 : kps w1 = kps w0) by reflexivity.
  assert (K0 : r_lsn_dur cfg <= 0 -> kps w0 = (KPolFailure, pos) :: kps w).
  { intros Hd. subst w0. unfold pause. destruct (0 <? r_lsn_dur cfg) eqn:E; [lia|apply kps_ev]. }
  assert (G : forall w', w_retry w' = w_retry w1 -> rs_exceeded (get_rstate w' pos) = exceeded).
  { intros w' Hw. rewrite (get_rstate_ext w1 w' pos Hw). subst w1. rewrite get_put_rstate. reflexivity. }
  assert (Gev : forall k, rs_exceeded (get_rstate (ev_with_result w1 c k pos r) pos) = exceeded) by (intros k; apply G; reflexivity).
  assert (Gev2 : forall k k', rs_exceeded (get_rstate (ev_with_result (ev_with_result w1 c k pos r) c k' pos r) pos) = exceeded)
    by (intros k k'; apply G; reflexivity).
  destruct abortable, exceeded; cbn [negb andb orb app].
  - destruct (negb (r_return_last cfg)); cbn [fst snd]; rewrite kps_ev, K1.
    + split; [reflexivity|]. split; [exact K0|]. split; [intros _; reflexivity|apply Gev].
    + split; [reflexivity|]. split; [exact K0|]. split; [intros _; reflexivity|apply Gev].
  - cbn [fst snd]. rewrite kps_ev, K1. split; [reflexivity|]. split; [exact K0|]. split; [intros _; reflexivity|apply Gev].
  - destruct (negb (r_return_last cfg)); cbn [fst snd]; rewrite kps_ev, K1.
    + split; [reflexivity|]. split; [exact K0|]. split; [intros _; reflexivity|apply Gev].
    + split; [reflexivity|]. split; [exact K0|]. split; [intros _; reflexivity|apply Gev].
  - cbn [fst snd]. rewrite K1. split; [reflexivity|]. split; [exact K0|]. split; [discriminate|apply G; reflexivity].
Qed.

(* ---- OnTimeoutExceeded: logged by the timer callback, which is also what makes the Timeout report ErrExceeded ---- *)
Theorem timeout_event_marks_fired w s : (s < length (w_scopes w))%nat ->
  exists rest, kps (fire_timeout w s) = (KTimeoutExceeded, sc_pos (get_scope w s)) :: rest /\ rest = kps w
  /\ sc_fired (get_scope (fire_timeout w s) s) = true.
Proof.
  intros Hs. exists (kps w). unfold fire_timeout.
  set (w1 := set_scopes w _ (w_seq w) (w_ext w)). set (w2 := emit w1 KTimeoutExceeded _ _ _).
  assert (F2 : sc_fired (get_scope w2 s) = true).
  { subst w2 w1. unfold get_scope, emit. cbn [w_scopes set_trace set_scopes]. rewrite nth_upd_same by exact Hs. reflexivity. }
  destruct (copy_err w2 _).
  - split; [reflexivity|]. split; [reflexivity|exact F2].
  - split; [unfold mark_done; match goal with |- context [sc_done ?x] => destruct (sc_done x) end; reflexivity|].
    split; [reflexivity|].
    unfold mark_done. match goal with |- context [sc_done ?x] => destruct (sc_done x) end.
    + unfold get_scope, set_copy_last, set_cell. cbn [w_scopes set_copies]. exact F2.
    + unfold get_scope. cbn [w_scopes set_scopes set_copy_last set_copies set_cell].
      unfold get_scope in F2. cbn [w_scopes] in F2.
      rewrite nth_upd_same by (subst w2 w1; unfold emit; cbn [w_scopes set_trace set_scopes]; rewrite upd_length; exact Hs).
      cbn [sc_fired]. exact F2.
Qed.

Theorem timeout_event_iff_fired_step w s : (s < length (w_scopes w))%nat ->
  kps (fire_timeout w s) = (KTimeoutExceeded, sc_pos (get_scope w s)) :: kps w
  /\ sc_fired (get_scope (fire_timeout w s) s) = true.
Proof. intros H. destruct (timeout_event_marks_fired w s H) as (rest & A & B & C). subst rest. split; assumption. Qed.

(* ---- C08: a bulkhead that turns a cancelled execution away -- on arrival or out of its wait -- reports the error of the
   cancellation result (the cause), and without running anything inside it ---- *)
Lemma cancel_error_is_cause w c cr e : is_canceled w c = Some cr -> pr_err cr = Some e -> cancel_error w c = e.
Proof. intros H He. unfold cancel_error. rewrite H, He. reflexivity. Qed.

Theorem bulkhead_cancelled_reports_cause pos inst mw (inner inner' : layer) c w :
  (forall cr e, is_canceled w c = Some cr -> pr_err cr = Some e ->
     bulkhead_layer pos inst mw inner c w = (failure_result e, w))
  /\ (copy_err w c = None -> fst (nth inst (w_bulkheads w) (0, 0)) <= snd (nth inst (w_bulkheads w) (0, 0)) -> mw <> 0 ->
      fst (wait w mw (Some c)) = true ->
      let w1 := snd (wait w mw (Some c)) in
      bulkhead_layer pos inst mw inner c w = bulkhead_layer pos inst mw inner' c w
      /\ forall cr e, is_canceled w1 c = Some cr -> pr_err cr = Some e ->
           bulkhead_layer pos inst mw inner c w = (failure_result e, w1)).
Proof.
  unfold bulkhead_layer. destruct (nth inst (w_bulkheads w) (0, 0)) as [cap held]. cbn [fst snd]. split.
  - intros cr e H He. pose proof H as H'. unfold is_canceled in H'. destruct (copy_err w c) as [e0|] eqn:Ec; [|discriminate].
    rewrite (cancel_error_is_cause w c cr e H He). reflexivity.
  - intros Hc Hge Hm Hi. rewrite Hc. destruct (held <? cap) eqn:E; [lia|]. destruct (mw =? 0) eqn:E0; [lia|].
    destruct (wait w mw (Some c)) as [i w1]. cbn [fst snd] in *. subst i. split; [reflexivity|].
    intros cr e H He. rewrite (cancel_error_is_cause w1 c cr e H He). reflexivity.
Qed.

(* finding F16 (repaired): what the bulkhead used to report -- the context's error -- is not the cause when the execution
   was cancelled through its ExecutionResult *)
Theorem bulkhead_reported_context_error_before_fix :
  exists w c, copy_err w c = Some ECtxCanceled /\ cancel_error w c = EExecCanceled.
Proof.
  exists (fire_ext (fresh_world 0 None CKNone [] [] [] [] []) EExecCanceled), 0%nat. vm_compute. split; reflexivity.
Qed.
