(* Proofs/LedgerProofs.v — C19: the hedge attempts' hand-off never blocks *)
From FS Require Import Model.Ledger.

Definition hinv (s : hstate) : Prop :=
  hs_blocked s = 0 /\ (hs_sent s = false -> hs_chan s = 0) /\ hs_chan s <= 1.

Lemma hinv_step s x : 1 <= hs_cap s -> hinv s -> hinv (h_step s x) /\ hs_cap (h_step s x) = hs_cap s.
Proof.
  intros Hc (Hb & Hs & Hl). destruct x as [w|]; cbn [h_step].
  - destruct (w && negb (hs_sent s)) eqn:E.
    + apply andb_prop in E. destruct E as [_ E]. destruct (hs_sent s) eqn:Es; [discriminate|].
      rewrite (Hs eq_refl). destruct (Nat.ltb 0 (hs_cap s)) eqn:El.
      * unfold hinv. cbn [hs_blocked hs_sent hs_chan hs_cap]. repeat split; try assumption; try lia; try (intros; discriminate).
      * apply Nat.ltb_ge in El. lia.
    + unfold hinv. cbn [hs_blocked hs_sent hs_chan hs_cap]. repeat split; assumption.
  - destruct (hs_chan s) as [|n] eqn:Ec.
    + unfold hinv. rewrite Ec. repeat split; try assumption; try lia.
    + unfold hinv. cbn [hs_blocked hs_sent hs_chan hs_cap]. repeat split; try assumption; try lia;
        try (intros Hf; specialize (Hs Hf); lia).
Qed.

(* with a buffer of at least one slot, in EVERY interleaving of any number of finishing attempts with the main loop's
   receives (including none at all), no attempt goroutine ever blocks on its send: none is left behind *)
Theorem hedge_send_never_blocks cap tr : 1 <= cap -> hs_blocked (h_run cap tr) = 0.
Proof.
  intros Hc. unfold h_run.
  assert (H : forall s, hs_cap s = cap -> hinv s -> hinv (fold_left h_step tr s)).
  { induction tr as [|x tr IH]; intros s Hcap Hi; [exact Hi|]. cbn [fold_left].
    destruct (hinv_step s x ltac:(lia) Hi) as [Hi' Hc']. apply IH; [lia|exact Hi']. }
  apply H; [reflexivity|]. repeat split; auto.
Qed.

(* with an unbuffered channel a goroutine is left behind as soon as the main loop has stopped listening *)
Example unbuffered_channel_leaks : hs_blocked (h_run 0 [HFinish true]) = 1.
Proof. reflexivity. Qed.

(* ---------------- one winner, every finish counted ----------------------- *)
(* ghost: how many attempts win the compare-and-swap on resultSent (and therefore send) along a trace *)
Definition h_wins_step (s : hstate) (x : hstep) : nat :=
  match x with
  | HFinish w => if w && negb (hs_sent s) then 1 else 0
  | HRecv => 0
  end.

Fixpoint h_wins (s : hstate) (tr : list hstep) : nat :=
  match tr with
  | [] => 0
  | x :: tr' => h_wins_step s x + h_wins (h_step s x) tr'
  end.

Definition is_finish (x : hstep) : bool := match x with HFinish _ => true | HRecv => false end.
Definition wants (x : hstep) : bool := match x with HFinish w => w | HRecv => false end.

Lemma sent_sticky s x : hs_sent s = true -> hs_sent (h_step s x) = true.
Proof.
  intros Hs. destruct x as [w|]; cbn [h_step].
  - rewrite Hs, andb_false_r. cbn [hs_sent]. reflexivity.
  - destruct (hs_chan s); [exact Hs|cbn [hs_sent]; exact Hs].
Qed.

Lemma wins_after_sent tr : forall s, hs_sent s = true -> h_wins s tr = 0.
Proof.
  induction tr as [|x tr IH]; intros s Hs; [reflexivity|]. cbn [h_wins].
  rewrite (IH _ (sent_sticky s x Hs)). destruct x as [w|]; cbn [h_wins_step]; [|reflexivity].
  rewrite Hs, andb_false_r. reflexivity.
Qed.

Lemma win_sets_sent s w : w && negb (hs_sent s) = true -> hs_sent (h_step s (HFinish w)) = true.
Proof. intros E. cbn [h_step]. rewrite E. destruct (Nat.ltb _ _); reflexivity. Qed.

Lemma lose_keeps_sent s w : w && negb (hs_sent s) = false -> hs_sent (h_step s (HFinish w)) = hs_sent s.
Proof. intros E. cbn [h_step]. rewrite E. reflexivity. Qed.

Lemma recv_keeps_sent s : hs_sent (h_step s HRecv) = hs_sent s.
Proof. cbn [h_step]. destruct (hs_chan s); reflexivity. Qed.

(* whatever the buffer size and the interleaving: the compare-and-swap is won exactly once if some finishing attempt
   has a result to hand on (final or matching the cancel conditions), and never otherwise *)
Theorem hedge_one_winner_from s tr :
  hs_sent s = false -> h_wins s tr = (if existsb wants tr then 1 else 0).
Proof.
  revert s. induction tr as [|x tr IH]; intros s Hs; [reflexivity|]. cbn [h_wins existsb].
  destruct x as [w|]; cbn [h_wins_step wants].
  - rewrite Hs. cbn [negb]. rewrite andb_true_r. destruct w; cbn [orb].
    + rewrite wins_after_sent; [reflexivity|]. apply win_sets_sent. rewrite Hs. reflexivity.
    + rewrite IH; [reflexivity|]. rewrite lose_keeps_sent; [exact Hs|reflexivity].
  - cbn [orb]. rewrite IH; [reflexivity|]. rewrite recv_keeps_sent. exact Hs.
Qed.

Theorem hedge_one_winner cap tr : h_wins (h_init cap) tr = (if existsb wants tr then 1 else 0).
Proof. apply hedge_one_winner_from. reflexivity. Qed.

Corollary hedge_at_most_one_winner cap tr : h_wins (h_init cap) tr <= 1.
Proof. rewrite hedge_one_winner. destruct (existsb wants tr); lia. Qed.

(* resultSent at the end says whether somebody won *)
Theorem hedge_sent_iff_winner cap tr : hs_sent (h_run cap tr) = existsb wants tr.
Proof.
  unfold h_run. assert (H : forall s, hs_sent (fold_left h_step tr s) = hs_sent s || existsb wants tr).
  { induction tr as [|x tr IH]; intros s; cbn [fold_left existsb]; [rewrite orb_false_r; reflexivity|].
    rewrite IH. destruct x as [w|]; cbn [wants].
    - destruct (w && negb (hs_sent s)) eqn:E.
      + rewrite (win_sets_sent _ _ E). apply andb_prop in E. destruct E as [-> _]. cbn [orb]. rewrite orb_true_r. reflexivity.
      + rewrite (lose_keeps_sent _ _ E). destruct (hs_sent s) eqn:Es; [reflexivity|]. rewrite andb_true_r in E. rewrite E. reflexivity.
    - rewrite recv_keeps_sent. reflexivity. }
  rewrite H. reflexivity.
Qed.

(* resultCount counts every finished attempt exactly once, in every interleaving and for every buffer size *)
Theorem hedge_count_exact cap tr : hs_count (h_run cap tr) = List.length (filter is_finish tr).
Proof.
  unfold h_run. assert (H : forall s, hs_count (fold_left h_step tr s) = hs_count s + List.length (filter is_finish tr)).
  { induction tr as [|x tr IH]; intros s; cbn [fold_left filter List.length]; [lia|]. rewrite IH.
    destruct x as [w|]; cbn [is_finish filter List.length h_step].
    - destruct (w && negb (hs_sent s)); [destruct (Nat.ltb _ _)|]; cbn [hs_count]; lia.
    - destruct (hs_chan s); cbn [hs_count]; lia. }
  rewrite H. reflexivity.
Qed.

(* with a buffer of at least one slot the channel never holds more than the winner's result, and holds nothing
   before somebody has won *)
Theorem hedge_channel_bound cap tr : 1 <= cap ->
  hs_chan (h_run cap tr) <= 1 /\ (hs_sent (h_run cap tr) = false -> hs_chan (h_run cap tr) = 0).
Proof.
  intros Hc. unfold h_run.
  assert (H : forall s, hs_cap s = cap -> hinv s -> hinv (fold_left h_step tr s)).
  { induction tr as [|x tr IH]; intros s Hcap Hi; [exact Hi|]. cbn [fold_left].
    destruct (hinv_step s x ltac:(lia) Hi) as [Hi' Hc']. apply IH; [lia|exact Hi']. }
  destruct (H (h_init cap) eq_refl) as (_ & Hs & Hl); [repeat split; auto|]. split; assumption.
Qed.

Example one_winner_nonvacuous :
  h_wins (h_init 1) [HFinish false; HFinish true; HRecv; HFinish true] = 1 /\
  hs_count (h_run 1 [HFinish false; HFinish true; HRecv; HFinish true]) = 3.
Proof. split; reflexivity. Qed.
