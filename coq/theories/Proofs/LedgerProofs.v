(* Proofs/LedgerProofs.v — C19: the hedge attempts' hand-off never blocks *)
From FS Require Import Model.Ledger.

Definition hinv (s : hstate) : Prop :=
  hs_blocked s = 0 /\ (hs_sent s = false -> hs_chan s = 0) /\ hs_chan s <= 1.

Lemma hinv_step s x : 1 <= hs_cap s -> hinv s -> hinv (h_step s x) /\ hs_cap (h_step s x) = hs_cap s.
Proof.
  intros Hc (Hb & Hs & Hl). destruct x as [w|]; cbn [h_step].
  - destruct (w && negb (hs_sent s)) eqn:E.
    + apply andb_prop in E. destruct E as [_ E]. destruct (hs_sent s) eqn:Es; [discriminate|].
      rewrite (Hs eq_refl). destruct (Nat.ltb 0 (hs_cap s)) eqn:El.
      * unfold hinv. cbn [hs_blocked hs_sent hs_chan hs_cap]. repeat split; try assumption; try lia; try (intros; discriminate).
      * apply Nat.ltb_ge in El. lia.
    + unfold hinv. cbn [hs_blocked hs_sent hs_chan hs_cap]. repeat split; assumption.
  - destruct (hs_chan s) as [|n] eqn:Ec.
    + unfold hinv. rewrite Ec. repeat split; try assumption; try lia.
    + unfold hinv. cbn [hs_blocked hs_sent hs_chan hs_cap]. repeat split; try assumption; try lia;
        try (intros Hf; specialize (Hs Hf); lia).
Qed.

(* with a buffer of at least one slot, in EVERY interleaving of any number of finishing attempts with the main loop's
   receives (including none at all), no attempt goroutine ever blocks on its send: none is left behind *)
Theorem hedge_send_never_blocks cap tr : 1 <= cap -> hs_blocked (h_run cap tr) = 0.
Proof.
  intros Hc. unfold h_run.
  assert (H : forall s, hs_cap s = cap -> hinv s -> hinv (fold_left h_step tr s)).
  { induction tr as [|x tr IH]; intros s Hcap Hi; [exact Hi|]. cbn [fold_left].
    destruct (hinv_step s x ltac:(lia) Hi) as [Hi' Hc']. apply IH; [lia|exact Hi']. }
  apply H; [reflexivity|]. repeat split; auto.
Qed.

(* with an unbuffered channel a goroutine is left behind as soon as the main loop has stopped listening *)
Example unbuffered_channel_leaks : hs_blocked (h_run 0 [HFinish true]) = 1.
Proof. reflexivity. Qed.
