(* Proofs/BreakerTimedProofs.v — C03: the ten time buckets of timedStats (circuitbreaker/circuitstats.go) with their
   running summary ARE the documented window: the results recorded in the last ten time slices counted from the slice
   of the most recent record.  With the bit-ring refinement of Proofs/BreakerProofs.v this gives, for EVERY
   configuration in the guard (count, ratio, time-windowed count and rate thresholds) and every history, that the
   code's breaker is the documented machine. *)
From FS Require Import Spec.BreakerSpec Proofs.BreakerProofs.
From Coq Require Import ZifyBool.
Ltac Zify.zify_post_hook ::= Z.div_mod_to_equations.

(* ---- counting the entries of a log by slice ---- *)
Definition slice_of (nanos : Z) (e : Z * bool) : Z := fst e / nanos.

Definition cpair (l : list (Z * bool)) : Z * Z := (count_if (fun b => b) l, count_if negb l).

Definition slot (nanos : Z) (log : list (Z * bool)) (s : Z) : Z * Z :=
  cpair (filter (fun e => slice_of nanos e =? s) log).

Definition win (nanos : Z) (log : list (Z * bool)) (H : Z) : list (Z * bool) :=
  filter (fun e => H - bucket_count <? slice_of nanos e) log.

Lemma cpair_cons e l : cpair (e :: l) = (fst (cpair l) + (if snd e then 1 else 0), snd (cpair l) + (if snd e then 0 else 1)).
Proof. unfold cpair, count_if. cbn [filter fst snd]. destruct (snd e); cbn [negb length fst snd]; f_equal; lia. Qed.

Lemma cpair_nil : cpair [] = (0, 0).
Proof. reflexivity. Qed.

Lemma cpair_len l : fst (cpair l) + snd (cpair l) = Z.of_nat (length l).
Proof. induction l as [|e l IH]; [reflexivity|]. rewrite cpair_cons. cbn [fst snd length]. destruct (snd e); lia. Qed.

(* entries above a bound split into those of the next slice and those above it *)
Lemma win_split nanos log a :
  cpair (filter (fun e => a <? slice_of nanos e) log) =
  (fst (cpair (filter (fun e => a + 1 <? slice_of nanos e) log)) + fst (slot nanos log (a + 1)),
   snd (cpair (filter (fun e => a + 1 <? slice_of nanos e) log)) + snd (slot nanos log (a + 1))).
Proof.
  unfold slot. induction log as [|e log IH]; [reflexivity|]. cbn [filter].
  destruct (a <? slice_of nanos e) eqn:E1; destruct (a + 1 <? slice_of nanos e) eqn:E2; destruct (slice_of nanos e =? a + 1) eqn:E3;
    try lia; rewrite ?cpair_cons, ?IH; cbn [fst snd]; f_equal; lia.
Qed.

Lemma filter_none {A} (f : A -> bool) l : (forall x, In x l -> f x = false) -> filter f l = [].
Proof. induction l as [|x l IH]; intros H; [reflexivity|]. cbn [filter]. rewrite (H x (or_introl eq_refl)). apply IH. intros y Hy. apply H. right. exact Hy. Qed.

Lemma slot_above nanos log H0 s : (forall e, In e log -> slice_of nanos e <= H0) -> H0 < s -> slot nanos log s = (0, 0).
Proof. intros Hle Hs. unfold slot. rewrite filter_none; [reflexivity|]. intros e He. specialize (Hle e He). lia. Qed.

Lemma win_above nanos log H0 H : (forall e, In e log -> slice_of nanos e <= H0) -> H0 + bucket_count <= H -> win nanos log H = [].
Proof. intros Hle Hs. unfold win. apply filter_none. intros e He. specialize (Hle e He). unfold bucket_count in *. lia. Qed.

(* ---- the invariant of the buckets, relative to a head slice H (all entries are of slice <= H0 <= H) ---- *)
Record Inv (nanos : Z) (log : list (Z * bool)) (H0 H : Z) (bs : list (Z * Z)) (sum : Z * Z) : Prop := {
  iv_len : length bs = 10%nat;
  iv_sum : sum = cpair (win nanos log H);
  iv_bucket : forall j, 0 <= j < 10 -> nth (Z.to_nat ((H - j) mod 10)) bs (0, 0) = slot nanos log (H - j);
  iv_le : forall e, In e log -> slice_of nanos e <= H0;
  iv_h : H0 <= H }.

(* one iteration of the expiry loop: the head moves on by one slice *)
Lemma Inv_step nanos log H0 H bs sum :
  Inv nanos log H0 H bs sum ->
  let idx := Z.to_nat ((H + 1) mod 10) in
  Inv nanos log H0 (H + 1) (set_nth idx (0, 0) bs) (fst sum - fst (nth idx bs (0, 0)), snd sum - snd (nth idx bs (0, 0))).
Proof.
  intros [Hl Hs Hb Hle Hh] idx.
  assert (Hidx : (idx < 10)%nat) by (subst idx; lia).
  assert (Hold : nth idx bs (0, 0) = slot nanos log (H - 9)).
  { rewrite <- (Hb 9 ltac:(lia)). f_equal. subst idx. f_equal. lia. }
  constructor.
  - rewrite set_nth_length. exact Hl.
  - rewrite Hold, Hs. unfold win, bucket_count.
    rewrite (win_split nanos log (H - 10)). replace (H - 10 + 1) with (H - 9) by lia. replace (H + 1 - 10) with (H - 9) by lia.
    cbn [fst snd]. destruct (cpair (filter _ log)) as [x y]. destruct (slot nanos log (H - 9)) as [u v]. cbn [fst snd]. f_equal; lia.
  - intros j Hj. destruct (Z.eq_dec j 0) as [->|Hj0].
    + replace (H + 1 - 0) with (H + 1) by lia. fold idx. rewrite nth_set_nth_eq by lia.
      symmetry. apply (slot_above nanos log H0); [exact Hle|lia].
    + rewrite nth_set_nth_neq by (subst idx; lia).
      replace (H + 1 - j) with (H - (j - 1)) by lia. apply Hb. lia.
  - exact Hle.
  - lia.
Qed.

(* the whole expiry loop *)
Lemma Inv_expire nanos log H0 head : forall n i bs sum,
  Inv nanos log H0 (head + i) bs sum ->
  let '(bs', sum') := ts_expire bs sum head i n in Inv nanos log H0 (head + i + Z.of_nat n) bs' sum'.
Proof.
  induction n as [|n IH]; intros i bs sum H; cbn [ts_expire].
  - replace (head + i + Z.of_nat 0) with (head + i) by lia. exact H.
  - pose proof (Inv_step _ _ _ _ _ _ H) as Hs. cbv zeta in Hs.
    replace (head + i + 1) with (head + (i + 1)) in Hs by lia.
    unfold bucket_count. replace (head + i + 1) with (head + (i + 1)) by lia.
    specialize (IH (i + 1) _ _ Hs).
    destruct (ts_expire _ _ head (i + 1) n) as [bs' sum'].
    replace (head + i + Z.of_nat (S n)) with (head + (i + 1) + Z.of_nat n) by lia. exact IH.
Qed.

(* once ten slices have gone by nothing is left: the head may jump *)
Lemma Inv_jump nanos log H0 bs sum H' :
  Inv nanos log H0 (H0 + 10) bs sum -> H0 + 10 <= H' -> Inv nanos log H0 H' bs sum.
Proof.
  intros [Hl Hs Hb Hle Hh] Hj. constructor.
  - exact Hl.
  - rewrite Hs. rewrite (win_above nanos log H0 (H0 + 10)) by (try exact Hle; unfold bucket_count; lia).
    rewrite (win_above nanos log H0 H') by (try exact Hle; unfold bucket_count; lia). reflexivity.
  - intros j Hj'. rewrite (slot_above nanos log H0) by (try exact Hle; lia).
    set (r := (H' - j) mod 10).
    assert (Hr : 0 <= r < 10) by (subst r; lia).
    pose proof (Hb ((H0 + 10 - r) mod 10) ltac:(lia)) as Hb'.
    rewrite (slot_above nanos log H0) in Hb' by (try exact Hle; lia).
    replace (Z.to_nat r) with (Z.to_nat ((H0 + 10 - (H0 + 10 - r) mod 10) mod 10)) by lia. exact Hb'.
  - exact Hle.
  - lia.
Qed.

(* currentBucket: the head moves to the slice of [now] *)
Lemma Inv_current nanos log t now :
  Inv nanos log (ts_head t) (ts_head t) (ts_buckets t) (ts_sum t) -> ts_head t <= now / ts_nanos t ->
  let t' := ts_current t now in
  ts_nanos t' = ts_nanos t /\ ts_head t' = now / ts_nanos t
  /\ Inv nanos log (ts_head t) (ts_head t') (ts_buckets t') (ts_sum t').
Proof.
  intros HI Hle. unfold ts_current.
  destruct (ts_head t <? now / ts_nanos t) eqn:E.
  - set (newhead := now / ts_nanos t) in *.
    set (move := Z.min bucket_count (newhead - ts_head t)).
    assert (H0 : Inv nanos log (ts_head t) (ts_head t + 0) (ts_buckets t) (ts_sum t)) by (replace (ts_head t + 0) with (ts_head t) by lia; exact HI).
    pose proof (Inv_expire nanos log (ts_head t) (ts_head t) (Z.to_nat move) 0 _ _ H0) as He.
    destruct (ts_expire (ts_buckets t) (ts_sum t) (ts_head t) 0 (Z.to_nat move)) as [bs' sum'].
    cbn [ts_nanos ts_head ts_buckets ts_sum]. split; [reflexivity|]. split; [reflexivity|].
    unfold bucket_count in *.
    destruct (Z_le_gt_dec (newhead - ts_head t) 10) as [Hs|Hl].
    + replace (ts_head t + 0 + Z.of_nat (Z.to_nat move)) with newhead in He by (subst move; lia). exact He.
    + replace (ts_head t + 0 + Z.of_nat (Z.to_nat move)) with (ts_head t + 10) in He by (subst move; lia).
      apply Inv_jump; [exact He|lia].
  - split; [reflexivity|]. split; [lia|]. exact HI.
Qed.

Record Rtimed (nanos : Z) (t : Z) (ts : tstats) (log : list (Z * bool)) : Prop := {
  rt_nanos : ts_nanos ts = nanos; rt_pos : 1 <= nanos; rt_t : 0 <= t;
  rt_inv : Inv nanos log (ts_head ts) (ts_head ts) (ts_buckets ts) (ts_sum ts);
  rt_head : match log with [] => ts_head ts = 0 | (tn, _) :: _ => ts_head ts = tn / nanos end;
  rt_time : forall e, In e log -> fst e <= t }.

Lemma Rtimed_new period t : 10 <= period -> 0 <= t -> Rtimed (period / bucket_count) t (ts_new period) [].
Proof.
  intros Hp Ht. unfold bucket_count. constructor; cbn [ts_new ts_nanos ts_head ts_buckets ts_sum].
  - reflexivity.
  - lia.
  - exact Ht.
  - constructor.
    + reflexivity.
    + reflexivity.
    + intros j Hj. unfold slot. cbn [filter]. rewrite cpair_nil.
      change (repeat (0, 0) 10) with (repeat ((0, 0) : Z * Z) 10). apply nth_repeat.
    + intros e [].
    + lia.
  - reflexivity.
  - intros e [].
Qed.

Lemma Rtimed_weak nanos t t' ts log : Rtimed nanos t ts log -> t <= t' -> Rtimed nanos t' ts log.
Proof.
  intros [Hn Hp H0 HI Hh Htime] Ht. constructor; [exact Hn|exact Hp|lia|exact HI|exact Hh|].
  intros e He. specialize (Htime e He). lia.
Qed.

Lemma Rtimed_record nanos t ts log now v :
  Rtimed nanos t ts log -> t <= now -> Rtimed nanos now (ts_record ts now v) ((now, v) :: log).
Proof.
  intros [Hn Hp Ht HI Hh Htime] Hnow.
  assert (Hle : ts_head ts <= now / ts_nanos ts).
  { rewrite Hn. destruct log as [|[tn b] log'].
    - rewrite Hh. apply Z.div_pos; lia.
    - rewrite Hh. apply Z.div_le_mono; [lia|]. specialize (Htime (tn, b) (or_introl eq_refl)). cbn in Htime. lia. }
  pose proof (Inv_current nanos log ts now HI Hle) as (En & Eh & HI'). cbv zeta in *.
  unfold ts_record. set (t' := ts_current ts now) in *.
  rewrite Hn in *. set (H := now / nanos) in *.
  destruct HI' as [Hl Hs Hb Hle0 Hh0]. rewrite Eh in *.
  assert (Hidx : (Z.to_nat (H mod bucket_count) < 10)%nat) by (unfold bucket_count; lia).
  constructor; cbn [ts_nanos ts_head ts_buckets ts_sum]; try assumption; try lia.
  - constructor.
    + rewrite set_nth_length. exact Hl.
    + unfold win. cbn [filter]. unfold slice_of at 1. cbn [fst]. fold H.
      replace (H - bucket_count <? H) with true by (unfold bucket_count; lia).
      rewrite cpair_cons. cbn [snd]. fold (win nanos log H). rewrite Hs. destruct v; cbn [fst snd]; f_equal; lia.
    + intros j Hj. destruct (Z.eq_dec j 0) as [->|Hj0].
      * replace (H - 0) with H by lia. unfold bucket_count. rewrite nth_set_nth_eq by (unfold bucket_count in Hidx; lia).
        unfold slot. cbn [filter]. unfold slice_of at 1. cbn [fst]. fold H. rewrite Z.eqb_refl. rewrite cpair_cons. cbn [snd].
        fold (slot nanos log H). specialize (Hb 0 ltac:(lia)). replace (H - 0) with H in Hb by lia. unfold bucket_count. rewrite Hb.
        destruct v; cbn [fst snd]; f_equal; lia.
      * unfold bucket_count. rewrite nth_set_nth_neq by lia. rewrite Hb by lia.
        unfold slot. cbn [filter]. unfold slice_of at 2. cbn [fst]. fold H. replace (H =? H - j) with false by lia. reflexivity.
    + intros e [<-|He]; [unfold slice_of; cbn [fst]; fold H; lia|]. specialize (Hle0 e He). lia.
    + lia.
  - intros e [<-|He]; [cbn; lia|]. specialize (Htime e He). lia.
Qed.

Lemma Rtimed_obs nanos t ts log : Rtimed nanos t ts log ->
  let a := {| a_kind := WTimed nanos; a_log := log |} in
  fst (ts_sum ts) + snd (ts_sum ts) = Z.of_nat (length (a_window a))
  /\ snd (ts_sum ts) = count_if negb (a_window a) /\ fst (ts_sum ts) = count_if (fun b => b) (a_window a).
Proof.
  intros [Hn Hp Ht [Hl Hs Hb Hle0 Hh0] Hh Htime] a. unfold a_window, a. cbn [a_kind a_log].
  destruct log as [|[tn b] log'].
  - rewrite Hs. cbn. auto.
  - rewrite Hh in Hs. change (filter _ ((tn, b) :: log')) with (win nanos ((tn, b) :: log') (tn / nanos)).
    rewrite Hs. repeat split; try reflexivity. apply cpair_len.
Qed.

(* ---- every configuration: bit ring and time buckets together ---- *)
Definition Rall (t : Z) (st : stats) (a : astats) : Prop :=
  match st, a_kind a with
  | SC c, WCount cap => Rcount cap c (a_log a)
  | ST ts, WTimed nanos => Rtimed nanos t ts (a_log a)
  | _, _ => False
  end.

Lemma Rall_obs t st a : Rall t st a ->
  si_exec conc_impl st = si_exec abs_impl a /\ si_fail conc_impl st = si_fail abs_impl a
  /\ si_succ conc_impl st = si_succ abs_impl a.
Proof.
  unfold Rall. destruct st as [c|ts]; destruct a as [[cap|n] log]; cbn [a_kind a_log]; try tauto.
  - apply (Rc_obs t (SC c) {| a_kind := WCount cap; a_log := log |}).
  - intros H. cbn [conc_impl abs_impl si_exec si_fail si_succ st_exec st_fail st_succ].
    apply (Rtimed_obs n t ts log H).
Qed.

Lemma Rall_rec t st a now v : Rall t st a -> t <= now ->
  Rall now (si_record conc_impl st now v) (si_record abs_impl a now v).
Proof.
  unfold Rall. destruct st as [c|ts]; destruct a as [[cap|n] log]; cbn [a_kind a_log]; try tauto.
  - intros H Ht. apply (Rc_rec t (SC c) {| a_kind := WCount cap; a_log := log |} now v H Ht).
  - intros H Ht. cbn [conc_impl abs_impl si_record st_record a_kind a_log]. apply (Rtimed_record n t); assumption.
Qed.

(* C03: for EVERY configuration in the guard -- count, ratio, time-windowed count and time-windowed rate thresholds,
   with or without success thresholds, fixed delay or delay function -- and every history of records, permit requests,
   manual transitions and clock advances, the code's breaker (bit ring / ten time buckets with running summaries)
   behaves exactly like the documented machine over the documented windows: same returned values, states,
   remaining delays, metrics and events after every operation. *)
Theorem breaker_refines_windows c h :
  bcfg_ok c = true -> bhist_ok 0 h = true -> cb_run c h = spec_brun c h.
Proof.
  intros Hok Hh. unfold cb_run, spec_brun.
  unfold bcfg_ok in Hok. repeat (apply andb_true_iff in Hok; destruct Hok as [Hok ?]).
  assert (Hnewc : forall t, 0 <= t -> Rall t (si_new_closed conc_impl c) (si_new_closed abs_impl c)).
  { intros t Ht. cbn [conc_impl abs_impl si_new_closed]. unfold Rall. destruct (negb (b_fperiod c =? 0)) eqn:E; cbn [a_kind a_log].
    - apply Rtimed_new; lia.
    - apply Rcount_new. lia. }
  apply (brun_sim conc_impl abs_impl Rall c Rall_obs Rall_rec) with (t := 0).
  - intros t t' a b HR Ht. unfold Rall in *. destruct a as [cs|ts]; destruct (a_kind b); try exact HR. eapply Rtimed_weak; eassumption.
  - exact Hnewc.
  - intros t _. cbn [conc_impl abs_impl si_new_half]. unfold Rall. cbn [a_kind a_log]. apply Rcount_new. lia.
  - unfold cb_init, spec_init, new_closed. constructor; [lia|]. apply Hnewc. lia.
  - exact Hh.
Qed.
