//go:build verif

package verifharness

import (
	"errors"
	"fmt"
	"testing"
	"testing/synctest"
	"time"

	"github.com/failsafe-go/failsafe-go"
	"github.com/failsafe-go/failsafe-go/circuitbreaker"
	"github.com/failsafe-go/failsafe-go/fallback"
	"github.com/failsafe-go/failsafe-go/hedgepolicy"
	"github.com/failsafe-go/failsafe-go/internal/util"
	"github.com/failsafe-go/failsafe-go/retrypolicy"
)

// ---- observation routes for failure classification (property C12 anchors) ----

// One policy per list of registrations classifies every outcome it is shown: what it made of an earlier outcome says nothing
// about the next one (the policies are kept across cases, keyed by their registrations).
type fbProbe struct {
	pol     failsafe.Policy[int]
	applied bool
}

var (
	fbProbes = map[string]*fbProbe{}
	rpProbes = map[string]failsafe.Policy[int]{}
)

func obsFallback(calls []CallD, o OutD) bool {
	key := callsGallina(calls, false)
	p := fbProbes[key]
	if p == nil {
		p = &fbProbe{}
		p.pol = applyHandle(fallback.BuilderWithResult[int](-99), calls).
			OnFallbackExecuted(func(failsafe.ExecutionDoneEvent[int]) { p.applied = true }).Build()
		fbProbes[key] = p
	}
	p.applied = false
	r, e := o.Go()
	failsafe.Get(func() (int, error) { return r, e }, p.pol)
	return p.applied
}

func obsRetry(calls []CallD, o OutD) bool {
	key := callsGallina(calls, false)
	rp := rpProbes[key]
	if rp == nil {
		rp = applyHandle(retrypolicy.Builder[int](), calls).WithMaxRetries(1).Build()
		rpProbes[key] = rp
	}
	n := 0
	r, e := o.Go()
	failsafe.Get(func() (int, error) { n++; return r, e }, rp)
	return n == 2
}

func obsBreaker(calls []CallD, o OutD) (bool, bool) {
	cb := applyHandle(circuitbreaker.Builder[int](), calls).Build()
	r, e := o.Go()
	switch {
	case e == nil && r == 0 && len(calls)%2 == 1:
		cb.RecordError(nil) // the outcome (zero result, no error) recorded through the error-side method
	case e == nil:
		cb.RecordResult(r)
	case r == 0:
		cb.RecordError(e)
	default:
		return false, false
	}
	return cb.Metrics().Failures() == 1, true
}

func applyAbortRetry(b retrypolicy.RetryPolicyBuilder[int], calls []CallD) retrypolicy.RetryPolicyBuilder[int] {
	for _, c := range calls {
		switch c.K {
		case "Errors":
			es := c.errs()
			b = b.AbortOnErrors(es...)
			clobberErrs(es)
		case "ErrorTypes":
			ts := c.tgts()
			b = b.AbortOnErrorTypes(ts...)
			clobberAny(ts)
		case "Result":
			b = b.AbortOnResult(int(c.R))
		default:
			b = b.AbortIf(c.P.Func())
		}
	}
	return b
}

func applyCancelHedge(b hedgepolicy.HedgePolicyBuilder[int], calls []CallD) hedgepolicy.HedgePolicyBuilder[int] {
	for _, c := range calls {
		switch c.K {
		case "Errors":
			es := c.errs()
			b = b.CancelOnErrors(es...)
			clobberErrs(es)
		case "ErrorTypes":
			ts := c.tgts()
			b = b.CancelOnErrorTypes(ts...)
			clobberAny(ts)
		case "Result":
			b = b.CancelOnResult(int(c.R))
		default:
			b = b.CancelIf(c.P.Func())
		}
	}
	return b
}

// aborted: every outcome is a failure for the policy; one invocation means the abort condition matched.
func obsAbort(calls []CallD, o OutD) bool {
	n := 0
	b := retrypolicy.Builder[int]().HandleIf(func(int, error) bool { return true }).WithMaxRetries(1)
	rp := applyAbortRetry(b, calls).Build()
	r, e := o.Go()
	failsafe.Get(func() (int, error) { n++; return r, e }, rp)
	return n == 1
}

// cancelled: the first attempt's outcome was accepted at once, so the hedge never started.
func obsHedge(t *testing.T, calls []CallD, o OutD) bool {
	n := 0
	synctest.Test(t, func(t *testing.T) {
		hp := applyCancelHedge(hedgepolicy.BuilderWithDelay[int](time.Hour), calls).WithMaxHedges(1).Build()
		r, e := o.Go()
		failsafe.Get(func() (int, error) {
			n++
			if n == 1 {
				return r, e
			}
			return 1000, nil
		}, hp)
	})
	return n == 1
}

// ---- the same routes with a pointer-valued result type: results match by deep equality, not by identity ----

func ptrCallsOnly(calls []CallD) bool {
	for _, c := range calls {
		if c.K != "Result" && c.K != "Errors" {
			return false
		}
	}
	return true
}

func fresh(v int64) *int64 { return &v } // a new pointer every time: deeply equal, never identical

func obsRetryPtr(calls []CallD, o OutD) bool {
	b := retrypolicy.Builder[*int64]()
	for _, c := range calls {
		if c.K == "Result" {
			b = b.HandleResult(fresh(c.R))
		} else {
			es := c.errs()
			b = b.HandleErrors(es...)
			clobberErrs(es)
		}
	}
	n := 0
	r, e := o.Go()
	failsafe.Get(func() (*int64, error) { n++; return fresh(int64(r)), e }, b.WithMaxRetries(1).Build())
	return n == 2
}

func obsAbortPtr(calls []CallD, o OutD) bool {
	b := retrypolicy.Builder[*int64]().HandleIf(func(*int64, error) bool { return true }).WithMaxRetries(1)
	for _, c := range calls {
		if c.K == "Result" {
			b = b.AbortOnResult(fresh(c.R))
		} else {
			es := c.errs()
			b = b.AbortOnErrors(es...)
			clobberErrs(es)
		}
	}
	n := 0
	r, e := o.Go()
	failsafe.Get(func() (*int64, error) { n++; return fresh(int64(r)), e }, b.Build())
	return n == 1
}

func obsHedgePtr(t *testing.T, calls []CallD, o OutD) bool {
	n := 0
	synctest.Test(t, func(t *testing.T) {
		b := hedgepolicy.BuilderWithDelay[*int64](time.Hour).WithMaxHedges(1)
		for _, c := range calls {
			if c.K == "Result" {
				b = b.CancelOnResult(fresh(c.R))
			} else {
				es := c.errs()
				b = b.CancelOnErrors(es...)
				clobberErrs(es)
			}
		}
		r, e := o.Go()
		failsafe.Get(func() (*int64, error) {
			n++
			if n == 1 {
				return fresh(int64(r)), e
			}
			return fresh(1000), nil
		}, b.Build())
	})
	return n == 1
}

func mkFailCase(route string, calls []CallD, o OutD, obs bool) func(int) string {
	return func(id int) string {
		return fmt.Sprintf("CaseFail %s %s %s %s %s", gZ(int64(id)), route, callsGallina(calls, false), o.Gallina(), gBool(obs))
	}
}

func c12Outcomes(r *Rng) []OutD {
	mk := func(d ErrD) *ErrD { return &d }
	errs := []*ErrD{nil, mk(sent(0)), mk(sent(1)), mk(wrap(sent(0))), mk(wrap(wrap(sent(1)))),
		mk(join(sent(2), wrap(sent(0)))), mk(ErrD{K: "TypedV", A: 0, B: 1}), mk(ErrD{K: "TypedVP", A: 0, B: 0}),
		mk(ErrD{K: "TypedP", A: 1, B: 0}), mk(wrap(ErrD{K: "TypedP", A: 1, B: 1})),
		mk(ErrD{K: "Exceeded", A: 7, Sub: []ErrD{sent(0)}}), mk(ErrD{K: "Exceeded", A: 1}),
		mk(ErrD{K: "CustomIs", A: 0, B: 0}), mk(sent(3)), mk(ErrD{K: "Open"}), mk(ErrD{K: "CtxDeadline"}),
		// a typed nil pointer (err != nil, of type *PtrErr1), alone and wrapped; an error whose As method claims every type
		mk(ErrD{K: "TypedP", A: 1, B: typedNilB}), mk(wrap(ErrD{K: "TypedP", A: 0, B: typedNilB})),
		mk(ErrD{K: "TypedP", A: asShimTy, B: 0}), mk(wrap(ErrD{K: "TypedP", A: asShimTy, B: 0})), mk(join(ErrD{K: "TypedP", A: asShimTy, B: 0}, sent(2))),
		// an error value of a slice type (unhashable, uncomparable), alone and wrapped
		mk(ErrD{K: "TypedV", A: sliceTy, B: 3}), mk(wrap(ErrD{K: "TypedV", A: sliceTy, B: 3}))}
	var outs []OutD
	for _, res := range []int64{0, 1, 7} {
		for _, e := range errs {
			outs = append(outs, OutD{R: res, Err: e})
		}
	}
	return outs
}

func c12FixedCall(kind string) CallD {
	switch kind {
	case "Errors":
		return CallD{K: kind, Errs: []ErrD{sent(0)}}
	case "ErrorTypes":
		return CallD{K: kind, Tgts: []TgtD{{K: "Err", E: &ErrD{K: "TypedP", A: 1, B: 0}}, {K: "Err", E: &ErrD{K: "TypedVP", A: 0, B: 1}}}}
	case "Result":
		return CallD{K: kind, R: 7}
	default:
		return CallD{K: "If", P: &PredD{K: "ResEq", Z: 1}}
	}
}

func TestDrive_C12(t *testing.T) {
	w := NewCaseWriter(t, "C12", "FS.Corr.C12")
	rng := NewRng(envSeed())
	outs := c12Outcomes(rng)
	thorough := envTier() == "thorough"

	addFail := func(calls []CallD, o OutD, exhaustivePart bool) {
		nontrivial := len(calls) >= 1
		key := callsGallina(calls, false) + o.Gallina()
		js := func(route string, obs bool) any {
			return map[string]any{"route": route, "calls": callsGallina(calls, false), "outcome": o.Gallina(), "observed_failure": obs}
		}
		ob := obsFallback(calls, o)
		w.Add(mkFailCase("RFallback", calls, o, ob), js("fallback", ob), nontrivial, "F"+key)
		ob = obsRetry(calls, o)
		w.Add(mkFailCase("RRetry", calls, o, ob), js("retry", ob), nontrivial, "R"+key)
		if ob2, ok := obsBreaker(calls, o); ok {
			w.Add(mkFailCase("RBreaker", calls, o, ob2), js("breaker", ob2), nontrivial, "B"+key)
			w.Stat("route=breaker")
		}
		w.Stat(fmt.Sprintf("handle_calls=%d", len(calls)))
		w.Stat("outcome_err=" + errKindOf(o.Err))
		if ob {
			w.Stat("classified=failure")
		} else {
			w.Stat("classified=success")
		}
	}
	addAbort := func(calls []CallD, o OutD) {
		key := callsGallina(calls, true) + o.Gallina()
		ob := obsAbort(calls, o)
		w.Add(func(id int) string {
			return fmt.Sprintf("CaseAbort %s %s %s %s", gZ(int64(id)), callsGallina(calls, true), o.Gallina(), gBool(ob))
		}, map[string]any{"route": "abort", "calls": callsGallina(calls, true), "outcome": o.Gallina(), "observed_abort": ob}, len(calls) >= 1, "A"+key)
		oh := obsHedge(t, calls, o)
		w.Add(func(id int) string {
			return fmt.Sprintf("CaseHedge %s %s %s %s", gZ(int64(id)), callsGallina(calls, true), o.Gallina(), gBool(oh))
		}, map[string]any{"route": "hedge", "calls": callsGallina(calls, true), "outcome": o.Gallina(), "observed_cancel": oh}, true, "H"+key)
		w.Stat(fmt.Sprintf("abort_calls=%d", len(calls)))
		if ptrCallsOnly(calls) && len(calls) >= 1 {
			// the same registrations and outcome with results of a pointer type
			pa, ph, pr := obsAbortPtr(calls, o), obsHedgePtr(t, calls, o), obsRetryPtr(calls, o)
			w.Add(func(id int) string {
				return fmt.Sprintf("CaseAbort %s %s %s %s", gZ(int64(id)), callsGallina(calls, true), o.Gallina(), gBool(pa))
			}, map[string]any{"route": "abort, pointer results", "calls": callsGallina(calls, true), "outcome": o.Gallina(), "observed_abort": pa}, true, "AP"+key)
			w.Add(func(id int) string {
				return fmt.Sprintf("CaseHedge %s %s %s %s", gZ(int64(id)), callsGallina(calls, true), o.Gallina(), gBool(ph))
			}, map[string]any{"route": "hedge, pointer results", "calls": callsGallina(calls, true), "outcome": o.Gallina(), "observed_cancel": ph}, true, "HP"+key)
			w.Add(mkFailCase("RRetry", calls, o, pr), map[string]any{"route": "retry, pointer results", "calls": callsGallina(calls, false), "outcome": o.Gallina(), "observed_failure": pr}, true, "RP"+key)
			w.Stat("pointer_results")
		}
	}

	// 1. exhaustive grid: every subset of the four registration kinds, three orders, every grid outcome.
	for mask := 0; mask < 16; mask++ {
		var base []CallD
		for i, k := range callKinds {
			if mask&(1<<i) != 0 {
				base = append(base, c12FixedCall(k))
			}
		}
		orders := [][]CallD{base}
		if len(base) >= 2 {
			rev := make([]CallD, len(base))
			for i := range base {
				rev[len(base)-1-i] = base[i]
			}
			rot := append(append([]CallD{}, base[1:]...), base[0])
			orders = append(orders, rev, rot)
		}
		for oi, calls := range orders {
			for _, o := range outs {
				addFail(calls, o, true)
				if oi == 0 {
					addAbort(calls, o)
				}
			}
		}
		// the same registrations followed by an empty-list one: nothing is un-registered by it
		if mask != 0 {
			for _, k := range []string{"Errors", "ErrorTypes"} {
				calls := append(append([]CallD{}, base...), CallD{K: k})
				for _, o := range outs {
					addFail(calls, o, false)
				}
			}
		}
	}
	gridCases := w.Total

	// 2. random registrations (with repetition) and random error trees.
	nRand := 300
	if thorough {
		nRand = 6000
	}
	for i := 0; i < nRand; i++ {
		n := rng.Intn(5)
		calls := make([]CallD, n)
		for j := range calls {
			calls[j] = randCall(rng, Pick(rng, callKinds))
		}
		o := OutD{R: int64(rng.Intn(4))}
		if rng.Chance(75) {
			e := randErr(rng, 3)
			o.Err = &e
		}
		addFail(calls, o, false)
		if i%3 == 0 {
			addAbort(calls, o)
		}
	}

	// 3. the mirrors of errors.Is and util.ErrorTypesMatch, called directly.
	nMirror := 600
	if thorough {
		nMirror = 10000
	}
	for i := 0; i < nMirror; i++ {
		e := randErr(rng, 3)
		var tg ErrD
		switch rng.Intn(4) {
		case 0:
			tg = wrap(sent(int64(rng.Intn(2))))
		case 1:
			tg = ErrD{K: "Exceeded", A: int64(rng.Intn(3)), Sub: []ErrD{randAtom(rng)}}
		default:
			tg = randAtom(rng)
		}
		obs := errors.Is(e.Build(), tg.Build())
		w.Add(func(id int) string {
			return fmt.Sprintf("CaseIs %s %s %s %s", gZ(int64(id)), e.Gallina(), tg.Gallina(), gBool(obs))
		}, map[string]any{"route": "errors.Is", "err": e.Gallina(), "target": tg.Gallina(), "observed": obs}, obs, "I"+e.Gallina()+tg.Gallina())
		tt := randTgt(rng)
		obs2 := util.ErrorTypesMatch(e.Build(), tt.Go())
		w.Add(func(id int) string {
			return fmt.Sprintf("CaseTypes %s %s %s %s", gZ(int64(id)), e.Gallina(), tt.Gallina(), gBool(obs2))
		}, map[string]any{"route": "ErrorTypesMatch", "err": e.Gallina(), "target": tt.Gallina(), "observed": obs2}, obs2, "T"+e.Gallina()+tt.Gallina())
		w.Stat("mirror_pairs")
	}

	w.Close("grid: every subset of {HandleErrors,HandleErrorTypes,HandleResult,HandleIf} in 3 orders x 48 outcomes (3 results x 16 error shapes) observed through a Fallback, a RetryPolicy and a breaker's RecordResult/RecordError, plus abort (retry) and cancel (hedge) conditions; then random registrations with random error trees and direct calls of errors.Is / util.ErrorTypesMatch. Non-trivial = at least one registration (classification cases) or a positive match (mirror cases); distinct by (route, registrations, outcome).",
		map[string]any{"grid_cases": gridCases, "exhaustive_grid": true})
}
