//go:build verif

package verifharness

import (
	"errors"
	"fmt"
	"testing"
	"testing/synctest"
	"time"

	"github.com/failsafe-go/failsafe-go"
	"github.com/failsafe-go/failsafe-go/fallback"
	"github.com/failsafe-go/failsafe-go/retrypolicy"
	"github.com/failsafe-go/failsafe-go/timeout"
)

// scripted interleavings of the Timeout's timer callback and the caller (Coq: Model/TimeoutRace.v)
type raceSched struct {
	name          string
	blocking      bool   // the function returns only once its execution is cancelled
	listenerGated bool   // the listener blocks until released
	steps         string // Gallina list of steps
}

var raceScheds = []raceSched{
	{"inner-first", false, false, "[MReturn; MCas; MStop; MPost]"},
	{"timer-first", false, false, "[TFire; TListener; TCancel; MReturn; MCas; MPost]"},
	{"return-during-listener", false, true, "[TFire; MReturn; MCas; MPost; TListener; TCancel]"},
	{"blocking", true, false, "[TFire; TListener; TCancel; MReturn; MCas; MPost]"},
	{"blocking-listener-gated", true, true, "[TFire; TListener; TCancel; MReturn; MCas; MPost]"},
}

func runRace(t *testing.T, sc raceSched, limit time.Duration, wrap string) (ret string, count int, cancelled bool) {
	synctest.Test(t, func(t *testing.T) {
		gate := make(chan struct{})
		lgate := make(chan struct{})
		var seen failsafe.Execution[int]
		to := timeout.Builder[int](limit).OnTimeoutExceeded(func(failsafe.ExecutionDoneEvent[int]) {
			count++
			if sc.listenerGated {
				<-lgate
			}
		}).Build()
		pols := []failsafe.Policy[int]{to}
		switch wrap {
		case "retry":
			pols = []failsafe.Policy[int]{retrypolicy.Builder[int]().WithMaxRetries(0).Build(), to}
		case "fallback-unhandled":
			pols = []failsafe.Policy[int]{fallback.BuilderWithResult[int](-1).HandleErrors(sent(3).Build()).Build(), to}
		}
		type res struct {
			r   int
			err error
		}
		done := make(chan res, 1)
		go func() {
			r, err := failsafe.NewExecutor[int](pols...).GetWithExecution(func(e failsafe.Execution[int]) (int, error) {
				seen = e
				if sc.blocking {
					<-e.Canceled()
				} else {
					<-gate
				}
				return 5, nil
			})
			done <- res{r, err}
		}()
		synctest.Wait()
		var out res
		switch sc.name {
		case "inner-first":
			time.Sleep(limit / 2)
			close(gate)
			out = <-done
		case "timer-first":
			time.Sleep(2 * limit)
			close(gate)
			out = <-done
		case "return-during-listener":
			time.Sleep(limit + 1)
			synctest.Wait() // the timer callback is now inside the listener
			close(gate)
			out = <-done
			close(lgate)
		case "blocking":
			out = <-done
		default: // blocking-listener-gated
			time.Sleep(limit + 1)
			synctest.Wait()
			close(lgate)
			out = <-done
		}
		time.Sleep(time.Hour) // grace period: a late or second listener call would show up here
		synctest.Wait()
		if out.err == nil && out.r == 5 {
			ret = "CInner"
		} else if errors.Is(out.err, timeout.ErrExceeded) {
			ret = "CTimeout"
		} else {
			ret = "CNone"
		}
		cancelled = seen != nil && seen.IsCanceled()
	})
	return
}

func driveC07Race(t *testing.T) {
	w := NewCaseWriterNamed(t, "C07race", "FS.Corr.C07race")
	for _, wrap := range []string{"none", "retry", "fallback-unhandled"} {
		for _, limit := range []time.Duration{time.Microsecond, 100 * time.Millisecond, time.Hour} {
			for _, sc := range raceScheds {
				ret, count, cancelled := runRace(t, sc, limit, wrap)
				sc := sc
				w.Add(func(id int) string {
					return fmt.Sprintf("mk_case %d %s %s %s %d %s", id, gBool(sc.blocking), sc.steps, ret, count, gBool(cancelled))
				}, map[string]any{"schedule": sc.name, "limit_ns": int64(limit), "wrapped_in": wrap, "returned": ret, "listener_calls": count, "execution_cancelled": cancelled},
					true, fmt.Sprint(sc.name, limit, wrap))
				w.Stat("schedule=" + sc.name)
			}
		}
	}
	w.Close("scripted interleavings of the Timeout's timer callback and the caller, forced with gates on the function and on the listener (function returns before the limit / after the callback finished / while the listener is running; function that only returns on cancellation, with and without a blocking listener), for limits 1us, 100ms, 1h, alone and under retry / fallback; observed: what the caller got, listener calls (after a one hour grace period), whether the child execution was cancelled.", nil)
}
