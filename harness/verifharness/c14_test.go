//go:build verif

package verifharness

import (
	"context"
	"encoding/json"
	"errors"
	"fmt"
	"os"
	"path/filepath"
	"sync"
	"sync/atomic"
	"testing"
	"time"

	"github.com/failsafe-go/failsafe-go"
	"github.com/failsafe-go/failsafe-go/bulkhead"
	"github.com/failsafe-go/failsafe-go/cachepolicy"
	"github.com/failsafe-go/failsafe-go/circuitbreaker"
	"github.com/failsafe-go/failsafe-go/fallback"
	"github.com/failsafe-go/failsafe-go/hedgepolicy"
	"github.com/failsafe-go/failsafe-go/ratelimiter"
	"github.com/failsafe-go/failsafe-go/retrypolicy"
	"github.com/failsafe-go/failsafe-go/timeout"
)

// ---- C14: lock discipline table (from the sources) and concurrent stress (race detector) ----

func repoRoot() string {
	if r := os.Getenv("VERIF_REPO_ROOT"); r != "" {
		return r
	}
	return "/repo"
}

func TestDrive_C14(t *testing.T) {
	w := NewCaseWriter(t, "C14", "FS.Corr.C14")
	w.Header = "Open Scope string_scope.\n"
	lit, infos, err := scanAccessTable(repoRoot())
	if err != nil {
		t.Fatalf("cannot scan %s: %v", repoRoot(), err)
	}
	nUn := 0
	var direct []map[string]any
	for _, fi := range infos {
		w.Stat("protection=" + fi.Prot)
		if fi.Prot == "PUnguarded" {
			nUn++
			seen := map[string]bool{}
			for _, a := range fi.Accesses {
				if !a.Locked && !seen[a.Func] {
					seen[a.Func] = true
					direct = append(direct, map[string]any{"kind": "direct", "key": fmt.Sprintf("table:%s.%s:%s", fi.Struct, fi.Field, a.Func),
						"text": fmt.Sprintf("%s.%s is written somewhere and accessed outside the struct's mutex in %s (%s)", fi.Struct, fi.Field, a.Func, a.Pos)})
				}
			}
		}
	}
	if jb, err := json.Marshal(direct); err == nil && len(direct) > 0 {
		os.WriteFile(filepath.Join(w.dir, "direct_C14.json"), jb, 0o644)
	}
	w.Add(func(id int) string { return fmt.Sprintf("CaseTable %d\n  %s", id, lit) },
		map[string]any{"access_table_rows": len(infos), "unguarded_rows": nUn, "table": lit}, true, "table")
	// the stress scenarios also run here without the race detector: panics, deadlocks (watchdog) and per-execution oracles
	res := runStress(t, envTier() == "thorough")
	for _, r := range res {
		r := r
		w.Add(func(id int) string { return fmt.Sprintf("CaseStress %d %d %d", id, r.execs, r.bad) },
			map[string]any{"scenario": r.name, "executions": r.execs, "oracle_failures": r.bad, "detail": r.detail}, true, r.name)
		w.Stat("stress=" + r.name)
	}
	w.Close("(1) the access table of execution, executionResult, circuitBreaker (+ its executor), smoothStats, burstyStats, bulkhead and the retry executor, regenerated from the Go sources of this run (go/ast): per field, atomic / channel / immutable / always inside the mutex / confined / unguarded, with the functions that access it outside the mutex; (2) concurrent stress scenarios on shared executors and policy instances (8-32 goroutines, sync and async executions, standalone API calls), with per-execution oracles, a deadlock watchdog and - in the race-detector build run by the same check - the data-race detector.", nil)
}

type stressResult struct {
	name   string
	execs  int
	bad    int
	detail string
}

func runStress(t *testing.T, thorough bool) []stressResult {
	iters := 150
	if thorough {
		iters = 3000
	}
	var out []stressResult
	watchdogFor := func(limit time.Duration, name string, f func() (int, int, string)) {
		done := make(chan stressResult, 1)
		go func() {
			e, b, d := f()
			done <- stressResult{name, e, b, d}
		}()
		select {
		case r := <-done:
			out = append(out, r)
		case <-time.After(limit):
			out = append(out, stressResult{name, 0, 1, fmt.Sprintf("watchdog: scenario did not finish within %v (deadlock?)", limit)})
		}
	}
	watchdog := func(name string, f func() (int, int, string)) { watchdogFor(120*time.Second, name, f) }
	errA := errors.New("A")
	// 1. one shared stack of all policies except hedge, sync and async, plus standalone calls
	watchdog("shared-stack", func() (int, int, string) {
		// the breaker's result listeners look at the breaker itself (logging its state is what such listeners are for):
		// they run outside the breaker's lock
		var cb circuitbreaker.CircuitBreaker[int]
		var seen atomic.Int64
		look := func(failsafe.ExecutionEvent[int]) {
			seen.Add(int64(cb.State()) + int64(cb.Metrics().Failures()) + int64(cb.RemainingDelay()&1))
		}
		// ... and the state-change listeners read the metrics their event carries, as a listener that logs a transition does
		lookEv := func(e circuitbreaker.StateChangedEvent) {
			m := e.Metrics()
			seen.Add(int64(m.Executions()) + int64(m.Failures()) + int64(m.Successes()) + int64(m.FailureRate()))
		}
		cb = circuitbreaker.Builder[int]().WithFailureThresholdRatio(3, 5).WithDelay(time.Microsecond).OnSuccess(look).OnFailure(look).
			OnOpen(lookEv).OnClose(lookEv).OnHalfOpen(lookEv).OnStateChanged(lookEv).Build()
		rl := ratelimiter.SmoothBuilderWithMaxRate[int](time.Microsecond).WithMaxWaitTime(time.Millisecond).Build()
		bh := bulkhead.Builder[int](4).WithMaxWaitTime(time.Millisecond).Build()
		cache := &syncCache{m: map[string]int{}}
		cp := cachepolicy.Builder[int](cache).WithKey("k").Build()
		rp := retrypolicy.Builder[int]().WithMaxRetries(2).Build()
		fb := fallback.WithResult[int](-1)
		to := timeout.With[int](50 * time.Millisecond)
		ex := failsafe.NewExecutor[int](fb, rp, cb, rl, bh, to, cp)
		var wg sync.WaitGroup
		var bad atomic.Int64
		var n atomic.Int64
		for g := 0; g < 16; g++ {
			g := g
			wg.Add(1)
			go func() {
				defer wg.Done()
				for i := 0; i < iters; i++ {
					n.Add(1)
					fn := func() (int, error) {
						if (i+g)%3 == 0 {
							return 0, errA
						}
						return 7, nil
					}
					var r int
					var err error
					if g%2 == 0 {
						r, err = ex.Get(fn)
					} else {
						r, err = ex.GetAsync(fn).Get()
					}
					if err != nil || (r != 7 && r != -1) { // the outermost fallback turns every failure into -1
						bad.Add(1)
					}
					switch i % 8 {
					case 0:
						cb.Metrics().FailureRate()
					case 1:
						rl.TryAcquirePermit()
					case 2:
						if bh.TryAcquirePermit() {
							bh.ReleasePermit()
						}
					case 3:
						cb.RemainingDelay()
						cb.State()
					}
				}
			}()
		}
		wg.Wait()
		return int(n.Load()), int(bad.Load()), ""
	})
	// 2. hedge around the function (and inside a timeout), shared policy
	watchdog("hedge", func() (int, int, string) {
		hp := hedgepolicy.BuilderWithDelay[int](50 * time.Microsecond).WithMaxHedges(2).Build()
		to := timeout.With[int](20 * time.Millisecond)
		ex := failsafe.NewExecutor[int](to, hp)
		var wg sync.WaitGroup
		var bad, n atomic.Int64
		for g := 0; g < 8; g++ {
			wg.Add(1)
			go func() {
				defer wg.Done()
				for i := 0; i < iters/3+1; i++ {
					i := i
					n.Add(1)
					r, err := ex.GetWithExecution(func(e failsafe.Execution[int]) (int, error) {
						if e.IsHedge() {
							return 2, nil
						}
						select {
						case <-time.After(time.Duration(i%4) * 40 * time.Microsecond):
						case <-e.Canceled():
						}
						return 1, nil
					})
					// (on a loaded machine -- the race build is several times slower -- the 20 ms Timeout around the hedge may fire)
					if !errors.Is(err, timeout.ErrExceeded) && (err != nil || (r != 1 && r != 2)) {
						bad.Add(1)
					}
				}
			}()
		}
		wg.Wait()
		return int(n.Load()), int(bad.Load()), ""
	})
	// 3. timeout around retry with a delay function and listeners that read the execution (finding F10)
	watchdog("timeout-retry-delayfunc", func() (int, int, string) {
		var sink atomic.Int64
		rp := retrypolicy.Builder[int]().WithMaxRetries(-1).WithDelayFunc(func(e failsafe.ExecutionAttempt[int]) time.Duration {
			if e.LastError() != nil {
				sink.Add(int64(e.LastResult()))
			}
			return time.Microsecond
		}).OnRetry(func(e failsafe.ExecutionEvent[int]) { sink.Add(int64(e.LastResult())) }).Build()
		to := timeout.With[int](300 * time.Microsecond)
		ex := failsafe.NewExecutor[int](to, rp)
		var wg sync.WaitGroup
		var bad, n atomic.Int64
		for g := 0; g < 8; g++ {
			wg.Add(1)
			go func() {
				defer wg.Done()
				for i := 0; i < iters/3+1; i++ {
					n.Add(1)
					_, err := ex.Get(func() (int, error) { return 3, errA })
					if !errors.Is(err, timeout.ErrExceeded) {
						bad.Add(1)
					}
				}
			}()
		}
		wg.Wait()
		return int(n.Load()), int(bad.Load()), ""
	})
	// 4. async executions cancelled from other goroutines while readers poll
	watchdog("async-cancel-readers", func() (int, int, string) {
		rp := retrypolicy.Builder[int]().WithMaxRetries(-1).WithDelay(10 * time.Microsecond).Build()
		ex := failsafe.NewExecutor[int](rp).WithContext(context.Background())
		var bad, n atomic.Int64
		var wg sync.WaitGroup
		for g := 0; g < 8; g++ {
			wg.Add(1)
			go func() {
				defer wg.Done()
				for i := 0; i < iters/3+1; i++ {
					n.Add(1)
					ar := ex.GetAsync(func() (int, error) { return 0, errA })
					var rw sync.WaitGroup
					for k := 0; k < 3; k++ {
						rw.Add(1)
						go func() {
							defer rw.Done()
							if _, err := ar.Get(); !errors.Is(err, failsafe.ErrExecutionCanceled) {
								bad.Add(1)
							}
							if !ar.IsDone() {
								bad.Add(1)
							}
						}()
					}
					time.Sleep(time.Duration(i%5) * 7 * time.Microsecond)
					ar.Cancel()
					rw.Wait()
				}
			}()
		}
		wg.Wait()
		// ... and executions that complete by themselves while another goroutine calls Cancel() at about the same time (a watchdog
		// firing at or after completion), and again after the result was read: Cancel() has no effect on an execution that is done
		ex2 := failsafe.NewExecutor[int](retrypolicy.Builder[int]().WithMaxRetries(1).Build())
		for g := 0; g < 8; g++ {
			g := g
			wg.Add(1)
			go func() {
				defer wg.Done()
				for i := 0; i < iters/3+1; i++ {
					n.Add(1)
					ar := ex2.GetAsync(func() (int, error) { time.Sleep(time.Duration((i+g)%4) * 5 * time.Microsecond); return 7, nil })
					cd := make(chan struct{})
					go func() {
						defer close(cd)
						time.Sleep(time.Duration(i%5) * 5 * time.Microsecond)
						ar.Cancel()
					}()
					r, err := ar.Get()
					if !(err == nil && r == 7) && !errors.Is(err, failsafe.ErrExecutionCanceled) {
						bad.Add(1)
					}
					<-cd
					ar.Cancel()
					if r2, err2 := ar.Get(); r2 != r || (err2 == nil) != (err == nil) || !ar.IsDone() {
						bad.Add(1)
					}
				}
			}()
		}
		wg.Wait()
		return int(n.Load()), int(bad.Load()), ""
	})
	// 5. one retry policy with jitter, jitter factor and a random delay shared by many executions (random draws)
	watchdog("shared-jittered-retry", func() (int, int, string) {
		rps := []retrypolicy.RetryPolicy[int]{
			retrypolicy.Builder[int]().WithMaxRetries(3).WithDelay(20 * time.Microsecond).WithJitter(10 * time.Microsecond).Build(),
			retrypolicy.Builder[int]().WithMaxRetries(3).WithDelay(20 * time.Microsecond).WithJitterFactor(0.5).Build(),
			retrypolicy.Builder[int]().WithMaxRetries(3).WithRandomDelay(5*time.Microsecond, 30*time.Microsecond).Build(),
		}
		var wg sync.WaitGroup
		var bad, n atomic.Int64
		for g := 0; g < 12; g++ {
			g := g
			wg.Add(1)
			go func() {
				defer wg.Done()
				for i := 0; i < iters/5+1; i++ {
					n.Add(1)
					calls := 0
					_, err := failsafe.Get(func() (int, error) { calls++; return 0, errA }, rps[(g+i)%3])
					if err == nil || calls != 4 {
						bad.Add(1)
					}
				}
			}()
		}
		wg.Wait()
		return int(n.Load()), int(bad.Load()), ""
	})
	// 6. a timeout around a hedge policy around result-handling policies, with attempts that outlive the timeout: the
	// timeout's result is returned outwards while late hedge attempts are still being post-processed inside
	watchdog("timeout-hedge-breaker-fallback", func() (int, int, string) {
		var wg, late sync.WaitGroup
		var bad, n atomic.Int64
		var detail atomic.Value
		fn := func() (int, error) { // shared by all executions; nothing it touches is ever reassigned
			late.Add(1)
			defer late.Done()
			time.Sleep(400 * time.Microsecond) // ignores the cancellation: outlives the timeout
			return 0, errA
		}
		for g := 0; g < 8; g++ {
			wg.Add(1)
			go func() {
				defer wg.Done()
				for i := 0; i < iters/10+1; i++ {
					n.Add(1)
					cb := circuitbreaker.Builder[int]().WithFailureThreshold(1000).Build()
					inner := fallback.BuilderWithFunc[int](func(e failsafe.Execution[int]) (int, error) { return 0, e.LastError() }).Build()
					hp := hedgepolicy.BuilderWithDelay[int](30 * time.Microsecond).WithMaxHedges(2).CancelOnResult(99).Build()
					to := timeout.With[int](150 * time.Microsecond)
					outer := fallback.WithResult[int](-1)
					r, err := failsafe.NewExecutor[int](outer, to, hp, cb, inner).Get(fn)
					if err != nil || r != -1 { // the timeout's ErrExceeded is a failure for the outer fallback: always replaced
						bad.Add(1)
						detail.Store(fmt.Sprintf("got (%d, %v), want (-1, nil)", r, err))
					}
				}
			}()
		}
		wg.Wait()
		time.Sleep(5 * time.Millisecond) // attempts that were about to start have entered the function
		late.Wait()
		d, _ := detail.Load().(string)
		return int(n.Load()), int(bad.Load()), d
	})
	// 8. a breaker whose OnOpen / OnStateChanged listeners look at the metrics their event carries (what a listener that logs "opened
	// after N failures" does) and take a moment, while executions admitted before the transition are still recording their
	// results: what the event shows does not change while the listener looks at it
	watchdogFor(60*time.Second, "breaker-event-metrics", func() (int, int, string) {
		var n, bad atomic.Int64
		look := func(e circuitbreaker.StateChangedEvent) {
			m := e.Metrics()
			a := [3]uint{m.Executions(), m.Failures(), m.Successes()}
			time.Sleep(20 * time.Microsecond)
			b := [3]uint{m.Executions(), m.Failures(), m.Successes()}
			if a != b {
				bad.Add(1)
			}
		}
		cb := circuitbreaker.Builder[int]().WithFailureThresholdRatio(3, 6).WithDelay(5 * time.Microsecond).
			OnOpen(look).OnHalfOpen(look).OnClose(look).OnStateChanged(look).Build()
		ex := failsafe.NewExecutor[int](cb)
		var wg sync.WaitGroup
		for g := 0; g < 12; g++ {
			g := g
			wg.Add(1)
			go func() {
				defer wg.Done()
				for i := 0; i < iters; i++ {
					n.Add(1)
					ex.Get(func() (int, error) {
						time.Sleep(time.Duration((i+g)%3) * 10 * time.Microsecond)
						if (i+g)%2 == 0 {
							return 0, errA
						}
						return 1, nil
					})
					if i%16 == 0 {
						cb.RecordFailure()
					}
				}
			}()
		}
		wg.Wait()
		return int(n.Load()), int(bad.Load()), "the metrics of a state-change event changed while its listener was looking at them"
	})
	// 7. the execution is cancelled -- by an enclosing Timeout's timer goroutine, or by the caller from another goroutine -- while
	// the retry policy's own OnFailure listener runs: between the retry loop's look at the cancellation and RecordResult.  The
	// execution must come back (with the cancellation's error or, when the timer lost the race, with the retry policy's).
	watchdogFor(30*time.Second, "cancel-during-failure-listener", func() (int, int, string) {
		var n, bad atomic.Int64
		var detail atomic.Value
		var wg sync.WaitGroup
		for g := 0; g < 8; g++ {
			g := g
			wg.Add(1)
			go func() {
				defer wg.Done()
				for i := 0; i < iters/10+5; i++ {
					n.Add(1)
					rp := retrypolicy.Builder[int]().WithMaxRetries(2).OnFailure(func(failsafe.ExecutionEvent[int]) { time.Sleep(400 * time.Microsecond) }).Build()
					fn := func() (int, error) { return 0, errA }
					var err error
					switch g % 4 {
					case 0:
						_, err = failsafe.NewExecutor[int](timeout.With[int](150*time.Microsecond), rp).Get(fn)
					case 1:
						_, err = failsafe.NewExecutor[int](fallback.WithError[int](errA), timeout.With[int](150*time.Microsecond), rp).GetAsync(fn).Get()
					case 2:
						ctx, cancel := context.WithCancel(context.Background())
						tm := time.AfterFunc(150*time.Microsecond, cancel)
						_, err = failsafe.NewExecutor[int](rp).WithContext(ctx).Get(fn)
						tm.Stop()
						cancel()
					default:
						ar := failsafe.NewExecutor[int](retrypolicy.Builder[int]().WithMaxRetries(1).Build(), rp).GetAsync(fn)
						tm := time.AfterFunc(150*time.Microsecond, ar.Cancel)
						_, err = ar.Get()
						tm.Stop()
					}
					if err == nil {
						bad.Add(1)
						detail.Store("an execution whose function always fails came back without an error")
					}
				}
			}()
		}
		wg.Wait()
		d, _ := detail.Load().(string)
		return int(n.Load()), int(bad.Load()), d
	})
	return out
}

type syncCache struct {
	mu sync.Mutex
	m  map[string]int
}

func (c *syncCache) Get(k string) (int, bool) { c.mu.Lock(); defer c.mu.Unlock(); v, ok := c.m[k]; return v, ok }
func (c *syncCache) Set(k string, v int)      { c.mu.Lock(); defer c.mu.Unlock(); c.m[k] = v }

// TestStress_C14 is run by bin/check in the race-detector build of the harness.
func TestStress_C14(t *testing.T) {
	for _, r := range runStress(t, envTier() == "thorough") {
		t.Logf("scenario %s: %d executions, %d oracle failures %s", r.name, r.execs, r.bad, r.detail)
		if r.bad > 0 {
			t.Errorf("scenario %s: %d oracle failures", r.name, r.bad)
		}
	}
}

// TestStressKnown_C14 exercises the composition recorded as finding F5 (a retry policy inside a hedge policy:
// the retry executor's per-execution fields are shared by concurrent hedge attempts).
func TestStressKnown_C14(t *testing.T) {
	errA := errors.New("A")
	hp := hedgepolicy.BuilderWithDelay[int](20 * time.Microsecond).WithMaxHedges(2).CancelOnResult(1).Build()
	rp := retrypolicy.Builder[int]().WithMaxRetries(3).Build()
	ex := failsafe.NewExecutor[int](hp, rp)
	for i := 0; i < 300; i++ {
		ex.Get(func() (int, error) {
			time.Sleep(30 * time.Microsecond)
			return 0, errA
		})
	}
}
