//go:build verif

package verifharness

import (
	"context"
	"fmt"
	"strings"
	"sync"
	"testing"
	"testing/synctest"
	"time"

	"github.com/failsafe-go/failsafe-go"
	"github.com/failsafe-go/failsafe-go/circuitbreaker"
	"github.com/failsafe-go/failsafe-go/hedgepolicy"
	"github.com/failsafe-go/failsafe-go/retrypolicy"
	"github.com/failsafe-go/failsafe-go/timeout"
)

// ---- C09: hedged executions under a virtual clock ----

type HAttempt struct {
	Dur  int64
	Out  OutD
	Coop bool
}

type HCase struct {
	RetryDelay int64      // > 0: the hedge sits inside a retry policy with one retry after this delay
	Atts2      []HAttempt // attempts of the second hedged run
	Max    int
	Delays []int64
	Cancel []CallD
	Atts   []HAttempt
	ExtT   int64 // 0 = none
	ExtK   string
	// a policy INSIDE the hedge, around the function: "timeout" (InnerLimit) or "breaker" (closed, never opens); each hedged
	// attempt then runs through it, and its verdict on the attempt (a failure) must not keep the hedge from accepting the result
	Inner      string
	InnerLimit int64
}

func (h HCase) cfgGallina() string {
	ds := make([]string, len(h.Delays))
	for i, d := range h.Delays {
		ds[i] = fmt.Sprint(d)
	}
	return fmt.Sprintf("{| h_max := %d%%nat; h_delays := %s; h_cancel := build_hedge_cancel %s; h_fixed := true |}", h.Max, gList(ds), callsGallina(h.Cancel, true))
}

func runHedge(t *testing.T, h HCase) (lit string, js map[string]any, hedged int, cancelledSeen bool) {
	synctest.Test(t, func(t *testing.T) {
		t0 := time.Now()
		base := t0.UnixNano()
		now := func() int64 { return base + int64(time.Since(t0)) }
		b := hedgepolicy.BuilderWithDelayFunc[int](func(e failsafe.ExecutionAttempt[int]) time.Duration {
			k := e.Hedges() // delay before hedge k+1
			if k >= len(h.Delays) {
				k = len(h.Delays) - 1
			}
			return time.Duration(h.Delays[k])
		}).WithMaxHedges(h.Max)
		b = applyCancelHedge(b, h.Cancel)
		var hedgeEvents []string
		b = b.OnHedge(func(e failsafe.ExecutionEvent[int]) { hedgeEvents = append(hedgeEvents, fmt.Sprint(now())) })
		hp := b.Build()
		// the builder goes on to build another policy with cancel conditions of its own: the policy built first keeps its own
		b.CancelOnResult(123456).CancelIf(func(int, error) bool { return false })
		pols := []failsafe.Policy[int]{hp}
		if h.RetryDelay > 0 {
			pols = []failsafe.Policy[int]{retrypolicy.Builder[int]().WithMaxRetries(1).WithDelay(time.Duration(h.RetryDelay)).Build(), hp}
		}
		switch h.Inner {
		case "timeout":
			pols = append(pols, timeout.With[int](time.Duration(h.InnerLimit)))
		case "breaker":
			pols = append(pols, circuitbreaker.Builder[int]().WithFailureThreshold(1000).Build())
		}
		ctx := context.Background()
		var cancel context.CancelFunc = func() {}
		var timer *time.Timer
		if h.ExtT > 0 {
			if h.ExtK == "Deadline" {
				ctx, cancel = context.WithDeadline(ctx, t0.Add(time.Duration(h.ExtT)))
			} else {
				ctx, cancel = context.WithCancel(ctx)
				timer = time.AfterFunc(time.Duration(h.ExtT), cancel)
			}
		}
		var mu sync.Mutex
		var starts []string
		var execs []failsafe.Execution[int]
		idx := 0
		run2 := false
		r, err := failsafe.NewExecutor[int](pols...).WithContext(ctx).GetWithExecution(func(e failsafe.Execution[int]) (int, error) {
			mu.Lock()
			if e.Retries() > 0 && !run2 {
				run2 = true
				idx = 0
			}
			k := idx
			idx++
			atts := h.Atts
			if run2 {
				atts = h.Atts2
			}
			starts = append(starts, fmt.Sprintf("{| hs_time := %d; hs_attempts := %d; hs_hedges := %d; hs_is_hedge := %s |}", now(), e.Attempts(), e.Hedges(), gBool(e.IsHedge())))
			execs = append(execs, e)
			mu.Unlock()
			a := atts[len(atts)-1]
			if k < len(atts) {
				a = atts[k]
			}
			if a.Coop {
				tm := time.NewTimer(time.Duration(a.Dur))
				select {
				case <-tm.C:
					return a.Out.Go()
				case <-e.Canceled():
					tm.Stop()
					if ce := ctx.Err(); ce != nil {
						return 0, ce
					}
					return a.Out.Go() // cancelled as a losing attempt: the result is ignored anyway
				}
			}
			time.Sleep(time.Duration(a.Dur))
			return a.Out.Go()
		})
		end := now()
		if ctx.Err() != nil {
			// the caller's context is done: context.cancel closes the parent's Done channel (which wakes the hedge loop)
			// BEFORE it walks its children, so the attempts' contexts are cancelled a moment after the call may
			// already have returned; let that propagation finish before sampling them
			synctest.Wait()
		}
		mu.Lock()
		cs := make([]string, len(execs))
		for i, e := range execs {
			cs[i] = gBool(e.IsCanceled())
			if e.IsCanceled() {
				cancelledSeen = true
			}
		}
		hedged = len(execs) - 1
		st := append([]string{}, starts...)
		mu.Unlock()
		if timer != nil {
			timer.Stop()
		}
		cancel()
		time.Sleep(100 * time.Hour) // let abandoned attempts finish
		attLits := func(l []HAttempt) []string {
			xs := make([]string, len(l))
			for i, a := range l {
				xs[i] = fmt.Sprintf("{| a_dur := %d; a_out := %s; a_coop := %s |}", a.Dur, a.Out.Gallina(), gBool(a.Coop))
			}
			return xs
		}
		as := attLits(h.Atts)
		second := "None"
		if h.RetryDelay > 0 {
			second = fmt.Sprintf("(Some (%d, %s))", h.RetryDelay, gList(attLits(h.Atts2)))
		}
		ext := "None"
		if h.ExtT > 0 {
			e := "ECtxCanceled"
			if h.ExtK == "Deadline" {
				e = "ECtxDeadline"
			}
			ext = fmt.Sprintf("(Some (%d, %s))", base+h.ExtT, e)
		}
		inner := int64(0)
		if h.Inner == "timeout" {
			inner = h.InnerLimit
		}
		lit = fmt.Sprintf("%s\n  %s %s %s %d %d\n  %s %d %s %s %s", h.cfgGallina(), gList(as), second, ext, base, inner, gOutcome(r, err), end, gList(st), gList(hedgeEvents), gList(cs))
		js = map[string]any{"config": h.cfgGallina(), "attempts": strings.Join(as, " "), "external_cancel": ext, "inside_the_hedge": h.Inner, "returned": gOutcome(r, err), "end": end - base,
			"attempt_starts": strings.Join(st, " "), "on_hedge_instants": strings.Join(hedgeEvents, " "), "cancelled_at_return": strings.Join(cs, " ")}
	})
	return
}

func genHedgeCase(r *Rng) HCase {
	h := HCase{Max: r.Intn(5)}
	nd := 1 + r.Intn(3)
	for i := 0; i < nd; i++ {
		h.Delays = append(h.Delays, int64(1+r.Intn(8))*1024+512+int64(i))
	}
	switch r.Intn(4) {
	case 0: // default: cancel on anything
	case 1:
		h.Cancel = []CallD{{K: "Result", R: 7}}
	case 2:
		h.Cancel = []CallD{{K: "Errors", Errs: []ErrD{sent(0), sent(1)}}}
	default:
		p := PredD{K: "ResGe", Z: 1}
		h.Cancel = []CallD{{K: "If", P: &p}, {K: "Errors", Errs: []ErrD{sent(1)}}}
	}
	for i := 0; i <= h.Max; i++ {
		a := HAttempt{Dur: int64(r.Intn(30))*1024 + int64(17*i+3), Out: genOutcome(r), Coop: r.Chance(60)}
		if r.Chance(30) {
			a.Out = OutD{R: 7}
		}
		h.Atts = append(h.Atts, a)
	}
	if r.Chance(30) {
		h.ExtT = int64(r.Intn(40))*1024 + 256
		h.ExtK = Pick(r, []string{"Cancel", "Deadline"})
	} else if r.Chance(35) {
		// the hedge inside a retry: the first hedged run fails, the second starts later in the execution
		h.RetryDelay = int64(1+r.Intn(20))*1024 + 128
		h.Delays = h.Delays[:1] // the harness' delay function indexes by the execution-wide hedge count: keep one delay
		for i := 0; i <= h.Max; i++ {
			h.Atts2 = append(h.Atts2, HAttempt{Dur: int64(r.Intn(30))*1024 + int64(13*i+5), Out: genOutcome(r), Coop: r.Chance(60)})
		}
		e := sent(0)
		h.Atts[0].Out = OutD{R: 0, Err: &e}
		h.Atts[0].Dur = int64(r.Intn(3))*1024 + 7
	}
	if h.RetryDelay == 0 && r.Chance(25) {
		h.Inner = Pick(r, []string{"timeout", "breaker"})
		h.InnerLimit = int64(4+r.Intn(20))*1024 + 700
		if h.ExtT > 0 {
			// one cancellation source per execution (C08's quantifier): with a Timeout inside the hedge AND a cancelled context, the
			// cancellation result is shared by all copies of the execution and the caller's deadline can surface as the
			// earlier inner ErrExceeded
			h.Inner = "breaker"
		}
	}
	return h
}

// hedge policies inside random stacks (innermost policy), complete logs compared with Model/Exec.v
func driveC09x(t *testing.T) {
	pf := execProfile{name: "C09x", kinds: []string{"Retry", "Retry", "Timeout", "Fallback", "Fallback", "Breaker", "Bulkhead", "Cache"}, maxDepth: 3, extPct: 20, coopPct: 50, maxReqs: 2, withExec: true, hedgePct: 100}
	driveExec(t, "C09x", pf, 300, 9000, "stacks of 0-3 retry / timeout / fallback / breaker / bulkhead / cache policies around a hedge policy (1-3 hedges, delay 1-5 us, cancel conditions on results and errors), scripts of 3-11 attempts with durations 0-9 us (pairwise distinct residues), cooperative attempts returning 1-5 ns after their cancellation, external cancellation or deadline in a fifth of the requests; plus retries around a hedge that wins with a handled failure, cancelled in the middle of the retry delay that follows. Non-trivial = at least one hedge started. "+execRule,
		func(w *CaseWriter, rng *Rng, add func(InstD, []ReqD, string)) {
			n := 25
			if envTier() == "thorough" {
				n = 700
			}
			hedgeWinsThenCancelInDelay(rng, n, add)
		})
}

func TestDrive_C09(t *testing.T) {
	driveC09x(t)
	driveSlowHedgeUserCodeProbes(t)
	w := NewCaseWriter(t, "C09", "FS.Corr.C09")
	w.shardCap = envInt("VERIF_SHARD", 200)
	w.Extra = "Definition K := Eval vm_compute in skipped_ids cases.\nPrint K.\n"
	rng := NewRng(envSeed())
	n := 800
	if envTier() == "thorough" {
		n = 25000
	}
	add := func(h HCase, tag string) {
		lit, js, hedged, cancelled := runHedge(t, h)
		w.Add(func(id int) string { return fmt.Sprintf("mk_case %d %s", id, lit) }, js, hedged >= 1 && cancelled, lit)
		w.Stat("gen=" + tag)
		w.Stat(fmt.Sprintf("max_hedges=%d", h.Max))
		w.Stat("hedges_started=" + bucket(hedged))
		if h.ExtT > 0 {
			w.Stat("external_cancel")
		}
		if h.RetryDelay > 0 {
			w.Stat("inside_retry")
		}
		if h.Inner != "" {
			w.Stat("around_" + h.Inner)
		}
	}
	// corpus: finding F9 — a cancelled hedge with cancel conditions must not wait out the hedge delay
	add(HCase{Max: 1, Delays: []int64{3_600_000_000_000}, Cancel: []CallD{{K: "Result", R: 42}},
		Atts: []HAttempt{{Dur: 7_200_000_000_000, Out: OutD{R: 0}, Coop: true}, {Dur: 5, Out: OutD{R: 1}, Coop: true}}, ExtT: 1_000_000_000, ExtK: "Cancel"}, "corpus-F9")
	for i := 0; i < n; i++ {
		add(genHedgeCase(rng), "random")
	}
	w.Close("a hedge policy around a scripted function: maxHedges 0-4, delay function (1-3 distinct delays), cancel conditions (default / result / errors / predicate), per-attempt duration, outcome and cooperativeness with pairwise distinct instants, every completion order; optional cancellation or deadline of the caller's context; in a quarter of the cases without an enclosing retry, a Timeout (limit 4-24 us) or a closed circuit breaker INSIDE the hedge, around the function (the model sees each attempt as that policy hands it on). Observed: returned result, return instant, start instant and Attempts/Hedges/IsHedge of every attempt, OnHedge instants, IsCanceled of every attempt's execution at the moment the call returns. Non-trivial = at least one hedge started and at least one attempt cancelled; distinct by inputs.", nil)
}
