//go:build verif

package verifharness

import (
	"os"
	"errors"
	"context"
	"fmt"
	"sort"
	"strings"
	"sync"
	"testing"
	"testing/synctest"
	"time"

	"github.com/failsafe-go/failsafe-go"
	"github.com/failsafe-go/failsafe-go/bulkhead"
	"github.com/failsafe-go/failsafe-go/cachepolicy"
	"github.com/failsafe-go/failsafe-go/circuitbreaker"
	"github.com/failsafe-go/failsafe-go/common"
	"github.com/failsafe-go/failsafe-go/fallback"
	"github.com/failsafe-go/failsafe-go/hedgepolicy"
	"github.com/failsafe-go/failsafe-go/ratelimiter"
	"github.com/failsafe-go/failsafe-go/retrypolicy"
	"github.com/failsafe-go/failsafe-go/timeout"
)

type liveInst struct {
	breakers  []circuitbreaker.CircuitBreaker[int]
	limiters  []ratelimiter.RateLimiter[int]
	bulkheads []bulkhead.Bulkhead[int]
	caches    []*mapCache
	bpos      []*int // stack position of the layer currently running, per instance (listeners belong to instances)
	lpos      []*int
	kpos      []*int
	log       *execLog // log of the execution in progress
	built     map[string]failsafe.Policy[int] // policies are built once per history and shared by its executions, as users do
}

type applier interface {
	Apply(func(failsafe.Execution[int]) *common.PolicyResult[int]) func(failsafe.Execution[int]) *common.PolicyResult[int]
}

// posPolicy tells an instance's listeners at which stack position the running layer sits.
type posPolicy struct {
	inner failsafe.Policy[int]
	pos   int
	cur   *int
}

type posExec struct {
	ex  applier
	pos int
	cur *int
}

func (p *posPolicy) ToExecutor(r int) any {
	return &posExec{ex: p.inner.ToExecutor(r).(applier), pos: p.pos, cur: p.cur}
}

func (e *posExec) Apply(innerFn func(failsafe.Execution[int]) *common.PolicyResult[int]) func(failsafe.Execution[int]) *common.PolicyResult[int] {
	applied := e.ex.Apply(func(x failsafe.Execution[int]) *common.PolicyResult[int] {
		r := innerFn(x)
		*e.cur = e.pos
		return r
	})
	return func(x failsafe.Execution[int]) *common.PolicyResult[int] {
		*e.cur = e.pos
		return applied(x)
	}
}

func buildInstances(d InstD) *liveInst {
	li := &liveInst{}
	for i, calls := range d.Breakers {
		i := i
		li.bpos = append(li.bpos, new(int))
		cb := buildBreakerBuilder(circuitbreaker.Builder[int](), calls)
		rec := func(tag int) func(circuitbreaker.StateChangedEvent) {
			return func(e circuitbreaker.StateChangedEvent) {
				if li.log != nil {
					li.log.add("Breaker", *li.bpos[i], 0, 0, 0, 0, "(0, None)", int64(int(e.OldState)*16+int(e.NewState)*4+tag))
				}
			}
		}
		if d.BNoLsn&1 == 0 {
			cb = cb.OnClose(rec(0))
		}
		if d.BNoLsn&2 == 0 {
			cb = cb.OnOpen(rec(1))
		}
		if d.BNoLsn&4 == 0 {
			cb = cb.OnHalfOpen(rec(2))
		}
		if d.BNoLsn&8 == 0 {
			cb = cb.OnStateChanged(rec(3))
		}
		cb = cb.
			OnSuccess(func(e failsafe.ExecutionEvent[int]) { li.log.attempt("PolSuccess", *li.bpos[i], e.ExecutionAttempt, 0) }).
			OnFailure(func(e failsafe.ExecutionEvent[int]) { li.log.attempt("PolFailure", *li.bpos[i], e.ExecutionAttempt, 0) })
		li.breakers = append(li.breakers, cb.Build())
	}
	for i, c := range d.Limiters {
		i := i
		li.lpos = append(li.lpos, new(int))
		var b ratelimiter.RateLimiterBuilder[int]
		if c.Smooth {
			b = ratelimiter.SmoothBuilderWithMaxRate[int](time.Duration(c.Interval))
		} else {
			b = ratelimiter.BurstyBuilder[int](uint(c.Max), time.Duration(c.Period))
		}
		li.limiters = append(li.limiters, b.WithMaxWaitTime(time.Duration(c.MaxWait)).
			OnRateLimitExceeded(func(e failsafe.ExecutionEvent[int]) { li.log.attempt("RateExceeded", *li.lpos[i], e.ExecutionAttempt, 0) }).Build())
	}
	for i, k := range d.Bulkheads {
		i := i
		li.kpos = append(li.kpos, new(int))
		bh := bulkhead.Builder[int](uint(k[0])).WithMaxWaitTime(time.Duration(k[2])).
			OnFull(func(e failsafe.ExecutionEvent[int]) { li.log.attempt("Full", *li.kpos[i], e.ExecutionAttempt, 0) }).Build()
		for j := int64(0); j < k[1]; j++ {
			bh.TryAcquirePermit()
		}
		li.bulkheads = append(li.bulkheads, bh)
	}
	for _, c := range d.Caches {
		mc := &mapCache{m: map[string]int{}}
		for _, e := range c {
			mc.m[keyName(e[0])] = int(e[1])
		}
		li.caches = append(li.caches, mc)
	}
	return li
}

func buildBreakerBuilder(b circuitbreaker.CircuitBreakerBuilder[int], calls []BCallD) circuitbreaker.CircuitBreakerBuilder[int] {
	for _, c := range calls {
		c := c
		switch c.K {
		case "FailureThreshold":
			b = b.WithFailureThreshold(uint(c.A))
		case "FailureThresholdRatio":
			b = b.WithFailureThresholdRatio(uint(c.A), uint(c.B))
		case "FailureThresholdPeriod":
			b = b.WithFailureThresholdPeriod(uint(c.A), time.Duration(c.B))
		case "FailureRateThreshold":
			b = b.WithFailureRateThreshold(uint(c.A), uint(c.B), time.Duration(c.C))
		case "SuccessThreshold":
			b = b.WithSuccessThreshold(uint(c.A))
		case "SuccessThresholdRatio":
			b = b.WithSuccessThresholdRatio(uint(c.A), uint(c.B))
		case "Delay":
			b = b.WithDelay(time.Duration(c.A))
		case "DelayFunc":
			b = b.WithDelayFunc(func(exec failsafe.ExecutionAttempt[int]) time.Duration {
				for _, p := range c.Tbl {
					if int64(exec.LastResult()) == p[0] {
						return time.Duration(p[1])
					}
				}
				return time.Duration(c.Def)
			})
		default:
			b = applyHandle(b, []CallD{*c.H})
		}
	}
	return b
}

func buildPolicies(st []PolD, li *liveInst) []failsafe.Policy[int] {
	log := func() *execLog { return li.log }
	if li.built == nil {
		li.built = map[string]failsafe.Policy[int]{}
	}
	var ps []failsafe.Policy[int]
	for pos, p := range st {
		pos, p := pos, p
		memo := fmt.Sprint(pos, " ", p.Gallina(), " ", p.PreMax)
		if pol, ok := li.built[memo]; ok && (p.K == "Retry" || p.K == "Timeout" || p.K == "Fallback" || p.K == "Cache" || p.K == "Hedge") {
			ps = append(ps, pol)
			continue
		}
		switch p.K {
		case "Retry":
			b := applyHandle(retrypolicy.Builder[int](), p.Handle)
			b = applyAbortRetry(b, p.Abort)
			switch p.PreMax {
			case "unlimited":
				b = b.WithMaxRetries(-1)
			case "attempts":
				b = b.WithMaxAttempts(9)
			case "retries":
				b = b.WithMaxRetries(7)
			}
			if p.MaxAttempts {
				if p.MaxRetries == -1 {
					b = b.WithMaxAttempts(-1)
				} else {
					b = b.WithMaxAttempts(int(p.MaxRetries) + 1)
				}
			} else {
				b = b.WithMaxRetries(int(p.MaxRetries))
			}
			if p.MaxDuration != 0 {
				b = b.WithMaxDuration(time.Duration(p.MaxDuration))
			}
			if p.ReturnLast {
				b = b.ReturnLastFailure()
			}
			if p.Delay != 0 {
				b = b.WithDelay(time.Duration(p.Delay))
			}
			b = b.OnRetryScheduled(func(e failsafe.ExecutionScheduledEvent[int]) { log().attempt("RetryScheduled", pos, e.ExecutionAttempt, int64(e.Delay)) }).
				OnRetry(func(e failsafe.ExecutionEvent[int]) { log().attempt("Retry", pos, e.ExecutionAttempt, 0) }).
				OnRetriesExceeded(func(e failsafe.ExecutionEvent[int]) { log().attempt("RetriesExceeded", pos, e.ExecutionAttempt, 0) }).
				OnAbort(func(e failsafe.ExecutionEvent[int]) { log().attempt("Abort", pos, e.ExecutionAttempt, 0) }).
				OnSuccess(func(e failsafe.ExecutionEvent[int]) { log().attempt("PolSuccess", pos, e.ExecutionAttempt, 0) }).
				OnFailure(func(e failsafe.ExecutionEvent[int]) {
					log().attempt("PolFailure", pos, e.ExecutionAttempt, 0)
					time.Sleep(time.Duration(p.LsnDur))
				})
			ps = append(ps, b.Build())
			// a built policy is a snapshot: what is done to its builder afterwards must not reach it
			b.WithMaxRetries(int(p.MaxRetries)+5).OnRetry(func(e failsafe.ExecutionEvent[int]) { log().attempt("Retry", pos+1000, e.ExecutionAttempt, 0) })
		case "Breaker":
			ps = append(ps, &posPolicy{inner: li.breakers[p.Inst], pos: pos, cur: li.bpos[p.Inst]})
		case "Limiter":
			ps = append(ps, &posPolicy{inner: li.limiters[p.Inst], pos: pos, cur: li.lpos[p.Inst]})
		case "Bulkhead":
			ps = append(ps, &posPolicy{inner: li.bulkheads[p.Inst], pos: pos, cur: li.kpos[p.Inst]})
		case "Timeout":
			tb := timeout.Builder[int](time.Duration(p.Limit)).OnTimeoutExceeded(func(e failsafe.ExecutionDoneEvent[int]) {
				log().addT("TimeoutExceeded", pos, e.Attempts(), e.Retries(), e.Hedges(), e.Executions(), gOutcome(e.Result, e.Error), 0, log().abs(e.StartTime()), -1)
			})
			ps = append(ps, tb.Build())
			tb.OnTimeoutExceeded(func(e failsafe.ExecutionDoneEvent[int]) { log().done("TimeoutExceeded", pos+1000, e) })
		case "Hedge":
			b := hedgepolicy.BuilderWithDelay[int](time.Duration(p.HDelay)).WithMaxHedges(p.Hedges)
			b = applyCancelHedge(b, p.Cancel)
			b = b.OnHedge(func(e failsafe.ExecutionEvent[int]) { log().attempt("Hedge", pos, e.ExecutionAttempt, 0) })
			ps = append(ps, b.Build())
			b.WithMaxHedges(p.Hedges+3).OnHedge(func(e failsafe.ExecutionEvent[int]) { log().attempt("Hedge", pos+1000, e.ExecutionAttempt, 0) })
			// (the builder goes on to build another policy with cancel conditions of its own: the policy built first keeps its own)
			b.CancelOnResult(123456).CancelIf(func(int, error) bool { return false })
		case "Fallback":
			var b fallback.FallbackBuilder[int]
			// a fallback is never applied to an execution that is already cancelled: such an invocation is logged (aux = 1)
			fbGuard := func(e failsafe.Execution[int]) {
				if e.IsCanceled() {
					log().add("FallbackExecuted", pos, 0, 0, 0, 0, "(0, None)", 1)
				}
			}
			switch p.FBKind {
			case "Result":
				b = fallback.BuilderWithResult[int](int(p.FBR))
			case "Error":
				b = fallback.BuilderWithError[int](p.FBE.Build())
			case "Echo":
				b = fallback.BuilderWithFunc[int](func(e failsafe.Execution[int]) (int, error) {
					fbGuard(e)
					time.Sleep(time.Duration(p.FBDur))
					return e.LastResult() + int(p.FBR), nil
				})
			default:
				b = fallback.BuilderWithFunc[int](func(e failsafe.Execution[int]) (int, error) {
					fbGuard(e)
					time.Sleep(time.Duration(p.FBDur))
					if le := e.LastError(); le != nil {
						d, _ := Describe(le)
						return e.LastResult(), wrap(d).Build()
					}
					return e.LastResult() + 1, nil
				})
			}
			b = applyHandle(b, p.Handle)
			b = b.OnFallbackExecuted(func(e failsafe.ExecutionDoneEvent[int]) { log().done("FallbackExecuted", pos, e) }).
				OnSuccess(func(e failsafe.ExecutionEvent[int]) { log().attempt("PolSuccess", pos, e.ExecutionAttempt, 0) }).
				OnFailure(func(e failsafe.ExecutionEvent[int]) {
					log().attempt("PolFailure", pos, e.ExecutionAttempt, 0)
					time.Sleep(time.Duration(p.FBLsnDur))
				})
			ps = append(ps, b.Build())
			b.OnFallbackExecuted(func(e failsafe.ExecutionDoneEvent[int]) { log().done("FallbackExecuted", pos+1000, e) })
		default:
			b := cachepolicy.Builder[int](li.caches[p.Inst])
			if p.Key != 0 {
				b = b.WithKey(keyName(p.Key))
			}
			for _, q := range p.CacheIf {
				b = b.CacheIf(q.Func())
			}
			b = b.OnCacheHit(func(e failsafe.ExecutionDoneEvent[int]) { log().done("CacheHit", pos, e) }).
				OnCacheMiss(func(e failsafe.ExecutionEvent[int]) { log().attempt("CacheMiss", pos, e.ExecutionAttempt, 0) }).
				OnResultCached(func(e failsafe.ExecutionEvent[int]) { log().attempt("Cached", pos, e.ExecutionAttempt, 0) })
			ps = append(ps, b.Build()) // (a built cache policy shares its builder's configuration: not touched afterwards)
		}
		li.built[memo] = ps[len(ps)-1]
	}
	return ps
}

// ExecObs is what one execution showed.
var errCallerCause = errors.New("verifharness: the caller's own cancellation cause")

type ExecObs struct {
	Res     int
	Err     error
	Start   int64
	End     int64
	Events  []string
	Counts  map[string]int
	Invoked int
	State   string // instance states after the execution
	Late    int    // entries logged during the quiet hour after the history's last execution (they are appended to Events)
}

func (o ExecObs) Gallina() string {
	return fmt.Sprintf("{| x_out := %s; x_start := %d; x_end := %d; x_events := %s; x_state := %s |}", gOutcome(o.Res, o.Err), o.Start, o.End, gList(o.Events), o.State)
}

func instState(li *liveInst) string {
	bs := make([]string, len(li.breakers))
	for i, cb := range li.breakers {
		m := cb.Metrics()
		bs[i] = fmt.Sprintf("[%d; %d; %d; %d; %d; %d]", int(cb.State()), m.Executions(), m.Failures(), m.FailureRate(), m.Successes(), m.SuccessRate())
	}
	cs := make([]string, len(li.caches))
	for i, c := range li.caches {
		var ids []int
		for k := range c.m {
			var id int
			fmt.Sscanf(k, "k%d", &id)
			ids = append(ids, id)
		}
		sort.Ints(ids)
		es := make([]string, len(ids))
		for j, id := range ids {
			es[j] = fmt.Sprintf("(%d, %s)", id, gZ(int64(c.m[keyName(int64(id))])))
		}
		cs[i] = gList(es)
	}
	return fmt.Sprintf("(%s, %s)", gList(bs), gList(cs))
}

// runHistory runs the requests one after the other on fresh instances inside one bubble.
func runHistory(t *testing.T, inst InstD, reqs []ReqD) (obs []ExecObs, start int64) {
	// real-time watchdog (outside the bubble): a goroutine stuck on a mutex is not "durably blocked", so the bubble neither
	// advances its clock nor reports a deadlock -- the history just never ends
	finished := make(chan struct{})
	defer close(finished)
	go func() {
		select {
		case <-finished:
		case <-time.After(40 * time.Second):
			rs := make([]string, len(reqs))
			for i, r := range reqs {
				rs[i] = r.Gallina()
			}
			fmt.Fprintf(os.Stderr, "watchdog: a history of %d execution(s) did not finish within 40s of real time (an execution hangs):\n%s\n", len(reqs), strings.Join(rs, "\n"))
			os.Exit(3)
		}
	}()
	synctest.Test(t, func(t *testing.T) {
		t0 := time.Now()
		start = t0.UnixNano()
		li := buildInstances(inst)
		var lastLog *execLog
		var prevBase failsafe.Executor[int]
		for _, rq := range reqs {
			rq := rq
			if rq.Gap > 0 {
				time.Sleep(time.Duration(rq.Gap))
			}
			log := &execLog{t0: t0, base: start, counts: map[string]int{}}
			li.log = log
			reqStart := log.now()
			ctx := context.Background()
			var cancel context.CancelFunc = func() {}
			var timer *time.Timer
			if rq.CtxKey == -2 {
				ctx = context.WithValue(ctx, cachepolicy.CacheKey, 42)
			} else if rq.CtxKey >= 0 {
				ctx = context.WithValue(ctx, cachepolicy.CacheKey, keyName(rq.CtxKey))
			}
			var asyncCancel func()
			if rq.ExtT == 0 && rq.ExtKind == "" && (len(rq.Stack)+len(rq.Script))%2 == 1 {
				// half of the executions that nobody cancels still run under a cancellable context (its Done channel is not nil)
				ctx, cancel = context.WithCancel(ctx)
			}
			if rq.ExtKind == "PreCancel" {
				ctx, cancel = context.WithCancel(ctx)
				cancel()
			} else if rq.ExtKind == "PreDeadline" {
				ctx, cancel = context.WithDeadline(ctx, time.Now())
			} else if rq.ExtT > 0 && rq.ExtKind == "AsyncCancel" {
				// ExecutionResult.Cancel() at the given instant (async entry points only)
			} else if rq.ExtT > 0 {
				// every other context carries a cause of the caller's own: the execution still reports the context's error
				// (context.Canceled / context.DeadlineExceeded), not the cause
				withCause := (rq.ExtT+int64(len(rq.Stack)))%2 == 0
				if rq.ExtKind == "Deadline" {
					if withCause {
						ctx, cancel = context.WithDeadlineCause(ctx, time.Now().Add(time.Duration(rq.ExtT)), errCallerCause)
					} else {
						ctx, cancel = context.WithDeadline(ctx, time.Now().Add(time.Duration(rq.ExtT)))
					}
				} else if withCause {
					var cc context.CancelCauseFunc
					ctx, cc = context.WithCancelCause(ctx)
					cancel = func() { cc(errCallerCause) }
					timer = time.AfterFunc(time.Duration(rq.ExtT), cancel)
				} else {
					ctx, cancel = context.WithCancel(ctx)
					timer = time.AfterFunc(time.Duration(rq.ExtT), cancel)
				}
			}
			script := rq.Script
			idx, invoked := 0, 0
			total := len(rq.Stack)
			var fnMu sync.Mutex
			var fnWG sync.WaitGroup
			body := func(exec failsafe.Execution[int]) (int, error) {
				fnWG.Add(1)
				defer fnWG.Done()
				fnMu.Lock()
				st := script[idx]
				if idx < len(script)-1 {
					idx++
				}
				invoked++
				fnMu.Unlock()
				view0 := ""
				if exec != nil {
					aux := int64(0)
					if exec.IsHedge() {
						aux = 1
					}
					view0 = gOutcome(exec.LastResult(), exec.LastError())
					log.attempt("FnStart", total, exec, aux)
				} else {
					log.add("FnStart", total, 0, 0, 0, 0, "(0, None)", 0)
				}
				out := st.Out
				if st.Coop != nil && exec != nil {
					tm := time.NewTimer(time.Duration(st.Dur))
					select {
					case <-tm.C:
					case <-exec.Canceled():
						tm.Stop()
						out = *st.Coop
						time.Sleep(time.Duration(st.Lag))
					}
				} else {
					time.Sleep(time.Duration(st.Dur))
				}
				r, e := out.Go()
				if exec != nil {
					// what the function can read of the previous attempt does not change while it runs: LastResult / LastError are those
					// of the last COMPLETED attempt (a missing error falls back to the context's, which may have been cancelled meanwhile)
					bad := int64(0)
					if view1 := gOutcome(exec.LastResult(), exec.LastError()); view1 != view0 {
						bad = 1
						if exec.Context().Err() != nil && view1 == gOutcome(exec.LastResult(), exec.Context().Err()) && strings.HasSuffix(view0, "None)") {
							bad = 0
						}
					}
					log.addT("FnEnd", total, attemptsSeen(exec), exec.Retries(), exec.Hedges(), exec.Executions()+1, gOutcome(r, e), bad, log.abs(exec.StartTime()), log.abs(exec.AttemptStartTime()))
				} else {
					log.add("FnEnd", total, 0, 0, 0, 0, gOutcome(r, e), 0)
				}
				return r, e
			}
			// The executor: listeners are registered first and the context is attached afterwards (WithContext returns a copy
			// that carries the listeners and leaves the executor it was called on alone).  A request marked SameExec runs on the
			// previous request's executor itself -- without a context of its own -- which must behave like a fresh one.
			var base failsafe.Executor[int]
			if rq.SameExec && prevBase != nil {
				base = prevBase
			} else {
				base = failsafe.NewExecutor[int](buildPolicies(rq.Stack, li)...)
				if !rq.NoLsn[0] {
					base = base.OnSuccess(func(e failsafe.ExecutionDoneEvent[int]) { li.log.done("ExecSuccess", 0, e) })
				}
				if !rq.NoLsn[1] {
					base = base.OnFailure(func(e failsafe.ExecutionDoneEvent[int]) { li.log.done("ExecFailure", 0, e) })
				}
				if !rq.NoLsn[2] {
					base = base.OnDone(func(e failsafe.ExecutionDoneEvent[int]) { li.log.done("ExecDone", 0, e) })
				}
			}
			prevBase = base
			ex := base
			if !(rq.SameExec && rq.ExtT == 0 && rq.ExtKind == "" && rq.CtxKey == -1) {
				ex = base.WithContext(ctx)
			}
			var visitor *time.Timer
			if rq.VisT > 0 {
				visitor = time.AfterFunc(time.Duration(rq.VisT), func() {
					// (the visited execution is blocked in a delay and the visitor takes no virtual time: the log is swapped for its duration)
					saved := li.log
					li.log = &execLog{t0: t0, base: start, counts: map[string]int{}}
					base.Get(func() (int, error) { return rq.VisOut.Go() })
					li.log = saved
				})
			}
			var res int
			var err error
			switch rq.Entry {
			case "Get":
				res, err = ex.Get(func() (int, error) { return body(nil) })
			case "GetWithExecution":
				res, err = ex.GetWithExecution(body)
			case "Run":
				err = ex.Run(func() error { _, e := body(nil); return e })
			case "RunWithExecution":
				err = ex.RunWithExecution(func(x failsafe.Execution[int]) error { _, e := body(x); return e })
			default:
				var ar failsafe.ExecutionResult[int]
				switch rq.Entry {
				case "GetAsync":
					ar = ex.GetAsync(func() (int, error) { return body(nil) })
				case "GetWithExecutionAsync":
					ar = ex.GetWithExecutionAsync(body)
				case "RunAsync":
					ar = ex.RunAsync(func() error { _, e := body(nil); return e })
				default:
					ar = ex.RunWithExecutionAsync(func(x failsafe.Execution[int]) error { _, e := body(x); return e })
				}
				if rq.ExtT > 0 && rq.ExtKind == "AsyncCancel" {
					timer = time.AfterFunc(time.Duration(rq.ExtT), ar.Cancel)
				}
				res, err = ar.Get()
				if strings.HasPrefix(rq.Entry, "Run") {
					res = 0
				}
			}
			_ = asyncCancel
			end := log.now()
			// hedge attempts still running go on to their end before anything else happens
			synctest.Wait()
			fnWG.Wait()
			if timer != nil {
				timer.Stop()
			}
			if visitor != nil {
				visitor.Stop()
			}
			cancel()
			synctest.Wait()
			obs = append(obs, ExecObs{Res: res, Err: err, Start: reqStart, End: end, Events: log.events, Counts: log.counts, Invoked: invoked, State: instState(li)})
			lastLog = log
		}
		// a quiet hour: nothing the library armed for an execution may still go off once the execution has completed
		if lastLog != nil && len(obs) > 0 {
			time.Sleep(time.Hour)
			synctest.Wait()
			lastLog.mu.Lock()
			if late := len(lastLog.events) - len(obs[len(obs)-1].Events); late > 0 {
				obs[len(obs)-1].Late = late
				obs[len(obs)-1].Events = lastLog.events // the late entries become part of the log: the model has none
			}
			lastLog.mu.Unlock()
		}
	})
	return
}
