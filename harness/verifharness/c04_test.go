//go:build verif

package verifharness

import (
	"context"
	"fmt"
	"strings"
	"testing"
	"testing/synctest"
	"time"

	"github.com/failsafe-go/failsafe-go"
	"github.com/failsafe-go/failsafe-go/circuitbreaker"
	"github.com/failsafe-go/failsafe-go/fallback"
	"github.com/failsafe-go/failsafe-go/retrypolicy"
	"github.com/failsafe-go/failsafe-go/timeout"
)

// ---- C04: executions racing through one breaker on a scripted schedule ----

type cStep struct {
	K   string // Acquire Record Tick Manual
	I   int
	Cxl bool // Record: the execution's context is cancelled just before its function returns
	Unh bool // Record: the function returns an error the breaker's handle conditions do not cover (recorded as a success)
	Ok  bool
	R   int64
	Dt  int64
	Tgt int
}

func (s cStep) Gallina() string {
	switch s.K {
	case "Acquire":
		return fmt.Sprintf("CAcquire %d%%nat", s.I)
	case "Record":
		if s.Ok || s.Unh {
			return fmt.Sprintf("CRecord %d%%nat true None", s.I)
		}
		return fmt.Sprintf("CRecord %d%%nat false (Some %s)", s.I, gZ(s.R))
	case "Tick":
		return fmt.Sprintf("CTick %d", s.Dt)
	default:
		return fmt.Sprintf("CManual %d", s.Tgt)
	}
}

type gateMsg struct {
	ok  bool
	r   int
	unh bool
}

// runSchedule executes the schedule on a real breaker; next chooses each step from the live state.
func runSchedule(t *testing.T, calls []BCallD, n int, nsteps int, variant []string, rng *Rng, delay int64, handles bool, forced []cStep) (steps []cStep, snaps []string, start int64, maxInflight int) {
	synctest.Test(t, func(t *testing.T) {
		t0 := time.Now()
		start = t0.UnixNano()
		gen := 0
		b := circuitbreaker.Builder[int]()
		cb := buildBreakerWith(calls, handles, func(circuitbreaker.StateChangedEvent) { gen += 2 })
		_ = b
		status := make([]int, n)
		gens := make([]int, n)
		gates := make([]chan gateMsg, n)
		ctxs := make([]context.Context, n)
		cancels := make([]context.CancelFunc, n)
		for i := range gates {
			ctxs[i], cancels[i] = context.WithCancel(context.Background())
			gates[i] = make(chan gateMsg)
			gens[i] = -1
		}
		run := func(i int) {
			ran := false
			fn := func() (int, error) {
				ran = true
				status[i] = 2
				gens[i] = gen
				m := <-gates[i]
				if m.ok {
					return 0, nil
				}
				if m.unh {
					return m.r, sent(1).Build() // not among the errors the breaker handles: a success for the breaker
				}
				return m.r, sent(0).Build()
			}
			var pols []failsafe.Policy[int]
			switch variant[i] {
			case "fallback":
				pols = []failsafe.Policy[int]{fallback.WithResult[int](-1), cb}
			case "timeout":
				pols = []failsafe.Policy[int]{timeout.With[int](time.Hour), cb}
			case "retry0":
				pols = []failsafe.Policy[int]{retrypolicy.Builder[int]().WithMaxRetries(0).Build(), cb}
			default:
				pols = []failsafe.Policy[int]{cb}
			}
			if variant[i] == "async" {
				failsafe.NewExecutor[int](pols...).WithContext(ctxs[i]).GetAsync(fn).Get()
			} else {
				failsafe.NewExecutor[int](pols...).WithContext(ctxs[i]).Get(fn)
			}
			gens[i] = -1
			if ran {
				status[i] = 3
			} else {
				status[i] = 1
			}
		}
		snap := func() {
			st, gs := make([]string, n), make([]string, n)
			inflightNow := 0
			for i := 0; i < n; i++ {
				st[i] = fmt.Sprint(status[i])
				gs[i] = gZ(int64(gens[i]))
				if status[i] == 2 {
					inflightNow++
				}
			}
			if inflightNow > maxInflight {
				maxInflight = inflightNow
			}
			snaps = append(snaps, fmt.Sprintf("{| sn_state := %d; sn_gen := %d; sn_threads := %s; sn_gens := %s |}", int(cb.State()), gen, gList(st), gList(gs)))
		}
		for len(steps) < nsteps {
			var idle, flying []int
			for i := 0; i < n; i++ {
				switch status[i] {
				case 0:
					idle = append(idle, i)
				case 2:
					flying = append(flying, i)
				}
			}
			var s cStep
			if k := len(steps); k < len(forced) {
				// a forced prefix (dropped as soon as a step does not fit the live state)
				f := forced[k]
				fits := f.K == "Tick" || f.K == "Manual" || (f.K == "Acquire" && f.I < n && status[f.I] == 0) || (f.K == "Record" && f.I < n && status[f.I] == 2)
				if !fits {
					forced = nil
					continue
				}
				s = f
			} else {
				s = cStep{}
			}
			switch c := rng.Intn(20); {
			case s.K != "":
			case c < 8 && len(idle) > 0:
				s = cStep{K: "Acquire", I: Pick(rng, idle)}
			case c < 14 && len(flying) > 0:
				s = cStep{K: "Record", I: Pick(rng, flying), Ok: rng.Chance(40), R: Pick(rng, []int64{0, 1, 7})}
				if !s.Ok && handles && rng.Chance(35) {
					s.Unh = true
				}
				if !s.Ok && !s.Unh && rng.Chance(35) {
					s.Cxl = true // a trial that ends because its execution was cancelled still records its outcome
				}
			case c < 18:
				s = cStep{K: "Tick", Dt: Pick(rng, []int64{1, delay - 1, delay, delay + 1, 1 + rng.I64n(min(delay, 1_000_000_000_000)+2), int64(cb.RemainingDelay()), int64(cb.RemainingDelay()) - 1})}
				if s.Dt < 0 {
					s.Dt = 0
				}
				if s.Dt > 1_000_000_000_000 { // "open for good": the clock cannot be advanced by centuries
					s.Dt = 3_600_000_000_000
				}
			case c < 19:
				s = cStep{K: "Manual", Tgt: rng.Intn(3)}
			default:
				if len(idle) == 0 && len(flying) == 0 {
					return
				}
				continue
			}
			switch s.K {
			case "Acquire":
				go run(s.I)
			case "Record":
				if s.Cxl {
					cancels[s.I]()
				}
				gates[s.I] <- gateMsg{s.Ok, int(s.R), s.Unh}
			case "Tick":
				time.Sleep(time.Duration(s.Dt))
			default:
				switch s.Tgt {
				case 0:
					cb.Close()
				case 1:
					cb.Open()
				default:
					cb.HalfOpen()
				}
			}
			synctest.Wait()
			steps = append(steps, s)
			snap()
		}
		// let every execution finish so that the bubble can end
		for i := 0; i < n; i++ {
			if status[i] == 2 {
				gates[i] <- gateMsg{true, 0, false}
			}
		}
		synctest.Wait()
		for i := 0; i < n; i++ {
			cancels[i]()
		}
	})
	return
}

func buildBreakerWith(calls []BCallD, handles bool, onChange func(circuitbreaker.StateChangedEvent)) circuitbreaker.CircuitBreaker[int] {
	b := circuitbreaker.Builder[int]()
	if handles {
		b = b.HandleErrors(sent(0).Build()) // every other error is none of the breaker's business
	}
	for _, c := range calls {
		c := c
		switch c.K {
		case "FailureThreshold":
			b = b.WithFailureThreshold(uint(c.A))
		case "FailureThresholdRatio":
			b = b.WithFailureThresholdRatio(uint(c.A), uint(c.B))
		case "FailureThresholdPeriod":
			b = b.WithFailureThresholdPeriod(uint(c.A), time.Duration(c.B))
		case "FailureRateThreshold":
			b = b.WithFailureRateThreshold(uint(c.A), uint(c.B), time.Duration(c.C))
		case "SuccessThreshold":
			b = b.WithSuccessThreshold(uint(c.A))
		case "SuccessThresholdRatio":
			b = b.WithSuccessThresholdRatio(uint(c.A), uint(c.B))
		case "Delay":
			b = b.WithDelay(time.Duration(c.A))
		case "DelayFunc":
			b = b.WithDelayFunc(func(exec failsafe.ExecutionAttempt[int]) time.Duration {
				for _, p := range c.Tbl {
					if int64(exec.LastResult()) == p[0] {
						return time.Duration(p[1])
					}
				}
				return time.Duration(c.Def)
			})
		}
	}
	return b.OnStateChanged(onChange).Build()
}

func TestDrive_C04(t *testing.T) {
	driveSlowStateListenerProbes(t, "C04s")
	driveSlowDelayFuncProbes(t, "C04p")
	w := NewCaseWriter(t, "C04", "FS.Corr.C04")
	w.shardCap = envInt("VERIF_SHARD", 100)
	rng := NewRng(envSeed())
	n := 300
	if envTier() == "thorough" {
		n = 6000
	}
	for it := 0; it < n; it++ {
		var calls []BCallD
		delay := Pick(rng, []int64{0, 1, 10_000_000, 1_000_000_000, 1_000_000_000, 1<<63 - 1})
		calls = append(calls, BCallD{K: "Delay", A: delay})
		switch rng.Intn(4) {
		case 0:
			calls = append(calls, BCallD{K: "FailureThreshold", A: int64(1 + rng.Intn(3))})
		case 1:
			c := int64(2 + rng.Intn(4))
			calls = append(calls, BCallD{K: "FailureThresholdRatio", A: 1 + rng.I64n(c), B: c})
		case 2:
			calls = append(calls, BCallD{K: "FailureRateThreshold", A: Pick(rng, []int64{34, 50, 100}), B: int64(1 + rng.Intn(4)), C: 1_000_000_000})
		}
		switch rng.Intn(3) {
		case 0:
			calls = append(calls, BCallD{K: "SuccessThreshold", A: int64(1 + rng.Intn(3))})
		case 1:
			c := int64(2 + rng.Intn(3))
			calls = append(calls, BCallD{K: "SuccessThresholdRatio", A: 1 + rng.I64n(c), B: c})
		}
		if rng.Chance(25) {
			calls = append(calls, BCallD{K: "DelayFunc", Tbl: [][2]int64{{7, Pick(rng, []int64{0, 5, 2_000_000_000})}}, Def: -1})
		}
		nth := 3 + rng.Intn(8)
		variant := make([]string, nth)
		for i := range variant {
			variant[i] = Pick(rng, []string{"plain", "plain", "fallback", "timeout", "retry0", "async"})
			w.Stat("variant=" + variant[i])
		}
		handles := rng.Chance(40)
		var forced []cStep
		if it%6 == 5 {
			// rate-based thresholding without a success threshold: open after N failures, let the delay pass, complete one
			// half-open trial, then start N more at once
			N := 2 + rng.Intn(2)
			delay = 1000
			calls = []BCallD{{K: "Delay", A: delay}, {K: "FailureRateThreshold", A: Pick(rng, []int64{34, 50, 100}), B: int64(N), C: 1_000_000_000}}
			nth = 2*N + 3
			variant = make([]string, nth)
			for i := range variant {
				variant[i] = Pick(rng, []string{"plain", "plain", "timeout", "async"})
			}
			for k := 0; k < N; k++ {
				forced = append(forced, cStep{K: "Acquire", I: k}, cStep{K: "Record", I: k, R: 1})
			}
			forced = append(forced, cStep{K: "Tick", Dt: delay + 1}, cStep{K: "Acquire", I: N}, cStep{K: "Record", I: N, Ok: rng.Bool(), R: 1})
			for k := 0; k <= N; k++ {
				forced = append(forced, cStep{K: "Acquire", I: N + 1 + k})
			}
			w.Stat("forced=rate-half-open")
		}
		if handles {
			w.Stat("breaker_handles_one_error_only")
		}
		steps, snaps, start, maxIn := runSchedule(t, calls, nth, 10+rng.Intn(40)+len(forced), variant, rng, delay, handles, forced)
		cs := make([]string, len(calls))
		for i, c := range calls {
			cs[i] = c.Gallina()
		}
		ss := make([]string, len(steps))
		halfOpenSeen := false
		for i, s := range steps {
			ss[i] = s.Gallina()
			w.Stat("step=" + s.K)
			if s.Cxl {
				w.Stat("record_after_cancellation")
			}
			if strings.Contains(snaps[i], "sn_state := 2") {
				halfOpenSeen = true
			}
		}
		w.Stat("max_inflight=" + bucket(maxIn))
		cl, sl, ol := gList(cs), gList(ss), gList(snaps)
		w.Add(func(id int) string {
			return fmt.Sprintf("mk_case %d %s %d%%nat %d\n  %s\n  %s", id, cl, nth, start, sl, ol)
		}, map[string]any{"builder_calls": strings.Join(cs, " "), "threads": nth, "variants": variant, "schedule": strings.Join(ss, "; "), "snapshots": strings.Join(snaps, "; ")},
			halfOpenSeen && maxIn >= 2, cl+sl)
	}
	w.Close("schedules of 10-49 atomic steps over 3-10 executions (plain, under Fallback/Timeout/Retry, async) through one breaker in a virtual-time bubble: start execution i (runs to its admission decision; an admitted function then blocks on a gate), let execution i finish with a success, a failure or -- for breakers built with HandleErrors -- an error the breaker does not handle (result feeds the delay function), advance the clock (1ns, delay-1, delay, delay+1, the exact remaining delay and 1ns less, random), manual Open/HalfOpen/Close. After every step: breaker state, state-change generation, each execution's status and admission generation. Non-trivial = a half-open state was reached and at least two executions were in flight at once; distinct by (configuration, schedule).", nil)
}
