//go:build verif

// accessgen scans the non-test Go sources of the library and emits, as a Coq file, how every field of the
// concurrency-relevant structs is accessed: only atomically / through a channel / never written after
// construction / always inside the struct's mutex / outside every protection.  Standard library only.
//
// (library form, called by TestDrive_C14)
package verifharness

import (
	"fmt"
	"go/ast"
	"go/parser"
	"go/token"
	"os"
	"path/filepath"
	"regexp"
	"sort"
	"strings"
)

type target struct {
	pkgDir, name, mutex string
}

var targets = []target{
	{".", "execution", "mtx"},
	{".", "executionResult", ""},
	{"circuitbreaker", "circuitBreaker", "mtx"},
	{"ratelimiter", "smoothStats", "mtx"},
	{"ratelimiter", "burstyStats", "mtx"},
	{"bulkhead", "bulkhead", ""},
	{"retrypolicy", "executor", ""},
	{"circuitbreaker", "executor", "mtx"},
}

type access struct {
	Func   string
	Write  bool
	Locked bool
	Pos    string
}

type fieldInfo struct {
	Struct, Field, Type string
	Accesses            []access
	Prot                string
}

// methods that change the object a field refers to (calling them is a write to the field's state)
var mutatingMethods = map[string]bool{"Reset": true}

var extLock = regexp.MustCompile(`(?i)(requires external locking|locked externally|must be locked|guarded externally)`)

func typeString(e ast.Expr) string {
	switch t := e.(type) {
	case *ast.Ident:
		return t.Name
	case *ast.StarExpr:
		return "*" + typeString(t.X)
	case *ast.SelectorExpr:
		return typeString(t.X) + "." + t.Sel.Name
	case *ast.ChanType:
		return "chan " + typeString(t.Value)
	case *ast.IndexExpr:
		return typeString(t.X) + "[" + typeString(t.Index) + "]"
	case *ast.ArrayType:
		return "[]" + typeString(t.Elt)
	case *ast.FuncType:
		return "func"
	case *ast.InterfaceType:
		return "interface"
	case *ast.IndexListExpr:
		return typeString(t.X) + "[...]"
	}
	return fmt.Sprintf("%T", e)
}

func scanAccessTable(root string) (tableLit string, infos []*fieldInfo, err error) {
	fset := token.NewFileSet()
	for _, tg := range targets {
		dir := filepath.Join(root, tg.pkgDir)
		pkgs, err := parser.ParseDir(fset, dir, func(fi os.FileInfo) bool { return !strings.HasSuffix(fi.Name(), "_test.go") }, parser.ParseComments)
		if err != nil {
			return "", nil, err
		}
		fields := map[string]*fieldInfo{}
		var order []string
		found := false
		for _, pkg := range pkgs {
			for _, f := range pkg.Files {
				for _, d := range f.Decls {
					gd, ok := d.(*ast.GenDecl)
					if !ok {
						continue
					}
					for _, sp := range gd.Specs {
						ts, ok := sp.(*ast.TypeSpec)
						if !ok || ts.Name.Name != tg.name {
							continue
						}
						st, ok := ts.Type.(*ast.StructType)
						if !ok {
							continue
						}
						found = true
						for _, fl := range st.Fields.List {
							for _, nm := range fl.Names {
								fi := &fieldInfo{Struct: tg.name, Field: nm.Name, Type: typeString(fl.Type)}
								fields[nm.Name] = fi
								order = append(order, nm.Name)
							}
						}
					}
				}
			}
		}
		if !found {
			// the struct was renamed or removed: report it as an unguarded placeholder so that the obligation fails loudly
			infos = append(infos, &fieldInfo{Struct: tg.name, Field: "<struct not found>", Type: "?", Prot: "PUnguarded"})
			continue
		}
		// methods documented as requiring the caller to hold the lock
		external := map[string]bool{}
		for _, pkg := range pkgs {
			for _, f := range pkg.Files {
				for _, d := range f.Decls {
					if fd, ok := d.(*ast.FuncDecl); ok && fd.Recv != nil && fd.Doc != nil && extLock.MatchString(fd.Doc.Text()) {
						external[fd.Name.Name] = true
					}
				}
			}
		}
		if tg.mutex != "" {
			fields["<lock-requiring call>"] = &fieldInfo{Struct: tg.name, Field: "<lock-requiring call>", Type: "call"}
			order = append(order, "<lock-requiring call>")
		}
		// methods with the target as receiver
		for _, pkg := range pkgs {
			for _, f := range pkg.Files {
				for _, d := range f.Decls {
					fd, ok := d.(*ast.FuncDecl)
					if !ok || fd.Recv == nil || fd.Body == nil || len(fd.Recv.List) != 1 || len(fd.Recv.List[0].Names) != 1 {
						continue
					}
					rt := typeString(fd.Recv.List[0].Type)
					rt = strings.TrimPrefix(rt, "*")
					if i := strings.Index(rt, "["); i >= 0 {
						rt = rt[:i]
					}
					if rt != tg.name {
						continue
					}
					recv := fd.Recv.List[0].Names[0].Name
					isExt := fd.Doc != nil && extLock.MatchString(fd.Doc.Text())
					scanBody(fset, fd.Name.Name, recv, tg.mutex, isExt, fd.Body, fields, external)
				}
			}
		}
		for _, nm := range order {
			fi := fields[nm]
			if nm == tg.mutex {
				continue
			}
			fi.Prot = classify(fi, tg.mutex)
			infos = append(infos, fi)
		}
	}
	sort.SliceStable(infos, func(i, j int) bool { return infos[i].Struct+"."+infos[i].Field < infos[j].Struct+"."+infos[j].Field })
	// emit
	var rows []string
	for _, fi := range infos {
		prot := fi.Prot
		if prot == "PGuarded" {
			prot = "(PGuarded 0)"
		}
		seen := map[string]bool{}
		var un []string
		for _, a := range fi.Accesses {
			if !a.Locked && !seen[a.Func] {
				seen[a.Func] = true
				un = append(un, fmt.Sprintf("%q", a.Func))
			}
		}
		rows = append(rows, fmt.Sprintf("{| r_struct := %q; r_field := %q; r_prot := %s; r_unlocked := [%s] |}", fi.Struct, fi.Field, prot, strings.Join(un, "; ")))
	}
	return "[" + strings.Join(rows, ";\n   ") + "]", infos, nil
}

func classify(fi *fieldInfo, mutex string) string {
	t := fi.Type
	switch {
	case strings.Contains(t, "atomic."):
		return "PAtomic"
	case strings.HasPrefix(t, "chan "):
		return "PChannel"
	case strings.Contains(t, "sync.Mutex"):
		return "PImmutable"
	}
	writes, unlocked := 0, 0
	for _, a := range fi.Accesses {
		if a.Write {
			writes++
		}
		if !a.Locked {
			unlocked++
		}
	}
	switch {
	case writes == 0:
		return "PImmutable"
	case unlocked == 0 && mutex != "":
		return "PGuarded"
	case mutex == "":
		return "PConfined"
	default:
		return "PUnguarded"
	}
}

// scanBody walks the statements of a method in order, tracking lexically whether the receiver's mutex is held.
func scanBody(fset *token.FileSet, fn, recv, mutex string, external bool, body *ast.BlockStmt, fields map[string]*fieldInfo, extMethods map[string]bool) {
	locked := external
	isMutexCall := func(e ast.Expr, method string) bool {
		call, ok := e.(*ast.CallExpr)
		if !ok {
			return false
		}
		sel, ok := call.Fun.(*ast.SelectorExpr)
		if !ok || sel.Sel.Name != method {
			return false
		}
		inner, ok := sel.X.(*ast.SelectorExpr)
		if !ok || inner.Sel.Name != mutex {
			return false
		}
		id, ok := inner.X.(*ast.Ident)
		return ok && id.Name == recv
	}
	record := func(e ast.Expr, write bool) {
		ast.Inspect(e, func(n ast.Node) bool {
			// recv.field.Reset(): the object behind the field is mutated (the stopwatch of the rate limiter statistics)
			if call, ok := n.(*ast.CallExpr); ok {
				if outer, ok := call.Fun.(*ast.SelectorExpr); ok && mutatingMethods[outer.Sel.Name] {
					if inner, ok := outer.X.(*ast.SelectorExpr); ok {
						if id, ok := inner.X.(*ast.Ident); ok && id.Name == recv {
							if fi, ok := fields[inner.Sel.Name]; ok && inner.Sel.Name != mutex {
								fi.Accesses = append(fi.Accesses, access{Func: fn, Write: true, Locked: locked, Pos: fset.Position(inner.Pos()).String()})
							}
						}
					}
				}
				return true
			}
			sel, ok := n.(*ast.SelectorExpr)
			if !ok {
				return true
			}
			id, ok := sel.X.(*ast.Ident)
			if !ok || id.Name != recv {
				return true
			}
			if fi, ok := fields[sel.Sel.Name]; ok && sel.Sel.Name != mutex {
				fi.Accesses = append(fi.Accesses, access{Func: fn, Write: write, Locked: locked, Pos: fset.Position(sel.Pos()).String()})
			} else if extMethods[sel.Sel.Name] && mutex != "" {
				// a call of a method that requires the lock: counts as a write to the guarded state
				fields["<lock-requiring call>"].Accesses = append(fields["<lock-requiring call>"].Accesses,
					access{Func: fn, Write: true, Locked: locked, Pos: fset.Position(sel.Pos()).String()})
			}
			return true
		})
	}
	var walk func(s ast.Stmt)
	walkBlock := func(b *ast.BlockStmt) {
		if b == nil {
			return
		}
		for _, s := range b.List {
			walk(s)
		}
	}
	walk = func(s ast.Stmt) {
		switch st := s.(type) {
		case *ast.ExprStmt:
			if mutex != "" && isMutexCall(st.X, "Lock") {
				locked = true
				return
			}
			if mutex != "" && isMutexCall(st.X, "Unlock") {
				locked = external
				return
			}
			record(st.X, false)
		case *ast.DeferStmt:
			if mutex != "" && isMutexCall(st.Call, "Unlock") {
				return // held until the function returns
			}
			record(st.Call, false)
		case *ast.AssignStmt:
			for _, l := range st.Lhs {
				// a write to recv.f (or through it: *recv.f = ..., recv.f.x = ...)
				record(l, true)
			}
			for _, r := range st.Rhs {
				record(r, false)
			}
		case *ast.IncDecStmt:
			record(st.X, true)
		case *ast.ReturnStmt:
			for _, r := range st.Results {
				record(r, false)
			}
		case *ast.IfStmt:
			if st.Init != nil {
				walk(st.Init)
			}
			record(st.Cond, false)
			walkBlock(st.Body)
			if st.Else != nil {
				walk(st.Else)
			}
		case *ast.BlockStmt:
			walkBlock(st)
		case *ast.ForStmt:
			if st.Init != nil {
				walk(st.Init)
			}
			if st.Cond != nil {
				record(st.Cond, false)
			}
			walkBlock(st.Body)
		case *ast.RangeStmt:
			record(st.X, false)
			walkBlock(st.Body)
		case *ast.SwitchStmt:
			if st.Tag != nil {
				record(st.Tag, false)
			}
			walkBlock(st.Body)
		case *ast.CaseClause:
			for _, e := range st.List {
				record(e, false)
			}
			for _, x := range st.Body {
				walk(x)
			}
		case *ast.SelectStmt:
			walkBlock(st.Body)
		case *ast.CommClause:
			if st.Comm != nil {
				walk(st.Comm)
			}
			for _, x := range st.Body {
				walk(x)
			}
		case *ast.SendStmt:
			record(st.Chan, false)
			record(st.Value, false)
		case *ast.GoStmt:
			record(st.Call, false)
		case *ast.DeclStmt:
			ast.Inspect(st, func(n ast.Node) bool {
				if e, ok := n.(ast.Expr); ok {
					record(e, false)
					return false
				}
				return true
			})
		case *ast.LabeledStmt:
			walk(st.Stmt)
		}
	}
	walkBlock(body)
}
