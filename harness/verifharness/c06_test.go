//go:build verif

package verifharness

import (
	"sync/atomic"
	"context"
	"errors"
	"fmt"
	"strings"
	"testing"
	"testing/synctest"
	"time"

	"github.com/failsafe-go/failsafe-go"
	"github.com/failsafe-go/failsafe-go/bulkhead"
	"github.com/failsafe-go/failsafe-go/hedgepolicy"
	"github.com/failsafe-go/failsafe-go/fallback"
	"github.com/failsafe-go/failsafe-go/retrypolicy"
	"github.com/failsafe-go/failsafe-go/timeout"
)

// ---- C06: executions and standalone callers sharing one bulkhead, on a scripted schedule ----

type kStep struct {
	K  string // Enter Finish CancelCtx Tick TryAcquire Release
	I  int
	Dt int64
}

func (s kStep) Gallina() string {
	switch s.K {
	case "Enter":
		return fmt.Sprintf("KEnter %d%%nat", s.I)
	case "Finish":
		return fmt.Sprintf("KFinish %d%%nat", s.I)
	case "CancelCtx":
		return fmt.Sprintf("KCancelCtx %d%%nat", s.I)
	case "Tick":
		return fmt.Sprintf("KTick %d", s.Dt)
	case "TryAcquire":
		return "KTryAcquire"
	default:
		return "KRelease"
	}
}

func runBulkheadSchedule(t *testing.T, cap int, maxWait int64, n, nsteps int, variant []string, rng *Rng) (steps []kStep, snaps []string, start int64, free int, maxHold int, fullSeen int) {
	synctest.Test(t, func(t *testing.T) {
		t0 := time.Now()
		start = t0.UnixNano()
		bh := bulkhead.Builder[int](uint(cap)).WithMaxWaitTime(time.Duration(maxWait)).OnFull(func(failsafe.ExecutionEvent[int]) { fullSeen++ }).Build()
		status := make([]int, n) // 0 idle 1 waiting 2 holding 3 released 4 refused 5 cancelled
		gates := make([]chan bool, n)
		ctxs := make([]context.Context, n)
		cancels := make([]context.CancelFunc, n)
		for i := range gates {
			gates[i] = make(chan bool)
			if i%2 == 1 {
				// every other context carries a cause of the caller's own: a turned-away execution still reports context.Canceled
				var cc context.CancelCauseFunc
				ctxs[i], cc = context.WithCancelCause(context.Background())
				cancels[i] = func() { cc(errCallerCause) }
			} else {
				ctxs[i], cancels[i] = context.WithCancel(context.Background())
			}
		}
		ext := 0
		run := func(i int) {
			ran := false
			fn := func() (int, error) {
				ran = true
				status[i] = 2
				if ok := <-gates[i]; ok {
					return 0, nil
				}
				return 0, sent(0).Build()
			}
			var pols []failsafe.Policy[int]
			switch variant[i] {
			case "fallback":
				pols = []failsafe.Policy[int]{fallback.BuilderWithFunc[int](func(e failsafe.Execution[int]) (int, error) { return 0, e.LastError() }).Build(), bh}
			case "timeout":
				pols = []failsafe.Policy[int]{timeout.With[int](1000 * time.Hour), bh}
			case "retry0":
				pols = []failsafe.Policy[int]{retrypolicy.Builder[int]().WithMaxRetries(0).ReturnLastFailure().Build(), bh}
			default:
				pols = []failsafe.Policy[int]{bh}
			}
			var err error
			if variant[i] == "async" {
				_, err = failsafe.NewExecutor[int](pols...).WithContext(ctxs[i]).GetAsync(fn).Get()
			} else {
				_, err = failsafe.NewExecutor[int](pols...).WithContext(ctxs[i]).Get(fn)
			}
			switch {
			case ran:
				status[i] = 3
			case errors.Is(err, bulkhead.ErrFull):
				status[i] = 4
			case errors.Is(err, context.Canceled):
				status[i] = 5
			default:
				status[i] = 6 // turned away with anything else: no such status in the model
			}
		}
		for len(steps) < nsteps {
			var idle, waiting, holding []int
			for i := 0; i < n; i++ {
				switch status[i] {
				case 0:
					idle = append(idle, i)
				case 1:
					waiting = append(waiting, i)
				case 2:
					holding = append(holding, i)
				}
			}
			if len(holding) > maxHold {
				maxHold = len(holding)
			}
			var s kStep
			aux := 0
			switch c := rng.Intn(24); {
			case c < 8 && len(idle) > 0:
				s = kStep{K: "Enter", I: Pick(rng, idle)}
			case c < 14 && len(holding) > 0:
				s = kStep{K: "Finish", I: Pick(rng, holding)}
			case c < 16 && len(waiting) > 0:
				s = kStep{K: "CancelCtx", I: Pick(rng, waiting)}
			case c < 17 && len(holding) > 0:
				s = kStep{K: "CancelCtx", I: Pick(rng, holding)} // cancelled while holding: still releases when it finishes
			case c < 20:
				mwAbs := maxWait
				if mwAbs < 0 {
					mwAbs = -mwAbs
				}
				s = kStep{K: "Tick", Dt: Pick(rng, []int64{1, mwAbs - 1, mwAbs, mwAbs + 1, 1 + rng.I64n(mwAbs+2), mwAbs / 2})}
				if s.Dt < 0 {
					s.Dt = 0
				}
			case c < 22:
				s = kStep{K: "TryAcquire"}
			case c < 23 && ext > 0:
				s = kStep{K: "Release"}
			default:
				if len(idle) == 0 && len(holding) == 0 && len(waiting) == 0 {
					goto done
				}
				continue
			}
			switch s.K {
			case "Enter":
				status[s.I] = 1
				go run(s.I)
			case "Finish":
				gates[s.I] <- rng.Bool()
			case "CancelCtx":
				cancels[s.I]()
			case "Tick":
				time.Sleep(time.Duration(s.Dt))
			case "TryAcquire":
				if bh.TryAcquirePermit() {
					aux = 1
					ext++
				}
			default:
				bh.ReleasePermit()
				ext--
			}
			synctest.Wait()
			steps = append(steps, s)
			st := make([]string, n)
			for i := 0; i < n; i++ {
				st[i] = fmt.Sprint(status[i])
			}
			snaps = append(snaps, fmt.Sprintf("{| sn_threads := %s; sn_aux := %d |}", gList(st), aux))
		}
	done:
		// probe: how many permits are free right now
		for bh.TryAcquirePermit() {
			free++
		}
		for i := 0; i < free; i++ {
			bh.ReleasePermit()
		}
		// wind down: first everybody who is still waiting is cancelled (a waiter must not be handed a permit by a holder that is
		// let go below and then sit at its gate for ever), then the holders are let go, until nobody holds a permit any more
		for i := 0; i < n; i++ {
			if status[i] == 1 {
				cancels[i]()
			}
		}
		synctest.Wait()
		for again := true; again; {
			again = false
			for i := 0; i < n; i++ {
				if status[i] == 2 {
					gates[i] <- true
					again = true
				}
			}
			synctest.Wait()
		}
		for i := 0; i < n; i++ {
			cancels[i]()
		}
		synctest.Wait()
	})
	return
}

func TestDrive_C06(t *testing.T) {
	w := NewCaseWriter(t, "C06", "FS.Corr.C06")
	w.shardCap = envInt("VERIF_SHARD", 100)
	rng := NewRng(envSeed())
	n := 400
	if envTier() == "thorough" {
		n = 10000
	}
	for it := 0; it < n; it++ {
		cap := rng.Intn(5)
		maxWait := Pick(rng, []int64{0, 0, 1, 5_000_000, 60_000_000_000, -1, -5_000_000}) // (a negative wait has already elapsed: no waiting)
		nth := 1 + rng.Intn(10)
		variant := make([]string, nth)
		for i := range variant {
			variant[i] = Pick(rng, []string{"plain", "plain", "fallback", "timeout", "retry0", "async"})
			w.Stat("variant=" + variant[i])
		}
		steps, snaps, start, free, maxHold, _ := runBulkheadSchedule(t, cap, maxWait, nth, 8+rng.Intn(45), variant, rng)
		ss := make([]string, len(steps))
		waited := false
		for i, s := range steps {
			ss[i] = s.Gallina()
			w.Stat("step=" + s.K)
			if strings.Contains(snaps[i], "1") && strings.Contains(snaps[i][:strings.Index(snaps[i], "sn_aux")], "1") {
				waited = true
			}
		}
		w.Stat("max_holding=" + bucket(maxHold))
		sl, ol := gList(ss), gList(snaps)
		w.Add(func(id int) string {
			return fmt.Sprintf("mk_case %d %d %s %d%%nat %d\n  %s\n  %s %d", id, cap, gZ(maxWait), nth, start, sl, ol, free)
		}, map[string]any{"max_concurrency": cap, "max_wait_ns": maxWait, "executions": nth, "variants": variant, "schedule": strings.Join(ss, "; "),
			"status_after_each_step": strings.Join(snaps, "; "), "free_permits_at_the_end": free}, maxHold >= 1 && waited, fmt.Sprint(cap, maxWait, sl))
	}
	// balance probes: executions arriving with an already cancelled context (either outcome of the first select is legal)
	for cap := 1; cap <= 3; cap++ {
		for _, mw := range []int64{0, 5_000_000} {
			free := 0
			ran, refused := 0, 0
			synctest.Test(t, func(t *testing.T) {
				bh := bulkhead.Builder[int](uint(cap)).WithMaxWaitTime(time.Duration(mw)).Build()
				for i := 0; i < 80; i++ {
					ctx, cancel := context.WithCancel(context.Background())
					cancel()
					pols := []failsafe.Policy[int]{bh}
					if i%3 == 1 {
						pols = []failsafe.Policy[int]{retrypolicy.Builder[int]().WithMaxRetries(1).Build(), bh}
					}
					var err error
					if i%2 == 0 {
						_, err = failsafe.NewExecutor[int](pols...).WithContext(ctx).Get(func() (int, error) { ran++; return 0, nil })
					} else {
						_, err = failsafe.NewExecutor[int](pols...).WithContext(ctx).GetAsync(func() (int, error) { ran++; return 0, nil }).Get()
					}
					if err != nil {
						refused++
					}
				}
				synctest.Wait()
				for bh.TryAcquirePermit() {
					free++
				}
			})
			c, f := cap, free
			w.Add(func(id int) string { return fmt.Sprintf("mk_case %d %d %d 0%%nat 0 [] [] %d", id, c, mw, f) },
				map[string]any{"probe": "80 executions with an already cancelled context", "max_concurrency": cap, "function_ran": ran, "failed": refused, "free_permits_at_the_end": free},
				true, fmt.Sprint("balance", cap, mw))
			w.Stat("balance_probe")
		}
	}
	// balance probes through compositions in which several attempts of one execution hold permits at once (a hedge policy
	// around the bulkhead), a bulkhead sits around another bulkhead that is full, or the function itself returns ErrFull
	for cap := 2; cap <= 4; cap++ {
		for _, kind := range []string{"hedge-around", "nested-full", "fn-returns-ErrFull", "hedge-around-retry"} {
			free := 0
			cap, kind := cap, kind
			synctest.Test(t, func(t *testing.T) {
				bh := bulkhead.Builder[int](uint(cap)).Build()
				inner := bulkhead.Builder[int](1).Build()
				inner.TryAcquirePermit() // the inner bulkhead is full for good
				var inFlight, maxInFlight atomic.Int32
				for i := 0; i < 12; i++ {
					var pols []failsafe.Policy[int]
					n := 0
					fn := func() (int, error) {
						// every invocation of the function through the bulkhead holds a permit: never more than cap of them at once
						if kind != "nested-full" {
							if c := inFlight.Add(1); c > maxInFlight.Load() {
								maxInFlight.Store(c)
							}
							defer inFlight.Add(-1)
						}
						n++
						k := n
						if kind == "fn-returns-ErrFull" {
							return 0, bulkhead.ErrFull
						}
						if k == 1 {
							time.Sleep(50 * time.Millisecond) // slow first attempt: the hedge starts while it holds its permit
						} else {
							time.Sleep(time.Duration(5*(i%4)) * time.Millisecond)
						}
						if i%3 == 0 {
							return 0, errors.New("failed")
						}
						return k, nil
					}
					switch kind {
					case "hedge-around":
						pols = []failsafe.Policy[int]{hedgepolicy.BuilderWithDelay[int](10 * time.Millisecond).WithMaxHedges(1 + i%2).Build(), bh}
					case "hedge-around-retry":
						pols = []failsafe.Policy[int]{hedgepolicy.BuilderWithDelay[int](10 * time.Millisecond).WithMaxHedges(1).Build(),
							retrypolicy.Builder[int]().WithMaxRetries(1).Build(), bh}
					case "nested-full":
						pols = []failsafe.Policy[int]{bh, inner}
					default:
						pols = []failsafe.Policy[int]{bh}
					}
					if i%2 == 0 {
						failsafe.NewExecutor[int](pols...).Get(fn)
					} else {
						failsafe.NewExecutor[int](pols...).GetAsync(fn).Get()
					}
				}
				time.Sleep(time.Hour) // every attempt, also those that lost a hedge, has finished
				synctest.Wait()
				for bh.TryAcquirePermit() {
					free++
				}
				if int(maxInFlight.Load()) > cap {
					free = -int(maxInFlight.Load()) // more invocations in progress than permits exist: reported as an impossible count
				}
				// a bulkhead whose permits are all held refuses every attempt of a hedged execution: the function never runs
				if kind == "hedge-around" || kind == "hedge-around-retry" {
					ran := 0
					_, err := failsafe.NewExecutor[int](hedgepolicy.BuilderWithDelay[int](10*time.Millisecond).WithMaxHedges(2).Build(), bh).
						Get(func() (int, error) { ran++; time.Sleep(50 * time.Millisecond); return 1, nil })
					time.Sleep(time.Hour)
					synctest.Wait()
					if ran != 0 || !errors.Is(err, bulkhead.ErrFull) {
						free = -100 - ran
					}
				}
			})
			f := free
			w.Add(func(id int) string { return fmt.Sprintf("mk_case %d %d 0 0%%nat 0 [] [] %s", id, cap, gZ(int64(f))) },
				map[string]any{"probe": "12 executions through " + kind, "max_concurrency": cap, "free_permits_at_the_end": free},
				true, fmt.Sprint("balance2", cap, kind))
			w.Stat("balance_probe=" + kind)
		}
	}
	w.Close("schedules of 8-52 atomic steps over 1-10 executions (plain, under Fallback/Timeout/Retry, async) and standalone callers sharing one bulkhead (maxConcurrency 0-4, max wait 0 / 1ns / 5ms / 1min / negative; every other context cancelled with a cause of the caller's own) in a virtual-time bubble: an execution reaches the bulkhead, an admitted execution's function finishes (success or failure), an execution's context is cancelled (while waiting or while holding), the clock advances (1ns, wait-1, wait, wait+1, random), standalone TryAcquirePermit / ReleasePermit. After every step the status of every execution (idle / waiting / holding / released / refused with ErrFull / cancelled with the context error); at the end the number of free permits is probed. Balance probes: executions arriving with a cancelled context; a hedge policy around the bulkhead (several attempts of one execution hold permits at once), around retry+bulkhead, a bulkhead around a full bulkhead, a function returning ErrFull itself: afterwards every permit must be free. Non-trivial = some execution held a permit and some execution waited; distinct by (configuration, schedule).", nil)
	driveC06Probes(t)
	driveSlowOnFullProbes(t)
}
