//go:build verif

package verifharness

import (
	"fmt"
	"strings"
	"sync"
	"time"

	"github.com/failsafe-go/failsafe-go"
)

// ---- sequential executions through policy stacks (Coq: Model/Exec.v) ----

type PolD struct {
	K string // Retry Breaker Limiter Bulkhead Timeout Fallback Cache Hedge
	// Retry
	Handle, Abort []CallD
	MaxRetries    int64
	MaxAttempts   bool // configure through WithMaxAttempts(MaxRetries+1) (or -1)
	MaxDuration   int64
	ReturnLast    bool
	Delay         int64
	// Breaker / Limiter / Bulkhead / Cache
	Inst    int
	MaxWait int64
	// Timeout
	Limit int64
	// Fallback
	FBKind string // Result Error Echo WrapErr
	FBR    int64
	FBE    *ErrD
	// Retry, harness only: another bound is set on the same builder BEFORE the one that counts ("unlimited": WithMaxRetries(-1),
	// "attempts": WithMaxAttempts(9), "retries": WithMaxRetries(7)); the later call must replace it whichever setter it uses
	PreMax string
	// Retry: how long the policy's own OnFailure listener takes (it does not watch for the cancellation)
	LsnDur int64
	// how long the fallback's own OnFailure listener and the fallback function take (neither watches for the cancellation);
	// FBDur applies to the function kinds (Echo, WrapErr)
	FBLsnDur, FBDur int64
	// Cache
	Key     int64
	CacheIf []PredD
	// Hedge (innermost policy only): max hedges, fixed delay, cancel conditions
	Hedges int
	HDelay int64
	Cancel []CallD
}

func (p PolD) Gallina() string {
	switch p.K {
	case "Retry":
		return fmt.Sprintf("PRetry {| r_fpol := build_fpolicy %s; r_abort := build_abort %s; r_max_retries := %s; r_max_duration := %d; r_return_last := %s; r_delay := %d; r_lsn_dur := %s |}",
			callsGallina(p.Handle, false), callsGallina(p.Abort, true), gZ(p.MaxRetries), p.MaxDuration, gBool(p.ReturnLast), p.Delay, gZ(p.LsnDur))
	case "Breaker":
		return fmt.Sprintf("PBreaker %d%%nat", p.Inst)
	case "Limiter":
		return fmt.Sprintf("PLimiter %d%%nat %s", p.Inst, gZ(p.MaxWait))
	case "Bulkhead":
		return fmt.Sprintf("PBulkhead %d%%nat %d", p.Inst, p.MaxWait)
	case "Timeout":
		return fmt.Sprintf("PTimeout %s", gZ(p.Limit))
	case "Hedge":
		return fmt.Sprintf("PHedge {| hg_max := %d%%nat; hg_delay := %d; hg_cancel := build_hedge_cancel %s |}", p.Hedges, p.HDelay, callsGallina(p.Cancel, true))
	case "Fallback":
		k := ""
		switch p.FBKind {
		case "Result":
			k = fmt.Sprintf("(FBResult %s)", gZ(p.FBR))
		case "Error":
			k = "(FBError " + p.FBE.Gallina() + ")"
		case "Echo":
			k = fmt.Sprintf("(FBEcho %s)", gZ(p.FBR))
		default:
			k = "FBWrapErr"
		}
		return fmt.Sprintf("PFallback {| fb_fpol := build_fpolicy %s; fb_kind_of := %s; fb_lsn_dur := %s; fb_dur := %s |}", callsGallina(p.Handle, false), k, gZ(p.FBLsnDur), gZ(p.FBDur))
	default:
		cs := make([]string, len(p.CacheIf))
		for i, q := range p.CacheIf {
			cs[i] = "CIf " + q.Gallina()
		}
		return fmt.Sprintf("PCache %d%%nat {| ca_key := %d; ca_conds := %s |}", p.Inst, p.Key, gList(cs))
	}
}

type FnStepD struct {
	Out  OutD
	Dur  int64
	Coop *OutD
	Lag  int64 // a cooperative step returns this long after its execution was cancelled
}

func (s FnStepD) Gallina() string {
	co := "None"
	if s.Coop != nil {
		co = "(Some " + s.Coop.Gallina() + ")"
	}
	return fmt.Sprintf("{| fs_out := %s; fs_dur := %d; fs_coop := %s; fs_lag := %d |}", s.Out.Gallina(), s.Dur, co, s.Lag)
}

type ReqD struct {
	Stack    []PolD
	Script   []FnStepD
	Gap      int64  // virtual time between the previous execution's end and this one's start
	ExtT     int64  // external cancellation: offset from the start (0 = none)
	ExtKind  string // Cancel Deadline
	CtxKey   int64  // -1 none, -2 non-string value, >= 0 string key id
	Entry    string // Get GetWithExecution Run RunWithExecution GetAsync GetWithExecutionAsync RunAsync RunWithExecutionAsync
	NoLsn    [3]bool // executor listeners left unregistered: OnSuccess, OnFailure, OnDone
	SameExec bool    // run on the previous request's executor (same stack and listeners), without a context of its own
	// harness only (the model knows nothing of it, which is the point): at VisT after the start, while this execution sits in a
	// retry delay, ANOTHER execution goes through the very same policy objects (same executor), takes no virtual time and
	// returns VisOut.  What a policy remembers of an execution belongs to that execution alone: this one must be unaffected.
	VisT   int64
	VisOut OutD
	BNoLsn   int     // breaker state-change listeners left unregistered on the history's breakers (bits: OnClose OnOpen OnHalfOpen OnStateChanged); equals InstD.BNoLsn
}

func (r ReqD) withExec() bool { return strings.Contains(r.Entry, "WithExecution") }

func (r ReqD) Gallina() string {
	ps := make([]string, len(r.Stack))
	for i, p := range r.Stack {
		ps[i] = p.Gallina()
	}
	ss := make([]string, len(r.Script))
	for i, s := range r.Script {
		ss[i] = s.Gallina()
	}
	ext := "None"
	if r.ExtKind == "PreCancel" {
		ext = "(Some (0, ECtxCanceled))" // the caller's context is already cancelled when the execution starts
	} else if r.ExtKind == "PreDeadline" {
		ext = "(Some (0, ECtxDeadline))"
	} else if r.ExtT > 0 {
		e := "ECtxCanceled"
		if r.ExtKind == "Deadline" {
			e = "ECtxDeadline"
		} else if r.ExtKind == "AsyncCancel" {
			e = "EExecCanceled"
		}
		ext = fmt.Sprintf("(Some (%d, %s))", r.ExtT, e)
	}
	key := "CKNone"
	if r.CtxKey == -2 {
		key = "CKOther"
	} else if r.CtxKey >= 0 {
		key = fmt.Sprintf("(CKStr %d)", r.CtxKey)
	}
	return fmt.Sprintf("{| q_stack := %s; q_script := %s; q_gap := %d; q_ext := %s; q_key := %s; q_withexec := %s; q_run := %s; q_lsn := (%s, %s, %s); q_blsn := %d |}",
		gList(ps), gList(ss), r.Gap, ext, key, gBool(r.withExec()), gBool(strings.HasPrefix(r.Entry, "Run")),
		gBool(!r.NoLsn[0]), gBool(!r.NoLsn[1]), gBool(!r.NoLsn[2]), 15&^r.BNoLsn)
}

type InstD struct {
	Breakers  [][]BCallD
	Limiters  []LimCfg
	Bulkheads [][3]int64 // capacity, permits held through the standalone API, max wait time
	Caches    [][][2]int64
	BNoLsn    int // breaker state-change listeners left unregistered on every breaker (see ReqD.BNoLsn)
}

func (d InstD) Gallina() string {
	bs := make([]string, len(d.Breakers))
	for i, calls := range d.Breakers {
		cs := make([]string, len(calls))
		for j, c := range calls {
			cs[j] = c.Gallina()
		}
		bs[i] = gList(cs)
	}
	ls := make([]string, len(d.Limiters))
	for i, l := range d.Limiters {
		ls[i] = l.Gallina()
	}
	ks := make([]string, len(d.Bulkheads))
	for i, k := range d.Bulkheads {
		ks[i] = fmt.Sprintf("(%d, %d)", k[0], k[1])
	}
	cs := make([]string, len(d.Caches))
	for i, c := range d.Caches {
		es := make([]string, len(c))
		for j, e := range c {
			es[j] = fmt.Sprintf("(%d, %s)", e[0], gZ(e[1]))
		}
		cs[i] = gList(es)
	}
	return fmt.Sprintf("{| i_breakers := %s; i_limiters := %s; i_bulkheads := %s; i_caches := %s |}", gList(bs), gList(ls), gList(ks), gList(cs))
}

type mapCache struct {
	m    map[string]int
	gets int
	sets int
}

func (c *mapCache) Get(key string) (int, bool) { c.gets++; v, ok := c.m[key]; return v, ok }
func (c *mapCache) Set(key string, v int)      { c.sets++; c.m[key] = v }

func keyName(k int64) string {
	if k == 0 {
		return ""
	}
	return fmt.Sprintf("k%d", k)
}

type execLog struct {
	mu     sync.Mutex // hedge attempts log from their own goroutines
	t0     time.Time
	base   int64
	events []string
	counts map[string]int
}

func (l *execLog) now() int64 { return l.base + int64(time.Since(l.t0)) }

func (l *execLog) add(kind string, pos int, attempts, retries, hedges, executions int, out string, aux int64) {
	l.addT(kind, pos, attempts, retries, hedges, executions, out, aux, 0, -1)
}

// abs converts an instant of the bubble's clock to the absolute nanoseconds used in the logs (0 stays 0: unknown).
func (l *execLog) abs(t time.Time) int64 {
	if t.IsZero() {
		return 0
	}
	return l.base + int64(t.Sub(l.t0))
}

// addT also records the execution's StartTime and the AttemptStartTime the observer could read (-1: the event carries none).
func (l *execLog) addT(kind string, pos int, attempts, retries, hedges, executions int, out string, aux int64, start, astart int64) {
	l.mu.Lock()
	defer l.mu.Unlock()
	l.events = append(l.events, fmt.Sprintf("{| e_kind := K%s; e_pos := %d%%nat; e_attempts := %d; e_retries := %d; e_hedges := %d; e_executions := %d; e_out := %s; e_aux := %d; e_time := %d; e_start := %d; e_astart := %s |}",
		kind, pos, attempts, retries, hedges, executions, out, aux, l.now(), start, gZ(astart)))
	l.counts[kind]++
	if len(l.events) > 5000 {
		panic("verifharness: runaway execution (more than 5000 events)")
	}
}

// attemptsSeen is Attempts() as the observer reads it -- negated when IsFirstAttempt / IsRetry, read by the same observer,
// disagree with it (documented: first attempt = Attempts is 1, retry = Attempts > 1), so that the disagreement shows in
// the comparison with the model and in the counter checker.
func attemptsSeen(e failsafe.ExecutionAttempt[int]) int {
	att := e.Attempts()
	first, retry := e.IsFirstAttempt(), e.IsRetry()
	if e.Attempts() == att && (first != (att == 1) || retry != (att > 1)) { // the counter is shared: only judge a stable reading
		return -att
	}
	return att
}

func (l *execLog) attempt(kind string, pos int, e failsafe.ExecutionAttempt[int], aux int64) {
	l.addT(kind, pos, attemptsSeen(e), e.Retries(), e.Hedges(), e.Executions(), gOutcome(e.LastResult(), e.LastError()), aux, l.abs(e.StartTime()), l.abs(e.AttemptStartTime()))
}

func (l *execLog) done(kind string, pos int, e failsafe.ExecutionDoneEvent[int]) {
	l.addT(kind, pos, e.Attempts(), e.Retries(), e.Hedges(), e.Executions(), gOutcome(e.Result, e.Error), 0, l.abs(e.StartTime()), -1)
}

