//go:build verif

package verifharness

import (
	"errors"
	"fmt"
)

// ---- predicates (Coq: pred) ----

type PredD struct {
	K   string // Always Never ResEq ResGe HasErr ErrIs Not And Or
	Z   int64
	E   *ErrD
	Sub []PredD
}

func (p PredD) Gallina() string {
	switch p.K {
	case "Always", "Never", "HasErr":
		return "P" + p.K
	case "ResEq", "ResGe":
		return fmt.Sprintf("(P%s %s)", p.K, gZ(p.Z))
	case "ErrIs":
		return "(PErrIs " + p.E.Gallina() + ")"
	case "Not":
		return "(PNot " + p.Sub[0].Gallina() + ")"
	default:
		return "(P" + p.K + " " + p.Sub[0].Gallina() + " " + p.Sub[1].Gallina() + ")"
	}
}

func (p PredD) Eval(r int, err error) bool {
	switch p.K {
	case "Always":
		return true
	case "Never":
		return false
	case "ResEq":
		return int64(r) == p.Z
	case "ResGe":
		return p.Z <= int64(r)
	case "HasErr":
		return err != nil
	case "ErrIs":
		return err != nil && errors.Is(err, p.E.Build())
	case "Not":
		return !p.Sub[0].Eval(r, err)
	case "And":
		return p.Sub[0].Eval(r, err) && p.Sub[1].Eval(r, err)
	default:
		return p.Sub[0].Eval(r, err) || p.Sub[1].Eval(r, err)
	}
}

func (p PredD) Func() func(int, error) bool {
	return func(r int, err error) bool { return p.Eval(r, err) }
}

func randPred(r *Rng, depth int) PredD {
	if depth <= 0 || r.Chance(55) {
		switch r.Intn(6) {
		case 0:
			return PredD{K: "Always"}
		case 1:
			return PredD{K: "Never"}
		case 2:
			return PredD{K: "ResEq", Z: int64(r.Intn(4))}
		case 3:
			return PredD{K: "ResGe", Z: int64(r.Intn(4))}
		case 4:
			return PredD{K: "HasErr"}
		default:
			a := randAtom(r)
			return PredD{K: "ErrIs", E: &a}
		}
	}
	switch r.Intn(3) {
	case 0:
		return PredD{K: "Not", Sub: []PredD{randPred(r, depth-1)}}
	case 1:
		return PredD{K: "And", Sub: []PredD{randPred(r, depth-1), randPred(r, depth-1)}}
	default:
		return PredD{K: "Or", Sub: []PredD{randPred(r, depth-1), randPred(r, depth-1)}}
	}
}

// ---- type targets (Coq: tgt) ----

type TgtD struct {
	K  string // Err PtrRecvVal Iface
	E  *ErrD
	Ty int64
}

func (t TgtD) Gallina() string {
	switch t.K {
	case "Err":
		return "(TgtErr " + t.E.Gallina() + ")"
	case "PtrRecvVal":
		return fmt.Sprintf("(TgtPtrRecvVal %d)", t.Ty)
	default:
		return "TgtIface"
	}
}

func (t TgtD) Go() any {
	switch t.K {
	case "Err":
		return t.E.Build()
	case "PtrRecvVal":
		switch t.Ty {
		case 0:
			return PtrErr0{}
		case 1:
			return PtrErr1{}
		default:
			return PtrErr2{}
		}
	default:
		return new(error)
	}
}

func randTgt(r *Rng) TgtD {
	switch r.Intn(10) {
	case 0:
		return TgtD{K: "Iface"}
	case 1:
		return TgtD{K: "PtrRecvVal", Ty: int64(r.Intn(3))}
	case 2:
		e := wrap(sent(0))
		return TgtD{K: "Err", E: &e}
	case 3:
		e := ErrD{K: "Exceeded", A: 0}
		return TgtD{K: "Err", E: &e}
	default:
		a := randAtom(r)
		return TgtD{K: "Err", E: &a}
	}
}

// ---- handle / abort calls (Coq: hcall, acall) ----

type CallD struct {
	K    string // Errors ErrorTypes Result If
	Errs []ErrD
	Tgts []TgtD
	R    int64
	P    *PredD
}

func (c CallD) gallina(prefix string) string {
	switch c.K {
	case "Errors":
		xs := make([]string, len(c.Errs))
		for i, e := range c.Errs {
			xs[i] = e.Gallina()
		}
		return "(" + prefix + "Errors " + gList(xs) + ")"
	case "ErrorTypes":
		xs := make([]string, len(c.Tgts))
		for i, e := range c.Tgts {
			xs[i] = e.Gallina()
		}
		return "(" + prefix + "ErrorTypes " + gList(xs) + ")"
	case "Result":
		return "(" + prefix + "Result " + gZ(c.R) + ")"
	default:
		return "(" + map[string]string{"Handle": "HandleIf", "AbortOn": "AbortIf"}[prefix] + " " + c.P.Gallina() + ")"
	}
}

func (c CallD) HandleGallina() string { return c.gallina("Handle") }
func (c CallD) AbortGallina() string  { return c.gallina("AbortOn") }

func callsGallina(cs []CallD, abort bool) string {
	xs := make([]string, len(cs))
	for i, c := range cs {
		if abort {
			xs[i] = c.AbortGallina()
		} else {
			xs[i] = c.HandleGallina()
		}
	}
	return gList(xs)
}

func (c CallD) errs() []error {
	es := make([]error, len(c.Errs))
	for i, e := range c.Errs {
		es[i] = e.Build()
	}
	return es
}
func (c CallD) tgts() []any {
	es := make([]any, len(c.Tgts))
	for i, e := range c.Tgts {
		es[i] = e.Go()
	}
	return es
}

// A registration call owns nothing of its caller's: the slices spread into HandleErrors / HandleErrorTypes / AbortOn... /
// CancelOn... are overwritten right after the call (a caller re-using its slice), which must not change what was registered.
var clobberErr = errors.New("verifharness: overwritten after registration")

func clobberErrs(es []error) {
	for i := range es {
		es[i] = clobberErr
	}
}
func clobberAny(es []any) {
	for i := range es {
		es[i] = clobberErr
	}
}

// failureBuilder is the common shape of the FailurePolicyBuilder implementations.
type failureBuilder[S any] interface {
	HandleErrors(errs ...error) S
	HandleErrorTypes(errs ...any) S
	HandleResult(result int) S
	HandleIf(predicate func(int, error) bool) S
}

func applyHandle[S failureBuilder[S]](b S, calls []CallD) S {
	for _, c := range calls {
		switch c.K {
		case "Errors":
			es := c.errs()
			b = b.HandleErrors(es...)
			clobberErrs(es)
		case "ErrorTypes":
			ts := c.tgts()
			b = b.HandleErrorTypes(ts...)
			clobberAny(ts)
		case "Result":
			b = b.HandleResult(int(c.R))
		default:
			b = b.HandleIf(c.P.Func())
		}
	}
	return b
}

func randCall(r *Rng, kind string) CallD {
	switch kind {
	case "Errors":
		n := 1 + r.Intn(2)
		if r.Chance(12) {
			n = 0 // HandleErrors() with an empty list still is an error-handling registration
		}
		es := make([]ErrD, n)
		for i := range es {
			es[i] = randAtom(r)
			if r.Chance(15) {
				es[i] = wrap(sent(int64(r.Intn(2))))
			}
		}
		return CallD{K: kind, Errs: es}
	case "ErrorTypes":
		n := 1 + r.Intn(2)
		if r.Chance(12) {
			n = 0
		}
		ts := make([]TgtD, n)
		for i := range ts {
			ts[i] = randTgt(r)
		}
		return CallD{K: kind, Tgts: ts}
	case "Result":
		return CallD{K: kind, R: int64(r.Intn(4))}
	default:
		p := randPred(r, 2)
		return CallD{K: "If", P: &p}
	}
}

var callKinds = []string{"Errors", "ErrorTypes", "Result", "If"}
