//go:build verif

//go:debug asynctimerchan=0

// Package verifharness is injected into /repo's module with `go test -overlay`
// (see /verif/bin/check). It drives the real library on generated inputs and
// writes what it observed as Gallina literals for the Coq correspondence check.
package verifharness

import (
	"encoding/json"
	"fmt"
	"os"
	"path/filepath"
	"sort"
	"strconv"
	"strings"
	"testing"
)

// ---- deterministic PRNG (SplitMix64); every random choice derives from VERIF_SEED ----

type Rng struct{ s uint64 }

func NewRng(seed uint64) *Rng { return &Rng{s: seed*0x9E3779B97F4A7C15 + 0x1234567} }

func (r *Rng) U64() uint64 {
	r.s += 0x9E3779B97F4A7C15
	z := r.s
	z = (z ^ (z >> 30)) * 0xBF58476D1CE4E5B9
	z = (z ^ (z >> 27)) * 0x94D049BB133111EB
	return z ^ (z >> 31)
}
func (r *Rng) Intn(n int) int {
	if n <= 0 {
		return 0
	}
	return int(r.U64() % uint64(n))
}
func (r *Rng) I64n(n int64) int64 {
	if n <= 0 {
		return 0
	}
	return int64(r.U64() % uint64(n))
}
func (r *Rng) Bool() bool        { return r.U64()&1 == 1 }
func (r *Rng) Chance(p int) bool { return r.Intn(100) < p } // p percent
func (r *Rng) Fork() *Rng        { return &Rng{s: r.U64()} }
func Pick[T any](r *Rng, xs []T) T {
	return xs[r.Intn(len(xs))]
}

// ---- environment ----

func envSeed() uint64 {
	if s := os.Getenv("VERIF_SEED"); s != "" {
		if v, err := strconv.ParseUint(s, 10, 64); err == nil {
			return v
		}
		if v, err := strconv.ParseInt(s, 10, 64); err == nil {
			return uint64(v)
		}
	}
	return 1
}
func envTier() string {
	if t := os.Getenv("VERIF_TIER"); t == "thorough" {
		return "thorough"
	}
	return "quick"
}
func envInt(name string, def int) int {
	if s := os.Getenv(name); s != "" {
		if v, err := strconv.Atoi(s); err == nil {
			return v
		}
	}
	return def
}
func outDir(t *testing.T) string {
	d := os.Getenv("VERIF_OUT")
	if d == "" {
		t.Skip("VERIF_OUT not set (harness is driven by /verif/bin/check)")
	}
	if err := os.MkdirAll(d, 0o755); err != nil {
		t.Fatal(err)
	}
	return d
}

// ---- case file writer: shards of Gallina case literals plus a JSON side file ----

type CaseWriter struct {
	t        *testing.T
	dir      string
	prop     string // e.g. "C12"
	module   string // Coq module to import, e.g. "FS.Corr.C12"
	shardCap int
	cases    []string
	json     []any
	shard    int
	Total    int
	Stats    map[string]int
	distinct map[string]bool
	Samples  []any
	Extra    string // further Coq commands appended to every shard
	Header   string // further Coq commands placed before the case list
}

func NewCaseWriter(t *testing.T, prop, module string) *CaseWriter {
	return &CaseWriter{t: t, dir: outDir(t), prop: prop, module: module, shardCap: envInt("VERIF_SHARD", 400),
		Stats: map[string]int{}, distinct: map[string]bool{}}
}

// NewCaseWriterNamed writes a second family of case files for the same property (own Coq module, own file prefix).
func NewCaseWriterNamed(t *testing.T, name, module string) *CaseWriter { return NewCaseWriter(t, name, module) }

// Add appends one case. lit is the Gallina literal of the case (without id);
// mk is a function of the id producing the full literal. js is the replayable
// JSON description of the same case. nontrivial says whether the case satisfies
// the property's non-triviality rule; key identifies distinct cases.
func (w *CaseWriter) Add(mk func(id int) string, js any, nontrivial bool, key string) {
	id := w.Total
	w.cases = append(w.cases, mk(id))
	w.json = append(w.json, map[string]any{"id": id, "case": js})
	w.Total++
	if nontrivial {
		if !w.distinct[key] {
			w.distinct[key] = true
		}
	}
	if len(w.Samples) < 3 || (w.Total%997 == 0 && len(w.Samples) < 8) {
		w.Samples = append(w.Samples, js)
	}
	if len(w.cases) >= w.shardCap {
		w.flush()
	}
}

func (w *CaseWriter) Stat(name string) { w.Stats[name]++ }

func (w *CaseWriter) flush() {
	if len(w.cases) == 0 {
		return
	}
	name := fmt.Sprintf("cases_%s_%03d", w.prop, w.shard)
	var b strings.Builder
	fmt.Fprintf(&b, "From FS Require Import %s.\nOpen Scope Z_scope.\n", strings.TrimPrefix(w.module, "FS."))
	b.WriteString(w.Header)
	b.WriteString("Definition cases : list case := [\n")
	b.WriteString(strings.Join(w.cases, ";\n"))
	b.WriteString("\n].\n")
	b.WriteString("Definition M := Eval vm_compute in mismatches cases.\nPrint M.\n")
	b.WriteString("Definition V := Eval vm_compute in checker_failures cases.\nPrint V.\n")
	b.WriteString(w.Extra)
	if err := os.WriteFile(filepath.Join(w.dir, name+".v"), []byte(b.String()), 0o644); err != nil {
		w.t.Fatal(err)
	}
	jb, _ := json.Marshal(w.json)
	if err := os.WriteFile(filepath.Join(w.dir, name+".json"), jb, 0o644); err != nil {
		w.t.Fatal(err)
	}
	w.cases = nil
	w.json = nil
	w.shard++
}

func (w *CaseWriter) Close(rule string, extra map[string]any) {
	w.flush()
	keys := make([]string, 0, len(w.Stats))
	for k := range w.Stats {
		keys = append(keys, k)
	}
	sort.Strings(keys)
	dist := map[string]int{}
	for _, k := range keys {
		dist[k] = w.Stats[k]
	}
	sum := map[string]any{
		"property": w.prop, "evaluations": w.Total, "distinct_nontrivial": len(w.distinct),
		"rule": rule, "distribution": dist, "samples": w.Samples, "shards": w.shard,
		"seed": envSeed(), "tier": envTier(),
	}
	for k, v := range extra {
		sum[k] = v
	}
	jb, _ := json.MarshalIndent(sum, "", " ")
	if err := os.WriteFile(filepath.Join(w.dir, "summary_"+w.prop+".json"), jb, 0o644); err != nil {
		w.t.Fatal(err)
	}
}

// ---- Gallina printing helpers ----

func gZ(v int64) string {
	if v < 0 {
		return fmt.Sprintf("(%d)", v)
	}
	return fmt.Sprintf("%d", v)
}
func gNat(v int) string { return fmt.Sprintf("%d%%nat", v) }
func gBool(b bool) string {
	if b {
		return "true"
	}
	return "false"
}
func gList(xs []string) string { return "[" + strings.Join(xs, "; ") + "]" }
func gOpt(s string, some bool) string {
	if some {
		return "(Some " + s + ")"
	}
	return "None"
}
