//go:build verif

package verifharness

import (
	"context"
	"errors"
	"fmt"
	"sync"
	"testing"
	"testing/synctest"
	"time"

	"github.com/failsafe-go/failsafe-go"
	"github.com/failsafe-go/failsafe-go/bulkhead"
	"github.com/failsafe-go/failsafe-go/circuitbreaker"
	"github.com/failsafe-go/failsafe-go/fallback"
	"github.com/failsafe-go/failsafe-go/hedgepolicy"
	"github.com/failsafe-go/failsafe-go/ratelimiter"
	"github.com/failsafe-go/failsafe-go/retrypolicy"
	"github.com/failsafe-go/failsafe-go/timeout"
)

// Direct probes (Corr/Probe.v) of compositions Model/Exec.v does not cover -- a hedge policy AROUND other policies -- with
// oracles fixed by the properties themselves, under the virtual clock.

// C16 / C17: two hedge policies in one stack.  Every hedge that is started is announced by exactly one OnHedge event of the
// policy that started it, so the OnHedge events of both policies together are as many as ExecutionInfo.Hedges() says.
func driveNestedHedgeProbes(t *testing.T, name string) {
	w := NewCaseWriterNamed(t, name, "Corr.Probe")
	trials, bad, detail := 0, 0, ""
	for _, between := range []string{"", "retry", "fallback"} {
		for _, fnDur := range []time.Duration{40 * time.Millisecond, 18 * time.Millisecond, 70 * time.Millisecond} {
			trials++
			synctest.Test(t, func(t *testing.T) {
				var mu sync.Mutex
				outerEv, innerEv := 0, 0
				outer := hedgepolicy.BuilderWithDelay[int](10 * time.Millisecond).WithMaxHedges(1).
					OnHedge(func(failsafe.ExecutionEvent[int]) { mu.Lock(); outerEv++; mu.Unlock() }).Build()
				inner := hedgepolicy.BuilderWithDelay[int](25 * time.Millisecond).WithMaxHedges(1).
					OnHedge(func(failsafe.ExecutionEvent[int]) { mu.Lock(); innerEv++; mu.Unlock() }).Build()
				pols := []failsafe.Policy[int]{outer}
				switch between {
				case "retry":
					pols = append(pols, retrypolicy.Builder[int]().WithMaxRetries(0).Build())
				case "fallback":
					pols = append(pols, fallback.BuilderWithResult[int](9).HandleErrors(errors.New("an error nothing returns")).Build())
				}
				pols = append(pols, inner)
				hedges := -1
				ex := failsafe.NewExecutor[int](pols...).OnDone(func(e failsafe.ExecutionDoneEvent[int]) { hedges = e.Hedges() })
				ex.GetWithExecution(func(e failsafe.Execution[int]) (int, error) { time.Sleep(fnDur); return 1, nil })
				time.Sleep(time.Hour)
				synctest.Wait()
				mu.Lock()
				defer mu.Unlock()
				if outerEv+innerEv != hedges {
					bad++
					if detail == "" {
						detail = fmt.Sprintf("Hedge(%sHedge(fn)), fn takes %v: %d + %d OnHedge events but Hedges() = %d", between, fnDur, outerEv, innerEv, hedges)
					}
				}
			})
		}
	}
	addProbe(w, 20, "two hedge policies in one stack (nothing, a retry policy or a fallback between them): OnHedge events of both policies = Hedges() at completion", trials, bad, detail)
	w.Close("nested hedge policies under the virtual clock: the OnHedge events of the two policies together against ExecutionInfo.Hedges() as the completion listener reads it. Every case is non-trivial.", nil)
}

// C10: a fallback INSIDE a hedge policy, both hedged attempts fail and their failures overlap in time (the fallback's failure
// listener is slow for the first one): the fallback is applied once per failed attempt, and its function sees that very
// attempt's result and error.
func driveHedgedFallbackProbes(t *testing.T) {
	w := NewCaseWriterNamed(t, "C10p", "Corr.Probe")
	trials, bad, detail := 0, 0, ""
	errP, errH := errors.New("primary failed"), errors.New("hedge failed")
	for _, slow := range []time.Duration{0, 600 * time.Millisecond} {
		for _, hedgeDur := range []time.Duration{300 * time.Millisecond, 120 * time.Millisecond} {
			trials++
			synctest.Test(t, func(t *testing.T) {
				type seen struct {
					r   int
					err error
				}
				var mu sync.Mutex
				var applied []seen
				fb := fallback.BuilderWithFunc(func(e failsafe.Execution[int]) (int, error) {
					mu.Lock()
					defer mu.Unlock()
					applied = append(applied, seen{e.LastResult(), e.LastError()})
					return e.LastResult(), fmt.Errorf("unavailable: %w", e.LastError())
				}).OnFailure(func(e failsafe.ExecutionEvent[int]) {
					if errors.Is(e.LastError(), errP) {
						time.Sleep(slow)
					}
				}).Build()
				hp := hedgepolicy.BuilderWithDelay[int](50 * time.Millisecond).WithMaxHedges(1).CancelIf(func(_ int, err error) bool { return err == nil }).Build()
				failsafe.NewExecutor[int](hp, fb).GetWithExecution(func(e failsafe.Execution[int]) (int, error) {
					if e.IsHedge() {
						time.Sleep(hedgeDur)
						return 20, errH
					}
					time.Sleep(200 * time.Millisecond)
					return 10, errP
				})
				time.Sleep(time.Hour)
				synctest.Wait()
				mu.Lock()
				defer mu.Unlock()
				ok := len(applied) == 2
				for _, a := range applied {
					if !(a == seen{10, errP} || a == seen{20, errH}) {
						ok = false
					}
				}
				if ok && applied[0] == applied[1] {
					ok = false
				}
				if !ok {
					bad++
					if detail == "" {
						detail = fmt.Sprintf("listener takes %v, hedge fails after %v: the fallback function saw %v", slow, hedgeDur, applied)
					}
				}
			})
		}
	}
	addProbe(w, 21, "Hedge(Fallback(fn)), both attempts fail, overlapping: the fallback function is applied once per failure and sees that failure's LastResult / LastError", trials, bad, detail)
	w.Close("a fallback inside a hedge policy under the virtual clock, both hedged attempts failing with their own result and error while the fallback's failure listener is slow for one of them. Every case is non-trivial.", nil)
}

// C17: a hedge policy around a retry policy, the hedged branch is cancelled (the other branch won) while its retry policy is
// between two attempts -- in the retry delay, or in a slow OnRetry listener right before the next attempt: Executions counts
// the invocations of the function that completed, no more and no fewer, also when read after everything has settled.
func driveHedgedRetryCounterProbes(t *testing.T) {
	w := NewCaseWriterNamed(t, "C17h", "Corr.Probe")
	trials, bad, detail := 0, 0, ""
	for _, lsn := range []time.Duration{0, 30 * time.Millisecond} {
		for _, retryDelay := range []time.Duration{0, 5 * time.Millisecond, 60 * time.Millisecond} {
			for _, outerFallback := range []bool{false, true} {
				trials++
				synctest.Test(t, func(t *testing.T) {
					var mu sync.Mutex
					completed := 0
					var handle failsafe.Execution[int]
					rb := retrypolicy.Builder[int]().WithMaxRetries(2).WithDelay(retryDelay).
						OnRetry(func(e failsafe.ExecutionEvent[int]) {
							if e.IsHedge() {
								time.Sleep(lsn)
							}
						})
					pols := []failsafe.Policy[int]{hedgepolicy.BuilderWithDelay[int](10 * time.Millisecond).WithMaxHedges(1).Build(), rb.Build()}
					if outerFallback {
						pols = append([]failsafe.Policy[int]{fallback.BuilderWithResult[int](5).HandleErrors(errors.New("an error nothing returns")).Build()}, pols...)
					}
					doneExecs := -1
					ex := failsafe.NewExecutor[int](pols...).OnDone(func(e failsafe.ExecutionDoneEvent[int]) {
						mu.Lock()
						doneExecs = e.Executions() - completed // must be 0: read and compared at the same instant
						mu.Unlock()
					})
					ex.GetWithExecution(func(e failsafe.Execution[int]) (int, error) {
						mu.Lock()
						handle = e
						mu.Unlock()
						var r int
						var err error
						if e.IsHedge() {
							time.Sleep(time.Millisecond)
							err = errors.New("the hedged branch fails and is retried")
						} else {
							time.Sleep(40 * time.Millisecond)
							r = 1
						}
						mu.Lock()
						completed++
						mu.Unlock()
						return r, err
					})
					time.Sleep(time.Hour)
					synctest.Wait()
					mu.Lock()
					defer mu.Unlock()
					if doneExecs != 0 || handle.Executions() != completed {
						bad++
						if detail == "" {
							detail = fmt.Sprintf("OnRetry takes %v, retry delay %v, outer fallback %v: Executions - completed invocations = %d at completion; Executions = %d with %d invocations completed an hour later",
								lsn, retryDelay, outerFallback, doneExecs, handle.Executions(), completed)
						}
					}
				})
			}
		}
	}
	addProbe(w, 22, "Hedge(Retry(fn)), the hedged branch cancelled between two of its attempts: Executions = completed invocations at completion and after everything settled", trials, bad, detail)
	w.Close("a hedge policy around a retry policy under the virtual clock; the hedged branch fails, is retried and is cancelled (the other branch wins) during its retry delay or its OnRetry listener. Every case is non-trivial.", nil)
}

// C03 / C04: a delay function that takes time.  The breaker is open from the moment it opens -- which is after the delay
// function returned -- for the whole delay the function computed: RemainingDelay right after the failing execution returns is the
// full delay, the breaker still refuses one tick before the delay has elapsed and lets a trial through when it has.
func driveSlowDelayFuncProbes(t *testing.T, name string) {
	w := NewCaseWriterNamed(t, name, "Corr.Probe")
	trials, bad, detail := 0, 0, ""
	for _, took := range []time.Duration{0, 40 * time.Millisecond, 3 * time.Second} {
		for _, delay := range []time.Duration{100 * time.Millisecond, 5 * time.Second} {
			for _, from := range []string{"closed", "half-open"} {
				trials++
				synctest.Test(t, func(t *testing.T) {
					cb := circuitbreaker.Builder[int]().WithFailureThreshold(1).WithDelay(time.Hour).
						WithDelayFunc(func(failsafe.ExecutionAttempt[int]) time.Duration { time.Sleep(took); return delay }).Build()
					if from == "half-open" {
						cb.HalfOpen()
					}
					failsafe.NewExecutor[int](cb).Get(func() (int, error) { return 0, errors.New("failed") })
					ok := cb.IsOpen() && cb.RemainingDelay() == delay
					time.Sleep(delay - time.Nanosecond)
					if cb.TryAcquirePermit() {
						ok = false
					}
					time.Sleep(time.Nanosecond)
					if !cb.TryAcquirePermit() || !cb.IsHalfOpen() {
						ok = false
					}
					if !ok {
						bad++
						if detail == "" {
							detail = fmt.Sprintf("delay function takes %v and returns %v, breaker was %s: not open for exactly that delay from the moment it opened", took, delay, from)
						}
					}
				})
			}
		}
	}
	addProbe(w, 23, "a breaker opened by a failing execution whose delay function takes time: open for the full computed delay from the moment it opened", trials, bad, detail)
	w.Close("a circuit breaker with a delay function that itself takes (virtual) time, opened from the closed and from the half-open state by a failing execution; RemainingDelay, refusal one tick before the end of the delay, a trial at its end. Every case is non-trivial.", nil)
}

// C06: an OnFull listener that takes time, and a permit handed back while it runs.  The refused execution stays refused (it
// reports ErrFull and its function does not run), and nothing it does takes a permit: afterwards every permit is free.
func driveSlowOnFullProbes(t *testing.T) {
	w := NewCaseWriterNamed(t, "C06f", "Corr.Probe")
	trials, bad, detail := 0, 0, ""
	for _, cap := range []int{1, 2} {
		for _, async := range []bool{false, true} {
			for _, holderEnds := range []time.Duration{10 * time.Millisecond, 30 * time.Millisecond} {
				trials++
				synctest.Test(t, func(t *testing.T) {
					bh := bulkhead.Builder[int](uint(cap)).OnFull(func(failsafe.ExecutionEvent[int]) { time.Sleep(20 * time.Millisecond) }).Build()
					var wg sync.WaitGroup
					for i := 0; i < cap; i++ { // the holders: they finish while (or after) the listener runs
						wg.Add(1)
						go func() {
							defer wg.Done()
							failsafe.NewExecutor[int](bh).Get(func() (int, error) { time.Sleep(holderEnds); return 1, nil })
						}()
					}
					time.Sleep(time.Millisecond)
					ran := false
					var err error
					fn := func() (int, error) { ran = true; return 2, nil }
					if async {
						_, err = failsafe.NewExecutor[int](bh).GetAsync(fn).Get()
					} else {
						_, err = failsafe.NewExecutor[int](bh).Get(fn)
					}
					wg.Wait()
					time.Sleep(time.Second)
					synctest.Wait()
					free := 0
					for free <= cap && bh.TryAcquirePermit() {
						free++
					}
					if ran || !errors.Is(err, bulkhead.ErrFull) || free != cap {
						bad++
						if detail == "" {
							detail = fmt.Sprintf("maxConcurrency %d, holders finish after %v, async %v: function ran %v, error %v, %d permits free afterwards", cap, holderEnds, async, ran, err, free)
						}
					}
				})
			}
		}
	}
	addProbe(w, 24, "a full bulkhead with an OnFull listener that takes 20 ms while the holders finish: the refused execution reports ErrFull, its function does not run, every permit is free afterwards", trials, bad, detail)
	w.Close("bulkhead OnFull listeners that take (virtual) time while permits are handed back. Every case is non-trivial.", nil)
}

// C04 / C03 (real time: goroutines queueing on the breaker's mutex are not "durably blocked", a bubble's clock would stand still):
// state-change listeners that take time.  While the OnOpen listener of the failure that opened the breaker is still
// running, the breaker is open for everybody else: an execution arriving meanwhile is rejected and its function does not run;
// while an OnHalfOpen listener runs, no more trials are admitted than the half-open capacity.
func driveSlowStateListenerProbes(t *testing.T, name string) {
	w := NewCaseWriterNamed(t, name, "Corr.Probe")
	trials, bad, detail := 0, 0, ""
	for _, which := range []string{"OnOpen", "OnStateChanged", "OnHalfOpen"} {
		for _, arrivals := range []int{1, 4} {
			trials++
			func() {
				slow := func(circuitbreaker.StateChangedEvent) { time.Sleep(50 * time.Millisecond) }
				// (generous margins: on a loaded machine goroutines start late -- the open period outlasts every arrival, and the
				// half-open trials outlast every later arrival)
				delay := 5 * time.Second
				if which == "OnHalfOpen" {
					delay = 100 * time.Millisecond
				}
				b := circuitbreaker.Builder[int]().WithFailureThreshold(1).WithDelay(delay).WithSuccessThreshold(2)
				switch which {
				case "OnOpen":
					b = b.OnOpen(slow)
				case "OnStateChanged":
					b = b.OnStateChanged(slow)
				default:
					b = b.OnHalfOpen(slow)
				}
				cb := b.Build()
				var mu sync.Mutex
				ranWhileOpen, concurrent, maxConcurrent, rejected := 0, 0, 0, 0
				var wg sync.WaitGroup
				arrive := func(hold time.Duration, countOpen bool) {
					defer wg.Done()
					_, err := failsafe.NewExecutor[int](cb).Get(func() (int, error) {
						mu.Lock()
						if countOpen {
							ranWhileOpen++
						}
						concurrent++
						if concurrent > maxConcurrent {
							maxConcurrent = concurrent
						}
						mu.Unlock()
						time.Sleep(hold)
						mu.Lock()
						concurrent--
						mu.Unlock()
						return 1, nil
					})
					if errors.Is(err, circuitbreaker.ErrOpen) {
						mu.Lock()
						rejected++
						mu.Unlock()
					}
				}
				if which == "OnHalfOpen" {
					cb.Open()
					time.Sleep(120 * time.Millisecond) // the delay has elapsed: the next arrival half-opens the breaker (slow listener), capacity 2
					for i := 0; i < 2+arrivals; i++ {
						wg.Add(1)
						go arrive(1500*time.Millisecond, false)
						time.Sleep(5 * time.Millisecond)
					}
					wg.Wait()
					if maxConcurrent > 2 || rejected != arrivals {
						bad++
						if detail == "" {
							detail = fmt.Sprintf("slow OnHalfOpen listener, %d arrivals: %d trials at once (capacity 2), %d rejected", 2+arrivals, maxConcurrent, rejected)
						}
					}
					return
				}
				wg.Add(1)
				go func() { // the failure that opens the breaker; its listener takes 50 ms
					defer wg.Done()
					failsafe.NewExecutor[int](cb).Get(func() (int, error) { return 0, errors.New("failed") })
				}()
				time.Sleep(10 * time.Millisecond)
				for i := 0; i < arrivals; i++ {
					wg.Add(1)
					go arrive(time.Millisecond, true)
					time.Sleep(5 * time.Millisecond)
				}
				wg.Wait()
				if ranWhileOpen != 0 || rejected != arrivals {
					bad++
					if detail == "" {
						detail = fmt.Sprintf("slow %s listener, %d arrivals while it runs: %d functions ran, %d rejected", which, arrivals, ranWhileOpen, rejected)
					}
				}
			}()
		}
	}
	addProbe(w, 25, "breaker state-change listeners that take 50 ms: arrivals while the opening failure's listener runs are rejected; no more trials than the capacity while the half-open listener runs", trials, bad, detail)
	w.Close("circuit breaker state-change listeners that take (virtual) time, with executions arriving while they run. Every case is non-trivial.", nil)
}

// C16 / C15: what an asynchronous execution's completion listeners were told is what its ExecutionResult gives out -- also when
// Cancel() was called while it ran and nothing in the composition looked at the cancellation (no policy, a bulkhead, a cache-less
// stack): the function's own outcome is the execution's outcome, for the listeners and for Get alike.
func driveAsyncCancelEventProbes(t *testing.T) {
	w := NewCaseWriterNamed(t, "C16q", "Corr.Probe")
	trials, bad, detail := 0, 0, ""
	for _, stack := range []string{"none", "bulkhead", "retry"} {
		for _, fails := range []bool{false, true} {
			for _, entry := range []string{"GetAsync", "GetWithExecutionAsync"} {
				trials++
				synctest.Test(t, func(t *testing.T) {
					var pols []failsafe.Policy[int]
					switch stack {
					case "bulkhead":
						pols = append(pols, bulkhead.Builder[int](2).Build())
					case "retry":
						pols = append(pols, retrypolicy.Builder[int]().WithMaxRetries(1).Build())
					}
					type told struct {
						r   int
						err error
						ok  bool
					}
					var done, verdict told
					ex := failsafe.NewExecutor[int](pols...).
						OnDone(func(e failsafe.ExecutionDoneEvent[int]) { done = told{e.Result, e.Error, true} }).
						OnSuccess(func(e failsafe.ExecutionDoneEvent[int]) { verdict = told{e.Result, e.Error, true} }).
						OnFailure(func(e failsafe.ExecutionDoneEvent[int]) { verdict = told{e.Result, e.Error, false} })
					fn := func() (int, error) { // ignores the cancellation
						time.Sleep(100 * time.Millisecond)
						if fails {
							return 0, errors.New("failed")
						}
						return 7, nil
					}
					var ar failsafe.ExecutionResult[int]
					if entry == "GetAsync" {
						ar = ex.GetAsync(fn)
					} else {
						ar = ex.GetWithExecutionAsync(func(failsafe.Execution[int]) (int, error) { return fn() })
					}
					time.Sleep(time.Millisecond)
					ar.Cancel()
					r, err := ar.Get()
					time.Sleep(time.Second)
					synctest.Wait()
					r2, err2 := ar.Get()
					same := func(a, b error) bool { return a == b || (a != nil && b != nil && a.Error() == b.Error()) }
					if !done.ok || r != done.r || !same(err, done.err) || r != verdict.r || !same(err, verdict.err) || r2 != r || !same(err2, err) {
						bad++
						if detail == "" {
							detail = fmt.Sprintf("%s, stack %s, function fails %v: Get gave (%d, %v), OnDone was told (%d, %v), the verdict listener (%d, %v, success %v)", entry, stack, fails, r, err, done.r, done.err, verdict.r, verdict.err, verdict.ok)
						}
					}
				})
			}
		}
	}
	addProbe(w, 26, "an asynchronous execution on which Cancel() is called while its function (which ignores the cancellation) runs: Get / a later Get give out what the completion listeners were told", trials, bad, detail)
	w.Close("asynchronous executions cancelled through their ExecutionResult while a function that ignores the cancellation runs, with no policy, a bulkhead or a retry policy. Every case is non-trivial.", nil)
}

// C09: user code of the hedge policy that takes time -- the delay function, a cancel predicate.  (i) Two attempts produce acceptable
// results while the loop is busy in a slow delay function: the caller gets the first one, that attempt is not cancelled, the other
// one is.  (ii) The last attempts finish close together with results no cancel condition accepts while a slow predicate judges them:
// the last finisher's result is still delivered.
func driveSlowHedgeUserCodeProbes(t *testing.T) {
	w := NewCaseWriterNamed(t, "C09p", "Corr.Probe")
	trials, bad, detail := 0, 0, ""
	for _, second := range []time.Duration{30 * time.Millisecond, 20 * time.Millisecond, 45 * time.Millisecond} {
		trials++
		synctest.Test(t, func(t *testing.T) {
			var mu sync.Mutex
			var execs []failsafe.Execution[int]
			hp := hedgepolicy.BuilderWithDelayFunc[int](func(e failsafe.ExecutionAttempt[int]) time.Duration {
				if e.Hedges() >= 1 {
					time.Sleep(50 * time.Millisecond) // computing the delay before the second hedge takes a while
				}
				return 10 * time.Millisecond
			}).WithMaxHedges(2).Build()
			r, err := failsafe.NewExecutor[int](hp).GetWithExecution(func(e failsafe.Execution[int]) (int, error) {
				mu.Lock()
				k := len(execs)
				execs = append(execs, e)
				mu.Unlock()
				if k == 0 {
					time.Sleep(30 * time.Millisecond)
				} else {
					time.Sleep(second)
				}
				return 100 + k, nil
			})
			mu.Lock()
			cancelled := make([]bool, len(execs))
			for i, e := range execs {
				cancelled[i] = e.IsCanceled()
			}
			mu.Unlock()
			time.Sleep(time.Second)
			synctest.Wait()
			ok := err == nil && (r == 100 || r == 101) && len(cancelled) >= 2
			if ok {
				for i, c := range cancelled {
					if c == (i == r-100) { // the winner is not cancelled, everybody else is
						ok = false
					}
				}
			}
			if !ok {
				bad++
				if detail == "" {
					detail = fmt.Sprintf("second attempt takes %v: returned (%d, %v), cancelled at return %v", second, r, err, cancelled)
				}
			}
		})
	}
	for _, gap := range []time.Duration{0, 20 * time.Millisecond, 100 * time.Millisecond} {
		trials++
		synctest.Test(t, func(t *testing.T) {
			hp := hedgepolicy.BuilderWithDelay[int](10 * time.Millisecond).WithMaxHedges(1).
				CancelIf(func(int, error) bool { time.Sleep(150 * time.Millisecond); return false }).Build() // a slow predicate that accepts nothing
			type out struct {
				r   int
				err error
			}
			ch := make(chan out, 1)
			go func() {
				r, err := failsafe.NewExecutor[int](hp).GetWithExecution(func(e failsafe.Execution[int]) (int, error) {
					if e.IsHedge() {
						time.Sleep(90*time.Millisecond + gap)
						return 2, nil
					}
					time.Sleep(100 * time.Millisecond)
					return 1, nil
				})
				ch <- out{r, err}
			}()
			select {
			case o := <-ch:
				if o.err != nil || (o.r != 1 && o.r != 2) {
					bad++
					if detail == "" {
						detail = fmt.Sprintf("slow predicate, attempts finishing %v apart: returned (%d, %v)", gap, o.r, o.err)
					}
				}
			case <-time.After(time.Minute):
				bad++
				if detail == "" {
					detail = fmt.Sprintf("slow predicate, attempts finishing %v apart: no result delivered although every attempt finished", gap)
				}
			}
		})
	}
	addProbe(w, 27, "a hedge policy whose delay function / cancel predicate take time: the first acceptable result wins and only the others are cancelled; the last finisher's result is delivered when nothing is acceptable", trials, bad, detail)
	w.Close("hedge policies with a slow delay function (two acceptable results arrive while it runs) and a slow cancel predicate that accepts nothing (the last attempts finish while it judges them), under the virtual clock. Every case is non-trivial.", nil)
}

// C13: a backoff retry policy that an enclosing retry policy re-enters in the middle of its sequence.  The k-th backoff delay of an
// execution is min(delay * factor^k, maxDelay) however the k retries are spread over entries: the sequence goes on where it was.
func driveReenteredBackoffProbes(t *testing.T) {
	w := NewCaseWriterNamed(t, "C13p", "Corr.Probe")
	trials, bad, detail := 0, 0, ""
	errA, errB := errors.New("A"), errors.New("B")
	for _, jitter := range []time.Duration{0, 100 * time.Microsecond} {
		for _, between := range []string{"", "timeout"} {
			trials++
			synctest.Test(t, func(t *testing.T) {
				var delays []time.Duration
				ib := retrypolicy.Builder[int]().HandleErrors(errB).WithMaxRetries(6).WithBackoff(time.Millisecond, 64*time.Millisecond).
					OnRetryScheduled(func(e failsafe.ExecutionScheduledEvent[int]) { delays = append(delays, e.Delay) })
				if jitter > 0 {
					ib = ib.WithJitter(jitter)
				}
				outer := retrypolicy.Builder[int]().HandleErrors(errA).WithMaxRetries(3).Build()
				pols := []failsafe.Policy[int]{outer}
				if between == "timeout" {
					pols = append(pols, timeout.With[int](time.Hour))
				}
				pols = append(pols, ib.Build())
				script := []error{errB, errB, errA, errB, errB, errA, errB, nil}
				i := 0
				failsafe.NewExecutor[int](pols...).Get(func() (int, error) {
					e := script[i]
					if i < len(script)-1 {
						i++
					}
					return 0, e
				})
				want := []time.Duration{1, 2, 4, 8, 16}
				ok := len(delays) == len(want)
				if ok {
					for k, d := range delays {
						lo, hi := want[k]*time.Millisecond-jitter, want[k]*time.Millisecond+jitter
						if d < lo || d > hi {
							ok = false
						}
					}
				}
				if !ok {
					bad++
					if detail == "" {
						detail = fmt.Sprintf("jitter %v, %q between the two retry policies: backoff delays %v, want 1ms 2ms 4ms 8ms 16ms (within the jitter)", jitter, between, delays)
					}
				}
			})
		}
	}
	addProbe(w, 28, "a backoff retry policy re-entered by an enclosing retry policy: the backoff sequence goes on where it was (1, 2, 4, 8, 16 ms)", trials, bad, detail)
	w.Close("nested retry policies, the inner one with a backoff, re-entered by the outer one after errors only the outer one handles; OnRetryScheduled delays of the inner policy. Every case is non-trivial.", nil)
}

// C08: Retry(Hedge(P(fn))) with a policy P inside the hedge that looks at the cancellation of its attempt (an inner retry policy,
// a rate limiter wait).  The hedged run ends with a failure and cancels its loser, which leaves P on P's cancellation path; the
// outer retry policy schedules a retry in 3 s; during that delay the execution is cancelled from outside: it ends promptly and
// the caller gets the cause of THAT cancellation (one source: nothing else cancelled the execution).
func driveCancelAfterHedgeLoserProbes(t *testing.T) {
	w := NewCaseWriterNamed(t, "C08p", "Corr.Probe")
	trials, bad, detail := 0, 0, ""
	errAttempt, errTransient := errors.New("attempt failed"), errors.New("transient")
	for _, inside := range []string{"retry", "limiter"} {
		for _, source := range []string{"deadline", "cancel", "async-cancel"} {
			trials++
			synctest.Test(t, func(t *testing.T) {
				var p failsafe.Policy[int]
				if inside == "retry" {
					p = retrypolicy.Builder[int]().HandleErrors(errTransient).WithDelay(10 * time.Millisecond).Build()
				} else {
					p = ratelimiter.SmoothBuilder[int](1, 2*time.Second).WithMaxWaitTime(10 * time.Second).Build()
				}
				rp := retrypolicy.Builder[int]().WithDelay(3 * time.Second).WithMaxRetries(2).Build()
				hp := hedgepolicy.BuilderWithDelay[int](20 * time.Millisecond).Build()
				fn := func(e failsafe.Execution[int]) (int, error) { // a cooperating attempt that takes 60 ms and fails
					select {
					case <-time.After(60 * time.Millisecond):
					case <-e.Canceled():
					}
					return 0, errAttempt
				}
				ctx := context.Background()
				var cancel context.CancelFunc = func() {}
				var want error
				switch source {
				case "deadline":
					ctx, cancel = context.WithTimeout(ctx, 400*time.Millisecond)
					want = context.DeadlineExceeded
				case "cancel":
					ctx, cancel = context.WithCancel(ctx)
					time.AfterFunc(400*time.Millisecond, cancel)
					want = context.Canceled
				default:
					want = failsafe.ErrExecutionCanceled
				}
				defer cancel()
				t0 := time.Now()
				ex := failsafe.NewExecutor[int](rp, hp, p).WithContext(ctx)
				var err error
				if source == "async-cancel" {
					ar := ex.GetWithExecutionAsync(fn)
					time.AfterFunc(400*time.Millisecond, ar.Cancel)
					_, err = ar.Get()
				} else {
					_, err = ex.GetWithExecution(fn)
				}
				took := time.Since(t0)
				time.Sleep(time.Minute)
				synctest.Wait()
				if !errors.Is(err, want) || took != 400*time.Millisecond {
					bad++
					if detail == "" {
						detail = fmt.Sprintf("%s inside the hedge, %s at 400ms: ended after %v with %v (want %v at 400ms)", inside, source, took, err, want)
					}
				}
			})
		}
	}
	addProbe(w, 29, "Retry(Hedge(P(fn))), cancelled from outside during the outer retry delay after a hedged run whose loser left P through its cancellation path: ends at the cancellation with its cause", trials, bad, detail)
	w.Close("a retry policy around a hedge policy around an inner retry policy / a rate limiter, under the virtual clock; deadline, context cancellation and ExecutionResult.Cancel() during the outer retry delay. Every case is non-trivial.", nil)
}
